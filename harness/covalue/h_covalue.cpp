// h_covalue.cpp — C20: "independently for every call handled by the same expectation".
// Completion and yield expressions that are LVALUES of a type whose move empties the source (std::string beyond the small-string
// size, std::vector): every coroutine handled by the expectation must produce the value, and the user's object must be left as it
// was, whatever the order in which the coroutines are resumed; eager and lazy coroutine types.
// Output: PASS/FAIL <case> lines and a final DONE line.  -std=c++20, ASan + UBSan, built from /repo's current tree.
#include <trompeloeil.hpp>
#include <coroutine>
#include <cstdio>
#include <optional>
#include <string>
#include <vector>

using trompeloeil::_;

static int failed = 0;
static int reports = 0;
static void check(bool ok, std::string const& name)
{
  std::printf("%s %s\n", ok ? "PASS" : "FAIL", name.c_str());
  if (!ok) ++failed;
}

template <typename T, bool Eager>
struct Task {
  struct promise_type {
    std::optional<T> cur, ret;
    std::exception_ptr exc;
    Task get_return_object() { return Task{std::coroutine_handle<promise_type>::from_promise(*this)}; }
    auto initial_suspend() noexcept
    {
      struct A {
        bool await_ready() const noexcept { return Eager; }
        void await_suspend(std::coroutine_handle<>) const noexcept {}
        void await_resume() const noexcept {}
      };
      return A{};
    }
    std::suspend_always final_suspend() noexcept { return {}; }
    std::suspend_always yield_value(T v) { cur = std::move(v); return {}; }
    void return_value(T v) { ret = std::move(v); }
    void unhandled_exception() { exc = std::current_exception(); }
  };
  using handle = std::coroutine_handle<promise_type>;
  handle h{};
  bool started = Eager;     // an eager coroutine has already run to its first suspension point when the call returns
  bool fresh = Eager;       // the value the coroutine is suspended at has not been handed out yet
  explicit Task(handle h_) : h(h_) {}
  Task(Task&& o) noexcept : h(o.h), started(o.started), fresh(o.fresh) { o.h = {}; }
  ~Task() { if (h) h.destroy(); }
  bool await_ready() const { return true; }
  void await_suspend(std::coroutine_handle<>) const {}
  T await_resume() const { return T{}; }
  // next yielded value, or nothing when the coroutine has completed
  std::optional<T> next()
  {
    if (!started) { started = true; h.resume(); }
    else if (!fresh && !h.done()) { h.resume(); }
    fresh = false;
    if (h.promise().exc) std::rethrow_exception(h.promise().exc);
    if (h.done()) return std::nullopt;
    return h.promise().cur;
  }
  T result() { while (next()) {} return *h.promise().ret; }
};

using Str = std::string;
using Vec = std::vector<int>;
static Str const LONG = "a string long enough not to live in the small-string buffer of std::string";

template <bool Eager>
struct M {
  MAKE_MOCK0(s0, (Task<Str, Eager>()));
  MAKE_MOCK1(s1, (Task<Str, Eager>(Str&)));
  MAKE_MOCK0(v0, (Task<Vec, Eager>()));
};

template <bool Eager>
void family(char const* tag)
{
  std::string t = tag;
  {
    M<Eager> m; Str var = LONG;
    REQUIRE_CALL(m, s0()).TIMES(3).LR_CO_RETURN(var);
    auto a = m.s0(); auto b = m.s0(); auto c = m.s0();
    Str rb = b.result(), ra = a.result(), rc = c.result();     // resumed in another order than created
    check(ra == LONG && rb == LONG && rc == LONG, t + ": LR_CO_RETURN(lvalue string), three calls: every coroutine completes with the value");
    check(var == LONG, t + ": LR_CO_RETURN(lvalue string): the user's object is left as it was");
  }
  if constexpr (Eager)      // a clause that names a parameter and is evaluated after the call returned is known finding F12: eager only
  {
    M<Eager> m; Str arg = LONG;
    REQUIRE_CALL(m, s1(_)).TIMES(2).CO_RETURN(_1);
    auto a = m.s1(arg); auto b = m.s1(arg);
    Str ra = a.result(), rb = b.result();
    check(ra == LONG && rb == LONG, t + ": CO_RETURN(_1) on a T& parameter, two calls: both complete with the argument's value");
    check(arg == LONG, t + ": CO_RETURN(_1): the caller's argument is left as it was");
  }
  {
    M<Eager> m; Str y1 = LONG + "1", y2 = LONG + "2", r = LONG + "r";
    REQUIRE_CALL(m, s0()).TIMES(2).LR_CO_YIELD(y1).LR_CO_YIELD(y2).LR_CO_RETURN(r);
    auto a = m.s0(); auto b = m.s0();
    auto a1 = a.next(); auto b1 = b.next(); auto b2 = b.next(); auto a2 = a.next();
    Str ra = a.result(), rb = b.result();
    check(a1 && *a1 == LONG + "1" && a2 && *a2 == LONG + "2" && b1 && *b1 == LONG + "1" && b2 && *b2 == LONG + "2",
          t + ": LR_CO_YIELD(lvalue strings), two interleaved coroutines: both see the yields in declaration order");
    check(ra == LONG + "r" && rb == LONG + "r", t + ": ... and both complete with the CO_RETURN value");
    check(y1 == LONG + "1" && y2 == LONG + "2" && r == LONG + "r", t + ": ... and the user's objects are left as they were");
  }
  {
    M<Eager> m; Vec v{1, 2, 3, 4, 5, 6, 7, 8, 9, 10, 11, 12, 13, 14, 15, 16, 17};
    Vec const copy = v;
    REQUIRE_CALL(m, v0()).TIMES(2).LR_CO_RETURN(v);
    auto a = m.v0(); auto b = m.v0();
    check(b.result() == copy && a.result() == copy && v == copy, t + ": LR_CO_RETURN(lvalue vector), two calls");
  }
  {
    M<Eager> m; Str var = LONG;
    REQUIRE_CALL(m, s0()).TIMES(2).CO_RETURN(var);            // by-copy capture: the expectation's own copy serves every call
    auto a = m.s0(); auto b = m.s0();
    check(a.result() == LONG && b.result() == LONG, t + ": CO_RETURN(captured copy), two calls");
  }
}

// ---- _1 … _15 inside the CO_ clauses (each clause macro has its own fifteen binding lines): for an eagerly started coroutine the
// expression of the first suspension point / of the completion is evaluated during the call, and every _k in it must be the
// caller's argument.  (Evaluation after the call has returned is known finding F12 and is not exercised here.)
struct M15 {
  MAKE_MOCK15(f, (Task<int, true>(int&, int&, int&, int&, int&, int&, int&, int&, int&, int&, int&, int&, int&, int&, int&)));
};
static bool all_alias(void const* const* seen, int const* a)
{
  bool ok = true;
  for (int k = 1; k <= 15; ++k) ok = ok && seen[k] == &a[k];
  return ok;
}
static void arity15()
{
  M15 m;
  int a[16];
  for (int k = 0; k < 16; ++k) a[k] = k;
  {
    void const* seen[16] = {};
    REQUIRE_CALL(m, f(_, _, _, _, _, _, _, _, _, _, _, _, _, _, _)).LR_CO_RETURN((seen[1] = &_1, seen[2] = &_2, seen[3] = &_3, seen[4] = &_4, seen[5] = &_5, seen[6] = &_6, seen[7] = &_7, seen[8] = &_8, seen[9] = &_9, seen[10] = &_10, seen[11] = &_11, seen[12] = &_12, seen[13] = &_13, seen[14] = &_14, seen[15] = &_15, 7));
    auto t = m.f(a[1], a[2], a[3], a[4], a[5], a[6], a[7], a[8], a[9], a[10], a[11], a[12], a[13], a[14], a[15]);
    check(t.result() == 7 && all_alias(seen, a), "eager, arity 15: _1.._15 in CO_RETURN are the caller's arguments");
  }
  {
    void const* seen[16] = {};
    REQUIRE_CALL(m, f(_, _, _, _, _, _, _, _, _, _, _, _, _, _, _)).LR_CO_YIELD((seen[1] = &_1, seen[2] = &_2, seen[3] = &_3, seen[4] = &_4, seen[5] = &_5, seen[6] = &_6, seen[7] = &_7, seen[8] = &_8, seen[9] = &_9, seen[10] = &_10, seen[11] = &_11, seen[12] = &_12, seen[13] = &_13, seen[14] = &_14, seen[15] = &_15, 5)).CO_RETURN(0);
    auto t = m.f(a[1], a[2], a[3], a[4], a[5], a[6], a[7], a[8], a[9], a[10], a[11], a[12], a[13], a[14], a[15]);
    auto v = t.next();
    check(v && *v == 5 && all_alias(seen, a), "eager, arity 15: _1.._15 in CO_YIELD are the caller's arguments");
  }
  {
    void const* seen[16] = {};
    REQUIRE_CALL(m, f(_, _, _, _, _, _, _, _, _, _, _, _, _, _, _)).LR_CO_THROW((seen[1] = &_1, seen[2] = &_2, seen[3] = &_3, seen[4] = &_4, seen[5] = &_5, seen[6] = &_6, seen[7] = &_7, seen[8] = &_8, seen[9] = &_9, seen[10] = &_10, seen[11] = &_11, seen[12] = &_12, seen[13] = &_13, seen[14] = &_14, seen[15] = &_15, 42));
    auto t = m.f(a[1], a[2], a[3], a[4], a[5], a[6], a[7], a[8], a[9], a[10], a[11], a[12], a[13], a[14], a[15]);
    int thrown = 0;
    try { (void)t.result(); } catch (int v) { thrown = v; }
    check(thrown == 42 && all_alias(seen, a), "eager, arity 15: _1.._15 in CO_THROW are the caller's arguments");
  }
}

int main()
{
  trompeloeil::set_reporter([](trompeloeil::severity, char const*, unsigned long, std::string const&) { ++reports; });
  family<false>("lazy");
  family<true>("eager");
  arity15();
  check(reports == 0, "no report from any of the calls above");
  std::printf("DONE failed=%d\n", failed);
  return failed ? 1 : 0;
}
