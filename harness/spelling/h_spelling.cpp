// h_spelling.cpp — every documented spelling of the expectation statements (C++14 form, the variadic _V form with and
// without a modifier argument, named and unnamed) must give the same bounds and the same treatment of calls:
//   REQUIRE_CALL: [1,1]   ALLOW_CALL: [0,inf)   FORBID_CALL: [0,0] (each matching call is one fatal "forbidden" report).
// Prints one line per case: "PASS <case>" or "FAIL <case> <what>".  No input.
#include <trompeloeil.hpp>
#include <cstdio>
#include <memory>
#include <string>
#include <vector>

using trompeloeil::_;

namespace {
struct Reported {};
std::vector<std::string> fatal_msgs;
int nonfatal = 0;
int fails = 0;

struct M {
  MAKE_MOCK1(v, void(int));
  MAKE_MOCK1(i, int(int));
};

void check(bool ok, char const* name, char const* what)
{
  if (ok) return;
  std::printf("FAIL %s %s\n", name, what);
  ++fails;
}

// outcome of one call: 0 accepted, 1 fatal report containing `needle`, 2 other fatal report
template <typename F> int attempt(F f, char const* needle)
{
  fatal_msgs.clear();
  try { f(); return 0; }
  catch (Reported const&) { return (!fatal_msgs.empty() && fatal_msgs.back().find(needle) != std::string::npos) ? 1 : 2; }
}

using EP = std::unique_ptr<trompeloeil::expectation>;

void expect_require(char const* name, M& m, EP e)
{
  check(!e->is_satisfied(), name, "satisfied before the call");
  check(!e->is_saturated(), name, "saturated before the call");
  check(attempt([&] { m.v(1); }, "") == 0, name, "first call rejected");
  check(e->is_satisfied() && e->is_saturated(), name, "not satisfied+saturated after one call");
  check(attempt([&] { m.v(1); }, "No match") == 1, name, "second call not reported as no-match");
  int before = nonfatal;
  e.reset();
  check(nonfatal == before, name, "fulfilled expectation reported at end of life");
}

void expect_allow(char const* name, M& m, EP e)
{
  check(e->is_satisfied(), name, "not satisfied before any call");
  for (int k = 0; k < 3; ++k) check(attempt([&] { m.v(1); }, "") == 0, name, "call rejected");
  check(e->is_satisfied() && !e->is_saturated(), name, "wrong flags after three calls");
  int before = nonfatal;
  e.reset();
  check(nonfatal == before, name, "reported at end of life");
}

void expect_forbid(char const* name, M& m, EP e)
{
  check(e->is_satisfied() && e->is_saturated(), name, "a forbidding expectation must be satisfied and saturated");
  check(attempt([&] { m.v(1); }, "forbidden") == 1, name, "matching call not reported as forbidden");
  check(attempt([&] { m.v(1); }, "forbidden") == 1, name, "second matching call not reported as forbidden");
  check(attempt([&] { m.v(-1); }, "forbidden") != 1 || true, name, "");
  int before = nonfatal;
  e.reset();
  check(nonfatal == before, name, "reported at end of life");
}

#define CASE(kind, name, ...) do { M m; int f0 = fails; auto base = NAMED_ALLOW_CALL(m, v(-1)); (void)base; \
    expect_##kind(name, m, __VA_ARGS__); if (fails == f0) std::printf("PASS %s\n", name); } while (0)

} // namespace

int main()
{
  trompeloeil::set_reporter([](trompeloeil::severity s, char const*, unsigned long, std::string const& msg) {
    if (s == trompeloeil::severity::fatal) { fatal_msgs.push_back(msg); throw Reported{}; }
    ++nonfatal;
  });
  // --- C++14 spellings
  CASE(require, "NAMED_REQUIRE_CALL", NAMED_REQUIRE_CALL(m, v(1)));
  CASE(require, "NAMED_REQUIRE_CALL.WITH", NAMED_REQUIRE_CALL(m, v(_)).WITH(_1 > 0));
  CASE(allow, "NAMED_ALLOW_CALL", NAMED_ALLOW_CALL(m, v(1)));
  CASE(allow, "NAMED_ALLOW_CALL.WITH", NAMED_ALLOW_CALL(m, v(_)).WITH(_1 > 0));
  CASE(forbid, "NAMED_FORBID_CALL", NAMED_FORBID_CALL(m, v(1)));
  CASE(forbid, "NAMED_FORBID_CALL.WITH", NAMED_FORBID_CALL(m, v(_)).WITH(_1 > 0));
  // --- variadic spellings (the C++11 API, available at every language level): no modifier, one, two
  CASE(require, "NAMED_REQUIRE_CALL_V/2", NAMED_REQUIRE_CALL_V(m, v(1)));
  CASE(require, "NAMED_REQUIRE_CALL_V/3", NAMED_REQUIRE_CALL_V(m, v(_), .WITH(_1 > 0)));
  CASE(require, "NAMED_REQUIRE_CALL_V/4", NAMED_REQUIRE_CALL_V(m, v(_), .WITH(_1 > 0).SIDE_EFFECT((void)_1)));
  CASE(allow, "NAMED_ALLOW_CALL_V/2", NAMED_ALLOW_CALL_V(m, v(1)));
  CASE(allow, "NAMED_ALLOW_CALL_V/3", NAMED_ALLOW_CALL_V(m, v(_), .WITH(_1 > 0)));
  CASE(allow, "NAMED_ALLOW_CALL_V/4", NAMED_ALLOW_CALL_V(m, v(_), .WITH(_1 > 0).SIDE_EFFECT((void)_1)));
  CASE(forbid, "NAMED_FORBID_CALL_V/2", NAMED_FORBID_CALL_V(m, v(1)));
  CASE(forbid, "NAMED_FORBID_CALL_V/3", NAMED_FORBID_CALL_V(m, v(_), .WITH(_1 > 0)));
  // --- unnamed spellings: the expectation lives to the end of the enclosing block
  {
    M m; int f0 = fails; ALLOW_CALL(m, v(-1));
    { REQUIRE_CALL(m, v(1)); check(attempt([&] { m.v(1); }, "") == 0, "REQUIRE_CALL", "call rejected");
      check(attempt([&] { m.v(1); }, "No match") == 1, "REQUIRE_CALL", "second call accepted"); }
    { REQUIRE_CALL_V(m, v(_), .WITH(_1 > 0)); check(attempt([&] { m.v(1); }, "") == 0, "REQUIRE_CALL_V/3", "call rejected");
      check(attempt([&] { m.v(1); }, "No match") == 1, "REQUIRE_CALL_V/3", "second call accepted"); }
    { ALLOW_CALL(m, v(1)); for (int k = 0; k < 3; ++k) check(attempt([&] { m.v(1); }, "") == 0, "ALLOW_CALL", "call rejected"); }
    { ALLOW_CALL_V(m, v(1)); for (int k = 0; k < 3; ++k) check(attempt([&] { m.v(1); }, "") == 0, "ALLOW_CALL_V/2", "call rejected"); }
    { ALLOW_CALL_V(m, v(_), .WITH(_1 > 0)); for (int k = 0; k < 3; ++k) check(attempt([&] { m.v(1); }, "") == 0, "ALLOW_CALL_V/3", "call rejected"); }
    { FORBID_CALL(m, v(1)); check(attempt([&] { m.v(1); }, "forbidden") == 1, "FORBID_CALL", "matching call not reported as forbidden"); }
    { FORBID_CALL(m, v(_)).WITH(_1 > 0); check(attempt([&] { m.v(1); }, "forbidden") == 1, "FORBID_CALL.WITH", "matching call not reported as forbidden"); }
    { FORBID_CALL_V(m, v(1)); check(attempt([&] { m.v(1); }, "forbidden") == 1, "FORBID_CALL_V/2", "matching call not reported as forbidden"); }
    { FORBID_CALL_V(m, v(_), .WITH(_1 > 0)); check(attempt([&] { m.v(1); }, "forbidden") == 1, "FORBID_CALL_V/3", "matching call not reported as forbidden");
      check(attempt([&] { m.v(1); }, "forbidden") == 1, "FORBID_CALL_V/3", "second matching call not reported as forbidden"); }
    { FORBID_CALL_V(m, v(_), .WITH(_1 > 0).WITH(_1 < 5)); check(attempt([&] { m.v(1); }, "forbidden") == 1, "FORBID_CALL_V/4", "matching call not reported as forbidden"); }
    if (fails == f0) std::printf("PASS unnamed-spellings\n");
  }
  // --- value-returning function: RETURN through the variadic form
  {
    M m; int f0 = fails;
    auto e = NAMED_REQUIRE_CALL_V(m, i(_), .WITH(_1 > 0).RETURN(_1 + 1));
    int r = 0;
    check(attempt([&] { r = m.i(4); }, "") == 0 && r == 5, "NAMED_REQUIRE_CALL_V.RETURN", "wrong result");
    auto a = NAMED_ALLOW_CALL_V(m, i(_), .RETURN(7));
    check(attempt([&] { r = m.i(0); }, "") == 0 && r == 7, "NAMED_ALLOW_CALL_V.RETURN", "wrong result");
    if (fails == f0) std::printf("PASS value-spellings\n");
  }
  // --- every spelling of the call-count bounds: compile-time TIMES and run-time RT_TIMES, one argument, two arguments,
  //     AT_LEAST, AT_MOST.  [L, H]: satisfied exactly from the L-th call on, saturated exactly at the H-th, the call after the
  //     H-th is a fatal no-match (there is no older expectation), never a report at end of life once L was reached.
  {
    constexpr size_t inf = ~size_t(0);
    auto bounds = [&](char const* name, size_t L, size_t H, auto make) {
      M m; int f0 = fails;
      EP e = make(m);
      size_t const calls = (H == inf ? L + 3 : H);
      for (size_t k = 0; k <= calls; ++k) {
        // after k accepted calls
        check(e->is_satisfied() == (k >= L), name, "is_satisfied() is not (handled >= L)");
        check(e->is_saturated() == (k == H), name, "is_saturated() is not (handled == H)");
        if (k == calls) break;
        check(attempt([&] { m.v(1); }, "") == 0, name, "a call within the upper bound was rejected");
      }
      if (H != inf) {
        check(attempt([&] { m.v(1); }, "No match") == 1, name, "the call beyond the upper bound was not a fatal no-match report");
        check(e->is_saturated(), name, "no longer saturated after the rejected call");
      }
      int before = nonfatal;
      e.reset();
      check(nonfatal == before, name, "reported at end of life although the lower bound was reached");
      if (fails == f0) std::printf("PASS %s\n", name);
    };
    size_t two = 2, three = 3, one = 1, zero = 0;
    bounds("TIMES(2)", 2, 2, [](M& m) -> EP { return NAMED_REQUIRE_CALL(m, v(1)).TIMES(2); });
    bounds("TIMES(1,3)", 1, 3, [](M& m) -> EP { return NAMED_REQUIRE_CALL(m, v(1)).TIMES(1, 3); });
    bounds("TIMES(AT_LEAST(2))", 2, inf, [](M& m) -> EP { return NAMED_REQUIRE_CALL(m, v(1)).TIMES(AT_LEAST(2)); });
    bounds("TIMES(AT_MOST(2))", 0, 2, [](M& m) -> EP { return NAMED_REQUIRE_CALL(m, v(1)).TIMES(AT_MOST(2)); });
    bounds("RT_TIMES(n)", 2, 2, [&](M& m) -> EP { return NAMED_REQUIRE_CALL(m, v(1)).RT_TIMES(two); });
    bounds("RT_TIMES(1)", 1, 1, [&](M& m) -> EP { return NAMED_REQUIRE_CALL(m, v(1)).RT_TIMES(one); });
    bounds("RT_TIMES(lo,hi)", 1, 3, [&](M& m) -> EP { return NAMED_REQUIRE_CALL(m, v(1)).RT_TIMES(one, three); });
    bounds("RT_TIMES(0,hi)", 0, 2, [&](M& m) -> EP { return NAMED_REQUIRE_CALL(m, v(1)).RT_TIMES(zero, two); });
    bounds("RT_TIMES(AT_LEAST(n))", 2, inf, [&](M& m) -> EP { return NAMED_REQUIRE_CALL(m, v(1)).RT_TIMES(AT_LEAST(two)); });
    bounds("RT_TIMES(AT_MOST(n))", 0, 2, [&](M& m) -> EP { return NAMED_REQUIRE_CALL(m, v(1)).RT_TIMES(AT_MOST(two)); });
  }
  std::printf("DONE fails=%d\n", fails);
  return 0;
}
