// h_coro.cpp — mocked coroutines driven through a line protocol (C++20).  The coroutine return
// types (lazy / eager "pullers", value / void completion) are the harness' own.
#include <trompeloeil.hpp>
#include <coroutine>
#include <exception>
#include <iostream>
#include <map>
#include <memory>
#include <optional>
#include <sstream>
#include <stdexcept>
#include <string>
#include <vector>

namespace hc {

std::vector<std::string> evs;
inline void ev(std::string s) { evs.push_back(std::move(s)); }

template <bool Eager, bool VoidRet>
struct Puller;

// how the promise takes a yielded value: by value (lazy pullers) or by rvalue reference only (eager pullers, "sink" style:
// an lvalue of the value type does not bind).  The CO_YIELD expressions are of type long, not int, so that the library's own
// `p.yield_value(r)` check (r an lvalue of the expression's type) goes through a conversion temporary in both cases.
template <bool RvalueOnly> struct YieldPolicy;
template <> struct YieldPolicy<false> {
  std::optional<int> cur;
  std::suspend_always yield_value(int v) { cur = v; return {}; }
};
template <> struct YieldPolicy<true> {
  std::optional<int> cur;
  std::suspend_always yield_value(int&& v) { cur = v; return {}; }
};

template <bool Eager, bool VoidRet>
struct PromiseBase : YieldPolicy<Eager> {
  std::optional<int> ret;
  bool completed = false;
  std::exception_ptr exc;
  auto initial_suspend() noexcept
  {
    struct A {
      bool await_ready() const noexcept { return Eager; }
      void await_suspend(std::coroutine_handle<>) const noexcept {}
      void await_resume() const noexcept {}
    };
    return A{};
  }
  std::suspend_always final_suspend() noexcept { return {}; }
  void unhandled_exception() { exc = std::current_exception(); }
};

template <bool Eager>
struct PromiseV : PromiseBase<Eager, false> {
  Puller<Eager, false> get_return_object();
  void return_value(int v) { this->ret = v; this->completed = true; }
};
template <bool Eager>
struct PromiseN : PromiseBase<Eager, true> {
  Puller<Eager, true> get_return_object();
  void return_void() { this->completed = true; }
};

template <bool Eager, bool VoidRet>
struct Puller {
  using promise_type = std::conditional_t<VoidRet, PromiseN<Eager>, PromiseV<Eager>>;
  using handle = std::coroutine_handle<promise_type>;
  handle h{};
  bool first = true;
  Puller() = default;
  explicit Puller(handle h_) : h(h_) {}
  Puller(Puller&& o) noexcept : h(o.h), first(o.first) { o.h = {}; }
  Puller& operator=(Puller&& o) noexcept { if (h) h.destroy(); h = o.h; first = o.first; o.h = {}; return *this; }
  ~Puller() { if (h) h.destroy(); }
  // trompeloeil derives the value type of the coroutine from await_resume()
  bool await_ready() const { return true; }
  void await_suspend(std::coroutine_handle<>) const {}
  std::conditional_t<VoidRet, void, int> await_resume() const { if constexpr (!VoidRet) return 0; }

  std::string next()
  {
    auto& p = h.promise();
    bool resume = !(Eager && first);
    first = false;
    if (resume) {
      if (h.done()) return "done";
      p.cur.reset();
      h.resume();
    }
    if (p.exc) { p.exc = nullptr; return "threw"; }
    if (p.cur) { int v = *p.cur; p.cur.reset(); return "y:" + std::to_string(v); }
    if (h.done()) {
      if (VoidRet) return "rvoid";
      return "r:" + std::to_string(p.ret.value_or(-999));
    }
    return "stuck";
  }
};
template <bool Eager> Puller<Eager, false> PromiseV<Eager>::get_return_object()
{ return Puller<Eager, false>{std::coroutine_handle<PromiseV<Eager>>::from_promise(*this)}; }
template <bool Eager> Puller<Eager, true> PromiseN<Eager>::get_return_object()
{ return Puller<Eager, true>{std::coroutine_handle<PromiseN<Eager>>::from_promise(*this)}; }

struct Ctx {
  int id = 0;
  std::vector<std::pair<int, int>> ys;   // (kind 0 value / 1 throws, value)
  int rkind = 0;                          // 0 value, 1 void, 2 throws from the expression, 3 CO_THROW
  int rval = 0;
};

long y(Ctx const* c, int i)
{
  ev("evalY e" + std::to_string(c->id) + " " + std::to_string(i));
  auto const& s = c->ys.at(static_cast<size_t>(i));
  if (s.first == 1) throw std::runtime_error("std");
  return s.second;
}
int r(Ctx const* c)
{
  ev("evalR e" + std::to_string(c->id));
  if (c->rkind == 2) throw std::runtime_error("std");
  return c->rval;
}
void rv(Ctx const* c)
{
  ev("evalR e" + std::to_string(c->id));
  if (c->rkind == 2) throw std::runtime_error("std");
}
std::runtime_error t(Ctx const* c)
{
  ev("evalR e" + std::to_string(c->id));
  return std::runtime_error("cothrow");
}
void fx(Ctx const* c) { ev("fx e" + std::to_string(c->id)); }

struct CM {
  MAKE_MOCK0(lz, (Puller<false, false>()));
  MAKE_MOCK0(eg, (Puller<true, false>()));
  MAKE_MOCK0(lzv, (Puller<false, true>()));
  MAKE_MOCK0(egv, (Puller<true, true>()));
};

using ExpPtr = std::unique_ptr<trompeloeil::expectation>;

// NY yields, then the completion clause; RK: 0 CO_RETURN(value) 1 CO_RETURN() 3 CO_THROW
// the two halves of TROMPELOEIL_REQUIRE_CALL_OBJ, so that clauses can be added by helper templates
#define HC_VALID(fn) ::trompeloeil::call_validator_t<decltype(m.trompeloeil_self_##fn())>{m}
#define HC_BASE(fn) ::trompeloeil::detail::conditional_t<false, decltype(m.fn()), decltype(m.trompeloeil_tag_##fn())> \
    {__FILE__, static_cast<unsigned long>(__LINE__), "m." #fn "()"}.fn().SIDE_EFFECT(hc::fx(c)).TIMES(2)
// the CO_YIELD clauses number FROM .. TO-1
template <int FROM, int TO, typename Mod>
auto add_yields(Mod&& mod, Ctx* c)
{
  if constexpr (FROM >= TO) return std::forward<Mod>(mod);
  else return add_yields<FROM + 1, TO>(std::forward<Mod>(mod).CO_YIELD(hc::y(c, FROM)), c);
}

// a coroutine type that completes with `co_return;` awaits nothing, so it has no value type to yield
ExpPtr make_void(CM& m, Ctx* c, bool eager)
{
  bool cothrow = c->rkind == 3;
  if (!eager) {
    if (cothrow) return HC_VALID(lzv) + HC_BASE(lzv).CO_THROW(hc::t(c));
    return HC_VALID(lzv) + HC_BASE(lzv).CO_RETURN();
  }
  if (cothrow) return HC_VALID(egv) + HC_BASE(egv).CO_THROW(hc::t(c));
  return HC_VALID(egv) + HC_BASE(egv).CO_RETURN();
}

// NY yields; the completion clause (CO_RETURN / CO_THROW) is written after the first P of them
template <int NY, int P>
ExpPtr make(CM& m, Ctx* c, bool eager, bool voidret)
{
  bool cothrow = c->rkind == 3;
  if (voidret) return make_void(m, c, eager);
  {
    if (!eager) {
      if (cothrow) return HC_VALID(lz) + add_yields<P, NY>(add_yields<0, P>(HC_BASE(lz), c).CO_THROW(hc::t(c)), c);
      return HC_VALID(lz) + add_yields<P, NY>(add_yields<0, P>(HC_BASE(lz), c).CO_RETURN(hc::r(c)), c);
    }
    if (cothrow) return HC_VALID(eg) + add_yields<P, NY>(add_yields<0, P>(HC_BASE(eg), c).CO_THROW(hc::t(c)), c);
    return HC_VALID(eg) + add_yields<P, NY>(add_yields<0, P>(HC_BASE(eg), c).CO_RETURN(hc::r(c)), c);
  }
  return nullptr;
}

} // namespace hc

using namespace hc;

struct Reported {};

struct AnyCo {
  int kind;   // 0 lz 1 eg 2 lzv 3 egv
  Puller<false, false> a; Puller<true, false> b; Puller<false, true> c; Puller<true, true> d;
  std::string next() { switch (kind) { case 0: return a.next(); case 1: return b.next(); case 2: return c.next(); default: return d.next(); } }
};

int main()
{
  std::ios::sync_with_stdio(false);
  trompeloeil::set_reporter([](trompeloeil::severity s, char const*, unsigned long, std::string const& msg) {
    if (s != trompeloeil::severity::fatal) return;   // end-of-life shortfalls (TIMES(2) not reached) are C04's subject
    std::string flat = msg;
    for (auto& ch : flat) if (ch == '\n') ch = '|';
    ev("report " + flat);
    if (s == trompeloeil::severity::fatal) throw Reported{};
  });
  auto* mock = new CM;
  std::map<int, ExpPtr> exps;
  std::map<int, Ctx*> ctxs;
  std::map<int, int> kinds;
  std::map<int, std::unique_ptr<AnyCo>> cos;
  std::string line;
  auto reset = [&] {
    cos.clear();
    exps.clear();
    delete mock;
    mock = new CM;
    for (auto& kv : ctxs) delete kv.second;
    ctxs.clear();
    kinds.clear();
  };
  while (std::getline(std::cin, line)) {
    if (line.empty() || line[0] == '#') continue;
    if (line == "reset") { evs.clear(); reset(); std::cout << "reset\n"; continue; }
    evs.clear();
    std::istringstream is(line);
    std::vector<std::string> t;
    for (std::string x; is >> x;) t.push_back(x);
    std::string out;
    if (t[0] == "expect") {
      auto* c = new Ctx;
      c->id = std::stoi(t[1]);
      bool eager = t[2] == "eager";
      bool voidret = t[3] == "nv";
      size_t i = 5;   // after "Y"
      for (; i < t.size() && t[i] != "R"; ++i) {
        if (t[i] == "std") c->ys.push_back({1, 0}); else c->ys.push_back({0, std::stoi(t[i].substr(2))});
      }
      std::string r = t.at(i + 1);
      if (r == "void") c->rkind = 1; else if (r == "std") c->rkind = 2; else if (r == "cothrow") c->rkind = 3;
      else { c->rkind = 0; c->rval = std::stoi(r.substr(2)); }
      ctxs[c->id] = c;
      kinds[c->id] = (voidret ? 2 : 0) + (eager ? 1 : 0);
      size_t ny = c->ys.size();
      size_t pos = ny;                        // "P k": the completion clause is written after k yields
      if (i + 3 < t.size() && t[i + 2] == "P") pos = static_cast<size_t>(std::stoi(t[i + 3]));
      switch (ny * 10 + pos) {
        case 0: exps[c->id] = make<0, 0>(*mock, c, eager, voidret); break;
        case 10: exps[c->id] = make<1, 0>(*mock, c, eager, voidret); break;
        case 11: exps[c->id] = make<1, 1>(*mock, c, eager, voidret); break;
        case 20: exps[c->id] = make<2, 0>(*mock, c, eager, voidret); break;
        case 21: exps[c->id] = make<2, 1>(*mock, c, eager, voidret); break;
        case 22: exps[c->id] = make<2, 2>(*mock, c, eager, voidret); break;
        case 30: exps[c->id] = make<3, 0>(*mock, c, eager, voidret); break;
        case 31: exps[c->id] = make<3, 1>(*mock, c, eager, voidret); break;
        case 32: exps[c->id] = make<3, 2>(*mock, c, eager, voidret); break;
        case 33: exps[c->id] = make<3, 3>(*mock, c, eager, voidret); break;
        case 40: exps[c->id] = make<4, 0>(*mock, c, eager, voidret); break;
        case 42: exps[c->id] = make<4, 2>(*mock, c, eager, voidret); break;
        case 44: exps[c->id] = make<4, 4>(*mock, c, eager, voidret); break;
        default: ev("parse-error"); break;
      }
    } else if (t[0] == "call") {
      int cid = std::stoi(t[1]);
      int e = std::stoi(t[2]);
      auto co = std::make_unique<AnyCo>();
      co->kind = kinds.at(e);
      try {
        switch (co->kind) {
          case 0: co->a = mock->lz(); break;
          case 1: co->b = mock->eg(); break;
          case 2: co->c = mock->lzv(); break;
          default: co->d = mock->egv(); break;
        }
        cos[cid] = std::move(co);
      }
      catch (Reported const&) { ev("call-threw-report"); }
      catch (...) { ev("call-threw"); }
    } else if (t[0] == "next") {
      std::string item;
      try { item = cos.at(std::stoi(t[1]))->next(); }
      catch (...) { item = "next-threw"; }
      ev(item);
    } else if (t[0] == "sat") {
      ev(std::string("ans ") + (exps.at(std::stoi(t[1]))->is_satisfied() ? "true" : "false"));
    } else if (t[0] == "satd") {
      ev(std::string("ans ") + (exps.at(std::stoi(t[1]))->is_saturated() ? "true" : "false"));
    } else if (t[0] == "kill") {
      cos.erase(std::stoi(t[1]));
    } else if (t[0] == "release") {
      exps.erase(std::stoi(t[1]));
    } else {
      ev("parse-error");
    }
    if (evs.empty()) std::cout << "-\n";
    else {
      for (size_t i = 0; i < evs.size(); ++i) { if (i) std::cout << " ; "; std::cout << evs[i]; }
      std::cout << "\n";
    }
    std::cout.flush();
  }
  reset();
  delete mock;
  return 0;
}
