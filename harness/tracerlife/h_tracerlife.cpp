// h_tracerlife.cpp — C17: "every accepted mock call delivers exactly one trace record to the most recently constructed live
// tracer ... When that tracer is destroyed the previously active one (or none) is in effect again" — with tracer lifetimes that
// begin or end INSIDE a call (in a side effect or a RETURN expression), which the line protocol of the world harness cannot
// express.  Output: PASS/FAIL <case> lines and a final DONE line.  ASan + UBSan, built from /repo's current tree.
#include <trompeloeil.hpp>
#include <cstdio>
#include <memory>
#include <string>
#include <vector>

using trompeloeil::_;

static int failed = 0;
static int reports = 0;
static void check(bool ok, char const* name)
{
  std::printf("%s %s\n", ok ? "PASS" : "FAIL", name);
  if (!ok) ++failed;
}

struct Rec : trompeloeil::tracer {
  std::vector<std::string> recs;
  void trace(char const*, unsigned long, std::string const& call) override { recs.push_back(call); }
};

struct M {
  MAKE_MOCK1(f, int(int));
  MAKE_MOCK1(g, void(int));
};

int main()
{
  trompeloeil::set_reporter([](trompeloeil::severity, char const*, unsigned long, std::string const&) { ++reports; });
  {
    // a second tracer constructed by a side effect outlives the call: it is the most recently constructed live tracer
    M m; Rec a; std::unique_ptr<Rec> b;
    ALLOW_CALL(m, g(1)).LR_SIDE_EFFECT(b = std::make_unique<Rec>());
    ALLOW_CALL(m, g(2));
    m.g(1);
    check(a.recs.size() == 1 && b && b->recs.empty(), "the call that was in progress when the new tracer was constructed is recorded once, by the tracer it started with");
    m.g(2);
    check(b->recs.size() == 1 && a.recs.size() == 1, "a tracer constructed inside a call receives the calls made after it");
    b.reset();
    m.g(2);
    check(a.recs.size() == 2, "after it is destroyed the older tracer is in effect again");
  }
  {
    // the same from a RETURN expression
    M m; Rec a; std::unique_ptr<Rec> b;
    ALLOW_CALL(m, f(1)).LR_RETURN((b = std::make_unique<Rec>(), 7));
    ALLOW_CALL(m, f(2)).RETURN(0);
    int r = m.f(1);
    check(r == 7 && a.recs.size() == 1 && b->recs.empty(), "RETURN expression constructs a tracer: this call is recorded once, by the older tracer");
    m.f(2);
    check(b->recs.size() == 1 && a.recs.size() == 1, "... and the next call goes to the new one");
    b.reset();
    m.f(2);
    check(a.recs.size() == 2, "... and back to the older one after its destruction");
  }
  {
    // no tracer alive when the call starts; one is constructed inside and outlives the call
    M m; std::unique_ptr<Rec> b;
    ALLOW_CALL(m, g(1)).LR_SIDE_EFFECT(b = std::make_unique<Rec>());
    ALLOW_CALL(m, g(2));
    m.g(1);
    check(b && b->recs.empty(), "a call that began while no tracer was alive is not traced");
    m.g(2);
    check(b->recs.size() == 1, "the tracer constructed inside it receives the next call");
    b.reset();
    m.g(2);
    check(true, "no tracer alive: nothing is traced (no crash)");
  }
  {
    // the tracer a call started with is destroyed by a side effect of that call; an older one exists
    M m; Rec a; auto b = std::make_unique<Rec>();
    ALLOW_CALL(m, g(1)).LR_SIDE_EFFECT(b.reset());
    ALLOW_CALL(m, g(2));
    m.g(2);
    check(b->recs.size() == 1 && a.recs.empty(), "innermost tracer receives the call");
    // (what happens to the record of a call whose own tracer dies during the call is not stated by the property: not exercised)
    b.reset();
    m.g(2);
    check(a.recs.size() == 1, "after the inner tracer is destroyed (between calls) the outer one is in effect");
  }
  {
    // tracers created and destroyed inside one call, properly nested: the outer one is untouched
    M m; Rec a;
    ALLOW_CALL(m, g(1)).SIDE_EFFECT(Rec inner; (void)inner);
    ALLOW_CALL(m, g(2));
    m.g(1); m.g(2);
    check(a.recs.size() == 2, "a tracer that lives only inside a side effect changes nothing for the calls around it");
  }
  {
    // non-LIFO destruction between calls
    M m; auto a = std::make_unique<Rec>(); auto b = std::make_unique<Rec>(); auto c = std::make_unique<Rec>();
    ALLOW_CALL(m, g(_));
    m.g(1);
    a.reset();                       // the oldest goes first
    m.g(2);
    check(c->recs.size() == 2 && b->recs.empty(), "destroying an older tracer leaves the newest in effect");
    c.reset();
    m.g(3);
    check(b->recs.size() == 1, "then the next most recent one");
    b.reset();
    m.g(4);
    check(true, "and then none");
  }
  check(reports == 0, "no report from any of the calls above");
  std::printf("DONE failed=%d\n", failed);
  return failed ? 1 : 0;
}
