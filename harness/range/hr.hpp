// hr.hpp — range-matcher harness: evaluates the REAL trompeloeil range matchers on run-time data.
#ifndef HR_HPP
#define HR_HPP
#include <trompeloeil.hpp>
#include <array>
#include <deque>
#include <list>
#include <string>
#include <vector>

namespace hr {

struct Elem { int kind; long v; };   // 0 plain value, 1 eq 2 ne 3 lt 4 le 5 gt 6 ge 7 any

inline bool elem_eval(long x, int kind, long v)
{
  switch (kind) {
    case 0: case 1: return x == v;
    case 2: return x != v;
    case 3: return x < v;
    case 4: return x <= v;
    case 5: return x > v;
    case 6: return x >= v;
    default: return true;
  }
}

// a run-time configurable element matcher (one C++ type for every comparison kind)
inline auto rtm(Elem e)
{
  return trompeloeil::make_matcher<int>(
    [](int const& x, int k, long val) { return elem_eval(static_cast<long>(x), k, val); },
    [](std::ostream& os, int k, long val) { os << " m" << k << ":" << val; },
    e.kind, e.v);
}

template <bool Full, typename F>
bool with_range(std::string const& rflav, std::vector<int> const& r, F f)
{
  if (rflav == "vec") return f(r);
  if (rflav == "list") { std::list<int> l(r.begin(), r.end()); return f(l); }
  if (rflav == "deque") { std::deque<int> d(r.begin(), r.end()); return f(d); }
  if constexpr (!Full) return false;
  else if (rflav == "arr") {
    switch (r.size()) {
      case 0: { std::array<int, 0> a{}; return f(a); }
      case 1: { std::array<int, 1> a{{r[0]}}; return f(a); }
      case 2: { std::array<int, 2> a{{r[0], r[1]}}; return f(a); }
      case 3: { std::array<int, 3> a{{r[0], r[1], r[2]}}; return f(a); }
      default: { std::array<int, 4> a{{r[0], r[1], r[2], r[3]}}; return f(a); }
    }
  }
  // C array
  switch (r.size()) {
    case 1: { int a[1] = {r[0]}; return f(a); }
    case 2: { int a[2] = {r[0], r[1]}; return f(a); }
    case 3: { int a[3] = {r[0], r[1], r[2]}; return f(a); }
    default: { int a[4] = {r[0], r[1], r[2], r[3]}; return f(a); }
  }
}

template <int K, typename... Es>
auto make_range_matcher(Es const&... es)
{
  if constexpr (K == 0) return trompeloeil::range_is(es...);
  else if constexpr (K == 1) return trompeloeil::range_starts_with(es...);
  else if constexpr (K == 2) return trompeloeil::range_ends_with(es...);
  else if constexpr (K == 3) return trompeloeil::range_includes(es...);
  else if constexpr (K == 4) return trompeloeil::range_is_permutation(es...);
  else if constexpr (K == 5) return trompeloeil::range_all_of(es...);
  else if constexpr (K == 6) return trompeloeil::range_any_of(es...);
  else return trompeloeil::range_none_of(es...);
}

template <int K, bool Full = true, typename... Es>
bool eval(std::string const& rflav, std::vector<int> const& r, Es const&... es)
{
  return with_range<Full>(rflav, r, [&](auto const& rng) {
    auto m = make_range_matcher<K>(es...);
    return trompeloeil::param_matches(m, std::ref(rng));
  });
}

// variadic elements: every int / matcher pattern up to arity 4
template <int K, typename... Acc>
bool build(size_t i, std::vector<Elem> const& es, std::string const& rflav, std::vector<int> const& r, Acc const&... acc)
{
  if (i == es.size()) {
    // range_is_permutation(x) with ONE non-range argument selects the container overload upstream
    // (it is the only range matcher whose container form is unconstrained) and does not compile
    if constexpr (K == 4 && sizeof...(Acc) == 1) return false;
    else return eval<K, false>(rflav, r, acc...);
  }
  if constexpr (sizeof...(Acc) < 3) {
    if (es[i].kind == 0) return build<K>(i + 1, es, rflav, r, acc..., static_cast<int>(es[i].v));
    return build<K>(i + 1, es, rflav, r, acc..., rtm(es[i]));
  } else {
    return false;
  }
}

template <int K>
bool build4(std::vector<Elem> const& es, std::string const& rflav, std::vector<int> const& r)
{
  return eval<K, false>(rflav, r, static_cast<int>(es[0].v), static_cast<int>(es[1].v), static_cast<int>(es[2].v),
                        static_cast<int>(es[3].v));
}

bool variadic(int kind, std::vector<Elem> const& es, std::string const& rflav, std::vector<int> const& r);
bool container(int kind, std::string const& eflav, std::vector<Elem> const& es, std::string const& rflav, std::vector<int> const& r);
bool single(int kind, std::string const& eflav, Elem e, std::string const& rflav, std::vector<int> const& r);

} // namespace hr
#endif
