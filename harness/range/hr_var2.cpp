#include "hr.hpp"
namespace hr { bool variadic2(std::vector<Elem> const& es, std::string const& rflav, std::vector<int> const& r) {
  if (es.size() == 4) return build4<2>(es, rflav, r);
  return build<2>(0, es, rflav, r); } }
