// h_range.cpp — `<kind> <eflav>:<rflav> E <elems…> R <ints…>` -> true|false
#include "hr.hpp"
#include <iostream>
#include <sstream>
namespace hr {
bool variadic0(std::vector<Elem> const&, std::string const&, std::vector<int> const&);
bool variadic1(std::vector<Elem> const&, std::string const&, std::vector<int> const&);
bool variadic2(std::vector<Elem> const&, std::string const&, std::vector<int> const&);
bool variadic3(std::vector<Elem> const&, std::string const&, std::vector<int> const&);
bool variadic4(std::vector<Elem> const&, std::string const&, std::vector<int> const&);
}
using namespace hr;

static Elem parse_elem(std::string const& t)
{
  if (t == "_") return Elem{7, 0};
  auto c = t.find(':');
  std::string k = t.substr(0, c);
  long v = std::stol(t.substr(c + 1));
  int kind = k == "v" ? 0 : k == "eq" ? 1 : k == "ne" ? 2 : k == "lt" ? 3 : k == "le" ? 4 : k == "gt" ? 5 : 6;
  return Elem{kind, v};
}

int main()
{
  std::ios::sync_with_stdio(false);
  std::string line;
  while (std::getline(std::cin, line)) {
    if (line.empty() || line[0] == '#') continue;
    std::istringstream is(line);
    std::string kind, flav, tok;
    is >> kind >> flav;
    std::string eflav = flav.substr(0, flav.find(':'));
    std::string rflav = flav.substr(flav.find(':') + 1);
    std::vector<Elem> es;
    std::vector<int> r;
    bool inR = false;
    while (is >> tok) {
      if (tok == "E") continue;
      if (tok == "R") { inR = true; continue; }
      if (inR) r.push_back(std::stoi(tok)); else es.push_back(parse_elem(tok));
    }
    int k = kind == "is" ? 0 : kind == "starts" ? 1 : kind == "ends" ? 2 : kind == "includes" ? 3 : kind == "perm" ? 4
          : kind == "all" ? 5 : kind == "any" ? 6 : 7;
    bool res;
    if (k >= 5) res = single(k, eflav, es.at(0), rflav, r);
    else if (eflav[0] == 'v') {
      switch (k) {
        case 0: res = variadic0(es, rflav, r); break;
        case 1: res = variadic1(es, rflav, r); break;
        case 2: res = variadic2(es, rflav, r); break;
        case 3: res = variadic3(es, rflav, r); break;
        default: res = variadic4(es, rflav, r); break;
      }
    }
    else res = container(k, eflav, es, rflav, r);
    std::cout << (res ? "true" : "false") << "\n";
  }
  return 0;
}
