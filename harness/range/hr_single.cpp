#include "hr.hpp"
namespace hr {
bool single(int kind, std::string const& eflav, Elem e, std::string const& rflav, std::vector<int> const& r)
{
  auto go = [&](auto const& c) {
    switch (kind) {
      case 5: return eval<5>(rflav, r, c);
      case 6: return eval<6>(rflav, r, c);
      default: return eval<7>(rflav, r, c);
    }
  };
  int v = static_cast<int>(e.v);
  if (eflav == "sv") return go(v);
  if (eflav == "sm") return go(rtm(e));
  switch (e.kind) {
    case 1: return go(trompeloeil::eq(v));
    case 2: return go(trompeloeil::ne(v));
    case 3: return go(trompeloeil::lt(v));
    case 4: return go(trompeloeil::le(v));
    case 5: return go(trompeloeil::gt(v));
    case 6: return go(trompeloeil::ge(v));
    default: return go(trompeloeil::_);
  }
}
} // namespace hr
