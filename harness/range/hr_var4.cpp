#include "hr.hpp"
namespace hr { bool variadic4(std::vector<Elem> const& es, std::string const& rflav, std::vector<int> const& r) {
  if (es.size() == 4) return build4<4>(es, rflav, r);
  return build<4>(0, es, rflav, r); } }
