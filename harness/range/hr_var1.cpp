#include "hr.hpp"
namespace hr { bool variadic1(std::vector<Elem> const& es, std::string const& rflav, std::vector<int> const& r) {
  if (es.size() == 4) return build4<1>(es, rflav, r);
  return build<1>(0, es, rflav, r); } }
