#include "hr.hpp"
#include <initializer_list>
namespace hr {

template <int K, typename C>
bool evalc(C const& c, std::string const& rflav, std::vector<int> const& r) { return eval<K>(rflav, r, c); }

template <typename C>
bool by_kind(int kind, C const& c, std::string const& rflav, std::vector<int> const& r)
{
  switch (kind) {
    case 0: return evalc<0>(c, rflav, r);
    case 1: return evalc<1>(c, rflav, r);
    case 2: return evalc<2>(c, rflav, r);
    case 3: return evalc<3>(c, rflav, r);
    default: return evalc<4>(c, rflav, r);
  }
}

template <typename Mk>
bool real_matchers(int kind, std::vector<Elem> const& es, std::string const& rflav, std::vector<int> const& r, Mk mk)
{
  std::vector<decltype(mk(0))> v;
  for (auto const& e : es) v.push_back(mk(static_cast<int>(e.v)));
  return by_kind(kind, v, rflav, r);
}

static std::vector<int> values(std::vector<Elem> const& es)
{
  std::vector<int> vals;
  for (auto const& e : es) vals.push_back(static_cast<int>(e.v));
  return vals;
}
bool container_cm(int kind, std::vector<Elem> const& es, std::string const& rflav, std::vector<int> const& r)
{
  std::vector<decltype(rtm(Elem{}))> v;
  for (auto const& e : es) v.push_back(rtm(e));
  return by_kind(kind, v, rflav, r);
}
} // namespace hr
