#include "hr.hpp"
namespace hr {
bool container_cvec(int, std::vector<Elem> const&, std::string const&, std::vector<int> const&);
bool container_clist(int, std::vector<Elem> const&, std::string const&, std::vector<int> const&);
bool container_cdeque(int, std::vector<Elem> const&, std::string const&, std::vector<int> const&);
bool container_carr(int, std::vector<Elem> const&, std::string const&, std::vector<int> const&);
bool container_cm(int, std::vector<Elem> const&, std::string const&, std::vector<int> const&);
bool container_cgt(int, std::vector<Elem> const&, std::string const&, std::vector<int> const&);
bool container_clt(int, std::vector<Elem> const&, std::string const&, std::vector<int> const&);
bool container_ceq(int, std::vector<Elem> const&, std::string const&, std::vector<int> const&);
bool container_cne(int, std::vector<Elem> const&, std::string const&, std::vector<int> const&);
bool container(int kind, std::string const& eflav, std::vector<Elem> const& es, std::string const& rflav, std::vector<int> const& r)
{
  if (eflav == "cvec") return container_cvec(kind, es, rflav, r);
  if (eflav == "clist") return container_clist(kind, es, rflav, r);
  if (eflav == "cdeque") return container_cdeque(kind, es, rflav, r);
  if (eflav == "carr") return container_carr(kind, es, rflav, r);
  if (eflav == "cm") return container_cm(kind, es, rflav, r);
  if (eflav == "cgt") return container_cgt(kind, es, rflav, r);
  if (eflav == "clt") return container_clt(kind, es, rflav, r);
  if (eflav == "ceq") return container_ceq(kind, es, rflav, r);
  if (eflav == "cne") return container_cne(kind, es, rflav, r);
  return false;
}
}
