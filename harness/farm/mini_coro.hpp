// minimal coroutine return types for the compile farm (C19): only what the clause guards look at
#ifndef MINI_CORO_HPP
#define MINI_CORO_HPP
#include <coroutine>
namespace farm {
template <typename T>
struct vtask {
  bool await_ready() const { return true; }
  void await_suspend(std::coroutine_handle<>) const {}
  T await_resume() const { return T{}; }
  struct promise_type {
    vtask get_return_object() { return {}; }
    std::suspend_never initial_suspend() { return {}; }
    std::suspend_never final_suspend() noexcept { return {}; }
    void return_value(T) {}
    std::suspend_always yield_value(T) { return {}; }
    void unhandled_exception() {}
  };
};
struct ntask {
  bool await_ready() const { return true; }
  void await_suspend(std::coroutine_handle<>) const {}
  void await_resume() const {}
  struct promise_type {
    ntask get_return_object() { return {}; }
    std::suspend_never initial_suspend() { return {}; }
    std::suspend_never final_suspend() noexcept { return {}; }
    void return_void() {}
    std::suspend_always yield_value(int) { return {}; }
    void unhandled_exception() {}
  };
};
}
#endif
