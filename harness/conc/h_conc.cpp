// h_conc.cpp — concurrent scenarios over the real trompeloeil (C12).  Built twice:
//   -fsanitize=thread                       : data-race detection (free running + yield perturbation)
//   -DTROMPELOEIL_VERIF -DTROMPELOEIL_CUSTOM_RECURSIVE_MUTEX : instrumented lock + access hooks: lock table,
//                                             operation log in critical-section order for sequential replay
// usage: h_conc <scenario> <seed> <threads> <iterations>
#include <trompeloeil.hpp>
#include <atomic>
#include <cstdio>
#include <cstdlib>
#include <cstring>
#include <future>
#include <map>
#include <memory>
#include <mutex>
#include <random>
#include <sstream>
#include <string>
#include <thread>
#include <vector>

using trompeloeil::_;

#ifdef TROMPELOEIL_VERIF
// ---- instrumented recursive mutex (the library's own customisation point) + access hook
namespace {
std::recursive_mutex real_mutex;
std::atomic<unsigned long> ticket_counter{0};
thread_local int lock_depth = 0;
thread_local unsigned long first_ticket = 0, last_ticket = 0;
struct SiteCount { std::atomic<unsigned long> held{0}, unheld{0}; };
std::mutex site_mutex;
std::map<std::string, SiteCount*> sites;
}
namespace trompeloeil {
struct verif_mutex : custom_recursive_mutex {
  void lock() override
  {
    real_mutex.lock();
    if (lock_depth++ == 0) {
      unsigned long t = ++ticket_counter;
      if (first_ticket == 0) first_ticket = t;
      last_ticket = t;
    }
  }
  void unlock() override { --lock_depth; real_mutex.unlock(); }
};
std::unique_ptr<custom_recursive_mutex> create_custom_recursive_mutex() { return std::make_unique<verif_mutex>(); }
}
void trompeloeil_verif_access(void const*, int is_write, char const* func, char const* file, int line)
{
  // only structures that are shared between threads: the per-function expectation lists, the sequence lists,
  // the call counters, the monitor slot.  Clause lists (conditions, side effects, yields) belong to one expectation.
  if (!std::strstr(func, "call_matcher_base") && !std::strstr(func, "sequence_matcher") && !std::strstr(func, "sequence_type")
      && !std::strstr(func, "sequence_handler_base") && !std::strstr(func, "deathwatched") && !std::strstr(func, "find("))
    return;
  char key[256];
  char const* base = std::strrchr(file, '/');
  std::snprintf(key, sizeof key, "%s:%d:%c", base ? base + 1 : file, line, is_write ? 'w' : 'r');
  SiteCount* sc;
  {
    std::lock_guard<std::mutex> g(site_mutex);
    auto& p = sites[key];
    if (!p) p = new SiteCount;
    sc = p;
  }
  if (lock_depth > 0) ++sc->held; else ++sc->unheld;
}
static void begin_op() { first_ticket = last_ticket = 0; }
#else
static void begin_op() {}
#endif

struct M {
  MAKE_MOCK1(f, int(int));
  MAKE_MOCK1(g, void(int));
};
struct WB { virtual ~WB() = default; };
using DW = trompeloeil::deathwatched<WB>;

static std::atomic<int> fatal_reports{0}, nonfatal_reports{0};
static thread_local int my_nonfatal = 0;
static std::mutex log_mutex;
static std::vector<std::string> oplog;

static void logop(std::string const& s)
{
#ifdef TROMPELOEIL_VERIF
  char buf[64];
  std::snprintf(buf, sizeof buf, "%lu %lu ", first_ticket, last_ticket);
  std::lock_guard<std::mutex> g(log_mutex);
  oplog.push_back(buf + s);
#else
  (void)s;
#endif
}

struct Reported {};

static void perturb(std::mt19937& r)
{
  unsigned v = r() % 8;
  if (v == 0) std::this_thread::yield();
  else if (v == 1) std::this_thread::sleep_for(std::chrono::microseconds(r() % 50));
}

// S1: shared mock; each thread creates ALLOW/REQUIRE expectations for its own argument values, calls them, queries, releases
static void s1(int seed, int nthreads, int iters)
{
  M m;
  std::atomic<long> handled{0}, accepted{0};
  std::vector<std::thread> ts;
  for (int t = 0; t < nthreads; ++t) {
    ts.emplace_back([&, t] {
      std::mt19937 r(static_cast<unsigned>(seed * 131 + t));
      for (int i = 0; i < iters; ++i) {
        int arg = t * 1000 + static_cast<int>(r() % 3);
        int n = 1 + static_cast<int>(r() % 3);
        long mine = 0;
        begin_op();
        auto e = NAMED_REQUIRE_CALL(m, f(arg)).TIMES(AT_LEAST(1)).LR_SIDE_EFFECT(++mine).RETURN(_1 + 1);
        for (int k = 0; k < n; ++k) {
          perturb(r);
          try { if (m.f(arg) == arg + 1) ++accepted; } catch (Reported const&) {}
        }
        perturb(r);
        bool sat = e->is_satisfied();
        bool satd = e->is_saturated();
        if (!sat || satd) ++fatal_reports;
        e.reset();
        handled += mine;
      }
    });
  }
  for (auto& th : ts) th.join();
  if (handled != accepted) { std::printf("FAIL conservation handled=%ld accepted=%ld\n", static_cast<long>(handled), static_cast<long>(accepted)); ++fatal_reports; }
}

// S2: expectations of several threads registered in ONE shared sequence (each on its own mock), a poller asks is_completed
static void s2(int seed, int nthreads, int iters)
{
  auto seq = std::make_unique<trompeloeil::sequence>();
  std::atomic<bool> stop{false};
  std::atomic<long> polls{0};
  std::thread poller([&] { while (!stop) { if (seq->is_completed()) ++polls; std::this_thread::yield(); } });
  std::vector<std::thread> ts;
  for (int t = 0; t < nthreads; ++t) {
    ts.emplace_back([&, t] {
      std::mt19937 r(static_cast<unsigned>(seed * 977 + t));
      M m;
      for (int i = 0; i < iters; ++i) {
        perturb(r);
        auto e = NAMED_ALLOW_CALL(m, g(t)).IN_SEQUENCE(*seq);
        perturb(r);
        try { m.g(t); } catch (Reported const&) {}
        (void)e->is_satisfied();
        perturb(r);
        e.reset();
      }
    });
  }
  for (auto& th : ts) th.join();
  stop = true;
  poller.join();
}

// S3: IN_SEQUENCE followed by TIMES in one thread while another thread's calls walk the sequence
static void s3(int seed, int nthreads, int iters)
{
  trompeloeil::sequence seq;
  std::vector<std::thread> ts;
  for (int t = 0; t < nthreads; ++t) {
    ts.emplace_back([&, t] {
      std::mt19937 r(static_cast<unsigned>(seed * 31 + t));
      M m;
      for (int i = 0; i < iters; ++i) {
        perturb(r);
        if (t % 2 == 0) {
          auto e = NAMED_REQUIRE_CALL(m, g(_)).IN_SEQUENCE(seq).TIMES(0, 5);
          perturb(r);
          e.reset();
        } else {
          auto e = NAMED_ALLOW_CALL(m, g(_)).IN_SEQUENCE(seq);
          try { m.g(1); } catch (Reported const&) {}
          e.reset();
        }
      }
    });
  }
  for (auto& th : ts) th.join();
}

// S4: deathwatched objects with sequenced REQUIRE_DESTRUCTION destroyed by several threads; queries from the creator
static void s4(int seed, int nthreads, int iters)
{
  std::vector<std::thread> ts;
  for (int t = 0; t < nthreads; ++t) {
    ts.emplace_back([&, t] {
      std::mt19937 r(static_cast<unsigned>(seed * 7 + t));
      for (int i = 0; i < iters; ++i) {
        trompeloeil::sequence seq;
        auto* o = new DW;
        auto d = NAMED_REQUIRE_DESTRUCTION(*o).IN_SEQUENCE(seq);
        std::thread killer([o] { delete o; });
        perturb(r);
        killer.join();
        if (!d->is_satisfied()) ++fatal_reports;
        (void)seq.is_completed();
        d.reset();
      }
    });
  }
  for (auto& th : ts) th.join();
}

// S5: mock objects created and destroyed (with pending ALLOW expectations) while other threads use their own
static void s5(int seed, int nthreads, int iters)
{
  std::vector<std::thread> ts;
  for (int t = 0; t < nthreads; ++t) {
    ts.emplace_back([&, t] {
      std::mt19937 r(static_cast<unsigned>(seed * 13 + t));
      for (int i = 0; i < iters; ++i) {
        auto m = std::make_unique<M>();
        auto e1 = NAMED_ALLOW_CALL(*m, f(_)).RETURN(0);
        auto e2 = NAMED_REQUIRE_CALL(*m, g(1)).TIMES(AT_MOST(2));
        try { m->f(1); m->g(1); } catch (Reported const&) {}
        perturb(r);
        if (r() % 2) { m.reset(); e1.reset(); e2.reset(); } else { e2.reset(); e1.reset(); m.reset(); }
      }
    });
  }
  for (auto& th : ts) th.join();
}

// S6: a mock object is destroyed by one thread while another thread releases the expectations that were placed on it
// (one still on the active list, one already saturated); the releasing thread does not touch the mock itself.
static void s6(int seed, int nthreads, int iters)
{
  std::vector<std::thread> ts;
  for (int t = 0; t < nthreads; ++t) {
    ts.emplace_back([&, t] {
      std::mt19937 r(static_cast<unsigned>(seed * 17 + t));
      for (int i = 0; i < iters; ++i) {
        auto* m = new M;
        std::unique_ptr<trompeloeil::expectation> e1, e2;
        unsigned shape = r() % 4;
        if (shape & 1) e1 = NAMED_ALLOW_CALL(*m, f(_)).RETURN(0);
        else e1 = NAMED_REQUIRE_CALL(*m, f(_)).RETURN(0);
        if (shape & 2) e2 = NAMED_REQUIRE_CALL(*m, g(1));
        try { m->f(1); if (e2) m->g(1); } catch (Reported const&) {}
        unsigned d1 = r() % 40, d2 = r() % 40;
        std::thread killer([m, d1] { for (volatile unsigned k = 0; k < d1 * 20; ++k) {} delete m; });
        for (volatile unsigned k = 0; k < d2 * 20; ++k) {}
        if (r() % 2) { e1.reset(); e2.reset(); } else { e2.reset(); e1.reset(); }
        killer.join();
      }
    });
  }
  for (auto& th : ts) th.join();
}

// S7: a deathwatched object dies in one thread while its creator polls is_satisfied()/is_saturated() of the requirement,
// and a shared sequence is polled by a third party
static void s7(int seed, int nthreads, int iters)
{
  std::vector<std::thread> ts;
  for (int t = 0; t < nthreads; ++t) {
    ts.emplace_back([&, t] {
      std::mt19937 r(static_cast<unsigned>(seed * 19 + t));
      for (int i = 0; i < iters; ++i) {
        trompeloeil::sequence seq;
        M m;
        auto e = NAMED_ALLOW_CALL(m, g(_)).IN_SEQUENCE(seq);
        auto* o = new DW;
        auto d = NAMED_REQUIRE_DESTRUCTION(*o).IN_SEQUENCE(seq);
        std::atomic<bool> gone{false};
        std::thread killer([o, &gone] { delete o; gone = true; });
        int spins = 0;
        while (!d->is_satisfied() && spins < 1000000) { (void)d->is_saturated(); (void)seq.is_completed(); ++spins; }
        killer.join();
        if (!d->is_satisfied() || !d->is_saturated()) ++fatal_reports;
        try { m.g(1); ++fatal_reports; } catch (Reported const&) {}     // the ALLOW step was passed: the call is out of sequence
        d.reset();
        e.reset();
      }
    });
  }
  for (auto& th : ts) th.join();
}

// S8: a SATURATED step of a shared sequence (its handle sits on the sequence's retired ring) is released in one thread
// while another thread saturates the next step of the same sequence (which pushes onto that ring) and a third party
// may destroy nothing: every access to the ring must be under the lock, including the one made when the released
// expectation's handles are destroyed.
static void s8(int seed, int nthreads, int iters)
{
  std::vector<std::thread> ts;
  for (int t = 0; t < nthreads; ++t) {
    ts.emplace_back([&, t] {
      std::mt19937 r(static_cast<unsigned>(seed * 23 + t));
      for (int i = 0; i < iters; ++i) {
        trompeloeil::sequence seq;
        M m;
        auto e1 = NAMED_REQUIRE_CALL(m, f(1)).IN_SEQUENCE(seq).RETURN(0);
        auto e2 = NAMED_REQUIRE_CALL(m, f(2)).IN_SEQUENCE(seq).RETURN(0);
        auto e3 = NAMED_REQUIRE_CALL(m, f(3)).IN_SEQUENCE(seq).RETURN(0);
        try { m.f(1); } catch (Reported const&) { ++fatal_reports; }      // e1 saturated: retired
        unsigned d1 = r() % 40, d2 = r() % 40;
        std::thread releaser([&e1, d1] { for (volatile unsigned k = 0; k < d1 * 20; ++k) {} e1.reset(); });
        for (volatile unsigned k = 0; k < d2 * 20; ++k) {}
        try { m.f(2); m.f(3); } catch (Reported const&) { ++fatal_reports; }
        releaser.join();
        if (!seq.is_completed()) ++fatal_reports;
        if (r() % 2) { e2.reset(); e3.reset(); } else { e3.reset(); e2.reset(); }
      }
    });
  }
  for (auto& th : ts) th.join();
}

// S9: a tracer constructed on the main thread before the workers start (installing one concurrently with use is the
// caller's obligation not to do) stays alive while the workers call: every accepted call, on whichever thread, delivers
// exactly one record to it (C17 under C12's quantifier); a nested tracer made and destroyed on the main thread before the
// workers start must leave the outer one in effect for them.
struct CountingTracer : trompeloeil::tracer {
  std::atomic<long> records{0};
  void trace(char const*, unsigned long, std::string const&) override { ++records; }
};
static void s9(int seed, int nthreads, int iters)
{
  CountingTracer outer;
  { CountingTracer inner; M m0; ALLOW_CALL(m0, g(_)); m0.g(0); if (inner.records != 1) { std::printf("FAIL inner tracer records=%ld\n", static_cast<long>(inner.records)); ++fatal_reports; } }
  std::atomic<long> accepted{0};
  std::vector<std::thread> ts;
  for (int t = 0; t < nthreads; ++t) {
    ts.emplace_back([&, t] {
      std::mt19937 r(static_cast<unsigned>(seed * 53 + t));
      M m;
      ALLOW_CALL(m, f(_)).RETURN(_1);
      ALLOW_CALL(m, g(_));
      for (int i = 0; i < iters; ++i) {
        perturb(r);
        try { if (r() % 2) (void)m.f(i); else m.g(i); ++accepted; } catch (Reported const&) { ++fatal_reports; }
      }
    });
  }
  for (auto& th : ts) th.join();
  if (outer.records != accepted) { std::printf("FAIL trace records=%ld accepted calls=%ld\n", static_cast<long>(outer.records), static_cast<long>(accepted)); ++fatal_reports; }
}

// S10: every operation gives the lock back on every path — the violation paths included (a report from a destructor, a
// fatal report thrown out of a call, a mock that dies before its expectations).  Thread A performs one such operation
// and then stays alive and idle; an operation on an unrelated mock in another thread must then complete.  (The mutex is
// recursive, so a thread that keeps the lock does not notice it itself.)
static void s10(int seed, int nthreads, int iters)
{
  (void)nthreads; (void)seed;
  static char const* const what[] = {"unexpected destruction of a deathwatched object", "release of an unfulfilled expectation",
    "call without a matching expectation", "forbidden call", "destruction of a mock with a pending expectation, then its release",
    "call out of sequence", "release of a destruction requirement whose object is alive", "accepted call and queries"};
  for (int i = 0; i < iters / 4 + 8; ++i) {
    int kind = i % 8;
    std::atomic<int> stage{0};
    std::thread A([&] {
      M m;
      switch (kind) {
      case 0: { auto* o = new DW; delete o; break; }
      case 1: { auto e = NAMED_REQUIRE_CALL(m, g(1)); e.reset(); break; }
      case 2: { try { m.g(1); } catch (Reported const&) {} break; }
      case 3: { FORBID_CALL(m, g(1)); try { m.g(1); } catch (Reported const&) {} break; }
      case 4: { auto* mm = new M; auto e = NAMED_REQUIRE_CALL(*mm, g(1)); delete mm; e.reset(); break; }
      case 5: {
        trompeloeil::sequence sq;
        auto e1 = NAMED_REQUIRE_CALL(m, g(1)).IN_SEQUENCE(sq);
        auto e2 = NAMED_REQUIRE_CALL(m, g(2)).IN_SEQUENCE(sq);
        try { m.g(2); } catch (Reported const&) {}
        m.g(1); m.g(2);
        if (!sq.is_completed()) ++fatal_reports;
        break;
      }
      case 6: { auto* o = new DW; auto d = NAMED_REQUIRE_DESTRUCTION(*o); d.reset(); delete o; break; }
      default: { auto e = NAMED_REQUIRE_CALL(m, f(1)).RETURN(2); if (m.f(1) != 2 || !e->is_satisfied() || !e->is_saturated()) ++fatal_reports; break; }
      }
      stage = 1;
      while (stage.load() != 2) std::this_thread::sleep_for(std::chrono::microseconds(50));
    });
    while (stage.load() == 0) std::this_thread::yield();
    auto fut = std::async(std::launch::async, [] {
      M m2;
      auto e = NAMED_REQUIRE_CALL(m2, g(7));
      m2.g(7);
      bool ok = e->is_satisfied();
      e.reset();
      return ok;
    });
    if (fut.wait_for(std::chrono::seconds(5)) != std::future_status::ready) {
      std::printf("FAIL lock not given back: after %s in a thread that is now idle, an operation on an unrelated mock in another thread "
                  "does not complete within 5 s\n", what[kind]);
      std::fflush(stdout);
      std::_Exit(1);
    }
    if (!fut.get()) ++fatal_reports;
    stage = 2;
    A.join();
  }
}

// F1: forced schedules at critical-section granularity.  Thread K holds the library's global lock (public API:
// trompeloeil::get_lock(), recursive), lets thread R start its operation — which has to wait for the lock — performs its
// own operation under the lock and releases it.  R's operation therefore takes effect after K's: the outcome must be the
// one of executing K's operation and then R's, one at a time.
static void f1(int seed, int nthreads, int iters)
{
  (void)nthreads;
  std::mt19937 r(static_cast<unsigned>(seed));
  for (int i = 0; i < iters; ++i) {
    int pair = i % 3;
    std::atomic<int> stage{0};
    int k_reports = 0, r_reports = 0;
    bool call_ok = true;
    M* m = new M;
    auto* o = new DW;
    std::unique_ptr<trompeloeil::expectation> e;
    std::unique_ptr<trompeloeil::lifetime_monitor> d;
    if (pair == 0) d = NAMED_REQUIRE_DESTRUCTION(*o);
    else if (pair == 1) e = NAMED_REQUIRE_CALL(*m, g(1));
    else e = NAMED_REQUIRE_CALL(*m, g(2));
    unsigned hold_us = 300 + r() % 700;
    std::thread R([&] {
      while (stage.load() == 0) std::this_thread::yield();
      int before = my_nonfatal;
      if (pair == 0) d.reset(); else e.reset();       // blocks until K leaves its critical section
      r_reports = my_nonfatal - before;
    });
    {
      auto lock = trompeloeil::get_lock();
      stage = 1;
      std::this_thread::sleep_for(std::chrono::microseconds(hold_us));   // R reaches the lock (or reads state it must not read yet)
      int before = my_nonfatal;
      if (pair == 0) { delete o; o = nullptr; }
      else if (pair == 1) { try { m->g(1); } catch (Reported const&) { call_ok = false; } }
      else { delete m; m = nullptr; }
      k_reports = my_nonfatal - before;
    }
    R.join();
    // serial outcome K;R:  0: requirement fulfilled, silent release.  1: call accepted, fulfilled expectation released silently.
    //                      2: mock dies with a pending expectation (one report), the release afterwards is silent.
    int want_k = pair == 2 ? 1 : 0, want_r = 0;
    if (k_reports != want_k || r_reports != want_r || !call_ok) {
      std::printf("FAIL forced schedule pair=%d: reports K=%d R=%d (serial order K;R gives K=%d R=%d)%s\n", pair, k_reports, r_reports, want_k, want_r,
                  call_ok ? "" : " call rejected");
      ++fatal_reports;
    }
    delete o;
    delete m;
  }
}

// L1 (hooked build): operations on ONE shared mock function logged with their critical-section tickets, for sequential replay
static void l1(int seed, int nthreads, int iters)
{
  M m;
  std::atomic<int> next_id{0};
  std::vector<std::thread> ts;
  for (int t = 0; t < nthreads; ++t) {
    ts.emplace_back([&, t] {
      std::mt19937 r(static_cast<unsigned>(seed * 733 + t));
      for (int i = 0; i < iters; ++i) {
        int id = next_id++;
        int lo = static_cast<int>(r() % 2), hi = lo + 1 + static_cast<int>(r() % 2);
        int kind = static_cast<int>(r() % 3);     // parameter matcher: 0 `_`, 1 eq(t), 2 lt(2)
        begin_op();
        std::unique_ptr<trompeloeil::expectation> e;
        if (kind == 0) e = NAMED_REQUIRE_CALL(m, f(_)).RT_TIMES(static_cast<size_t>(lo), static_cast<size_t>(hi)).RETURN(1000 + id);
        else if (kind == 1) e = NAMED_REQUIRE_CALL(m, f(trompeloeil::eq(t))).RT_TIMES(static_cast<size_t>(lo), static_cast<size_t>(hi)).RETURN(1000 + id);
        else e = NAMED_REQUIRE_CALL(m, f(trompeloeil::lt(2))).RT_TIMES(static_cast<size_t>(lo), static_cast<size_t>(hi)).RETURN(1000 + id);
        {
          std::ostringstream os;
          os << "expect " << id << " " << (kind == 0 ? "_" : kind == 1 ? "eq:" + std::to_string(t) : "lt:2") << " " << lo << " " << hi;
          logop(os.str());
        }
        int ncalls = 1 + static_cast<int>(r() % 3);
        for (int k = 0; k < ncalls; ++k) {
          perturb(r);
          int arg = static_cast<int>(r() % 3);
          begin_op();
          int res = -1;
          try { res = m.f(arg); } catch (Reported const&) { res = -2; }
          logop("call " + std::to_string(arg) + " -> " + std::to_string(res));
        }
        perturb(r);
        begin_op();
        bool sat = e->is_satisfied();
        logop("sat " + std::to_string(id) + " -> " + (sat ? "true" : "false"));
        begin_op();
        bool satd = e->is_saturated();
        logop("satd " + std::to_string(id) + " -> " + (satd ? "true" : "false"));
        begin_op();
        int before = my_nonfatal;
        e.reset();
        logop("release " + std::to_string(id) + " -> " + std::to_string(my_nonfatal - before));
      }
    });
  }
  for (auto& th : ts) th.join();
}

int main(int argc, char** argv)
{
  std::string sc = argc > 1 ? argv[1] : "s1";
  int seed = argc > 2 ? std::atoi(argv[2]) : 1;
  int nthreads = argc > 3 ? std::atoi(argv[3]) : 4;
  int iters = argc > 4 ? std::atoi(argv[4]) : 200;
  trompeloeil::set_reporter([](trompeloeil::severity s, char const*, unsigned long, std::string const&) {
    if (s == trompeloeil::severity::fatal) { throw Reported{}; }
    ++nonfatal_reports;
    ++my_nonfatal;
  });
  if (sc == "s1") s1(seed, nthreads, iters);
  else if (sc == "s2") s2(seed, nthreads, iters);
  else if (sc == "s3") s3(seed, nthreads, iters);
  else if (sc == "s4") s4(seed, nthreads, iters);
  else if (sc == "s5") s5(seed, nthreads, iters);
  else if (sc == "s6") s6(seed, nthreads, iters);
  else if (sc == "s7") s7(seed, nthreads, iters);
  else if (sc == "s8") s8(seed, nthreads, iters);
  else if (sc == "s9") s9(seed, nthreads, iters);
  else if (sc == "s10") s10(seed, nthreads, iters);
  else if (sc == "f1") f1(seed, nthreads, iters / 2);
  else if (sc == "l1") l1(seed, nthreads, iters);
  else { std::printf("unknown scenario\n"); return 2; }
#ifdef TROMPELOEIL_VERIF
  for (auto const& l : oplog) std::printf("OP %s\n", l.c_str());
  for (auto const& kv : sites) std::printf("SITE %s held=%lu unheld=%lu\n", kv.first.c_str(), kv.second->held.load(), kv.second->unheld.load());
#endif
  std::printf("DONE scenario=%s unexpected=%d\n", sc.c_str(), fatal_reports.load());
  return fatal_reports ? 1 : 0;
}
