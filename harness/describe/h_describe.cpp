// h_describe.cpp — C18: "formatting any argument OR EXPECTED VALUE for a report … null pointers print as nullptr".
// The expected values a matcher holds (the elements of the range matchers, the operands of any_of / all_of / none_of) are
// printed when a no-match report describes the expectation.  Oracle: a null `char const*` must be printed exactly as the
// non-null C string "nullptr" is (so the two descriptions are the same text, and the report is complete to its end), and a
// null `int*` as "nullptr".  Self-checking: PASS/FAIL <case> lines and a final DONE line.
#include <trompeloeil.hpp>
#include <cstdio>
#include <string>
#include <vector>

using trompeloeil::_;

static int failed = 0;
static std::string last;
static void check(bool ok, std::string const& name, std::string const& detail = "")
{
  std::printf("%s %s%s%s\n", ok ? "PASS" : "FAIL", name.c_str(), ok || detail.empty() ? "" : " :: ", ok ? "" : detail.c_str());
  if (!ok) ++failed;
}
struct Reported {};
static std::string flat(std::string s)
{
  for (auto& c : s) if (c == '\n') c = '|';
  return s;
}
// the part of the report that describes the expectation: from "Expected" to the end of the message
static std::string described()
{
  auto p = last.find("  Expected ");
  return p == std::string::npos ? std::string("<no description: ") + flat(last) + ">" : flat(last.substr(p));
}

using CV = std::vector<char const*>;
using PV = std::vector<int*>;
struct S { char const* name; int* ptr; };
struct M {
  MAKE_MOCK1(s, void(S const&));
  MAKE_MOCK1(r, void(CV const&));
  MAKE_MOCK1(p, void(PV const&));
  MAKE_MOCK1(c, void(char const*));
};

static char const* const A = "a";
static char const* const STAND_IN = "nullptr";
static char const* NUL = nullptr;

#define RANGE_CASE(NAME, EXPR_NULL, EXPR_STAND)                                                                     \
  do {                                                                                                              \
    std::string dn, ds;                                                                                             \
    { M m; last.clear(); { ALLOW_CALL(m, r(EXPR_NULL)); CV arg{"x", "y", "z"}; try { m.r(arg); } catch (Reported const&) {} } dn = described(); } \
    { M m; last.clear(); { ALLOW_CALL(m, r(EXPR_STAND)); CV arg{"x", "y", "z"}; try { m.r(arg); } catch (Reported const&) {} } ds = described(); } \
    check(dn == ds && dn.find("nullptr") != std::string::npos, NAME ": a null char const* element is described as nullptr and the report is complete", \
          "with the null element <" + dn + "> with the string \"nullptr\" in its place <" + ds + ">");              \
  } while (0)

#define PTR_CASE(NAME, EXPR)                                                                                        \
  do {                                                                                                              \
    std::string d;                                                                                                  \
    { M m; last.clear(); { ALLOW_CALL(m, p(EXPR)); int x = 0; PV arg{&x, &x, &x}; try { m.p(arg); } catch (Reported const&) {} } d = described(); } \
    check(d.find("nullptr") != std::string::npos, NAME ": a null int* element is described as nullptr", "<" + d + ">"); \
  } while (0)

#define SCALAR_CASE(NAME, EXPR_NULL, EXPR_STAND, ARG)                                                               \
  do {                                                                                                              \
    std::string dn, ds;                                                                                             \
    { M m; last.clear(); { ALLOW_CALL(m, c(EXPR_NULL)); try { m.c(ARG); } catch (Reported const&) {} } dn = described(); } \
    { M m; last.clear(); { ALLOW_CALL(m, c(EXPR_STAND)); try { m.c(ARG); } catch (Reported const&) {} } ds = described(); } \
    check(dn == ds && dn.find("nullptr") != std::string::npos, NAME ": a null char const* operand is described as nullptr and the report is complete", \
          "with the null operand <" + dn + "> with the string \"nullptr\" in its place <" + ds + ">");               \
  } while (0)

int main()
{
  trompeloeil::set_reporter([](trompeloeil::severity s, char const*, unsigned long, std::string const& msg) {
    last = msg;
    if (s == trompeloeil::severity::fatal) throw Reported{};
  });
  CV with_null{A, NUL}, with_stand{A, STAND_IN};
  int* pnull = nullptr;
  PV ptrs{pnull};

  RANGE_CASE("range_is(e...)", trompeloeil::range_is(A, NUL), trompeloeil::range_is(A, STAND_IN));
  RANGE_CASE("range_is(container)", trompeloeil::range_is(with_null), trompeloeil::range_is(with_stand));
  RANGE_CASE("range_starts_with(e...)", trompeloeil::range_starts_with(A, NUL), trompeloeil::range_starts_with(A, STAND_IN));
  RANGE_CASE("range_starts_with(container)", trompeloeil::range_starts_with(with_null), trompeloeil::range_starts_with(with_stand));
  RANGE_CASE("range_ends_with(e...)", trompeloeil::range_ends_with(A, NUL), trompeloeil::range_ends_with(A, STAND_IN));
  RANGE_CASE("range_ends_with(container)", trompeloeil::range_ends_with(with_null), trompeloeil::range_ends_with(with_stand));
  RANGE_CASE("range_includes(e...)", trompeloeil::range_includes(A, NUL), trompeloeil::range_includes(A, STAND_IN));
  RANGE_CASE("range_includes(container)", trompeloeil::range_includes(with_null), trompeloeil::range_includes(with_stand));
  RANGE_CASE("range_is_permutation(e...)", trompeloeil::range_is_permutation(A, NUL), trompeloeil::range_is_permutation(A, STAND_IN));
  RANGE_CASE("range_is_permutation(container)", trompeloeil::range_is_permutation(with_null), trompeloeil::range_is_permutation(with_stand));

  PTR_CASE("range_is(e...)", trompeloeil::range_is(pnull));
  PTR_CASE("range_is(container)", trompeloeil::range_is(ptrs));
  PTR_CASE("range_includes(e...)", trompeloeil::range_includes(pnull));
  PTR_CASE("range_starts_with(container)", trompeloeil::range_starts_with(ptrs));

  SCALAR_CASE("any_of", trompeloeil::any_of(A, NUL), trompeloeil::any_of(A, STAND_IN), "zzz");
  SCALAR_CASE("all_of", trompeloeil::all_of(A, NUL), trompeloeil::all_of(A, STAND_IN), "zzz");
  SCALAR_CASE("none_of", trompeloeil::none_of(trompeloeil::ne(A), NUL), trompeloeil::none_of(trompeloeil::ne(A), STAND_IN), "zzz");

  {
    // MEMBER_IS(member, value): the value it holds (rvalue forms; an lvalue operand does not compile)
    std::string dn, ds, dp;
    { M m; last.clear(); { ALLOW_CALL(m, s(MEMBER_IS(&S::name, static_cast<char const*>(nullptr)))); S v{"x", nullptr}; try { m.s(v); } catch (Reported const&) {} } dn = described(); }
    { M m; last.clear(); { ALLOW_CALL(m, s(MEMBER_IS(&S::name, static_cast<char const*>("nullptr")))); S v{"x", nullptr}; try { m.s(v); } catch (Reported const&) {} } ds = described(); }
    check(dn == ds && dn.find("nullptr") != std::string::npos, "MEMBER_IS: a null char const* value is described as nullptr and the report is complete",
          "with the null value <" + dn + "> with the string \"nullptr\" in its place <" + ds + ">");
    { M m; last.clear(); { ALLOW_CALL(m, s(MEMBER_IS(&S::ptr, static_cast<int*>(nullptr)))); int i = 0; S v{"x", &i}; try { m.s(v); } catch (Reported const&) {} } dp = described(); }
    check(dp.find("nullptr") != std::string::npos, "MEMBER_IS: a null int* value is described as nullptr", "<" + dp + ">");
  }

  std::printf("DONE failed=%d\n", failed);
  return failed ? 1 : 0;
}
