// hm.hpp — matcher harness support: value domains and evaluation loops (generated TUs include this).
#ifndef HM_HPP
#define HM_HPP
#include <trompeloeil.hpp>
#include <cstdio>
#include <memory>
#include <string>
#include <string_view>
#include <vector>

namespace hm {

struct S { int a; int b; };

extern std::vector<char> out;   // 't' / 'f' per evaluation, in generation order
inline void emit(bool b) { out.push_back(b ? 't' : 'f'); }

template <typename F> void run_int(F f)
{
  for (int v = -2; v <= 3; ++v) { int x = v; emit(f(x)); }
}
template <typename F> void run_long(F f)
{
  for (long v = -2; v <= 3; ++v) { long x = v; emit(f(x)); }
}
template <typename F> void run_str(F f)
{
  for (char const* s : {"", "a", "ab", "b"}) { std::string x = s; emit(f(x)); }
}
// the same four strings as run_str, as std::string_view slices of a longer buffer: the view's length, not the first NUL of
// the buffer, delimits the text
template <typename F> void run_sv(F f)
{
  static char const buf[] = "abab";
  for (std::string_view v : {std::string_view(buf, 0), std::string_view(buf, 1), std::string_view(buf, 2), std::string_view(buf + 1, 1)})
  { std::string_view x = v; emit(f(x)); }
}
template <typename F> void run_cstr(F f)
{
  for (char const* s : {static_cast<char const*>(nullptr), "", "a", "ab", "b"}) { char const* x = s; emit(f(x)); }
}
template <typename F> void run_ptr_raw(F f)
{
  int vals[6] = {-2, -1, 0, 1, 2, 3};
  { int* x = nullptr; emit(f(x)); }
  for (int& v : vals) { int* x = &v; emit(f(x)); }
}
template <typename F> void run_ptr_unique(F f)
{
  { std::unique_ptr<int> x; emit(f(x)); }
  for (int v = -2; v <= 3; ++v) { std::unique_ptr<int> x(new int(v)); emit(f(x)); }
}
template <typename F> void run_ptr_shared(F f)
{
  { std::shared_ptr<int> x; emit(f(x)); }
  for (int v = -2; v <= 3; ++v) { std::shared_ptr<int> x = std::make_shared<int>(v); emit(f(x)); }
}
template <typename F> void run_S(F f)
{
  for (int a = 0; a < 3; ++a) for (int b = 0; b < 3; ++b) { S x{a, b}; emit(f(x)); }
}

} // namespace hm
#endif
