// h_retref.cpp — C08: "the caller receives that value (for reference returns, that very object)".
// Every way of writing a RETURN / LR_RETURN expression for value, reference, const-reference and pointer returns:
// the object the caller gets is identified by address, the value by comparison, the number of evaluations by a counter.
// Output: PASS/FAIL <case> lines and a final DONE line.  Built with ASan + UBSan from /repo's current tree.
#include <trompeloeil.hpp>
#include <cstdio>
#include <functional>
#include <stdexcept>
#include <string>

using trompeloeil::_;

static int failed = 0;
static int reports = 0;
static void check(bool ok, char const* name)
{
  std::printf("%s %s\n", ok ? "PASS" : "FAIL", name);
  if (!ok) ++failed;
}

struct Big { int v; int pad[7]; };

struct M {
  MAKE_MOCK0(val, int());
  MAKE_MOCK0(ref, int&());
  MAKE_MOCK0(cref, int const&());
  MAKE_MOCK1(cref1, int const&(int const&));
  MAKE_MOCK1(ref1, int&(int&));
  MAKE_MOCK0(ptr, int*());
  MAKE_MOCK0(cptr, int const*());
  MAKE_MOCK0(bigref, Big const&());
  MAKE_MOCK0(str, std::string const&());
  MAKE_CONST_MOCK0(cm_cref, int const&());
};

int main()
{
  trompeloeil::set_reporter([](trompeloeil::severity, char const*, unsigned long, std::string const&) { ++reports; });
  {
    M m; int x = 5;
    ALLOW_CALL(m, ref()).LR_RETURN(x);
    int& r1 = m.ref(); int& r2 = m.ref();
    check(&r1 == &x && &r2 == &x, "T& : LR_RETURN(lvalue) is that very object, on every call");
    r1 = 9; check(x == 9, "T& : a write through the returned reference reaches the object");
  }
  {
    M m; int x = 5;
    ALLOW_CALL(m, ref()).LR_RETURN(std::ref(x));
    check(&m.ref() == &x, "T& : LR_RETURN(std::ref(lvalue)) is that very object");
  }
  {
    M m; int x = 5;
    ALLOW_CALL(m, cref()).LR_RETURN(x);
    check(&m.cref() == &x, "T const& : LR_RETURN(non-const lvalue) is that very object");
  }
  {
    M m; int const cx = 6;
    ALLOW_CALL(m, cref()).LR_RETURN(cx);
    int const& a = m.cref(); int const& b = m.cref();
    check(&a == &cx && &b == &cx, "T const& : LR_RETURN(const lvalue) is that very object, on every call");
  }
  {
    M m; int x = 7;
    ALLOW_CALL(m, cref()).LR_RETURN(std::cref(x));
    check(&m.cref() == &x, "T const& : LR_RETURN(std::cref(lvalue)) is that very object");
  }
  {
    M m; int x = 7;
    ALLOW_CALL(m, cref()).RETURN(x);            // by-copy capture: the expectation's own copy, one object for all calls
    int const& a = m.cref(); int const& b = m.cref();
    check(&a != &x && &a == &b && a == 7, "T const& : RETURN(captured copy) is the expectation's copy, the same object on every call");
    x = 8; check(m.cref() == 7, "T const& : the copy was taken when the expectation was created");
  }
  {
    M m; int arg = 3;
    ALLOW_CALL(m, cref1(_)).RETURN(_1);
    int const& a = m.cref1(arg);
    check(&a == &arg, "T const&(T const&) : RETURN(_1) is the caller's argument");
  }
  {
    M m; int arg = 3;
    ALLOW_CALL(m, ref1(_)).RETURN(_1);
    int& a = m.ref1(arg);
    check(&a == &arg, "T&(T&) : RETURN(_1) is the caller's argument");
    a = 4; check(arg == 4, "T&(T&) : a write through the returned reference reaches the caller's argument");
  }
  {
    M m; Big const big{42, {}};
    ALLOW_CALL(m, bigref()).LR_RETURN(big);
    Big const& b = m.bigref();
    check(&b == &big && b.v == 42, "Big const& : LR_RETURN(const object) is that very object");
  }
  {
    M m; std::string const s = "a string long enough not to live in the small buffer";
    ALLOW_CALL(m, str()).LR_RETURN(s);
    std::string const& r = m.str();
    check(&r == &s && r == s, "std::string const& : LR_RETURN(const object) is that very object");
  }
  {
    M const cm{}; int const cx = 1;
    ALLOW_CALL(cm, cm_cref()).LR_RETURN(cx);
    check(&cm.cm_cref() == &cx, "const mock, T const& : LR_RETURN(const lvalue) is that very object");
  }
  {
    M m; int x = 1;
    ALLOW_CALL(m, ptr()).LR_RETURN(&x);
    check(m.ptr() == &x, "T* : LR_RETURN(&lvalue)");
    int const cx = 2;
    ALLOW_CALL(m, cptr()).LR_RETURN(&cx);
    check(m.cptr() == &cx, "T const* : LR_RETURN(&const lvalue)");
  }
  {
    M m; int n = 0;
    ALLOW_CALL(m, val()).LR_RETURN(++n);
    int a = m.val(), b = m.val();
    check(a == 1 && b == 2 && n == 2, "T : the RETURN expression is evaluated exactly once per call and its value is what the caller gets");
  }
  {
    M m; int n = 0; int x = 0;
    ALLOW_CALL(m, ref()).LR_SIDE_EFFECT(++n).LR_RETURN((++n, x));
    int& r = m.ref();
    check(&r == &x && n == 2, "T& : side effect, then the RETURN expression once, then that very object");
  }
  check(reports == 0, "no report from any of the calls above");
  std::printf("DONE failed=%d\n", failed);
  return failed ? 1 : 0;
}
