// hw.hpp — shared declarations of the world harness (h_world).
// The harness drives the REAL trompeloeil headers of /repo in-process; every expectation,
// monitor and sequence carries a run-time name ("e3", "d1", "s0") so that every report
// identifies the instance, not only the source line.
#ifndef HW_HPP
#define HW_HPP
#include <trompeloeil.hpp>
#include <cstdio>
#include <cstring>
#include <memory>
#include <stdexcept>
#include <string>
#include <vector>

namespace hx {

struct CondSpec { int kind; int i; long k; long r; };   // 0 true, 1 false, 2 mod, 3 gt
struct RetSpec  { int kind; long v; };                  // 0 none, 1 val, 2 arg, 3 std, 4 other

struct Ctx {
  int id = 0;
  char name[24] = {0};
  int fn = 0;
  int pk[2] = {0, 0};          // parameter matcher kind: 0 any 1 eq 2 ne 3 lt 4 le 5 gt 6 ge
  long pv[2] = {0, 0};
  std::vector<CondSpec> conds;
  std::vector<int> fx;         // 0 log, 1 throws std, 2 throws other, 3 re-entrant: calls another mock function
  struct Nest { int o; int f; long a0; long a1; };
  std::vector<Nest> nest;      // parallel to fx (used when fx[i] == 3)
  RetSpec ret{0, 0};
  size_t lo = 1, hi = 1;
  trompeloeil::sequence* seq[2] = {nullptr, nullptr};
  char const* sname[2] = {nullptr, nullptr};
};

extern std::vector<std::string> evs;        // events of the current operation
void ev(std::string s);

struct Args { long a[2]; int n; };
inline Args args(long x) { return Args{{x, 0}, 1}; }
inline Args args(long x, long y) { return Args{{x, y}, 2}; }

bool cond(Ctx const* c, int idx, Args a);
void fx(Ctx const* c, int idx, Args a);
int  ret(Ctx const* c, Args a);
int  thr(Ctx const* c);

inline bool pm_eval(long x, int kind, long v)
{
  switch (kind) {
    case 0: return true;
    case 1: return x == v;
    case 2: return x != v;
    case 3: return x < v;
    case 4: return x <= v;
    case 5: return x > v;
    default: return x >= v;
  }
}

template <typename T>
auto rtm(int kind, long v)
{
  return trompeloeil::make_matcher<T>(
    [](T const& x, int k, long val) { return pm_eval(static_cast<long>(x), k, val); },
    [](std::ostream& os, int k, long val) { os << " m" << k << ":" << val; },
    kind, v);
}

struct MockM {
  static constexpr bool trompeloeil_movable_mock = true;
  MAKE_MOCK1(fv, void(int));
  MAKE_MOCK1(fi, int(int));
  MAKE_MOCK2(g, int(int,int));
  MAKE_MOCK1(fi, int(long));
};

struct MockN {
  MAKE_MOCK1(fv, void(int));
  MAKE_MOCK1(fi, int(int));
  MAKE_MOCK2(g, int(int,int));
  MAKE_MOCK1(fi, int(long));
};

using ExpPtr = std::unique_ptr<trompeloeil::expectation>;
using MakeM = ExpPtr (*)(Ctx*, MockM&);
using MakeN = ExpPtr (*)(Ctx*, MockN&);

struct ShapeKey { int fn, nw, ns, rk, tk, nsq, sf; };
struct ShapeEntry { ShapeKey k; MakeM mm; MakeN mn; };
extern ShapeEntry const shape_table[];
extern int const shape_table_size;

// the expansion of TROMPELOEIL_REQUIRE_CALL_OBJ with a run-time expectation string
#define HX_EXPECT(obj, func, name)                                                         \
  ::trompeloeil::call_validator_t<decltype((obj).TROMPELOEIL_CONCAT(trompeloeil_self_, func))>{(obj)} + \
    ::trompeloeil::detail::conditional_t<false,                                            \
                       decltype((obj).func),                                               \
                       decltype((obj).TROMPELOEIL_CONCAT(trompeloeil_tag_,func))>          \
    {__FILE__, static_cast<unsigned long>(__LINE__), name}.func

#define HX_SEQ1(c) in_sequence(::trompeloeil::sequence_matcher::init_type{(c)->sname[0], *(c)->seq[0]})
#define HX_SEQ2(c) in_sequence(::trompeloeil::sequence_matcher::init_type{(c)->sname[0], *(c)->seq[0]}, \
                               ::trompeloeil::sequence_matcher::init_type{(c)->sname[1], *(c)->seq[1]})

} // namespace hx
#endif
