// h_world.cpp — line-protocol driver for the real trompeloeil (see DESIGN.md §2.2).
// Reads one operation per line on stdin, prints one canonical answer line per operation.
#include "hw.hpp"
#include <cstdlib>
#include <cstring>
#include <exception>
#include <iostream>
#include <map>
#include <sstream>

namespace hx {
std::vector<std::string> evs;
void ev(std::string s) { evs.push_back(std::move(s)); }

static std::string args_str(Args a)
{
  std::string s = "[";
  for (int i = 0; i < a.n; ++i) { if (i) s += ","; s += std::to_string(a.a[i]); }
  return s + "]";
}

bool cond(Ctx const* c, int idx, Args a)
{
  ev("with e" + std::to_string(c->id) + " " + std::to_string(idx));
  CondSpec const& s = c->conds.at(static_cast<size_t>(idx));
  switch (s.kind) {
    case 0: return true;
    case 1: return false;
    case 2: return a.a[s.i] % s.k == s.r;
    default: return a.a[s.i] > s.k;
  }
}

// the std::exception a clause throws: for odd expectation ids it carries a nested exception that is not a std::exception
// (std::throw_with_nested while an int is being handled) — whoever looks at it on the way (a tracer noting the exception)
// must leave it as the exception the caller receives
[[noreturn]] static void throw_std(int id)
{
  if (id % 2 == 0) throw std::runtime_error("std");
  try { throw 7; } catch (...) { std::throw_with_nested(std::runtime_error("std")); }
  std::abort();
}

void nested_call(int o, int f, long a0, long a1);   // defined below: a mock call made from inside a side effect

void fx(Ctx const* c, int idx, Args)
{
  ev("fx e" + std::to_string(c->id) + " " + std::to_string(idx));
  int k = c->fx.at(static_cast<size_t>(idx));
  if (k == 1) throw_std(c->id);
  if (k == 2) throw 42;
  if (k == 3) {
    auto const& n = c->nest.at(static_cast<size_t>(idx));
    nested_call(n.o, n.f, n.a0, n.a1);          // whatever it throws propagates through the side effect
  }
}

int ret(Ctx const* c, Args a)
{
  ev("ret e" + std::to_string(c->id));
  switch (c->ret.kind) {
    case 1: return static_cast<int>(c->ret.v);
    case 2: return static_cast<int>(a.a[c->ret.v]);
    case 3: throw_std(c->id);
    case 4: throw 42;
    default: return 0;
  }
}

int thr(Ctx const* c)
{
  ev("ret e" + std::to_string(c->id));
  if (c->ret.kind == 3) throw_std(c->id);
  throw 42;
}
} // namespace hx

using namespace hx;

namespace {

struct Reported {};   // what the (conforming) reporter throws on a fatal report

struct WBase {
  WBase() = default;
  WBase(WBase const&) = default;
  WBase(WBase&&) = default;
  WBase& operator=(WBase const&) = default;
  WBase& operator=(WBase&&) = default;
  virtual ~WBase() = default;
  int payload = 0;
};
using DW = trompeloeil::deathwatched<WBase>;

struct Tracer : trompeloeil::tracer {
  explicit Tracer(int id_) : id(id_) {}
  void trace(char const*, unsigned long, std::string const& call) override;
  int id;
};

int current_reporter = 0;
int probe_answer = -1;
bool muted = false;
int current_watched = -1;

std::map<int, MockM*> mocksM;
std::map<int, MockN*> mocksN;
std::map<int, trompeloeil::sequence*> seqs;
std::map<int, std::string*> seqnames;
std::map<int, ExpPtr> exps;
std::map<int, Ctx*> ctxs;
std::map<int, std::unique_ptr<trompeloeil::expectation>> mons;
std::map<int, std::string*> monnames;
std::map<int, DW*> watched;
std::map<int, Tracer*> tracers;
std::vector<Ctx*> all_ctx;
std::vector<std::string*> all_names;

std::vector<std::string> split(std::string const& s, char sep = ' ')
{
  std::vector<std::string> out;
  std::string cur;
  for (char ch : s) {
    if (ch == sep) { if (!cur.empty() || sep != ' ') out.push_back(cur); cur.clear(); }
    else cur += ch;
  }
  if (!cur.empty() || sep != ' ') out.push_back(cur);
  return out;
}

std::string line_after(std::string const& msg, std::string const& key, size_t from = 0)
{
  auto p = msg.find(key, from);
  if (p == std::string::npos) return "";
  p += key.size();
  auto e = msg.find('\n', p);
  return msg.substr(p, e == std::string::npos ? std::string::npos : e - p);
}

// "e3 at file:line..." -> "e3"
std::string name_before_at(std::string const& s)
{
  auto p = s.find(" at ");
  return p == std::string::npos ? s : s.substr(0, p);
}

std::string parse_param_values(std::string const& msg)
{
  // lines "  param  _1 == 5"
  std::string out = "[";
  size_t pos = 0;
  bool first = true;
  while ((pos = msg.find("  param ", pos)) != std::string::npos) {
    auto e = msg.find('\n', pos);
    std::string l = msg.substr(pos, e - pos);
    auto q = l.find("== ");
    if (q != std::string::npos) {
      if (!first) out += ",";
      out += l.substr(q + 3);
      first = false;
    }
    pos = e == std::string::npos ? msg.size() : e;
  }
  return out + "]";
}

int fn_of(std::string const& nm)
{
  if (nm.find("fv with signature void(int)") == 0) return 0;
  if (nm.find("fi with signature int(int)") == 0) return 1;
  if (nm.find("g with signature int(int,int)") == 0) return 2;
  if (nm.find("fi with signature int(long)") == 0) return 3;
  return -1;
}

std::string count_word(std::string const& w)   // "once" | "never" | "N"
{
  if (w == "once") return "1";
  if (w == "never") return "0";
  return w;
}

std::string canon_report(std::string const& msg)
{
  static const std::string k_nomatch = "No match for call of ";
  static const std::string k_forbid = "Match of forbidden call of ";
  static const std::string k_seq = "Sequence mismatch for sequence \"";
  static const std::string k_unf = "Unfulfilled expectation:\nExpected ";
  static const std::string k_pend = "Pending expectation on destroyed mock object:\nExpected ";
  static const std::string k_alive = "Object ";
  static const std::string k_unexp = "Unexpected destruction of ";
  static const std::string k_dead = "Sequence expectations not met at destruction of sequence object \"";
  if (msg.compare(0, k_nomatch.size(), k_nomatch) == 0) {
    std::string head = msg.substr(k_nomatch.size(), msg.find(" with.\n") - k_nomatch.size());
    auto blank = msg.find("\n\n");
    std::string params = msg.substr(0, blank == std::string::npos ? msg.size() : blank + 1);
    std::string out = "nomatch f" + std::to_string(fn_of(head)) + " args=" + parse_param_values(params);
    std::string satl = "[", tried = "[";
    auto sp = msg.find("\nMatches saturated call requirement\n");
    if (sp != std::string::npos) {
      size_t pos = sp + 36;
      bool first = true;
      while (pos < msg.size() && msg.compare(pos, 2, "  ") == 0) {
        auto e = msg.find('\n', pos);
        if (!first) satl += ",";
        satl += name_before_at(msg.substr(pos + 2, e - pos - 2));
        first = false;
        pos = e + 1;
      }
    }
    size_t pos = 0;
    bool first = true;
    while ((pos = msg.find("\nTried ", pos)) != std::string::npos) {
      auto e = msg.find('\n', pos + 1);
      std::string nm = name_before_at(msg.substr(pos + 7, e - pos - 7));
      auto next = msg.find("\nTried ", pos + 1);
      std::string body = msg.substr(e == std::string::npos ? msg.size() : e,
                                    next == std::string::npos ? std::string::npos : next - e);
      std::string why;
      auto fw = body.find("Failed WITH(hx::cond(c,");
      if (fw != std::string::npos) {
        why = "w" + body.substr(fw + 23, body.find(',', fw + 23) - (fw + 23));
      } else if (body.find("  Expected ") != std::string::npos) {
        why = "p";
        size_t q = 0;
        bool f2 = true;
        while ((q = body.find("  Expected ", q)) != std::string::npos) {
          auto u = body.find('_', q);
          size_t v = u + 1;
          std::string num;
          while (v < body.size() && isdigit(static_cast<unsigned char>(body[v]))) num += body[v++];
          if (!f2) why += ".";
          why += std::to_string(std::stoi(num) - 1);
          f2 = false;
          q = v;
        }
      } else {
        why = "w-";
      }
      if (!first) tried += ",";
      tried += nm + ":" + why;
      first = false;
      pos = pos + 1;
    }
    return out + " sat=" + satl + "] tried=" + tried + "]";
  }
  if (msg.compare(0, k_forbid.size(), k_forbid) == 0) {
    std::string nm = name_before_at(line_after(msg, k_forbid));
    return "forbidden " + nm + " args=" + parse_param_values(msg);
  }
  if (msg.compare(0, k_seq.size(), k_seq) == 0) {
    auto q = msg.find('"', k_seq.size());
    std::string s = msg.substr(k_seq.size(), q - k_seq.size());
    std::string who = name_before_at(line_after(msg, "with matching call of "));
    if (msg.find("has no more pending expectations") != std::string::npos)
      return "seqmis " + s + " " + who + " nomore";
    std::string listed = "[";
    bool first = true;
    size_t pos = msg.find(".\n");
    pos = pos == std::string::npos ? msg.size() : pos + 2;
    while (pos < msg.size()) {
      auto e = msg.find('\n', pos);
      std::string l = msg.substr(pos, e == std::string::npos ? std::string::npos : e - pos);
      auto h = l.find("has ");
      if (h != std::string::npos) {
        std::string nm = name_before_at(l.substr(h + 4));
        bool opt = l.find(" first in line") != std::string::npos;
        if (!first) listed += ",";
        listed += nm + (opt ? ":opt" : ":req");
        first = false;
      }
      if (e == std::string::npos) break;
      pos = e + 1;
    }
    return "seqmis " + s + " " + who + " listed=" + listed + "]";
  }
  bool unf = msg.compare(0, k_unf.size(), k_unf) == 0;
  bool pend = msg.compare(0, k_pend.size(), k_pend) == 0;
  if (unf || pend) {
    std::string l = line_after(msg, "Expected ");
    auto t = l.find(" to be called ");
    std::string nm = l.substr(0, t);
    std::string rest = l.substr(t + 14);          // "once, actually never called" | "2 times, actually called 3 times"
    auto comma = rest.find(", actually ");
    std::string lo = rest.substr(0, comma);
    if (lo.size() > 6 && lo.compare(lo.size() - 6, 6, " times") == 0) lo = lo.substr(0, lo.size() - 6);
    std::string act = rest.substr(comma + 11);
    std::string n;
    if (act == "never called") n = "0";
    else if (act == "called once") n = "1";
    else { n = act.substr(7); n = n.substr(0, n.find(' ')); }
    return std::string(unf ? "unfulfilled " : "pending ") + nm + " lo=" + count_word(lo) + " n=" + n;
  }
  if (msg.compare(0, k_alive.size(), k_alive) == 0 && msg.find(" is still alive") != std::string::npos) {
    return "stillalive " + msg.substr(k_alive.size(), msg.find(" is still alive") - k_alive.size());
  }
  if (msg.compare(0, k_unexp.size(), k_unexp) == 0) {
    return "unexpected w" + std::to_string(current_watched);
  }
  if (msg.compare(0, k_dead.size(), k_dead) == 0) {
    auto q = msg.find('"', k_dead.size());
    std::string s = msg.substr(k_dead.size(), q - k_dead.size());
    std::string miss = "[";
    size_t pos = 0;
    bool first = true;
    while ((pos = msg.find("\n  missing ", pos)) != std::string::npos) {
      auto e = msg.find('\n', pos + 1);
      if (!first) miss += ",";
      miss += name_before_at(msg.substr(pos + 11, e - pos - 11));
      first = false;
      pos = pos + 1;
    }
    return "seqdead " + s + " missing=" + miss + "]";
  }
  std::string flat = msg;
  for (auto& ch : flat) if (ch == '\n') ch = '|';
  return "unparsed <" + flat + ">";
}

// "releasek e o": the reporter, on receiving the next non-fatal report, destroys mock o — a test fixture torn down from
// inside the report about expectation e, while e is still hooked to its mock
static int kill_on_report = -1;
static void kill_mock(int o)
{
  if (mocksM.count(o)) { delete mocksM.at(o); mocksM.erase(o); }
  else { delete mocksN.at(o); mocksN.erase(o); }
}
static void after_nonfatal()
{
  if (kill_on_report >= 0) { int o = kill_on_report; kill_on_report = -1; kill_mock(o); }
}

void install_reporter(int r)
{
  current_reporter = r;
  trompeloeil::set_reporter(
    [r](trompeloeil::severity s, char const* file, unsigned long line, std::string const& msg) {
      if (msg == "#probe") { probe_answer = r; return; }
      if (muted) { if (s == trompeloeil::severity::fatal) throw Reported{}; return; }
      (void)file; (void)line;
      ev(std::string("report ") + (s == trompeloeil::severity::fatal ? "F" : "N") + " r" + std::to_string(r) + " " + canon_report(msg));
      if (s == trompeloeil::severity::fatal) throw Reported{};
      after_nonfatal();
    },
    [r](char const* msg) {
      if (std::strcmp(msg, "#probe") == 0) { probe_answer = r; return; }
      if (muted) return;
      ev("ok r" + std::to_string(r) + " " + msg);
    });
}

void Tracer::trace(char const*, unsigned long, std::string const& call)
{
  // "e3 with.\n  param  _1 == 5\n -> 7\n" | "...threw exception: what() = std\n" | "threw unknown exception\n"
  std::string nm = call.substr(0, call.find(" with.\n"));
  std::string res = "void";
  auto arrow = call.find("\n -> ");
  if (arrow != std::string::npos) {
    std::string v = call.substr(arrow + 5);
    res = "val:" + v.substr(0, v.find('\n'));
  } else if (call.find("threw exception: what() = ") != std::string::npos) {
    res = "what:" + line_after(call, "threw exception: what() = ");
  } else if (call.find("threw unknown exception") != std::string::npos) {
    res = "UNKNOWN";
  }
  // the exception is noted once: a second note (or a note beside a result) is part of the record
  size_t notes = 0;
  for (size_t at = call.find("threw "); at != std::string::npos; at = call.find("threw ", at + 1)) ++notes;
  if (notes > 1 || (notes == 1 && arrow != std::string::npos)) res += " notes:" + std::to_string(notes);
  std::string params = call.substr(0, arrow == std::string::npos ? call.find("threw ") : arrow + 1);
  ev("trace t" + std::to_string(id) + " " + nm + " args=" + parse_param_values(params) + " " + res);
}

size_t parse_size(std::string const& s)
{
  if (s == "inf") return ~static_cast<size_t>(0);
  return static_cast<size_t>(std::stoull(s));
}

std::vector<std::string> sect(std::vector<std::string> const& t, std::string const& tag)
{
  std::vector<std::string> out;
  size_t i = 0;
  while (i < t.size() && t[i] != tag) ++i;
  for (++i; i < t.size(); ++i) {
    auto const& x = t[i];
    if (x == "P" || x == "W" || x == "X" || x == "R" || x == "T" || x == "S" || x == "O") break;
    out.push_back(x);
  }
  return out;
}

int pm_kind(std::string const& k)
{
  if (k == "_") return 0; if (k == "eq") return 1; if (k == "ne") return 2; if (k == "lt") return 3;
  if (k == "le") return 4; if (k == "gt") return 5; return 6;
}

void finish_call_events(char const* caught)
{
  for (auto& e : evs) {
    auto p = e.find(" UNKNOWN");
    if (p != std::string::npos && e.compare(0, 6, "trace ") == 0) e = e.substr(0, p) + " " + caught + e.substr(p + 8);
    auto q = e.find(" what:std");
    if (q != std::string::npos && e.compare(0, 6, "trace ") == 0) e = e.substr(0, q) + " std" + e.substr(q + 9);
  }
}

void do_expect(std::vector<std::string> const& t)
{
  Ctx* c = new Ctx;
  all_ctx.push_back(c);
  c->id = std::stoi(t[1]);
  std::snprintf(c->name, sizeof c->name, "e%d", c->id);
  int o = std::stoi(t[2]);
  c->fn = std::stoi(t[3]);
  auto P = sect(t, "P"), W = sect(t, "W"), X = sect(t, "X"), R = sect(t, "R"), T = sect(t, "T"), S = sect(t, "S"), O = sect(t, "O");
  for (size_t i = 0; i < P.size() && i < 2; ++i) {
    auto kv = split(P[i], ':');
    c->pk[i] = pm_kind(kv[0]);
    c->pv[i] = kv.size() > 1 ? std::stol(kv[1]) : 0;
  }
  for (auto const& w : W) {
    auto kv = split(w, ':');
    if (kv[0] == "t") c->conds.push_back({0, 0, 0, 0});
    else if (kv[0] == "f") c->conds.push_back({1, 0, 0, 0});
    else if (kv[0] == "mod") c->conds.push_back({2, std::stoi(kv[1]), std::stol(kv[2]), std::stol(kv[3])});
    else c->conds.push_back({3, std::stoi(kv[1]), std::stol(kv[2]), 0});
  }
  for (auto const& x : X) {
    if (x.compare(0, 5, "call:") == 0) {
      auto kv = split(x, ':');
      c->fx.push_back(3);
      c->nest.push_back({std::stoi(kv.at(1)), std::stoi(kv.at(2)), std::stol(kv.at(3)), kv.size() > 4 ? std::stol(kv[4]) : 0});
    } else {
      c->fx.push_back(x == "log" ? 0 : x == "std" ? 1 : 2);
      c->nest.push_back({0, 0, 0, 0});
    }
  }
  int rk = 0;
  {
    auto kv = split(R.at(0), ':');
    if (kv[0] == "none") { c->ret = {0, 0}; rk = 0; }
    else if (kv[0] == "val") { c->ret = {1, std::stol(kv[1])}; rk = 1; }
    else if (kv[0] == "arg") { c->ret = {2, std::stol(kv[1])}; rk = 1; }
    else if (kv[0] == "std") { c->ret = {3, 0}; rk = 2; }
    else { c->ret = {4, 0}; rk = 2; }
  }
  c->lo = parse_size(T.at(0));
  c->hi = parse_size(T.at(1));
  // O: <tk> <seq-first> <ret-clause: 1 RETURN even when it throws>
  int tk = std::stoi(O.at(0));
  int sf = std::stoi(O.at(1));
  if (O.size() > 2 && O[2] == "1" && rk == 2) rk = 1;
  for (size_t i = 0; i < S.size() && i < 2; ++i) {
    int s = std::stoi(S[i]);
    c->seq[i] = seqs.at(s);
    c->sname[i] = seqnames.at(s)->c_str();
  }
  ShapeEntry const* found = nullptr;
  for (int i = 0; i < shape_table_size; ++i) {
    auto const& k = shape_table[i].k;
    if (k.fn == c->fn && k.nw == static_cast<int>(W.size()) && k.ns == static_cast<int>(X.size()) && k.rk == rk
        && k.tk == tk && k.nsq == static_cast<int>(S.size()) && k.sf == sf) { found = &shape_table[i]; break; }
  }
  if (!found) { ev("no-shape"); return; }
  try {
    if (mocksM.count(o)) exps[c->id] = found->mm(c, *mocksM.at(o));
    else if (found->mn) exps[c->id] = found->mn(c, *mocksN.at(o));
    else { ev("no-shape"); return; }
    ctxs[c->id] = c;
  } catch (std::logic_error const&) {
    ev("logic_error");
  }
}

void do_call(std::vector<std::string> const& t)
{
  int o = std::stoi(t[1]);
  int f = std::stoi(t[2]);
  long a0 = std::stol(t[3]);
  long a1 = t.size() > 4 ? std::stol(t[4]) : 0;
  char const* caught = nullptr;
  std::string res;
  try {
    if (mocksM.count(o)) {
      MockM& m = *mocksM.at(o);
      switch (f) {
        case 0: m.fv(static_cast<int>(a0)); res = "void"; break;
        case 1: res = "val:" + std::to_string(m.fi(static_cast<int>(a0))); break;
        case 2: res = "val:" + std::to_string(m.g(static_cast<int>(a0), static_cast<int>(a1))); break;
        default: res = "val:" + std::to_string(m.fi(a0)); break;
      }
    } else {
      MockN& m = *mocksN.at(o);
      switch (f) {
        case 0: m.fv(static_cast<int>(a0)); res = "void"; break;
        case 1: res = "val:" + std::to_string(m.fi(static_cast<int>(a0))); break;
        case 2: res = "val:" + std::to_string(m.g(static_cast<int>(a0), static_cast<int>(a1))); break;
        default: res = "val:" + std::to_string(m.fi(a0)); break;
      }
    }
  }
  catch (Reported const&) { caught = "rep"; }
  catch (std::exception const& x) { caught = std::strcmp(x.what(), "std") == 0 ? "std" : "wrongstd"; }
  catch (...) { caught = "other"; }
  if (caught) { finish_call_events(caught); res = caught; }
  ev("res " + res);
}

} // namespace
namespace hx {
void nested_call(int o, int f, long a0, long a1)
{
  if (mocksM.count(o)) {
    MockM& m = *mocksM.at(o);
    switch (f) {
      case 0: m.fv(static_cast<int>(a0)); break;
      case 1: (void)m.fi(static_cast<int>(a0)); break;
      case 2: (void)m.g(static_cast<int>(a0), static_cast<int>(a1)); break;
      default: (void)m.fi(a0); break;
    }
  } else {
    MockN& m = *mocksN.at(o);
    switch (f) {
      case 0: m.fv(static_cast<int>(a0)); break;
      case 1: (void)m.fi(static_cast<int>(a0)); break;
      case 2: (void)m.g(static_cast<int>(a0), static_cast<int>(a1)); break;
      default: (void)m.fi(a0); break;
    }
  }
}
} // namespace hx
namespace {

template <typename M> void erase_delete(M& m) { for (auto& kv : m) delete kv.second; m.clear(); }

void reset_all()
{
  muted = true;
  exps.clear();
  mons.clear();
  erase_delete(watched);
  erase_delete(mocksM);
  erase_delete(mocksN);
  erase_delete(seqs);
  while (!tracers.empty()) { auto it = std::prev(tracers.end()); delete it->second; tracers.erase(it); }
  trompeloeil::set_tracer(nullptr);   // every script starts from a clean process-wide state
  ctxs.clear();
  for (auto c : all_ctx) delete c;
  all_ctx.clear();
  for (auto n : all_names) delete n;
  all_names.clear();
  seqnames.clear();
  monnames.clear();
  muted = false;
  install_reporter(0);
}

void do_monitor(std::vector<std::string> const& t)
{
  int m = std::stoi(t[1]);
  int x = std::stoi(t[2]);
  auto* nm = new std::string("d" + std::to_string(m));
  all_names.push_back(nm);
  monnames[m] = nm;
  DW& obj = *watched.at(x);
  trompeloeil::location loc{__FILE__, static_cast<unsigned long>(__LINE__)};
  auto mk = [&] {
    return trompeloeil::lifetime_monitor_modifier<false>{
      ::trompeloeil::detail::make_unique<trompeloeil::lifetime_monitor>(obj, nm->c_str(), nm->c_str(), nm->c_str(), loc)};
  };
  using init = trompeloeil::sequence_matcher::init_type;
  size_t ns = t.size() - 3;
  if (ns == 0) mons[m] = trompeloeil::lifetime_monitor_releaser{} + mk();
  else if (ns == 1) {
    int s0 = std::stoi(t[3]);
    mons[m] = trompeloeil::lifetime_monitor_releaser{} + mk().in_sequence(init{seqnames.at(s0)->c_str(), *seqs.at(s0)});
  } else {
    int s0 = std::stoi(t[3]), s1 = std::stoi(t[4]);
    mons[m] = trompeloeil::lifetime_monitor_releaser{} + mk().in_sequence(init{seqnames.at(s0)->c_str(), *seqs.at(s0)},
                                                                          init{seqnames.at(s1)->c_str(), *seqs.at(s1)});
  }
}

void process(std::string const& line)
{
  auto t = split(line);
  std::string const& op = t[0];
  if (op == "mock") {
    int o = std::stoi(t[1]);
    if (t[2] == "1") mocksM[o] = new MockM; else mocksN[o] = new MockN;
  } else if (op == "seq") {
    int s = std::stoi(t[1]);
    seqs[s] = new trompeloeil::sequence;
    auto* nm = new std::string("s" + std::to_string(s));
    all_names.push_back(nm);
    seqnames[s] = nm;
  } else if (op == "expect") {
    do_expect(t);
  } else if (op == "call") {
    do_call(t);
  } else if (op == "sat") {
    ev(std::string("ans ") + (exps.at(std::stoi(t[1]))->is_satisfied() ? "true" : "false"));
  } else if (op == "satd") {
    ev(std::string("ans ") + (exps.at(std::stoi(t[1]))->is_saturated() ? "true" : "false"));
  } else if (op == "release") {
    exps.erase(std::stoi(t[1]));
  } else if (op == "move") {
    int o = std::stoi(t[1]), o2 = std::stoi(t[2]);
    mocksM[o2] = new MockM(std::move(*mocksM.at(o)));
  } else if (op == "kill") {
    kill_mock(std::stoi(t[1]));
  } else if (op == "releasek") {
    int o = std::stoi(t[2]);
    kill_on_report = o;
    exps.erase(std::stoi(t[1]));
    if (kill_on_report >= 0) { kill_on_report = -1; kill_mock(o); }     // nothing was reported: the mock dies afterwards
  } else if (op == "killseq") {
    int s = std::stoi(t[1]);
    delete seqs.at(s);
    seqs.erase(s);
  } else if (op == "completed") {
    ev(std::string("ans ") + (seqs.at(std::stoi(t[1]))->is_completed() ? "true" : "false"));
  } else if (op == "watched") {
    watched[std::stoi(t[1])] = new DW;
  } else if (op == "copyw") {
    // every way of naming the source selects a different constructor of deathwatched<T> (the forwarding constructor for a
    // non-const lvalue, the implicit copy constructor for a const view): alternate by the id of the new object
    int dst = std::stoi(t[2]);
    DW& src = *watched.at(std::stoi(t[1]));
    watched[dst] = (dst % 2) ? new DW(static_cast<DW const&>(src)) : new DW(src);
  } else if (op == "movew") {
    int dst = std::stoi(t[2]);
    DW& src = *watched.at(std::stoi(t[1]));
    watched[dst] = (dst % 2) ? new DW(static_cast<DW const&&>(src)) : new DW(std::move(src));
  } else if (op == "assignw") {
    int d = std::stoi(t[1]);
    // the source named as a non-const lvalue, a const lvalue, an rvalue and a const rvalue in turn (by the id of the
    // target and of the source): whichever assignment operator that selects, the source keeps its requirements
    DW& src = *watched.at(std::stoi(t[2]));
    switch ((d + 2 * std::stoi(t[2])) % 4) {
    case 0: *watched.at(d) = src; break;
    case 1: *watched.at(d) = static_cast<DW const&>(src); break;
    case 2: *watched.at(d) = std::move(src); break;
    default: *watched.at(d) = static_cast<DW const&&>(src); break;
    }
  } else if (op == "killw") {
    int x = std::stoi(t[1]);
    current_watched = x;
    delete watched.at(x);
    watched.erase(x);
    current_watched = -1;
  } else if (op == "monitor") {
    do_monitor(t);
  } else if (op == "msat") {
    ev(std::string("ans ") + (mons.at(std::stoi(t[1]))->is_satisfied() ? "true" : "false"));
  } else if (op == "msatd") {
    ev(std::string("ans ") + (mons.at(std::stoi(t[1]))->is_saturated() ? "true" : "false"));
  } else if (op == "releasemon") {
    mons.erase(std::stoi(t[1]));
  } else if (op == "tracer") {
    int id = std::stoi(t[1]);
    tracers[id] = new Tracer(id);
  } else if (op == "killtracer") {
    int id = std::stoi(t[1]);
    delete tracers.at(id);
    tracers.erase(id);
  } else if (op == "setreporter") {
    // "setreporter r"   : trompeloeil::set_reporter(f)        — the violation reporter only
    // "setreporter r k" : trompeloeil::set_reporter(f, ok_f)  — both
    int r = std::stoi(t[1]);
    auto make_rep = [r](trompeloeil::severity s, char const*, unsigned long, std::string const& msg) {
      if (msg == "#probe") { probe_answer = r; return; }
      if (muted) { if (s == trompeloeil::severity::fatal) throw Reported{}; return; }
      ev(std::string("report ") + (s == trompeloeil::severity::fatal ? "F" : "N") + " r" + std::to_string(r) + " " + canon_report(msg));
      if (s == trompeloeil::severity::fatal) throw Reported{};
      after_nonfatal();
    };
    if (t.size() > 2) {
      int k = std::stoi(t[2]);
      auto make_ok = [k](char const* msg) {
        if (std::strcmp(msg, "#probe") == 0) { probe_answer = k; return; }
        if (muted) return;
        ev("ok r" + std::to_string(k) + " " + msg);
      };
      auto prev = trompeloeil::set_reporter(make_rep, make_ok);
      current_reporter = r;
      probe_answer = -1;
      prev.first(trompeloeil::severity::nonfatal, "", 0UL, "#probe");
      ev("was r" + std::to_string(probe_answer));
      probe_answer = -1;
      prev.second("#probe");
      ev("okwas r" + std::to_string(probe_answer));
    } else {
      auto prev = trompeloeil::set_reporter(make_rep);
      current_reporter = r;
      probe_answer = -1;
      prev(trompeloeil::severity::nonfatal, "", 0UL, "#probe");
      ev("was r" + std::to_string(probe_answer));
    }
  } else {
    ev("parse-error");
  }
}

} // namespace

int main()
{
  std::ios::sync_with_stdio(false);
  install_reporter(0);
  std::string line;
  while (std::getline(std::cin, line)) {
    if (line.empty() || line[0] == '#') continue;
    if (line == "reset") { reset_all(); std::cout << "reset\n"; continue; }
    evs.clear();
    process(line);
    if (evs.empty()) std::cout << "-\n";
    else {
      for (size_t i = 0; i < evs.size(); ++i) { if (i) std::cout << " ; "; std::cout << evs[i]; }
      std::cout << "\n";
    }
    std::cout.flush();
  }
  reset_all();
  return 0;
}
