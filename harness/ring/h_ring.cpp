// h_ring — drives the real intrusive ring of /repo (trompeloeil::list_elem<T>, trompeloeil::list<T, Disposer>) with a
// script of operations, one per line, and prints after every operation what iterators see: for every live list object
// the elements front to back (begin()/++/end()) and back to front (following prev from the sentinel), and which nodes
// report is_linked().  Compiled with ASan+UBSan and TROMPELOEIL_SANITY_CHECKS (the library's own invariant_check()
// then aborts on a malformed ring).  The same script is run through `tmodel ring` (Model/Ring.lean).
//
//   newlist L i|d     list object L with ignore_disposer / delete_disposer
//   pf L x | pb L x   push_front / push_back of node x (allocated on first use)
//   unlink x          x->unlink()
//   del x             delete node x  (~list_elem -> unlink)
//   move N O          list N(std::move(O)); O is destroyed afterwards (it is empty)
//   drop L            ~list of an (empty) ignore_disposer list
//   dispose L         ~list of a delete_disposer list: every element is deleted
//   reset             forget everything (next script)
#define TROMPELOEIL_SANITY_CHECKS 1
#include <trompeloeil.hpp>
#include <cstdio>
#include <iostream>
#include <map>
#include <memory>
#include <set>
#include <sstream>
#include <string>
#include <vector>

namespace {
struct Node;
std::map<int, Node*> nodes;
struct Node : trompeloeil::list_elem<Node> {
  explicit Node(int i) : id(i) { nodes[id] = this; }
  ~Node() override { nodes.erase(id); }
  int id;
};
struct Deleter : trompeloeil::delete_disposer {
  template <typename T> void dispose(T* t) const { trompeloeil::delete_disposer::dispose(t); }
};
using IList = trompeloeil::list<Node>;
using DList = trompeloeil::list<Node, trompeloeil::delete_disposer>;

struct AnyList {
  std::unique_ptr<IList> il;
  std::unique_ptr<DList> dl;
  // the sentinel of either kind is a list_elem<Node>; list derives from it privately, so walk through iterators and,
  // for the backward walk, through the public next/prev members of the elements themselves.
  template <typename F> void fwd(F f) const {
    if (il) for (auto& e : *il) f(e); else for (auto& e : *dl) f(e);
  }
  bool empty() const { return il ? il->empty() : dl->empty(); }
};
std::map<int, AnyList> lists;

Node* node(int x) { auto i = nodes.find(x); return i == nodes.end() ? new Node(x) : i->second; }

std::string show() {
  std::ostringstream os;
  for (auto& kv : lists) {
    std::vector<int> f;
    kv.second.fwd([&](Node& n) { f.push_back(n.id); });
    os << kv.first << ":[";
    for (size_t i = 0; i < f.size(); ++i) os << (i ? "," : "") << f[i];
    os << "]/[";
    // backward: from the first element's prev (= the sentinel) follow prev until the sentinel comes round again
    std::vector<int> b;
    if (!f.empty()) {
      trompeloeil::list_elem<Node>* first = nodes[f[0]];
      trompeloeil::list_elem<Node>* sentinel = first->prev;
      for (auto* p = sentinel->prev; p != sentinel && b.size() <= f.size() + 2; p = p->prev) b.push_back(static_cast<Node*>(p)->id);
    }
    for (size_t i = 0; i < b.size(); ++i) os << (i ? "," : "") << b[i];
    os << "]" << (kv.second.empty() ? "e" : "n") << " ";
  }
  os << "linked:";
  for (auto& kv : nodes) if (kv.second->is_linked()) os << kv.first << ",";
  return os.str();
}

void reset_all() {
  // detach everything without relying on the ring being well formed
  for (auto& kv : lists) {
    std::vector<Node*> v;
    kv.second.fwd([&](Node& n) { v.push_back(&n); });
    for (auto* n : v) n->unlink();
  }
  lists.clear();
  std::vector<Node*> v;
  for (auto& kv : nodes) v.push_back(kv.second);
  for (auto* n : v) delete n;
  nodes.clear();
}
}  // namespace

int main() {
  std::string line;
  while (std::getline(std::cin, line)) {
    std::istringstream is(line);
    std::string op;
    is >> op;
    if (op.empty() || op[0] == '#') continue;
    if (op == "reset") { reset_all(); std::cout << "reset\n" << std::flush; continue; }
    int a = 0, b = 0; std::string k;
    if (op == "newlist") {
      is >> a >> k;
      AnyList l;
      if (k == "d") l.dl.reset(new DList); else l.il.reset(new IList);
      lists[a] = std::move(l);
    } else if (op == "pf" || op == "pb") {
      is >> a >> b;
      auto& l = lists.at(a);
      Node* n = node(b);
      if (op == "pf") { if (l.il) l.il->push_front(n); else l.dl->push_front(n); }
      else { if (l.il) l.il->push_back(n); else l.dl->push_back(n); }
    } else if (op == "unlink") {
      is >> a; node(a)->unlink();
    } else if (op == "del") {
      is >> a; delete node(a);
    } else if (op == "move") {
      is >> a >> b;
      auto& o = lists.at(b);
      AnyList n;
      if (o.il) n.il.reset(new IList(std::move(*o.il))); else n.dl.reset(new DList(std::move(*o.dl)));
      lists.erase(b);
      lists[a] = std::move(n);
    } else if (op == "drop" || op == "dispose") {
      is >> a; lists.erase(a);
    } else { std::cout << "bad-op\n" << std::flush; continue; }
    std::cout << show() << "\n" << std::flush;
  }
  reset_all();
  return 0;
}
