// h_print.cpp — `<width> <base> <adjust> <fill code> <extra> | <shape> <payload…>`
//   -> `<escaped output> | w=… base=… adj=… fill=… extra=…` using the real trompeloeil::print.
#include <trompeloeil.hpp>
#include <array>
#include <iostream>
#include <list>
#include <map>
#include <memory>
#include <sstream>
#include <string>
#include <tuple>
#include <vector>

namespace hp {
struct UserT { std::string s; };
struct BothT { std::string s; };
inline std::ostream& operator<<(std::ostream& os, BothT const&) { return os << "WRONG-operator<<"; }
template <size_t N> struct Opaque { unsigned char b[N]; };
}

namespace trompeloeil {
template <> struct printer<hp::UserT> {
  static void print(std::ostream& os, hp::UserT const& u) { os << "U"; os << u.s; }
};
template <> struct printer<hp::BothT> {
  static void print(std::ostream& os, hp::BothT const& u) { os << "U"; os << u.s; }
};
}

using namespace hp;

static std::string word(std::string const& w) { return w == "-" ? std::string() : w; }

static std::vector<std::string> keep;    // storage for const char* payloads
static char const* cstr(std::string const& w)
{
  if (w == "cnull") return nullptr;
  keep.push_back(word(w));
  return keep.back().c_str();
}

template <size_t N>
static void print_opaque(std::ostream& os, std::vector<std::string> const& t)
{
  Opaque<N> o;
  for (size_t i = 0; i < N; ++i) o.b[i] = static_cast<unsigned char>(std::stoi(t[2 + i]));
  trompeloeil::print(os, o);
}

static bool do_print(std::ostream& os, std::vector<std::string> const& t)
{
  std::string const& k = t[0];
  if (k == "int") { int v = std::stoi(t[1]); trompeloeil::print(os, v); }
  else if (k == "bool") { bool v = t[1] == "1"; trompeloeil::print(os, v); }
  else if (k == "str") { std::string v = word(t[1]); trompeloeil::print(os, v); }
  else if (k == "cstr") { char const* v = cstr(t[1]); trompeloeil::print(os, v); }
  else if (k == "iptr") { int x = 5; int* v = t[1] == "null" ? nullptr : &x; trompeloeil::print(os, v); }
  else if (k == "uptr") { std::unique_ptr<int> v; trompeloeil::print(os, v); }
  else if (k == "sptr") { std::shared_ptr<int> v; if (t[1] != "null") v = std::make_shared<int>(5); trompeloeil::print(os, v); }
  else if (k == "nullp") { trompeloeil::print(os, nullptr); }
  else if (k == "pair_is") { std::pair<int, std::string> v{std::stoi(t[1]), word(t[2])}; trompeloeil::print(os, v); }
  else if (k == "pair_ci") { std::pair<char const*, int> v{cstr(t[1]), std::stoi(t[2])}; trompeloeil::print(os, v); }
  else if (k == "tuple_ics") { std::tuple<int, char const*, std::string> v{std::stoi(t[1]), cstr(t[2]), word(t[3])}; trompeloeil::print(os, v); }
  else if (k == "tuple0") { std::tuple<> v; trompeloeil::print(os, v); }
  else if (k == "vec_i") { std::vector<int> v; for (size_t i = 2; i < t.size(); ++i) v.push_back(std::stoi(t[i])); trompeloeil::print(os, v); }
  else if (k == "list_i") { std::list<int> v; for (size_t i = 2; i < t.size(); ++i) v.push_back(std::stoi(t[i])); trompeloeil::print(os, v); }
  else if (k == "vec_s") { std::vector<std::string> v; for (size_t i = 2; i < t.size(); ++i) v.push_back(word(t[i])); trompeloeil::print(os, v); }
  else if (k == "vec_c") { std::vector<char const*> v; for (size_t i = 2; i < t.size(); ++i) v.push_back(cstr(t[i])); trompeloeil::print(os, v); }
  else if (k == "vec_u") { std::vector<UserT> v; for (size_t i = 2; i < t.size(); ++i) v.push_back(UserT{word(t[i])}); trompeloeil::print(os, v); }
  else if (k == "arr_i3") { std::array<int, 3> v{{std::stoi(t[1]), std::stoi(t[2]), std::stoi(t[3])}}; trompeloeil::print(os, v); }
  else if (k == "carr_i3") { int v[3] = {std::stoi(t[1]), std::stoi(t[2]), std::stoi(t[3])}; trompeloeil::print(os, v); }
  else if (k == "vecvec_i") {
    std::vector<std::vector<int>> v;
    size_t i = 2;
    while (i < t.size()) {
      size_t n = std::stoul(t[i++]);
      std::vector<int> in;
      for (size_t j = 0; j < n; ++j) in.push_back(std::stoi(t[i++]));
      v.push_back(in);
    }
    trompeloeil::print(os, v);
  }
  else if (k == "map_is") {
    std::map<int, std::string> v;
    for (size_t i = 2; i + 1 < t.size(); i += 2) v[std::stoi(t[i])] = word(t[i + 1]);
    trompeloeil::print(os, v);
  }
  else if (k == "opaque") {
    switch (std::stoul(t[1])) {
      case 1: print_opaque<1>(os, t); break; case 2: print_opaque<2>(os, t); break;
      case 3: print_opaque<3>(os, t); break; case 4: print_opaque<4>(os, t); break;
      case 7: print_opaque<7>(os, t); break; case 8: print_opaque<8>(os, t); break;
      case 9: print_opaque<9>(os, t); break; case 15: print_opaque<15>(os, t); break;
      case 16: print_opaque<16>(os, t); break; case 17: print_opaque<17>(os, t); break;
      case 32: print_opaque<32>(os, t); break; case 33: print_opaque<33>(os, t); break;
      case 40: print_opaque<40>(os, t); break;
      default: return false;
    }
  }
  else if (k == "user") { UserT v{word(t[1])}; trompeloeil::print(os, v); }
  else if (k == "both") { BothT v{word(t[1])}; trompeloeil::print(os, v); }
  else if (k == "pair_uo") {
    std::pair<UserT, Opaque<2>> v{UserT{word(t[1])}, Opaque<2>{{static_cast<unsigned char>(std::stoi(t[2])), static_cast<unsigned char>(std::stoi(t[3]))}}};
    trompeloeil::print(os, v);
  }
  else return false;
  return true;
}

int main()
{
  std::ios::sync_with_stdio(false);
  std::string line;
  while (std::getline(std::cin, line)) {
    if (line.empty() || line[0] == '#') continue;
    auto bar = line.find(" | ");
    std::istringstream st(line.substr(0, bar)), vs(line.substr(bar + 3));
    long w; std::string base, adj; int fill, extra;
    st >> w >> base >> adj >> fill >> extra;
    std::vector<std::string> t;
    for (std::string x; vs >> x;) t.push_back(x);
    std::ostringstream os;
    os.unsetf(std::ios_base::basefield | std::ios_base::adjustfield);
    if (base == "dec") os.setf(std::ios_base::dec); else if (base == "hex") os.setf(std::ios_base::hex); else if (base == "oct") os.setf(std::ios_base::oct);
    if (adj == "left") os.setf(std::ios_base::left); else if (adj == "right") os.setf(std::ios_base::right); else if (adj == "internal") os.setf(std::ios_base::internal);
    if (extra) os.setf(std::ios_base::showpos | std::ios_base::uppercase | std::ios_base::boolalpha);
    os.fill(static_cast<char>(fill));
    os.width(w);
    keep.clear();
    keep.reserve(64);
    if (!do_print(os, t)) { std::cout << "parse-error\n"; continue; }
    std::string out = os.str();
    std::string esc;
    for (char c : out) { if (c == '\n') esc += "\\n"; else esc += c; }
    // a non-null pointer prints an address: canonicalise
    for (size_t p = 0; (p = esc.find("0x", p)) != std::string::npos;) {
      size_t e = p + 2;
      while (e < esc.size() && isxdigit(static_cast<unsigned char>(esc[e]))) ++e;
      if (e - p > 6) esc.replace(p, e - p, "<addr>"); else p = e;
    }
    auto f = os.flags();
    auto bf = f & std::ios_base::basefield, af = f & std::ios_base::adjustfield;
    std::string bs = bf == std::ios_base::dec ? "dec" : bf == std::ios_base::hex ? "hex" : bf == std::ios_base::oct ? "oct" : "none";
    std::string as = af == std::ios_base::left ? "left" : af == std::ios_base::right ? "right" : af == std::ios_base::internal ? "internal" : "none";
    bool ex = (f & std::ios_base::showpos) && (f & std::ios_base::uppercase) && (f & std::ios_base::boolalpha);
    std::cout << esc << " | w=" << os.width() << " base=" << bs << " adj=" << as << " fill=" << static_cast<int>(static_cast<unsigned char>(os.fill()))
              << " extra=" << (ex ? 1 : 0) << "\n";
  }
  return 0;
}
