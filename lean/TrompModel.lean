import TrompModel.Model.Algo
import TrompModel.Model.World
