import TrompModel.Lemmas.Move
/-!
# The handle ↔ sequence linkage invariant (C14, C05, C06)

`Seq.pending` is the model of the intrusive list of `sequence_matcher` handles a `sequence_type`
holds (sequence.hpp:204-214).  `WFSeq` says that this list never names a destroyed owner, names
an owner only for a sequence that owner registered in, has no duplicates, and that a destroyed
sequence has no handles — the invariant whose violation in the C++ is a use-after-free.
-/
namespace Tromp
open World

namespace World
def ownerAlive (w : World) : Owner → Bool
  | .exp e => w.expAlive e
  | .mon m => w.monAlive m

/-- the sequences an owner registered in (`sequence_handler<N>::matchers`). -/
def ownerSeqs (w : World) : Owner → List Nat
  | .exp e => match w.exps e with | some x => x.seqs | none => []
  | .mon m => match w.mons m with | some x => x.seqs | none => []
end World

structure WFSeq (w : World) : Prop where
  pend : ∀ s ow, ow ∈ w.pendingOf s → w.ownerAlive ow = true ∧ s ∈ w.ownerSeqs ow
  nodup : ∀ s, (w.pendingOf s).Nodup
  dead : ∀ s, w.seqAlive s = false → w.pendingOf s = []
  ownNodup : ∀ ow, (w.ownerSeqs ow).Nodup
  freshE : ∀ e, w.nextE ≤ e → w.exps e = none
  freshM : ∀ m, w.nextM ≤ m → w.mons m = none

theorem WFSeq.init : WFSeq ({} : World) where
  pend := by intro s ow h; simp [World.pendingOf] at h
  nodup := by intro s; simp [World.pendingOf]
  dead := by intro s _; rfl
  ownNodup := by intro ow; cases ow <;> simp [World.ownerSeqs]
  freshE := by intro e _; rfl
  freshM := by intro m _; rfl

/-- `w'` has the owners of `w` (same liveness, same registrations), the sequences of `w` (same
    liveness), and pending lists that are sublists of those of `w`. -/
structure Shrinks (w w' : World) : Prop where
  alive : ∀ ow, w'.ownerAlive ow = w.ownerAlive ow
  own : ∀ ow, w'.ownerSeqs ow = w.ownerSeqs ow
  seqAlive : ∀ s, w'.seqAlive s = w.seqAlive s
  sub : ∀ s, (w'.pendingOf s).Sublist (w.pendingOf s)
  nextE : w'.nextE = w.nextE
  nextM : w'.nextM = w.nextM
  noneE : ∀ e, w.exps e = none → w'.exps e = none
  noneM : ∀ m, w.mons m = none → w'.mons m = none

theorem Shrinks.refl (w : World) : Shrinks w w :=
  ⟨fun _ => rfl, fun _ => rfl, fun _ => rfl, fun _ => List.Sublist.refl _, rfl, rfl, fun _ h => h, fun _ h => h⟩

theorem Shrinks.trans {a b c : World} (h1 : Shrinks a b) (h2 : Shrinks b c) : Shrinks a c :=
  ⟨fun ow => (h2.alive ow).trans (h1.alive ow), fun ow => (h2.own ow).trans (h1.own ow),
   fun s => (h2.seqAlive s).trans (h1.seqAlive s), fun s => (h2.sub s).trans (h1.sub s),
   h2.nextE.trans h1.nextE, h2.nextM.trans h1.nextM, fun e h => h2.noneE e (h1.noneE e h), fun m h => h2.noneM m (h1.noneM m h)⟩

theorem WFSeq.shrinks {w w' : World} (h : WFSeq w) (r : Shrinks w w') : WFSeq w' where
  pend := by
    intro s ow hin
    have := h.pend s ow ((r.sub s).subset hin)
    rw [r.alive, r.own]; exact this
  nodup := fun s => (h.nodup s).sublist (r.sub s)
  dead := by
    intro s hs
    rw [r.seqAlive] at hs
    have := r.sub s
    rw [h.dead s hs] at this
    exact List.sublist_nil.mp this
  ownNodup := by intro ow; rw [r.own]; exact h.ownNodup ow
  freshE := by intro e he; rw [r.nextE] at he; exact r.noneE e (h.freshE e he)
  freshM := by intro m hm; rw [r.nextM] at hm; exact r.noneM m (h.freshM m hm)

/-- a world differing only in fields the invariant does not read. -/
theorem Shrinks.of_eq {w w' : World} (he : w'.exps = w.exps) (hm : w'.mons = w.mons) (hs : w'.seqs = w.seqs)
    (hne : w'.nextE = w.nextE) (hnm : w'.nextM = w.nextM) : Shrinks w w' := by
  refine ⟨?_, ?_, ?_, ?_, hne, hnm, ?_, ?_⟩
  · intro ow; cases ow <;> simp only [World.ownerAlive, World.expAlive, World.monAlive, he, hm]
  · intro ow; cases ow <;> simp only [World.ownerSeqs, he, hm]
  · intro s; simp only [World.seqAlive, hs]
  · intro s; simp only [World.pendingOf, hs]; exact List.Sublist.refl _
  · intro e h; rw [he]; exact h
  · intro m h; rw [hm]; exact h

theorem Shrinks.setMock (w : World) (o : Nat) (m : Mock) : Shrinks w (w.setMock o m) :=
  Shrinks.of_eq rfl rfl rfl rfl rfl

theorem Shrinks.setSeqPending (w : World) (s : Nat) (f : List Owner → List Owner)
    (hf : ∀ l, (f l).Sublist l) : Shrinks w (w.setSeqPending s f) := by
  have hnil : f [] = [] := List.sublist_nil.mp (hf [])
  refine ⟨?_, ?_, ?_, ?_, ?_, ?_, ?_, ?_⟩
  · intro ow; cases ow <;> simp only [World.ownerAlive, World.expAlive, World.monAlive, setSeqPending_exps, setSeqPending_mons]
  · intro ow; cases ow <;> simp only [World.ownerSeqs, setSeqPending_exps, setSeqPending_mons]
  · intro s'; exact setSeqPending_seqAlive w s s' f
  · intro s'
    by_cases hs : s' = s
    · subst hs; rw [setSeqPending_pendingOf_same _ _ _ hnil]; exact hf _
    · rw [setSeqPending_pendingOf_other _ _ hs]; exact List.Sublist.refl _
  · unfold World.setSeqPending; split <;> rfl
  · unfold World.setSeqPending; split <;> rfl
  · intro e h; rw [setSeqPending_exps]; exact h
  · intro m h; rw [setSeqPending_mons]; exact h

theorem Shrinks.foldSeq (ss : List Nat) (f : Nat → List Owner → List Owner) (hf : ∀ s l, (f s l).Sublist l) :
    ∀ w : World, Shrinks w (ss.foldl (fun w s => w.setSeqPending s (f s)) w) := by
  induction ss with
  | nil => intro w; exact Shrinks.refl w
  | cons s ss ih =>
    intro w
    simp only [List.foldl]
    exact Shrinks.trans (Shrinks.setSeqPending w s (f s) (hf s)) (ih _)

theorem Shrinks.retirePredecessors (w : World) (o : Owner) (ss : List Nat) : Shrinks w (w.retirePredecessors o ss) :=
  Shrinks.foldSeq ss (fun _ => retireUntil o) (fun _ l => (retireUntil_suffix o l).sublist) w

theorem Shrinks.retireOwn (w : World) (o : Owner) (ss : List Nat) : Shrinks w (w.retireOwn o ss) :=
  Shrinks.foldSeq ss (fun _ l => l.filter (· ≠ o)) (fun _ l => List.filter_sublist) w

/-- replacing an expectation record by one with the same liveness and registrations. -/
theorem Shrinks.setExp (w : World) (e : Nat) (x y : Exp) (hx : w.exps e = some x)
    (ha : y.alive = x.alive) (hs : y.seqs = x.seqs) : Shrinks w (w.setExp e y) := by
  refine ⟨?_, ?_, fun _ => rfl, fun _ => List.Sublist.refl _, rfl, rfl, ?_, fun _ h => h⟩
  · intro ow
    cases ow with
    | mon m => rfl
    | exp e' =>
      simp only [World.ownerAlive, World.expAlive]
      by_cases he : e' = e
      · subst he; rw [setExp_exps_same, hx]; exact ha
      · rw [setExp_exps_other _ _ he]
  · intro ow
    cases ow with
    | mon m => rfl
    | exp e' =>
      simp only [World.ownerSeqs]
      by_cases he : e' = e
      · subst he; rw [setExp_exps_same, hx]; exact hs
      · rw [setExp_exps_other _ _ he]
  · intro e' h'
    have : e' ≠ e := by intro heq; subst heq; rw [hx] at h'; cases h'
    rw [setExp_exps_other _ _ this]; exact h'

theorem Shrinks.markReported (es : List Nat) : ∀ w : World, Shrinks w (w.markReported es) := by
  unfold World.markReported
  induction es with
  | nil => intro w; exact Shrinks.refl w
  | cons e es ih =>
    intro w
    simp only [List.foldl]
    cases hx : w.exps e with
    | none => exact ih w
    | some x =>
      simp only
      exact Shrinks.trans (Shrinks.setExp w e x { x with reported := true } hx rfl rfl) (ih _)

theorem Shrinks.bookkeep (w : World) (o f e : Nat) (x : Exp) (m : Mock) (hx : w.exps e = some x) :
    Shrinks w (w.bookkeep o f e x m) := by
  unfold World.bookkeep
  simp only
  have r1 := Shrinks.retirePredecessors w (.exp e) x.seqs
  have hx1 : (w.retirePredecessors (.exp e) x.seqs).exps e = some x := by
    rw [(World.retire_frames w (.exp e) x.seqs).2.2.2.1]; exact hx
  split
  · have r2 := Shrinks.retireOwn (w.retirePredecessors (.exp e) x.seqs) (.exp e) x.seqs
    have hx2 : ((w.retirePredecessors (.exp e) x.seqs).retireOwn (.exp e) x.seqs).exps e = some x := by
      rw [(World.retire_frames w (.exp e) x.seqs).1]; exact hx
    refine Shrinks.trans (Shrinks.trans (Shrinks.trans r1 r2) (Shrinks.setMock _ _ _)) (Shrinks.setExp _ e x _ ?_ rfl rfl)
    rw [setMock_exps]; exact hx2
  · exact Shrinks.trans r1 (Shrinks.setExp _ e x _ hx1 rfl rfl)

theorem Shrinks.callFn (w : World) (o f : Nat) (a : Args) : Shrinks w (w.callFn o f a).1 := by
  unfold World.callFn
  cases w.mocks o with
  | none => exact Shrinks.refl w
  | some m =>
    simp only
    generalize find (w.expMatches a) w.expOrder (m.active f) = fr
    obtain ⟨found, visited⟩ := fr
    simp only
    cases found with
    | none =>
      simp only
      unfold World.reportMismatch
      simp only
      split
      · exact Shrinks.markReported _ w
      · exact Shrinks.refl w
    | some e =>
      simp only
      cases hx : w.exps e with
      | none => exact Shrinks.refl w
      | some x =>
        simp only
        unfold World.runActions
        split
        · exact Shrinks.setExp w e x _ hx rfl rfl
        · cases w.order (.exp e) x.seqs with
          | none => exact Shrinks.refl w
          | some n => exact Shrinks.bookkeep w o f e x m hx

theorem Shrinks.of_detached {w w' : World} {es : List Nat} (d : Detached w w' es)
    (hm : w'.mons = w.mons) (hs : w'.seqs = w.seqs) (hnm : w'.nextM = w.nextM) : Shrinks w w' := by
  refine ⟨?_, ?_, ?_, ?_, d.nextE, hnm, d.none_, ?_⟩
  · intro ow
    cases ow with
    | mon m => simp only [World.ownerAlive, World.monAlive, hm]
    | exp e =>
      simp only [World.ownerAlive, World.expAlive]
      cases hx : w.exps e with
      | none => rw [d.none_ e hx]
      | some x =>
        obtain ⟨x', hx', s, _, _⟩ := d.some_ e x hx
        rw [hx']; exact s.1
  · intro ow
    cases ow with
    | mon m => simp only [World.ownerSeqs, hm]
    | exp e =>
      simp only [World.ownerSeqs]
      cases hx : w.exps e with
      | none => rw [d.none_ e hx]
      | some x =>
        obtain ⟨x', hx', s, _, _⟩ := d.some_ e x hx
        rw [hx']; exact s.2.2.2.2.2.2.1
  · intro s; simp only [World.seqAlive, hs]
  · intro s; simp only [World.pendingOf, hs]; exact List.Sublist.refl _
  · intro m h; rw [hm]; exact h

end Tromp

namespace Tromp
open World

theorem Shrinks.decomStep (acc : World × List Ev) (a : Nat) : Shrinks acc.1 (decomStep acc a).1 := by
  unfold World.decomStep
  cases hx : acc.1.exps a with
  | none => exact Shrinks.refl _
  | some x =>
    simp only
    split
    · exact Shrinks.setExp _ a x _ hx rfl rfl
    · exact Shrinks.setExp _ a x _ hx rfl rfl

theorem Shrinks.decommissionFold (es : List Nat) : ∀ acc : World × List Ev, Shrinks acc.1 (es.foldl World.decomStep acc).1 := by
  induction es with
  | nil => intro acc; exact Shrinks.refl _
  | cons a es ih => intro acc; simp only [List.foldl]; exact Shrinks.trans (Shrinks.decomStep acc a) (ih _)

theorem Shrinks.decommission (w : World) (es : List Nat) : Shrinks w (w.decommission es).1 :=
  Shrinks.decommissionFold es (w, [])

theorem Shrinks.killFold (m : Mock) (fns : List Nat) : ∀ (w : World) (evs : List Ev),
    Shrinks w (fns.foldl (fun (acc : World × List Ev) f =>
        let (w, evs) := acc
        let (w1, e1) := w.decommission (m.active f)
        let (w2, e2) := w1.decommission (m.saturated f)
        (w2, evs ++ e1 ++ e2)) (w, evs)).1 := by
  induction fns with
  | nil => intro w evs; exact Shrinks.refl w
  | cons f fns ih =>
    intro w evs
    simp only [List.foldl]
    exact Shrinks.trans (Shrinks.trans (Shrinks.decommission w _) (Shrinks.decommission _ _)) (ih _ _)

theorem Shrinks.killMock (w : World) (o : Nat) (m : Mock) : Shrinks w (w.killMock o m).1 := by
  unfold World.killMock
  exact Shrinks.trans (Shrinks.killFold m _ w []) (Shrinks.setMock _ _ _)

theorem Shrinks.moveMock (w : World) (o o' : Nat) (m : Mock) : Shrinks w (w.moveMock o o' m) := by
  unfold World.moveMock
  refine Shrinks.trans ?_ (Shrinks.trans (Shrinks.setMock _ _ _) (Shrinks.setMock _ _ _))
  refine ⟨?_, ?_, fun _ => rfl, fun _ => List.Sublist.refl _, rfl, rfl, ?_, fun _ h => h⟩
  · intro ow
    cases ow with
    | mon m => rfl
    | exp e =>
      simp only [World.ownerAlive, World.expAlive]
      cases w.exps e with
      | none => rfl
      | some x => simp only [Option.map_some]; split <;> rfl
  · intro ow
    cases ow with
    | mon m => rfl
    | exp e =>
      simp only [World.ownerSeqs]
      cases w.exps e with
      | none => rfl
      | some x => simp only [Option.map_some]; split <;> rfl
  · intro e h; simp only [h, Option.map_none]

/-- replacing a monitor record by one with the same liveness and registrations. -/
theorem Shrinks.setMon (w : World) (m : Nat) (x y : Mon) (hx : w.mons m = some x)
    (ha : y.alive = x.alive) (hs : y.seqs = x.seqs) : Shrinks w { w with mons := upd w.mons m y } := by
  refine ⟨?_, ?_, fun _ => rfl, fun _ => List.Sublist.refl _, rfl, rfl, fun _ h => h, ?_⟩
  · intro ow
    cases ow with
    | exp e => rfl
    | mon m' =>
      simp only [World.ownerAlive, World.monAlive, upd]
      by_cases he : m' = m
      · subst he; simp only [if_true, hx]; exact ha
      · simp only [he, if_false]
  · intro ow
    cases ow with
    | exp e => rfl
    | mon m' =>
      simp only [World.ownerSeqs, upd]
      by_cases he : m' = m
      · subst he; simp only [if_true, hx]; exact hs
      · simp only [he, if_false]
  · intro m' h'
    have : m' ≠ m := by intro heq; subst heq; rw [hx] at h'; cases h'
    simp only [upd, this, if_false]; exact h'

theorem Shrinks.notify (w : World) (m : Nat) : Shrinks w (w.notify m).1 := by
  unfold World.notify
  cases hx : w.mons m with
  | none => exact Shrinks.refl w
  | some x =>
    simp only
    exact Shrinks.trans (Shrinks.trans (Shrinks.setMon w m x { x with died := true } hx rfl rfl)
      (Shrinks.retirePredecessors _ _ _)) (Shrinks.retireOwn _ _ _)

theorem Shrinks.notifyFold (ms : List Nat) : ∀ (w0 : World) (evs : List Ev),
    Shrinks w0 (ms.foldl (fun (acc : World × List Ev) m =>
        let (w1, e1) := acc.1.notify m
        (w1, acc.2 ++ e1)) (w0, evs)).1 := by
  induction ms with
  | nil => intro w0 evs; exact Shrinks.refl w0
  | cons m ms ih =>
    intro w0 evs
    simp only [List.foldl]
    exact Shrinks.trans (Shrinks.notify w0 m) (ih _ _)

/-! ### registration of a new owner, and destruction of an owner -/

theorem setSeqPending_pendingOf_same' (w : World) (s : Nat) (f : List Owner → List Owner)
    (ha : w.seqAlive s = true) : (w.setSeqPending s f).pendingOf s = f (w.pendingOf s) := by
  unfold World.setSeqPending World.pendingOf
  unfold World.seqAlive at ha
  cases h : w.seqs s with
  | none => rw [h] at ha; cases ha
  | some x => simp [upd]

theorem foldl_setSeqPending_pendingOf_mem' (w : World) (ss : List Nat) (f : List Owner → List Owner)
    (hnd : ss.Nodup) {s' : Nat} (h : s' ∈ ss) (ha : w.seqAlive s' = true) :
    (ss.foldl (fun w s => w.setSeqPending s f) w).pendingOf s' = f (w.pendingOf s') := by
  induction ss generalizing w with
  | nil => cases h
  | cons s ss ih =>
    simp only [List.foldl]
    have hnd' := List.nodup_cons.mp hnd
    by_cases hs : s' = s
    · subst hs
      rw [foldl_setSeqPending_pendingOf_not_mem _ _ _ hnd'.1, setSeqPending_pendingOf_same' _ _ _ ha]
    · have hm : s' ∈ ss := by
        rcases List.mem_cons.mp h with e | e
        · exact absurd e hs
        · exact e
      rw [ih _ hnd'.2 hm (by rw [setSeqPending_seqAlive]; exact ha), setSeqPending_pendingOf_other _ _ hs]

/-- a new owner `ow` appended to the sequences `ss`. -/
theorem WFSeq.of_register {w w' : World} (h : WFSeq w) (ow : Owner) (ss : List Nat)
    (hdead : w.ownerAlive ow = false) (halive : w'.ownerAlive ow = true) (hown : w'.ownerSeqs ow = ss)
    (hothers : ∀ ow', ow' ≠ ow → w'.ownerAlive ow' = w.ownerAlive ow' ∧ w'.ownerSeqs ow' = w.ownerSeqs ow')
    (hsa : ∀ s, w'.seqAlive s = w.seqAlive s)
    (hin : ∀ s, s ∈ ss → w'.pendingOf s = w.pendingOf s ++ [ow])
    (hout : ∀ s, s ∉ ss → w'.pendingOf s = w.pendingOf s)
    (hnd : ss.Nodup) (hal : ∀ s, s ∈ ss → w.seqAlive s = true)
    (hfe : ∀ e, w'.nextE ≤ e → w'.exps e = none) (hfm : ∀ m, w'.nextM ≤ m → w'.mons m = none) : WFSeq w' := by
  have hnotin : ∀ s, ow ∉ w.pendingOf s := fun s hc => by
    have := (h.pend s ow hc).1; rw [hdead] at this; cases this
  refine ⟨?_, ?_, ?_, ?_, hfe, hfm⟩
  · intro s ow' hm
    by_cases hs : s ∈ ss
    · rw [hin s hs] at hm
      rcases List.mem_append.mp hm with hm | hm
      · have hne : ow' ≠ ow := fun heq => hnotin s (heq ▸ hm)
        rw [(hothers ow' hne).1, (hothers ow' hne).2]; exact h.pend s ow' hm
      · simp only [List.mem_singleton] at hm; subst hm
        exact ⟨halive, by rw [hown]; exact hs⟩
    · rw [hout s hs] at hm
      have hne : ow' ≠ ow := fun heq => hnotin s (heq ▸ hm)
      rw [(hothers ow' hne).1, (hothers ow' hne).2]; exact h.pend s ow' hm
  · intro s
    by_cases hs : s ∈ ss
    · rw [hin s hs]
      refine List.nodup_append.mpr ⟨h.nodup s, (by simp), ?_⟩
      intro a ha b hb
      simp only [List.mem_singleton] at hb; subst hb
      intro heq; subst heq; exact hnotin s ha
    · rw [hout s hs]; exact h.nodup s
  · intro s hd
    rw [hsa] at hd
    have hs : s ∉ ss := fun hs => by rw [hal s hs] at hd; cases hd
    rw [hout s hs]; exact h.dead s hd
  · intro ow'
    by_cases hne : ow' = ow
    · subst hne; rw [hown]; exact hnd
    · rw [(hothers ow' hne).2]; exact h.ownNodup ow'

/-- an owner `ow` leaves all its sequences and changes (typically: dies). -/
theorem WFSeq.of_retire {w w' : World} (h : WFSeq w) (ow : Owner)
    (hown : w'.ownerSeqs ow = w.ownerSeqs ow)
    (hothers : ∀ ow', ow' ≠ ow → w'.ownerAlive ow' = w.ownerAlive ow' ∧ w'.ownerSeqs ow' = w.ownerSeqs ow')
    (hsa : ∀ s, w'.seqAlive s = w.seqAlive s)
    (hin : ∀ s, s ∈ w.ownerSeqs ow → w'.pendingOf s = (w.pendingOf s).filter (· ≠ ow))
    (hout : ∀ s, s ∉ w.ownerSeqs ow → w'.pendingOf s = w.pendingOf s)
    (hfe : ∀ e, w'.nextE ≤ e → w'.exps e = none) (hfm : ∀ m, w'.nextM ≤ m → w'.mons m = none) : WFSeq w' := by
  have hsub : ∀ s, (w'.pendingOf s).Sublist (w.pendingOf s) := fun s => by
    by_cases hs : s ∈ w.ownerSeqs ow
    · rw [hin s hs]; exact List.filter_sublist
    · rw [hout s hs]; exact List.Sublist.refl _
  have hne : ∀ s ow', ow' ∈ w'.pendingOf s → ow' ≠ ow := by
    intro s ow' hm heq
    subst heq
    by_cases hs : s ∈ w.ownerSeqs ow'
    · rw [hin s hs] at hm; simp at hm
    · rw [hout s hs] at hm; exact hs (h.pend s ow' hm).2
  refine ⟨?_, ?_, ?_, ?_, hfe, hfm⟩
  · intro s ow' hm
    have hn := hne s ow' hm
    rw [(hothers ow' hn).1, (hothers ow' hn).2]
    exact h.pend s ow' ((hsub s).subset hm)
  · intro s; exact (h.nodup s).sublist (hsub s)
  · intro s hd
    rw [hsa] at hd
    have := hsub s
    rw [h.dead s hd] at this
    exact List.sublist_nil.mp this
  · intro ow'
    by_cases hn : ow' = ow
    · subst hn; rw [hown]; exact h.ownNodup ow'
    · rw [(hothers ow' hn).2]; exact h.ownNodup ow'

end Tromp

namespace Tromp
open World

theorem foldl_setSeqPending_nextM (w : World) (ss : List Nat) (f : List Owner → List Owner) :
    (ss.foldl (fun w s => w.setSeqPending s f) w).nextM = w.nextM := by
  induction ss generalizing w with
  | nil => rfl
  | cons s ss ih =>
    simp only [List.foldl]
    rw [ih]
    unfold World.setSeqPending; split <;> rfl

/-- what a fold of `setSeqPending` leaves alone. -/
theorem foldSeq_owner (w : World) (ss : List Nat) (f : List Owner → List Owner) (ow : Owner) :
    (ss.foldl (fun w s => w.setSeqPending s f) w).ownerAlive ow = w.ownerAlive ow ∧
    (ss.foldl (fun w s => w.setSeqPending s f) w).ownerSeqs ow = w.ownerSeqs ow := by
  cases ow <;>
    simp only [World.ownerAlive, World.ownerSeqs, World.expAlive, World.monAlive, foldl_setSeqPending_exps,
      foldl_setSeqPending_mons, and_self]

/-- every operation preserves the handle ↔ sequence invariant. -/
theorem WFSeq.step {w : World} (h : WFSeq w) (op : Op) : WFSeq (w.step op).1 := by
  unfold World.step
  cases hl : w.legal op with
  | false => simp only [Bool.not_false, if_true]; exact h
  | true =>
  simp only [Bool.not_true, Bool.false_eq_true, if_false]
  cases op with
  | mock o mv => simp only []; exact h.shrinks (Shrinks.of_eq rfl rfl rfl rfl rfl)
  | seq s =>
    simp only []
    have hp : ∀ s', ({ w with seqs := upd w.seqs s {}, nextS := s + 1 } : World).pendingOf s' = if s' = s then [] else w.pendingOf s' := by
      intro s'; by_cases hs : s' = s <;> simp [World.pendingOf, upd, hs]
    have ha : ∀ s', ({ w with seqs := upd w.seqs s {}, nextS := s + 1 } : World).seqAlive s' = if s' = s then true else w.seqAlive s' := by
      intro s'; by_cases hs : s' = s <;> simp [World.seqAlive, upd, hs]
    refine ⟨?_, ?_, ?_, h.ownNodup, h.freshE, h.freshM⟩
    · intro s' ow hm
      rw [hp] at hm
      split at hm
      · cases hm
      · exact h.pend s' ow hm
    · intro s'; rw [hp]; split
      · exact List.nodup_nil
      · exact h.nodup s'
    · intro s' hd
      rw [ha] at hd; rw [hp]
      split
      · rfl
      · rename_i hne; simp only [hne, if_false] at hd; exact h.dead s' hd
  | expect e x =>
    simp only [World.legal, Bool.and_eq_true, beq_iff_eq, decide_eq_true_eq, Bool.or_eq_true, List.all_eq_true] at hl
    obtain ⟨⟨⟨⟨⟨⟨he, _⟩, _⟩, hal⟩, hnd⟩, _⟩, _⟩ := hl
    have hnd' : x.seqs.Nodup := by simpa using hnd
    simp only []
    split
    · refine ⟨h.pend, h.nodup, h.dead, h.ownNodup, ?_, h.freshM⟩
      intro e' he'
      have he'' : e + 1 ≤ e' := he'
      exact h.freshE e' (by omega)
    · cases hm : w.mocks x.obj with
      | none => simp only []; exact h
      | some m =>
        simp only []
        have hfresh : w.exps e = none := h.freshE e (by omega)
        refine h.of_register (.exp e) x.seqs ?_ ?_ ?_ ?_ ?_ ?_ ?_ hnd' hal ?_ ?_
        · simp only [World.ownerAlive, World.expAlive, hfresh]
        · simp only [World.ownerAlive, World.expAlive, setMock_exps, setExp_exps_same]
        · simp only [World.ownerSeqs, setMock_exps, setExp_exps_same]
        · intro ow' hne
          cases ow' with
          | mon m' =>
            simp only [World.ownerAlive, World.ownerSeqs, World.monAlive, setMock_mons, setExp_mons, World.register,
              foldl_setSeqPending_mons, and_self]
          | exp e' =>
            have : e' ≠ e := fun heq => hne (by rw [heq])
            simp only [World.ownerAlive, World.ownerSeqs, World.expAlive, setMock_exps, setExp_exps_other _ _ this,
              World.register, foldl_setSeqPending_exps, and_self]
        · intro s
          show (World.register _ _ _).seqAlive s = _
          unfold World.register
          rw [foldl_setSeqPending_seqAlive]; rfl
        · intro s hs
          show (World.register _ _ _).pendingOf s = _
          unfold World.register
          rw [foldl_setSeqPending_pendingOf_mem' _ _ _ hnd' hs (by exact hal s hs)]; rfl
        · intro s hs
          show (World.register _ _ _).pendingOf s = _
          unfold World.register
          rw [foldl_setSeqPending_pendingOf_not_mem _ _ _ hs]; rfl
        · intro e' he'
          have hn : (World.register { w with nextE := e + 1 } (.exp e) x.seqs).nextE = e + 1 := by
            unfold World.register; rw [World.foldl_setSeqPending_nextE]
          have he'' : e + 1 ≤ e' := by rw [← hn]; exact he'
          have hne : e' ≠ e := by omega
          rw [setMock_exps, setExp_exps_other _ _ hne, (World.register_frame _ _ _).1]
          exact h.freshE e' (by omega)
        · intro m' hm'
          have hn : (World.register { w with nextE := e + 1 } (.exp e) x.seqs).nextM = w.nextM := by
            unfold World.register; rw [foldl_setSeqPending_nextM]
          have hm'' : w.nextM ≤ m' := by rw [← hn]; exact hm'
          rw [setMock_mons, setExp_mons]
          unfold World.register
          rw [foldl_setSeqPending_mons]
          exact h.freshM m' hm''
  | call o f a => simp only []; exact h.shrinks (Shrinks.callFn w o f a)
  | sat e => exact h
  | satd e => exact h
  | release e =>
    simp only []
    cases hx : w.exps e with
    | none => exact h
    | some x =>
      simp only []
      unfold World.releaseExp
      simp only
      have hu : ∀ ow, (w.unlinkExp e x).ownerAlive ow = w.ownerAlive ow ∧ (w.unlinkExp e x).ownerSeqs ow = w.ownerSeqs ow := by
        intro ow
        unfold World.unlinkExp
        split
        · split
          · exact ⟨rfl, rfl⟩
          · exact ⟨rfl, rfl⟩
        · exact ⟨rfl, rfl⟩
      have hus : (w.unlinkExp e x).seqs = w.seqs := by
        unfold World.unlinkExp
        split
        · split <;> rfl
        · rfl
      have hue : (w.unlinkExp e x).exps = w.exps ∧ (w.unlinkExp e x).mons = w.mons ∧
          (w.unlinkExp e x).nextE = w.nextE ∧ (w.unlinkExp e x).nextM = w.nextM := by
        unfold World.unlinkExp
        split
        · split <;> exact ⟨rfl, rfl, rfl, rfl⟩
        · exact ⟨rfl, rfl, rfl, rfl⟩
      have hseqs : w.ownerSeqs (.exp e) = x.seqs := by simp only [World.ownerSeqs, hx]
      have hxnd : x.seqs.Nodup := by rw [← hseqs]; exact h.ownNodup _
      refine h.of_retire (.exp e) ?_ ?_ ?_ ?_ ?_ ?_ ?_
      · simp only [World.ownerSeqs, setExp_exps_same, hx]
      · intro ow' hne
        cases ow' with
        | mon m' =>
          simp only [World.ownerAlive, World.ownerSeqs, World.monAlive, setExp_mons, World.retireOwn,
            foldl_setSeqPending_mons, hue.2.1, and_self]
        | exp e' =>
          have : e' ≠ e := fun heq => hne (by rw [heq])
          simp only [World.ownerAlive, World.ownerSeqs, World.expAlive, setExp_exps_other _ _ this, World.retireOwn,
            foldl_setSeqPending_exps, hue.1, and_self]
      · intro s
        show (World.retireOwn _ _ _).seqAlive s = _
        unfold World.retireOwn
        rw [foldl_setSeqPending_seqAlive]; simp only [World.seqAlive, hus]
      · intro s hs
        rw [hseqs] at hs
        show (World.retireOwn _ _ _).pendingOf s = _
        unfold World.retireOwn
        rw [foldl_setSeqPending_pendingOf_mem _ _ _ (by rfl) hxnd hs]; simp only [World.pendingOf, hus]
      · intro s hs
        rw [hseqs] at hs
        show (World.retireOwn _ _ _).pendingOf s = _
        unfold World.retireOwn
        rw [foldl_setSeqPending_pendingOf_not_mem _ _ _ hs]; simp only [World.pendingOf, hus]
      · intro e' he'
        have hn : ((w.unlinkExp e x).retireOwn (.exp e) x.seqs).nextE = w.nextE := by
          unfold World.retireOwn; rw [World.foldl_setSeqPending_nextE, hue.2.2.1]
        have he'' : w.nextE ≤ e' := by rw [← hn]; exact he'
        have hne : e' ≠ e := by intro heq; subst heq; rw [h.freshE e' he''] at hx; cases hx
        rw [setExp_exps_other _ _ hne]
        unfold World.retireOwn
        rw [foldl_setSeqPending_exps, hue.1]
        exact h.freshE e' he''
      · intro m' hm'
        have hn : ((w.unlinkExp e x).retireOwn (.exp e) x.seqs).nextM = w.nextM := by
          unfold World.retireOwn; rw [foldl_setSeqPending_nextM, hue.2.2.2]
        have hm'' : w.nextM ≤ m' := by rw [← hn]; exact hm'
        rw [setExp_mons]
        unfold World.retireOwn
        rw [foldl_setSeqPending_mons, hue.2.1]
        exact h.freshM m' hm''
  | move o o' =>
    simp only []
    cases hm : w.mocks o with
    | none => exact h
    | some m => exact h.shrinks (Shrinks.moveMock w o o' m)
  | kill o =>
    simp only []
    cases hm : w.mocks o with
    | none => exact h
    | some m => exact h.shrinks (Shrinks.killMock w o m)
  | killseq s =>
    simp only []
    cases hq : w.seqs s with
    | none => exact h
    | some q =>
      simp only []
      have hp : ∀ s', ({ w with seqs := upd w.seqs s { alive := false, pending := [] } } : World).pendingOf s' =
          if s' = s then [] else w.pendingOf s' := by
        intro s'; by_cases hs : s' = s <;> simp [World.pendingOf, upd, hs]
      have ha : ∀ s', s' ≠ s → ({ w with seqs := upd w.seqs s { alive := false, pending := [] } } : World).seqAlive s' = w.seqAlive s' := by
        intro s' hne; simp only [World.seqAlive, upd, hne, if_false]
      refine ⟨?_, ?_, ?_, h.ownNodup, h.freshE, h.freshM⟩
      · intro s' ow hm
        rw [hp] at hm
        split at hm
        · cases hm
        · exact h.pend s' ow hm
      · intro s'; rw [hp]; split
        · exact List.nodup_nil
        · exact h.nodup s'
      · intro s' hd
        rw [hp]
        split
        · rfl
        · rename_i hne; rw [ha s' hne] at hd; exact h.dead s' hd
  | completed s => exact h
  | watched x => simp only []; exact h.shrinks (Shrinks.of_eq rfl rfl rfl rfl rfl)
  | copyw x y => simp only []; exact h.shrinks (Shrinks.of_eq rfl rfl rfl rfl rfl)
  | movew x y => simp only []; exact h.shrinks (Shrinks.of_eq rfl rfl rfl rfl rfl)
  | assignw d s => exact h
  | killw x =>
    simp only []
    cases w.watched x with
    | none => exact h
    | some y =>
      simp only []
      split
      · exact h.shrinks (Shrinks.of_eq rfl rfl rfl rfl rfl)
      · exact h.shrinks (Shrinks.trans (Shrinks.of_eq rfl rfl rfl rfl rfl :
          Shrinks w { w with watched := upd w.watched x { alive := false, monitors := [] } }) (Shrinks.notifyFold _ _ _))
  | monitor m x ss =>
    simp only [World.legal, Bool.and_eq_true, beq_iff_eq, List.all_eq_true] at hl
    obtain ⟨⟨⟨hm, _⟩, hal⟩, hnd⟩ := hl
    have hnd' : ss.Nodup := by simpa using hnd
    simp only []
    cases w.watched x with
    | none => exact h
    | some y =>
      simp only []
      have hfresh : w.mons m = none := h.freshM m (by omega)
      refine h.of_register (.mon m) ss ?_ ?_ ?_ ?_ ?_ ?_ ?_ hnd' hal ?_ ?_
      · simp only [World.ownerAlive, World.monAlive, hfresh]
      · simp only [World.ownerAlive, World.monAlive, World.register, foldl_setSeqPending_mons, upd, if_true]
      · simp only [World.ownerSeqs, World.register, foldl_setSeqPending_mons, upd, if_true]
      · intro ow' hne
        cases ow' with
        | exp e' =>
          simp only [World.ownerAlive, World.ownerSeqs, World.expAlive, World.register, foldl_setSeqPending_exps, and_self]
        | mon m' =>
          have : m' ≠ m := fun heq => hne (by rw [heq])
          simp only [World.ownerAlive, World.ownerSeqs, World.monAlive, World.register, foldl_setSeqPending_mons, upd,
            this, if_false, and_self]
      · intro s
        unfold World.register
        rw [foldl_setSeqPending_seqAlive]; rfl
      · intro s hs
        unfold World.register
        rw [foldl_setSeqPending_pendingOf_mem' _ _ _ hnd' hs (by exact hal s hs)]; rfl
      · intro s hs
        unfold World.register
        rw [foldl_setSeqPending_pendingOf_not_mem _ _ _ hs]; rfl
      · intro e' he'
        unfold World.register at he' ⊢
        rw [World.foldl_setSeqPending_nextE] at he'
        rw [foldl_setSeqPending_exps]
        exact h.freshE e' he'
      · intro m' hm'
        unfold World.register at hm' ⊢
        rw [foldl_setSeqPending_nextM] at hm'
        have hm'' : m + 1 ≤ m' := hm'
        have : m' ≠ m := by omega
        rw [foldl_setSeqPending_mons]
        simp only [upd, this, if_false]
        exact h.freshM m' (by omega)
  | msat m => exact h
  | msatd m => exact h
  | releasemon m =>
    simp only []
    cases hx : w.mons m with
    | none => exact h
    | some x =>
      simp only []
      -- the world after the monitor left the object's chain: only `watched` differs
      generalize hw1 : (if x.died then w else
        match w.watched x.target with
        | some y => { w with watched := upd w.watched x.target { y with monitors := y.monitors.filter (· ≠ m) } }
        | none => w) = w1
      have h1 : w1.exps = w.exps ∧ w1.mons = w.mons ∧ w1.seqs = w.seqs ∧ w1.nextE = w.nextE ∧ w1.nextM = w.nextM := by
        rw [← hw1]
        split
        · exact ⟨rfl, rfl, rfl, rfl, rfl⟩
        · split <;> exact ⟨rfl, rfl, rfl, rfl, rfl⟩
      obtain ⟨h1e, h1m, h1s, h1ne, h1nm⟩ := h1
      have hseqs : w.ownerSeqs (.mon m) = x.seqs := by simp only [World.ownerSeqs, hx]
      have hxnd : x.seqs.Nodup := by rw [← hseqs]; exact h.ownNodup _
      refine h.of_retire (.mon m) ?_ ?_ ?_ ?_ ?_ ?_ ?_
      · simp only [World.ownerSeqs, upd, if_true, hx]
      · intro ow' hne
        cases ow' with
        | exp e' =>
          simp only [World.ownerAlive, World.ownerSeqs, World.expAlive, World.retireOwn, foldl_setSeqPending_exps, h1e, and_self]
        | mon m' =>
          have : m' ≠ m := fun heq => hne (by rw [heq])
          simp only [World.ownerAlive, World.ownerSeqs, World.monAlive, World.retireOwn, foldl_setSeqPending_mons, upd,
            this, if_false, h1m, and_self]
      · intro s
        show (World.retireOwn _ _ _).seqAlive s = _
        unfold World.retireOwn
        rw [foldl_setSeqPending_seqAlive]; simp only [World.seqAlive, h1s]
      · intro s hs
        rw [hseqs] at hs
        show (World.retireOwn _ _ _).pendingOf s = _
        unfold World.retireOwn
        rw [foldl_setSeqPending_pendingOf_mem _ _ _ (by rfl) hxnd hs]; simp only [World.pendingOf, h1s]
      · intro s hs
        rw [hseqs] at hs
        show (World.retireOwn _ _ _).pendingOf s = _
        unfold World.retireOwn
        rw [foldl_setSeqPending_pendingOf_not_mem _ _ _ hs]; simp only [World.pendingOf, h1s]
      · intro e' he'
        have hn : (w1.retireOwn (.mon m) x.seqs).nextE = w.nextE := by
          unfold World.retireOwn; rw [World.foldl_setSeqPending_nextE, h1ne]
        have he'' : w.nextE ≤ e' := by rw [← hn]; exact he'
        show (World.retireOwn _ _ _).exps e' = none
        unfold World.retireOwn
        rw [foldl_setSeqPending_exps, h1e]
        exact h.freshE e' he''
      · intro m' hm'
        have hn : (w1.retireOwn (.mon m) x.seqs).nextM = w.nextM := by
          unfold World.retireOwn; rw [foldl_setSeqPending_nextM, h1nm]
        have hm'' : w.nextM ≤ m' := by rw [← hn]; exact hm'
        have hne : m' ≠ m := by intro heq; subst heq; rw [h.freshM m' hm''] at hx; cases hx
        show upd (World.retireOwn _ _ _).mons m _ m' = none
        simp only [upd, hne, if_false]
        unfold World.retireOwn
        rw [foldl_setSeqPending_mons, h1m]
        exact h.freshM m' hm''
  | tracer t => simp only []; exact h.shrinks (Shrinks.of_eq rfl rfl rfl rfl rfl)
  | killtracer t => simp only []; exact h.shrinks (Shrinks.of_eq rfl rfl rfl rfl rfl)
  | setreporter r ok => simp only []; exact h.shrinks (Shrinks.of_eq rfl rfl rfl rfl rfl)

end Tromp
