/-
  Lemmas/Step.lean — facts that need a case analysis over all operations of `step`:
  which reporter an event goes to, and which severity a report has.
-/
import TrompModel.Props.C13

namespace Tromp
open World

def Op.isCall : Op → Bool
  | .call _ _ _ => true
  | _ => false

/-- "every report/OK event of the list goes to reporter `r`, and every report has severity `sev`". -/
def EvsTo (r okr : Nat) (sev : Sev) (evs : List Ev) : Prop :=
  ∀ ev ∈ evs, (∀ s r' rp, ev = Ev.report s r' rp → r' = r ∧ s = sev) ∧ (∀ r' e, ev = Ev.ok r' e → r' = okr)

theorem EvsTo.nil (r okr : Nat) (sev : Sev) : EvsTo r okr sev [] := by intro ev h; cases h

theorem EvsTo.append {r okr : Nat} {sev : Sev} {a b : List Ev} (ha : EvsTo r okr sev a) (hb : EvsTo r okr sev b) :
    EvsTo r okr sev (a ++ b) := by
  intro ev hev
  rcases List.mem_append.mp hev with h | h
  · exact ha ev h
  · exact hb ev h

theorem EvsTo.of_no_report {r okr : Nat} {sev : Sev} {evs : List Ev}
    (h : ∀ ev ∈ evs, ev.isReport = false ∧ ev.isOk = false) : EvsTo r okr sev evs := by
  intro ev hev
  obtain ⟨h1, h2⟩ := h ev hev
  constructor
  · intro s r' rp he; subst he; cases h1
  · intro r' e he; subst he; cases h2

/-- every event is either neither a report nor an OK report, or a non-fatal report to reporter `r`. -/
def NF (r : Nat) (evs : List Ev) : Prop :=
  ∀ ev ∈ evs, (ev.isReport = false ∧ ev.isOk = false ∧ ev.isTrace = false) ∨ ∃ rp, ev = Ev.report .nonfatal r rp

theorem NF.nil (r : Nat) : NF r [] := by intro ev h; cases h

theorem NF.append {r : Nat} {a b : List Ev} (ha : NF r a) (hb : NF r b) : NF r (a ++ b) := by
  intro ev hev
  rcases List.mem_append.mp hev with h | h
  · exact ha ev h
  · exact hb ev h

theorem NF.toEvsTo {r okr : Nat} {evs : List Ev} (h : NF r evs) : EvsTo r okr .nonfatal evs := by
  intro ev hev
  rcases h ev hev with ⟨h1, h2, _⟩ | ⟨rp, rfl⟩
  · exact ⟨fun s r' rp he => (by subst he; cases h1), fun r' e he => (by subst he; cases h2)⟩
  · exact ⟨fun s r' rp' he => (by cases he; exact ⟨rfl, rfl⟩), fun r' e he => (by cases he)⟩

namespace World

theorem killMock_spec (w : World) (o : Nat) (m : Mock) :
    NF w.reporter (w.killMock o m).2 ∧ (w.killMock o m).1.reporter = w.reporter := by
  unfold killMock
  suffices H : ∀ (fns : List Nat) (w0 : World) (evs0 : List Ev), w0.reporter = w.reporter →
      NF w.reporter evs0 →
      NF w.reporter (fns.foldl (fun (acc : World × List Ev) f =>
        let (w, evs) := acc
        let (w1, e1) := w.decommission (m.active f)
        let (w2, e2) := w1.decommission (m.saturated f)
        (w2, evs ++ e1 ++ e2)) (w0, evs0)).2 ∧
      (fns.foldl (fun (acc : World × List Ev) f =>
        let (w, evs) := acc
        let (w1, e1) := w.decommission (m.active f)
        let (w2, e2) := w1.decommission (m.saturated f)
        (w2, evs ++ e1 ++ e2)) (w0, evs0)).1.reporter = w.reporter by
    obtain ⟨h1, h2⟩ := H (List.range nFns).reverse w [] rfl (NF.nil _)
    exact ⟨h1, h2⟩
  intro fns
  induction fns with
  | nil => intro w0 evs0 hr he; exact ⟨he, hr⟩
  | cons f fns ih =>
    intro w0 evs0 hr he
    simp only [List.foldl]
    obtain ⟨a1, _, _, a4⟩ := C04.decommission_spec w0 (m.active f)
    obtain ⟨b1, _, _, b4⟩ := C04.decommission_spec (w0.decommission (m.active f)).1 (m.saturated f)
    apply ih
    · rw [b4, a4, hr]
    · refine NF.append (NF.append he ?_) ?_
      · intro ev hev
        obtain ⟨e, lo, n, _, rfl⟩ := a1 ev hev
        exact Or.inr ⟨_, by rw [hr]⟩
      · intro ev hev
        obtain ⟨e, lo, n, _, rfl⟩ := b1 ev hev
        exact Or.inr ⟨_, by rw [a4, hr]⟩

/-- events of a mock call go to the installed reporter; every report is fatal. -/
theorem callFn_evsTo (w : World) (o f : Nat) (a : Args) : EvsTo w.reporter w.okReporter .fatal (w.callFn o f a).2 := by
  have hlog : ∀ l : List Nat, EvsTo w.reporter w.okReporter .fatal (l.flatMap (w.matchLog a)) := by
    intro l
    apply EvsTo.of_no_report
    intro ev hev
    obtain ⟨e, i, rfl⟩ := flatMap_matchLog_all_with w a l ev hev
    exact ⟨rfl, rfl⟩
  have htr : ∀ e r, EvsTo w.reporter w.okReporter .fatal (w.traceEv e a r) := by
    intro e r
    apply EvsTo.of_no_report
    intro ev hev
    obtain ⟨t, rfl⟩ := traceEv_all_trace w e a r ev hev
    exact ⟨rfl, rfl⟩
  have hone : ∀ rp, EvsTo w.reporter w.okReporter .fatal [w.rep .fatal rp] := by
    intro rp ev hev
    simp at hev; subst hev
    exact ⟨fun s r' rp' h => (by cases h; exact ⟨rfl, rfl⟩), fun r' e h => by cases h⟩
  have hres : ∀ r, EvsTo w.reporter w.okReporter .fatal [Ev.result r] := by
    intro r ev hev
    simp at hev; subst hev
    exact ⟨fun s r' rp' h => (by cases h), fun r' e h => by cases h⟩
  have hbad : EvsTo w.reporter w.okReporter .fatal [Ev.badOp] := by
    intro ev hev
    simp at hev; subst hev
    exact ⟨fun s r' rp' h => (by cases h), fun r' e h => by cases h⟩
  unfold callFn
  cases hm : w.mocks o with
  | none => exact hbad
  | some m =>
    simp only []
    rw [show find (w.expMatches a) w.expOrder (m.active f) =
      ((find (w.expMatches a) w.expOrder (m.active f)).1, (find (w.expMatches a) w.expOrder (m.active f)).2) from rfl]
    cases hfind : (find (w.expMatches a) w.expOrder (m.active f)).1 with
    | none =>
      simp only []
      apply EvsTo.append (hlog _)
      obtain ⟨pre, r, hev, hpre, _⟩ := reportMismatch_events w m f a
      rw [hev]
      refine EvsTo.append ?_ ?_
      · apply EvsTo.of_no_report
        intro ev h; obtain ⟨e, i, rfl⟩ := hpre ev h; exact ⟨rfl, rfl⟩
      · exact EvsTo.append (hone r) (hres _)
    | some e =>
      simp only []
      cases hx : w.exps e with
      | none => exact hbad
      | some x =>
        simp only []
        apply EvsTo.append (hlog _)
        unfold runActions
        by_cases hhi : x.hi = 0
        · simp only [hhi, if_true]
          exact EvsTo.append (EvsTo.append (hone _) (htr _ _)) (hres _)
        · simp only [hhi, if_false]
          cases hord : w.order (.exp e) x.seqs with
          | none => exact EvsTo.append (EvsTo.append (hone _) (htr _ _)) (hres _)
          | some n =>
            simp only []
            refine EvsTo.append (EvsTo.append (EvsTo.append ?_ ?_) (htr _ _)) (hres _)
            · intro ev hev
              simp at hev; subst hev
              exact ⟨fun s r' rp' h => (by cases h), fun r' e' h => by cases h; rfl⟩
            · apply EvsTo.of_no_report
              intro ev hev
              have := (actionEvents_actor e x a ev hev).1
              cases ev <;> simp_all [Ev.isAction, Ev.isReport, Ev.isOk]

/-- events of every operation other than a call go to the installed reporter; every report is
    non-fatal (so a conforming reporter never throws out of a destructor). -/
theorem step_NF (w : World) (op : Op) (hop : op.isCall = false) : NF w.reporter (w.step op).2 := by
  have hnone : ∀ evs : List Ev, (∀ ev ∈ evs, ev.isReport = false ∧ ev.isOk = false ∧ ev.isTrace = false) → NF w.reporter evs :=
    fun evs h ev hev => Or.inl (h ev hev)
  have hbad : NF w.reporter [Ev.badOp] := hnone _ (by simp [Ev.isReport, Ev.isOk, Ev.isTrace])
  have hone : ∀ rp, NF w.reporter [w.rep .nonfatal rp] := by
    intro rp ev hev
    simp at hev; subst hev
    exact Or.inr ⟨rp, rfl⟩
  unfold step
  by_cases hl : w.legal op = true
  · simp only [hl, Bool.not_true, Bool.false_eq_true, if_false]
    cases op with
    | call o f a => cases hop
    | mock o mv => exact NF.nil _
    | seq s => exact NF.nil _
    | expect e x =>
      simp only []
      split
      · exact hnone _ (by simp [Ev.isReport, Ev.isOk, Ev.isTrace])
      · split
        · exact hbad
        · exact NF.nil _
    | sat e => exact hnone _ (by simp [Ev.isReport, Ev.isOk, Ev.isTrace])
    | satd e => exact hnone _ (by simp [Ev.isReport, Ev.isOk, Ev.isTrace])
    | release e =>
      simp only []
      split
      · unfold releaseExp
        simp only []
        split
        · exact hone _
        · exact NF.nil _
      · exact hbad
    | move o o' =>
      simp only []
      split
      · exact hbad
      · exact NF.nil _
    | kill o =>
      simp only []
      split
      · exact (killMock_spec w o _).1
      · exact hbad
    | killseq s =>
      simp only []
      split
      · exact hbad
      · split
        · exact NF.nil _
        · exact hone _
    | completed s => exact hnone _ (by simp [Ev.isReport, Ev.isOk, Ev.isTrace])
    | watched x => exact NF.nil _
    | copyw x y => exact NF.nil _
    | movew x y => exact NF.nil _
    | assignw d s => exact NF.nil _
    | killw x =>
      simp only []
      split
      · exact hbad
      · rename_i y hy
        split
        · exact hone _
        · obtain ⟨_, _, h3, _, _, _⟩ := C13.notify_fold y.monitors
            { w with watched := upd w.watched x { alive := false, monitors := [] } } []
          intro ev hev
          have hev' : ev ∈ (y.monitors.foldl (fun (acc : World × List Ev) m =>
              ((acc.1.notify m).1, acc.2 ++ (acc.1.notify m).2))
              ({ w with watched := upd w.watched x { alive := false, monitors := [] } }, [])).2 := by
            simpa using hev
          rcases h3 ev hev' with h | ⟨r, mid, _, rfl, _⟩
          · cases h
          · exact Or.inr ⟨r, rfl⟩
    | monitor m x ss =>
      simp only []
      split
      · exact hbad
      · exact NF.nil _
    | msat m => exact hnone _ (by simp [Ev.isReport, Ev.isOk, Ev.isTrace])
    | msatd m => exact hnone _ (by simp [Ev.isReport, Ev.isOk, Ev.isTrace])
    | releasemon m =>
      simp only []
      split
      · exact hbad
      · split
        · exact NF.nil _
        · exact hone _
    | tracer t => exact NF.nil _
    | killtracer t => exact NF.nil _
    | setreporter r ok => exact hnone _ (by cases ok <;> simp [Ev.isReport, Ev.isOk, Ev.isTrace])
  · simp only [hl]
    exact hbad

theorem step_evsTo_nonfatal (w : World) (op : Op) (hop : op.isCall = false) :
    EvsTo w.reporter w.okReporter .nonfatal (w.step op).2 := (step_NF w op hop).toEvsTo

/-- operations other than a call never produce an OK report. -/
theorem step_no_ok (w : World) (op : Op) (hop : op.isCall = false) : ∀ ev ∈ (w.step op).2, ev.isOk = false := by
  intro ev hev
  rcases step_NF w op hop ev hev with ⟨_, h, _⟩ | ⟨rp, rfl⟩
  · exact h
  · rfl

/-- operations other than a call never produce a trace record. -/
theorem step_no_trace (w : World) (op : Op) (hop : op.isCall = false) : ∀ ev ∈ (w.step op).2, ev.isTrace = false := by
  intro ev hev
  rcases step_NF w op hop ev hev with ⟨_, _, h⟩ | ⟨rp, rfl⟩
  · exact h
  · rfl

end World
end Tromp
