/-
  Lemmas/Erase.lean — "as if it had never existed": erasing an unsequenced expectation `e` from a world
  (no record, on no list) commutes with every call that `e` does not match.  Used by Props/C07_Erasure.lean.
-/
import TrompModel.Lemmas.Call

namespace Tromp
open World

variable {α : Type}

/-! ### list level: `find` does not see an element that does not match -/

theorem findGo_erase [DecidableEq α] (m m' : α → Bool) (c c' : α → Cost) (e : α) (l : List α)
    (hag : ∀ k ∈ l, k ≠ e → m' k = m k ∧ c' k = c k) (hnm : e ∈ l → m e = false) (first : Option (α × Cost)) :
    findGo m' c' first (l.filter (· ≠ e)) = findGo m c first l := by
  induction l generalizing first with
  | nil => rfl
  | cons k l ih =>
    have hag' : ∀ k' ∈ l, k' ≠ e → m' k' = m k' ∧ c' k' = c k' := fun k' hk' => hag k' (List.mem_cons_of_mem _ hk')
    by_cases hk : k = e
    · subst hk
      have : m k = false := hnm (List.mem_cons_self)
      simp only [List.filter_cons, ne_eq, not_true_eq_false, decide_false, Bool.false_eq_true, if_false, findGo, this]
      exact ih hag' (fun h => this) first
    · have hnm' : e ∈ l → m e = false := fun h => hnm (List.mem_cons_of_mem _ h)
      obtain ⟨h1, h2⟩ := hag k (List.mem_cons_self) hk
      simp only [List.filter_cons, ne_eq, hk, not_false_eq_true, decide_true, if_true, findGo, h1, h2]
      split
      · split
        · rfl
        · split
          · exact ih hag' hnm' _
          · split <;> exact ih hag' hnm' _
      · exact ih hag' hnm' _

theorem examined_erase [DecidableEq α] (m m' : α → Bool) (c c' : α → Cost) (e : α) (l : List α)
    (hag : ∀ k ∈ l, k ≠ e → m' k = m k ∧ c' k = c k) (hnm : e ∈ l → m e = false) :
    examined m' c' (l.filter (· ≠ e)) = (examined m c l).filter (· ≠ e) := by
  induction l with
  | nil => rfl
  | cons k l ih =>
    have hag' : ∀ k' ∈ l, k' ≠ e → m' k' = m k' ∧ c' k' = c k' := fun k' hk' => hag k' (List.mem_cons_of_mem _ hk')
    by_cases hk : k = e
    · subst hk
      have : m k = false := hnm (List.mem_cons_self)
      simp only [List.filter_cons, ne_eq, not_true_eq_false, decide_false, Bool.false_eq_true, if_false, examined, this,
        Bool.false_and]
      exact ih hag' (fun _ => this)
    · have hnm' : e ∈ l → m e = false := fun h => hnm (List.mem_cons_of_mem _ h)
      obtain ⟨h1, h2⟩ := hag k (List.mem_cons_self) hk
      simp only [List.filter_cons, ne_eq, hk, not_false_eq_true, decide_true, if_true, examined, h1, h2]
      have ih' := ih hag' hnm'
      split
      · simp [hk]
      · simp [hk] at ih' ⊢; exact ih'

theorem seqCostGo_congr [DecidableEq α] (sat sat' : α → Bool) (h : α) (l : List α) (k : Nat)
    (hag : ∀ x ∈ l, sat' x = sat x) : seqCostGo sat' h k l = seqCostGo sat h k l := by
  induction l generalizing k with
  | nil => rfl
  | cons x xs ih =>
    simp only [seqCostGo, hag x (List.mem_cons_self)]
    split
    · rfl
    · split
      · exact ih _ (fun y hy => hag y (List.mem_cons_of_mem _ hy))
      · rfl

theorem seqCost_congr [DecidableEq α] (sat sat' : α → Bool) (h : α) (l : List α)
    (hag : ∀ x ∈ l, sat' x = sat x) : seqCost sat' h l = seqCost sat h l := seqCostGo_congr sat sat' h l 0 hag

namespace World

/-! ### the erased world -/

def eraseM (e : Nat) (m : Mock) : Mock :=
  { m with active := fun g => (m.active g).filter (· ≠ e), saturated := fun g => (m.saturated g).filter (· ≠ e) }

/-- the world in which expectation `e` never existed: no record, on no list. -/
def eraseE (e : Nat) (w : World) : World :=
  { w with exps := fun k => if k = e then none else w.exps k,
           mocks := fun o => (w.mocks o).map (eraseM e) }

/-- `e` takes part in no sequence. -/
def Unsequenced (e : Nat) (w : World) : Prop := ∀ s, Owner.exp e ∉ w.pendingOf s

theorem eraseE_exps_ne (e : Nat) (w : World) {k : Nat} (h : k ≠ e) : (eraseE e w).exps k = w.exps k := by
  simp [eraseE, h]

@[simp] theorem eraseE_seqs (e : Nat) (w : World) : (eraseE e w).seqs = w.seqs := rfl
@[simp] theorem eraseE_mons (e : Nat) (w : World) : (eraseE e w).mons = w.mons := rfl
@[simp] theorem eraseE_tracers (e : Nat) (w : World) : (eraseE e w).tracers = w.tracers := rfl
@[simp] theorem eraseE_reporter (e : Nat) (w : World) : (eraseE e w).reporter = w.reporter := rfl
@[simp] theorem eraseE_okReporter (e : Nat) (w : World) : (eraseE e w).okReporter = w.okReporter := rfl
@[simp] theorem eraseE_pendingOf (e : Nat) (w : World) (s : Nat) : (eraseE e w).pendingOf s = w.pendingOf s := rfl
@[simp] theorem eraseE_seqAlive (e : Nat) (w : World) (s : Nat) : (eraseE e w).seqAlive s = w.seqAlive s := rfl

theorem eraseE_mocks (e : Nat) (w : World) (o : Nat) : (eraseE e w).mocks o = (w.mocks o).map (eraseM e) := rfl

theorem eraseE_expMatches (e : Nat) (w : World) (a : Args) {k : Nat} (h : k ≠ e) :
    (eraseE e w).expMatches a k = w.expMatches a k := by
  simp [expMatches, eraseE_exps_ne e w h]

theorem eraseE_matchLog (e : Nat) (w : World) (a : Args) {k : Nat} (h : k ≠ e) :
    (eraseE e w).matchLog a k = w.matchLog a k := by
  simp [matchLog, eraseE_exps_ne e w h]

theorem eraseE_triedLog (e : Nat) (w : World) (a : Args) {k : Nat} (h : k ≠ e) :
    (eraseE e w).triedLog a k = w.triedLog a k := by
  simp [triedLog, eraseE_exps_ne e w h]

theorem eraseE_ownerSat (e : Nat) (w : World) {o : Owner} (h : o ≠ .exp e) : (eraseE e w).ownerSat o = w.ownerSat o := by
  cases o with
  | mon m => rfl
  | exp k =>
    have : k ≠ e := fun c => h (by rw [c])
    simp [ownerSat, eraseE_exps_ne e w this]

theorem eraseE_ownerOptional (e : Nat) (w : World) {o : Owner} (h : o ≠ .exp e) :
    (eraseE e w).ownerOptional o = w.ownerOptional o := by
  cases o with
  | mon m => rfl
  | exp k =>
    have : k ≠ e := fun c => h (by rw [c])
    simp [ownerOptional, eraseE_exps_ne e w this]

theorem eraseE_handleCost (e : Nat) (w : World) (hu : Unsequenced e w) (o : Owner) (s : Nat) :
    (eraseE e w).handleCost o s = w.handleCost o s := by
  unfold handleCost
  simp only [eraseE_seqAlive, eraseE_pendingOf]
  by_cases h : w.seqAlive s = true
  · simp only [h, if_true]
    exact seqCost_congr _ _ _ _ (fun x hx => eraseE_ownerSat e w (fun c => hu s (c ▸ hx)))
  · simp [h]

theorem eraseE_order (e : Nat) (w : World) (hu : Unsequenced e w) (o : Owner) (ss : List Nat) :
    (eraseE e w).order o ss = w.order o ss := by
  unfold order
  rw [show (eraseE e w).handleCost o = w.handleCost o from funext (eraseE_handleCost e w hu o)]

theorem eraseE_expOrder (e : Nat) (w : World) (hu : Unsequenced e w) {k : Nat} (h : k ≠ e) :
    (eraseE e w).expOrder k = w.expOrder k := by
  simp only [expOrder, eraseE_exps_ne e w h, eraseE_order e w hu]

theorem eraseE_seqListing (e : Nat) (w : World) (l : List Owner) (hl : Owner.exp e ∉ l) (b : Bool) :
    (eraseE e w).seqListing l b = w.seqListing l b := by
  induction l generalizing b with
  | nil => rfl
  | cons m ms ih =>
    have hm : m ≠ .exp e := fun c => hl (by simp [c])
    have hms : Owner.exp e ∉ ms := fun c => hl (by simp [c])
    simp only [seqListing, eraseE_ownerOptional e w hm, ih hms]

theorem eraseE_validateOne (e : Nat) (w : World) (hu : Unsequenced e w) (o : Owner) (s : Nat) :
    (eraseE e w).validateOne o s = w.validateOne o s := by
  unfold validateOne
  rw [eraseE_handleCost e w hu, eraseE_pendingOf]
  split
  · rfl
  · split
    · rfl
    · rw [eraseE_seqListing e w _ (hu s)]

theorem eraseE_validateAll (e : Nat) (w : World) (hu : Unsequenced e w) (o : Owner) (ss : List Nat) :
    (eraseE e w).validateAll o ss = w.validateAll o ss := by
  unfold validateAll
  rw [show (eraseE e w).validateOne o = w.validateOne o from funext (eraseE_validateOne e w hu o)]

theorem eraseE_traceEv (e : Nat) (w : World) (k : Nat) (a : Args) (r : Outcome) :
    (eraseE e w).traceEv k a r = w.traceEv k a r := rfl

theorem eraseE_rep (e : Nat) (w : World) (sev : Sev) (r : Report) : (eraseE e w).rep sev r = w.rep sev r := rfl

/-! ### erasure commutes with the updates a call performs -/

theorem eraseE_setExp (e : Nat) (w : World) {k : Nat} (x : Exp) (h : k ≠ e) :
    eraseE e (w.setExp k x) = (eraseE e w).setExp k x := by
  simp only [setExp, eraseE]
  congr 1
  funext i
  by_cases hi : i = k
  · subst hi; simp [upd, h]
  · by_cases hie : i = e
    · subst hie; simp [upd, Ne.symm h]
    · simp [upd, hi, hie]

/-- marking `e` itself is invisible once it is erased. -/
theorem eraseE_setExp_self (e : Nat) (w : World) (x : Exp) : eraseE e (w.setExp e x) = eraseE e w := by
  simp only [setExp, eraseE]
  congr 1
  funext i
  by_cases hie : i = e <;> simp [upd, hie]

theorem eraseE_setMock (e : Nat) (w : World) (o : Nat) (m : Mock) :
    eraseE e (w.setMock o m) = (eraseE e w).setMock o (eraseM e m) := by
  simp only [setMock, eraseE]
  congr 1
  funext i
  by_cases hi : i = o <;> simp [upd, hi]

theorem eraseE_setSeqPending (e : Nat) (w : World) (s : Nat) (g : List Owner → List Owner) :
    eraseE e (w.setSeqPending s g) = (eraseE e w).setSeqPending s g := by
  unfold setSeqPending
  simp only [eraseE_seqs]
  cases w.seqs s <;> rfl

theorem eraseE_foldl_setSeqPending (e : Nat) (w : World) (ss : List Nat) (g : List Owner → List Owner) :
    eraseE e (ss.foldl (fun w s => w.setSeqPending s g) w) = ss.foldl (fun w s => w.setSeqPending s g) (eraseE e w) := by
  induction ss generalizing w with
  | nil => rfl
  | cons s ss ih => simp only [List.foldl_cons]; rw [ih, eraseE_setSeqPending]

theorem eraseE_retirePredecessors (e : Nat) (w : World) (o : Owner) (ss : List Nat) :
    eraseE e (w.retirePredecessors o ss) = (eraseE e w).retirePredecessors o ss := eraseE_foldl_setSeqPending e w ss _

theorem eraseE_retireOwn (e : Nat) (w : World) (o : Owner) (ss : List Nat) :
    eraseE e (w.retireOwn o ss) = (eraseE e w).retireOwn o ss := eraseE_foldl_setSeqPending e w ss _

theorem eraseE_markReported (e : Nat) (w : World) (es : List Nat) :
    eraseE e (w.markReported es) = (eraseE e w).markReported (es.filter (· ≠ e)) := by
  unfold markReported
  induction es generalizing w with
  | nil => rfl
  | cons k es ih =>
    simp only [List.foldl_cons]
    by_cases hk : k = e
    · subst hk
      simp only [List.filter_cons, ne_eq, not_true_eq_false, decide_false, Bool.false_eq_true, if_false]
      rw [ih]
      cases hx : w.exps k with
      | none => rfl
      | some x => simp only; rw [eraseE_setExp_self]
    · simp only [List.filter_cons, ne_eq, hk, not_false_eq_true, decide_true, if_true, List.foldl_cons]
      rw [ih, eraseE_exps_ne e w hk]
      cases hx : w.exps k with
      | none => rfl
      | some x => simp only; rw [eraseE_setExp e w _ hk]

theorem filter_ne_comm (l : List Nat) (a b : Nat) :
    (l.filter (· ≠ a)).filter (· ≠ b) = (l.filter (· ≠ b)).filter (· ≠ a) := by
  simp only [List.filter_filter]
  congr 1
  funext x
  exact Bool.and_comm _ _

theorem eraseE_bookkeep (e : Nat) (w : World) (o f k : Nat) (x : Exp) (m : Mock) (hk : k ≠ e) :
    eraseE e (w.bookkeep o f k x m) = (eraseE e w).bookkeep o f k x (eraseM e m) := by
  unfold bookkeep
  simp only
  split
  · rw [eraseE_setExp e _ _ hk, eraseE_setMock, eraseE_retireOwn, eraseE_retirePredecessors]
    congr 2
    simp only [eraseM]
    congr 1
    · funext g
      by_cases hg : g = f
      · subst hg; simp only [if_true]; exact filter_ne_comm _ _ _
      · simp only [hg, if_false]
    · funext g
      by_cases hg : g = f
      · subst hg; simp [List.filter_append, Ne.symm hk, hk]
      · simp only [hg, if_false]
  · rw [eraseE_setExp e _ _ hk, eraseE_retirePredecessors]

/-- `run_actions` of a handler other than `e`: same events, and the worlds stay related by erasure. -/
theorem eraseE_runActions (e : Nat) (w : World) (hu : Unsequenced e w) (o f k : Nat) (x : Exp) (m : Mock) (a : Args)
    (hk : k ≠ e) :
    (eraseE e w).runActions o f k x (eraseM e m) a =
      (eraseE e (w.runActions o f k x m a).1, (w.runActions o f k x m a).2) := by
  unfold runActions
  by_cases hhi : x.hi = 0
  · simp only [hhi, if_true, eraseE_setExp e w _ hk, eraseE_rep, eraseE_traceEv]
  · simp only [hhi, if_false, eraseE_order e w hu]
    cases w.order (.exp k) x.seqs with
    | none => simp only [eraseE_validateAll e w hu, eraseE_rep, eraseE_traceEv]
    | some n => simp only [eraseE_bookkeep e w o f k x m hk, eraseE_okReporter, eraseE_traceEv]

/-! ### the event stream up to erasure -/

/-- what an observer who cannot see `e` sees of an event: `e`'s own WITH evaluations disappear, and `e` disappears
    from the listings of a no-match report. -/
def eraseEv (e : Nat) : Ev → Option Ev
  | .evalWith k i => if k = e then none else some (.evalWith k i)
  | .report sev r (.noMatch f a s t) => some (.report sev r (.noMatch f a (s.filter (· ≠ e)) (t.filter (·.1 ≠ e))))
  | ev => some ev

def eraseEvs (e : Nat) (evs : List Ev) : List Ev := evs.filterMap (eraseEv e)

theorem eraseEvs_append (e : Nat) (a b : List Ev) : eraseEvs e (a ++ b) = eraseEvs e a ++ eraseEvs e b := by
  simp [eraseEvs, List.filterMap_append]

theorem eraseEvs_matchLog (e : Nat) (w : World) (a : Args) (k : Nat) :
    eraseEvs e (w.matchLog a k) = if k = e then [] else w.matchLog a k := by
  unfold matchLog eraseEvs
  cases w.exps k with
  | none => simp
  | some x =>
    simp only
    split
    · by_cases hk : k = e
      · simp [List.filterMap_map, eraseEv, hk, Function.comp_def]
      · simp [List.filterMap_map, eraseEv, hk, Function.comp_def]
    · simp

theorem eraseEvs_triedLog (e : Nat) (w : World) (a : Args) (k : Nat) :
    eraseEvs e (w.triedLog a k) = if k = e then [] else w.triedLog a k := by
  unfold triedLog eraseEvs
  cases w.exps k with
  | none => simp
  | some x =>
    simp only
    split
    · by_cases hk : k = e
      · simp [List.filterMap_map, eraseEv, hk, Function.comp_def]
      · simp [List.filterMap_map, eraseEv, hk, Function.comp_def]
    · simp

theorem eraseEvs_flatMap_log (e : Nat) (g : Nat → List Ev) (hg : ∀ k, eraseEvs e (g k) = if k = e then [] else g k)
    (l : List Nat) : eraseEvs e (l.flatMap g) = (l.filter (· ≠ e)).flatMap g := by
  induction l with
  | nil => rfl
  | cons k l ih =>
    rw [List.flatMap_cons, eraseEvs_append, ih, hg]
    by_cases hk : k = e <;> simp [hk, List.filter_cons]

theorem flatMap_congr_mem {β : Type} (l : List Nat) (g g' : Nat → List β) (h : ∀ k ∈ l, g' k = g k) :
    l.flatMap g' = l.flatMap g := by
  induction l with
  | nil => rfl
  | cons k l ih =>
    rw [List.flatMap_cons, List.flatMap_cons, h k (List.mem_cons_self), ih (fun k' hk' => h k' (List.mem_cons_of_mem _ hk'))]

theorem filter_congr_mem (l : List Nat) (p p' : Nat → Bool) (h : ∀ k ∈ l, p' k = p k) : l.filter p' = l.filter p := by
  induction l with
  | nil => rfl
  | cons k l ih =>
    simp only [List.filter_cons, h k (List.mem_cons_self), ih (fun k' hk' => h k' (List.mem_cons_of_mem _ hk'))]

theorem mem_filter_ne {l : List Nat} {e k : Nat} (h : k ∈ l.filter (· ≠ e)) : k ≠ e := by
  have := (List.mem_filter.mp h).2; simpa using this

/-- the free `report_mismatch` on the erased world. -/
theorem eraseE_reportMismatch (e : Nat) (w : World) (m : Mock) (f : Nat) (a : Args)
    (hnm : e ∈ m.saturated f → w.expMatches a e = false) :
    (eraseE e w).reportMismatch (eraseM e m) f a =
      (eraseE e (w.reportMismatch m f a).1, eraseEvs e (w.reportMismatch m f a).2) := by
  have hsatl : (eraseM e m).saturated f = (m.saturated f).filter (· ≠ e) := rfl
  have hact : (eraseM e m).active f = (m.active f).filter (· ≠ e) := rfl
  have hlogS : ((m.saturated f).filter (· ≠ e)).flatMap ((eraseE e w).matchLog a) =
      eraseEvs e ((m.saturated f).flatMap (w.matchLog a)) := by
    rw [eraseEvs_flatMap_log e _ (eraseEvs_matchLog e w a)]
    exact flatMap_congr_mem _ _ _ (fun k hk => eraseE_matchLog e w a (mem_filter_ne hk))
  have hsm : ((m.saturated f).filter (· ≠ e)).filter ((eraseE e w).expMatches a) =
      ((m.saturated f).filter (w.expMatches a)).filter (· ≠ e) := by
    rw [filter_congr_mem _ _ _ (fun k hk => eraseE_expMatches e w a (mem_filter_ne hk))]
    simp only [List.filter_filter]
    congr 1; funext x; exact Bool.and_comm _ _
  have hsm2 : ((m.saturated f).filter (w.expMatches a)).filter (· ≠ e) = (m.saturated f).filter (w.expMatches a) := by
    apply List.filter_eq_self.2
    intro k hk
    have hk' := List.mem_filter.mp hk
    simp only [ne_eq, decide_eq_true_eq]
    rintro rfl
    rw [hnm hk'.1] at hk'; exact absurd hk'.2 (by simp)
  unfold reportMismatch
  simp only [hsatl, hact, hsm, hsm2]
  by_cases hE : ((m.saturated f).filter (w.expMatches a)).isEmpty = true
  · simp only [hE, if_true, eraseE_markReported, eraseEvs_append, hlogS]
    have hlogA : ((m.active f).filter (· ≠ e)).flatMap ((eraseE e w).triedLog a) =
        eraseEvs e ((m.active f).flatMap (w.triedLog a)) := by
      rw [eraseEvs_flatMap_log e _ (eraseEvs_triedLog e w a)]
      exact flatMap_congr_mem _ _ _ (fun k hk => eraseE_triedLog e w a (mem_filter_ne hk))
    have htried : ((m.active f).filter (· ≠ e)).filterMap (fun k => ((eraseE e w).exps k).map (fun x => (k, whyOf x a))) =
        ((m.active f).filterMap (fun k => (w.exps k).map (fun x => (k, whyOf x a)))).filter (·.1 ≠ e) := by
      induction m.active f with
      | nil => rfl
      | cons k l ih =>
        by_cases hk : k = e
        · subst hk
          simp only [List.filter_cons, ne_eq, not_true_eq_false, decide_false, Bool.false_eq_true, if_false, List.filterMap_cons]
          rw [ih]
          cases w.exps k <;> simp
        · simp only [List.filter_cons, ne_eq, hk, not_false_eq_true, decide_true, if_true, List.filterMap_cons,
            eraseE_exps_ne e w hk]
          rw [ih]
          cases w.exps k <;> simp [hk]
    rw [hlogA, htried]
    simp [eraseEvs, eraseEv, rep]
  · simp only [hE, eraseEvs_append, hlogS]
    simp [eraseEvs, eraseEv, rep]
    have := hsm2; simp [List.filter_filter] at this; exact this.symm

/-- events that do not mention `e` in the two erasable places are left alone. -/
theorem eraseEvs_id (e : Nat) (evs : List Ev) (h : ∀ ev ∈ evs, eraseEv e ev = some ev) : eraseEvs e evs = evs := by
  induction evs with
  | nil => rfl
  | cons ev evs ih =>
    simp only [eraseEvs, List.filterMap_cons, h ev (List.mem_cons_self)]
    exact congrArg _ (ih (fun ev' h' => h ev' (List.mem_cons_of_mem _ h')))

theorem validateAll_not_noMatch (w : World) (o : Owner) (ss : List Nat) :
    ∀ r ∈ w.validateAll o ss, ∀ f a s t, r ≠ Report.noMatch f a s t := by
  intro r hr f a s t
  obtain ⟨s', _, hs'⟩ := List.mem_filterMap.mp hr
  unfold validateOne at hs'
  split at hs'
  · cases hs'
  · split at hs'
    · cases hs'; intro c; cases c
    · cases hs'; intro c; cases c

theorem eraseEvs_runActions (e : Nat) (w : World) (o f k : Nat) (x : Exp) (m : Mock) (a : Args) :
    eraseEvs e (w.runActions o f k x m a).2 = (w.runActions o f k x m a).2 := by
  apply eraseEvs_id
  intro ev hev
  have htr : ∀ r, ∀ ev ∈ w.traceEv k a r, eraseEv e ev = some ev := by
    intro r ev hev
    unfold traceEv at hev
    cases ht : w.tracers with
    | nil => rw [ht] at hev; simp at hev
    | cons t _ => rw [ht] at hev; simp at hev; subst hev; rfl
  unfold runActions at hev
  by_cases hhi : x.hi = 0
  · simp only [hhi, if_true, List.mem_append, List.mem_singleton] at hev
    rcases hev with (rfl | hev) | rfl
    · rfl
    · exact htr _ ev hev
    · rfl
  · simp only [hhi, if_false] at hev
    cases hord : w.order (.exp k) x.seqs with
    | none =>
      simp only [hord, List.mem_append, List.mem_singleton] at hev
      rcases hev with (rfl | hev) | rfl
      · have hne : ∀ f a s t, (w.validateAll (.exp k) x.seqs).head?.getD (.seqNoMore 0 (.exp k)) ≠ Report.noMatch f a s t := by
          intro f a s t
          cases hl : w.validateAll (.exp k) x.seqs with
          | nil => simp
          | cons r rs =>
            simp only [List.head?_cons, Option.getD_some]
            exact validateAll_not_noMatch w (.exp k) x.seqs r (by rw [hl]; simp) f a s t
        generalize (w.validateAll (.exp k) x.seqs).head?.getD (.seqNoMore 0 (.exp k)) = r at hne
        cases r <;> first | rfl | exact absurd rfl (hne _ _ _ _)
      · exact htr _ ev hev
      · rfl
    | some n =>
      simp only [hord, List.mem_append, List.mem_singleton] at hev
      rcases hev with ((rfl | hev) | hev) | rfl
      · rfl
      · have := actionEvents_actor k x a ev hev
        cases ev <;> simp [Ev.isAction] at this <;> rfl
      · exact htr _ ev hev
      · rfl

/-- **erasure commutes with a call**: for an expectation `e` in no sequence that does not match the call (or is on
    none of the function's lists), calling on the world without `e` gives the world without `e` of the original call,
    and the same events up to `e`'s own WITH evaluations and `e`'s entry in a no-match listing. -/
theorem eraseE_callFn (e : Nat) (w : World) (hu : Unsequenced e w) (o f : Nat) (a : Args)
    (hnm : ∀ m, w.mocks o = some m → (e ∈ m.active f ∨ e ∈ m.saturated f) → w.expMatches a e = false) :
    (eraseE e w).callFn o f a = (eraseE e (w.callFn o f a).1, eraseEvs e (w.callFn o f a).2) := by
  unfold callFn
  rw [eraseE_mocks]
  cases hm : w.mocks o with
  | none => rfl
  | some m =>
    have hnmA : e ∈ m.active f → w.expMatches a e = false := fun h => hnm m hm (Or.inl h)
    have hnmS : e ∈ m.saturated f → w.expMatches a e = false := fun h => hnm m hm (Or.inr h)
    simp only [Option.map_some]
    have hact : (eraseM e m).active f = (m.active f).filter (· ≠ e) := rfl
    have hag : ∀ k ∈ m.active f, k ≠ e →
        (eraseE e w).expMatches a k = w.expMatches a k ∧ (eraseE e w).expOrder k = w.expOrder k :=
      fun k _ hk => ⟨eraseE_expMatches e w a hk, eraseE_expOrder e w hu hk⟩
    have hfound : (find ((eraseE e w).expMatches a) (eraseE e w).expOrder ((eraseM e m).active f)).1 =
        (find (w.expMatches a) w.expOrder (m.active f)).1 := by
      simp only [find, hact]; exact findGo_erase _ _ _ _ e _ hag hnmA none
    have hvis : (find ((eraseE e w).expMatches a) (eraseE e w).expOrder ((eraseM e m).active f)).2 =
        (find (w.expMatches a) w.expOrder (m.active f)).2.filter (· ≠ e) := by
      simp only [find, hact]; exact examined_erase _ _ _ _ e _ hag hnmA
    have hlog : ((find (w.expMatches a) w.expOrder (m.active f)).2.filter (· ≠ e)).flatMap ((eraseE e w).matchLog a) =
        eraseEvs e ((find (w.expMatches a) w.expOrder (m.active f)).2.flatMap (w.matchLog a)) := by
      rw [eraseEvs_flatMap_log e _ (eraseEvs_matchLog e w a)]
      exact flatMap_congr_mem _ _ _ (fun k hk => eraseE_matchLog e w a (mem_filter_ne hk))
    rw [show find ((eraseE e w).expMatches a) (eraseE e w).expOrder ((eraseM e m).active f) =
      ((find ((eraseE e w).expMatches a) (eraseE e w).expOrder ((eraseM e m).active f)).1,
       (find ((eraseE e w).expMatches a) (eraseE e w).expOrder ((eraseM e m).active f)).2) from rfl, hfound, hvis]
    rw [show find (w.expMatches a) w.expOrder (m.active f) =
      ((find (w.expMatches a) w.expOrder (m.active f)).1, (find (w.expMatches a) w.expOrder (m.active f)).2) from rfl]
    simp only [hlog]
    cases hf : (find (w.expMatches a) w.expOrder (m.active f)).1 with
    | none =>
      simp only [eraseE_reportMismatch e w m f a hnmS, eraseEvs_append]
    | some k =>
      have hkm := find_some_mem hf
      have hk : k ≠ e := by
        rintro rfl
        rw [hnmA hkm.1] at hkm; exact absurd hkm.2 (by simp)
      simp only [eraseE_exps_ne e w hk]
      cases hx : w.exps k with
      | none => rfl
      | some x =>
        simp only [eraseE_runActions e w hu o f k x m a hk, eraseEvs_append, eraseEvs_runActions]

end World
end Tromp
