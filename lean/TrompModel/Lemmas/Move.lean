import TrompModel.Lemmas.Inv
/-!
# Moving a mock object: the expectations behave on the new object as they did on the old one

`MovedRel w w' o o'` relates a world `w` in which the expectations live on object `o` to a world
`w'` in which the same expectations — same ids, same list order, same counters, same sequence
registrations — live on object `o'`.  `moveMock` establishes it; a call keeps it and produces the
same events.  Hence any sequence of calls behaves identically on the new object.
-/
namespace Tromp
open World

/-- the two records are the same expectation, possibly attached to different objects. -/
def ExpRel : Option Exp → Option Exp → Prop
  | none, none => True
  | some x, some y => ∃ ob, y = { x with obj := ob }
  | _, _ => False

theorem ExpRel.refl (a : Option Exp) : ExpRel a a := by
  cases a with
  | none => trivial
  | some x => exact ⟨x.obj, rfl⟩

structure MovedRel (w w' : World) (o o' : Nat) : Prop where
  exps : ∀ e, ExpRel (w.exps e) (w'.exps e)
  seqs : w'.seqs = w.seqs
  mons : w'.mons = w.mons
  tracers : w'.tracers = w.tracers
  reporter : w'.reporter = w.reporter
  okReporter : w'.okReporter = w.okReporter
  mock : ∃ m m', w.mocks o = some m ∧ w'.mocks o' = some m' ∧ m'.active = m.active ∧ m'.saturated = m.saturated

section readers
variable {w w' : World} {o o' : Nat} (r : MovedRel w w' o o')
include r

theorem MovedRel.ownerSat : w'.ownerSat = w.ownerSat := by
  funext ow
  cases ow with
  | exp e =>
    have := r.exps e
    simp only [World.ownerSat]
    cases h1 : w.exps e <;> cases h2 : w'.exps e <;> rw [h1, h2] at this <;> simp only [ExpRel] at this
    obtain ⟨ob, rfl⟩ := this
    rfl
  | mon m => simp only [World.ownerSat, r.mons]

theorem MovedRel.ownerOptional : w'.ownerOptional = w.ownerOptional := by
  funext ow
  cases ow with
  | exp e =>
    have := r.exps e
    simp only [World.ownerOptional]
    cases h1 : w.exps e <;> cases h2 : w'.exps e <;> rw [h1, h2] at this <;> simp only [ExpRel] at this
    obtain ⟨ob, rfl⟩ := this
    rfl
  | mon m => rfl

theorem MovedRel.pendingOf : w'.pendingOf = w.pendingOf := by
  funext s; simp only [World.pendingOf, r.seqs]

theorem MovedRel.seqAlive : w'.seqAlive = w.seqAlive := by
  funext s; simp only [World.seqAlive, r.seqs]

theorem MovedRel.handleCost : w'.handleCost = w.handleCost := by
  funext ow s; simp only [World.handleCost, r.seqAlive, r.ownerSat, r.pendingOf]

theorem MovedRel.order : w'.order = w.order := by
  funext ow ss; simp only [World.order, r.handleCost]

theorem MovedRel.expOrder : w'.expOrder = w.expOrder := by
  funext e
  have := r.exps e
  simp only [World.expOrder, r.order]
  cases h1 : w.exps e <;> cases h2 : w'.exps e <;> rw [h1, h2] at this <;> simp only [ExpRel] at this
  obtain ⟨ob, rfl⟩ := this
  rfl

theorem MovedRel.expMatches (a : Args) : w'.expMatches a = w.expMatches a := by
  funext e
  have := r.exps e
  simp only [World.expMatches]
  cases h1 : w.exps e <;> cases h2 : w'.exps e <;> rw [h1, h2] at this <;> simp only [ExpRel] at this
  obtain ⟨ob, rfl⟩ := this
  rfl

theorem MovedRel.matchLog (a : Args) : w'.matchLog a = w.matchLog a := by
  funext e
  have := r.exps e
  simp only [World.matchLog]
  cases h1 : w.exps e <;> cases h2 : w'.exps e <;> rw [h1, h2] at this <;> simp only [ExpRel] at this
  obtain ⟨ob, rfl⟩ := this
  rfl

theorem MovedRel.triedLog (a : Args) : w'.triedLog a = w.triedLog a := by
  funext e
  have := r.exps e
  simp only [World.triedLog]
  cases h1 : w.exps e <;> cases h2 : w'.exps e <;> rw [h1, h2] at this <;> simp only [ExpRel] at this
  obtain ⟨ob, rfl⟩ := this
  rfl

theorem MovedRel.whyTried (a : Args) (e : Nat) :
    (w'.exps e).map (fun x => (e, whyOf x a)) = (w.exps e).map (fun x => (e, whyOf x a)) := by
  have := r.exps e
  cases h1 : w.exps e <;> cases h2 : w'.exps e <;> rw [h1, h2] at this <;> simp only [ExpRel] at this
  obtain ⟨ob, rfl⟩ := this
  rfl

theorem MovedRel.seqListing (l : List Owner) (b : Bool) : w'.seqListing l b = w.seqListing l b := by
  induction l generalizing b with
  | nil => rfl
  | cons m ms ih => simp only [World.seqListing, r.ownerOptional, ih]

theorem MovedRel.validateOne : w'.validateOne = w.validateOne := by
  funext ow s
  simp only [World.validateOne, r.handleCost, r.pendingOf]
  cases w.handleCost ow s with
  | some _ => rfl
  | none =>
    simp only
    cases w.pendingOf s with
    | nil => rfl
    | cons x xs => simp only [r.seqListing]

theorem MovedRel.validateAll : w'.validateAll = w.validateAll := by
  funext ow ss; simp only [World.validateAll, r.validateOne]

theorem MovedRel.rep : w'.rep = w.rep := by
  funext sev rp; simp only [World.rep, r.reporter]

theorem MovedRel.traceEv : w'.traceEv = w.traceEv := by
  funext e a res; simp only [World.traceEv, r.tracers]

end readers

end Tromp

namespace Tromp
open World

theorem MovedRel.setSeqPending {w w' : World} {o o' : Nat} (r : MovedRel w w' o o') (s : Nat) (g : List Owner → List Owner) :
    MovedRel (w.setSeqPending s g) (w'.setSeqPending s g) o o' := by
  unfold World.setSeqPending
  rw [r.seqs]
  cases w.seqs s with
  | none => exact r
  | some q => exact ⟨r.exps, by simp only [r.seqs], r.mons, r.tracers, r.reporter, r.okReporter, r.mock⟩

theorem MovedRel.foldSeq {o o' : Nat} (ss : List Nat) (g : Nat → List Owner → List Owner) :
    ∀ {w w' : World}, MovedRel w w' o o' →
      MovedRel (ss.foldl (fun w s => w.setSeqPending s (g s)) w) (ss.foldl (fun w s => w.setSeqPending s (g s)) w') o o' := by
  induction ss with
  | nil => intro w w' r; exact r
  | cons s ss ih => intro w w' r; simp only [List.foldl]; exact ih (r.setSeqPending s (g s))

theorem MovedRel.setExp {w w' : World} {o o' : Nat} (r : MovedRel w w' o o') (e : Nat) (y y' : Exp)
    (h : ExpRel (some y) (some y')) : MovedRel (w.setExp e y) (w'.setExp e y') o o' := by
  refine ⟨?_, r.seqs, r.mons, r.tracers, r.reporter, r.okReporter, r.mock⟩
  intro e'
  by_cases he : e' = e
  · subst he; rw [setExp_exps_same, setExp_exps_same]; exact h
  · rw [setExp_exps_other _ _ he, setExp_exps_other _ _ he]; exact r.exps e'

theorem MovedRel.setMocks {w w' : World} {o o' : Nat} (r : MovedRel w w' o o') (m m' : Mock)
    (ha : m'.active = m.active) (hs : m'.saturated = m.saturated) :
    MovedRel (w.setMock o m) (w'.setMock o' m') o o' :=
  ⟨r.exps, r.seqs, r.mons, r.tracers, r.reporter, r.okReporter, m, m', setMock_mocks_same _ _ _, setMock_mocks_same _ _ _, ha, hs⟩

theorem MovedRel.markReported {o o' : Nat} (es : List Nat) : ∀ {w w' : World}, MovedRel w w' o o' →
    MovedRel (w.markReported es) (w'.markReported es) o o' := by
  unfold World.markReported
  induction es with
  | nil => intro w w' r; exact r
  | cons e es ih =>
    intro w w' r
    simp only [List.foldl]
    apply ih
    have := r.exps e
    cases h1 : w.exps e <;> cases h2 : w'.exps e <;> rw [h1, h2] at this <;> simp only [ExpRel] at this
    · exact r
    · obtain ⟨ob, rfl⟩ := this
      exact r.setExp e _ _ ⟨ob, rfl⟩

theorem MovedRel.bookkeep {w w' : World} {o o' : Nat} (r : MovedRel w w' o o') (f e : Nat) (x : Exp) (ob : Nat)
    (m m' : Mock) (ha : m'.active = m.active) (hs : m'.saturated = m.saturated) :
    MovedRel (w.bookkeep o f e x m) (w'.bookkeep o' f e { x with obj := ob } m') o o' := by
  unfold World.bookkeep
  simp only
  have r1 : MovedRel (w.retirePredecessors (.exp e) x.seqs) (w'.retirePredecessors (.exp e) x.seqs) o o' :=
    MovedRel.foldSeq x.seqs (fun _ => retireUntil (.exp e)) r
  split
  · have r2 : MovedRel ((w.retirePredecessors (.exp e) x.seqs).retireOwn (.exp e) x.seqs)
        ((w'.retirePredecessors (.exp e) x.seqs).retireOwn (.exp e) x.seqs) o o' :=
      MovedRel.foldSeq x.seqs (fun _ l => l.filter (· ≠ Owner.exp e)) r1
    refine (r2.setMocks _ _ ?_ ?_).setExp e _ _ ⟨ob, rfl⟩
    · simp only [ha]
    · simp only [hs]
  · exact r1.setExp e _ _ ⟨ob, rfl⟩

/-- a call on the new object produces the events the same call would have produced on the old one,
    and leaves the two worlds related again. -/
theorem MovedRel.callFn {w w' : World} {o o' : Nat} (r : MovedRel w w' o o') (f : Nat) (a : Args) :
    (w'.callFn o' f a).2 = (w.callFn o f a).2 ∧ MovedRel (w.callFn o f a).1 (w'.callFn o' f a).1 o o' := by
  obtain ⟨m, m', hm, hm', hact, hsat⟩ := r.mock
  unfold World.callFn
  simp only [hm, hm', hact, r.expMatches, r.expOrder, r.matchLog]
  generalize find (w.expMatches a) w.expOrder (m.active f) = fr
  obtain ⟨found, visited⟩ := fr
  simp only
  cases found with
  | none =>
    simp only
    unfold World.reportMismatch
    simp only [hsat, hact, r.matchLog, r.expMatches, r.triedLog, r.rep]
    have htried : (fun e => (w'.exps e).map (fun x => (e, whyOf x a))) = (fun e => (w.exps e).map (fun x => (e, whyOf x a))) :=
      funext (r.whyTried a)
    rw [htried]
    split
    · exact ⟨rfl, r.markReported _⟩
    · exact ⟨rfl, r⟩
  | some e =>
    simp only
    have := r.exps e
    cases h1 : w.exps e <;> cases h2 : w'.exps e <;> rw [h1, h2] at this <;> simp only [ExpRel] at this
    · exact ⟨rfl, r⟩
    · obtain ⟨ob, rfl⟩ := this
      rename_i x
      simp only
      unfold World.runActions
      simp only [r.rep, r.traceEv, r.order, r.validateAll]
      split
      · exact ⟨rfl, r.setExp e _ _ ⟨ob, rfl⟩⟩
      · cases w.order (.exp e) x.seqs with
        | none => exact ⟨rfl, r⟩
        | some n =>
          simp only [r.reporter, r.okReporter]
          exact ⟨rfl, r.bookkeep f e x ob m m' hact hsat⟩

/-- the events of a series of calls `(f, a)` to object `o`. -/
def callsOn (w : World) (o : Nat) : List (Nat × Args) → World × List (List Ev)
  | [] => (w, [])
  | (f, a) :: rest =>
    let r := w.callFn o f a
    let rr := callsOn r.1 o rest
    (rr.1, r.2 :: rr.2)

theorem MovedRel.callsOn {o o' : Nat} (cs : List (Nat × Args)) : ∀ {w w' : World}, MovedRel w w' o o' →
    (callsOn w' o' cs).2 = (callsOn w o cs).2 := by
  induction cs with
  | nil => intro w w' _; rfl
  | cons c cs ih =>
    intro w w' r
    obtain ⟨f, a⟩ := c
    simp only [Tromp.callsOn]
    obtain ⟨h1, h2⟩ := r.callFn f a
    rw [h1, ih h2]

/-- `moveMock` puts the world in that relation with itself: the lists of `o` are the lists of `o'`
    afterwards, order kept, and the records differ only in the object they name. -/
theorem moveMock_rel (w : World) (o o' : Nat) (m : Mock) (hm : w.mocks o = some m) (hne : o' ≠ o) :
    MovedRel w (w.moveMock o o' m) o o' := by
  unfold World.moveMock
  refine ⟨?_, rfl, rfl, rfl, rfl, rfl, m, { m with alive := true }, hm, ?_, rfl, rfl⟩
  · intro e
    simp only [setMock_exps]
    cases h : w.exps e with
    | none => simp [ExpRel]
    | some x =>
      simp only [Option.map_some]
      split
      · exact ⟨o', rfl⟩
      · exact ⟨x.obj, rfl⟩
  · rw [setMock_mocks_other _ _ hne, setMock_mocks_same]

end Tromp
