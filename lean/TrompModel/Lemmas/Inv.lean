/-
  Lemmas/Inv.lean — the world invariant (DESIGN.md Appendix A, clauses 1–5) and its preservation by
  every operation.  The property-level statement (every reachable world is well-formed) is in
  Props/C14.lean.
-/
import TrompModel.Lemmas.Step

namespace Tromp
open World

/-- well-formedness of a world: the linkage between mock-function lists and expectation records. -/
structure WF (w : World) : Prop where
  act : ∀ o m f e, w.mocks o = some m → e ∈ m.active f →
    ∃ x, w.exps e = some x ∧ x.alive = true ∧ x.obj = o ∧ x.fn = f ∧ x.link = .active
  sat : ∀ o m f e, w.mocks o = some m → e ∈ m.saturated f →
    ∃ x, w.exps e = some x ∧ x.alive = true ∧ x.obj = o ∧ x.fn = f ∧ x.link = .saturated
  actNodup : ∀ o m f, w.mocks o = some m → (m.active f).Nodup
  satNodup : ∀ o m f, w.mocks o = some m → (m.saturated f).Nodup
  fresh : ∀ e, w.nextE ≤ e → w.exps e = none
  counters : ∀ e x, w.exps e = some x →
    x.count ≤ x.hi ∧ x.lo ≤ x.hi ∧ (x.link = .active → x.count < x.hi ∨ x.hi = 0) ∧ (x.link = .saturated → x.count = x.hi)
  deadExp : ∀ e x, w.exps e = some x → x.alive = false → x.link = .unlinked
  seqsNodup : ∀ e x, w.exps e = some x → x.seqs.Nodup
  freshMock : ∀ o, w.nextO ≤ o → w.mocks o = none
  objBound : ∀ e x, w.exps e = some x → x.obj < w.nextO

theorem WF.init : WF ({} : World) where
  act := by intro o m f e h; simp at h
  sat := by intro o m f e h; simp at h
  actNodup := by intro o m f h; simp at h
  satNodup := by intro o m f h; simp at h
  fresh := by intro e _; rfl
  counters := by intro e x h; simp at h
  deadExp := by intro e x h; simp at h
  seqsNodup := by intro e x h; simp at h
  freshMock := by intro o _; rfl
  objBound := by intro e x h; simp at h

/-- operations that touch neither expectations nor mock lists preserve well-formedness. -/
theorem WF.of_frame {w w' : World} (h : WF w) (he : w'.exps = w.exps) (hm : w'.mocks = w.mocks) (hn : w'.nextE = w.nextE)
    (ho : w'.nextO = w.nextO) : WF w' where
  freshMock := by rw [hm, ho]; exact h.freshMock
  objBound := by rw [he, ho]; exact h.objBound
  act := by rw [he, hm]; exact h.act
  sat := by rw [he, hm]; exact h.sat
  actNodup := by rw [hm]; exact h.actNodup
  satNodup := by rw [hm]; exact h.satNodup
  fresh := by rw [he, hn]; exact h.fresh
  counters := by rw [he]; exact h.counters
  deadExp := by rw [he]; exact h.deadExp
  seqsNodup := by rw [he]; exact h.seqsNodup

namespace World

theorem register_frame (w : World) (o : Owner) (ss : List Nat) :
    (w.register o ss).exps = w.exps ∧ (w.register o ss).mocks = w.mocks := by
  unfold register
  exact ⟨foldl_setSeqPending_exps w ss _, foldl_setSeqPending_mocks w ss _⟩

theorem foldl_setSeqPending_nextE (w : World) (ss : List Nat) (f : List Owner → List Owner) :
    (ss.foldl (fun w s => w.setSeqPending s f) w).nextE = w.nextE := by
  induction ss generalizing w with
  | nil => rfl
  | cons s ss ih =>
    simp only [List.foldl]
    rw [ih]
    unfold setSeqPending; split <;> rfl

theorem foldl_setSeqPending_nextO (w : World) (ss : List Nat) (f : List Owner → List Owner) :
    (ss.foldl (fun w s => w.setSeqPending s f) w).nextO = w.nextO := by
  induction ss generalizing w with
  | nil => rfl
  | cons s ss ih =>
    simp only [List.foldl]
    rw [ih]
    unfold setSeqPending; split <;> rfl

end World

/-- updating only the `reported` flag of one expectation preserves well-formedness. -/
theorem WF.setReported {w : World} (h : WF w) (e : Nat) (x : Exp) (hx : w.exps e = some x) :
    WF (w.setExp e { x with reported := true }) where
  freshMock := h.freshMock
  objBound := by
    intro e' y hy
    by_cases hee : e' = e
    · subst hee; simp at hy; subst hy; exact h.objBound e' x hx
    · rw [setExp_exps_other _ _ hee] at hy; exact h.objBound e' y hy
  act := by
    intro o m f e' hm he'
    obtain ⟨y, hy, h1, h2, h3, h4⟩ := h.act o m f e' hm he'
    by_cases hee : e' = e
    · subst hee; rw [hx] at hy; cases hy
      exact ⟨_, setExp_exps_same _ _ _, h1, h2, h3, h4⟩
    · exact ⟨y, by rw [setExp_exps_other _ _ hee]; exact hy, h1, h2, h3, h4⟩
  sat := by
    intro o m f e' hm he'
    obtain ⟨y, hy, h1, h2, h3, h4⟩ := h.sat o m f e' hm he'
    by_cases hee : e' = e
    · subst hee; rw [hx] at hy; cases hy
      exact ⟨_, setExp_exps_same _ _ _, h1, h2, h3, h4⟩
    · exact ⟨y, by rw [setExp_exps_other _ _ hee]; exact hy, h1, h2, h3, h4⟩
  actNodup := h.actNodup
  satNodup := h.satNodup
  fresh := by
    intro e' he'
    by_cases hee : e' = e
    · subst hee; rw [h.fresh e' he'] at hx; cases hx
    · rw [setExp_exps_other _ _ hee]; exact h.fresh e' he'
  counters := by
    intro e' y hy
    by_cases hee : e' = e
    · subst hee; simp at hy; subst hy; exact h.counters e' x hx
    · rw [setExp_exps_other _ _ hee] at hy; exact h.counters e' y hy
  deadExp := by
    intro e' y hy
    by_cases hee : e' = e
    · subst hee; simp at hy; subst hy; exact h.deadExp e' x hx
    · rw [setExp_exps_other _ _ hee] at hy; exact h.deadExp e' y hy
  seqsNodup := by
    intro e' y hy
    by_cases hee : e' = e
    · subst hee; simp at hy; subst hy; exact h.seqsNodup e' x hx
    · rw [setExp_exps_other _ _ hee] at hy; exact h.seqsNodup e' y hy

theorem WF.markReported {w : World} (h : WF w) (es : List Nat) : WF (w.markReported es) := by
  unfold World.markReported
  induction es generalizing w with
  | nil => exact h
  | cons a es ih =>
    simp only [List.foldl]
    cases ha : w.exps a with
    | none => simpa [ha] using ih h
    | some x => simpa [ha] using ih (h.setReported a x ha)

end Tromp

namespace Tromp
open World

/-- creating an expectation (the accepted branch of `expect`). -/
theorem WF.expect {w : World} (h : WF w) (e : Nat) (s : ExpectSpec) (m : Mock)
    (he : e = w.nextE) (hm : w.mocks s.obj = some m) (hnd : s.seqs.Nodup) (hb : s.lo ≤ s.hi) :
    WF ((({ w with nextE := e + 1 }.register (.exp e) s.seqs).setExp e
          { obj := s.obj, fn := s.fn, params := s.params, conds := s.conds, effects := s.effects, ret := s.ret,
            lo := s.lo, hi := s.hi, seqs := s.seqs }).setMock s.obj
          { m with active := fun g => if g = s.fn then e :: m.active g else m.active g }) := by
  have hfresh : w.exps e = none := h.fresh e (by omega)
  have hreg := register_frame { w with nextE := e + 1 } (.exp e) s.seqs
  have hexps : ∀ e', e' ≠ e → ((({ w with nextE := e + 1 }.register (.exp e) s.seqs).setExp e
          { obj := s.obj, fn := s.fn, params := s.params, conds := s.conds, effects := s.effects, ret := s.ret,
            lo := s.lo, hi := s.hi, seqs := s.seqs }).setMock s.obj
          { m with active := fun g => if g = s.fn then e :: m.active g else m.active g }).exps e' = w.exps e' := by
    intro e' hne
    rw [setMock_exps, setExp_exps_other _ _ hne, hreg.1]
  have hnotin : ∀ o' m' f, w.mocks o' = some m' → e ∉ m'.active f ∧ e ∉ m'.saturated f := by
    intro o' m' f hm'
    constructor
    · intro hin; obtain ⟨x, hx, _⟩ := h.act o' m' f e hm' hin; rw [hfresh] at hx; cases hx
    · intro hin; obtain ⟨x, hx, _⟩ := h.sat o' m' f e hm' hin; rw [hfresh] at hx; cases hx
  have hmocks : ∀ o', o' ≠ s.obj → ((({ w with nextE := e + 1 }.register (.exp e) s.seqs).setExp e
          { obj := s.obj, fn := s.fn, params := s.params, conds := s.conds, effects := s.effects, ret := s.ret,
            lo := s.lo, hi := s.hi, seqs := s.seqs }).setMock s.obj
          { m with active := fun g => if g = s.fn then e :: m.active g else m.active g }).mocks o' = w.mocks o' := by
    intro o' hne
    rw [setMock_mocks_other _ _ hne, setExp_mocks, hreg.2]
  refine ⟨?_, ?_, ?_, ?_, ?_, ?_, ?_, ?_, ?_, ?_⟩
  · -- act
    intro o' m' f e' hm' hin
    by_cases ho : o' = s.obj
    · subst ho
      rw [setMock_mocks_same] at hm'; cases hm'
      simp only at hin
      by_cases hf : f = s.fn
      · subst hf
        simp only [if_true, List.mem_cons] at hin
        rcases hin with rfl | hin
        · exact ⟨_, by rw [setMock_exps, setExp_exps_same], rfl, rfl, rfl, rfl⟩
        · have hne : e' ≠ e := fun h' => (hnotin _ m _ hm).1 (h' ▸ hin)
          obtain ⟨x, hx, r⟩ := h.act _ m _ e' hm hin
          exact ⟨x, by rw [hexps e' hne]; exact hx, r⟩
      · simp only [hf, if_false] at hin
        have hne : e' ≠ e := fun h' => (hnotin _ m _ hm).1 (h' ▸ hin)
        obtain ⟨x, hx, r⟩ := h.act _ m _ e' hm hin
        exact ⟨x, by rw [hexps e' hne]; exact hx, r⟩
    · rw [hmocks o' ho] at hm'
      have hne : e' ≠ e := fun h' => (hnotin _ m' _ hm').1 (h' ▸ hin)
      obtain ⟨x, hx, r⟩ := h.act o' m' f e' hm' hin
      exact ⟨x, by rw [hexps e' hne]; exact hx, r⟩
  · -- sat
    intro o' m' f e' hm' hin
    by_cases ho : o' = s.obj
    · subst ho
      rw [setMock_mocks_same] at hm'; cases hm'
      simp only at hin
      have hne : e' ≠ e := fun h' => (hnotin _ m _ hm).2 (h' ▸ hin)
      obtain ⟨x, hx, r⟩ := h.sat _ m _ e' hm hin
      exact ⟨x, by rw [hexps e' hne]; exact hx, r⟩
    · rw [hmocks o' ho] at hm'
      have hne : e' ≠ e := fun h' => (hnotin _ m' _ hm').2 (h' ▸ hin)
      obtain ⟨x, hx, r⟩ := h.sat o' m' f e' hm' hin
      exact ⟨x, by rw [hexps e' hne]; exact hx, r⟩
  · -- actNodup
    intro o' m' f hm'
    by_cases ho : o' = s.obj
    · subst ho
      rw [setMock_mocks_same] at hm'; cases hm'
      simp only
      by_cases hf : f = s.fn
      · subst hf; simp only [if_true]
        exact List.nodup_cons.mpr ⟨(hnotin _ m _ hm).1, h.actNodup _ m _ hm⟩
      · simp only [hf, if_false]; exact h.actNodup _ m _ hm
    · rw [hmocks o' ho] at hm'; exact h.actNodup o' m' f hm'
  · -- satNodup
    intro o' m' f hm'
    by_cases ho : o' = s.obj
    · subst ho
      rw [setMock_mocks_same] at hm'; cases hm'
      exact h.satNodup _ m _ hm
    · rw [hmocks o' ho] at hm'; exact h.satNodup o' m' f hm'
  · -- fresh
    intro e' he'
    have hn : ((({ w with nextE := e + 1 }.register (.exp e) s.seqs).setExp e
          { obj := s.obj, fn := s.fn, params := s.params, conds := s.conds, effects := s.effects, ret := s.ret,
            lo := s.lo, hi := s.hi, seqs := s.seqs }).setMock s.obj
          { m with active := fun g => if g = s.fn then e :: m.active g else m.active g }).nextE = e + 1 := by
      show (({ w with nextE := e + 1 } : World).register (.exp e) s.seqs).nextE = e + 1
      unfold register; rw [foldl_setSeqPending_nextE]
    rw [hn] at he'
    rw [hexps e' (by omega)]
    exact h.fresh e' (by omega)
  · -- counters
    intro e' y hy
    by_cases hee : e' = e
    · subst hee
      rw [setMock_exps, setExp_exps_same] at hy; cases hy
      refine ⟨Nat.zero_le _, hb, fun _ => ?_, fun hl => by cases hl⟩
      simp only
      omega
    · rw [hexps e' hee] at hy; exact h.counters e' y hy
  · -- deadExp
    intro e' y hy hd
    by_cases hee : e' = e
    · subst hee
      rw [setMock_exps, setExp_exps_same] at hy; cases hy; cases hd
    · rw [hexps e' hee] at hy; exact h.deadExp e' y hy hd
  · -- seqsNodup
    intro e' y hy
    by_cases hee : e' = e
    · subst hee
      rw [setMock_exps, setExp_exps_same] at hy; cases hy; exact hnd
    · rw [hexps e' hee] at hy; exact h.seqsNodup e' y hy
  · -- freshMock
    intro o' ho'
    have hno : ((({ w with nextE := e + 1 }.register (.exp e) s.seqs).setExp e
          { obj := s.obj, fn := s.fn, params := s.params, conds := s.conds, effects := s.effects, ret := s.ret,
            lo := s.lo, hi := s.hi, seqs := s.seqs }).setMock s.obj
          { m with active := fun g => if g = s.fn then e :: m.active g else m.active g }).nextO = w.nextO := by
      show (({ w with nextE := e + 1 } : World).register (.exp e) s.seqs).nextO = w.nextO
      unfold register; rw [foldl_setSeqPending_nextO]
    rw [hno] at ho'
    have hne : o' ≠ s.obj := by
      intro h'; subst h'; rw [h.freshMock _ ho'] at hm; cases hm
    rw [hmocks o' hne]; exact h.freshMock o' ho'
  · -- objBound
    intro e' y hy
    have hno : ((({ w with nextE := e + 1 }.register (.exp e) s.seqs).setExp e
          { obj := s.obj, fn := s.fn, params := s.params, conds := s.conds, effects := s.effects, ret := s.ret,
            lo := s.lo, hi := s.hi, seqs := s.seqs }).setMock s.obj
          { m with active := fun g => if g = s.fn then e :: m.active g else m.active g }).nextO = w.nextO := by
      show (({ w with nextE := e + 1 } : World).register (.exp e) s.seqs).nextO = w.nextO
      unfold register; rw [foldl_setSeqPending_nextO]
    rw [hno]
    by_cases hee : e' = e
    · subst hee
      rw [setMock_exps, setExp_exps_same] at hy; cases hy
      simp only
      apply Nat.lt_of_not_le
      intro hle; rw [h.freshMock _ hle] at hm; cases hm
    · rw [hexps e' hee] at hy; exact h.objBound e' y hy

end Tromp

namespace Tromp
open World

theorem World.retire_frames (w : World) (o : Owner) (ss : List Nat) :
    ((w.retirePredecessors o ss).retireOwn o ss).exps = w.exps ∧ ((w.retirePredecessors o ss).retireOwn o ss).mocks = w.mocks ∧
    ((w.retirePredecessors o ss).retireOwn o ss).nextE = w.nextE ∧
    (w.retirePredecessors o ss).exps = w.exps ∧ (w.retirePredecessors o ss).mocks = w.mocks ∧ (w.retirePredecessors o ss).nextE = w.nextE := by
  unfold retireOwn retirePredecessors
  refine ⟨?_, ?_, ?_, ?_, ?_, ?_⟩
  · rw [foldl_setSeqPending_exps, foldl_setSeqPending_exps]
  · rw [foldl_setSeqPending_mocks, foldl_setSeqPending_mocks]
  · rw [foldl_setSeqPending_nextE, foldl_setSeqPending_nextE]
  · rw [foldl_setSeqPending_exps]
  · rw [foldl_setSeqPending_mocks]
  · rw [foldl_setSeqPending_nextE]

/-- the bookkeeping of an accepted call. -/
theorem WF.bookkeep {w : World} (h : WF w) (o f e : Nat) (x : Exp) (m : Mock)
    (hm : w.mocks o = some m) (hin : e ∈ m.active f) (hx : w.exps e = some x) (hhi : x.hi ≠ 0) :
    WF (w.bookkeep o f e x m) := by
  obtain ⟨x0, hx0, halive, hobj, hfn, hlink⟩ := h.act o m f e hm hin
  rw [hx] at hx0; cases hx0
  obtain ⟨hc1, hc2, hc3, _⟩ := h.counters e x hx
  have hlt : x.count < x.hi := by rcases hc3 hlink with h' | h'; exact h'; exact absurd h' hhi
  obtain ⟨fr1, fr2, fr3, fr4, fr5, fr6⟩ := retire_frames w (.exp e) x.seqs
  unfold World.bookkeep
  by_cases hsat : x.count + 1 = x.hi
  · simp only [hsat, if_true]
    -- abbreviations
    have hE : ∀ e', e' ≠ e → ((((w.retirePredecessors (.exp e) x.seqs).retireOwn (.exp e) x.seqs).setMock o
        { m with active := fun g => if g = f then (m.active f).filter (· ≠ e) else m.active g,
                 saturated := fun g => if g = f then m.saturated f ++ [e] else m.saturated g }).setExp e
        { x with count := x.hi, link := .saturated }).exps e' = w.exps e' := by
      intro e' hne; rw [setExp_exps_other _ _ hne, setMock_exps, fr1]
    have hM : ∀ o', o' ≠ o → ((((w.retirePredecessors (.exp e) x.seqs).retireOwn (.exp e) x.seqs).setMock o
        { m with active := fun g => if g = f then (m.active f).filter (· ≠ e) else m.active g,
                 saturated := fun g => if g = f then m.saturated f ++ [e] else m.saturated g }).setExp e
        { x with count := x.hi, link := .saturated }).mocks o' = w.mocks o' := by
      intro o' hne; rw [setExp_mocks, setMock_mocks_other _ _ hne, fr2]
    have hnotsat : ∀ o' m' f', w.mocks o' = some m' → e ∉ m'.saturated f' := by
      intro o' m' f' hm' hin'
      obtain ⟨y, hy, _, _, _, hl⟩ := h.sat o' m' f' e hm' hin'
      rw [hx] at hy; cases hy; rw [hlink] at hl; cases hl
    have honly : ∀ o' m' f', w.mocks o' = some m' → e ∈ m'.active f' → o' = o ∧ f' = f := by
      intro o' m' f' hm' hin'
      obtain ⟨y, hy, _, ho, hf, _⟩ := h.act o' m' f' e hm' hin'
      rw [hx] at hy; cases hy
      exact ⟨ho.symm.trans hobj, hf.symm.trans hfn⟩
    refine ⟨?_, ?_, ?_, ?_, ?_, ?_, ?_, ?_, ?_, ?_⟩
    · intro o' m' f' e' hm' hin'
      by_cases ho : o' = o
      · subst ho
        rw [setExp_mocks, setMock_mocks_same] at hm'; cases hm'
        simp only at hin'
        have hin'' : e' ∈ m.active f' ∧ e' ≠ e := by
          by_cases hf : f' = f
          · subst hf; simp only [if_true, List.mem_filter] at hin'
            exact ⟨hin'.1, by simpa using hin'.2⟩
          · simp only [hf, if_false] at hin'
            exact ⟨hin', fun h' => hf ((honly _ m f' hm (h' ▸ hin')).2)⟩
        obtain ⟨y, hy, r⟩ := h.act _ m f' e' hm hin''.1
        exact ⟨y, by rw [hE e' hin''.2]; exact hy, r⟩
      · rw [hM o' ho] at hm'
        have hne : e' ≠ e := fun h' => ho ((honly o' m' f' hm' (h' ▸ hin')).1)
        obtain ⟨y, hy, r⟩ := h.act o' m' f' e' hm' hin'
        exact ⟨y, by rw [hE e' hne]; exact hy, r⟩
    · intro o' m' f' e' hm' hin'
      by_cases ho : o' = o
      · subst ho
        rw [setExp_mocks, setMock_mocks_same] at hm'; cases hm'
        simp only at hin'
        by_cases hf : f' = f
        · subst hf
          simp only [if_true, List.mem_append, List.mem_singleton] at hin'
          rcases hin' with hin' | rfl
          · have hne : e' ≠ e := fun h' => hnotsat _ m _ hm (h' ▸ hin')
            obtain ⟨y, hy, r⟩ := h.sat _ m _ e' hm hin'
            exact ⟨y, by rw [hE e' hne]; exact hy, r⟩
          · exact ⟨_, setExp_exps_same _ _ _, halive, hobj, hfn, rfl⟩
        · simp only [hf, if_false] at hin'
          have hne : e' ≠ e := fun h' => hnotsat _ m _ hm (h' ▸ hin')
          obtain ⟨y, hy, r⟩ := h.sat _ m _ e' hm hin'
          exact ⟨y, by rw [hE e' hne]; exact hy, r⟩
      · rw [hM o' ho] at hm'
        have hne : e' ≠ e := fun h' => hnotsat o' m' f' hm' (h' ▸ hin')
        obtain ⟨y, hy, r⟩ := h.sat o' m' f' e' hm' hin'
        exact ⟨y, by rw [hE e' hne]; exact hy, r⟩
    · intro o' m' f' hm'
      by_cases ho : o' = o
      · subst ho
        rw [setExp_mocks, setMock_mocks_same] at hm'; cases hm'
        simp only
        by_cases hf : f' = f
        · subst hf; simp only [if_true]; exact (h.actNodup _ m _ hm).filter _
        · simp only [hf, if_false]; exact h.actNodup _ m _ hm
      · rw [hM o' ho] at hm'; exact h.actNodup o' m' f' hm'
    · intro o' m' f' hm'
      by_cases ho : o' = o
      · subst ho
        rw [setExp_mocks, setMock_mocks_same] at hm'; cases hm'
        simp only
        by_cases hf : f' = f
        · subst hf; simp only [if_true]
          rw [List.nodup_append]
          refine ⟨h.satNodup _ m _ hm, by simp, ?_⟩
          intro a ha b hb hab
          simp at hb; subst hb; subst hab
          exact hnotsat _ m _ hm ha
        · simp only [hf, if_false]; exact h.satNodup _ m _ hm
      · rw [hM o' ho] at hm'; exact h.satNodup o' m' f' hm'
    · intro e' he'
      have hn : ((((w.retirePredecessors (.exp e) x.seqs).retireOwn (.exp e) x.seqs).setMock o
        { m with active := fun g => if g = f then (m.active f).filter (· ≠ e) else m.active g,
                 saturated := fun g => if g = f then m.saturated f ++ [e] else m.saturated g }).setExp e
        { x with count := x.hi, link := .saturated }).nextE = w.nextE := fr3
      rw [hn] at he'
      have hne : e' ≠ e := by
        intro h'; subst h'; rw [h.fresh e' he'] at hx; cases hx
      rw [hE e' hne]; exact h.fresh e' he'
    · intro e' y hy
      by_cases hee : e' = e
      · subst hee
        rw [setExp_exps_same] at hy; cases hy
        exact ⟨Nat.le_refl _, hc2, fun hl => (by cases hl), fun _ => rfl⟩
      · rw [hE e' hee] at hy; exact h.counters e' y hy
    · intro e' y hy hd
      by_cases hee : e' = e
      · subst hee
        rw [setExp_exps_same] at hy; cases hy
        simp only at hd; rw [halive] at hd; cases hd
      · rw [hE e' hee] at hy; exact h.deadExp e' y hy hd
    · intro e' y hy
      by_cases hee : e' = e
      · subst hee
        rw [setExp_exps_same] at hy; cases hy
        exact h.seqsNodup e' x hx
      · rw [hE e' hee] at hy; exact h.seqsNodup e' y hy
    · intro o' ho'
      have hno : ((((w.retirePredecessors (.exp e) x.seqs).retireOwn (.exp e) x.seqs).setMock o
        { m with active := fun g => if g = f then (m.active f).filter (· ≠ e) else m.active g,
                 saturated := fun g => if g = f then m.saturated f ++ [e] else m.saturated g }).setExp e
        { x with count := x.hi, link := .saturated }).nextO = w.nextO := by
        show ((w.retirePredecessors (.exp e) x.seqs).retireOwn (.exp e) x.seqs).nextO = w.nextO
        unfold World.retireOwn World.retirePredecessors
        rw [foldl_setSeqPending_nextO, foldl_setSeqPending_nextO]
      rw [hno] at ho'
      have hne : o' ≠ o := by intro h'; subst h'; rw [h.freshMock _ ho'] at hm; cases hm
      rw [hM o' hne]; exact h.freshMock o' ho'
    · intro e' y hy
      have hno : ((((w.retirePredecessors (.exp e) x.seqs).retireOwn (.exp e) x.seqs).setMock o
        { m with active := fun g => if g = f then (m.active f).filter (· ≠ e) else m.active g,
                 saturated := fun g => if g = f then m.saturated f ++ [e] else m.saturated g }).setExp e
        { x with count := x.hi, link := .saturated }).nextO = w.nextO := by
        show ((w.retirePredecessors (.exp e) x.seqs).retireOwn (.exp e) x.seqs).nextO = w.nextO
        unfold World.retireOwn World.retirePredecessors
        rw [foldl_setSeqPending_nextO, foldl_setSeqPending_nextO]
      rw [hno]
      by_cases hee : e' = e
      · subst hee
        rw [setExp_exps_same] at hy; cases hy
        exact h.objBound e' x hx
      · rw [hE e' hee] at hy; exact h.objBound e' y hy
  · simp only [hsat, if_false]
    have hE : ∀ e', e' ≠ e → ((w.retirePredecessors (.exp e) x.seqs).setExp e { x with count := x.count + 1 }).exps e' = w.exps e' := by
      intro e' hne; rw [setExp_exps_other _ _ hne, fr4]
    have hMM : ((w.retirePredecessors (.exp e) x.seqs).setExp e { x with count := x.count + 1 }).mocks = w.mocks := by
      rw [setExp_mocks, fr5]
    refine ⟨?_, ?_, ?_, ?_, ?_, ?_, ?_, ?_, ?_, ?_⟩
    · intro o' m' f' e' hm' hin'
      rw [hMM] at hm'
      obtain ⟨y, hy, r⟩ := h.act o' m' f' e' hm' hin'
      by_cases hee : e' = e
      · subst hee; rw [hx] at hy; cases hy
        exact ⟨_, setExp_exps_same _ _ _, r⟩
      · exact ⟨y, by rw [hE e' hee]; exact hy, r⟩
    · intro o' m' f' e' hm' hin'
      rw [hMM] at hm'
      obtain ⟨y, hy, r⟩ := h.sat o' m' f' e' hm' hin'
      by_cases hee : e' = e
      · subst hee; rw [hx] at hy; cases hy
        exact ⟨_, setExp_exps_same _ _ _, r⟩
      · exact ⟨y, by rw [hE e' hee]; exact hy, r⟩
    · intro o' m' f' hm'; rw [hMM] at hm'; exact h.actNodup o' m' f' hm'
    · intro o' m' f' hm'; rw [hMM] at hm'; exact h.satNodup o' m' f' hm'
    · intro e' he'
      have hn : ((w.retirePredecessors (.exp e) x.seqs).setExp e { x with count := x.count + 1 }).nextE = w.nextE := fr6
      rw [hn] at he'
      have hne : e' ≠ e := by
        intro h'; subst h'; rw [h.fresh e' he'] at hx; cases hx
      rw [hE e' hne]; exact h.fresh e' he'
    · intro e' y hy
      by_cases hee : e' = e
      · subst hee
        rw [setExp_exps_same] at hy; cases hy
        refine ⟨by simp only; omega, hc2, fun _ => Or.inl (by simp only; omega), fun hl => ?_⟩
        simp only at hl; rw [hlink] at hl; cases hl
      · rw [hE e' hee] at hy; exact h.counters e' y hy
    · intro e' y hy hd
      by_cases hee : e' = e
      · subst hee
        rw [setExp_exps_same] at hy; cases hy
        simp only at hd; rw [halive] at hd; cases hd
      · rw [hE e' hee] at hy; exact h.deadExp e' y hy hd
    · intro e' y hy
      by_cases hee : e' = e
      · subst hee
        rw [setExp_exps_same] at hy; cases hy
        exact h.seqsNodup e' x hx
      · rw [hE e' hee] at hy; exact h.seqsNodup e' y hy
    · intro o' ho'
      have hno : ((w.retirePredecessors (.exp e) x.seqs).setExp e { x with count := x.count + 1 }).nextO = w.nextO := by
        show (w.retirePredecessors (.exp e) x.seqs).nextO = w.nextO
        unfold World.retirePredecessors; rw [foldl_setSeqPending_nextO]
      rw [hno] at ho'
      rw [hMM]; exact h.freshMock o' ho'
    · intro e' y hy
      have hno : ((w.retirePredecessors (.exp e) x.seqs).setExp e { x with count := x.count + 1 }).nextO = w.nextO := by
        show (w.retirePredecessors (.exp e) x.seqs).nextO = w.nextO
        unfold World.retirePredecessors; rw [foldl_setSeqPending_nextO]
      rw [hno]
      by_cases hee : e' = e
      · subst hee
        rw [setExp_exps_same] at hy; cases hy
        exact h.objBound e' x hx
      · rw [hE e' hee] at hy; exact h.objBound e' y hy

end Tromp

namespace Tromp
open World

/-- where a live expectation can be listed at all. -/
theorem WF.listed_only_at_home {w : World} (h : WF w) (e : Nat) (x : Exp) (hx : w.exps e = some x)
    (o' : Nat) (m' : Mock) (f' : Nat) (hm' : w.mocks o' = some m') (hin : e ∈ m'.active f' ∨ e ∈ m'.saturated f') :
    o' = x.obj ∧ f' = x.fn ∧ x.link ≠ .unlinked := by
  rcases hin with hin | hin
  · obtain ⟨y, hy, _, ho, hf, hl⟩ := h.act o' m' f' e hm' hin
    rw [hx] at hy; cases hy
    exact ⟨ho.symm, hf.symm, by rw [hl]; simp⟩
  · obtain ⟨y, hy, _, ho, hf, hl⟩ := h.sat o' m' f' e hm' hin
    rw [hx] at hy; cases hy
    exact ⟨ho.symm, hf.symm, by rw [hl]; simp⟩

/-- `unlinkExp` removes `e` from every list and changes nothing else. -/
theorem WF.unlink_lists {w : World} (h : WF w) (e : Nat) (x : Exp) (hx : w.exps e = some x) :
    (w.unlinkExp e x).exps = w.exps ∧ (w.unlinkExp e x).nextE = w.nextE ∧ (w.unlinkExp e x).nextO = w.nextO ∧
    ∀ o' m', (w.unlinkExp e x).mocks o' = some m' →
      ∃ m0, w.mocks o' = some m0 ∧
        ∀ f', m'.active f' = (m0.active f').filter (· ≠ e) ∧ m'.saturated f' = (m0.saturated f').filter (· ≠ e) := by
  have hnoop : ∀ o' m0, w.mocks o' = some m0 → (o' ≠ x.obj ∨ x.link = .unlinked) →
      ∀ f', m0.active f' = (m0.active f').filter (· ≠ e) ∧ m0.saturated f' = (m0.saturated f').filter (· ≠ e) := by
    intro o' m0 hm0 hcase f'
    have hnot : e ∉ m0.active f' ∧ e ∉ m0.saturated f' := by
      constructor
      · intro hin
        obtain ⟨h1, _, h3⟩ := h.listed_only_at_home e x hx o' m0 f' hm0 (Or.inl hin)
        rcases hcase with hc | hc
        · exact hc h1
        · exact h3 hc
      · intro hin
        obtain ⟨h1, _, h3⟩ := h.listed_only_at_home e x hx o' m0 f' hm0 (Or.inr hin)
        rcases hcase with hc | hc
        · exact hc h1
        · exact h3 hc
    constructor
    · rw [List.filter_eq_self.mpr]; intro a ha; simp; exact fun h' => hnot.1 (h' ▸ ha)
    · rw [List.filter_eq_self.mpr]; intro a ha; simp; exact fun h' => hnot.2 (h' ▸ ha)
  unfold World.unlinkExp
  cases hm : w.mocks x.obj with
  | none =>
    refine ⟨rfl, rfl, rfl, ?_⟩
    intro o' m' hm'
    refine ⟨m', hm', hnoop o' m' hm' (Or.inl ?_)⟩
    intro ho; subst ho; rw [hm] at hm'; cases hm'
  | some m =>
    simp only
    by_cases hl : x.link = .unlinked
    · simp only [hl, beq_self_eq_true, if_true, true_and]
      intro o' m' hm'
      exact ⟨m', hm', hnoop o' m' hm' (Or.inr hl)⟩
    · have hl' : (x.link == Link.unlinked) = false := by simpa using hl
      simp only [hl', Bool.false_eq_true, if_false]
      refine ⟨rfl, rfl, rfl, ?_⟩
      intro o' m' hm'
      by_cases ho : o' = x.obj
      · subst ho
        rw [setMock_mocks_same] at hm'; cases hm'
        refine ⟨m, hm, ?_⟩
        intro f'
        simp only
        by_cases hf : f' = x.fn
        · subst hf; simp
        · simp only [hf, if_false]
          have hnot : e ∉ m.active f' ∧ e ∉ m.saturated f' := by
            constructor
            · intro hin; exact hf (h.listed_only_at_home e x hx _ m f' hm (Or.inl hin)).2.1
            · intro hin; exact hf (h.listed_only_at_home e x hx _ m f' hm (Or.inr hin)).2.1
          constructor
          · rw [List.filter_eq_self.mpr]; intro a ha; simp; exact fun h' => hnot.1 (h' ▸ ha)
          · rw [List.filter_eq_self.mpr]; intro a ha; simp; exact fun h' => hnot.2 (h' ▸ ha)
      · rw [setMock_mocks_other _ _ ho] at hm'
        exact ⟨m', hm', hnoop o' m' hm' (Or.inl ho)⟩

/-- ending the lifetime of an expectation. -/
theorem WF.release {w : World} (h : WF w) (e : Nat) (x : Exp) (hx : w.exps e = some x) :
    WF (w.releaseExp e x).1 := by
  obtain ⟨u1, u2, u5, u4⟩ := h.unlink_lists e x hx
  unfold World.releaseExp
  simp only
  have hE : ∀ e', e' ≠ e → ((((w.unlinkExp e x).retireOwn (.exp e) x.seqs).setExp e
      { x with alive := false, link := .unlinked, reported := x.reported || isUnfulfilled x }).exps e') = w.exps e' := by
    intro e' hne
    rw [setExp_exps_other _ _ hne, retireOwn_exps, u1]
  have hM : (((w.unlinkExp e x).retireOwn (.exp e) x.seqs).setExp e
      { x with alive := false, link := .unlinked, reported := x.reported || isUnfulfilled x }).mocks = (w.unlinkExp e x).mocks := by
    rw [setExp_mocks, retireOwn_mocks]
  refine ⟨?_, ?_, ?_, ?_, ?_, ?_, ?_, ?_, ?_, ?_⟩
  · intro o' m' f' e' hm' hin
    rw [hM] at hm'
    obtain ⟨m0, hm0, hl⟩ := u4 o' m' hm'
    rw [(hl f').1, List.mem_filter] at hin
    have hne : e' ≠ e := by simpa using hin.2
    obtain ⟨y, hy, r⟩ := h.act o' m0 f' e' hm0 hin.1
    exact ⟨y, by rw [hE e' hne]; exact hy, r⟩
  · intro o' m' f' e' hm' hin
    rw [hM] at hm'
    obtain ⟨m0, hm0, hl⟩ := u4 o' m' hm'
    rw [(hl f').2, List.mem_filter] at hin
    have hne : e' ≠ e := by simpa using hin.2
    obtain ⟨y, hy, r⟩ := h.sat o' m0 f' e' hm0 hin.1
    exact ⟨y, by rw [hE e' hne]; exact hy, r⟩
  · intro o' m' f' hm'
    rw [hM] at hm'
    obtain ⟨m0, hm0, hl⟩ := u4 o' m' hm'
    rw [(hl f').1]; exact (h.actNodup o' m0 f' hm0).filter _
  · intro o' m' f' hm'
    rw [hM] at hm'
    obtain ⟨m0, hm0, hl⟩ := u4 o' m' hm'
    rw [(hl f').2]; exact (h.satNodup o' m0 f' hm0).filter _
  · intro e' he'
    have hn : (((w.unlinkExp e x).retireOwn (.exp e) x.seqs).setExp e
      { x with alive := false, link := .unlinked, reported := x.reported || isUnfulfilled x }).nextE = w.nextE := by
      show ((w.unlinkExp e x).retireOwn (.exp e) x.seqs).nextE = w.nextE
      unfold World.retireOwn; rw [foldl_setSeqPending_nextE, u2]
    rw [hn] at he'
    have hne : e' ≠ e := by intro h'; subst h'; rw [h.fresh e' he'] at hx; cases hx
    rw [hE e' hne]; exact h.fresh e' he'
  · intro e' y hy
    by_cases hee : e' = e
    · subst hee
      rw [setExp_exps_same] at hy; cases hy
      obtain ⟨c1, c2, _, _⟩ := h.counters e' x hx
      exact ⟨c1, c2, fun hl => (by cases hl), fun hl => (by cases hl)⟩
    · rw [hE e' hee] at hy; exact h.counters e' y hy
  · intro e' y hy hd
    by_cases hee : e' = e
    · subst hee
      rw [setExp_exps_same] at hy; cases hy; rfl
    · rw [hE e' hee] at hy; exact h.deadExp e' y hy hd
  · intro e' y hy
    by_cases hee : e' = e
    · subst hee
      rw [setExp_exps_same] at hy; cases hy; exact h.seqsNodup e' x hx
    · rw [hE e' hee] at hy; exact h.seqsNodup e' y hy
  · intro o' ho'
    have hno : (((w.unlinkExp e x).retireOwn (.exp e) x.seqs).setExp e
      { x with alive := false, link := .unlinked, reported := x.reported || isUnfulfilled x }).nextO = w.nextO := by
      show ((w.unlinkExp e x).retireOwn (.exp e) x.seqs).nextO = w.nextO
      unfold World.retireOwn; rw [foldl_setSeqPending_nextO, u5]
    rw [hno] at ho'
    rw [hM]
    cases hmm : (w.unlinkExp e x).mocks o' with
    | none => rfl
    | some m' =>
      obtain ⟨m0, hm0, _⟩ := u4 o' m' hmm
      rw [h.freshMock o' ho'] at hm0; cases hm0
  · intro e' y hy
    have hno : (((w.unlinkExp e x).retireOwn (.exp e) x.seqs).setExp e
      { x with alive := false, link := .unlinked, reported := x.reported || isUnfulfilled x }).nextO = w.nextO := by
      show ((w.unlinkExp e x).retireOwn (.exp e) x.seqs).nextO = w.nextO
      unfold World.retireOwn; rw [foldl_setSeqPending_nextO, u5]
    rw [hno]
    by_cases hee : e' = e
    · subst hee
      rw [setExp_exps_same] at hy; cases hy; exact h.objBound e' x hx
    · rw [hE e' hee] at hy; exact h.objBound e' y hy

end Tromp

namespace Tromp
open World

/-- moving a mock object: its expectations — active and saturated — belong to the new object. -/
theorem WF.move {w : World} (h : WF w) (o o' : Nat) (m : Mock) (hm : w.mocks o = some m) (ho' : o' = w.nextO) :
    WF (w.moveMock o o' m) := by
  have hoo : o ≠ o' := by
    intro h'; subst h'; rw [h.freshMock o (by omega)] at hm; cases hm
  have hnone : w.mocks o' = none := h.freshMock o' (by omega)
  have hE : ∀ e, (w.moveMock o o' m).exps e =
        (w.exps e).map (fun (x : Exp) => if x.obj = o && x.link != Link.unlinked then { x with obj := o' } else x) := by
    intro e; rfl
  have hMo : (w.moveMock o o' m).mocks o = some { m with active := fun _ => [], saturated := fun _ => [] } := by
    simp [World.moveMock]
  have hMo' : (w.moveMock o o' m).mocks o' = some { m with alive := true } := by
    unfold World.moveMock
    simp only
    rw [setMock_mocks_other _ _ (Ne.symm hoo)]; simp
  have hMother : ∀ p, p ≠ o → p ≠ o' → (w.moveMock o o' m).mocks p = w.mocks p := by
    intro p h1 h2
    unfold World.moveMock
    simp only
    rw [setMock_mocks_other _ _ h1, setMock_mocks_other _ _ h2]
  have hNO : (w.moveMock o o' m).nextO = o' + 1 := rfl
  refine ⟨?_, ?_, ?_, ?_, ?_, ?_, ?_, ?_, ?_, ?_⟩
  · intro p mp f e hmp hin
    by_cases hp : p = o
    · subst hp; rw [hMo] at hmp; cases hmp; simp at hin
    · by_cases hp' : p = o'
      · subst hp'; rw [hMo'] at hmp; cases hmp
        obtain ⟨x, hx, h1, h2, h3, h4⟩ := h.act o m f e hm hin
        refine ⟨{ x with obj := p }, ?_, h1, rfl, h3, h4⟩
        rw [hE, hx]; simp [h2, h4]
      · rw [hMother p hp hp'] at hmp
        obtain ⟨x, hx, h1, h2, h3, h4⟩ := h.act p mp f e hmp hin
        refine ⟨x, ?_, h1, h2, h3, h4⟩
        rw [hE, hx]; simp [h2, hp]
  · intro p mp f e hmp hin
    by_cases hp : p = o
    · subst hp; rw [hMo] at hmp; cases hmp; simp at hin
    · by_cases hp' : p = o'
      · subst hp'; rw [hMo'] at hmp; cases hmp
        obtain ⟨x, hx, h1, h2, h3, h4⟩ := h.sat o m f e hm hin
        refine ⟨{ x with obj := p }, ?_, h1, rfl, h3, h4⟩
        rw [hE, hx]; simp [h2, h4]
      · rw [hMother p hp hp'] at hmp
        obtain ⟨x, hx, h1, h2, h3, h4⟩ := h.sat p mp f e hmp hin
        refine ⟨x, ?_, h1, h2, h3, h4⟩
        rw [hE, hx]; simp [h2, hp]
  · intro p mp f hmp
    by_cases hp : p = o
    · subst hp; rw [hMo] at hmp; cases hmp; simp
    · by_cases hp' : p = o'
      · subst hp'; rw [hMo'] at hmp; cases hmp; exact h.actNodup o m f hm
      · rw [hMother p hp hp'] at hmp; exact h.actNodup p mp f hmp
  · intro p mp f hmp
    by_cases hp : p = o
    · subst hp; rw [hMo] at hmp; cases hmp; simp
    · by_cases hp' : p = o'
      · subst hp'; rw [hMo'] at hmp; cases hmp; exact h.satNodup o m f hm
      · rw [hMother p hp hp'] at hmp; exact h.satNodup p mp f hmp
  · intro e he
    rw [hE, h.fresh e he]; rfl
  · intro e y hy
    rw [hE] at hy
    cases hx : w.exps e with
    | none => rw [hx] at hy; cases hy
    | some x =>
      rw [hx] at hy; simp only [Option.map_some, Option.some.injEq] at hy
      subst hy
      have := h.counters e x hx
      split <;> exact this
  · intro e y hy hd
    rw [hE] at hy
    cases hx : w.exps e with
    | none => rw [hx] at hy; cases hy
    | some x =>
      rw [hx] at hy; simp only [Option.map_some, Option.some.injEq] at hy
      subst hy
      have := h.deadExp e x hx
      split at hd <;> split <;> simp_all
  · intro e y hy
    rw [hE] at hy
    cases hx : w.exps e with
    | none => rw [hx] at hy; cases hy
    | some x =>
      rw [hx] at hy; simp only [Option.map_some, Option.some.injEq] at hy
      subst hy
      have := h.seqsNodup e x hx
      split <;> exact this
  · intro p hp
    rw [hNO] at hp
    have hp1 : p ≠ o := by
      intro h'; subst h'
      rw [h.freshMock p (by omega)] at hm; cases hm
    have hp2 : p ≠ o' := by omega
    rw [hMother p hp1 hp2]
    exact h.freshMock p (by omega)
  · intro e y hy
    rw [hE] at hy
    cases hx : w.exps e with
    | none => rw [hx] at hy; cases hy
    | some x =>
      rw [hx] at hy; simp only [Option.map_some, Option.some.injEq] at hy
      subst hy
      have hb := h.objBound e x hx
      rw [hNO]
      split
      · simp
      · omega

end Tromp

namespace Tromp
open World

/-- `x'` is `x` except possibly for `reported` and for being detached. -/
def SameButLink (x x' : Exp) : Prop :=
  x'.alive = x.alive ∧ x'.obj = x.obj ∧ x'.fn = x.fn ∧ x'.count = x.count ∧ x'.hi = x.hi ∧ x'.lo = x.lo ∧
  x'.seqs = x.seqs ∧ (x'.link = x.link ∨ x'.link = .unlinked)

theorem SameButLink.refl (x : Exp) : SameButLink x x := ⟨rfl, rfl, rfl, rfl, rfl, rfl, rfl, Or.inl rfl⟩

theorem SameButLink.trans {x y z : Exp} (h1 : SameButLink x y) (h2 : SameButLink y z) : SameButLink x z := by
  obtain ⟨a1, a2, a3, a4, a5, a6, a7, a8⟩ := h1
  obtain ⟨b1, b2, b3, b4, b5, b6, b7, b8⟩ := h2
  refine ⟨b1.trans a1, b2.trans a2, b3.trans a3, b4.trans a4, b5.trans a5, b6.trans a6, b7.trans a7, ?_⟩
  rcases b8 with b8 | b8
  · rcases a8 with a8 | a8
    · exact Or.inl (b8.trans a8)
    · exact Or.inr (b8.trans a8)
  · exact Or.inr b8

/-- how two worlds are related by detaching the expectations in `es` (and only them). -/
structure Detached (w w' : World) (es : List Nat) : Prop where
  mocks : w'.mocks = w.mocks
  nextE : w'.nextE = w.nextE
  nextO : w'.nextO = w.nextO
  none_ : ∀ e, w.exps e = none → w'.exps e = none
  some_ : ∀ e x, w.exps e = some x → ∃ x', w'.exps e = some x' ∧ SameButLink x x' ∧
            (e ∈ es → x'.link = .unlinked) ∧ (e ∉ es → x' = x)

theorem Detached.refl (w : World) : Detached w w [] :=
  ⟨rfl, rfl, rfl, fun _ h => h, fun e x hx => ⟨x, hx, SameButLink.refl x, fun h => (by cases h), fun _ => rfl⟩⟩

theorem Detached.trans {w1 w2 w3 : World} {a b : List Nat} (h1 : Detached w1 w2 a) (h2 : Detached w2 w3 b) :
    Detached w1 w3 (a ++ b) := by
  refine ⟨h2.mocks.trans h1.mocks, h2.nextE.trans h1.nextE, h2.nextO.trans h1.nextO, ?_, ?_⟩
  · intro e he; exact h2.none_ e (h1.none_ e he)
  · intro e x hx
    obtain ⟨y, hy, s1, l1, u1⟩ := h1.some_ e x hx
    obtain ⟨z, hz, s2, l2, u2⟩ := h2.some_ e y hy
    refine ⟨z, hz, s1.trans s2, ?_, ?_⟩
    · intro hin
      rcases List.mem_append.mp hin with hin | hin
      · have := l1 hin
        rcases s2.2.2.2.2.2.2.2 with h' | h'
        · rw [h', this]
        · exact h'
      · exact l2 hin
    · intro hnin
      have ha : e ∉ a := fun h' => hnin (List.mem_append.mpr (Or.inl h'))
      have hb : e ∉ b := fun h' => hnin (List.mem_append.mpr (Or.inr h'))
      rw [u2 hb, u1 ha]

theorem decomStep_detached (w : World) (evs : List Ev) (a : Nat) : Detached w (decomStep (w, evs) a).1 [a] := by
  unfold decomStep
  cases ha : w.exps a with
  | none => simp only [ha]; exact ⟨rfl, rfl, rfl, fun _ h => h, fun e x hx => ⟨x, hx, SameButLink.refl x,
      fun hin => (by simp at hin; subst hin; rw [ha] at hx; cases hx), fun _ => rfl⟩⟩
  | some xa =>
    simp only [ha]
    split
    all_goals
      refine ⟨rfl, rfl, rfl, ?_, ?_⟩
      · intro e he
        have : e ≠ a := by intro h'; subst h'; rw [ha] at he; cases he
        rw [setExp_exps_other _ _ this]; exact he
      · intro e x hx
        by_cases hea : e = a
        · subst hea
          rw [ha] at hx; cases hx
          exact ⟨_, setExp_exps_same _ _ _, ⟨rfl, rfl, rfl, rfl, rfl, rfl, rfl, Or.inr rfl⟩, fun _ => rfl,
            fun hn => absurd (by simp) hn⟩
        · exact ⟨x, by rw [setExp_exps_other _ _ hea]; exact hx, SameButLink.refl x,
            fun hin => absurd (by simpa using hin) hea, fun _ => rfl⟩

theorem decommission_fold_detached (es : List Nat) : ∀ (w : World) (evs : List Ev),
    Detached w (es.foldl decomStep (w, evs)).1 es := by
  induction es with
  | nil => intro w evs; exact Detached.refl w
  | cons a es ih =>
    intro w evs
    simp only [List.foldl]
    have h1 := decomStep_detached w evs a
    have h2 := ih (decomStep (w, evs) a).1 (decomStep (w, evs) a).2
    exact Detached.trans h1 h2

theorem decommission_detached (w : World) (es : List Nat) : Detached w (w.decommission es).1 es :=
  decommission_fold_detached es w []

/-- all expectations on the lists of a mock, in the order `~expectations` visits them. -/
def allListed (m : Mock) (fns : List Nat) : List Nat := fns.flatMap (fun f => m.active f ++ m.saturated f)

theorem killMock_fold_detached (m : Mock) (fns : List Nat) : ∀ (w : World) (evs : List Ev),
    Detached w (fns.foldl (fun (acc : World × List Ev) f =>
        let (w, evs) := acc
        let (w1, e1) := w.decommission (m.active f)
        let (w2, e2) := w1.decommission (m.saturated f)
        (w2, evs ++ e1 ++ e2)) (w, evs)).1 (allListed m fns) := by
  induction fns with
  | nil => intro w evs; exact Detached.refl w
  | cons f fns ih =>
    intro w evs
    simp only [List.foldl, allListed, List.flatMap_cons]
    have h1 := decommission_detached w (m.active f)
    have h2 := decommission_detached (w.decommission (m.active f)).1 (m.saturated f)
    have h3 := ih ((w.decommission (m.active f)).1.decommission (m.saturated f)).1
      (evs ++ (w.decommission (m.active f)).2 ++ ((w.decommission (m.active f)).1.decommission (m.saturated f)).2)
    have := Detached.trans (Detached.trans h1 h2) h3
    simpa [allListed] using this

/-- destroying a mock object. -/
theorem WF.kill {w : World} (h : WF w) (o : Nat) (m : Mock) (hm : w.mocks o = some m) : WF (w.killMock o m).1 := by
  have hd := killMock_fold_detached m (List.range nFns).reverse w []
  unfold World.killMock
  simp only
  generalize hwk : ((List.range nFns).reverse.foldl (fun (acc : World × List Ev) f =>
        let (w, evs) := acc
        let (w1, e1) := w.decommission (m.active f)
        let (w2, e2) := w1.decommission (m.saturated f)
        (w2, evs ++ e1 ++ e2)) (w, [])) = res at hd
  obtain ⟨wk, evk⟩ := res
  simp only at hd ⊢
  -- an expectation listed on another mock is not on the lists of `o`
  have hnot : ∀ p mp f e, p ≠ o → w.mocks p = some mp → (e ∈ mp.active f ∨ e ∈ mp.saturated f) → ∀ x, w.exps e = some x →
      e ∉ allListed m (List.range nFns).reverse := by
    intro p mp f e hp hmp hin x hx hall
    obtain ⟨f', _, hin'⟩ := List.mem_flatMap.mp hall
    have h1 := (h.listed_only_at_home e x hx p mp f hmp hin).1
    have h2 := (h.listed_only_at_home e x hx o m f' hm (List.mem_append.mp hin')).1
    exact hp (h1.trans h2.symm)
  refine ⟨?_, ?_, ?_, ?_, ?_, ?_, ?_, ?_, ?_, ?_⟩
  · intro p mp f e hmp hin
    by_cases hp : p = o
    · subst hp; rw [setMock_mocks_same] at hmp; cases hmp; simp at hin
    · rw [setMock_mocks_other _ _ hp, hd.mocks] at hmp
      obtain ⟨x, hx, r⟩ := h.act p mp f e hmp hin
      obtain ⟨x', hx', _, _, hu⟩ := hd.some_ e x hx
      have := hu (hnot p mp f e hp hmp (Or.inl hin) x hx)
      subst this
      exact ⟨x', by rw [setMock_exps]; exact hx', r⟩
  · intro p mp f e hmp hin
    by_cases hp : p = o
    · subst hp; rw [setMock_mocks_same] at hmp; cases hmp; simp at hin
    · rw [setMock_mocks_other _ _ hp, hd.mocks] at hmp
      obtain ⟨x, hx, r⟩ := h.sat p mp f e hmp hin
      obtain ⟨x', hx', _, _, hu⟩ := hd.some_ e x hx
      have := hu (hnot p mp f e hp hmp (Or.inr hin) x hx)
      subst this
      exact ⟨x', by rw [setMock_exps]; exact hx', r⟩
  · intro p mp f hmp
    by_cases hp : p = o
    · subst hp; rw [setMock_mocks_same] at hmp; cases hmp; simp
    · rw [setMock_mocks_other _ _ hp, hd.mocks] at hmp; exact h.actNodup p mp f hmp
  · intro p mp f hmp
    by_cases hp : p = o
    · subst hp; rw [setMock_mocks_same] at hmp; cases hmp; simp
    · rw [setMock_mocks_other _ _ hp, hd.mocks] at hmp; exact h.satNodup p mp f hmp
  · intro e he
    have hn : (wk.setMock o { m with alive := false, active := fun _ => [], saturated := fun _ => [] }).nextE = w.nextE := hd.nextE
    rw [hn] at he
    rw [setMock_exps]; exact hd.none_ e (h.fresh e he)
  · intro e y hy
    rw [setMock_exps] at hy
    cases hx : w.exps e with
    | none => rw [hd.none_ e hx] at hy; cases hy
    | some x =>
      obtain ⟨x', hx', ⟨_, _, _, s4, s5, s6, _, s8⟩, _, _⟩ := hd.some_ e x hx
      rw [hx'] at hy; cases hy
      obtain ⟨c1, c2, c3, c4⟩ := h.counters e x hx
      rw [s4, s5, s6]
      refine ⟨c1, c2, fun hl => ?_, fun hl => ?_⟩
      · rcases s8 with s8 | s8
        · exact c3 (s8 ▸ hl)
        · rw [s8] at hl; cases hl
      · rcases s8 with s8 | s8
        · exact c4 (s8 ▸ hl)
        · rw [s8] at hl; cases hl
  · intro e y hy hdead
    rw [setMock_exps] at hy
    cases hx : w.exps e with
    | none => rw [hd.none_ e hx] at hy; cases hy
    | some x =>
      obtain ⟨x', hx', ⟨s1, _, _, _, _, _, _, s8⟩, _, _⟩ := hd.some_ e x hx
      rw [hx'] at hy; cases hy
      rcases s8 with s8 | s8
      · rw [s8]; exact h.deadExp e x hx (s1 ▸ hdead)
      · exact s8
  · intro e y hy
    rw [setMock_exps] at hy
    cases hx : w.exps e with
    | none => rw [hd.none_ e hx] at hy; cases hy
    | some x =>
      obtain ⟨x', hx', ⟨_, _, _, _, _, _, s7, _⟩, _, _⟩ := hd.some_ e x hx
      rw [hx'] at hy; cases hy
      rw [s7]; exact h.seqsNodup e x hx
  · intro p hp
    have hn : (wk.setMock o { m with alive := false, active := fun _ => [], saturated := fun _ => [] }).nextO = w.nextO := hd.nextO
    rw [hn] at hp
    have hpo : p ≠ o := by intro h'; subst h'; rw [h.freshMock p hp] at hm; cases hm
    rw [setMock_mocks_other _ _ hpo, hd.mocks]; exact h.freshMock p hp
  · intro e y hy
    have hn : (wk.setMock o { m with alive := false, active := fun _ => [], saturated := fun _ => [] }).nextO = w.nextO := hd.nextO
    rw [hn]
    rw [setMock_exps] at hy
    cases hx : w.exps e with
    | none => rw [hd.none_ e hx] at hy; cases hy
    | some x =>
      obtain ⟨x', hx', ⟨_, s2, _, _, _, _, _, _⟩, _, _⟩ := hd.some_ e x hx
      rw [hx'] at hy; cases hy
      rw [s2]; exact h.objBound e x hx

end Tromp

namespace Tromp
open World

/-- the part of the world the invariant speaks of is untouched. -/
def Frame (w w' : World) : Prop :=
  w'.exps = w.exps ∧ w'.mocks = w.mocks ∧ w'.nextE = w.nextE ∧ w'.nextO = w.nextO

theorem Frame.refl (w : World) : Frame w w := ⟨rfl, rfl, rfl, rfl⟩
theorem Frame.trans {a b c : World} (h1 : Frame a b) (h2 : Frame b c) : Frame a c :=
  ⟨h2.1.trans h1.1, h2.2.1.trans h1.2.1, h2.2.2.1.trans h1.2.2.1, h2.2.2.2.trans h1.2.2.2⟩
theorem WF.frame {w w' : World} (h : WF w) (f : Frame w w') : WF w' := h.of_frame f.1 f.2.1 f.2.2.1 f.2.2.2

theorem Frame.setSeqPending (w : World) (s : Nat) (f : List Owner → List Owner) : Frame w (w.setSeqPending s f) := by
  unfold World.setSeqPending
  split <;> exact ⟨rfl, rfl, rfl, rfl⟩

theorem Frame.setMons (w : World) (f : Nat → Option Mon) : Frame w { w with mons := f } := ⟨rfl, rfl, rfl, rfl⟩
theorem Frame.setWatched (w : World) (f : Nat → Option Watched) : Frame w { w with watched := f } := ⟨rfl, rfl, rfl, rfl⟩

theorem Frame.foldSeq (w : World) (ss : List Nat) (f : Nat → List Owner → List Owner) :
    Frame w (ss.foldl (fun w s => w.setSeqPending s (f s)) w) := by
  induction ss generalizing w with
  | nil => exact Frame.refl w
  | cons s ss ih =>
    simp only [List.foldl]
    exact Frame.trans (Frame.setSeqPending w s (f s)) (ih (w.setSeqPending s (f s)))

theorem Frame.retirePredecessors (w : World) (o : Owner) (ss : List Nat) : Frame w (w.retirePredecessors o ss) :=
  Frame.foldSeq w ss (fun _ => retireUntil o)
theorem Frame.retireOwn (w : World) (o : Owner) (ss : List Nat) : Frame w (w.retireOwn o ss) :=
  Frame.foldSeq w ss (fun _ l => l.filter (· ≠ o))
theorem Frame.register (w : World) (o : Owner) (ss : List Nat) : Frame w (w.register o ss) :=
  Frame.foldSeq w ss (fun _ l => l ++ [o])

theorem Frame.notify (w : World) (m : Nat) : Frame w (w.notify m).1 := by
  unfold World.notify
  cases w.mons m with
  | none => exact Frame.refl w
  | some x =>
    simp only
    exact Frame.trans (Frame.trans (⟨rfl, rfl, rfl, rfl⟩ : Frame w { w with mons := upd w.mons m { x with died := true } })
      (Frame.retirePredecessors _ _ _)) (Frame.retireOwn _ _ _)

theorem Frame.notifyFold (ms : List Nat) : ∀ (w0 : World) (evs : List Ev),
    Frame w0 (ms.foldl (fun (acc : World × List Ev) m =>
        let (w1, e1) := acc.1.notify m
        (w1, acc.2 ++ e1)) (w0, evs)).1 := by
  induction ms with
  | nil => intro w0 evs; exact Frame.refl w0
  | cons m ms ih =>
    intro w0 evs
    simp only [List.foldl]
    exact Frame.trans (Frame.notify w0 m) (ih _ _)

/-- a call to a mock function. -/
theorem WF.callFn {w : World} (h : WF w) (o f : Nat) (a : Args) : WF (w.callFn o f a).1 := by
  cases hm : w.mocks o with
  | none => unfold World.callFn; simp only [hm]; exact h
  | some m =>
    have hex : ∀ e ∈ m.active f, ∃ x, w.exps e = some x := fun e he => by
      obtain ⟨x, hx, _⟩ := h.act o m f e hm he; exact ⟨x, hx⟩
    cases callFn_cases w o f a m hm hex with
    | noMatch hfind heq =>
      rw [heq]; simp only
      unfold World.reportMismatch
      simp only
      split
      · exact h.markReported _
      · exact h
    | forbidden e x hfind hx hhi heq => rw [heq]; exact h.setReported e x hx
    | blocked e x r hfind hx hhi hord hrk0 heq => rw [heq]; exact h
    | accepted e x n hfind hx hhi hord heq =>
      rw [heq]; simp only
      have hd := find_spec (w.expMatches a) w.expOrder (m.active f)
      rw [hfind] at hd
      obtain ⟨pre, post, hl, _⟩ := hd
      exact h.bookkeep o f e x m hm (by rw [hl]; simp) hx hhi

/-- every operation of the world preserves the invariant. -/
theorem WF.step {w : World} (h : WF w) (op : Op) : WF (w.step op).1 := by
  unfold World.step
  cases hl : w.legal op with
  | false => simp only [Bool.not_false, if_true]; exact h
  | true =>
  simp only [Bool.not_true, Bool.false_eq_true, if_false]
  cases op with
  | mock o mv =>
    simp only [World.legal, beq_iff_eq] at hl
    subst hl
    simp only []
    refine ⟨?_, ?_, ?_, ?_, h.fresh, h.counters, h.deadExp, h.seqsNodup, ?_, ?_⟩
    · intro p mp f e hmp hin
      by_cases hp : p = w.nextO
      · subst hp; simp [upd] at hmp; subst hmp; simp at hin
      · simp [upd, hp] at hmp; exact h.act p mp f e hmp hin
    · intro p mp f e hmp hin
      by_cases hp : p = w.nextO
      · subst hp; simp [upd] at hmp; subst hmp; simp at hin
      · simp [upd, hp] at hmp; exact h.sat p mp f e hmp hin
    · intro p mp f hmp
      by_cases hp : p = w.nextO
      · subst hp; simp [upd] at hmp; subst hmp; simp
      · simp [upd, hp] at hmp; exact h.actNodup p mp f hmp
    · intro p mp f hmp
      by_cases hp : p = w.nextO
      · subst hp; simp [upd] at hmp; subst hmp; simp
      · simp [upd, hp] at hmp; exact h.satNodup p mp f hmp
    · intro p hp
      have hp' : w.nextO + 1 ≤ p := hp
      have : p ≠ w.nextO := by omega
      simp only [upd, this, if_false]
      exact h.freshMock p (by omega)
    · intro e x hx
      have := h.objBound e x hx
      show x.obj < w.nextO + 1
      omega
  | seq s => simp only []; exact h.frame ⟨rfl, rfl, rfl, rfl⟩
  | expect e x =>
    simp only [World.legal, Bool.and_eq_true, beq_iff_eq, decide_eq_true_eq, Bool.or_eq_true] at hl
    obtain ⟨⟨⟨⟨⟨⟨he, _⟩, _⟩, _⟩, hnd⟩, _⟩, hb⟩ := hl
    simp only []
    split
    · -- runtime bounds rejected: only the id is consumed
      refine ⟨h.act, h.sat, h.actNodup, h.satNodup, ?_, h.counters, h.deadExp, h.seqsNodup, h.freshMock, h.objBound⟩
      intro e' he'
      have he'' : e + 1 ≤ e' := he'
      exact h.fresh e' (by omega)
    · rename_i hrt
      cases hm : w.mocks x.obj with
      | none => simp only []; exact h
      | some m =>
        simp only []
        have hb' : x.lo ≤ x.hi := by
          rcases hb with hb | hb
          · simp only [hb, Bool.true_and, decide_eq_true_eq] at hrt; omega
          · exact hb
        exact h.expect e x m he hm (by simpa using hnd) hb'
  | call o f a => simp only []; exact h.callFn o f a
  | sat e => exact h
  | satd e => exact h
  | release e =>
    simp only []
    cases hx : w.exps e with
    | none => exact h
    | some x => exact h.release e x hx
  | move o o' =>
    simp only [World.legal, Bool.and_eq_true, beq_iff_eq] at hl
    simp only []
    cases hm : w.mocks o with
    | none => exact h
    | some m => exact h.move o o' m hm hl.1
  | kill o =>
    simp only []
    cases hm : w.mocks o with
    | none => exact h
    | some m => exact h.kill o m hm
  | killseq s =>
    simp only []
    cases w.seqs s with
    | none => exact h
    | some x => exact h.frame ⟨rfl, rfl, rfl, rfl⟩
  | completed s => exact h
  | watched x => simp only []; exact h.frame ⟨rfl, rfl, rfl, rfl⟩
  | copyw x y => simp only []; exact h.frame ⟨rfl, rfl, rfl, rfl⟩
  | movew x y => simp only []; exact h.frame ⟨rfl, rfl, rfl, rfl⟩
  | assignw d s => exact h
  | killw x =>
    simp only []
    cases w.watched x with
    | none => exact h
    | some y =>
      simp only []
      split
      · exact h.frame ⟨rfl, rfl, rfl, rfl⟩
      · exact h.frame (Frame.trans (Frame.setWatched w _) (Frame.notifyFold _ _ _))
  | monitor m x ss =>
    simp only []
    cases w.watched x with
    | none => exact h
    | some y =>
      simp only []
      refine h.frame (Frame.trans ?_ (Frame.register _ _ _))
      exact ⟨rfl, rfl, rfl, rfl⟩
  | msat m => exact h
  | msatd m => exact h
  | releasemon m =>
    simp only []
    cases w.mons m with
    | none => exact h
    | some x =>
      simp only []
      refine h.frame (Frame.trans (Frame.trans ?_ (Frame.retireOwn _ _ _)) (Frame.setMons _ _))
      split
      · exact Frame.refl w
      · split
        · exact Frame.setWatched w _
        · exact Frame.refl w
  | tracer t => simp only []; exact h.frame ⟨rfl, rfl, rfl, rfl⟩
  | killtracer t => simp only []; exact h.frame ⟨rfl, rfl, rfl, rfl⟩
  | setreporter r ok => simp only []; exact h.frame ⟨rfl, rfl, rfl, rfl⟩

end Tromp
