/-
  Lemmas/Nested.lean — re-entrant calls (Model/Nested.lean).
  * without re-entrant side effects `callN` is `step (.call …)` — every theorem about calls applies unchanged;
  * with them, the *state* after a call is the state after the same calls made one after the other (outer first,
    then each nested call in the order the side effects run): `callN_world_is_run`.  Hence every invariant of the
    reachable worlds (Props/C14) survives re-entrancy.
-/
import TrompModel.Model.Nested
import TrompModel.Lemmas.Call

namespace Tromp
namespace World

theorem runEffectsN_noNest (fuel e : Nat) (a : Args) (fxs : List (Args → Option Exc)) (i : Nat) (w : World) :
    runEffectsN noNest fuel e a fxs i w = (w, (runEffects e a fxs i).1, (runEffects e a fxs i).2) := by
  induction fxs generalizing i w with
  | nil => rw [runEffectsN]; rfl
  | cons fx rest ih =>
    rw [runEffectsN]
    simp only [noNest, runEffects]
    cases h : fx a with
    | some x => simp [h]
    | none => simp only [h, ih, List.nil_append, List.singleton_append]

/-- **no re-entrant side effect ⇒ `callN` is the plain call.** -/
theorem callN_noNest (fuel : Nat) (w : World) (o f : Nat) (a : Args) :
    callN noNest fuel w o f a = w.step (.call o f a) := by
  rw [callN]
  unfold step
  by_cases hl : w.legal (.call o f a) = true
  · simp only [hl, Bool.not_true, Bool.false_eq_true, if_false]
    unfold callFn
    cases hm : w.mocks o with
    | none => rfl
    | some m =>
      simp only
      generalize hfind : find (w.expMatches a) w.expOrder (m.active f) = res
      obtain ⟨found, visited⟩ := res
      cases found with
      | none => rfl
      | some e =>
        simp only
        cases hx : w.exps e with
        | none => rfl
        | some x =>
          simp only
          by_cases hc : x.hi = 0 ∨ w.order (.exp e) x.seqs = none
          · simp only [hc, if_true]
          · simp only [hc, if_false]
            have hhi : ¬ x.hi = 0 := fun h => hc (Or.inl h)
            cases hord : w.order (.exp e) x.seqs with
            | none => exact absurd (Or.inr hord) hc
            | some n =>
              simp only [runEffectsN_noNest, runActions, hhi, if_false, hord, actionEvents]
              cases (runEffects e a x.effects 0).2 with
              | some exc => simp
              | none => cases x.ret <;> simp
  · simp [hl]

theorem run_append (w : World) (ops ops' : List Op) : (w.run (ops ++ ops')).1 = ((w.run ops).1.run ops').1 := by
  induction ops generalizing w with
  | nil => rfl
  | cons op ops ih => simp only [List.cons_append, run]; exact ih _

/-- the world of a plain call that is accepted is the bookkept world. -/
theorem step_call_world_accepted (w : World) (o f : Nat) (a : Args) (m : Mock) (e : Nat) (x : Exp) (visited : List Nat)
    (hl : w.legal (.call o f a) = true) (hm : w.mocks o = some m)
    (hfind : find (w.expMatches a) w.expOrder (m.active f) = (some e, visited)) (hx : w.exps e = some x)
    (hc : ¬ (x.hi = 0 ∨ w.order (.exp e) x.seqs = none)) :
    (w.step (.call o f a)).1 = w.bookkeep o f e x m := by
  unfold step callFn
  simp only [hl, Bool.not_true, Bool.false_eq_true, if_false, hm, hfind, hx]
  have hhi : ¬ x.hi = 0 := fun h => hc (Or.inl h)
  cases hord : w.order (.exp e) x.seqs with
  | none => exact absurd (Or.inr hord) hc
  | some n => simp [runActions, hhi, hord]

def callOps (cs : List (Nat × Nat × Args)) : List Op := cs.map (fun c => Op.call c.1 c.2.1 c.2.2)

/-- **State of a re-entrant call = state of the same calls made one after the other.**  There is a list of calls —
    the outer one first, then the nested ones in the order the side effects make them — such that running them as
    plain, non-nested calls from `w` ends in the world `callN` ends in. -/
theorem callN_world_is_run (nest : NestMap) : ∀ (fuel : Nat),
    (∀ (w : World) (o f : Nat) (a : Args), ∃ cs, (callN nest fuel w o f a).1 = (w.run (callOps cs)).1) ∧
    (∀ (e : Nat) (a : Args) (fxs : List (Args → Option Exc)) (i : Nat) (w : World),
        ∃ cs, (runEffectsN nest fuel e a fxs i w).1 = (w.run (callOps cs)).1) := by
  intro fuel
  induction fuel using Nat.strongRecOn with
  | ind fuel ihf =>
    have hfx : ∀ (e : Nat) (a : Args) (fxs : List (Args → Option Exc)) (i : Nat) (w : World),
        ∃ cs, (runEffectsN nest fuel e a fxs i w).1 = (w.run (callOps cs)).1 := by
      intro e a fxs
      induction fxs with
      | nil => intro i w; exact ⟨[], by rw [runEffectsN]; rfl⟩
      | cons fx rest ih =>
        intro i w
        rw [runEffectsN]
        cases hn : nest e i with
        | none =>
          simp only
          cases fx a with
          | some x => exact ⟨[], rfl⟩
          | none =>
            obtain ⟨cs, hcs⟩ := ih (i + 1) w
            exact ⟨cs, by simpa using hcs⟩
        | some c =>
          obtain ⟨o', f', a'⟩ := c
          cases fuel with
          | zero =>
            simp only
            cases fx a with
            | some x => exact ⟨[], rfl⟩
            | none =>
              obtain ⟨cs, hcs⟩ := ih (i + 1) w
              exact ⟨cs, by simpa using hcs⟩
          | succ fuel' =>
            obtain ⟨cs1, h1⟩ := (ihf fuel' (Nat.lt_succ_self _)).1 w o' f' a'
            simp only
            cases hres : resultOf (callN nest fuel' w o' f' a').2 with
            | none =>
              cases fx a with
              | some x => exact ⟨cs1, by simpa using h1⟩
              | none =>
                obtain ⟨cs2, h2⟩ := ih (i + 1) (callN nest fuel' w o' f' a').1
                refine ⟨cs1 ++ cs2, ?_⟩
                simp only [callOps, List.map_append, run_append]
                simp only [callOps] at h1 h2
                rw [← h1]; simpa using h2
            | some r =>
              cases r with
              | threw x => exact ⟨cs1, by simpa using h1⟩
              | void =>
                cases fx a with
                | some x => exact ⟨cs1, by simpa using h1⟩
                | none =>
                  obtain ⟨cs2, h2⟩ := ih (i + 1) (callN nest fuel' w o' f' a').1
                  refine ⟨cs1 ++ cs2, ?_⟩
                  simp only [callOps, List.map_append, run_append]
                  simp only [callOps] at h1 h2
                  rw [← h1]; simpa using h2
              | val v =>
                cases fx a with
                | some x => exact ⟨cs1, by simpa using h1⟩
                | none =>
                  obtain ⟨cs2, h2⟩ := ih (i + 1) (callN nest fuel' w o' f' a').1
                  refine ⟨cs1 ++ cs2, ?_⟩
                  simp only [callOps, List.map_append, run_append]
                  simp only [callOps] at h1 h2
                  rw [← h1]; simpa using h2
    refine ⟨?_, hfx⟩
    intro w o f a
    rw [callN]
    by_cases hl : w.legal (.call o f a) = true
    · simp only [hl, Bool.not_true, Bool.false_eq_true, if_false]
      have hstep : ∀ (w' : World), w' = (w.step (.call o f a)).1 → ∃ cs, w' = (w.run (callOps cs)).1 := by
        intro w' h; exact ⟨[(o, f, a)], by simp [callOps, run, h]⟩
      cases hm : w.mocks o with
      | none => exact ⟨[], rfl⟩
      | some m =>
        simp only
        generalize hfind : find (w.expMatches a) w.expOrder (m.active f) = res
        obtain ⟨found, visited⟩ := res
        cases found with
        | none =>
          apply hstep
          unfold step callFn
          simp [hl, hm, hfind]
        | some e =>
          simp only
          cases hx : w.exps e with
          | none => exact ⟨[], rfl⟩
          | some x =>
            simp only
            by_cases hc : x.hi = 0 ∨ w.order (.exp e) x.seqs = none
            · simp only [hc, if_true]
              apply hstep
              unfold step callFn
              simp [hl, hm, hfind, hx]
            · simp only [hc, if_false]
              obtain ⟨cs, hcs⟩ := hfx e a x.effects 0 (w.bookkeep o f e x m)
              refine ⟨(o, f, a) :: cs, ?_⟩
              simp only [callOps, List.map_cons, run]
              rw [step_call_world_accepted w o f a m e x visited hl hm hfind hx hc]
              simpa [callOps] using hcs
    · exact ⟨[], by simp [hl, callOps, run]⟩

end World
end Tromp
