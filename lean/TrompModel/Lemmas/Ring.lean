/-
  Lemmas/Ring.lean — the intrusive ring (`Model/Ring.lean`) refines abstract lists.
  `Path h a l b` : following `next` from `a` visits exactly `l` and arrives at `b`, and `prev` is the inverse
  along the way.  `IsRing h hd l` : the list object `hd` holds exactly `l` (cycle `hd → l… → hd`, no repetition).
-/
import TrompModel.Model.Ring

namespace Tromp.Ring

variable {P : Type} [DecidableEq P]

def Path (h : Heap P) : P → List P → P → Prop
  | a, [], b => h.next a = b ∧ h.prev b = a
  | a, x :: l, b => h.next a = x ∧ h.prev x = a ∧ Path h x l b

def IsRing (h : Heap P) (hd : P) (l : List P) : Prop := Path h hd l hd ∧ (hd :: l).Nodup

def SelfLinked (h : Heap P) (x : P) : Prop := h.next x = x ∧ h.prev x = x

theorem Heap.ext' {h h' : Heap P} (hn : ∀ y, h.next y = h'.next y) (hp : ∀ y, h.prev y = h'.prev y) : h = h' := by
  cases h; cases h'; simp only [Heap.mk.injEq]; exact ⟨funext hn, funext hp⟩

theorem path_append (h : Heap P) (a x b : P) (l1 l2 : List P) :
    Path h a (l1 ++ x :: l2) b ↔ Path h a l1 x ∧ Path h x l2 b := by
  induction l1 generalizing a with
  | nil => simp [Path, and_assoc]
  | cons z l1 ih => simp [Path, ih, and_assoc]

theorem path_congr {h h' : Heap P} {a b : P} {l : List P}
    (hn : ∀ y ∈ a :: l, h'.next y = h.next y) (hp : ∀ y ∈ l ++ [b], h'.prev y = h.prev y)
    (p : Path h a l b) : Path h' a l b := by
  induction l generalizing a with
  | nil =>
    simp only [Path] at p ⊢
    rw [hn a (by simp), hp b (by simp)]; exact p
  | cons x l ih =>
    simp only [Path] at p ⊢
    refine ⟨by rw [hn a (by simp)]; exact p.1, by rw [hp x (by simp)]; exact p.2.1, ?_⟩
    exact ih (fun y hy => hn y (by simp at hy ⊢; right; exact hy)) (fun y hy => hp y (by simp at hy ⊢; right; exact hy)) p.2.2

/-- `next` of a node on a path is the following node of the path. -/
theorem path_next_mem {h : Heap P} {a b : P} {l : List P} (p : Path h a l b) :
    ∀ y ∈ a :: l, h.next y ∈ l ++ [b] := by
  induction l generalizing a with
  | nil => intro y hy; simp at hy; subst hy; simp [Path] at p; simp [p.1]
  | cons x l ih =>
    intro y hy
    simp only [Path] at p
    simp only [List.mem_cons] at hy
    rcases hy with rfl | hy
    · simp [p.1]
    · have := ih p.2.2 y (by simpa using hy)
      simp at this ⊢; right; exact this

theorem path_prev_mem {h : Heap P} {a b : P} {l : List P} (p : Path h a l b) :
    ∀ y ∈ l ++ [b], h.prev y ∈ a :: l := by
  induction l generalizing a with
  | nil => intro y hy; simp at hy; subst hy; simp [Path] at p; simp [p.2]
  | cons x l ih =>
    intro y hy
    simp only [Path] at p
    simp only [List.cons_append, List.mem_cons] at hy
    rcases hy with rfl | hy
    · simp [p.2.1]
    · have := ih p.2.2 y (by simpa using hy)
      simp at this ⊢; right; exact this

/-! ### observation: iterators see exactly the abstract list -/

theorem walk_path {h : Heap P} {a hd : P} {l : List P} (p : Path h a l hd) (hnot : hd ∉ l) (k : Nat) :
    walk h hd (l.length + 1 + k) (h.next a) = l := by
  induction l generalizing a with
  | nil => simp [Path] at p; rw [p.1, show ([] : List P).length + 1 + k = k + 1 by simp; omega]; simp [walk]
  | cons x l ih =>
    simp only [Path] at p
    have hx : x ≠ hd := fun e => hnot (by simp [e])
    have : (x :: l).length + 1 + k = (l.length + 1 + k) + 1 := by simp; omega
    rw [this, p.1, walk, if_neg hx, ih p.2.2 (fun m => hnot (by simp [m]))]

theorem toList_ring {h : Heap P} {hd : P} {l : List P} (r : IsRing h hd l) (k : Nat) :
    toList h hd (l.length + 1 + k) = l :=
  walk_path r.1 (by have := r.2; simp at this; exact this.1) k

theorem isEmpty_ring {h : Heap P} {hd : P} {l : List P} (r : IsRing h hd l) : isEmpty hd h = l.isEmpty := by
  cases l with
  | nil => simp [IsRing, Path] at r; simp [isEmpty, r.1]
  | cons x l =>
    have := r.2; simp [IsRing, Path] at r this
    simp [isEmpty, r.1.1]; intro e; exact this.1.1 e.symm

theorem rev_ind {α : Type} {P : List α → Prop} (nil : P []) (snoc : ∀ l x, P l → P (l ++ [x])) : ∀ l, P l := by
  intro l
  have : P l.reverse.reverse := by
    induction l.reverse with
    | nil => exact nil
    | cons x t ih => simp only [List.reverse_cons]; exact snoc _ _ ih
  simpa using this

theorem walkBack_path {h : Heap P} {a hd : P} {l : List P} (p : Path h hd l a) (hnot : hd ∉ l) (k : Nat) :
    walkBack h hd (l.length + 1 + k) (h.prev a) = l.reverse := by
  induction l using rev_ind generalizing a with
  | nil => simp [Path] at p; rw [p.2, show ([] : List P).length + 1 + k = k + 1 by simp; omega]; simp [walkBack]
  | snoc l x ih =>
    have p' := (path_append h hd x a l []).1 p
    simp only [Path] at p'
    have hx : x ≠ hd := fun e => hnot (by simp [e])
    have : (l ++ [x]).length + 1 + k = (l.length + 1 + k) + 1 := by simp; omega
    rw [this, p'.2.2, walkBack, if_neg hx, ih p'.1 (fun m => hnot (by simp [m]))]
    simp

theorem toListBack_ring {h : Heap P} {hd : P} {l : List P} (r : IsRing h hd l) (k : Nat) :
    toListBack h hd (l.length + 1 + k) = l.reverse :=
  walkBack_path r.1 (by have := r.2; simp at this; exact this.1) k

/-! ### `unlink` -/

theorem unlink_next (h : Heap P) (x y : P) :
    (unlink x h).next y = if y = x then x else if y = h.prev x then h.next x else h.next y := by
  simp only [unlink, Heap.setPrev_next, Heap.setNext_next]

theorem unlink_prev (h : Heap P) (x y : P) :
    (unlink x h).prev y = if y = x then x else if y = h.next x then h.prev x else h.prev y := by
  simp only [unlink, Heap.setPrev_prev, Heap.setNext_prev]

theorem unlink_selfLinked (h : Heap P) (x : P) : SelfLinked (unlink x h) x := by
  simp [SelfLinked, unlink_next, unlink_prev]

/-- unlinking an element that is on no list changes nothing (`~list_elem` always calls `unlink`). -/
theorem unlink_of_selfLinked {h : Heap P} {x : P} (s : SelfLinked h x) : unlink x h = h := by
  apply Heap.ext'
  · intro y; rw [unlink_next, s.1, s.2]; by_cases e : y = x <;> simp [e, s.1]
  · intro y; rw [unlink_prev, s.1, s.2]; by_cases e : y = x <;> simp [e, s.2]

/-- `unlink` writes only the element and its two neighbours. -/
theorem unlink_frame (h : Heap P) (x y : P) (h1 : y ≠ x) (h2 : y ≠ h.prev x) (h3 : y ≠ h.next x) :
    (unlink x h).next y = h.next y ∧ (unlink x h).prev y = h.prev y := by
  simp [unlink_next, unlink_prev, h1, h2, h3]

theorem unlink_path {h : Heap P} {a b x : P} {l1 l2 : List P}
    (p1 : Path h a l1 x) (p2 : Path h x l2 b) (nd : (a :: l1 ++ x :: l2).Nodup) (hb : b ∉ l1 ++ x :: l2) :
    Path (unlink x h) a (l1 ++ l2) b := by
  induction l1 generalizing a with
  | nil =>
    simp only [Path] at p1
    simp only [List.nil_append, List.cons_append, List.nodup_cons, List.mem_cons, not_or] at nd hb
    obtain ⟨⟨hax, hal2⟩, hxl2, ndl2⟩ := nd
    cases l2 with
    | nil =>
      simp only [Path] at p2
      simp only [List.nil_append, Path, unlink_next, unlink_prev, p1.2, p2.1, if_neg hax, if_true]
      refine ⟨trivial, ?_⟩
      rw [if_neg hb.1]
    | cons y l2 =>
      simp only [Path] at p2
      simp only [List.mem_cons, not_or, List.nodup_cons] at hal2 hxl2 ndl2 hb
      simp only [List.nil_append, Path, unlink_next, unlink_prev, p1.2, p2.1, if_neg hax, if_true]
      refine ⟨trivial, by rw [if_neg (Ne.symm hxl2.1)], ?_⟩
      refine path_congr ?_ ?_ p2.2.2
      · intro z hz
        rw [unlink_next, p1.2, p2.1]
        have hzx : z ≠ x := by rintro rfl; simp at hz; rcases hz with e | e; exact hxl2.1 e; exact hxl2.2 e
        have hza : z ≠ a := by rintro rfl; simp at hz; rcases hz with e | e; exact hal2.1 e; exact hal2.2 e
        rw [if_neg hzx, if_neg hza]
      · intro z hz
        rw [unlink_prev, p1.2, p2.1]
        have hzx : z ≠ x := by
          rintro rfl; simp at hz; rcases hz with e | e; exact hxl2.2 e; exact hb.1 e.symm
        have hzy : z ≠ y := by
          rintro rfl; simp at hz; rcases hz with e | e; exact ndl2.1 e; exact hb.2.1 e.symm
        rw [if_neg hzx, if_neg hzy]
  | cons z l1 ih =>
    simp only [Path] at p1
    have nd' : (z :: l1 ++ x :: l2).Nodup := by simp at nd ⊢; exact nd.2
    have hb' : b ∉ l1 ++ x :: l2 := by simp at hb ⊢; exact ⟨hb.2.1, hb.2.2⟩
    have hprev : h.prev x ∈ z :: l1 := path_prev_mem p1.2.2 x (by simp)
    have hnext : h.next x ∈ l2 ++ [b] := path_next_mem p2 x (by simp)
    simp only [List.cons_append, Path]
    refine ⟨?_, ?_, ih p1.2.2 nd' hb'⟩
    · rw [unlink_next]
      have hax : a ≠ x := by rintro rfl; simp at nd
      have hap : a ≠ h.prev x := by
        rintro e; rw [← e] at hprev; simp at nd hprev
        rcases hprev with e | e; exact nd.1.1 e; exact nd.1.2.1 e
      rw [if_neg hax, if_neg hap]; exact p1.1
    · rw [unlink_prev]
      have hzx : z ≠ x := by rintro rfl; simp at nd
      have hzn : z ≠ h.next x := by
        rintro e; rw [← e] at hnext; simp at nd hnext hb
        rcases hnext with e | e; exact nd.2.1.2.2 e; exact hb.1 e.symm
      rw [if_neg hzx, if_neg hzn]; exact p1.2.1

theorem unlink_ring {h : Heap P} {hd x : P} {l : List P} (r : IsRing h hd l) (hx : x ∈ l) :
    IsRing (unlink x h) hd (l.erase x) := by
  obtain ⟨l1, l2, rfl⟩ := List.append_of_mem hx
  obtain ⟨p, nd⟩ := r
  have hx1 : x ∉ l1 := by
    intro m; simp only [List.nodup_cons, List.nodup_append, List.mem_cons] at nd
    exact nd.2.2.2 x m x (by simp) rfl
  have he : (l1 ++ x :: l2).erase x = l1 ++ l2 := by
    rw [List.erase_append_right _ hx1]; simp
  rw [he]
  have p' := (path_append h hd x hd l1 l2).1 p
  refine ⟨unlink_path p'.1 p'.2 (by simpa using nd) ?_, ?_⟩
  · simp only [List.nodup_cons] at nd; exact nd.1
  · simp only [List.nodup_cons, List.nodup_append, List.mem_append, List.mem_cons, not_or] at nd ⊢
    refine ⟨⟨nd.1.1, nd.1.2.2⟩, nd.2.1, nd.2.2.1.2, ?_⟩
    intro a ha b hb; exact nd.2.2.2 a ha b (Or.inr hb)

/-- the pop idiom of the translator: the first element is `next` of the list object, and unlinking it leaves the
    tail — `while (!l.empty()) { x = &*l.begin(); …; x->unlink(); }` visits the snapshot in order. -/
theorem ring_pop_front {h : Heap P} {hd x : P} {l : List P} (r : IsRing h hd (x :: l)) :
    h.next hd = x ∧ IsRing (unlink x h) hd l := by
  refine ⟨by simp [IsRing, Path] at r; exact r.1.1, ?_⟩
  have := unlink_ring r (List.mem_cons_self)
  simpa using this

/-! ### `push_front`, `push_back` -/

theorem pushFront_next (h : Heap P) (hd t y : P) :
    (pushFront hd t h).next y = if y = hd then t else if y = t then h.next hd else h.next y := by
  simp only [pushFront, Heap.setPrev_next, Heap.setNext_next]

theorem pushFront_prev (h : Heap P) (hd t y : P) (ne : hd ≠ t) :
    (pushFront hd t h).prev y = if y = h.next hd then t else if y = t then hd else h.prev y := by
  simp only [pushFront, Heap.setPrev_prev, Heap.setNext_prev, Heap.setPrev_next, Heap.setNext_next, if_neg ne]

theorem pushFront_ring {h : Heap P} {hd t : P} {l : List P} (r : IsRing h hd l) (ht : t ∉ hd :: l) :
    IsRing (pushFront hd t h) hd (t :: l) := by
  obtain ⟨p, nd⟩ := r
  have hne : hd ≠ t := fun e => ht (by simp [e])
  refine ⟨?_, ?_⟩
  · simp only [Path]
    refine ⟨by simp [pushFront_next], ?_, ?_⟩
    · rw [pushFront_prev _ _ _ _ hne]; simp
      intro e
      have := path_next_mem p hd (by simp); rw [← e] at this
      simp at this ht; rcases this with m | m; exact absurd m ht.2; exact absurd m.symm hne
    · cases l with
      | nil =>
        simp only [Path] at p ⊢
        rw [pushFront_next, pushFront_prev _ _ _ _ hne, p.1]; simp [Ne.symm hne]
      | cons x l =>
        simp only [Path] at p ⊢
        simp only [List.mem_cons, not_or, List.nodup_cons] at ht nd
        rw [pushFront_next, pushFront_prev _ _ _ _ hne, p.1]
        refine ⟨by simp [Ne.symm hne], by simp, ?_⟩
        refine path_congr ?_ ?_ p.2.2
        · intro z hz
          have h1 : z ≠ hd := by rintro rfl; simp at hz; rcases hz with e | e; exact nd.1.1 e; exact nd.1.2 e
          have h2 : z ≠ t := by rintro rfl; simp at hz; rcases hz with e | e; exact ht.2.1 e; exact ht.2.2 e
          rw [pushFront_next, if_neg h1, if_neg h2]
        · intro z hz
          have h1 : z ≠ x := by rintro rfl; simp at hz; rcases hz with e | e; exact nd.2.1 e; exact nd.1.1 e.symm
          have h2 : z ≠ t := by rintro rfl; simp at hz; rcases hz with e | e; exact ht.2.2 e; exact ht.1 e
          rw [pushFront_prev _ _ _ _ hne, p.1, if_neg h1, if_neg h2]
  · simp only [List.mem_cons, not_or, List.nodup_cons] at ht nd ⊢
    exact ⟨⟨hne, nd.1⟩, ht.2, nd.2⟩

theorem pushFront_frame (h : Heap P) (hd t y : P) (ne : hd ≠ t) (h1 : y ≠ hd) (h2 : y ≠ t) (h3 : y ≠ h.next hd) :
    (pushFront hd t h).next y = h.next y ∧ (pushFront hd t h).prev y = h.prev y := by
  simp [pushFront_next, pushFront_prev _ _ _ _ ne, h1, h2, h3]

theorem pushBack_prev (h : Heap P) (hd t y : P) :
    (pushBack hd t h).prev y = if y = hd then t else if y = t then h.prev hd else h.prev y := by
  simp only [pushBack, Heap.setPrev_prev, Heap.setNext_prev]

theorem pushBack_next (h : Heap P) (hd t y : P) (ne : hd ≠ t) :
    (pushBack hd t h).next y = if y = h.prev hd then t else if y = t then hd else h.next y := by
  simp only [pushBack, Heap.setPrev_prev, Heap.setNext_prev, Heap.setPrev_next, Heap.setNext_next, if_neg ne]

theorem pushBack_path {h : Heap P} {a b t : P} {l : List P}
    (p : Path h a l b) (nd : (a :: l).Nodup) (hb : b ∉ l) (ht : t ∉ a :: l) (htb : b ≠ t) :
    Path (pushBack b t h) a (l ++ [t]) b := by
  induction l generalizing a with
  | nil =>
    simp only [Path] at p
    simp only [List.mem_cons, List.not_mem_nil, or_false] at ht
    simp only [List.nil_append, Path]
    rw [pushBack_next _ _ _ _ htb, pushBack_prev, pushBack_next _ _ _ _ htb, pushBack_prev, p.2]
    simp [htb, Ne.symm htb]
    intro e; exact absurd e ht
  | cons x l ih =>
    simp only [Path] at p
    simp only [List.mem_cons, not_or, List.nodup_cons] at ht nd hb
    simp only [List.cons_append, Path]
    have hprev : h.prev b ∈ x :: l := path_prev_mem p.2.2 b (by simp)
    refine ⟨?_, ?_, ih p.2.2 (by simp [nd.2]) hb.2 (by simp [ht.2]) ⟩
    · rw [pushBack_next _ _ _ _ htb]
      have h1 : a ≠ h.prev b := by
        rintro e; rw [← e] at hprev; simp at hprev; rcases hprev with m | m; exact nd.1.1 m; exact nd.1.2 m
      rw [if_neg h1, if_neg (Ne.symm ht.1)]; exact p.1
    · rw [pushBack_prev, if_neg (Ne.symm hb.1), if_neg (Ne.symm ht.2.1)]; exact p.2.1

theorem pushBack_ring {h : Heap P} {hd t : P} {l : List P} (r : IsRing h hd l) (ht : t ∉ hd :: l) :
    IsRing (pushBack hd t h) hd (l ++ [t]) := by
  obtain ⟨p, nd⟩ := r
  have hne : hd ≠ t := fun e => ht (by simp [e])
  refine ⟨pushBack_path p nd (by simp at nd; exact nd.1) ht hne, ?_⟩
  simp only [List.mem_cons, not_or, List.nodup_cons, List.nodup_append, List.mem_append] at ht nd ⊢
  refine ⟨?_, nd.2, by simp, ?_⟩
  · simp; exact ⟨nd.1, hne⟩
  · intro a ha b hb; simp at hb; subst hb; rintro rfl; exact ht.2 ha

theorem pushBack_frame (h : Heap P) (hd t y : P) (ne : hd ≠ t) (h1 : y ≠ hd) (h2 : y ≠ t) (h3 : y ≠ h.prev hd) :
    (pushBack hd t h).next y = h.next y ∧ (pushBack hd t h).prev y = h.prev y := by
  simp [pushBack_next _ _ _ _ ne, pushBack_prev, h1, h2, h3]

/-! ### move: `list(list&&)` / `list_elem::operator=(list_elem&&)` -/

theorem moveAssign_eq (h : Heap P) (this r : P) (ne : this ≠ r) :
    moveAssign this r h = unlink r (pushFront r this h) := by
  simp only [moveAssign, if_pos ne, pushFront, Heap.setNext_next, Heap.setPrev_next, if_true, if_neg (Ne.symm ne)]

/-- rotation: the ring read from its second node. -/
theorem ring_rotate {h : Heap P} {hd t : P} {l : List P} (r : IsRing h hd (t :: l)) : IsRing h t (l ++ [hd]) := by
  obtain ⟨p, nd⟩ := r
  simp only [Path] at p
  refine ⟨(path_append h t hd t l []).2 ⟨p.2.2, by simp only [Path]; exact ⟨p.1, p.2.1⟩⟩, ?_⟩
  simp only [List.nodup_cons, List.mem_cons, not_or, List.nodup_append, List.mem_append] at nd ⊢
  refine ⟨?_, nd.2.2, by simp, ?_⟩
  · simp; exact ⟨nd.2.1, Ne.symm nd.1.1⟩
  · intro a ha b hb; simp at hb; subst hb; rintro rfl; exact nd.1.2 ha

theorem moveAssign_ring {h : Heap P} {this r : P} {l : List P} (ring : IsRing h r l) (ht : this ∉ r :: l) :
    IsRing (moveAssign this r h) this l ∧ SelfLinked (moveAssign this r h) r := by
  have ne : this ≠ r := fun e => ht (by simp [e])
  rw [moveAssign_eq h this r ne]
  refine ⟨?_, unlink_selfLinked _ _⟩
  have r1 := ring_rotate (pushFront_ring ring ht)
  have r2 := unlink_ring r1 (x := r) (by simp)
  have hr : r ∉ l := by have := ring.2; simp at this; exact this.1
  rwa [List.erase_append_right _ hr, List.erase_cons_head, List.append_nil] at r2

/-! ### many rings in one heap: the representation invariant and the simulation -/

theorem ring_frame {h h' : Heap P} {hd : P} {l : List P} (r : IsRing h hd l)
    (same : ∀ y ∈ hd :: l, h'.next y = h.next y ∧ h'.prev y = h.prev y) : IsRing h' hd l := by
  refine ⟨path_congr (fun y hy => (same y hy).1) (fun y hy => (same y ?_).2) r.1, r.2⟩
  simp at hy ⊢; rcases hy with m | m; exact Or.inr m; exact Or.inl m

theorem ring_next_mem {h : Heap P} {hd : P} {l : List P} (r : IsRing h hd l) : ∀ y ∈ hd :: l, h.next y ∈ hd :: l := by
  intro y hy; have := path_next_mem r.1 y hy; simp at this ⊢; rcases this with m | m; exact Or.inr m; exact Or.inl m

theorem ring_prev_mem {h : Heap P} {hd : P} {l : List P} (r : IsRing h hd l) : ∀ y ∈ hd :: l, h.prev y ∈ hd :: l := by
  intro y hy
  have := path_prev_mem r.1 y (by simp at hy ⊢; rcases hy with m | m; exact Or.inr m; exact Or.inl m)
  exact this

theorem ring_nil_iff {h : Heap P} {hd : P} : IsRing h hd [] ↔ SelfLinked h hd := by
  simp [IsRing, Path, SelfLinked]

structure Rep (h : Heap P) (a : Abs P) : Prop where
  rings : ∀ hd ∈ a.heads, IsRing h hd (a.lists hd)
  heads_nodup : a.heads.Nodup
  disj : ∀ hd1 ∈ a.heads, ∀ hd2 ∈ a.heads, hd1 ≠ hd2 → ∀ y ∈ hd1 :: a.lists hd1, y ∉ hd2 :: a.lists hd2
  free : ∀ y, ¬ a.used y → SelfLinked h y

theorem rep_init : Rep (Heap.init : Heap P) (Abs.init : Abs P) :=
  ⟨by simp [Abs.init], by simp [Abs.init], by simp [Abs.init], fun y _ => ⟨rfl, rfl⟩⟩

theorem used_of_mem {a : Abs P} {hd y : P} (hm : hd ∈ a.heads) (hy : y ∈ hd :: a.lists hd) : a.used y := ⟨hd, hm, hy⟩

theorem rep_congr {h : Heap P} {a a' : Abs P} (R : Rep h a) (hh : a'.heads = a.heads)
    (hl : ∀ hd ∈ a.heads, a'.lists hd = a.lists hd) : Rep h a' := by
  have hu : ∀ y, a'.used y ↔ a.used y := by
    intro y; unfold Abs.used; rw [hh]
    constructor
    · rintro ⟨hd, hm, hy⟩; exact ⟨hd, hm, by rw [← hl hd hm]; exact hy⟩
    · rintro ⟨hd, hm, hy⟩; exact ⟨hd, hm, by rw [hl hd hm]; exact hy⟩
  refine ⟨?_, by rw [hh]; exact R.heads_nodup, ?_, fun y hy => R.free y (fun u => hy ((hu y).2 u))⟩
  · intro hd hm; rw [hh] at hm; rw [hl hd hm]; exact R.rings hd hm
  · intro hd1 h1 hd2 h2 ne y hy
    rw [hh] at h1 h2; rw [hl hd1 h1] at hy; rw [hl hd2 h2]; exact R.disj hd1 h1 hd2 h2 ne y hy

/-- one ring is rewritten (elements added from unused addresses and/or removed), every other address keeps its
    members: the invariant carries over. -/
theorem rep_update {h : Heap P} {a : Abs P} (R : Rep h a) {hd : P} (hm : hd ∈ a.heads) (h' : Heap P) (l' extra : List P)
    (hextra : ∀ t ∈ extra, ¬ a.used t) (extra_in : ∀ t ∈ extra, t ∈ l')
    (ring' : IsRing h' hd l')
    (sub : ∀ y ∈ l', y ∈ a.lists hd ∨ y ∈ extra)
    (removed : ∀ y ∈ a.lists hd, y ∉ l' → SelfLinked h' y)
    (frame : ∀ y, y ∉ hd :: a.lists hd → y ∉ extra → h'.next y = h.next y ∧ h'.prev y = h.prev y) :
    Rep h' (a.set hd l') := by
  have hl : ∀ x, x ≠ hd → (a.set hd l').lists x = a.lists x := fun x ne => by simp [Abs.set, ne]
  have hl0 : (a.set hd l').lists hd = l' := by simp [Abs.set]
  have other : ∀ hd2 ∈ a.heads, hd2 ≠ hd → ∀ y ∈ hd2 :: a.lists hd2, y ∉ hd :: a.lists hd ∧ y ∉ extra := by
    intro hd2 h2 ne y hy
    exact ⟨R.disj hd2 h2 hd hm ne y hy, fun m => hextra y m (used_of_mem h2 hy)⟩
  refine ⟨?_, R.heads_nodup, ?_, ?_⟩
  · intro hd2 h2
    by_cases e : hd2 = hd
    · subst e; rw [hl0]; exact ring'
    · rw [hl hd2 e]
      exact ring_frame (R.rings hd2 h2) (fun y hy => frame y (other hd2 h2 e y hy).1 (other hd2 h2 e y hy).2)
  · intro hd1 h1 hd2 h2 ne y hy
    change hd1 ∈ a.heads at h1; change hd2 ∈ a.heads at h2
    by_cases e1 : hd1 = hd
    · subst e1
      rw [hl hd2 (Ne.symm ne)]; rw [hl0] at hy
      simp only [List.mem_cons] at hy
      rcases hy with rfl | hy
      · exact R.disj _ h1 hd2 h2 ne _ (by simp)
      · rcases sub y hy with m | m
        · exact R.disj _ h1 hd2 h2 ne y (by simp [m])
        · intro u; exact hextra y m (used_of_mem h2 u)
    · rw [hl hd1 e1] at hy
      by_cases e2 : hd2 = hd
      · subst e2; rw [hl0]
        have := other hd1 h1 e1 y hy
        intro u; simp only [List.mem_cons] at u
        rcases u with rfl | u
        · exact this.1 (by simp)
        · rcases sub y u with m | m
          · exact this.1 (by simp [m])
          · exact this.2 m
      · rw [hl hd2 e2]; exact R.disj hd1 h1 hd2 h2 ne y hy
  · intro y hy
    by_cases m : y ∈ a.lists hd
    · refine removed y m (fun m' => hy ⟨hd, hm, ?_⟩); rw [hl0]; simp [m']
    · have hyhd : y ≠ hd := by rintro rfl; exact hy ⟨_, hm, by simp⟩
      have hyex : y ∉ extra := fun m' => hy ⟨hd, hm, by rw [hl0]; simp [extra_in y m']⟩
      have hun : ¬ a.used y := by
        rintro ⟨hd2, h2, u⟩
        by_cases e : hd2 = hd
        · subst e; simp only [List.mem_cons] at u; rcases u with u | u; exact hyhd u; exact m u
        · exact hy ⟨hd2, h2, by rw [hl hd2 e]; exact u⟩
      have f := frame y (by simp [hyhd, m]) hyex
      have s := R.free y hun
      exact ⟨by rw [f.1]; exact s.1, by rw [f.2]; exact s.2⟩

theorem rep_pushFront {h : Heap P} {a : Abs P} (R : Rep h a) {hd t : P} (hm : hd ∈ a.heads) (ht : ¬ a.used t) :
    Rep (pushFront hd t h) (a.set hd (t :: a.lists hd)) := by
  have r := R.rings hd hm
  have htn : t ∉ hd :: a.lists hd := fun m => ht (used_of_mem hm m)
  have hne : hd ≠ t := fun e => htn (by simp [e])
  refine rep_update R hm _ _ [t] (by simpa using ht) (by simp) (pushFront_ring r htn) (by intro y hy; simp at hy ⊢; rcases hy with e | e; exact Or.inr e; exact Or.inl e) (by intro y hy hn; simp [hy] at hn) ?_
  intro y hy hyt
  refine pushFront_frame h hd t y hne (fun e => hy (by simp [e])) (by simpa using hyt) ?_
  rintro rfl; exact hy (ring_next_mem r hd (by simp))

theorem rep_pushBack {h : Heap P} {a : Abs P} (R : Rep h a) {hd t : P} (hm : hd ∈ a.heads) (ht : ¬ a.used t) :
    Rep (pushBack hd t h) (a.set hd (a.lists hd ++ [t])) := by
  have r := R.rings hd hm
  have htn : t ∉ hd :: a.lists hd := fun m => ht (used_of_mem hm m)
  have hne : hd ≠ t := fun e => htn (by simp [e])
  refine rep_update R hm _ _ [t] (by simpa using ht) (by simp) (pushBack_ring r htn) (by intro y hy; simpa using hy) (by intro y hy hn; simp [hy] at hn) ?_
  intro y hy hyt
  refine pushBack_frame h hd t y hne (fun e => hy (by simp [e])) (by simpa using hyt) ?_
  rintro rfl; exact hy (ring_prev_mem r hd (by simp))

theorem rep_unlink_in {h : Heap P} {a : Abs P} (R : Rep h a) {hd x : P} (hm : hd ∈ a.heads) (hx : x ∈ a.lists hd) :
    Rep (unlink x h) (a.set hd ((a.lists hd).erase x)) := by
  have r := R.rings hd hm
  have nd : (a.lists hd).Nodup := by have := r.2; simp at this; exact this.2
  refine rep_update R hm _ _ [] (by simp) (by simp) (unlink_ring r hx) ?_ ?_ ?_
  · intro y hy; exact Or.inl (List.mem_of_mem_erase hy)
  · intro y hy hne
    have : y = x := Decidable.byContradiction (fun c => hne ((List.mem_erase_of_ne c).2 hy))
    subst this; exact unlink_selfLinked _ _
  · intro y hy _
    have hxr : x ∈ hd :: a.lists hd := by simp [hx]
    refine unlink_frame h x y ?_ ?_ ?_
    · rintro rfl; exact hy hxr
    · rintro rfl; exact hy (ring_prev_mem r x hxr)
    · rintro rfl; exact hy (ring_next_mem r x hxr)

theorem not_head_of_elem {h : Heap P} {a : Abs P} (R : Rep h a) {hd x : P} (hm : hd ∈ a.heads) (hx : x ∈ a.lists hd) :
    x ∉ a.heads := by
  intro xm
  by_cases e : x = hd
  · subst e; have := (R.rings x hm).2; simp at this; exact this.1 hx
  · exact R.disj x xm hd hm e x (by simp) (by simp [hx])

theorem rep_unlink {h : Heap P} {a : Abs P} (R : Rep h a) {x : P} (hx : x ∉ a.heads) :
    Rep (unlink x h) (a.step (.unlink x)) := by
  by_cases u : a.used x
  · obtain ⟨hd, hm, hy⟩ := u
    have hxl : x ∈ a.lists hd := by
      simp only [List.mem_cons] at hy; rcases hy with rfl | hy; exact absurd hm hx; exact hy
    refine rep_congr (rep_unlink_in R hm hxl) rfl ?_
    intro hd2 h2
    change hd2 ∈ a.heads at h2
    by_cases e : hd2 = hd
    · subst e; simp [Abs.step, Abs.set]
    · simp only [Abs.step, Abs.set, if_neg e]
      exact List.erase_of_not_mem (fun m => R.disj hd2 h2 hd hm e x (by simp [m]) (by simp [hxl]))
  · rw [unlink_of_selfLinked (R.free x u)]
    refine rep_congr R rfl ?_
    intro hd hm
    exact List.erase_of_not_mem (fun m => u (used_of_mem hm (by simp [m])))

theorem rep_newList {h : Heap P} {a : Abs P} (R : Rep h a) {hd : P} (hu : ¬ a.used hd) :
    Rep h (a.step (.newList hd)) := by
  have hne : ∀ hd2 ∈ a.heads, hd2 ≠ hd := by rintro hd2 h2 rfl; exact hu (used_of_mem h2 (by simp))
  have hl : ∀ hd2 ∈ a.heads, (a.step (.newList hd)).lists hd2 = a.lists hd2 := fun hd2 h2 => by
    simp [Abs.step, hne hd2 h2]
  have hl0 : (a.step (.newList hd)).lists hd = [] := by simp [Abs.step]
  refine ⟨?_, ?_, ?_, ?_⟩
  · intro hd2 h2
    simp only [Abs.step, List.mem_cons] at h2
    rcases h2 with rfl | h2
    · rw [hl0]; exact ring_nil_iff.2 (R.free _ hu)
    · rw [hl hd2 h2]; exact R.rings hd2 h2
  · simp only [Abs.step, List.nodup_cons]; exact ⟨fun m => hne hd m rfl, R.heads_nodup⟩
  · intro hd1 h1 hd2 h2 ne y hy
    simp only [Abs.step, List.mem_cons] at h1 h2
    rcases h1 with rfl | h1
    · rcases h2 with rfl | h2
      · exact absurd rfl ne
      · rw [hl0] at hy; simp at hy; subst hy; rw [hl hd2 h2]; exact fun m => hu (used_of_mem h2 m)
    · rw [hl hd1 h1] at hy
      rcases h2 with rfl | h2
      · rw [hl0]; simp; rintro rfl; exact hu (used_of_mem h1 hy)
      · rw [hl hd2 h2]; exact R.disj hd1 h1 hd2 h2 ne y hy
  · intro y hy
    refine R.free y ?_
    rintro ⟨hd2, h2, m⟩
    exact hy ⟨hd2, by simp [Abs.step, h2], by rw [hl hd2 h2]; exact m⟩

theorem rep_drop {h : Heap P} {a : Abs P} (R : Rep h a) {hd : P} (hm : hd ∈ a.heads) (he : a.lists hd = []) :
    unlink hd h = h ∧ Rep h (a.step (.dropList hd)) := by
  have s : SelfLinked h hd := by have := R.rings hd hm; rw [he] at this; exact ring_nil_iff.1 this
  refine ⟨unlink_of_selfLinked s, ?_, ?_, ?_, ?_⟩
  · intro hd2 h2; exact R.rings hd2 (List.mem_of_mem_erase h2)
  · exact R.heads_nodup.erase _
  · intro hd1 h1 hd2 h2 ne; exact R.disj hd1 (List.mem_of_mem_erase h1) hd2 (List.mem_of_mem_erase h2) ne
  · intro y hy
    by_cases e : y = hd
    · subst e; exact s
    · refine R.free y ?_
      rintro ⟨hd2, h2, m⟩
      by_cases e2 : hd2 = hd
      · subst e2; rw [he] at m; simp at m; exact e m
      · exact hy ⟨hd2, (List.mem_erase_of_ne e2).2 h2, m⟩

theorem moveAssign_frame (h : Heap P) {this r : P} {l : List P} (ring : IsRing h r l) (ht : this ∉ r :: l)
    (y : P) (hy : y ∉ r :: l) (hyt : y ≠ this) :
    (moveAssign this r h).next y = h.next y ∧ (moveAssign this r h).prev y = h.prev y := by
  have ne : this ≠ r := fun e => ht (by simp [e])
  rw [moveAssign_eq h this r ne]
  have r1 := pushFront_ring ring ht
  have f1 := pushFront_frame h r this y (Ne.symm ne) (fun e => hy (by simp [e])) hyt
    (by rintro rfl; exact hy (ring_next_mem ring r (by simp)))
  have hy1 : y ∉ r :: this :: l := by
    simp only [List.mem_cons, not_or] at hy ⊢; exact ⟨hy.1, hyt, hy.2⟩
  have f2 := unlink_frame (pushFront r this h) r y (fun e => hy (by simp [e]))
    (by rintro rfl; exact hy1 (ring_prev_mem r1 r (by simp)))
    (by rintro rfl; exact hy1 (ring_next_mem r1 r (by simp)))
  exact ⟨f2.1.trans f1.1, f2.2.trans f1.2⟩

theorem rep_moveList {h : Heap P} {a : Abs P} (R : Rep h a) {new old : P} (hm : old ∈ a.heads) (hu : ¬ a.used new) :
    Rep (moveAssign new old h) (a.step (.moveList new old)) := by
  have r := R.rings old hm
  have htn : new ∉ old :: a.lists old := fun m => hu (used_of_mem hm m)
  have hno : new ≠ old := fun e => htn (by simp [e])
  have mr := moveAssign_ring r htn
  have hne : ∀ hd2 ∈ a.heads, hd2 ≠ new := by rintro hd2 h2 rfl; exact hu (used_of_mem h2 (by simp))
  have hl0 : (a.step (.moveList new old)).lists new = a.lists old := by simp [Abs.step]
  have hl : ∀ hd2 ∈ a.heads, hd2 ≠ old → (a.step (.moveList new old)).lists hd2 = a.lists hd2 := fun hd2 h2 e => by
    simp [Abs.step, hne hd2 h2, e]
  have hheads : ∀ hd2, hd2 ∈ (a.step (.moveList new old)).heads ↔ hd2 = new ∨ (hd2 ∈ a.heads ∧ hd2 ≠ old) := by
    intro hd2; simp only [Abs.step, List.mem_cons]
    constructor
    · rintro (e | m); exact Or.inl e
      exact Or.inr ⟨List.mem_of_mem_erase m, fun e => by subst e; exact (List.Nodup.mem_erase_iff R.heads_nodup).1 m |>.1 rfl⟩
    · rintro (e | ⟨m, e⟩); exact Or.inl e; exact Or.inr ((List.mem_erase_of_ne e).2 m)
  have other : ∀ hd2 ∈ a.heads, hd2 ≠ old → ∀ y ∈ hd2 :: a.lists hd2, y ∉ old :: a.lists old ∧ y ≠ new := by
    intro hd2 h2 ne y hy
    exact ⟨R.disj hd2 h2 old hm ne y hy, by rintro rfl; exact hu (used_of_mem h2 hy)⟩
  refine ⟨?_, ?_, ?_, ?_⟩
  · intro hd2 h2
    rcases (hheads hd2).1 h2 with rfl | ⟨m, e⟩
    · rw [hl0]; exact mr.1
    · rw [hl hd2 m e]
      exact ring_frame (R.rings hd2 m) (fun y hy => moveAssign_frame h r htn y (other hd2 m e y hy).1 (other hd2 m e y hy).2)
  · simp only [Abs.step, List.nodup_cons]
    exact ⟨fun m => hne new (List.mem_of_mem_erase m) rfl, R.heads_nodup.erase _⟩
  · intro hd1 h1 hd2 h2 ne y hy
    rcases (hheads hd1).1 h1 with rfl | ⟨m1, e1⟩
    · rcases (hheads hd2).1 h2 with rfl | ⟨m2, e2⟩
      · exact absurd rfl ne
      · rw [hl0] at hy; rw [hl hd2 m2 e2]
        simp only [List.mem_cons] at hy
        rcases hy with rfl | hy
        · exact fun u => hu (used_of_mem m2 u)
        · exact R.disj old hm hd2 m2 (Ne.symm e2) y (by simp [hy])
    · rw [hl hd1 m1 e1] at hy
      rcases (hheads hd2).1 h2 with rfl | ⟨m2, e2⟩
      · rw [hl0]
        have := other hd1 m1 e1 y hy
        intro u; simp only [List.mem_cons] at u
        rcases u with u | u
        · exact this.2 u
        · exact this.1 (by simp [u])
      · rw [hl hd2 m2 e2]; exact R.disj hd1 m1 hd2 m2 ne y hy
  · intro y hy
    by_cases e : y = old
    · subst e; exact mr.2
    · have hyn : y ≠ new := by rintro rfl; exact hy ⟨_, (hheads _).2 (Or.inl rfl), by simp⟩
      have hyo : y ∉ old :: a.lists old := by
        intro m; simp only [List.mem_cons] at m
        rcases m with m | m; exact e m
        exact hy ⟨new, (hheads _).2 (Or.inl rfl), by rw [hl0]; simp [m]⟩
      have hun : ¬ a.used y := by
        rintro ⟨hd2, h2, u⟩
        by_cases e2 : hd2 = old
        · subst e2; exact hyo u
        · exact hy ⟨hd2, (hheads _).2 (Or.inr ⟨h2, e2⟩), by rw [hl hd2 h2 e2]; exact u⟩
      have f := moveAssign_frame h r htn y hyo hyn
      have s := R.free y hun
      exact ⟨by rw [f.1]; exact s.1, by rw [f.2]; exact s.2⟩

/-! ### `~list()` with `delete_disposer` -/

theorem disposeLoop_eq {h : Heap P} {hd : P} {l : List P} (r : IsRing h hd l) (k : Nat) :
    disposeLoop hd (l.length + 1 + k) (h.next hd) h = l.foldl (fun h x => unlink x h) h := by
  induction l generalizing h with
  | nil =>
    have := ring_nil_iff.1 r
    rw [this.1, show ([] : List P).length + 1 + k = k + 1 by simp; omega]; simp [disposeLoop]
  | cons x l ih =>
    obtain ⟨hn, r'⟩ := ring_pop_front r
    have nd := r.2
    simp only [List.nodup_cons, List.mem_cons, not_or] at nd
    have hx : x ≠ hd := Ne.symm nd.1.1
    have : (x :: l).length + 1 + k = (l.length + 1 + k) + 1 := by simp; omega
    rw [this, hn, disposeLoop, if_neg hx, List.foldl_cons]
    have hnx : (unlink x h).next hd = h.next x := by
      have p := r.1; simp only [Path] at p
      rw [unlink_next, if_neg nd.1.1, p.2.1, if_pos rfl]
    rw [← hnx]; exact ih r'

theorem rep_dispose_fold {h : Heap P} {a : Abs P} (R : Rep h a) {hd : P} (hm : hd ∈ a.heads) :
    Rep ((a.lists hd).foldl (fun h x => unlink x h) h) (a.set hd []) := by
  generalize hl : a.lists hd = l
  induction l generalizing h a with
  | nil => exact rep_congr R rfl (fun hd2 _ => by by_cases e : hd2 = hd <;> simp [Abs.set, e, hl])
  | cons x l ih =>
    have hx : x ∈ a.lists hd := by rw [hl]; simp
    have R1 := rep_unlink_in R hm hx
    have hl1 : (a.set hd ((a.lists hd).erase x)).lists hd = l := by simp [Abs.set, hl]
    have := ih R1 (a := a.set hd ((a.lists hd).erase x)) hm hl1
    rw [List.foldl_cons]
    refine rep_congr this rfl (fun hd2 _ => by by_cases e : hd2 = hd <;> simp [Abs.set, e])

theorem rep_disposeList {h : Heap P} {a : Abs P} (R : Rep h a) {hd : P} (hm : hd ∈ a.heads) :
    Rep (listDtor hd ((a.lists hd).length + 1) h) (a.step (.disposeList hd)) := by
  unfold listDtor
  have e := disposeLoop_eq (R.rings hd hm) 0
  rw [Nat.add_zero] at e; rw [e]
  have R1 := rep_dispose_fold R hm
  have d := rep_drop R1 (hd := hd) hm (by simp [Abs.set])
  rw [d.1]
  exact rep_congr d.2 rfl (fun hd2 _ => by by_cases e : hd2 = hd <;> simp [Abs.step, Abs.set, e])

/-! ### the simulation -/

theorem rep_step {h : Heap P} {a : Abs P} (R : Rep h a) (op : Op P) (lg : a.legal op) : Rep (exec a h op) (a.step op) := by
  cases op with
  | newList hd => exact rep_newList R lg
  | pushFront hd t => exact rep_pushFront R lg.1 lg.2
  | pushBack hd t => exact rep_pushBack R lg.1 lg.2
  | unlink x => exact rep_unlink R lg
  | moveList new old => exact rep_moveList R lg.1 lg.2
  | dropList hd => have d := rep_drop R lg.1 lg.2; simp only [exec]; rw [d.1]; exact d.2
  | disposeList hd => exact rep_disposeList R lg

/-- every operation of the script is legal in the state it is applied to. -/
def legalRun : Abs P → List (Op P) → Prop
  | _, [] => True
  | a, op :: ops => a.legal op ∧ legalRun (a.step op) ops

theorem run_fst (a : Abs P) (h : Heap P) (ops : List (Op P)) : (run (a, h) ops).1 = ops.foldl Abs.step a := by
  induction ops generalizing a h with
  | nil => rfl
  | cons op ops ih => simp [run, ih]

theorem rep_run {h : Heap P} {a : Abs P} (R : Rep h a) (ops : List (Op P)) (lg : legalRun a ops) :
    Rep (run (a, h) ops).2 (run (a, h) ops).1 := by
  induction ops generalizing a h with
  | nil => exact R
  | cons op ops ih => exact ih (rep_step R op lg.1) lg.2

end Tromp.Ring

namespace Tromp.Ring
variable {P : Type} [DecidableEq P]

/-- `Rep` does not depend on the order in which the list objects are enumerated. -/
theorem rep_congr_mem {h : Heap P} {a a' : Abs P} (R : Rep h a) (hh : ∀ hd, hd ∈ a'.heads ↔ hd ∈ a.heads)
    (hnd : a'.heads.Nodup) (hl : ∀ hd ∈ a.heads, a'.lists hd = a.lists hd) : Rep h a' := by
  have hu : ∀ y, a'.used y ↔ a.used y := by
    intro y; unfold Abs.used
    constructor
    · rintro ⟨hd, hm, hy⟩; exact ⟨hd, (hh hd).1 hm, by rw [← hl hd ((hh hd).1 hm)]; exact hy⟩
    · rintro ⟨hd, hm, hy⟩; exact ⟨hd, (hh hd).2 hm, by rw [hl hd hm]; exact hy⟩
  refine ⟨?_, hnd, ?_, fun y hy => R.free y (fun u => hy ((hu y).2 u))⟩
  · intro hd hm; have hm' := (hh hd).1 hm; rw [hl hd hm']; exact R.rings hd hm'
  · intro hd1 h1 hd2 h2 ne y hy
    have h1' := (hh hd1).1 h1; have h2' := (hh hd2).1 h2
    rw [hl hd1 h1'] at hy; rw [hl hd2 h2']; exact R.disj hd1 h1' hd2 h2' ne y hy

/-- the script of moving several list objects: each `new` is move-constructed from its `old`, which stays in existence
    (empty) — `list(list&&)` member by member, as the implicit move constructor of a mock object does. -/
def moveAll (pairs : List (P × P)) : List (Op P) := pairs.flatMap (fun p => [Op.moveList p.1 p.2, Op.newList p.2])

/-- what the abstract state is after `moveAll`. -/
def movedAbs (a : Abs P) : List (P × P) → Abs P
  | [] => a
  | p :: ps => movedAbs ((a.step (.moveList p.1 p.2)).step (.newList p.2)) ps

theorem run_moveAll_fst (a : Abs P) (h : Heap P) (ps : List (P × P)) : (run (a, h) (moveAll ps)).1 = movedAbs a ps := by
  induction ps generalizing a h with
  | nil => rfl
  | cons p ps ih => simp only [moveAll, List.flatMap_cons, List.cons_append, List.nil_append, run, movedAbs]; exact ih _ _

theorem used_after_move (a : Abs P) (new old : P) (hold : old ∈ a.heads) (hnd : a.heads.Nodup) (hnew : ¬ a.used new) (y : P) :
    ((a.step (.moveList new old)).step (.newList old)).used y ↔ (a.used y ∨ y = new) := by
  have hnewhead : new ∉ a.heads := fun m => hnew ⟨new, m, by simp⟩
  have hno : new ≠ old := fun e => hnewhead (e ▸ hold)
  unfold Abs.used
  simp only [Abs.step, List.mem_cons]
  constructor
  · rintro ⟨hd, hm, hy⟩
    rcases hm with rfl | rfl | hm
    · simp only [if_true] at hy
      have : y = hd := by simpa using hy
      subst this; exact Or.inl ⟨y, hold, by simp⟩
    · simp only [hno, if_false, if_true] at hy
      rcases hy with rfl | hy
      · exact Or.inr rfl
      · exact Or.inl ⟨old, hold, by simp [hy]⟩
    · have hne : hd ≠ old := fun e => by subst e; exact ((List.Nodup.mem_erase_iff hnd).1 hm).1 rfl
      have hm' := List.mem_of_mem_erase hm
      have hnn : hd ≠ new := fun e => hnewhead (e ▸ hm')
      simp only [hne, hnn, if_false] at hy
      exact Or.inl ⟨hd, hm', hy⟩
  · rintro (⟨hd, hm, hy⟩ | rfl)
    · by_cases e : hd = old
      · subst e
        rcases hy with rfl | hy
        · exact ⟨y, Or.inl rfl, by simp⟩
        · exact ⟨new, Or.inr (Or.inl rfl), by simp [hno, hy]⟩
      · have hnn : hd ≠ new := fun e2 => hnewhead (e2 ▸ hm)
        exact ⟨hd, Or.inr (Or.inr ((List.mem_erase_of_ne e).2 hm)), by simpa [e, hnn] using hy⟩
    · exact ⟨y, Or.inr (Or.inl rfl), by simp [hno]⟩

theorem head_not_element {h : Heap P} {a : Abs P} (R : Rep h a) {hd hd2 : P} (hm : hd ∈ a.heads) (hm2 : hd2 ∈ a.heads) :
    hd ∉ a.lists hd2 := by
  intro hin
  by_cases e : hd = hd2
  · subst e; have := (R.rings hd hm).2; simp at this; exact this.1 hin
  · exact R.disj hd hm hd2 hm2 e hd (by simp) (by simp [hin])

/-- moving several list objects: the script is legal and the heap represents the moved family. -/
theorem rep_moveAll {h : Heap P} {a : Abs P} (R : Rep h a) (ps : List (P × P))
    (c1 : ∀ p ∈ ps, p.2 ∈ a.heads) (c2 : (ps.map (·.2)).Nodup) (c3 : ∀ p ∈ ps, ¬ a.used p.1) (c4 : (ps.map (·.1)).Nodup) :
    legalRun a (moveAll ps) ∧ Rep (run (a, h) (moveAll ps)).2 (run (a, h) (moveAll ps)).1 := by
  induction ps generalizing a h with
  | nil => exact ⟨trivial, R⟩
  | cons p ps ih =>
    obtain ⟨new, old⟩ := p
    have hold : old ∈ a.heads := c1 (new, old) (by simp)
    have hnew : ¬ a.used new := c3 (new, old) (by simp)
    have hnewhead : new ∉ a.heads := fun m => hnew ⟨new, m, by simp⟩
    have hno : new ≠ old := fun e => hnewhead (e ▸ hold)
    have l1 : a.legal (.moveList new old) := ⟨hold, hnew⟩
    have R1 := rep_step R (.moveList new old) l1
    have l2 : (a.step (.moveList new old)).legal (.newList old) := by
      rintro ⟨hd, hm, hy⟩
      simp only [Abs.step, List.mem_cons] at hm hy
      rcases hm with rfl | hm
      · simp only [if_true] at hy
        rcases hy with e | hy
        · exact hno e.symm
        · exact head_not_element R hold hold hy
      · have hne : hd ≠ old := fun e => by subst e; exact ((List.Nodup.mem_erase_iff R.heads_nodup).1 hm).1 rfl
        have hm' := List.mem_of_mem_erase hm
        have hnn : hd ≠ new := fun e => hnewhead (e ▸ hm')
        simp only [hnn, hne, if_false] at hy
        rcases hy with e | hy
        · exact hne e.symm
        · exact head_not_element R hold hm' hy
    have R2 := rep_step R1 (.newList old) l2
    simp only [exec] at R2
    have hu := used_after_move a new old hold R.heads_nodup hnew
    have c1' : ∀ p ∈ ps, p.2 ∈ ((a.step (.moveList new old)).step (.newList old)).heads := by
      intro p hp
      have := c1 p (by simp [hp])
      simp only [Abs.step, List.mem_cons]
      by_cases e : p.2 = old
      · exact Or.inl e
      · exact Or.inr (Or.inr ((List.mem_erase_of_ne e).2 this))
    have c2' : (ps.map (·.2)).Nodup := by simp only [List.map_cons, List.nodup_cons] at c2; exact c2.2
    have c4' : (ps.map (·.1)).Nodup := by simp only [List.map_cons, List.nodup_cons] at c4; exact c4.2
    have c3' : ∀ p ∈ ps, ¬ ((a.step (.moveList new old)).step (.newList old)).used p.1 := by
      intro p hp hused
      rcases (hu p.1).1 hused with hq | hq
      · exact c3 p (by simp [hp]) hq
      · simp only [List.map_cons, List.nodup_cons, List.mem_map] at c4
        exact c4.1 ⟨p, hp, hq⟩
    obtain ⟨lg, Rf⟩ := ih R2 c1' c2' c3' c4'
    refine ⟨?_, ?_⟩
    · simp only [moveAll, List.flatMap_cons, List.cons_append, List.nil_append, legalRun]
      exact ⟨l1, l2, lg⟩
    · simp only [moveAll, List.flatMap_cons, List.cons_append, List.nil_append, run]
      exact Rf

/-- the list family after `moveAll`: each `new` holds what its `old` held, each `old` is empty, the rest is untouched. -/
def movedLists (a : Abs P) (ps : List (P × P)) (x : P) : List P :=
  match ps.find? (fun p => p.1 = x) with
  | some p => a.lists p.2
  | none => if x ∈ ps.map (·.2) then [] else a.lists x

theorem movedAbs_heads (a : Abs P) (ps : List (P × P)) (c1 : ∀ p ∈ ps, p.2 ∈ a.heads) (y : P) :
    y ∈ (movedAbs a ps).heads ↔ y ∈ a.heads ∨ y ∈ ps.map (·.1) := by
  induction ps generalizing a with
  | nil => simp [movedAbs]
  | cons p ps ih =>
    obtain ⟨new, old⟩ := p
    have hold : old ∈ a.heads := c1 (new, old) (by simp)
    have c1' : ∀ p ∈ ps, p.2 ∈ ((a.step (.moveList new old)).step (.newList old)).heads := by
      intro p hp
      have := c1 p (by simp [hp])
      simp only [Abs.step, List.mem_cons]
      by_cases e : p.2 = old
      · exact Or.inl e
      · exact Or.inr (Or.inr ((List.mem_erase_of_ne e).2 this))
    rw [movedAbs, ih _ c1']
    simp only [Abs.step, List.mem_cons, List.map_cons]
    constructor
    · rintro ((rfl | rfl | hm) | hm)
      · exact Or.inl hold
      · exact Or.inr (Or.inl rfl)
      · exact Or.inl (List.mem_of_mem_erase hm)
      · exact Or.inr (Or.inr hm)
    · rintro (hm | rfl | hm)
      · by_cases e : y = old
        · exact Or.inl (Or.inl e)
        · exact Or.inl (Or.inr (Or.inr ((List.mem_erase_of_ne e).2 hm)))
      · exact Or.inl (Or.inr (Or.inl rfl))
      · exact Or.inr hm

theorem movedAbs_lists (a : Abs P) (ps : List (P × P)) (c2 : (ps.map (·.2)).Nodup) (c4 : (ps.map (·.1)).Nodup)
    (c5 : ∀ p ∈ ps, ∀ q ∈ ps, p.1 ≠ q.2) (x : P) :
    (movedAbs a ps).lists x = movedLists a ps x := by
  induction ps generalizing a with
  | nil => simp [movedAbs, movedLists]
  | cons p ps ih =>
    obtain ⟨new, old⟩ := p
    have c2' : (ps.map (·.2)).Nodup := by simp only [List.map_cons, List.nodup_cons] at c2; exact c2.2
    have c4' : (ps.map (·.1)).Nodup := by simp only [List.map_cons, List.nodup_cons] at c4; exact c4.2
    have c5' : ∀ p ∈ ps, ∀ q ∈ ps, p.1 ≠ q.2 := fun p hp q hq => c5 p (by simp [hp]) q (by simp [hq])
    have hno : new ≠ old := c5 (new, old) (by simp) (new, old) (by simp)
    have hold_tail : old ∉ ps.map (·.2) := by simp only [List.map_cons, List.nodup_cons] at c2; exact c2.1
    have hnew_tail : new ∉ ps.map (·.1) := by simp only [List.map_cons, List.nodup_cons] at c4; exact c4.1
    have hnew_olds : new ∉ ps.map (·.2) := by
      intro hm; obtain ⟨q, hq, e⟩ := List.mem_map.mp hm
      exact c5 (new, old) (by simp) q (by simp [hq]) e.symm
    have hold_news : old ∉ ps.map (·.1) := by
      intro hm; obtain ⟨q, hq, e⟩ := List.mem_map.mp hm
      exact c5 q (by simp [hq]) (new, old) (by simp) e
    rw [movedAbs, ih _ c2' c4' c5']
    -- the lists of the state after the first pair, where the tail reads them
    have hl : ∀ z, ((a.step (.moveList new old)).step (.newList old)).lists z =
        if z = old then [] else if z = new then a.lists old else a.lists z := by
      intro z; simp only [Abs.step]
      by_cases e1 : z = old
      · simp [e1]
      · by_cases e2 : z = new <;> simp [e1, e2]
    unfold movedLists
    simp only [List.find?_cons, List.map_cons, List.mem_cons]
    by_cases ex : new = x
    · subst ex
      have hnone : ps.find? (fun p => decide (p.1 = new)) = none := by
        rw [List.find?_eq_none]; intro q hq; simp only [decide_eq_true_eq]
        intro e; exact hnew_tail (List.mem_map.mpr ⟨q, hq, e⟩)
      simp only [decide_true, hnone, hnew_olds, if_false, hl, hno, if_true]
    · simp only [ex, decide_false]
      cases hf : ps.find? (fun p => decide (p.1 = x)) with
      | some q =>
        have hq := List.mem_of_find?_eq_some hf
        have hq2 : q.2 ≠ old := fun e => hold_tail (List.mem_map.mpr ⟨q, hq, e⟩)
        have hq3 : q.2 ≠ new := fun e => hnew_olds (List.mem_map.mpr ⟨q, hq, e⟩)
        simp only [hl, hq2, hq3, if_false]
      | none =>
        simp only
        by_cases hx : x ∈ ps.map (·.2)
        · simp [hx]
        · simp only [hx, if_false, or_false, hl]
          by_cases e1 : x = old
          · simp [e1]
          · have : ¬ old = x := fun e => e1 e.symm
            simp [e1, this, Ne.symm ex]

end Tromp.Ring
