/-
  Lemmas/Algo.lean — refinement lemmas for the list algorithms of Model/Algo.lean:
  the mirrored loops against their declarative specifications.  Core Lean only.
-/
import TrompModel.Model.Algo

namespace Tromp

variable {α : Type}

/-- declarative: `e` is the first element of `l` among the matching ones of least cost -/
def IsDesignated (m : α → Bool) (c : α → Cost) (l : List α) (e : α) : Prop :=
  ∃ pre post, l = pre ++ e :: post ∧ m e = true ∧
    (∀ x ∈ pre, m x = true → Cost.lt (c e) (c x) = true) ∧
    (∀ x ∈ post, m x = true → Cost.lt (c x) (c e) = false)

theorem Cost.lt_zero (a : Cost) : Cost.lt a (some 0) = false := by
  cases a <;> simp [Cost.lt]

theorem Cost.lt_trans {a b d : Cost} (h1 : Cost.lt a b = true) (h2 : Cost.lt b d = true) :
    Cost.lt a d = true := by
  cases a <;> cases b <;> cases d <;> simp_all [Cost.lt] <;> omega

theorem Cost.lt_of_lt_of_not_lt {a b d : Cost} (h1 : Cost.lt a b = true) (h2 : Cost.lt d b = false) :
    Cost.lt a d = true := by
  cases a <;> cases b <;> cases d <;> simp_all [Cost.lt] <;> omega

theorem Cost.not_lt_trans {a b d : Cost} (h1 : Cost.lt a b = false) (h2 : Cost.lt b d = false) :
    Cost.lt a d = false := by
  cases a <;> cases b <;> cases d <;> simp_all [Cost.lt] <;> omega

theorem Cost.zero_lt_of_ne {a : Cost} (h : a ≠ some 0) : Cost.lt (some 0) a = true := by
  cases a with
  | none => simp [Cost.lt]
  | some n => cases n <;> simp_all [Cost.lt]

/-- Invariant of the loop: `seen` is what has been consumed; the accumulator is the first
element of least cost among the matching ones of `seen`, and no matching element of `seen` has
cost 0. -/
theorem findGo_spec (m : α → Bool) (c : α → Cost) (rest seen : List α) (first : Option (α × Cost))
    (h0 : ∀ x ∈ seen, m x = true → c x ≠ some 0)
    (hacc : match first with
      | none => ∀ x ∈ seen, m x = false
      | some (f, lc) => lc = c f ∧ IsDesignated m c seen f) :
    match findGo m c first rest with
    | none => ∀ x ∈ seen ++ rest, m x = false
    | some e => IsDesignated m c (seen ++ rest) e := by
  induction rest generalizing seen first with
  | nil =>
    cases first with
    | none => simpa [findGo] using hacc
    | some p => obtain ⟨f, lc⟩ := p; simpa [findGo] using hacc.2
  | cons e rest ih =>
    unfold findGo
    by_cases hm : m e = true
    · simp only [hm, if_true]
      by_cases hc : c e = some 0
      · simp only [hc, if_true]
        refine ⟨seen, rest, rfl, hm, ?_, ?_⟩
        · intro x hx hmx
          rw [hc]; exact Cost.zero_lt_of_ne (h0 x hx hmx)
        · intro x _ _; rw [hc]; exact Cost.lt_zero _
      · simp only [hc, if_false]
        have h0' : ∀ x ∈ seen ++ [e], m x = true → c x ≠ some 0 := by
          intro x hx hmx
          rcases List.mem_append.mp hx with h | h
          · exact h0 x h hmx
          · simp at h; subst h; exact hc
        cases first with
        | none =>
          have := ih (seen ++ [e]) (some (e, c e)) h0'
            ⟨rfl, seen, [], by simp, hm, by intro x hx hmx; simp [hacc x hx] at hmx, by simp⟩
          simpa using this
        | some p =>
          obtain ⟨f, lc⟩ := p
          obtain ⟨hlc, pre, post, hseen, hmf, hpre, hpost⟩ := hacc
          by_cases hlt : Cost.lt (c e) lc = true
          · simp only [hlt, if_true]
            have := ih (seen ++ [e]) (some (e, c e)) h0' ⟨rfl, seen, [], by simp, hm, ?_, by simp⟩
            · simpa using this
            · intro x hx hmx
              rw [hlc] at hlt
              rw [hseen] at hx
              rcases List.mem_append.mp hx with h | h
              · exact Cost.lt_trans hlt (hpre x h hmx)
              · rcases List.mem_cons.mp h with h | h
                · subst h; exact hlt
                · exact Cost.lt_of_lt_of_not_lt hlt (hpost x h hmx)
          · simp only [hlt]
            have := ih (seen ++ [e]) (some (f, lc)) h0'
              ⟨hlc, pre, post ++ [e], by simp [hseen], hmf, hpre, ?_⟩
            · simpa using this
            · intro x hx hmx
              rcases List.mem_append.mp hx with h | h
              · exact hpost x h hmx
              · simp at h; subst h; rw [hlc] at hlt; simpa using hlt
    · simp only [hm]
      have hm' : m e = false := by simpa using hm
      have h0' : ∀ x ∈ seen ++ [e], m x = true → c x ≠ some 0 := by
        intro x hx hmx
        rcases List.mem_append.mp hx with h | h
        · exact h0 x h hmx
        · simp at h; subst h; simp [hm'] at hmx
      cases first with
      | none =>
        have := ih (seen ++ [e]) none h0' (by
          intro x hx
          rcases List.mem_append.mp hx with h | h
          · exact hacc x h
          · simp at h; subst h; exact hm')
        simpa using this
      | some p =>
        obtain ⟨f, lc⟩ := p
        obtain ⟨hlc, pre, post, hseen, hmf, hpre, hpost⟩ := hacc
        have := ih (seen ++ [e]) (some (f, lc)) h0'
          ⟨hlc, pre, post ++ [e], by simp [hseen], hmf, hpre, by
            intro x hx hmx
            rcases List.mem_append.mp hx with h | h
            · exact hpost x h hmx
            · simp at h; subst h; simp [hm'] at hmx⟩
        simpa using this

/-- C02: `find` returns the first matching expectation of least cost (newest on ties, the list
being newest-first), and `none` exactly when nothing matches. -/
theorem find_spec (m : α → Bool) (c : α → Cost) (l : List α) :
    match (find m c l).1 with
    | none => ∀ x ∈ l, m x = false
    | some e => IsDesignated m c l e := by
  have := findGo_spec m c l [] none (by simp) (by simp)
  simpa [find] using this


section seqcost
variable [DecidableEq α]

theorem seqCostGo_spec (sat : α → Bool) (h : α) (l : List α) (k n : Nat) :
    seqCostGo sat h k l = some n ↔
      ∃ pre post, l = pre ++ h :: post ∧ h ∉ pre ∧ (∀ p ∈ pre, sat p = true) ∧ n = k + pre.length := by
  induction l generalizing k with
  | nil => simp [seqCostGo]
  | cons x xs ih =>
    unfold seqCostGo
    by_cases hx : x = h
    · subst hx
      simp only [if_true, Option.some.injEq]
      constructor
      · intro hk; exact ⟨[], xs, rfl, by simp, by simp, by simp [hk]⟩
      · rintro ⟨pre, post, hl, hnot, _, hn⟩
        cases pre with
        | nil => simp [hn]
        | cons p ps => simp at hl; exact absurd hl.1.symm (by intro e; apply hnot; simp [e])
    · simp only [hx, if_false]
      by_cases hs : sat x = true
      · simp only [hs, if_true]
        rw [ih]
        constructor
        · rintro ⟨pre, post, hl, hnot, hsat, hn⟩
          refine ⟨x :: pre, post, by simp [hl], ?_, ?_, by simp [hn]; omega⟩
          · intro hm; rcases List.mem_cons.mp hm with e | e
            · exact hx e.symm
            · exact hnot e
          · intro p hp; rcases List.mem_cons.mp hp with e | e
            · subst e; exact hs
            · exact hsat p e
        · rintro ⟨pre, post, hl, hnot, hsat, hn⟩
          cases pre with
          | nil => simp at hl; exact absurd hl.1 hx
          | cons p ps =>
            simp at hl
            refine ⟨ps, post, hl.2, ?_, ?_, by simp at hn; omega⟩
            · intro hm; exact hnot (List.mem_cons_of_mem _ hm)
            · intro q hq; exact hsat q (List.mem_cons_of_mem _ hq)
      · simp only [hs]
        constructor
        · intro hk; cases hk
        · rintro ⟨pre, post, hl, hnot, hsat, hn⟩
          cases pre with
          | nil => simp at hl; exact absurd hl.1 hx
          | cons p ps =>
            simp at hl
            have := hsat p (by simp)
            rw [← hl.1] at this
            exact absurd this hs

/-- C05: a handle is callable in its sequence, at cost `n`, exactly when it is still pending, every
handle registered before it that is still pending is satisfied, and `n` of them are. -/
theorem seqCost_spec (sat : α → Bool) (h : α) (l : List α) (n : Nat) :
    seqCost sat h l = some n ↔
      ∃ pre post, l = pre ++ h :: post ∧ h ∉ pre ∧ (∀ p ∈ pre, sat p = true) ∧ n = pre.length := by
  simpa [seqCost] using seqCostGo_spec sat h l 0 n

end seqcost

end Tromp
