/-
  Lemmas/History2.lean — over whole histories: an expectation's shortfall ("Unfulfilled expectation" / "Pending
  expectation on destroyed mock object") is reported at most once, whatever the order of releases, kills, moves,
  calls and listings; and never after the expectation was named in an earlier violation report.
-/
import TrompModel.Lemmas.History

namespace Tromp
open World

def Ev.shortfallOf (e : Nat) : Ev → Bool
  | .report _ _ (.unfulfilled e' _ _) => e' == e
  | .report _ _ (.pendingDestroyed e' _ _) => e' == e
  | _ => false

/-- number of shortfall reports about `e` among the events. -/
def sfCount (e : Nat) (evs : List Ev) : Nat := (evs.filter (Ev.shortfallOf e)).length

theorem sfCount_append (e : Nat) (a b : List Ev) : sfCount e (a ++ b) = sfCount e a + sfCount e b := by
  simp [sfCount, List.filter_append]

theorem sfCount_nil (e : Nat) : sfCount e [] = 0 := rfl

/-- the `reported` flag of `e` (false if it does not exist). -/
def World.repd (w : World) (e : Nat) : Bool := match w.exps e with | some x => x.reported | none => false

/-- what one operation may do to the shortfall bookkeeping of every expectation `e`: either it reports nothing about
    `e` and leaves a set flag set, or it reports exactly once, the flag was clear before and is set afterwards. -/
def SfStep (w w' : World) (evs : List Ev) : Prop :=
  ∀ e, ((sfCount e evs = 0 ∧ (w.repd e = true → w'.repd e = true)) ∨
        (sfCount e evs = 1 ∧ w.repd e = false ∧ w'.repd e = true)) ∧
       (w'.exps e = none → w.exps e = none)

theorem SfStep.refl (w : World) : SfStep w w [] := fun _ => ⟨Or.inl ⟨rfl, id⟩, id⟩

theorem SfStep.of_exps_eq {w w' : World} {evs : List Ev} (h : w'.exps = w.exps) (hs : ∀ e, sfCount e evs = 0) : SfStep w w' evs := by
  intro e
  refine ⟨Or.inl ⟨hs e, ?_⟩, ?_⟩
  · unfold repd; rw [h]; exact id
  · rw [h]; exact id

theorem SfStep.trans {w w1 w2 : World} {a b : List Ev} (h1 : SfStep w w1 a) (h2 : SfStep w1 w2 b) : SfStep w w2 (a ++ b) := by
  intro e
  obtain ⟨c1, x1⟩ := h1 e
  obtain ⟨c2, x2⟩ := h2 e
  refine ⟨?_, fun h => x1 (x2 h)⟩
  rw [sfCount_append]
  rcases c1 with ⟨s1, m1⟩ | ⟨s1, f1, t1⟩ <;> rcases c2 with ⟨s2, m2⟩ | ⟨s2, f2, t2⟩
  · exact Or.inl ⟨by omega, fun h => m2 (m1 h)⟩
  · refine Or.inr ⟨by omega, ?_, t2⟩
    cases hr : w.repd e with
    | false => rfl
    | true => rw [m1 hr] at f2; cases f2
  · exact Or.inr ⟨by omega, f1, m2 t1⟩
  · rw [t1] at f2; cases f2

namespace World

theorem repd_setExp_other (w : World) (e e' : Nat) (y : Exp) (h : e' ≠ e) : (w.setExp e y).repd e' = w.repd e' := by
  unfold repd; rw [setExp_exps_other _ _ h]

theorem sfCount_noReport (e : Nat) (evs : List Ev) (h : ∀ ev ∈ evs, ev.isReport = false) : sfCount e evs = 0 := by
  unfold sfCount
  rw [List.length_eq_zero_iff, List.filter_eq_nil_iff]
  intro ev hev hs
  have := h ev hev
  cases ev <;> simp_all [Ev.shortfallOf, Ev.isReport]

/-- one element of `decommission`. -/
theorem decomStep_sf (acc : World × List Ev) (e : Nat) :
    ∃ evs, (decomStep acc e).2 = acc.2 ++ evs ∧ SfStep acc.1 (decomStep acc e).1 evs := by
  unfold decomStep
  cases hx : acc.1.exps e with
  | none => exact ⟨[], by simp, SfStep.refl _⟩
  | some x =>
    simp only
    by_cases hu : isUnfulfilled x = true
    · simp only [hu, if_true]
      refine ⟨[acc.1.rep .nonfatal (.pendingDestroyed e x.lo x.count)], rfl, ?_⟩
      intro e'
      by_cases he : e' = e
      · subst he
        refine ⟨Or.inr ⟨by simp [sfCount, Ev.shortfallOf, rep], ?_, by simp [repd]⟩, by simp⟩
        unfold isUnfulfilled at hu
        simp only [repd, hx]
        cases hr : x.reported <;> simp_all
      · refine ⟨Or.inl ⟨?_, by rw [repd_setExp_other _ _ _ _ he]; exact id⟩, by rw [setExp_exps_other _ _ he]; exact id⟩
        have : (e == e') = false := by simp [Ne.symm he]
        simp [sfCount, Ev.shortfallOf, rep, this]
    · simp only [hu, Bool.false_eq_true, if_false]
      refine ⟨[], by simp, ?_⟩
      intro e'
      by_cases he : e' = e
      · subst he
        exact ⟨Or.inl ⟨rfl, by simp [repd, hx]⟩, by simp⟩
      · exact ⟨Or.inl ⟨rfl, by rw [repd_setExp_other _ _ _ _ he]; exact id⟩, by rw [setExp_exps_other _ _ he]; exact id⟩

theorem decommission_sf (w : World) (es : List Nat) : SfStep w (w.decommission es).1 (w.decommission es).2 := by
  unfold decommission
  suffices h : ∀ (acc : World × List Ev), ∃ evs, (es.foldl decomStep acc).2 = acc.2 ++ evs ∧ SfStep acc.1 (es.foldl decomStep acc).1 evs by
    obtain ⟨evs, h1, h2⟩ := h (w, [])
    simp only [List.nil_append] at h1
    rw [h1]; exact h2
  induction es with
  | nil => intro acc; exact ⟨[], by simp, SfStep.refl _⟩
  | cons a as ih =>
    intro acc
    simp only [List.foldl_cons]
    obtain ⟨e1, h1, s1⟩ := decomStep_sf acc a
    obtain ⟨e2, h2, s2⟩ := ih (decomStep acc a)
    exact ⟨e1 ++ e2, by rw [h2, h1, List.append_assoc], s1.trans s2⟩

theorem killMock_sf (w : World) (o : Nat) (m : Mock) : SfStep w (w.killMock o m).1 (w.killMock o m).2 := by
  unfold killMock
  simp only
  have hfold : ∀ (fns : List Nat) (acc : World × List Ev),
      ∃ evs, (fns.foldl (fun (acc : World × List Ev) f =>
        let (w, evs) := acc
        let (w1, e1) := w.decommission (m.active f)
        let (w2, e2) := w1.decommission (m.saturated f)
        (w2, evs ++ e1 ++ e2)) acc).2 = acc.2 ++ evs ∧
      SfStep acc.1 (fns.foldl (fun (acc : World × List Ev) f =>
        let (w, evs) := acc
        let (w1, e1) := w.decommission (m.active f)
        let (w2, e2) := w1.decommission (m.saturated f)
        (w2, evs ++ e1 ++ e2)) acc).1 evs := by
    intro fns
    induction fns with
    | nil => intro acc; exact ⟨[], by simp, SfStep.refl _⟩
    | cons f fs ih =>
      intro acc
      simp only [List.foldl_cons]
      obtain ⟨w0, ev0⟩ := acc
      obtain ⟨e2, h2, s2⟩ := ih ((w0.decommission (m.active f)).1.decommission (m.saturated f) |>.1,
        ev0 ++ (w0.decommission (m.active f)).2 ++ ((w0.decommission (m.active f)).1.decommission (m.saturated f)).2)
      refine ⟨(w0.decommission (m.active f)).2 ++ ((w0.decommission (m.active f)).1.decommission (m.saturated f)).2 ++ e2, ?_, ?_⟩
      · simp only at h2 ⊢; rw [h2]; simp [List.append_assoc]
      · exact ((decommission_sf w0 _).trans (decommission_sf _ _)).trans s2
  obtain ⟨evs, h1, h2⟩ := hfold (List.range nFns).reverse (w, [])
  simp only [List.nil_append] at h1
  rw [h1]
  intro e
  obtain ⟨c, x⟩ := h2 e
  refine ⟨?_, ?_⟩
  · rcases c with ⟨s, mm⟩ | ⟨s, f, t⟩
    · exact Or.inl ⟨s, fun h => by simpa [repd, setMock_exps] using mm h⟩
    · exact Or.inr ⟨s, f, by simpa [repd, setMock_exps] using t⟩
  · intro h; exact x (by simpa [setMock_exps] using h)

end World
end Tromp

namespace Tromp
open World
namespace World

theorem markReported_mono (w : World) (es : List Nat) (e : Nat) :
    (w.repd e = true → (w.markReported es).repd e = true) ∧ ((w.markReported es).exps e = none → w.exps e = none) := by
  unfold markReported
  induction es generalizing w with
  | nil => exact ⟨id, id⟩
  | cons a as ih =>
    simp only [List.foldl_cons]
    cases ha : w.exps a with
    | none => simpa [ha] using ih w
    | some x =>
      simp only [ha]
      obtain ⟨i1, i2⟩ := ih (w.setExp a { x with reported := true })
      by_cases hea : e = a
      · subst hea
        exact ⟨fun _ => i1 (by simp [repd]), fun h => by have := i2 h; simp at this⟩
      · exact ⟨fun h => i1 (by rw [repd_setExp_other _ _ _ _ hea]; exact h),
               fun h => by have := i2 h; rwa [setExp_exps_other _ _ hea] at this⟩

theorem validateOne_not_shortfall (w : World) (o : Owner) (s : Nat) (r : Report) (h : w.validateOne o s = some r) (sev : Sev) (rr e : Nat) :
    Ev.shortfallOf e (.report sev rr r) = false := by
  unfold validateOne at h
  split at h
  · cases h
  · split at h <;> (cases h; rfl)

theorem validateAll_sf (w w0 : World) (o : Owner) (ss : List Nat) (sev : Sev) (e : Nat) :
    sfCount e ((w.validateAll o ss).map (w0.rep sev)) = 0 := by
  unfold sfCount
  rw [List.length_eq_zero_iff, List.filter_eq_nil_iff]
  intro ev hev
  obtain ⟨r, hr, rfl⟩ := List.mem_map.mp hev
  unfold validateAll at hr
  obtain ⟨s, _, hs⟩ := List.mem_filterMap.mp hr
  have := validateOne_not_shortfall w o s r hs sev w0.reporter e
  simpa [rep] using this

theorem notify_sf (w : World) (m : Nat) (e : Nat) : sfCount e (w.notify m).2 = 0 := by
  unfold notify
  cases w.mons m with
  | none => rfl
  | some x => exact validateAll_sf w w _ _ _ e

/-- **every operation is a shortfall step.** -/
theorem step_sf (w : World) (hw : WF w) (op : Op) : SfStep w (w.step op).1 (w.step op).2 := by
  unfold step
  by_cases hl : w.legal op = true
  · simp only [hl, Bool.not_true, Bool.false_eq_true, if_false]
    cases op with
    | mock o mv => exact SfStep.of_exps_eq rfl (fun _ => rfl)
    | seq s => exact SfStep.of_exps_eq rfl (fun _ => rfl)
    | sat e => exact SfStep.of_exps_eq rfl (fun _ => rfl)
    | satd e => exact SfStep.of_exps_eq rfl (fun _ => rfl)
    | completed s => exact SfStep.of_exps_eq rfl (fun _ => rfl)
    | watched x => exact SfStep.of_exps_eq rfl (fun _ => rfl)
    | copyw x y => exact SfStep.of_exps_eq rfl (fun _ => rfl)
    | movew x y => exact SfStep.of_exps_eq rfl (fun _ => rfl)
    | assignw d s => exact SfStep.of_exps_eq rfl (fun _ => rfl)
    | msat m => exact SfStep.of_exps_eq rfl (fun _ => rfl)
    | msatd m => exact SfStep.of_exps_eq rfl (fun _ => rfl)
    | tracer t => exact SfStep.of_exps_eq rfl (fun _ => rfl)
    | killtracer t => exact SfStep.of_exps_eq rfl (fun _ => rfl)
    | setreporter r ok => exact SfStep.of_exps_eq rfl (fun _ => by cases ok <;> rfl)
    | killseq s =>
      simp only
      cases hs : w.seqs s with
      | none => exact SfStep.of_exps_eq rfl (fun _ => rfl)
      | some x =>
        refine SfStep.of_exps_eq rfl (fun e => ?_)
        simp only
        split <;> simp [sfCount, Ev.shortfallOf, rep]
    | monitor m x ss =>
      simp only
      cases w.watched x with
      | none => exact SfStep.of_exps_eq rfl (fun _ => rfl)
      | some y => exact SfStep.of_exps_eq (by simp only [register, foldl_setSeqPending_exps]) (fun _ => rfl)
    | releasemon m =>
      simp only
      cases hx : w.mons m with
      | none => exact SfStep.of_exps_eq rfl (fun _ => rfl)
      | some x =>
        refine SfStep.of_exps_eq ?_ (fun e => ?_)
        · simp only; rw [retireOwn_exps]; split
          · rfl
          · split <;> rfl
        · simp only; split <;> simp [sfCount, Ev.shortfallOf, rep]
    | killw x =>
      simp only
      cases hy : w.watched x with
      | none => exact SfStep.of_exps_eq rfl (fun _ => rfl)
      | some y =>
        simp only
        split
        · exact SfStep.of_exps_eq rfl (fun e => by simp [sfCount, Ev.shortfallOf, rep])
        · have : ∀ (ms : List Nat) (acc : World × List Ev),
              (ms.foldl (fun (acc : World × List Ev) m => let (w1, e1) := acc.1.notify m; (w1, acc.2 ++ e1)) acc).1.exps = acc.1.exps ∧
              ∀ e, sfCount e (ms.foldl (fun (acc : World × List Ev) m => let (w1, e1) := acc.1.notify m; (w1, acc.2 ++ e1)) acc).2 = sfCount e acc.2 := by
            intro ms
            induction ms with
            | nil => intro acc; exact ⟨rfl, fun _ => rfl⟩
            | cons a as ih =>
              intro acc
              simp only [List.foldl_cons]
              obtain ⟨h1, h2⟩ := ih ((acc.1.notify a).1, acc.2 ++ (acc.1.notify a).2)
              refine ⟨by rw [h1]; exact notify_exps _ _, fun e => ?_⟩
              rw [h2 e, sfCount_append, notify_sf]; rfl
          obtain ⟨h1, h2⟩ := this y.monitors ({ w with watched := upd w.watched x { alive := false, monitors := [] } }, [])
          exact SfStep.of_exps_eq h1 (fun e => by rw [h2 e]; rfl)
    | expect e x =>
      simp only
      split
      · exact SfStep.of_exps_eq rfl (fun _ => rfl)
      · have hfresh : w.exps e = none := by
          simp only [legal, Bool.and_eq_true, beq_iff_eq] at hl
          exact hw.fresh e (by omega)
        cases hm : w.mocks x.obj with
        | none => simpa [hm] using SfStep.of_exps_eq (w := w) (w' := w) (evs := [.badOp]) rfl (fun _ => rfl)
        | some m =>
          simp only [hm]
          intro e'
          by_cases h : e' = e
          · subst h
            refine ⟨Or.inl ⟨rfl, ?_⟩, by simp [setMock_exps]⟩
            simp [repd, hfresh]
          · have hex : ((({ w with nextE := e + 1 } : World).register (.exp e) x.seqs).setExp e
                { obj := x.obj, fn := x.fn, params := x.params, conds := x.conds, effects := x.effects, ret := x.ret,
                  lo := x.lo, hi := x.hi, seqs := x.seqs }).exps e' = w.exps e' := by
              rw [setExp_exps_other _ _ h]; simp only [register, foldl_setSeqPending_exps]
            refine ⟨Or.inl ⟨rfl, ?_⟩, ?_⟩
            · unfold repd; rw [setMock_exps, hex]; exact id
            · rw [setMock_exps, hex]; exact id
    | release e =>
      simp only
      cases hx : w.exps e with
      | none => exact SfStep.of_exps_eq rfl (fun _ => rfl)
      | some x =>
        simp only [releaseExp]
        have h1 : ((w.unlinkExp e x).retireOwn (.exp e) x.seqs).exps = w.exps := by
          rw [retireOwn_exps]; unfold unlinkExp; cases w.mocks x.obj <;> simp; split <;> rfl
        intro e'
        by_cases he : e' = e
        · subst he
          refine ⟨?_, by simp⟩
          by_cases hu : isUnfulfilled x = true
          · refine Or.inr ⟨by simp [hu, sfCount, Ev.shortfallOf, rep], ?_, by simp [repd, hu]⟩
            unfold isUnfulfilled at hu
            simp only [repd, hx]
            cases hr : x.reported <;> simp_all
          · refine Or.inl ⟨by simp [hu, sfCount], ?_⟩
            simp [repd, hx]
            intro h; simp [h]
        · refine ⟨Or.inl ⟨?_, ?_⟩, ?_⟩
          · split
            · have : (e == e') = false := by simp [Ne.symm he]
              simp [sfCount, Ev.shortfallOf, rep, this]
            · rfl
          · unfold repd; rw [setExp_exps_other _ _ he, h1]; exact id
          · rw [setExp_exps_other _ _ he, h1]; exact id
    | move o o' =>
      simp only
      cases hm : w.mocks o with
      | none => exact SfStep.of_exps_eq rfl (fun _ => rfl)
      | some m =>
        intro e
        unfold moveMock repd
        simp only [setMock_exps]
        cases w.exps e with
        | none => exact ⟨Or.inl ⟨rfl, id⟩, fun _ => rfl⟩
        | some x =>
          refine ⟨Or.inl ⟨rfl, ?_⟩, by simp⟩
          simp only [Option.map_some]; split <;> exact id
    | kill o =>
      simp only
      cases hm : w.mocks o with
      | none => exact SfStep.of_exps_eq rfl (fun _ => rfl)
      | some m => exact killMock_sf w o m
    | call o f a =>
      simp only
      cases hm : w.mocks o with
      | none => simpa [callFn, hm] using SfStep.of_exps_eq (w := w) (w' := w) (evs := [.badOp]) rfl (fun _ => rfl)
      | some m =>
        have hex : ∀ e ∈ m.active f, ∃ x, w.exps e = some x := by
          intro e he; obtain ⟨x, hx, _⟩ := hw.act o m f e hm he; exact ⟨x, hx⟩
        have hlog : ∀ (l : List Nat) e, sfCount e (l.flatMap (w.matchLog a)) = 0 := by
          intro l e
          apply sfCount_noReport
          intro ev hev; obtain ⟨e1, i, rfl⟩ := flatMap_matchLog_all_with w a l ev hev; rfl
        have htr : ∀ e1 r e, sfCount e (w.traceEv e1 a r) = 0 := by
          intro e1 r e
          apply sfCount_noReport
          intro ev hev; obtain ⟨t, rfl⟩ := traceEv_all_trace w e1 a r ev hev; rfl
        cases callFn_cases w o f a m hm hex with
        | noMatch hfind heq =>
          obtain ⟨pre, r, hev, hpre, s, t, hr⟩ := reportMismatch_events w m f a
          rw [heq]
          intro e
          have h0 : sfCount e pre = 0 := by
            apply sfCount_noReport
            intro ev hev'; obtain ⟨e1, i, rfl⟩ := hpre ev hev'; rfl
          have hs : sfCount e (List.flatMap (w.matchLog a) (find (w.expMatches a) w.expOrder (m.active f)).2 ++ (w.reportMismatch m f a).2) = 0 := by
            rw [sfCount_append, hlog, hev, sfCount_append, h0, hr]; simp [sfCount, Ev.shortfallOf, rep]
          have hmono : (w.repd e = true → (w.reportMismatch m f a).1.repd e = true) ∧ ((w.reportMismatch m f a).1.exps e = none → w.exps e = none) := by
            unfold reportMismatch
            simp only
            split
            · exact markReported_mono w _ e
            · exact ⟨id, id⟩
          exact ⟨Or.inl ⟨hs, hmono.1⟩, hmono.2⟩
        | forbidden e x hfind hx hhi heq =>
          rw [heq]
          intro e'
          have hs : sfCount e' (List.flatMap (w.matchLog a) (find (w.expMatches a) w.expOrder (m.active f)).2 ++
              ([w.rep .fatal (.forbidden e a)] ++ w.traceEv e a (.threw .rep) ++ [.result (.threw .rep)])) = 0 := by
            simp only [sfCount_append, hlog, htr]; simp [sfCount, Ev.shortfallOf, rep]
          by_cases he : e' = e
          · subst he; exact ⟨Or.inl ⟨hs, fun _ => by simp [repd]⟩, by simp⟩
          · exact ⟨Or.inl ⟨hs, by rw [repd_setExp_other _ _ _ _ he]; exact id⟩, by rw [setExp_exps_other _ _ he]; exact id⟩
        | blocked e x r hfind hx hhi hord hrk0 heq =>
          rw [heq]
          intro e'
          refine ⟨Or.inl ⟨?_, id⟩, id⟩
          simp only [sfCount_append, hlog, htr]
          have hv : ∀ r', (w.validateAll (.exp e) x.seqs).head? = some r' → Ev.shortfallOf e' (w.rep .fatal r') = false := by
            intro r' h
            have hm' := List.mem_of_mem_head? h
            unfold validateAll at hm'
            obtain ⟨s, _, hs⟩ := List.mem_filterMap.mp hm'
            exact validateOne_not_shortfall w _ s r' hs _ _ _
          have hrk : Ev.shortfallOf e' (w.rep .fatal r) = false := by
            rw [hrk0]
            cases hh : (w.validateAll (.exp e) x.seqs).head? with
            | none => rfl
            | some r' => exact hv r' hh
          have hone : sfCount e' [w.rep .fatal r] = 0 := by simp [sfCount, hrk]
          rw [hone]; simp [sfCount, Ev.shortfallOf]
        | accepted e x n hfind hx hhi hord heq =>
          rw [heq]
          intro e'
          have hact : sfCount e' (actionEvents e x a).1 = 0 := by
            apply sfCount_noReport
            intro ev hev
            have := (actionEvents_actor e x a ev hev).1
            cases ev <;> simp_all [Ev.isAction, Ev.isReport]
          have hs : sfCount e' (List.flatMap (w.matchLog a) (find (w.expMatches a) w.expOrder (m.active f)).2 ++
              ([Ev.ok w.okReporter e] ++ (actionEvents e x a).1 ++ w.traceEv e a (actionEvents e x a).2 ++ [.result (actionEvents e x a).2])) = 0 := by
            simp only [sfCount_append, hlog, htr, hact]; simp [sfCount, Ev.shortfallOf]
          by_cases he : e' = e
          · subst he
            refine ⟨Or.inl ⟨hs, ?_⟩, by rw [bookkeep_exps_same]; simp⟩
            unfold repd; rw [bookkeep_exps_same, hx]; exact id
          · refine ⟨Or.inl ⟨hs, ?_⟩, by rw [bookkeep_exps_other _ _ _ _ _ _ he]; exact id⟩
            unfold repd; rw [bookkeep_exps_other _ _ _ _ _ _ he]; exact id
  · simpa [hl] using SfStep.of_exps_eq (w := w) (w' := w) (evs := [.badOp]) rfl (fun _ => rfl)

end World
end Tromp
