/-
  Lemmas/Chain.lean — the singly linked chains refine lists (Model/Chain.lean).
-/
import TrompModel.Model.Chain

namespace Tromp.Chain

/-- `l` is the chain starting at `start`: consecutive `next` members, ending in null. -/
def IsChainFrom (h : Heap) : Option Nat → List Nat → Prop
  | start, [] => start = none
  | start, x :: l => start = some x ∧ IsChainFrom h (h.next x) l

/-- the heap represents the list: the head starts the chain, and the nodes are distinct. -/
def Rep (h : Heap) (l : List Nat) : Prop := IsChainFrom h h.head l ∧ l.Nodup

theorem rep_init : Rep init [] := ⟨rfl, List.nodup_nil⟩

theorem walk_chain {h : Heap} {start : Option Nat} {l : List Nat} (c : IsChainFrom h start l) (k : Nat) :
    walkFrom h (l.length + 1 + k) start = l := by
  induction l generalizing start with
  | nil => cases c; cases k <;> rfl
  | cons x l ih =>
    obtain ⟨rfl, c'⟩ := c
    have : (x :: l).length + 1 + k = (l.length + 1 + k) + 1 := by simp; omega
    rw [this, walkFrom, ih c']

/-- **a walk visits exactly the list, in order.** -/
theorem toList_rep {h : Heap} {l : List Nat} (R : Rep h l) (k : Nat) : toList h (l.length + 1 + k) = l := walk_chain R.1 k

theorem chain_congr {h h' : Heap} {start : Option Nat} {l : List Nat} (c : IsChainFrom h start l)
    (e : ∀ y ∈ l, h'.next y = h.next y) : IsChainFrom h' start l := by
  induction l generalizing start with
  | nil => exact c
  | cons x l ih =>
    obtain ⟨hs, c'⟩ := c
    refine ⟨hs, ?_⟩
    rw [e x (by simp)]
    exact ih c' (fun y hy => e y (by simp [hy]))

/-- **push**: a node that is not in the chain hooked in front. -/
theorem rep_push {h : Heap} {l : List Nat} (R : Rep h l) {x : Nat} (hx : x ∉ l) : Rep (push x h) (x :: l) := by
  refine ⟨⟨rfl, ?_⟩, List.nodup_cons.mpr ⟨hx, R.2⟩⟩
  have hn : (push x h).next x = h.head := by simp [push, Heap.write]
  rw [hn]
  refine chain_congr R.1 (fun y hy => ?_)
  have : y ≠ x := by rintro rfl; exact hx hy
  simp [push, Heap.write, this]

/-- the loop from a slot whose chain is `l`: the first occurrence of `x` is bypassed, nothing else is written. -/
theorem unlinkLoop_chain {h : Heap} (x : Nat) (p : Slot) (l : List Nat) (k : Nat)
    (c : IsChainFrom h (h.read p) l) (nd : l.Nodup) (hp : ∀ y, p = .nextOf y → y ∉ l) :
    let h' := unlinkLoop x (l.length + 1 + k) p h
    IsChainFrom h' (h'.read p) (l.erase x) ∧ (∀ q, q ≠ p → (∀ y ∈ l, q ≠ .nextOf y) → h'.read q = h.read q) := by
  induction l generalizing p with
  | nil =>
    have hr : h.read p = none := c
    have : ([] : List Nat).length + 1 + k = k + 1 := by simp; omega
    simp only [this, unlinkLoop, hr]
    exact ⟨rfl, fun _ _ _ => trivial⟩
  | cons y l ih =>
    obtain ⟨hr, c'⟩ := c
    have hnd := List.nodup_cons.mp nd
    have : (y :: l).length + 1 + k = (l.length + 1 + k) + 1 := by simp; omega
    simp only [this, unlinkLoop, hr]
    by_cases e : y = x
    · subst e
      simp only [if_true, List.erase_cons_head]
      have hw : ∀ q, q ≠ p → (h.write p (h.next y)).read q = h.read q := by
        intro q hq
        cases p <;> cases q <;> simp_all [Heap.write, Heap.read]
      have hself : (h.write p (h.next y)).read p = h.next y := by cases p <;> simp [Heap.write, Heap.read]
      refine ⟨?_, fun q hq _ => hw q hq⟩
      rw [hself]
      refine chain_congr c' (fun z hz => ?_)
      have hz' : Slot.nextOf z ≠ p := by
        intro e'; exact hp z e'.symm (by simp [hz])
      have := hw (.nextOf z) hz'
      simpa [Heap.read] using this
    · simp only [e, if_false]
      have hne : (y :: l).erase x = y :: l.erase x := by
        rw [List.erase_cons_tail]; simpa using e
      rw [hne]
      have hp' : ∀ z, Slot.nextOf y = .nextOf z → z ∉ l := by
        intro z ez; cases ez; exact hnd.1
      obtain ⟨ih1, ih2⟩ := ih (.nextOf y) (by simpa [Heap.read] using c') hnd.2 hp'
      refine ⟨⟨?_, ?_⟩, ?_⟩
      · -- the slot `p` still holds `y`
        have hpy : p ≠ .nextOf y := by
          intro e'; exact hp y e' (by simp)
        have := ih2 p hpy (fun z hz e' => hp z e' (by simp [hz]))
        rw [this]; exact hr
      · simpa [Heap.read] using ih1
      · intro q hq hql
        refine ih2 q ?_ (fun z hz => hql z (by simp [hz]))
        intro e'; exact hql y (by simp) e'

/-- **unlink-this**: the loop of `~tracer` / `~lifetime_monitor` removes exactly `x` from the chain (and is harmless when `x` is
    not on it — the object has died, or the requirement was already told). -/
theorem rep_unlinkThis {h : Heap} {l : List Nat} (R : Rep h l) (x : Nat) (k : Nat) :
    Rep (unlinkThis x (l.length + 1 + k) h) (l.erase x) := by
  obtain ⟨c, _⟩ := unlinkLoop_chain x .head l k (by simpa [Heap.read] using R.1) R.2 (fun y e => by cases e)
  exact ⟨by simpa [Heap.read, unlinkThis] using c, R.2.erase x⟩

/-! ### every script -/

inductive Op
  | push (x : Nat)
  | unlinkThis (x : Nat)
  deriving Repr

def absStep (l : List Nat) : Op → List Nat
  | .push x => x :: l
  | .unlinkThis x => l.erase x

def exec (l : List Nat) (h : Heap) : Op → Heap
  | .push x => push x h
  | .unlinkThis x => unlinkThis x (l.length + 1) h

def legal (l : List Nat) : Op → Prop
  | .push x => x ∉ l
  | .unlinkThis _ => True

def run : List Nat × Heap → List Op → List Nat × Heap
  | s, [] => s
  | (l, h), op :: ops => run (absStep l op, exec l h op) ops

def legalRun : List Nat → List Op → Prop
  | _, [] => True
  | l, op :: ops => legal l op ∧ legalRun (absStep l op) ops

theorem rep_step {h : Heap} {l : List Nat} (R : Rep h l) (op : Op) (lg : legal l op) : Rep (exec l h op) (absStep l op) := by
  cases op with
  | push x => exact rep_push R lg
  | unlinkThis x => exact rep_unlinkThis R x 0

/-- **for every script of pushes (of nodes not on the chain) and unlink-this loops the pointers represent the list.** -/
theorem rep_run {h : Heap} {l : List Nat} (R : Rep h l) (ops : List Op) (lg : legalRun l ops) :
    Rep (run (l, h) ops).2 (run (l, h) ops).1 := by
  induction ops generalizing l h with
  | nil => exact R
  | cons op ops ih => exact ih (rep_step R op lg.1) lg.2

-- a concrete script: push 1, 2, 3; the middle one leaves; then the oldest
example : toList (run ([], init) [.push 1, .push 2, .push 3, .unlinkThis 2, .unlinkThis 1]).2 5 = [3] := by decide
example : (run ([], init) [.push 1, .push 2, .push 3, .unlinkThis 2]).1 = [3, 1] := by decide

end Tromp.Chain

/-! ### a family of chains over one `next` member (one chain per watched object) -/

namespace Tromp.Chain

structure Fam where
  heads : Nat → Option Nat
  next : Nat → Option Nat

def Fam.proj (F : Fam) (x : Nat) : Heap := ⟨F.heads x, F.next⟩

def Fam.put (F : Fam) (x : Nat) (h : Heap) : Fam := ⟨fun y => if y = x then h.head else F.heads y, h.next⟩

def famInit : Fam := ⟨fun _ => none, fun _ => none⟩

/-- every object's chain is represented, and no node is on two chains. -/
structure FamRep (F : Fam) (lists : Nat → List Nat) : Prop where
  each : ∀ x, Rep (F.proj x) (lists x)
  disj : ∀ x y, x ≠ y → ∀ m ∈ lists x, m ∉ lists y

theorem famRep_init : FamRep famInit (fun _ => []) :=
  ⟨fun _ => rep_init, fun _ _ _ m hm => by cases hm⟩

/-- an operation on the chain of `x` that writes only the head of `x` and `next` members of nodes on that chain (or of a node on
    no chain) leaves every other chain as it was. -/
theorem famRep_update {F : Fam} {lists : Nat → List Nat} (R : FamRep F lists) (x : Nat) (h' : Heap) (l' : List Nat)
    (hx : Rep h' l') (hsub : ∀ m ∈ l', m ∈ lists x ∨ ∀ y, m ∉ lists y)
    (hframe : ∀ m, (∀ y, y ≠ x → m ∈ lists y → h'.next m = F.next m)) :
    FamRep (F.put x h') (fun y => if y = x then l' else lists y) := by
  refine ⟨fun y => ?_, fun y z hne m hm hin => ?_⟩
  · by_cases e : y = x
    · subst e
      have : (F.put y h').proj y = h' := by simp [Fam.put, Fam.proj]
      simp only [if_true, this]; exact hx
    · simp only [e, if_false]
      have hR := R.each y
      refine ⟨?_, hR.2⟩
      have hh : ((F.put x h').proj y).head = (F.proj y).head := by simp [Fam.put, Fam.proj, e]
      rw [hh]
      exact chain_congr hR.1 (fun m hm => by show h'.next m = F.next m; exact hframe m y e hm)
  · by_cases e1 : y = x
    · subst e1
      have e2 : z ≠ y := fun e => hne e.symm
      simp only [if_true] at hm
      simp only [e2, if_false] at hin
      rcases hsub m hm with h | h
      · exact R.disj y z hne m h hin
      · exact h z hin
    · simp only [e1, if_false] at hm
      by_cases e2 : z = x
      · subst e2
        simp only [if_true] at hin
        rcases hsub m hin with h | h
        · exact R.disj y z hne m hm h
        · exact h y hm
      · simp only [e2, if_false] at hin
        exact R.disj y z hne m hm hin

/-- a new requirement `m` (on no chain) hooks itself in front of the chain of object `x`. -/
theorem famRep_push {F : Fam} {lists : Nat → List Nat} (R : FamRep F lists) (x m : Nat) (hm : ∀ y, m ∉ lists y) :
    FamRep (F.put x (push m (F.proj x))) (fun y => if y = x then m :: lists x else lists y) := by
  refine famRep_update R x _ _ (rep_push (R.each x) (hm x)) ?_ ?_
  · intro m' h'
    rcases List.mem_cons.mp h' with rfl | h'
    · exact Or.inr hm
    · exact Or.inl h'
  · intro m' y _ hin
    have : m' ≠ m := by rintro rfl; exact hm y hin
    simp [push, Heap.write, Fam.proj, this]

/-- a requirement ends while its object is alive: the unlink-this loop on that object's chain. -/
theorem famRep_unlinkThis {F : Fam} {lists : Nat → List Nat} (R : FamRep F lists) (x m : Nat) :
    FamRep (F.put x (unlinkThis m ((lists x).length + 1) (F.proj x))) (fun y => if y = x then (lists x).erase m else lists y) := by
  have hR := R.each x
  obtain ⟨_, frame⟩ := unlinkLoop_chain m .head (lists x) 0 (by simpa [Heap.read] using hR.1) hR.2 (fun y e => by cases e)
  refine famRep_update R x _ _ (rep_unlinkThis hR m 0) (fun m' h' => Or.inl (List.mem_of_mem_erase h')) ?_
  intro m' y hy hin
  have := frame (.nextOf m') (by intro e; cases e) (fun z hz e => by
    cases e
    exact R.disj x y (fun e => hy e.symm) m' hz hin)
  simpa [Heap.read, unlinkThis, Fam.proj] using this

/-- the object dies: `leak()` takes the head; the nodes keep their (now meaningless) `next` members. -/
theorem famRep_clear {F : Fam} {lists : Nat → List Nat} (R : FamRep F lists) (x : Nat) :
    FamRep (F.put x ⟨none, F.next⟩) (fun y => if y = x then [] else lists y) := by
  refine famRep_update R x _ _ ⟨rfl, List.nodup_nil⟩ (fun m h => by cases h) (fun m y _ _ => rfl)

end Tromp.Chain
