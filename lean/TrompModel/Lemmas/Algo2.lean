/-
  Lemmas/Algo2.lean — further facts about Model/Algo.lean: uniqueness of the designated element,
  the examined prefix, retire_until, order (maximum), WITH evaluation counts.
-/
import TrompModel.Lemmas.Algo

namespace Tromp

variable {α : Type}

theorem find_none_iff (m : α → Bool) (c : α → Cost) (l : List α) :
    (find m c l).1 = none ↔ ∀ x ∈ l, m x = false := by
  have h := find_spec m c l
  constructor
  · intro hn; rw [hn] at h; exact h
  · intro hall
    cases hf : (find m c l).1 with
    | none => rfl
    | some e =>
      rw [hf] at h
      obtain ⟨pre, post, hl, hm, _, _⟩ := h
      have : e ∈ l := by rw [hl]; simp
      rw [hall e this] at hm; cases hm

theorem find_some_mem {m : α → Bool} {c : α → Cost} {l : List α} {e : α}
    (h : (find m c l).1 = some e) : e ∈ l ∧ m e = true := by
  have hs := find_spec m c l
  rw [h] at hs
  obtain ⟨pre, post, hl, hm, _, _⟩ := hs
  exact ⟨by rw [hl]; simp, hm⟩

theorem Cost.lt_irrefl (a : Cost) : Cost.lt a a = false := by
  cases a <;> simp [Cost.lt]

/-- in a duplicate-free list the designated element is unique. -/
theorem IsDesignated.unique {m : α → Bool} {c : α → Cost} {l : List α} {e e' : α}
    (hnd : l.Nodup) (h : IsDesignated m c l e) (h' : IsDesignated m c l e') : e = e' := by
  obtain ⟨pre, post, hl, hm, hpre, hpost⟩ := h
  obtain ⟨pre', post', hl', hm', hpre', hpost'⟩ := h'
  -- e' is in pre, equals e, or is in post
  have he' : e' ∈ pre ++ e :: post := by rw [← hl, hl']; simp
  rcases List.mem_append.mp he' with hin | hin
  · -- e' before e: then cost e < cost e', but e after e' means e ∈ post' so ¬ cost e < cost e'
    have h1 := hpre e' hin hm'
    have he : e ∈ pre' ++ e' :: post' := by rw [← hl', hl]; simp
    rcases List.mem_append.mp he with hin' | hin'
    · -- e before e' and e' before e: contradiction with Nodup
      exfalso
      have h2 := hpre' e hin' hm
      have := Cost.lt_trans h1 h2
      rw [Cost.lt_irrefl] at this; cases this
    · rcases List.mem_cons.mp hin' with heq | hin''
      · exact heq
      · have := hpost' e hin'' hm
        rw [h1] at this; cases this
  · rcases List.mem_cons.mp hin with heq | hin'
    · exact heq.symm
    · -- e' after e: ¬ cost e' < cost e; and e relative to e'
      have h1 := hpost e' hin' hm'
      have he : e ∈ pre' ++ e' :: post' := by rw [← hl', hl]; simp
      rcases List.mem_append.mp he with hin2 | hin2
      · have := hpre' e hin2 hm
        rw [h1] at this; cases this
      · rcases List.mem_cons.mp hin2 with heq | hin3
        · exact heq
        · -- e after e' and e' after e : both positions, contradiction with Nodup
          exfalso
          rw [hl] at hnd
          have hd := List.nodup_append.mp hnd
          have hcons := List.nodup_cons.mp hd.2.1
          -- e ∉ post
          have : e ∈ post := by
            -- from hl' : l = pre' ++ e' :: post' with e ∈ post' ; and l = pre ++ e :: post with e' ∈ post
            -- positions: count of e in l is 1
            -- split l at e' (from hl'), e ∈ post'; and e' ∈ post means e occurs before e'
            -- e' ∈ post gives post = p1 ++ e' :: p2 ; then l = (pre ++ e :: p1) ++ e' :: p2
            obtain ⟨p1, p2, hp⟩ := List.append_of_mem hin'
            have hl2 : l = (pre ++ e :: p1) ++ e' :: p2 := by rw [hl, hp]; simp
            -- uniqueness of the split at e' in a nodup list
            have hnd' : l.Nodup := by rw [hl]; exact hnd
            have hsplit : pre' = pre ++ e :: p1 ∧ post' = p2 := by
              have := hl'.symm.trans hl2
              exact nodup_split_unique (by rw [← hl']; exact hnd') this
            rw [hsplit.2] at hin3
            rw [hp]; simp [hin3]
          exact hcons.1 this
where
  nodup_split_unique {a : α} {x1 y1 x2 y2 : List α} (hnd : (x1 ++ a :: y1).Nodup)
      (h : x1 ++ a :: y1 = x2 ++ a :: y2) : x1 = x2 ∧ y1 = y2 := by
    induction x1 generalizing x2 with
    | nil =>
      cases x2 with
      | nil => simpa using h
      | cons b x2 =>
        simp at h
        obtain ⟨hab, hy⟩ := h
        subst hab
        exfalso
        have := (List.nodup_cons.mp hnd).1
        apply this; rw [hy]; simp
    | cons b x1 ih =>
      cases x2 with
      | nil =>
        simp at h
        obtain ⟨hab, hy⟩ := h
        subst hab
        exfalso
        have := (List.nodup_cons.mp hnd).1
        apply this; simp
      | cons b' x2 =>
        simp at h
        obtain ⟨hb, hrest⟩ := h
        subst hb
        have := ih (List.nodup_cons.mp hnd).2 hrest
        exact ⟨by rw [this.1], this.2⟩

/-- C02, both directions: in a duplicate-free list `find` returns `e` exactly when `e` is the first
    matching element of least cost. -/
theorem find_eq_some_iff (m : α → Bool) (c : α → Cost) (l : List α) (hnd : l.Nodup) (e : α) :
    (find m c l).1 = some e ↔ IsDesignated m c l e := by
  constructor
  · intro h; have := find_spec m c l; rw [h] at this; exact this
  · intro hd
    cases hf : (find m c l).1 with
    | none =>
      obtain ⟨pre, post, hl, hm, _, _⟩ := hd
      have := (find_none_iff m c l).mp hf e (by rw [hl]; simp)
      rw [this] at hm; cases hm
    | some e' =>
      have := find_spec m c l; rw [hf] at this
      rw [IsDesignated.unique hnd this hd]

/-- the examined elements are a prefix of the list … -/
theorem examined_prefix (m : α → Bool) (c : α → Cost) (l : List α) : examined m c l <+: l := by
  induction l with
  | nil => simp [examined]
  | cons e rest ih =>
    unfold examined
    split
    · exact ⟨rest, by simp⟩
    · exact List.cons_prefix_cons.mpr ⟨rfl, ih⟩

/-- … that stops right after the first match of cost 0 and contains no other. -/
theorem examined_spec (m : α → Bool) (c : α → Cost) (l : List α) :
    (examined m c l = l ∧ ∀ x ∈ l.dropLast, ¬ (m x = true ∧ c x = some 0)) ∨
    (∃ pre e post, l = pre ++ e :: post ∧ examined m c l = pre ++ [e] ∧ m e = true ∧ c e = some 0 ∧
      ∀ x ∈ pre, ¬ (m x = true ∧ c x = some 0)) := by
  induction l with
  | nil => left; simp [examined]
  | cons e rest ih =>
    unfold examined
    by_cases h : (m e && (c e == some 0)) = true
    · right
      simp only [h, if_true]
      simp at h
      exact ⟨[], e, rest, rfl, rfl, h.1, h.2, by simp⟩
    · simp only [h]
      have h' : ¬ (m e = true ∧ c e = some 0) := by simpa using h
      rcases ih with ⟨heq, hall⟩ | ⟨pre, e', post, hl, hex, hm, hc, hpre⟩
      · left
        refine ⟨by simp [heq], ?_⟩
        intro x hx
        cases rest with
        | nil => simp at hx
        | cons r rs =>
          simp [List.dropLast] at hx
          rcases hx with rfl | hx
          · exact h'
          · exact hall x (by simpa [List.dropLast] using hx)
      · right
        refine ⟨e :: pre, e', post, by simp [hl], by simp [hex], hm, hc, ?_⟩
        intro x hx
        rcases List.mem_cons.mp hx with rfl | hx
        · exact h'
        · exact hpre x hx

section retire
variable [DecidableEq α]

theorem retireUntil_of_not_mem {h : α} {l : List α} (hn : h ∉ l) : retireUntil h l = l := by
  simp [retireUntil, hn]

theorem retireUntil_of_mem {h : α} {l : List α} (hm : h ∈ l) :
    ∃ pre post, l = pre ++ h :: post ∧ h ∉ pre ∧ retireUntil h l = h :: post := by
  induction l with
  | nil => cases hm
  | cons x xs ih =>
    by_cases hx : x = h
    · subst hx
      exact ⟨[], xs, rfl, by simp, by simp [retireUntil, List.dropWhile]⟩
    · have hm' : h ∈ xs := by
        rcases List.mem_cons.mp hm with e | e
        · exact absurd e.symm hx
        · exact e
      obtain ⟨pre, post, hl, hnot, hr⟩ := ih hm'
      refine ⟨x :: pre, post, by simp [hl], ?_, ?_⟩
      · intro hin; rcases List.mem_cons.mp hin with e | e
        · exact hx e.symm
        · exact hnot e
      · simp only [retireUntil, hm, if_true]
        simp only [retireUntil, hm', if_true] at hr
        have hr' : List.dropWhile (fun x => !decide (x = h)) xs = h :: post := by simpa using hr
        simp [List.dropWhile, hx, hr']

theorem retireUntil_suffix (h : α) (l : List α) : retireUntil h l <:+ l := by
  by_cases hm : h ∈ l
  · obtain ⟨pre, post, hl, _, hr⟩ := retireUntil_of_mem hm
    rw [hr, hl]; exact List.suffix_append _ _
  · rw [retireUntil_of_not_mem hm]; exact List.suffix_refl _

theorem mem_retireUntil_self {h : α} {l : List α} (hm : h ∈ l) : h ∈ retireUntil h l := by
  obtain ⟨_, _, _, _, hr⟩ := retireUntil_of_mem hm
  rw [hr]; simp

/-- after `retire_until(h)` the handle `h` is first in line: its cost is 0. -/
theorem seqCost_retireUntil (sat : α → Bool) {h : α} {l : List α} (hm : h ∈ l) :
    seqCost sat h (retireUntil h l) = some 0 := by
  obtain ⟨_, post, _, _, hr⟩ := retireUntil_of_mem hm
  rw [hr]; simp [seqCost, seqCostGo]

end retire

theorem Cost.max_eq_none {a b : Cost} : Cost.max a b = none ↔ a = none ∨ b = none := by
  cases a <;> cases b <;> simp [Cost.max]

theorem foldl_max_none (cs : List Cost) : cs.foldl Cost.max none = none := by
  induction cs with
  | nil => rfl
  | cons c cs ih => simpa [List.foldl, Cost.max] using ih

theorem foldl_max_eq_none (cs : List Cost) (a : Cost) :
    cs.foldl Cost.max a = none ↔ a = none ∨ none ∈ cs := by
  induction cs generalizing a with
  | nil => simp
  | cons c cs ih =>
    simp only [List.foldl, ih, Cost.max_eq_none, List.mem_cons]
    constructor
    · rintro ((h | h) | h)
      · exact Or.inl h
      · exact Or.inr (Or.inl h.symm)
      · exact Or.inr (Or.inr h)
    · rintro (h | h | h)
      · exact Or.inl (Or.inl h)
      · exact Or.inl (Or.inr h.symm)
      · exact Or.inr h

/-- `order() == ~0U` exactly when some handle is not callable. -/
theorem orderOf_eq_none (cs : List Cost) : orderOf cs = none ↔ none ∈ cs := by
  simp [orderOf, foldl_max_eq_none]

theorem foldl_max_some (cs : List Cost) (a n : Nat) :
    cs.foldl Cost.max (some a) = some n →
      a ≤ n ∧ (∀ c ∈ cs, ∃ k, c = some k ∧ k ≤ n) ∧ (n = a ∨ some n ∈ cs) := by
  induction cs generalizing a with
  | nil => intro h; simp at h; subst h; simp
  | cons c cs ih =>
    intro h
    cases c with
    | none =>
      simp only [List.foldl, Cost.max] at h
      rw [foldl_max_none] at h; cases h
    | some k =>
      simp only [List.foldl, Cost.max] at h
      obtain ⟨h1, h2, h3⟩ := ih _ h
      have hak : a ≤ Nat.max a k := Nat.le_max_left _ _
      have hkk : k ≤ Nat.max a k := Nat.le_max_right _ _
      refine ⟨Nat.le_trans hak h1, ?_, ?_⟩
      · intro c hc
        rcases List.mem_cons.mp hc with rfl | hc
        · exact ⟨k, rfl, Nat.le_trans hkk h1⟩
        · exact h2 c hc
      · rcases h3 with h3 | h3
        · by_cases hle : k ≤ a
          · left; rw [h3]; exact Nat.max_eq_left hle
          · right; rw [h3]
            have : Nat.max a k = k := Nat.max_eq_right (by omega)
            rw [this]; simp
        · right; simp [h3]

/-- `order()` is the maximum of the handle costs (0 when there is no handle). -/
theorem orderOf_eq_some (cs : List Cost) (n : Nat) (h : orderOf cs = some n) :
    (∀ c ∈ cs, ∃ k, c = some k ∧ k ≤ n) ∧ (n = 0 ∨ some n ∈ cs) := by
  obtain ⟨_, h2, h3⟩ := foldl_max_some cs 0 n h
  exact ⟨h2, h3⟩

/-- WITH clauses: all hold ⇒ every one is evaluated … -/
theorem condsEvaluated_of_ok (cs : List (α → Bool)) (a : α) (h : condsOk cs a = true) :
    condsEvaluated cs a = cs.length := by
  induction cs with
  | nil => rfl
  | cons c cs ih =>
    simp only [condsOk, List.all_cons, Bool.and_eq_true] at h
    simp only [condsEvaluated, h.1, if_true, List.length_cons]
    have := ih (by simpa [condsOk] using h.2)
    omega

/-- … otherwise evaluation stops at the first that fails: exactly the clauses `0..i` run. -/
theorem condsEvaluated_of_not_ok (cs : List (α → Bool)) (a : α) (h : condsOk cs a = false) :
    ∃ i, firstFailing cs a = some i ∧ condsEvaluated cs a = i + 1 ∧ i < cs.length ∧
      (∀ j (hj : j < cs.length), j < i → (cs[j]) a = true) ∧
      (∀ (hi : i < cs.length), (cs[i]) a = false) := by
  induction cs with
  | nil => simp [condsOk] at h
  | cons c cs ih =>
    by_cases hc : c a = true
    · have h' : condsOk cs a = false := by
        simp only [condsOk, List.all_cons, hc, Bool.true_and] at h
        simpa [condsOk] using h
      obtain ⟨i, hf, he, hlt, hbefore, hat⟩ := ih h'
      refine ⟨i + 1, ?_, ?_, by simp; omega, ?_, ?_⟩
      · simp only [firstFailing, List.findIdx?_cons, hc, Bool.not_true]
        simp only [firstFailing] at hf
        simp [hf]
      · simp [condsEvaluated, hc, he]; omega
      · intro j hj hji
        cases j with
        | zero => simpa using hc
        | succ j => simpa using hbefore j (by simpa using hj) (by omega)
      · intro hi; simpa using hat hlt
    · have hc' : c a = false := by simpa using hc
      refine ⟨0, ?_, ?_, by simp, ?_, ?_⟩
      · simp [firstFailing, List.findIdx?_cons, hc']
      · simp [condsEvaluated, hc']
      · intro j _ hj; omega
      · intro _; simpa using hc'

theorem firstFailing_none_iff (cs : List (α → Bool)) (a : α) :
    firstFailing cs a = none ↔ condsOk cs a = true := by
  simp [firstFailing, condsOk, List.findIdx?_eq_none_iff]

end Tromp
