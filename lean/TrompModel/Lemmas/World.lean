/-
  Lemmas/World.lean — basic rewriting lemmas about the World model (frame conditions of the
  state-update helpers).
-/
import TrompModel.Model.World
import TrompModel.Lemmas.Algo2

namespace Tromp
open World

@[simp] theorem upd_same {α : Type} (f : Nat → Option α) (k : Nat) (v : α) : upd f k v k = some v := by
  simp [upd]

theorem upd_other {α : Type} (f : Nat → Option α) {k i : Nat} (v : α) (h : i ≠ k) : upd f k v i = f i := by
  simp [upd, h]

namespace World

@[simp] theorem setExp_exps_same (w : World) (e : Nat) (x : Exp) : (w.setExp e x).exps e = some x := by
  simp [setExp]

theorem setExp_exps_other (w : World) {e e' : Nat} (x : Exp) (h : e' ≠ e) : (w.setExp e x).exps e' = w.exps e' := by
  simp [setExp, upd, h]

@[simp] theorem setExp_seqs (w : World) (e : Nat) (x : Exp) : (w.setExp e x).seqs = w.seqs := rfl
@[simp] theorem setExp_mocks (w : World) (e : Nat) (x : Exp) : (w.setExp e x).mocks = w.mocks := rfl
@[simp] theorem setExp_mons (w : World) (e : Nat) (x : Exp) : (w.setExp e x).mons = w.mons := rfl
@[simp] theorem setExp_watched (w : World) (e : Nat) (x : Exp) : (w.setExp e x).watched = w.watched := rfl
@[simp] theorem setExp_tracers (w : World) (e : Nat) (x : Exp) : (w.setExp e x).tracers = w.tracers := rfl
@[simp] theorem setExp_reporter (w : World) (e : Nat) (x : Exp) : (w.setExp e x).reporter = w.reporter := rfl

@[simp] theorem setMock_exps (w : World) (o : Nat) (m : Mock) : (w.setMock o m).exps = w.exps := rfl
@[simp] theorem setMock_seqs (w : World) (o : Nat) (m : Mock) : (w.setMock o m).seqs = w.seqs := rfl
@[simp] theorem setMock_mons (w : World) (o : Nat) (m : Mock) : (w.setMock o m).mons = w.mons := rfl
@[simp] theorem setMock_mocks_same (w : World) (o : Nat) (m : Mock) : (w.setMock o m).mocks o = some m := by
  simp [setMock]
theorem setMock_mocks_other (w : World) {o o' : Nat} (m : Mock) (h : o' ≠ o) : (w.setMock o m).mocks o' = w.mocks o' := by
  simp [setMock, upd, h]

@[simp] theorem setSeqPending_exps (w : World) (s : Nat) (f : List Owner → List Owner) :
    (w.setSeqPending s f).exps = w.exps := by
  unfold setSeqPending; split <;> rfl
@[simp] theorem setSeqPending_mocks (w : World) (s : Nat) (f : List Owner → List Owner) :
    (w.setSeqPending s f).mocks = w.mocks := by
  unfold setSeqPending; split <;> rfl
@[simp] theorem setSeqPending_mons (w : World) (s : Nat) (f : List Owner → List Owner) :
    (w.setSeqPending s f).mons = w.mons := by
  unfold setSeqPending; split <;> rfl
@[simp] theorem setSeqPending_watched (w : World) (s : Nat) (f : List Owner → List Owner) :
    (w.setSeqPending s f).watched = w.watched := by
  unfold setSeqPending; split <;> rfl
@[simp] theorem setSeqPending_tracers (w : World) (s : Nat) (f : List Owner → List Owner) :
    (w.setSeqPending s f).tracers = w.tracers := by
  unfold setSeqPending; split <;> rfl
@[simp] theorem setSeqPending_reporter (w : World) (s : Nat) (f : List Owner → List Owner) :
    (w.setSeqPending s f).reporter = w.reporter := by
  unfold setSeqPending; split <;> rfl

theorem setSeqPending_pendingOf_same (w : World) (s : Nat) (f : List Owner → List Owner)
    (hf : f [] = []) : (w.setSeqPending s f).pendingOf s = f (w.pendingOf s) := by
  unfold setSeqPending pendingOf
  cases h : w.seqs s with
  | none => simp [h, hf]
  | some x => simp

theorem setSeqPending_pendingOf_other (w : World) {s s' : Nat} (f : List Owner → List Owner) (h : s' ≠ s) :
    (w.setSeqPending s f).pendingOf s' = w.pendingOf s' := by
  unfold setSeqPending pendingOf
  cases w.seqs s with
  | none => rfl
  | some x => simp [upd, h]

theorem setSeqPending_seqAlive (w : World) (s s' : Nat) (f : List Owner → List Owner) :
    (w.setSeqPending s f).seqAlive s' = w.seqAlive s' := by
  unfold setSeqPending seqAlive
  cases h : w.seqs s with
  | none => simp [h]
  | some x =>
    by_cases hs : s' = s
    · subst hs; simp [h]
    · simp [upd, hs]

/-- a fold of `setSeqPending` over distinct sequences: effect on one of them. -/
theorem foldl_setSeqPending_exps (w : World) (ss : List Nat) (f : List Owner → List Owner) :
    (ss.foldl (fun w s => w.setSeqPending s f) w).exps = w.exps := by
  induction ss generalizing w with
  | nil => rfl
  | cons s ss ih => simp [List.foldl, ih]

theorem foldl_setSeqPending_mocks (w : World) (ss : List Nat) (f : List Owner → List Owner) :
    (ss.foldl (fun w s => w.setSeqPending s f) w).mocks = w.mocks := by
  induction ss generalizing w with
  | nil => rfl
  | cons s ss ih => simp [List.foldl, ih]

theorem foldl_setSeqPending_mons (w : World) (ss : List Nat) (f : List Owner → List Owner) :
    (ss.foldl (fun w s => w.setSeqPending s f) w).mons = w.mons := by
  induction ss generalizing w with
  | nil => rfl
  | cons s ss ih => simp [List.foldl, ih]

theorem foldl_setSeqPending_tracers (w : World) (ss : List Nat) (f : List Owner → List Owner) :
    (ss.foldl (fun w s => w.setSeqPending s f) w).tracers = w.tracers := by
  induction ss generalizing w with
  | nil => rfl
  | cons s ss ih => simp [List.foldl, ih]

theorem foldl_setSeqPending_reporter (w : World) (ss : List Nat) (f : List Owner → List Owner) :
    (ss.foldl (fun w s => w.setSeqPending s f) w).reporter = w.reporter := by
  induction ss generalizing w with
  | nil => rfl
  | cons s ss ih => simp [List.foldl, ih]

theorem foldl_setSeqPending_watched (w : World) (ss : List Nat) (f : List Owner → List Owner) :
    (ss.foldl (fun w s => w.setSeqPending s f) w).watched = w.watched := by
  induction ss generalizing w with
  | nil => rfl
  | cons s ss ih => simp [List.foldl, ih]

theorem foldl_setSeqPending_seqAlive (w : World) (ss : List Nat) (f : List Owner → List Owner) (s' : Nat) :
    (ss.foldl (fun w s => w.setSeqPending s f) w).seqAlive s' = w.seqAlive s' := by
  induction ss generalizing w with
  | nil => rfl
  | cons s ss ih => simp [List.foldl, ih, setSeqPending_seqAlive]

theorem foldl_setSeqPending_pendingOf_not_mem (w : World) (ss : List Nat) (f : List Owner → List Owner)
    {s' : Nat} (h : s' ∉ ss) :
    (ss.foldl (fun w s => w.setSeqPending s f) w).pendingOf s' = w.pendingOf s' := by
  induction ss generalizing w with
  | nil => rfl
  | cons s ss ih =>
    simp only [List.mem_cons, not_or] at h
    simp only [List.foldl]
    rw [ih _ h.2, setSeqPending_pendingOf_other _ _ h.1]

theorem foldl_setSeqPending_pendingOf_mem (w : World) (ss : List Nat) (f : List Owner → List Owner)
    (hf : f [] = []) (hnd : ss.Nodup) {s' : Nat} (h : s' ∈ ss) :
    (ss.foldl (fun w s => w.setSeqPending s f) w).pendingOf s' = f (w.pendingOf s') := by
  induction ss generalizing w with
  | nil => cases h
  | cons s ss ih =>
    simp only [List.foldl]
    have hnd' := List.nodup_cons.mp hnd
    by_cases hs : s' = s
    · subst hs
      rw [foldl_setSeqPending_pendingOf_not_mem _ _ _ hnd'.1, setSeqPending_pendingOf_same _ _ _ hf]
    · have hm : s' ∈ ss := by
        rcases List.mem_cons.mp h with e | e
        · exact absurd e hs
        · exact e
      rw [ih _ hnd'.2 hm, setSeqPending_pendingOf_other _ _ hs]

end World
end Tromp
