/-
  Lemmas/Call.lean — classification of the events a mock call produces.
-/
import TrompModel.Lemmas.World

namespace Tromp
open World

def Ev.isReport : Ev → Bool
  | .report _ _ _ => true
  | _ => false

def Ev.isFatalReport : Ev → Bool
  | .report .fatal _ _ => true
  | _ => false

/-- SIDE_EFFECT / RETURN / THROW evaluations. -/
def Ev.isAction : Ev → Bool
  | .evalFx _ _ => true
  | .evalRet _ => true
  | _ => false

def Ev.isOk : Ev → Bool
  | .ok _ _ => true
  | _ => false

def Ev.isTrace : Ev → Bool
  | .trace _ _ _ _ => true
  | _ => false

/-- the expectation an action event belongs to. -/
def Ev.actor : Ev → Option Nat
  | .evalFx e _ => some e
  | .evalRet e => some e
  | _ => none

namespace World

theorem matchLog_all_with (w : World) (a : Args) (e : Nat) :
    ∀ ev ∈ w.matchLog a e, ∃ i, ev = Ev.evalWith e i := by
  intro ev hev
  unfold matchLog at hev
  split at hev
  · split at hev
    · obtain ⟨i, _, rfl⟩ := List.mem_map.mp hev; exact ⟨i, rfl⟩
    · cases hev
  · cases hev

theorem triedLog_all_with (w : World) (a : Args) (e : Nat) :
    ∀ ev ∈ w.triedLog a e, ∃ i, ev = Ev.evalWith e i := by
  intro ev hev
  unfold triedLog at hev
  split at hev
  · split at hev
    · obtain ⟨i, _, rfl⟩ := List.mem_map.mp hev; exact ⟨i, rfl⟩
    · cases hev
  · cases hev

theorem flatMap_matchLog_all_with (w : World) (a : Args) (l : List Nat) :
    ∀ ev ∈ l.flatMap (w.matchLog a), ∃ e i, ev = Ev.evalWith e i := by
  intro ev hev
  obtain ⟨e, _, he⟩ := List.mem_flatMap.mp hev
  obtain ⟨i, rfl⟩ := matchLog_all_with w a e ev he
  exact ⟨e, i, rfl⟩

theorem flatMap_triedLog_all_with (w : World) (a : Args) (l : List Nat) :
    ∀ ev ∈ l.flatMap (w.triedLog a), ∃ e i, ev = Ev.evalWith e i := by
  intro ev hev
  obtain ⟨e, _, he⟩ := List.mem_flatMap.mp hev
  obtain ⟨i, rfl⟩ := triedLog_all_with w a e ev he
  exact ⟨e, i, rfl⟩

theorem traceEv_all_trace (w : World) (e : Nat) (a : Args) (r : Outcome) :
    ∀ ev ∈ w.traceEv e a r, ∃ t, ev = Ev.trace t e a r := by
  intro ev hev
  unfold traceEv at hev
  split at hev
  · simp at hev; exact ⟨_, hev⟩
  · cases hev

theorem traceEv_length_le (w : World) (e : Nat) (a : Args) (r : Outcome) : (w.traceEv e a r).length ≤ 1 := by
  unfold traceEv; split <;> simp

/-- the side effects: events are `fx 0 … fx k` in order, where `k` is the first that throws (or
    the last); a throw is reported back. -/
theorem runEffects_spec (e : Nat) (a : Args) (fxs : List (Args → Option Exc)) (i : Nat) :
    (∃ k exc, k < fxs.length ∧ (runEffects e a fxs i).2 = some exc ∧
        (fxs[k]?).bind (· a) = some exc ∧ (∀ j < k, (fxs[j]?).bind (· a) = none) ∧
        (runEffects e a fxs i).1 = (List.range (k + 1)).map (fun j => Ev.evalFx e (i + j))) ∨
    ((runEffects e a fxs i).2 = none ∧ (∀ j < fxs.length, (fxs[j]?).bind (· a) = none) ∧
        (runEffects e a fxs i).1 = (List.range fxs.length).map (fun j => Ev.evalFx e (i + j))) := by
  induction fxs generalizing i with
  | nil => right; simp [runEffects]
  | cons fx rest ih =>
    unfold runEffects
    cases hfx : fx a with
    | some exc =>
      left
      refine ⟨0, exc, by simp, by simp, by simp [hfx], by simp, by simp⟩
    | none =>
      rcases ih (i + 1) with ⟨k, exc, hk, h2, h3, h4, h5⟩ | ⟨h2, h3, h5⟩
      · left
        refine ⟨k + 1, exc, by simp; omega, by simp [h2], by simpa using h3, ?_, ?_⟩
        · intro j hj
          cases j with
          | zero => simp [hfx]
          | succ j => simpa using h4 j (by omega)
        · simp only [h5]
          rw [List.range_succ_eq_map (n := k + 1)]
          simp [List.map_map, Function.comp_def, Nat.add_assoc, Nat.add_comm 1]
      · right
        refine ⟨by simp [h2], ?_, ?_⟩
        · intro j hj
          cases j with
          | zero => simp [hfx]
          | succ j => simpa using h3 j (by simpa using hj)
        · simp only [h5, List.length_cons]
          rw [List.range_succ_eq_map (n := rest.length)]
          simp [List.map_map, Function.comp_def, Nat.add_assoc, Nat.add_comm 1]

theorem runEffects_all_fx (e : Nat) (a : Args) (fxs : List (Args → Option Exc)) (i : Nat) :
    ∀ ev ∈ (runEffects e a fxs i).1, ∃ j, ev = Ev.evalFx e j := by
  induction fxs generalizing i with
  | nil => simp [runEffects]
  | cons fx rest ih =>
    unfold runEffects
    cases hfx : fx a with
    | some exc => simp
    | none =>
      intro ev hev
      simp at hev
      rcases hev with rfl | hev
      · exact ⟨i, rfl⟩
      · exact ih (i + 1) ev hev

/-- every event of `actionEvents` is a SIDE_EFFECT or RETURN evaluation of `e`. -/
theorem actionEvents_actor (e : Nat) (x : Exp) (a : Args) :
    ∀ ev ∈ (actionEvents e x a).1, ev.isAction = true ∧ ev.actor = some e := by
  intro ev hev
  unfold actionEvents at hev
  have hfx := runEffects_all_fx e a x.effects 0
  revert hev
  cases h : runEffects e a x.effects 0 with
  | mk fxEvs thrown =>
    rw [h] at hfx
    cases thrown with
    | some exc =>
      intro hev
      obtain ⟨j, rfl⟩ := hfx ev hev
      exact ⟨rfl, rfl⟩
    | none =>
      cases x.ret with
      | some r =>
        intro hev
        simp at hev
        rcases hev with hev | rfl
        · obtain ⟨j, rfl⟩ := hfx ev hev; exact ⟨rfl, rfl⟩
        · exact ⟨rfl, rfl⟩
      | none =>
        intro hev
        obtain ⟨j, rfl⟩ := hfx ev hev
        exact ⟨rfl, rfl⟩

theorem markReported_count (w : World) (es : List Nat) (e : Nat) :
    ((w.markReported es).exps e).map (·.count) = (w.exps e).map (·.count) := by
  unfold markReported
  induction es generalizing w with
  | nil => rfl
  | cons a es ih =>
    simp only [List.foldl]
    rw [ih]
    cases ha : w.exps a with
    | none => simp [ha]
    | some x =>
      simp only [ha]
      by_cases hea : e = a
      · subst hea; simp [ha]
      · rw [setExp_exps_other _ _ hea]

theorem markReported_frame (w : World) (es : List Nat) :
    (w.markReported es).seqs = w.seqs ∧ (w.markReported es).mocks = w.mocks ∧
    (w.markReported es).mons = w.mons ∧ (w.markReported es).tracers = w.tracers := by
  unfold markReported
  induction es generalizing w with
  | nil => exact ⟨rfl, rfl, rfl, rfl⟩
  | cons a es ih =>
    simp only [List.foldl]
    cases ha : w.exps a with
    | none => simpa [ha] using ih w
    | some x => simpa [ha] using ih (w.setExp a { x with reported := true })

end World
end Tromp

namespace Tromp
open World
namespace World

/-- the four ways a mock call can go (mock_func, mock.hpp:3372-3406). -/
inductive CallCase (w : World) (o f : Nat) (a : Args) (m : Mock) : Prop
  | noMatch
      (hfind : (find (w.expMatches a) w.expOrder (m.active f)).1 = none)
      (heq : w.callFn o f a =
        ((w.reportMismatch m f a).1,
         (find (w.expMatches a) w.expOrder (m.active f)).2.flatMap (w.matchLog a) ++ (w.reportMismatch m f a).2))
  | forbidden (e : Nat) (x : Exp)
      (hfind : (find (w.expMatches a) w.expOrder (m.active f)).1 = some e)
      (hx : w.exps e = some x) (hhi : x.hi = 0)
      (heq : w.callFn o f a =
        (w.setExp e { x with reported := true },
         (find (w.expMatches a) w.expOrder (m.active f)).2.flatMap (w.matchLog a) ++
           ([w.rep .fatal (.forbidden e a)] ++ w.traceEv e a (.threw .rep) ++ [.result (.threw .rep)])))
  | blocked (e : Nat) (x : Exp) (r : Report)
      (hfind : (find (w.expMatches a) w.expOrder (m.active f)).1 = some e)
      (hx : w.exps e = some x) (hhi : x.hi ≠ 0) (hord : w.order (.exp e) x.seqs = none)
      (hr : r = (w.validateAll (.exp e) x.seqs).head?.getD (.seqNoMore 0 (.exp e)))
      (heq : w.callFn o f a =
        (w,
         (find (w.expMatches a) w.expOrder (m.active f)).2.flatMap (w.matchLog a) ++
           ([w.rep .fatal r] ++ w.traceEv e a (.threw .rep) ++ [.result (.threw .rep)])))
  | accepted (e : Nat) (x : Exp) (n : Nat)
      (hfind : (find (w.expMatches a) w.expOrder (m.active f)).1 = some e)
      (hx : w.exps e = some x) (hhi : x.hi ≠ 0) (hord : w.order (.exp e) x.seqs = some n)
      (heq : w.callFn o f a =
        (w.bookkeep o f e x m,
         (find (w.expMatches a) w.expOrder (m.active f)).2.flatMap (w.matchLog a) ++
           ([Ev.ok w.okReporter e] ++ (actionEvents e x a).1 ++ w.traceEv e a (actionEvents e x a).2 ++
             [.result (actionEvents e x a).2])))

theorem callFn_cases (w : World) (o f : Nat) (a : Args) (m : Mock) (hm : w.mocks o = some m)
    (hex : ∀ e ∈ m.active f, ∃ x, w.exps e = some x) : CallCase w o f a m := by
  cases hfind : (find (w.expMatches a) w.expOrder (m.active f)).1 with
  | none =>
    refine CallCase.noMatch hfind ?_
    unfold callFn
    simp only [hm]
    rw [show find (w.expMatches a) w.expOrder (m.active f) =
      ((find (w.expMatches a) w.expOrder (m.active f)).1, (find (w.expMatches a) w.expOrder (m.active f)).2) from rfl]
    simp only [hfind]
  | some e =>
    obtain ⟨x, hx⟩ := hex e (find_some_mem hfind).1
    have hbase : w.callFn o f a =
        ((w.runActions o f e x m a).1,
         (find (w.expMatches a) w.expOrder (m.active f)).2.flatMap (w.matchLog a) ++ (w.runActions o f e x m a).2) := by
      unfold callFn
      simp only [hm]
      rw [show find (w.expMatches a) w.expOrder (m.active f) =
        ((find (w.expMatches a) w.expOrder (m.active f)).1, (find (w.expMatches a) w.expOrder (m.active f)).2) from rfl]
      simp only [hfind, hx]
    by_cases hhi : x.hi = 0
    · refine CallCase.forbidden e x hfind hx hhi ?_
      rw [hbase]; simp [runActions, hhi]
    · cases hord : w.order (.exp e) x.seqs with
      | none =>
        refine CallCase.blocked e x ((w.validateAll (.exp e) x.seqs).head?.getD (.seqNoMore 0 (.exp e))) hfind hx hhi hord rfl ?_
        rw [hbase]; simp only [runActions, hhi, if_false, hord]
      | some n =>
        refine CallCase.accepted e x n hfind hx hhi hord ?_
        rw [hbase]; simp only [runActions, hhi, if_false, hord]

theorem expOrder_eq (w : World) (e : Nat) (x : Exp) (hx : w.exps e = some x) :
    w.expOrder e = w.order (.exp e) x.seqs := by
  simp [expOrder, hx]

/-- events of the free `report_mismatch`: WITH re-evaluations, then one fatal no-match report. -/
theorem reportMismatch_events (w : World) (m : Mock) (f : Nat) (a : Args) :
    ∃ pre r, (w.reportMismatch m f a).2 = pre ++ [w.rep .fatal r, .result (.threw .rep)] ∧
      (∀ ev ∈ pre, ∃ e i, ev = Ev.evalWith e i) ∧ (∃ s t, r = .noMatch f a s t) := by
  by_cases h : ((m.saturated f).filter (w.expMatches a)).isEmpty = true
  · simp only [reportMismatch, h, if_true]
    refine ⟨_, _, by rw [List.append_assoc], ?_, ⟨_, _, rfl⟩⟩
    intro ev hev
    rcases List.mem_append.mp hev with h | h
    · exact flatMap_matchLog_all_with w a _ ev h
    · exact flatMap_triedLog_all_with w a _ ev h
  · simp only [reportMismatch, h]
    exact ⟨_, _, rfl, flatMap_matchLog_all_with w a _, ⟨_, _, rfl⟩⟩

theorem reportMismatch_count (w : World) (m : Mock) (f : Nat) (a : Args) (e : Nat) :
    ((w.reportMismatch m f a).1.exps e).map (·.count) = (w.exps e).map (·.count) := by
  by_cases h : ((m.saturated f).filter (w.expMatches a)).isEmpty = true
  · simp only [reportMismatch, h, if_true]
    exact markReported_count w _ e
  · simp only [reportMismatch, h]
    rfl

end World
end Tromp

namespace Tromp
open World
namespace World

theorem retirePredecessors_exps (w : World) (o : Owner) (ss : List Nat) : (w.retirePredecessors o ss).exps = w.exps :=
  foldl_setSeqPending_exps w ss _
theorem retirePredecessors_mocks (w : World) (o : Owner) (ss : List Nat) : (w.retirePredecessors o ss).mocks = w.mocks :=
  foldl_setSeqPending_mocks w ss _
theorem retireOwn_exps (w : World) (o : Owner) (ss : List Nat) : (w.retireOwn o ss).exps = w.exps :=
  foldl_setSeqPending_exps w ss _
theorem retireOwn_mocks (w : World) (o : Owner) (ss : List Nat) : (w.retireOwn o ss).mocks = w.mocks :=
  foldl_setSeqPending_mocks w ss _

theorem bookkeep_exps_other (w : World) (o f e : Nat) (x : Exp) (m : Mock) {e' : Nat} (h : e' ≠ e) :
    (w.bookkeep o f e x m).exps e' = w.exps e' := by
  unfold bookkeep
  by_cases hc : x.count + 1 = x.hi
  · simp only [hc, if_true]
    rw [setExp_exps_other _ _ h, setMock_exps, retireOwn_exps, retirePredecessors_exps]
  · simp only [hc, if_false]
    rw [setExp_exps_other _ _ h, retirePredecessors_exps]

theorem bookkeep_exps_same (w : World) (o f e : Nat) (x : Exp) (m : Mock) :
    (w.bookkeep o f e x m).exps e =
      some { x with count := x.count + 1, link := if x.count + 1 = x.hi then Link.saturated else x.link } := by
  unfold bookkeep
  by_cases hc : x.count + 1 = x.hi <;> simp [hc]

theorem bookkeep_mocks_other (w : World) (o f e : Nat) (x : Exp) (m : Mock) {o' : Nat} (h : o' ≠ o) :
    (w.bookkeep o f e x m).mocks o' = w.mocks o' := by
  unfold bookkeep
  by_cases hc : x.count + 1 = x.hi
  · simp only [hc, if_true, setExp_mocks]
    rw [setMock_mocks_other _ _ h, retireOwn_mocks, retirePredecessors_mocks]
  · simp only [hc, if_false, setExp_mocks, retirePredecessors_mocks]

/-- the mock the call was made on: only the lists of the called function can change, and only by
    the handler moving from the active to the saturated list. -/
theorem bookkeep_mock_same (w : World) (o f e : Nat) (x : Exp) (m : Mock) (hm : w.mocks o = some m) :
    ∃ m', (w.bookkeep o f e x m).mocks o = some m' ∧ m'.alive = m.alive ∧
      (∀ g, g ≠ f → m'.active g = m.active g ∧ m'.saturated g = m.saturated g) ∧
      m'.active f = (if x.count + 1 = x.hi then (m.active f).filter (· ≠ e) else m.active f) ∧
      m'.saturated f = (if x.count + 1 = x.hi then m.saturated f ++ [e] else m.saturated f) := by
  unfold bookkeep
  by_cases hc : x.count + 1 = x.hi
  · simp only [hc, if_true, setExp_mocks, setMock_mocks_same]
    refine ⟨_, rfl, rfl, ?_, by simp, by simp⟩
    intro g hg; simp [hg]
  · simp only [hc, if_false, setExp_mocks, retirePredecessors_mocks]
    exact ⟨m, hm, rfl, fun g _ => ⟨rfl, rfl⟩, rfl, rfl⟩

end World
end Tromp
