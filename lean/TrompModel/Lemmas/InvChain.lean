import TrompModel.Lemmas.InvSeq
/-!
# The watched object ↔ destruction requirement linkage (C13, C14)

`Watched.monitors` models the chain of `lifetime_monitor`s hanging off a `deathwatched` object
(lifetime.hpp:92-157), `Mon.target` the monitor's pointer back to the object.  `WFChain`: the two
directions agree — a chain names only live, un-notified monitors of exactly this object, and every
live un-notified monitor is on the chain of a *live* object — so neither `~deathwatched` (walking
the chain) nor `~lifetime_monitor` (unchaining itself from the object) touches a destroyed object.
-/
namespace Tromp
open World

structure WFChain (w : World) : Prop where
  chain : ∀ x y m, w.watched x = some y → m ∈ y.monitors →
    ∃ mon, w.mons m = some mon ∧ mon.alive = true ∧ mon.died = false ∧ mon.target = x
  home : ∀ m mon, w.mons m = some mon → mon.alive = true → mon.died = false →
    ∃ y, w.watched mon.target = some y ∧ y.alive = true ∧ m ∈ y.monitors
  nodup : ∀ x y, w.watched x = some y → y.monitors.Nodup
  deadW : ∀ x y, w.watched x = some y → y.alive = false → y.monitors = []
  freshM : ∀ m, w.nextM ≤ m → w.mons m = none
  freshW : ∀ x, w.nextW ≤ x → w.watched x = none

theorem WFChain.init : WFChain ({} : World) where
  chain := by intro x y m h; simp at h
  home := by intro m mon h; simp at h
  nodup := by intro x y h; simp at h
  deadW := by intro x y h; simp at h
  freshM := by intro m _; rfl
  freshW := by intro x _; rfl

/-- monitors and watched objects untouched. -/
def MW (w w' : World) : Prop :=
  w'.mons = w.mons ∧ w'.watched = w.watched ∧ w'.nextM = w.nextM ∧ w'.nextW = w.nextW ∧
  w'.tracers = w.tracers ∧ w'.nextT = w.nextT

theorem MW.refl (w : World) : MW w w := ⟨rfl, rfl, rfl, rfl, rfl, rfl⟩
theorem MW.trans {a b c : World} (h1 : MW a b) (h2 : MW b c) : MW a c :=
  ⟨h2.1.trans h1.1, h2.2.1.trans h1.2.1, h2.2.2.1.trans h1.2.2.1, h2.2.2.2.1.trans h1.2.2.2.1,
   h2.2.2.2.2.1.trans h1.2.2.2.2.1, h2.2.2.2.2.2.trans h1.2.2.2.2.2⟩

theorem WFChain.mw {w w' : World} (h : WFChain w) (r : MW w w') : WFChain w' := by
  obtain ⟨r1, r2, r3, r4, _, _⟩ := r
  exact ⟨by rw [r1, r2]; exact h.chain, by rw [r1, r2]; exact h.home, by rw [r2]; exact h.nodup,
    by rw [r2]; exact h.deadW, by rw [r1, r3]; exact h.freshM, by rw [r2, r4]; exact h.freshW⟩

theorem MW.setSeqPending (w : World) (s : Nat) (f : List Owner → List Owner) : MW w (w.setSeqPending s f) := by
  unfold World.setSeqPending; split <;> exact ⟨rfl, rfl, rfl, rfl, rfl, rfl⟩

theorem MW.foldSeq (ss : List Nat) (f : Nat → List Owner → List Owner) :
    ∀ w : World, MW w (ss.foldl (fun w s => w.setSeqPending s (f s)) w) := by
  induction ss with
  | nil => intro w; exact MW.refl w
  | cons s ss ih => intro w; simp only [List.foldl]; exact MW.trans (MW.setSeqPending w s (f s)) (ih _)

theorem MW.retirePredecessors (w : World) (o : Owner) (ss : List Nat) : MW w (w.retirePredecessors o ss) :=
  MW.foldSeq ss (fun _ => retireUntil o) w
theorem MW.retireOwn (w : World) (o : Owner) (ss : List Nat) : MW w (w.retireOwn o ss) :=
  MW.foldSeq ss (fun _ l => l.filter (· ≠ o)) w
theorem MW.register (w : World) (o : Owner) (ss : List Nat) : MW w (w.register o ss) :=
  MW.foldSeq ss (fun _ l => l ++ [o]) w
theorem MW.setExp (w : World) (e : Nat) (x : Exp) : MW w (w.setExp e x) := ⟨rfl, rfl, rfl, rfl, rfl, rfl⟩
theorem MW.setMock (w : World) (o : Nat) (m : Mock) : MW w (w.setMock o m) := ⟨rfl, rfl, rfl, rfl, rfl, rfl⟩

theorem MW.markReported (es : List Nat) : ∀ w : World, MW w (w.markReported es) := by
  unfold World.markReported
  induction es with
  | nil => intro w; exact MW.refl w
  | cons e es ih =>
    intro w
    simp only [List.foldl]
    cases w.exps e with
    | none => exact ih w
    | some x => exact MW.trans (MW.setExp w e _) (ih _)

theorem MW.bookkeep (w : World) (o f e : Nat) (x : Exp) (m : Mock) : MW w (w.bookkeep o f e x m) := by
  unfold World.bookkeep
  simp only
  split
  · exact MW.trans (MW.trans (MW.trans (MW.retirePredecessors w _ _) (MW.retireOwn _ _ _)) (MW.setMock _ _ _)) (MW.setExp _ _ _)
  · exact MW.trans (MW.retirePredecessors w _ _) (MW.setExp _ _ _)

theorem MW.callFn (w : World) (o f : Nat) (a : Args) : MW w (w.callFn o f a).1 := by
  unfold World.callFn
  cases w.mocks o with
  | none => exact MW.refl w
  | some m =>
    simp only
    generalize find (w.expMatches a) w.expOrder (m.active f) = fr
    obtain ⟨found, visited⟩ := fr
    simp only
    cases found with
    | none =>
      simp only
      unfold World.reportMismatch
      simp only
      split
      · exact MW.markReported _ w
      · exact MW.refl w
    | some e =>
      simp only
      cases w.exps e with
      | none => exact MW.refl w
      | some x =>
        simp only
        unfold World.runActions
        split
        · exact MW.setExp w e _
        · cases w.order (.exp e) x.seqs with
          | none => exact MW.refl w
          | some n => exact MW.bookkeep w o f e x m

theorem MW.unlinkExp (w : World) (e : Nat) (x : Exp) : MW w (w.unlinkExp e x) := by
  unfold World.unlinkExp
  split
  · split
    · exact MW.refl w
    · exact MW.setMock _ _ _
  · exact MW.refl w

theorem MW.releaseExp (w : World) (e : Nat) (x : Exp) : MW w (w.releaseExp e x).1 := by
  unfold World.releaseExp
  exact MW.trans (MW.trans (MW.unlinkExp w e x) (MW.retireOwn _ _ _)) (MW.setExp _ _ _)

theorem MW.decomStep (acc : World × List Ev) (a : Nat) : MW acc.1 (World.decomStep acc a).1 := by
  unfold World.decomStep
  cases acc.1.exps a with
  | none => exact MW.refl _
  | some x => simp only; split <;> exact MW.setExp _ _ _

theorem MW.decommission (w : World) (es : List Nat) : MW w (w.decommission es).1 := by
  unfold World.decommission
  generalize ([] : List Ev) = evs
  induction es generalizing w evs with
  | nil => exact MW.refl w
  | cons a es ih =>
    simp only [List.foldl]
    have h1 := MW.decomStep (w, evs) a
    exact MW.trans h1 (ih _ _)

theorem MW.killMock (w : World) (o : Nat) (m : Mock) : MW w (w.killMock o m).1 := by
  unfold World.killMock
  refine MW.trans ?_ (MW.setMock _ _ _)
  generalize (List.range nFns).reverse = fns
  generalize ([] : List Ev) = evs
  induction fns generalizing w evs with
  | nil => exact MW.refl w
  | cons f fns ih =>
    simp only [List.foldl]
    exact MW.trans (MW.trans (MW.decommission w _) (MW.decommission _ _)) (ih _ _)

theorem MW.moveMock (w : World) (o o' : Nat) (m : Mock) : MW w (w.moveMock o o' m) := ⟨rfl, rfl, rfl, rfl, rfl, rfl⟩

end Tromp

namespace Tromp
open World

/-- `w'` is `w` after the monitors in `ms` were told that their object died. -/
structure Notified (w w' : World) (ms : List Nat) : Prop where
  watched : w'.watched = w.watched
  nextM : w'.nextM = w.nextM
  nextW : w'.nextW = w.nextW
  tracers : w'.tracers = w.tracers
  nextT : w'.nextT = w.nextT
  none_ : ∀ m, w.mons m = none → w'.mons m = none
  some_ : ∀ m x, w.mons m = some x → ∃ x', w'.mons m = some x' ∧ x'.alive = x.alive ∧ x'.target = x.target ∧
            (x'.died = x.died ∨ x'.died = true) ∧ (m ∈ ms → x'.died = true) ∧ (m ∉ ms → x' = x)

theorem Notified.refl (w : World) : Notified w w [] :=
  ⟨rfl, rfl, rfl, rfl, rfl, fun _ h => h, fun m x hx => ⟨x, hx, rfl, rfl, Or.inl rfl, fun h => (by cases h), fun _ => rfl⟩⟩

theorem Notified.trans {w1 w2 w3 : World} {a b : List Nat} (h1 : Notified w1 w2 a) (h2 : Notified w2 w3 b) :
    Notified w1 w3 (a ++ b) := by
  refine ⟨h2.watched.trans h1.watched, h2.nextM.trans h1.nextM, h2.nextW.trans h1.nextW,
    h2.tracers.trans h1.tracers, h2.nextT.trans h1.nextT, ?_, ?_⟩
  · intro m hm; exact h2.none_ m (h1.none_ m hm)
  · intro m x hx
    obtain ⟨y, hy, a1, t1, d1, l1, u1⟩ := h1.some_ m x hx
    obtain ⟨z, hz, a2, t2, d2, l2, u2⟩ := h2.some_ m y hy
    refine ⟨z, hz, a2.trans a1, t2.trans t1, ?_, ?_, ?_⟩
    · rcases d2 with d2 | d2
      · rcases d1 with d1 | d1
        · exact Or.inl (d2.trans d1)
        · exact Or.inr (d2.trans d1)
      · exact Or.inr d2
    · intro hin
      rcases List.mem_append.mp hin with hin | hin
      · rcases d2 with d2 | d2
        · rw [d2]; exact l1 hin
        · exact d2
      · exact l2 hin
    · intro hnin
      have ha : m ∉ a := fun h' => hnin (List.mem_append.mpr (Or.inl h'))
      have hb : m ∉ b := fun h' => hnin (List.mem_append.mpr (Or.inr h'))
      rw [u2 hb, u1 ha]

theorem Notified.of_mw {w w' : World} (r : MW w w') : Notified w w' [] := by
  obtain ⟨r1, r2, r3, r4, r5, r6⟩ := r
  exact ⟨r2, r3, r4, r5, r6, fun m h => by rw [r1]; exact h,
    fun m x hx => ⟨x, by rw [r1]; exact hx, rfl, rfl, Or.inl rfl, fun h => (by cases h), fun _ => rfl⟩⟩

theorem Notified.notify (w : World) (m : Nat) : Notified w (w.notify m).1 [m] := by
  unfold World.notify
  cases hx : w.mons m with
  | none =>
    simp only
    exact ⟨rfl, rfl, rfl, rfl, rfl, fun _ h => h, fun m' x' hx' => ⟨x', hx', rfl, rfl, Or.inl rfl,
      fun hin => (by simp at hin; subst hin; rw [hx] at hx'; cases hx'), fun _ => rfl⟩⟩
  | some x =>
    simp only
    have h1 : Notified w { w with mons := upd w.mons m { x with died := true } } [m] := by
      refine ⟨rfl, rfl, rfl, rfl, rfl, ?_, ?_⟩
      · intro m' hm'
        have : m' ≠ m := by intro h'; subst h'; rw [hx] at hm'; cases hm'
        simp only [upd, this, if_false]; exact hm'
      · intro m' x' hx'
        by_cases hmm : m' = m
        · subst hmm
          rw [hx] at hx'; cases hx'
          exact ⟨{ x with died := true }, by simp [upd], rfl, rfl, Or.inr rfl, fun _ => rfl, fun hn => absurd (by simp) hn⟩
        · exact ⟨x', by simp only [upd, hmm, if_false]; exact hx', rfl, rfl, Or.inl rfl,
            fun hin => absurd (by simpa using hin) hmm, fun _ => rfl⟩
    have h2 := Notified.of_mw (MW.trans (MW.retirePredecessors { w with mons := upd w.mons m { x with died := true } } (.mon m) x.seqs)
      (MW.retireOwn _ (.mon m) x.seqs))
    have := Notified.trans h1 h2
    simpa using this

theorem Notified.notifyFold (ms : List Nat) : ∀ (w0 : World) (evs : List Ev),
    Notified w0 (ms.foldl (fun (acc : World × List Ev) m =>
        let (w1, e1) := acc.1.notify m
        (w1, acc.2 ++ e1)) (w0, evs)).1 ms := by
  induction ms with
  | nil => intro w0 evs; exact Notified.refl w0
  | cons m ms ih =>
    intro w0 evs
    simp only [List.foldl]
    have := Notified.trans (Notified.notify w0 m) (ih (w0.notify m).1 (evs ++ (w0.notify m).2))
    simpa using this

/-- a watched object dies: its record becomes dead with an empty chain and every monitor of its
    chain has been notified. -/
theorem WFChain.killw {w W' : World} (h : WFChain w) (x : Nat) (y : Watched) (hy : w.watched x = some y)
    (N : Notified { w with watched := upd w.watched x { alive := false, monitors := [] } } W' y.monitors) : WFChain W' := by
  have hw : ∀ x', W'.watched x' = if x' = x then some { alive := false, monitors := [] } else w.watched x' := by
    intro x'; rw [N.watched]; rfl
  refine ⟨?_, ?_, ?_, ?_, ?_, ?_⟩
  · intro x' y' m hy' hm
    rw [hw] at hy'
    by_cases hxx : x' = x
    · simp only [hxx, if_true, Option.some.injEq] at hy'; subst hy'; cases hm
    · simp only [hxx, if_false] at hy'
      obtain ⟨mon, hmon, ha, hd, ht⟩ := h.chain x' y' m hy' hm
      have hnin : m ∉ y.monitors := by
        intro hin
        obtain ⟨mon2, hmon2, _, _, ht2⟩ := h.chain x y m hy hin
        rw [hmon] at hmon2; cases hmon2
        exact hxx (ht.symm.trans ht2)
      obtain ⟨mon', hmon', _, _, _, _, hu⟩ := N.some_ m mon hmon
      rw [hu hnin] at hmon'
      exact ⟨mon, hmon', ha, hd, ht⟩
  · intro m mon' hmon' ha hd
    cases hmon : w.mons m with
    | none => have := N.none_ m hmon; rw [this] at hmon'; cases hmon'
    | some mon =>
      obtain ⟨mon2, hmon2, a2, t2, d2, l2, u2⟩ := N.some_ m mon hmon
      rw [hmon'] at hmon2; cases hmon2
      have hd0 : mon.died = false := by
        rcases d2 with d2 | d2
        · rw [← d2]; exact hd
        · rw [hd] at d2; cases d2
      have hnin : m ∉ y.monitors := fun hin => by have := l2 hin; rw [hd] at this; cases this
      obtain ⟨y0, hy0, hal0, hin0⟩ := h.home m mon hmon (a2 ▸ ha) hd0
      have hne : mon.target ≠ x := by
        intro heq
        rw [heq, hy] at hy0; cases hy0
        exact hnin hin0
      refine ⟨y0, ?_, hal0, hin0⟩
      rw [hw, t2]; simp only [hne, if_false]; exact hy0
  · intro x' y' hy'
    rw [hw] at hy'
    by_cases hxx : x' = x
    · simp only [hxx, if_true, Option.some.injEq] at hy'; subst hy'; exact List.nodup_nil
    · simp only [hxx, if_false] at hy'; exact h.nodup x' y' hy'
  · intro x' y' hy' hdead
    rw [hw] at hy'
    by_cases hxx : x' = x
    · simp only [hxx, if_true, Option.some.injEq] at hy'; subst hy'; rfl
    · simp only [hxx, if_false] at hy'; exact h.deadW x' y' hy' hdead
  · intro m hm
    rw [N.nextM] at hm
    exact N.none_ m (h.freshM m hm)
  · intro x' hx'
    rw [N.nextW] at hx'
    have hne : x' ≠ x := by intro heq; subst heq; rw [h.freshW x' hx'] at hy; cases hy
    rw [hw]; simp only [hne, if_false]; exact h.freshW x' hx'

/-- a new watched object (created, copy-constructed or move-constructed): no requirement is
    inherited. -/
theorem WFChain.newWatched {w : World} (h : WFChain w) (x : Nat) (hx : x = w.nextW) :
    WFChain { w with watched := upd w.watched x {}, nextW := x + 1 } := by
  have hfresh : w.watched x = none := h.freshW x (by omega)
  refine ⟨?_, ?_, ?_, ?_, h.freshM, ?_⟩
  · intro x' y' m hy' hm
    by_cases hxx : x' = x
    · simp only [upd, hxx, if_true, Option.some.injEq] at hy'; subst hy'; cases hm
    · simp only [upd, hxx, if_false] at hy'; exact h.chain x' y' m hy' hm
  · intro m mon hmon ha hd
    obtain ⟨y0, hy0, hal0, hin0⟩ := h.home m mon hmon ha hd
    have hne : mon.target ≠ x := by intro heq; rw [heq, hfresh] at hy0; cases hy0
    exact ⟨y0, by simp only [upd, hne, if_false]; exact hy0, hal0, hin0⟩
  · intro x' y' hy'
    by_cases hxx : x' = x
    · simp only [upd, hxx, if_true, Option.some.injEq] at hy'; subst hy'; exact List.nodup_nil
    · simp only [upd, hxx, if_false] at hy'; exact h.nodup x' y' hy'
  · intro x' y' hy' hdead
    by_cases hxx : x' = x
    · simp only [upd, hxx, if_true, Option.some.injEq] at hy'; subst hy'; rfl
    · simp only [upd, hxx, if_false] at hy'; exact h.deadW x' y' hy' hdead
  · intro x' hx'
    have hx'' : x + 1 ≤ x' := hx'
    have hne : x' ≠ x := by omega
    simp only [upd, hne, if_false]
    exact h.freshW x' (by omega)

end Tromp

namespace Tromp
open World

/-- a destruction requirement is placed on a live object. -/
theorem WFChain.monitor {w W' : World} (h : WFChain w) (m x : Nat) (ss : List Nat) (y : Watched)
    (hm : m = w.nextM) (hy : w.watched x = some y) (hal : y.alive = true)
    (r : MW { w with nextM := m + 1, mons := upd w.mons m { target := x, seqs := ss },
                     watched := upd w.watched x { y with monitors := m :: y.monitors } } W') : WFChain W' := by
  have hfresh : w.mons m = none := h.freshM m (by omega)
  refine WFChain.mw ?_ r
  have hex : ∀ x' y' m', w.watched x' = some y' → m' ∈ y'.monitors → m' ≠ m := by
    intro x' y' m' hy' hin heq
    obtain ⟨mon, hmon, _⟩ := h.chain x' y' m' hy' hin
    rw [heq, hfresh] at hmon; cases hmon
  refine ⟨?_, ?_, ?_, ?_, ?_, ?_⟩
  rotate_left 5
  · intro x' hx'
    by_cases hxx : x' = x
    · subst hxx; rw [h.freshW x' hx'] at hy; cases hy
    · simp only [upd, hxx, if_false]; exact h.freshW x' hx'
  · intro x' y' m' hy' hin
    by_cases hxx : x' = x
    · simp only [upd, hxx, if_true, Option.some.injEq] at hy'; subst hy'
      rcases List.mem_cons.mp hin with hin | hin
      · subst hin
        exact ⟨{ target := x, seqs := ss }, by simp [upd], rfl, rfl, hxx.symm⟩
      · have hne := hex x y m' hy hin
        obtain ⟨mon, hmon, ha, hd, ht⟩ := h.chain x y m' hy hin
        exact ⟨mon, by simp only [upd, hne, if_false]; exact hmon, ha, hd, by rw [hxx]; exact ht⟩
    · simp only [upd, hxx, if_false] at hy'
      have hne := hex x' y' m' hy' hin
      obtain ⟨mon, hmon, ha, hd, ht⟩ := h.chain x' y' m' hy' hin
      exact ⟨mon, by simp only [upd, hne, if_false]; exact hmon, ha, hd, ht⟩
  · intro m' mon hmon ha hd
    by_cases hmm : m' = m
    · simp only [upd, hmm, if_true, Option.some.injEq] at hmon; subst hmon
      exact ⟨{ y with monitors := m :: y.monitors }, by simp [upd], hal, by rw [hmm]; simp⟩
    · simp only [upd, hmm, if_false] at hmon
      obtain ⟨y0, hy0, hal0, hin0⟩ := h.home m' mon hmon ha hd
      by_cases ht : mon.target = x
      · rw [ht, hy] at hy0; cases hy0
        exact ⟨{ y with monitors := m :: y.monitors }, by simp [upd, ht], hal0, List.mem_cons_of_mem _ hin0⟩
      · exact ⟨y0, by simp only [upd, ht, if_false]; exact hy0, hal0, hin0⟩
  · intro x' y' hy'
    by_cases hxx : x' = x
    · simp only [upd, hxx, if_true, Option.some.injEq] at hy'; subst hy'
      exact List.nodup_cons.mpr ⟨fun hin => hex x y m hy hin rfl, h.nodup x y hy⟩
    · simp only [upd, hxx, if_false] at hy'; exact h.nodup x' y' hy'
  · intro x' y' hy' hdead
    by_cases hxx : x' = x
    · simp only [upd, hxx, if_true, Option.some.injEq] at hy'; subst hy'
      have : y.alive = false := hdead
      rw [hal] at this; cases this
    · simp only [upd, hxx, if_false] at hy'; exact h.deadW x' y' hy' hdead
  · intro m' hm'
    have hm'' : m + 1 ≤ m' := hm'
    have hne : m' ≠ m := by omega
    simp only [upd, hne, if_false]
    exact h.freshM m' (by omega)

/-- a destruction requirement is destroyed: it leaves the chain of its (necessarily live) object,
    or — if the object is gone — touches no object at all. -/
theorem WFChain.releasemon {w W' : World} (h : WFChain w) (m : Nat) (x : Mon) (hx : w.mons m = some x)
    (hW : W'.mons = upd w.mons m { x with alive := false })
    (hWw : W'.watched = (if x.died then w else
        match w.watched x.target with
        | some y => { w with watched := upd w.watched x.target { y with monitors := y.monitors.filter (· ≠ m) } }
        | none => w).watched)
    (hnM : W'.nextM = w.nextM) (hnW : W'.nextW = w.nextW) : WFChain W' := by
  have hfM : ∀ m', W'.nextM ≤ m' → W'.mons m' = none := by
    intro m' hm'
    rw [hnM] at hm'
    have hne : m' ≠ m := by intro heq; subst heq; rw [h.freshM m' hm'] at hx; cases hx
    rw [hW]; simp only [upd, hne, if_false]; exact h.freshM m' hm'
  by_cases hdied : x.died = true
  · -- the object is gone: nothing but the monitor's own record changes
    simp only [hdied, if_true] at hWw
    refine ⟨?_, ?_, ?_, ?_, hfM, ?_⟩
    · intro x' y' m' hy' hin
      rw [hWw] at hy'
      obtain ⟨mon, hmon, ha, hd, ht⟩ := h.chain x' y' m' hy' hin
      have hne : m' ≠ m := by intro heq; subst heq; rw [hx] at hmon; cases hmon; rw [hdied] at hd; cases hd
      exact ⟨mon, by rw [hW]; simp only [upd, hne, if_false]; exact hmon, ha, hd, ht⟩
    · intro m' mon hmon ha hd
      rw [hW] at hmon
      by_cases hmm : m' = m
      · simp only [upd, hmm, if_true, Option.some.injEq] at hmon; subst hmon; cases ha
      · simp only [upd, hmm, if_false] at hmon
        rw [hWw]; exact h.home m' mon hmon ha hd
    · intro x' y' hy'; rw [hWw] at hy'; exact h.nodup x' y' hy'
    · intro x' y' hy'; rw [hWw] at hy'; exact h.deadW x' y' hy'
    · intro x' hx'; rw [hnW] at hx'; rw [hWw]; exact h.freshW x' hx'
  · have hd0 : x.died = false := by cases hdd : x.died <;> simp_all
    by_cases hal : x.alive = true
    · obtain ⟨y0, hy0, hal0, hin0⟩ := h.home m x hx hal hd0
      simp only [hd0, Bool.false_eq_true, if_false, hy0] at hWw
      have hw : ∀ x', W'.watched x' = if x' = x.target then some { y0 with monitors := y0.monitors.filter (· ≠ m) } else w.watched x' := by
        intro x'; rw [hWw]; rfl
      refine ⟨?_, ?_, ?_, ?_, hfM, ?_⟩
      · intro x' y' m' hy' hin
        rw [hw] at hy'
        by_cases hxx : x' = x.target
        · simp only [hxx, if_true, Option.some.injEq] at hy'; subst hy'
          simp only [List.mem_filter, decide_eq_true_eq] at hin
          obtain ⟨mon, hmon, ha, hd, ht⟩ := h.chain x.target y0 m' hy0 hin.1
          exact ⟨mon, by rw [hW]; simp only [upd, hin.2, if_false]; exact hmon, ha, hd, by rw [hxx]; exact ht⟩
        · simp only [hxx, if_false] at hy'
          obtain ⟨mon, hmon, ha, hd, ht⟩ := h.chain x' y' m' hy' hin
          have hne : m' ≠ m := by intro heq; subst heq; rw [hx] at hmon; cases hmon; exact hxx ht.symm
          exact ⟨mon, by rw [hW]; simp only [upd, hne, if_false]; exact hmon, ha, hd, ht⟩
      · intro m' mon hmon ha hd
        rw [hW] at hmon
        by_cases hmm : m' = m
        · simp only [upd, hmm, if_true, Option.some.injEq] at hmon; subst hmon; cases ha
        · simp only [upd, hmm, if_false] at hmon
          obtain ⟨y1, hy1, hal1, hin1⟩ := h.home m' mon hmon ha hd
          by_cases ht : mon.target = x.target
          · rw [ht, hy0] at hy1; cases hy1
            refine ⟨{ y0 with monitors := y0.monitors.filter (· ≠ m) }, by rw [hw]; simp [ht], hal0, ?_⟩
            simp only [List.mem_filter, decide_eq_true_eq]; exact ⟨hin1, hmm⟩
          · exact ⟨y1, by rw [hw]; simp only [ht, if_false]; exact hy1, hal1, hin1⟩
      · intro x' y' hy'
        rw [hw] at hy'
        by_cases hxx : x' = x.target
        · simp only [hxx, if_true, Option.some.injEq] at hy'; subst hy'
          exact (h.nodup x.target y0 hy0).sublist List.filter_sublist
        · simp only [hxx, if_false] at hy'; exact h.nodup x' y' hy'
      · intro x' y' hy' hdead
        rw [hw] at hy'
        by_cases hxx : x' = x.target
        · simp only [hxx, if_true, Option.some.injEq] at hy'; subst hy'
          have : y0.alive = false := hdead
          rw [hal0] at this; cases this
        · simp only [hxx, if_false] at hy'; exact h.deadW x' y' hy' hdead
      · intro x' hx'
        rw [hnW] at hx'
        have hne : x' ≠ x.target := by intro heq; subst heq; rw [h.freshW _ hx'] at hy0; cases hy0
        rw [hw]; simp only [hne, if_false]; exact h.freshW x' hx'
    · -- releasing an already released monitor is not legal; the statement still holds
      have hal0 : x.alive = false := by cases hh : x.alive <;> simp_all
      have hnotin : ∀ x' y', w.watched x' = some y' → m ∉ y'.monitors := by
        intro x' y' hy' hin
        obtain ⟨mon, hmon, ha, _⟩ := h.chain x' y' m hy' hin
        rw [hx] at hmon; cases hmon; rw [hal0] at ha; cases ha
      have hw : ∀ x', W'.watched x' = w.watched x' := by
        intro x'
        rw [hWw]
        simp only [hd0, Bool.false_eq_true, if_false]
        cases hy0 : w.watched x.target with
        | none => rfl
        | some y0 =>
          simp only
          by_cases hxx : x' = x.target
          · subst hxx
            simp only [upd, if_true, hy0, Option.some.injEq]
            have : y0.monitors.filter (· ≠ m) = y0.monitors := by
              apply List.filter_eq_self.mpr
              intro a ha
              simp only [decide_eq_true_eq]
              intro heq; subst heq; exact hnotin _ y0 hy0 ha
            rw [this]
          · simp only [upd, hxx, if_false]
      have hwf : W'.watched = w.watched := funext hw
      refine ⟨?_, ?_, ?_, ?_, hfM, ?_⟩
      · intro x' y' m' hy' hin
        rw [hwf] at hy'
        obtain ⟨mon, hmon, ha, hd, ht⟩ := h.chain x' y' m' hy' hin
        have hne : m' ≠ m := by intro heq; subst heq; exact hnotin x' y' hy' hin
        exact ⟨mon, by rw [hW]; simp only [upd, hne, if_false]; exact hmon, ha, hd, ht⟩
      · intro m' mon hmon ha hd
        rw [hW] at hmon
        by_cases hmm : m' = m
        · simp only [upd, hmm, if_true, Option.some.injEq] at hmon; subst hmon; cases ha
        · simp only [upd, hmm, if_false] at hmon
          rw [hwf]; exact h.home m' mon hmon ha hd
      · intro x' y' hy'; rw [hwf] at hy'; exact h.nodup x' y' hy'
      · intro x' y' hy'; rw [hwf] at hy'; exact h.deadW x' y' hy'
      · intro x' hx'; rw [hnW] at hx'; rw [hwf]; exact h.freshW x' hx'

end Tromp

namespace Tromp
open World

/-- every operation preserves the object ↔ requirement invariant. -/
theorem WFChain.step {w : World} (h : WFChain w) (op : Op) : WFChain (w.step op).1 := by
  unfold World.step
  cases hl : w.legal op with
  | false => simp only [Bool.not_false, if_true]; exact h
  | true =>
  simp only [Bool.not_true, Bool.false_eq_true, if_false]
  cases op with
  | mock o mv => simp only []; exact h.mw ⟨rfl, rfl, rfl, rfl, rfl, rfl⟩
  | seq s => simp only []; exact h.mw ⟨rfl, rfl, rfl, rfl, rfl, rfl⟩
  | expect e x =>
    simp only []
    split
    · exact h.mw ⟨rfl, rfl, rfl, rfl, rfl, rfl⟩
    · cases w.mocks x.obj with
      | none => exact h
      | some m =>
        simp only []
        refine h.mw (MW.trans (MW.trans (MW.trans ?_ (MW.register _ _ _)) (MW.setExp _ _ _)) (MW.setMock _ _ _))
        exact ⟨rfl, rfl, rfl, rfl, rfl, rfl⟩
  | call o f a => simp only []; exact h.mw (MW.callFn w o f a)
  | sat e => exact h
  | satd e => exact h
  | release e =>
    simp only []
    cases w.exps e with
    | none => exact h
    | some x => exact h.mw (MW.releaseExp w e x)
  | move o o' =>
    simp only []
    cases w.mocks o with
    | none => exact h
    | some m => exact h.mw (MW.moveMock w o o' m)
  | kill o =>
    simp only []
    cases w.mocks o with
    | none => exact h
    | some m => exact h.mw (MW.killMock w o m)
  | killseq s =>
    simp only []
    cases w.seqs s with
    | none => exact h
    | some x => exact h.mw ⟨rfl, rfl, rfl, rfl, rfl, rfl⟩
  | completed s => exact h
  | watched x =>
    simp only [World.legal, beq_iff_eq] at hl
    simp only []; exact h.newWatched x hl
  | copyw x y =>
    simp only [World.legal, Bool.and_eq_true, beq_iff_eq] at hl
    simp only []; exact h.newWatched y hl.1
  | movew x y =>
    simp only [World.legal, Bool.and_eq_true, beq_iff_eq] at hl
    simp only []; exact h.newWatched y hl.1
  | assignw d s => exact h
  | killw x =>
    simp only []
    cases hy : w.watched x with
    | none => exact h
    | some y =>
      simp only []
      split
      · rename_i hemp
        have hnil : y.monitors = [] := by simpa using hemp
        have N : Notified { w with watched := upd w.watched x { alive := false, monitors := [] } }
            { w with watched := upd w.watched x { alive := false, monitors := [] } } y.monitors := by
          rw [hnil]; exact Notified.refl _
        exact h.killw x y hy N
      · exact h.killw x y hy (Notified.notifyFold _ _ _)
  | monitor m x ss =>
    simp only [World.legal, Bool.and_eq_true, beq_iff_eq] at hl
    obtain ⟨⟨⟨hm, hwa⟩, _⟩, _⟩ := hl
    simp only []
    cases hy : w.watched x with
    | none => exact h
    | some y =>
      simp only []
      have hal : y.alive = true := by simpa [World.watchedAlive, hy] using hwa
      exact h.monitor m x ss y hm hy hal (MW.register _ _ _)
  | msat m => exact h
  | msatd m => exact h
  | releasemon m =>
    simp only []
    cases hx : w.mons m with
    | none => exact h
    | some x =>
      simp only []
      refine h.releasemon m x hx ?_ ?_ ?_ ?_
      · show upd (World.retireOwn _ _ _).mons m _ = _
        rw [(MW.retireOwn _ _ _).1]
        congr 1
        split
        · rfl
        · split <;> rfl
      · show (World.retireOwn _ _ _).watched = _
        rw [(MW.retireOwn _ _ _).2.1]
        rfl
      · show (World.retireOwn _ _ _).nextM = _
        rw [(MW.retireOwn _ _ _).2.2.1]
        split
        · rfl
        · split <;> rfl
      · show (World.retireOwn _ _ _).nextW = _
        rw [(MW.retireOwn _ _ _).2.2.2.1]
        split
        · rfl
        · split <;> rfl
  | tracer t => simp only []; exact ⟨h.chain, h.home, h.nodup, h.deadW, h.freshM, h.freshW⟩
  | killtracer t => simp only []; exact ⟨h.chain, h.home, h.nodup, h.deadW, h.freshM, h.freshW⟩
  | setreporter r ok => simp only []; exact h.mw ⟨rfl, rfl, rfl, rfl, rfl, rfl⟩

end Tromp

namespace Tromp
open World

/-- the stack of live tracers: no duplicates, ids below the counter. -/
structure WFTr (w : World) : Prop where
  nodup : w.tracers.Nodup
  bound : ∀ t ∈ w.tracers, t < w.nextT

theorem WFTr.init : WFTr ({} : World) := ⟨List.nodup_nil, fun _ h => by cases h⟩

theorem WFTr.mw {w w' : World} (h : WFTr w) (r : MW w w') : WFTr w' := by
  obtain ⟨_, _, _, _, r5, r6⟩ := r
  exact ⟨by rw [r5]; exact h.nodup, by rw [r5, r6]; exact h.bound⟩

/-- only `tracer` and `killtracer` change the tracer stack. -/
theorem WFTr.step {w : World} (h : WFTr w) (op : Op) : WFTr (w.step op).1 := by
  unfold World.step
  cases hl : w.legal op with
  | false => simp only [Bool.not_false, if_true]; exact h
  | true =>
  simp only [Bool.not_true, Bool.false_eq_true, if_false]
  cases op with
  | mock o mv => simp only []; exact h.mw ⟨rfl, rfl, rfl, rfl, rfl, rfl⟩
  | seq s => simp only []; exact h.mw ⟨rfl, rfl, rfl, rfl, rfl, rfl⟩
  | expect e x =>
    simp only []
    split
    · exact h.mw ⟨rfl, rfl, rfl, rfl, rfl, rfl⟩
    · cases w.mocks x.obj with
      | none => exact h
      | some m =>
        simp only []
        refine h.mw (MW.trans (MW.trans (MW.trans ?_ (MW.register _ _ _)) (MW.setExp _ _ _)) (MW.setMock _ _ _))
        exact ⟨rfl, rfl, rfl, rfl, rfl, rfl⟩
  | call o f a => simp only []; exact h.mw (MW.callFn w o f a)
  | sat e => exact h
  | satd e => exact h
  | release e =>
    simp only []
    cases w.exps e with
    | none => exact h
    | some x => exact h.mw (MW.releaseExp w e x)
  | move o o' =>
    simp only []
    cases w.mocks o with
    | none => exact h
    | some m => exact h.mw (MW.moveMock w o o' m)
  | kill o =>
    simp only []
    cases w.mocks o with
    | none => exact h
    | some m => exact h.mw (MW.killMock w o m)
  | killseq s =>
    simp only []
    cases w.seqs s with
    | none => exact h
    | some x => exact h.mw ⟨rfl, rfl, rfl, rfl, rfl, rfl⟩
  | completed s => exact h
  | watched x => simp only []; exact ⟨h.nodup, h.bound⟩
  | copyw x y => simp only []; exact ⟨h.nodup, h.bound⟩
  | movew x y => simp only []; exact ⟨h.nodup, h.bound⟩
  | assignw d s => exact h
  | killw x =>
    simp only []
    cases w.watched x with
    | none => exact h
    | some y =>
      simp only []
      split
      · exact ⟨h.nodup, h.bound⟩
      · have N := Notified.notifyFold y.monitors { w with watched := upd w.watched x { alive := false, monitors := [] } } []
        exact ⟨by rw [N.tracers]; exact h.nodup, by rw [N.tracers, N.nextT]; exact h.bound⟩
  | monitor m x ss =>
    simp only []
    cases w.watched x with
    | none => exact h
    | some y =>
      simp only []
      refine WFTr.mw ?_ (MW.register _ _ _)
      exact ⟨h.nodup, h.bound⟩
  | msat m => exact h
  | msatd m => exact h
  | releasemon m =>
    simp only []
    cases w.mons m with
    | none => exact h
    | some x =>
      simp only []
      refine ⟨?_, ?_⟩
      · show (World.retireOwn _ _ _).tracers.Nodup
        rw [(MW.retireOwn _ _ _).2.2.2.2.1]
        split
        · exact h.nodup
        · split <;> exact h.nodup
      · show ∀ t ∈ (World.retireOwn _ _ _).tracers, t < (World.retireOwn _ _ _).nextT
        rw [(MW.retireOwn _ _ _).2.2.2.2.1, (MW.retireOwn _ _ _).2.2.2.2.2]
        split
        · exact h.bound
        · split <;> exact h.bound
  | tracer t =>
    simp only [World.legal, beq_iff_eq] at hl
    simp only []
    refine ⟨List.nodup_cons.mpr ⟨fun hin => ?_, h.nodup⟩, ?_⟩
    · have := h.bound t hin; omega
    · intro t' ht'
      show t' < t + 1
      rcases List.mem_cons.mp ht' with h' | h'
      · omega
      · have := h.bound t' h'; omega
  | killtracer t =>
    simp only []
    exact ⟨h.nodup.sublist List.filter_sublist, fun t' ht' => h.bound t' (List.mem_filter.mp ht').1⟩
  | setreporter r ok => simp only []; exact h.mw ⟨rfl, rfl, rfl, rfl, rfl, rfl⟩

end Tromp
