/-
  Lemmas/History.lean — statements about whole histories (every script from the empty world), proved by induction over
  the script: the call count of an expectation is the number of OK reports it produced, i.e. the number of accepted
  calls it handled.
-/
import TrompModel.Lemmas.Step
import TrompModel.Lemmas.InvChain

namespace Tromp
open World

/-- the handled-call counter of expectation `e` (0 if it does not exist). -/
def World.cnt (w : World) (e : Nat) : Nat := match w.exps e with | some x => x.count | none => 0

def Ev.okOf (e : Nat) : Ev → Bool
  | .ok _ e' => e' == e
  | _ => false

/-- number of OK reports naming `e` among the events. -/
def okCount (e : Nat) (evs : List Ev) : Nat := (evs.filter (Ev.okOf e)).length

theorem okCount_append (e : Nat) (a b : List Ev) : okCount e (a ++ b) = okCount e a + okCount e b := by
  simp [okCount, List.filter_append]

theorem okCount_zero_of_noOk (e : Nat) (evs : List Ev) (h : ∀ ev ∈ evs, ev.isOk = false) : okCount e evs = 0 := by
  unfold okCount
  rw [List.length_eq_zero_iff, List.filter_eq_nil_iff]
  intro ev hev hok
  have := h ev hev
  cases ev <;> simp_all [Ev.okOf, Ev.isOk]

namespace World

theorem cnt_of_exps_eq {w w' : World} (h : w'.exps = w.exps) (e : Nat) : w'.cnt e = w.cnt e := by
  unfold cnt; rw [h]

theorem cnt_setExp_same_count (w : World) (e : Nat) (x y : Exp) (hx : w.exps e = some x) (hc : y.count = x.count) (e' : Nat) :
    (w.setExp e y).cnt e' = w.cnt e' := by
  unfold cnt
  by_cases h : e' = e
  · subst h; simp [hx, hc]
  · rw [setExp_exps_other _ _ h]

theorem decomStep_cnt (acc : World × List Ev) (e e' : Nat) : (decomStep acc e).1.cnt e' = acc.1.cnt e' := by
  unfold decomStep
  cases hx : acc.1.exps e with
  | none => rfl
  | some x =>
    simp only
    split
    · apply cnt_setExp_same_count acc.1 e x _ hx; rfl
    · apply cnt_setExp_same_count acc.1 e x _ hx; rfl

theorem decommission_cnt (w : World) (es : List Nat) (e' : Nat) : (w.decommission es).1.cnt e' = w.cnt e' := by
  unfold decommission
  suffices h : ∀ (acc : World × List Ev), (es.foldl decomStep acc).1.cnt e' = acc.1.cnt e' from h (w, [])
  induction es with
  | nil => intro acc; rfl
  | cons a as ih => intro acc; simp only [List.foldl_cons]; rw [ih, decomStep_cnt]

theorem killMock_cnt (w : World) (o : Nat) (m : Mock) (e' : Nat) : (w.killMock o m).1.cnt e' = w.cnt e' := by
  unfold killMock
  simp only
  have hfold : ∀ (fns : List Nat) (acc : World × List Ev),
      (fns.foldl (fun (acc : World × List Ev) f =>
        let (w, evs) := acc
        let (w1, e1) := w.decommission (m.active f)
        let (w2, e2) := w1.decommission (m.saturated f)
        (w2, evs ++ e1 ++ e2)) acc).1.cnt e' = acc.1.cnt e' := by
    intro fns
    induction fns with
    | nil => intro acc; rfl
    | cons f fs ih =>
      intro acc
      simp only [List.foldl_cons]
      rw [ih]
      obtain ⟨w0, evs⟩ := acc
      simp only
      rw [decommission_cnt, decommission_cnt]
  rw [cnt_of_exps_eq (setMock_exps _ _ _)]
  exact hfold _ _

theorem notify_exps (w : World) (m : Nat) : (w.notify m).1.exps = w.exps := by
  unfold notify
  cases w.mons m with
  | none => rfl
  | some x => simp only [retireOwn_exps, retirePredecessors_exps]

/-- operations other than calls never change a handled-call counter (a new expectation starts at 0). -/
theorem step_cnt_noncall (w : World) (hw : WF w) (op : Op) (hop : op.isCall = false) (e' : Nat) :
    (w.step op).1.cnt e' = w.cnt e' := by
  unfold step
  by_cases hl : w.legal op = true
  · simp only [hl, Bool.not_true, Bool.false_eq_true, if_false]
    cases op with
    | call o f a => cases hop
    | mock o mv => rfl
    | seq s => rfl
    | expect e x =>
      simp only
      split
      · rfl
      · have hfresh : w.exps e = none := by
          simp only [legal, Bool.and_eq_true, beq_iff_eq] at hl
          exact hw.fresh e (by omega)
        cases hm : w.mocks x.obj with
        | none => simp [hm]
        | some m =>
          simp only [hm]
          unfold cnt
          by_cases h : e' = e
          · subst h; simp [hfresh]
          · rw [setMock_exps, setExp_exps_other _ _ h]
            simp only [register, foldl_setSeqPending_exps]
    | sat e => rfl
    | satd e => rfl
    | release e =>
      simp only
      cases hx : w.exps e with
      | none => rfl
      | some x =>
        simp only [releaseExp]
        have h1 : ((w.unlinkExp e x).retireOwn (.exp e) x.seqs).exps = w.exps := by
          rw [retireOwn_exps]; unfold unlinkExp; cases w.mocks x.obj <;> simp; split <;> rfl
        have hx' : ((w.unlinkExp e x).retireOwn (.exp e) x.seqs).exps e = some x := by rw [h1]; exact hx
        refine Eq.trans ?_ (cnt_of_exps_eq h1 e')
        apply cnt_setExp_same_count _ e x _ hx'; rfl
    | move o o' =>
      simp only
      cases hm : w.mocks o with
      | none => rfl
      | some m =>
        unfold cnt moveMock
        simp only [setMock_exps]
        cases w.exps e' with
        | none => rfl
        | some x => simp only [Option.map_some]; split <;> rfl
    | kill o =>
      simp only
      cases hm : w.mocks o with
      | none => rfl
      | some m => exact killMock_cnt w o m e'
    | killseq s =>
      simp only
      cases w.seqs s <;> rfl
    | completed s => rfl
    | watched x => rfl
    | copyw x y => rfl
    | movew x y => rfl
    | assignw d s => rfl
    | killw x =>
      simp only
      cases hy : w.watched x with
      | none => rfl
      | some y =>
        simp only
        split
        · rfl
        · have : ∀ (ms : List Nat) (acc : World × List Ev),
              (ms.foldl (fun (acc : World × List Ev) m => let (w1, e1) := acc.1.notify m; (w1, acc.2 ++ e1)) acc).1.exps = acc.1.exps := by
            intro ms
            induction ms with
            | nil => intro acc; rfl
            | cons a as ih => intro acc; simp only [List.foldl_cons]; rw [ih]; exact notify_exps _ _
          exact cnt_of_exps_eq (this _ _) e'
    | monitor m x ss =>
      simp only
      cases w.watched x with
      | none => rfl
      | some y =>
        apply cnt_of_exps_eq
        simp only [register, foldl_setSeqPending_exps]
    | msat m => rfl
    | msatd m => rfl
    | releasemon m =>
      simp only
      cases hx : w.mons m with
      | none => rfl
      | some x =>
        apply cnt_of_exps_eq
        simp only
        rw [retireOwn_exps]
        split
        · rfl
        · split <;> rfl
    | tracer t => rfl
    | killtracer t => rfl
    | setreporter r ok => rfl
  · simp [hl]

theorem cnt_markReported (w : World) (es : List Nat) (e : Nat) : (w.markReported es).cnt e = w.cnt e := by
  have := markReported_count w es e
  unfold cnt
  cases h1 : (w.markReported es).exps e <;> cases h2 : w.exps e <;> simp_all

/-- a call changes exactly the counter of the expectation that produced an OK report, by one per OK report. -/
theorem step_cnt_call (w : World) (hw : WF w) (o f : Nat) (a : Args) (e' : Nat) :
    (w.step (.call o f a)).1.cnt e' = w.cnt e' + okCount e' (w.step (.call o f a)).2 := by
  unfold step
  by_cases hl : w.legal (.call o f a) = true
  · simp only [hl, Bool.not_true, Bool.false_eq_true, if_false]
    cases hm : w.mocks o with
    | none => simp [callFn, hm, okCount, Ev.okOf]
    | some m =>
      have hex : ∀ e ∈ m.active f, ∃ x, w.exps e = some x := by
        intro e he; obtain ⟨x, hx, _⟩ := hw.act o m f e hm he; exact ⟨x, hx⟩
      have hlog : ∀ l : List Nat, okCount e' (l.flatMap (w.matchLog a)) = 0 := by
        intro l
        apply okCount_zero_of_noOk
        intro ev hev; obtain ⟨e, i, rfl⟩ := flatMap_matchLog_all_with w a l ev hev; rfl
      have htr : ∀ e r, okCount e' (w.traceEv e a r) = 0 := by
        intro e r
        apply okCount_zero_of_noOk
        intro ev hev; obtain ⟨t, rfl⟩ := traceEv_all_trace w e a r ev hev; rfl
      cases callFn_cases w o f a m hm hex with
      | noMatch hfind heq =>
        obtain ⟨pre, r, hev, hpre, _⟩ := reportMismatch_events w m f a
        rw [heq]
        simp only [okCount_append, hlog, hev, Nat.zero_add]
        have h0 : okCount e' pre = 0 := by
          apply okCount_zero_of_noOk
          intro ev hev'; obtain ⟨e, i, rfl⟩ := hpre ev hev'; rfl
        have hc := reportMismatch_count w m f a e'
        have : (w.reportMismatch m f a).1.cnt e' = w.cnt e' := by
          unfold cnt
          cases h1 : (w.reportMismatch m f a).1.exps e' <;> cases h2 : w.exps e' <;> simp_all
        have h1 : okCount e' [w.rep .fatal r, .result (.threw .rep)] = 0 := by simp [okCount, Ev.okOf, rep]
        rw [this, h0, h1]; rfl
      | forbidden e x hfind hx hhi heq =>
        rw [heq]
        simp only [okCount_append, hlog, htr]
        have hc : (w.setExp e { x with reported := true }).cnt e' = w.cnt e' := by
          apply cnt_setExp_same_count w e x _ hx; rfl
        rw [hc]
        simp [okCount, Ev.okOf, rep]
      | blocked e x r hfind hx hhi hord hrk0 heq =>
        rw [heq]
        simp only [okCount_append, hlog, htr]
        simp [okCount, Ev.okOf, rep]
      | accepted e x n hfind hx hhi hord heq =>
        rw [heq]
        simp only [okCount_append, hlog, htr]
        have hact : okCount e' (actionEvents e x a).1 = 0 := by
          apply okCount_zero_of_noOk
          intro ev hev
          have := (actionEvents_actor e x a ev hev).1
          cases ev <;> simp_all [Ev.isAction, Ev.isOk]
        simp only [hact]
        by_cases he : e' = e
        · subst he
          unfold cnt
          rw [bookkeep_exps_same, hx]
          simp [okCount, Ev.okOf]
        · unfold cnt
          rw [bookkeep_exps_other _ _ _ _ _ _ he]
          have : (e == e') = false := by simp [Ne.symm he]
          simp [okCount, Ev.okOf, this]
  · simp [hl, okCount, Ev.okOf]

/-- **count = number of OK reports** after any script from the empty world. -/
theorem cnt_eq_okCount (ops : List Op) :
    ∀ (w : World) (evs : List Ev), WF w → (∀ e, w.cnt e = okCount e evs) →
      ∀ e, (w.run ops).1.cnt e = okCount e (evs ++ (w.run ops).2.flatten) := by
  induction ops with
  | nil => intro w evs _ h e; simpa [run] using h e
  | cons op ops ih =>
    intro w evs hw h e
    simp only [run, List.flatten_cons]
    rw [← List.append_assoc]
    refine ih _ _ (hw.step op) ?_ e
    intro e'
    rw [okCount_append, ← h e']
    cases hop : op.isCall with
    | false =>
      rw [step_cnt_noncall w hw op hop e', okCount_zero_of_noOk _ _ (step_no_ok w op hop)]; rfl
    | true =>
      cases op with
      | call o f a => exact step_cnt_call w hw o f a e'
      | _ => cases hop

end World
end Tromp
