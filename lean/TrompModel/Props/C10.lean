/-
  Props/C10.lean — scalar matchers and combinators accept exactly their mathematical predicate.
-/
import TrompModel.Model.Matcher

namespace Tromp.C10
open Tromp.Matcher

/-- the `any_true = any_true || …` fold is a disjunction over the operands. -/
theorem foldAny_eq (orc : List Bool) (ms : List Mt) (x : Val) (acc : Bool) :
    foldAny orc acc ms x = (acc || ms.any (fun m => eval orc m x)) := by
  induction ms generalizing acc with
  | nil => simp [foldAny]
  | cons m ms ih => simp [foldAny, ih, Bool.or_assoc]

/-- the `all_true = all_true && …` fold is a conjunction over the operands. -/
theorem foldAll_eq (orc : List Bool) (ms : List Mt) (x : Val) (acc : Bool) :
    foldAll orc acc ms x = (acc && ms.all (fun m => eval orc m x)) := by
  induction ms generalizing acc with
  | nil => simp [foldAll]
  | cons m ms ih => simp [foldAll, ih, Bool.and_assoc]

/-- **any_of** accepts exactly when at least one operand accepts. -/
theorem anyOf_iff_exists (orc : List Bool) (ms : List Mt) (x : Val) :
    eval orc (.anyOf ms) x = true ↔ ∃ m ∈ ms, eval orc m x = true := by
  simp [eval, foldAny_eq]

/-- **all_of** accepts exactly when every operand accepts. -/
theorem allOf_iff_forall (orc : List Bool) (ms : List Mt) (x : Val) :
    eval orc (.allOf ms) x = true ↔ ∀ m ∈ ms, eval orc m x = true := by
  simp [eval, foldAll_eq]

/-- **none_of** accepts exactly when no operand accepts. -/
theorem noneOf_iff_not_exists (orc : List Bool) (ms : List Mt) (x : Val) :
    eval orc (.noneOf ms) x = true ↔ ¬ ∃ m ∈ ms, eval orc m x = true := by
  simp [eval, foldAny_eq]

/-- **!m** accepts exactly what `m` rejects. -/
theorem eval_not (orc : List Bool) (m : Mt) (x : Val) : eval orc (.not m) x = !eval orc m x := by
  simp [eval]

/-- **\*m** accepts a pointer exactly when it is non-null and `m` accepts the pointee; the pointee of
    a null pointer is never inspected. -/
theorem eval_deref (orc : List Bool) (m : Mt) (p : Option Val) :
    eval orc (.deref m) (.ptr p) = true ↔ ∃ v, p = some v ∧ eval orc m v = true := by
  cases p <;> simp [eval]

theorem eval_deref_null (orc : List Bool) (m : Mt) : eval orc (.deref m) (.ptr none) = false := by
  simp [eval]

/-- `_` / `ANY(T)` accept everything. -/
theorem eval_any (orc : List Bool) (x : Val) : eval orc .any x = true := by simp [eval]

/-- **MEMBER_IS(&T::m, c)** accepts exactly when `c` accepts the member. -/
theorem eval_member (orc : List Bool) (f : Nat) (c : Mt) (a b : Int) :
    eval orc (.member f c) (.struct a b) = eval orc c (if f = 0 then .int a else .int b) := by
  cases f <;> simp [eval, field]

/-- **re(s, flags)** accepts exactly when the string is non-null and the regular expression is
    found in it (the search itself is the oracle `std::regex_search`). -/
theorem re_iff (orc : List Bool) (k : Nat) (s : Option String) :
    eval orc (.re k) (.str s) = true ↔ s.isSome = true ∧ orc.getD k false = true := by
  cases s <;> simp [eval]

/-- **eq/ne/lt/le/gt/ge(v)** on integers are exactly `=, ≠, <, ≤, >, ≥`. -/
theorem cmp_int (orc : List Bool) (x v : Int) :
    (eval orc (.cmp .eq (.int v)) (.int x) = true ↔ x = v) ∧
    (eval orc (.cmp .ne (.int v)) (.int x) = true ↔ x ≠ v) ∧
    (eval orc (.cmp .lt (.int v)) (.int x) = true ↔ x < v) ∧
    (eval orc (.cmp .le (.int v)) (.int x) = true ↔ x ≤ v) ∧
    (eval orc (.cmp .gt (.int v)) (.int x) = true ↔ x > v) ∧
    (eval orc (.cmp .ge (.int v)) (.int x) = true ↔ x ≥ v) := by
  simp [eval, cmpVal]

/-- … and on (non-null) strings the lexicographic ones. -/
theorem cmp_str (orc : List Bool) (x v : String) :
    (eval orc (.cmp .eq (.str (some v))) (.str (some x)) = true ↔ x = v) ∧
    (eval orc (.cmp .ne (.str (some v))) (.str (some x)) = true ↔ x ≠ v) ∧
    (eval orc (.cmp .lt (.str (some v))) (.str (some x)) = true ↔ x < v) ∧
    (eval orc (.cmp .le (.str (some v))) (.str (some x)) = true ↔ x ≤ v) ∧
    (eval orc (.cmp .gt (.str (some v))) (.str (some x)) = true ↔ x > v) ∧
    (eval orc (.cmp .ge (.str (some v))) (.str (some x)) = true ↔ x ≥ v) := by
  simp [eval, cmpVal]

/-- comparison with `nullptr`. -/
theorem cmp_null (orc : List Bool) (p : Option Val) :
    (eval orc (.cmp .eq (.ptr none)) (.ptr p) = true ↔ p = none) ∧
    (eval orc (.cmp .ne (.ptr none)) (.ptr p) = true ↔ p ≠ none) := by
  cases p <;> simp [eval, cmpVal]

/-- a plain value used as operand (or parameter) behaves as `eq`. -/
theorem plain_value_operand_int (orc : List Bool) (x v : Int) :
    eval orc (.val (.int v)) (.int x) = eval orc (.cmp .eq (.int v)) (.int x) := by
  simp [eval, cmpVal, BEq.beq, Val.beq]

/-! ### laws that follow for every nesting -/

theorem not_anyOf_eq_noneOf (orc : List Bool) (ms : List Mt) (x : Val) :
    eval orc (.not (.anyOf ms)) x = eval orc (.noneOf ms) x := by simp [eval]

theorem double_negation (orc : List Bool) (m : Mt) (x : Val) : eval orc (.not (.not m)) x = eval orc m x := by
  simp [eval]

theorem empty_operands (orc : List Bool) (x : Val) :
    eval orc (.allOf []) x = true ∧ eval orc (.anyOf []) x = false ∧ eval orc (.noneOf []) x = true := by
  simp [eval, foldAny, foldAll]

/-- De Morgan through the combinators: none_of(ms) = all_of(!m …). -/
theorem noneOf_eq_allOf_not (orc : List Bool) (ms : List Mt) (x : Val) :
    eval orc (.noneOf ms) x = eval orc (.allOf (ms.map .not)) x := by
  simp only [eval, foldAny_eq, foldAll_eq, Bool.false_or, Bool.true_and, List.all_map]
  induction ms with
  | nil => rfl
  | cons m ms ih =>
    simp only [List.any_cons, List.all_cons, Bool.not_or, Function.comp, eval] at ih ⊢
    rw [ih]

/-! ### non-vacuity -/
example : eval [] (.anyOf [.cmp .eq (.int 1), .not (.cmp .lt (.int 0))]) (.int (-1)) = false := by decide
example : eval [] (.deref (.cmp .gt (.int 1))) (.ptr (some (.int 3))) = true := by decide
example : eval [] (.deref (.not (.cmp .eq (.int 1)))) (.ptr none) = false := by decide
example : eval [true] (.re 0) (.str none) = false := by decide
example : eval [] (.member 1 (.allOf [.cmp .gt (.int 0), .val (.int 2)])) (.struct 1 2) = true := by decide

end Tromp.C10
