/-
  Props/C14_WorldRing.lean — the lists of every reachable World form a well-formed ring family.

  `ringOf w` reads a World as a family of intrusive lists over structured addresses: the two list objects (`active`,
  `saturated`) of every mock function of every mock object that exists, and the expectations as elements.  The World's
  linkage invariant `WF` (Props/C14.lean: proved for every world any script reaches) gives exactly the well-formedness the
  ring layer asks of its callers (`AbsWf`, Props/C14_Ring.lean): list objects distinct, every list duplicate-free, no
  expectation on two lists.  With `legal_of_wf_post` this closes the gap between the two layers on the side of the
  *obligations*: whatever ring operation takes the lists of one reachable world to the lists of the next is legal, and
  `ring_refines_lists` then says the heap the C++ leaves behind represents those lists.  (Which ring operation each World
  operation issues remains the reading of the C++ that Tie/SemExpect, Tie/SemRunActions, Tie/SemRelease,
  Tie/SemDecommission and Tie/Ring pin statement by statement.)
-/
import TrompModel.Props.C14
import TrompModel.Props.C14_Ring
import Mathlib.Data.List.Nodup

namespace Tromp.C14Ring
open Tromp Tromp.Ring World

/-- addresses: the active / saturated list object of function `f` of mock object `o`, and expectation `e`. -/
inductive Addr
  | act (o f : Nat)
  | sat (o f : Nat)
  | exp (e : Nat)
  deriving DecidableEq, Repr

def headsOfMock (o : Nat) : List Addr := (List.range nFns).flatMap (fun f => [Addr.act o f, Addr.sat o f])

def headsOf (w : World) : List Addr :=
  (List.range w.nextO).flatMap (fun o => match w.mocks o with | some _ => headsOfMock o | none => [])

def listsOf (w : World) : Addr → List Addr
  | .act o f => match w.mocks o with | some m => (m.active f).map Addr.exp | none => []
  | .sat o f => match w.mocks o with | some m => (m.saturated f).map Addr.exp | none => []
  | .exp _ => []

/-- the World's mock-function lists as a ring family. -/
def ringOf (w : World) : Abs Addr := ⟨headsOf w, listsOf w⟩

theorem mem_headsOfMock {o : Nat} {a : Addr} (h : a ∈ headsOfMock o) :
    ∃ f, f < nFns ∧ (a = .act o f ∨ a = .sat o f) := by
  unfold headsOfMock at h
  obtain ⟨f, hf, ha⟩ := List.mem_flatMap.mp h
  refine ⟨f, List.mem_range.mp hf, ?_⟩
  simpa using ha

theorem mem_headsOf {w : World} {a : Addr} (h : a ∈ headsOf w) :
    ∃ o f m, w.mocks o = some m ∧ (a = .act o f ∨ a = .sat o f) := by
  unfold headsOf at h
  obtain ⟨o, _, ha⟩ := List.mem_flatMap.mp h
  cases hm : w.mocks o with
  | none => rw [hm] at ha; simp at ha
  | some m =>
    rw [hm] at ha
    obtain ⟨f, _, hf⟩ := mem_headsOfMock ha
    exact ⟨o, f, m, hm, hf⟩

theorem headsOfMock_nodup (o : Nat) : (headsOfMock o).Nodup := by
  unfold headsOfMock
  rw [List.nodup_flatMap]
  refine ⟨fun f _ => by simp, ?_⟩
  refine List.Pairwise.imp_of_mem ?_ (List.pairwise_lt_range (n := nFns))
  intro a b _ _ hab
  simp only [Function.onFun, List.disjoint_cons_left, List.mem_cons, Addr.act.injEq, Addr.sat.injEq, reduceCtorEq,
    List.not_mem_nil, or_false, false_or, true_and, List.disjoint_nil_left, and_true, not_and]
  omega

theorem headsOf_nodup (w : World) : (headsOf w).Nodup := by
  unfold headsOf
  rw [List.nodup_flatMap]
  refine ⟨fun o _ => by cases w.mocks o <;> simp [headsOfMock_nodup], ?_⟩
  refine List.Pairwise.imp_of_mem ?_ (List.pairwise_lt_range (n := w.nextO))
  intro a b _ _ hab
  simp only [Function.onFun]
  intro x hx hy
  cases hma : w.mocks a with
  | none => rw [hma] at hx; simp at hx
  | some ma =>
    cases hmb : w.mocks b with
    | none => rw [hmb] at hy; simp at hy
    | some mb =>
      rw [hma] at hx; rw [hmb] at hy
      obtain ⟨f, _, hf⟩ := mem_headsOfMock hx
      obtain ⟨g, _, hg⟩ := mem_headsOfMock hy
      rcases hf with rfl | rfl <;> rcases hg with hg | hg <;> cases hg <;> omega

theorem exp_injective : Function.Injective Addr.exp := fun _ _ h => by cases h; rfl

/-- **the lists of a world satisfying the linkage invariant are a well-formed ring family.** -/
theorem absWf_of_WF {w : World} (h : WF w) : AbsWf (ringOf w) := by
  refine ⟨headsOf_nodup w, ?_, ?_⟩
  · intro hd hm
    obtain ⟨o, f, m, hmo, ha⟩ := mem_headsOf hm
    rcases ha with rfl | rfl
    · simp only [ringOf, listsOf, hmo, List.nodup_cons, List.mem_map, reduceCtorEq, and_false, exists_false,
        not_false_eq_true, true_and]
      exact (h.actNodup o m f hmo).map exp_injective
    · simp only [ringOf, listsOf, hmo, List.nodup_cons, List.mem_map, reduceCtorEq, and_false, exists_false,
        not_false_eq_true, true_and]
      exact (h.satNodup o m f hmo).map exp_injective
  · intro hd1 h1 hd2 h2 ne y hy
    obtain ⟨o1, f1, m1, hm1, ha1⟩ := mem_headsOf h1
    obtain ⟨o2, f2, m2, hm2, ha2⟩ := mem_headsOf h2
    -- an element of a list is an expectation; it determines the list it is on
    have key : ∀ e, Addr.exp e ∈ (ringOf w).lists hd1 → Addr.exp e ∈ (ringOf w).lists hd2 → False := by
      intro e he1 he2
      rcases ha1 with rfl | rfl <;> rcases ha2 with rfl | rfl <;>
        simp only [ringOf, listsOf, hm1, hm2, List.mem_map, Addr.exp.injEq, exists_eq_right] at he1 he2
      · obtain ⟨x, hx, _, ho, hf, _⟩ := h.act o1 m1 f1 e hm1 he1
        obtain ⟨x', hx', _, ho', hf', _⟩ := h.act o2 m2 f2 e hm2 he2
        rw [hx] at hx'; cases hx'; exact ne (by rw [← ho, ← hf, ho', hf'])
      · obtain ⟨x, hx, _, _, _, hl⟩ := h.act o1 m1 f1 e hm1 he1
        obtain ⟨x', hx', _, _, _, hl'⟩ := h.sat o2 m2 f2 e hm2 he2
        rw [hx] at hx'; cases hx'; rw [hl] at hl'; cases hl'
      · obtain ⟨x, hx, _, _, _, hl⟩ := h.sat o1 m1 f1 e hm1 he1
        obtain ⟨x', hx', _, _, _, hl'⟩ := h.act o2 m2 f2 e hm2 he2
        rw [hx] at hx'; cases hx'; rw [hl] at hl'; cases hl'
      · obtain ⟨x, hx, _, ho, hf, _⟩ := h.sat o1 m1 f1 e hm1 he1
        obtain ⟨x', hx', _, ho', hf', _⟩ := h.sat o2 m2 f2 e hm2 he2
        rw [hx] at hx'; cases hx'; exact ne (by rw [← ho, ← hf, ho', hf'])
    have elems : ∀ hd z, hd ∈ (ringOf w).heads → z ∈ (ringOf w).lists hd → ∃ e, z = Addr.exp e := by
      intro hd z hh hz
      obtain ⟨o, f, m, hmo, ha⟩ := mem_headsOf hh
      rcases ha with rfl | rfl <;> simp only [ringOf, listsOf, hmo, List.mem_map] at hz <;>
        (obtain ⟨e, _, rfl⟩ := hz; exact ⟨e, rfl⟩)
    have headNotExp : ∀ hd, hd ∈ (ringOf w).heads → ∀ e, hd ≠ Addr.exp e := by
      intro hd hh e
      obtain ⟨o, f, m, _, ha⟩ := mem_headsOf hh
      rcases ha with rfl | rfl <;> simp
    simp only [List.mem_cons] at hy
    intro hin
    simp only [List.mem_cons] at hin
    rcases hy with rfl | hy
    · rcases hin with e | hin
      · exact ne e
      · obtain ⟨e, rfl⟩ := elems hd2 _ h2 hin
        exact headNotExp _ h1 e rfl
    · obtain ⟨e, rfl⟩ := elems hd1 y h1 hy
      rcases hin with e' | hin
      · exact headNotExp hd2 h2 e e'.symm
      · exact key e hy hin

/-- **C14, the two layers meet.**  The mock-function lists of every world that any script reaches form a well-formed
    ring family — every order of creations, calls, queries, moves and destructions. -/
theorem reachable_lists_wellformed {w : World} (r : C14.Reachable w) : AbsWf (ringOf w) :=
  absWf_of_WF (C14.reachable_WF r)

/-- consequently: a ring operation that takes the lists of one reachable world to the lists of another is legal
    (given the typing side condition, which the C++ types enforce), so `ring_refines_lists` covers it. -/
theorem step_between_reachable_is_legal {w w' : World} (r' : C14.Reachable w') (op : Ring.Op Addr)
    (ht : (ringOf w).typed op) (hstep : (ringOf w).step op = ringOf w') : (ringOf w).legal op :=
  legal_of_wf_post (ringOf w) op ht (hstep ▸ reachable_lists_wellformed r')

end Tromp.C14Ring
