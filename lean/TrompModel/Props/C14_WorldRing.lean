/-
  Props/C14_WorldRing.lean — the lists of every reachable World form a well-formed ring family.

  `ringOf w` reads a World as a family of intrusive lists over structured addresses: the two list objects (`active`,
  `saturated`) of every mock function of every mock object that exists, and the expectations as elements.  The World's
  linkage invariant `WF` (Props/C14.lean: proved for every world any script reaches) gives exactly the well-formedness the
  ring layer asks of its callers (`AbsWf`, Props/C14_Ring.lean): list objects distinct, every list duplicate-free, no
  expectation on two lists.  With `legal_of_wf_post` this closes the gap between the two layers on the side of the
  *obligations*: whatever ring operation takes the lists of one reachable world to the lists of the next is legal, and
  `ring_refines_lists` then says the heap the C++ leaves behind represents those lists.  (Which ring operation each World
  operation issues remains the reading of the C++ that Tie/SemExpect, Tie/SemRunActions, Tie/SemRelease,
  Tie/SemDecommission and Tie/Ring pin statement by statement.)
-/
import TrompModel.Props.C14
import TrompModel.Props.C14_Ring
import Mathlib.Data.List.Nodup

namespace Tromp.C14Ring
open Tromp Tromp.Ring World

/-- addresses: the active / saturated list object of function `f` of mock object `o`, and expectation `e`. -/
inductive Addr
  | act (o f : Nat)
  | sat (o f : Nat)
  | exp (e : Nat)
  deriving DecidableEq, Repr

def headsOfMock (o : Nat) : List Addr := (List.range nFns).flatMap (fun f => [Addr.act o f, Addr.sat o f])

def headsOf (w : World) : List Addr :=
  (List.range w.nextO).flatMap (fun o => match w.mocks o with | some _ => headsOfMock o | none => [])

def listsOf (w : World) : Addr → List Addr
  | .act o f => match w.mocks o with | some m => (m.active f).map Addr.exp | none => []
  | .sat o f => match w.mocks o with | some m => (m.saturated f).map Addr.exp | none => []
  | .exp _ => []

/-- the World's mock-function lists as a ring family. -/
def ringOf (w : World) : Abs Addr := ⟨headsOf w, listsOf w⟩

theorem mem_headsOfMock {o : Nat} {a : Addr} (h : a ∈ headsOfMock o) :
    ∃ f, f < nFns ∧ (a = .act o f ∨ a = .sat o f) := by
  unfold headsOfMock at h
  obtain ⟨f, hf, ha⟩ := List.mem_flatMap.mp h
  refine ⟨f, List.mem_range.mp hf, ?_⟩
  simpa using ha

theorem mem_headsOf {w : World} {a : Addr} (h : a ∈ headsOf w) :
    ∃ o f m, w.mocks o = some m ∧ (a = .act o f ∨ a = .sat o f) := by
  unfold headsOf at h
  obtain ⟨o, _, ha⟩ := List.mem_flatMap.mp h
  cases hm : w.mocks o with
  | none => rw [hm] at ha; simp at ha
  | some m =>
    rw [hm] at ha
    obtain ⟨f, _, hf⟩ := mem_headsOfMock ha
    exact ⟨o, f, m, hm, hf⟩

theorem headsOfMock_nodup (o : Nat) : (headsOfMock o).Nodup := by
  unfold headsOfMock
  rw [List.nodup_flatMap]
  refine ⟨fun f _ => by simp, ?_⟩
  refine List.Pairwise.imp_of_mem ?_ (List.pairwise_lt_range (n := nFns))
  intro a b _ _ hab
  simp only [Function.onFun, List.disjoint_cons_left, List.mem_cons, Addr.act.injEq, Addr.sat.injEq, reduceCtorEq,
    List.not_mem_nil, or_false, false_or, true_and, List.disjoint_nil_left, and_true, not_and]
  omega

theorem headsOf_nodup (w : World) : (headsOf w).Nodup := by
  unfold headsOf
  rw [List.nodup_flatMap]
  refine ⟨fun o _ => by cases w.mocks o <;> simp [headsOfMock_nodup], ?_⟩
  refine List.Pairwise.imp_of_mem ?_ (List.pairwise_lt_range (n := w.nextO))
  intro a b _ _ hab
  simp only [Function.onFun]
  intro x hx hy
  cases hma : w.mocks a with
  | none => rw [hma] at hx; simp at hx
  | some ma =>
    cases hmb : w.mocks b with
    | none => rw [hmb] at hy; simp at hy
    | some mb =>
      rw [hma] at hx; rw [hmb] at hy
      obtain ⟨f, _, hf⟩ := mem_headsOfMock hx
      obtain ⟨g, _, hg⟩ := mem_headsOfMock hy
      rcases hf with rfl | rfl <;> rcases hg with hg | hg <;> cases hg <;> omega

theorem exp_injective : Function.Injective Addr.exp := fun _ _ h => by cases h; rfl

/-- **the lists of a world satisfying the linkage invariant are a well-formed ring family.** -/
theorem absWf_of_WF {w : World} (h : WF w) : AbsWf (ringOf w) := by
  refine ⟨headsOf_nodup w, ?_, ?_⟩
  · intro hd hm
    obtain ⟨o, f, m, hmo, ha⟩ := mem_headsOf hm
    rcases ha with rfl | rfl
    · simp only [ringOf, listsOf, hmo, List.nodup_cons, List.mem_map, reduceCtorEq, and_false, exists_false,
        not_false_eq_true, true_and]
      exact (h.actNodup o m f hmo).map exp_injective
    · simp only [ringOf, listsOf, hmo, List.nodup_cons, List.mem_map, reduceCtorEq, and_false, exists_false,
        not_false_eq_true, true_and]
      exact (h.satNodup o m f hmo).map exp_injective
  · intro hd1 h1 hd2 h2 ne y hy
    obtain ⟨o1, f1, m1, hm1, ha1⟩ := mem_headsOf h1
    obtain ⟨o2, f2, m2, hm2, ha2⟩ := mem_headsOf h2
    -- an element of a list is an expectation; it determines the list it is on
    have key : ∀ e, Addr.exp e ∈ (ringOf w).lists hd1 → Addr.exp e ∈ (ringOf w).lists hd2 → False := by
      intro e he1 he2
      rcases ha1 with rfl | rfl <;> rcases ha2 with rfl | rfl <;>
        simp only [ringOf, listsOf, hm1, hm2, List.mem_map, Addr.exp.injEq, exists_eq_right] at he1 he2
      · obtain ⟨x, hx, _, ho, hf, _⟩ := h.act o1 m1 f1 e hm1 he1
        obtain ⟨x', hx', _, ho', hf', _⟩ := h.act o2 m2 f2 e hm2 he2
        rw [hx] at hx'; cases hx'; exact ne (by rw [← ho, ← hf, ho', hf'])
      · obtain ⟨x, hx, _, _, _, hl⟩ := h.act o1 m1 f1 e hm1 he1
        obtain ⟨x', hx', _, _, _, hl'⟩ := h.sat o2 m2 f2 e hm2 he2
        rw [hx] at hx'; cases hx'; rw [hl] at hl'; cases hl'
      · obtain ⟨x, hx, _, _, _, hl⟩ := h.sat o1 m1 f1 e hm1 he1
        obtain ⟨x', hx', _, _, _, hl'⟩ := h.act o2 m2 f2 e hm2 he2
        rw [hx] at hx'; cases hx'; rw [hl] at hl'; cases hl'
      · obtain ⟨x, hx, _, ho, hf, _⟩ := h.sat o1 m1 f1 e hm1 he1
        obtain ⟨x', hx', _, ho', hf', _⟩ := h.sat o2 m2 f2 e hm2 he2
        rw [hx] at hx'; cases hx'; exact ne (by rw [← ho, ← hf, ho', hf'])
    have elems : ∀ hd z, hd ∈ (ringOf w).heads → z ∈ (ringOf w).lists hd → ∃ e, z = Addr.exp e := by
      intro hd z hh hz
      obtain ⟨o, f, m, hmo, ha⟩ := mem_headsOf hh
      rcases ha with rfl | rfl <;> simp only [ringOf, listsOf, hmo, List.mem_map] at hz <;>
        (obtain ⟨e, _, rfl⟩ := hz; exact ⟨e, rfl⟩)
    have headNotExp : ∀ hd, hd ∈ (ringOf w).heads → ∀ e, hd ≠ Addr.exp e := by
      intro hd hh e
      obtain ⟨o, f, m, _, ha⟩ := mem_headsOf hh
      rcases ha with rfl | rfl <;> simp
    simp only [List.mem_cons] at hy
    intro hin
    simp only [List.mem_cons] at hin
    rcases hy with rfl | hy
    · rcases hin with e | hin
      · exact ne e
      · obtain ⟨e, rfl⟩ := elems hd2 _ h2 hin
        exact headNotExp _ h1 e rfl
    · obtain ⟨e, rfl⟩ := elems hd1 y h1 hy
      rcases hin with e' | hin
      · exact headNotExp hd2 h2 e e'.symm
      · exact key e hy hin

/-- **C14, the two layers meet.**  The mock-function lists of every world that any script reaches form a well-formed
    ring family — every order of creations, calls, queries, moves and destructions. -/
theorem reachable_lists_wellformed {w : World} (r : C14.Reachable w) : AbsWf (ringOf w) :=
  absWf_of_WF (C14.reachable_WF r)

/-- consequently: a ring operation that takes the lists of one reachable world to the lists of another is legal
    (given the typing side condition, which the C++ types enforce), so `ring_refines_lists` covers it. -/
theorem step_between_reachable_is_legal {w w' : World} (r' : C14.Reachable w') (op : Ring.Op Addr)
    (ht : (ringOf w).typed op) (hstep : (ringOf w).step op = ringOf w') : (ringOf w).legal op :=
  legal_of_wf_post (ringOf w) op ht (hstep ▸ reachable_lists_wellformed r')

end Tromp.C14Ring

namespace Tromp.C14Ring
open Tromp Tromp.Ring World

/-! ### a worked instance of the chain: the expectation statement

C++ `make_expectation` → `hook_last` (= `this :: list`, `Tie/NoMatch.lean: hook_last_tie`) → `list::push_front`
(`Tie/Ring.lean: ring_push_front_tie`) on the heap; model: the `expect` step conses onto the active list
(`Tie/SemExpect.lean: expect_sem`).  Here: at the level of ring families the `expect` step **is** `pushFront`, it is
legal in every reachable world, and therefore (`rep_step`) any heap that represents the lists before represents the lists
after the C++ `push_front`. -/

theorem headsOf_congr {w w' : World} (hn : w'.nextO = w.nextO) (hm : ∀ o, (w'.mocks o).isSome = (w.mocks o).isSome) :
    headsOf w' = headsOf w := by
  unfold headsOf
  rw [hn]
  congr 1
  funext o
  have := hm o
  cases h1 : w'.mocks o <;> cases h2 : w.mocks o <;> simp [h1, h2] at this ⊢

theorem expect_world (w : World) (e : Nat) (x : ExpectSpec) (m : Mock) (hl : w.legal (.expect e x) = true)
    (hm : w.mocks x.obj = some m) (hok : ¬ (x.rt = true ∧ x.hi < x.lo)) :
    (w.step (.expect e x)).1.nextO = w.nextO ∧
    (w.step (.expect e x)).1.mocks = upd w.mocks x.obj
      { m with active := fun g => if g = x.fn then e :: m.active g else m.active g } := by
  have hleg : (!w.legal (.expect e x)) = false := by simp [hl]
  have hc : (x.rt && decide (x.hi < x.lo)) = false := by
    cases hr : x.rt
    · simp
    · simp only [Bool.true_and, decide_eq_false_iff_not]; intro h; exact hok ⟨hr, h⟩
  simp only [World.step, hleg, Bool.false_eq_true, if_false, hc, hm]
  refine ⟨?_, ?_⟩
  · simp only [setMock, setExp]
    exact foldl_setSeqPending_nextO _ _ _
  · simp only [setMock, setExp]
    rw [show (register { w with nextE := e + 1 } (Owner.exp e) x.seqs).mocks = w.mocks from
      foldl_setSeqPending_mocks _ _ _]

/-- **the `expect` step is `push_front`** on the ring family of the world. -/
theorem expect_is_pushFront (w : World) (e : Nat) (x : ExpectSpec) (m : Mock) (hl : w.legal (.expect e x) = true)
    (hm : w.mocks x.obj = some m) (hok : ¬ (x.rt = true ∧ x.hi < x.lo)) :
    ringOf (w.step (.expect e x)).1 = (ringOf w).step (.pushFront (Addr.act x.obj x.fn) (Addr.exp e)) := by
  obtain ⟨hn, hmk⟩ := expect_world w e x m hl hm hok
  have hheads : headsOf (w.step (.expect e x)).1 = headsOf w := by
    refine headsOf_congr hn (fun o => ?_)
    rw [hmk]
    by_cases ho : o = x.obj
    · subst ho; simp [upd, hm]
    · simp [upd, ho]
  simp only [ringOf, Abs.step, Abs.set, hheads]
  congr 1
  funext a
  cases a with
  | act o f =>
    simp only [listsOf, hmk]
    by_cases ho : o = x.obj
    · subst ho
      by_cases hf : f = x.fn
      · subst hf; simp [upd, hm]
      · simp [upd, hm, hf]
    · simp [upd, ho]
  | sat o f =>
    simp only [listsOf, hmk]
    by_cases ho : o = x.obj
    · subst ho; simp [upd, hm]
    · simp [upd, ho]
  | exp k => simp [listsOf]

/-- … it is a legal ring operation in every reachable world … -/
theorem expect_pushFront_legal {w : World} (r : C14.Reachable w) (e : Nat) (x : ExpectSpec) (m : Mock)
    (hl : w.legal (.expect e x) = true) (hm : w.mocks x.obj = some m) (hok : ¬ (x.rt = true ∧ x.hi < x.lo)) :
    (ringOf w).legal (.pushFront (Addr.act x.obj x.fn) (Addr.exp e)) := by
  refine step_between_reachable_is_legal (w' := (w.step (.expect e x)).1) ?_ _ ?_ (expect_is_pushFront w e x m hl hm hok).symm
  · obtain ⟨ops, rfl⟩ := r
    exact ⟨ops ++ [.expect e x], by simp [World.run_append, World.run]⟩
  · -- typing: the active list object of (obj, fn) exists
    show Addr.act x.obj x.fn ∈ headsOf w
    have hfn : x.fn < nFns := by
      simp only [World.legal, Bool.and_eq_true, decide_eq_true_eq] at hl; exact hl.1.1.1.1.2
    have hobj : x.obj < w.nextO := by
      apply Decidable.byContradiction; intro hge
      have := (C14.reachable_WF r).freshMock x.obj (by omega)
      rw [hm] at this; cases this
    unfold headsOf
    refine List.mem_flatMap.mpr ⟨x.obj, List.mem_range.mpr hobj, ?_⟩
    rw [hm]
    exact List.mem_flatMap.mpr ⟨x.fn, List.mem_range.mpr hfn, by simp⟩

/-- … so the heap after the C++ `push_front` represents the lists of the world after the `expect` step. -/
theorem expect_heap (h : Heap Addr) {w : World} (r : C14.Reachable w) (R : Rep h (ringOf w)) (e : Nat) (x : ExpectSpec) (m : Mock)
    (hl : w.legal (.expect e x) = true) (hm : w.mocks x.obj = some m) (hok : ¬ (x.rt = true ∧ x.hi < x.lo)) :
    Rep (pushFront (Addr.act x.obj x.fn) (Addr.exp e) h) (ringOf (w.step (.expect e x)).1) := by
  rw [expect_is_pushFront w e x m hl hm hok]
  exact rep_step R _ (expect_pushFront_legal r e x m hl hm hok)

end Tromp.C14Ring

namespace Tromp.C14Ring
open Tromp Tromp.Ring World

/-! ### second worked instance: the end of an expectation's lifetime (`~call_matcher` → `this->unlink()`) -/

theorem unlinkExp_isSome (w : World) (e : Nat) (x : Exp) (o : Nat) :
    ((w.unlinkExp e x).mocks o).isSome = (w.mocks o).isSome := by
  unfold World.unlinkExp
  cases hm : w.mocks x.obj with
  | none => rfl
  | some m =>
    simp only
    split
    · rfl
    · by_cases ho : o = x.obj
      · subst ho; simp [hm]
      · rw [setMock_mocks_other _ _ ho]

theorem map_exp_filter (l : List Nat) (e : Nat) (hnd : l.Nodup) :
    (l.filter (· ≠ e)).map Addr.exp = (l.map Addr.exp).erase (Addr.exp e) := by
  rw [(hnd.map exp_injective).erase_eq_filter]
  rw [List.filter_map]
  congr 1
  apply List.filter_congr
  intro k _
  by_cases hk : k = e <;> simp [Function.comp, hk]

/-- **the `release` step is `unlink`** of the expectation on the ring family of the world. -/
theorem release_is_unlink {w : World} (h : WF w) (e : Nat) (x : Exp) (hx : w.exps e = some x) :
    ringOf (w.releaseExp e x).1 = (ringOf w).step (.unlink (Addr.exp e)) := by
  obtain ⟨_, _, hnO, hlists⟩ := h.unlink_lists e x hx
  have hmocks : (w.releaseExp e x).1.mocks = (w.unlinkExp e x).mocks := by
    unfold World.releaseExp; simp only [setExp_mocks, retireOwn_mocks]
  have hnext : (w.releaseExp e x).1.nextO = w.nextO := by
    unfold World.releaseExp
    simp only [setExp]
    show (World.retireOwn _ _ _).nextO = _
    rw [show (World.retireOwn (w.unlinkExp e x) (Owner.exp e) x.seqs).nextO = (w.unlinkExp e x).nextO from
      foldl_setSeqPending_nextO _ _ _, hnO]
  have hheads : headsOf (w.releaseExp e x).1 = headsOf w :=
    headsOf_congr hnext (fun o => by rw [hmocks]; exact unlinkExp_isSome w e x o)
  simp only [ringOf, Abs.step, hheads]
  congr 1
  funext a
  cases a with
  | act o f =>
    simp only [listsOf, hmocks]
    cases hm' : (w.unlinkExp e x).mocks o with
    | none =>
      have := unlinkExp_isSome w e x o; rw [hm'] at this
      cases hm0 : w.mocks o with
      | none => simp
      | some m0 => rw [hm0] at this; cases this
    | some m' =>
      obtain ⟨m0, hm0, hf⟩ := hlists o m' hm'
      simp only [hm0, (hf f).1]
      exact map_exp_filter _ e (h.actNodup o m0 f hm0)
  | sat o f =>
    simp only [listsOf, hmocks]
    cases hm' : (w.unlinkExp e x).mocks o with
    | none =>
      have := unlinkExp_isSome w e x o; rw [hm'] at this
      cases hm0 : w.mocks o with
      | none => simp
      | some m0 => rw [hm0] at this; cases this
    | some m' =>
      obtain ⟨m0, hm0, hf⟩ := hlists o m' hm'
      simp only [hm0, (hf f).2]
      exact map_exp_filter _ e (h.satNodup o m0 f hm0)
  | exp k => simp [listsOf]

/-- … so after `~call_matcher`'s `unlink()` the heap represents the lists of the world without the expectation, and no
    pointer in any ring refers to it any more (`unlinked_unreferenced`) — whatever the order of destructions before. -/
theorem release_heap (h : Heap Addr) {w : World} (r : C14.Reachable w) (R : Rep h (ringOf w)) (e : Nat) (x : Exp)
    (hx : w.exps e = some x) :
    Rep (unlink (Addr.exp e) h) (ringOf (w.releaseExp e x).1) := by
  rw [release_is_unlink (C14.reachable_WF r) e x hx]
  refine rep_step R (.unlink (Addr.exp e)) ?_
  show Addr.exp e ∉ headsOf w
  intro hin
  obtain ⟨o, f, m, _, ha⟩ := mem_headsOf hin
  rcases ha with ha | ha <;> cases ha

end Tromp.C14Ring

namespace Tromp.C14Ring
open Tromp Tromp.Ring World

/-! ### third worked instance: an accepted call (`run_actions`: on saturation `this->unlink(); saturated_list.push_back(this)`) -/

theorem bookkeep_nextO (w : World) (o f e : Nat) (x : Exp) (m : Mock) : (w.bookkeep o f e x m).nextO = w.nextO := by
  unfold bookkeep
  by_cases hc : x.count + 1 = x.hi
  · simp only [hc, if_true, setExp, setMock]
    show (World.retireOwn _ _ _).nextO = _
    rw [show (World.retireOwn (w.retirePredecessors (Owner.exp e) x.seqs) (Owner.exp e) x.seqs).nextO =
      (w.retirePredecessors (Owner.exp e) x.seqs).nextO from foldl_setSeqPending_nextO _ _ _]
    exact foldl_setSeqPending_nextO _ _ _
  · simp only [hc, if_false, setExp]
    exact foldl_setSeqPending_nextO _ _ _

theorem erase_of_not_mem_map (l : List Nat) (e : Nat) (h : e ∉ l) : (l.map Addr.exp).erase (Addr.exp e) = l.map Addr.exp :=
  List.erase_of_not_mem (fun hm => by
    obtain ⟨k, hk, he⟩ := List.mem_map.mp hm
    cases he; exact h hk)

/-- **an accepted call, on the ring family**: nothing moves unless the call saturates its expectation; then the
    expectation is unlinked (from the active list) and pushed to the back of the saturated list. -/
theorem accepted_call_ring {w : World} (h : WF w) (o f e : Nat) (x : Exp) (m : Mock) (hm : w.mocks o = some m)
    (hx : w.exps e = some x) (hin : e ∈ m.active f) :
    ringOf (w.bookkeep o f e x m) =
      if x.count + 1 = x.hi then ((ringOf w).step (.unlink (Addr.exp e))).step (.pushBack (Addr.sat o f) (Addr.exp e))
      else ringOf w := by
  obtain ⟨m', hm', _, hother, hact, hsat⟩ := bookkeep_mock_same w o f e x m hm
  have hheads : headsOf (w.bookkeep o f e x m) = headsOf w := by
    refine headsOf_congr (bookkeep_nextO w o f e x m) (fun o' => ?_)
    by_cases ho : o' = o
    · subst ho; simp [hm', hm]
    · rw [bookkeep_mocks_other w o f e x m ho]
  -- where `e` is and is not
  have hhome := h.listed_only_at_home e x hx
  have hnotsat : ∀ o' m0 f', w.mocks o' = some m0 → e ∉ m0.saturated f' := by
    intro o' m0 f' hm0 hs
    obtain ⟨y, hy, _, _, _, hl⟩ := h.sat o' m0 f' e hm0 hs
    obtain ⟨y', hy', _, _, _, hl'⟩ := h.act o m f e hm hin
    rw [hy] at hy'; cases hy'; rw [hl] at hl'; cases hl'
  have hnotact : ∀ o' m0 f', w.mocks o' = some m0 → (o' ≠ o ∨ f' ≠ f) → e ∉ m0.active f' := by
    intro o' m0 f' hm0 hne ha
    obtain ⟨h1, h2, _⟩ := hhome o' m0 f' hm0 (Or.inl ha)
    obtain ⟨h3, h4, _⟩ := hhome o m f hm (Or.inl hin)
    rcases hne with hne | hne
    · exact hne (h1.trans h3.symm)
    · exact hne (h2.trans h4.symm)
  by_cases hc : x.count + 1 = x.hi
  · simp only [hc, if_true] at hact hsat ⊢
    simp only [ringOf, Abs.step, Abs.set, hheads]
    congr 1
    funext a
    cases a with
    | act o' f' =>
      simp only [listsOf, reduceCtorEq, if_false]
      by_cases ho : o' = o
      · subst ho
        simp only [hm', hm]
        by_cases hf : f' = f
        · subst hf; rw [hact]; exact map_exp_filter _ e (h.actNodup o' m f' hm)
        · rw [(hother f' hf).1]; exact (erase_of_not_mem_map _ e (hnotact o' m f' hm (Or.inr hf))).symm
      · rw [bookkeep_mocks_other w o f e x m ho]
        cases hm0 : w.mocks o' with
        | none => simp
        | some m0 => exact (erase_of_not_mem_map _ e (hnotact o' m0 f' hm0 (Or.inl ho))).symm
    | sat o' f' =>
      simp only [listsOf, Addr.sat.injEq]
      by_cases ho : o' = o
      · subst ho
        simp only [hm', hm]
        by_cases hf : f' = f
        · subst hf
          simp only [and_self, if_true, hsat, List.map_append, List.map_cons, List.map_nil]
          rw [erase_of_not_mem_map _ e (hnotsat o' m f' hm)]
        · simp only [hf, and_false, if_false, (hother f' hf).2]
          exact (erase_of_not_mem_map _ e (hnotsat o' m f' hm)).symm
      · simp only [ho, false_and, if_false]
        rw [bookkeep_mocks_other w o f e x m ho]
        cases hm0 : w.mocks o' with
        | none => simp
        | some m0 => exact (erase_of_not_mem_map _ e (hnotsat o' m0 f' hm0)).symm
    | exp k => simp [listsOf]
  · simp only [hc, if_false] at hact hsat ⊢
    simp only [ringOf, hheads]
    congr 1
    funext a
    cases a with
    | act o' f' =>
      simp only [listsOf]
      by_cases ho : o' = o
      · subst ho; simp only [hm', hm]
        by_cases hf : f' = f
        · subst hf; rw [hact]
        · rw [(hother f' hf).1]
      · rw [bookkeep_mocks_other w o f e x m ho]
    | sat o' f' =>
      simp only [listsOf]
      by_cases ho : o' = o
      · subst ho; simp only [hm', hm]
        by_cases hf : f' = f
        · subst hf; rw [hsat]
        · rw [(hother f' hf).2]
      · rw [bookkeep_mocks_other w o f e x m ho]
    | exp k => rfl

end Tromp.C14Ring

namespace Tromp.C14Ring
open Tromp Tromp.Ring World

theorem sat_head_mem (w : World) (o f : Nat) (m : Mock) (hm : w.mocks o = some m) (ho : o < w.nextO) (hf : f < nFns) :
    Addr.sat o f ∈ headsOf w := by
  unfold headsOf
  refine List.mem_flatMap.mpr ⟨o, List.mem_range.mpr ho, ?_⟩
  rw [hm]
  exact List.mem_flatMap.mpr ⟨f, List.mem_range.mpr hf, by simp⟩

/-- … and on the heap: after `this->unlink(); saturated_list.push_back(this)` the heap represents the lists of the world
    after the saturating call. -/
theorem saturating_call_heap (hp : Heap Addr) {w : World} (h : WF w) (R : Rep hp (ringOf w)) (o f e : Nat) (x : Exp) (m : Mock)
    (hm : w.mocks o = some m) (hx : w.exps e = some x) (hin : e ∈ m.active f) (hf : f < nFns) (hsat : x.count + 1 = x.hi)
    (hw' : WF (w.bookkeep o f e x m)) :
    Rep (pushBack (Addr.sat o f) (Addr.exp e) (unlink (Addr.exp e) hp)) (ringOf (w.bookkeep o f e x m)) := by
  have hring := accepted_call_ring h o f e x m hm hx hin
  rw [if_pos hsat] at hring
  have hnothead : Addr.exp e ∉ headsOf w := by
    intro hin'
    obtain ⟨o', f', m', _, ha⟩ := mem_headsOf hin'
    rcases ha with ha | ha <;> cases ha
  have R1 : Rep (unlink (Addr.exp e) hp) ((ringOf w).step (.unlink (Addr.exp e))) :=
    rep_step R (.unlink (Addr.exp e)) hnothead
  have ho : o < w.nextO := by
    apply Decidable.byContradiction; intro hge
    have := h.freshMock o (by omega)
    rw [hm] at this; cases this
  have legal2 : ((ringOf w).step (.unlink (Addr.exp e))).legal (.pushBack (Addr.sat o f) (Addr.exp e)) := by
    refine legal_of_wf_post _ _ ?_ ?_
    · exact sat_head_mem w o f m hm ho hf
    · rw [← hring]; exact absWf_of_WF hw'
  have R2 := rep_step R1 (.pushBack (Addr.sat o f) (Addr.exp e)) legal2
  rw [hring]; exact R2

end Tromp.C14Ring

namespace Tromp.C14Ring
open Tromp Tromp.Ring World

/-! ### fourth worked instance: destruction of a mock object (`~expectations` → `decommission`: every element `unlink()`ed) -/

theorem killMock_mocks (w : World) (o : Nat) (m : Mock) :
    (w.killMock o m).1.mocks = upd w.mocks o { m with alive := false, active := fun _ => [], saturated := fun _ => [] } ∧
    (w.killMock o m).1.nextO = w.nextO := by
  have hd := killMock_fold_detached m (List.range nFns).reverse w []
  unfold World.killMock
  simp only
  generalize ((List.range nFns).reverse.foldl (fun (acc : World × List Ev) f =>
        let (w, evs) := acc
        let (w1, e1) := w.decommission (m.active f)
        let (w2, e2) := w1.decommission (m.saturated f)
        (w2, evs ++ e1 ++ e2)) (w, [])) = wk at hd ⊢
  obtain ⟨w', evs⟩ := wk
  simp only [setMock]
  exact ⟨by rw [hd.mocks], hd.nextO⟩

/-- the elements of the dying object's lists, in the order `~expectations` visits them. -/
def killed (m : Mock) : List Nat := allListed m (List.range nFns).reverse

/-- the ring script of the destruction: every element of every list of the object is unlinked. -/
def killScript (m : Mock) : List (Ring.Op Addr) := (killed m).map (fun e => Ring.Op.unlink (Addr.exp e))

theorem run_unlinks_fst (a : Abs Addr) (hp : Heap Addr) (es : List Nat) :
    (run (a, hp) (es.map (fun e => Ring.Op.unlink (Addr.exp e)))).1 =
      { a with lists := fun hd => es.foldl (fun l e => l.erase (Addr.exp e)) (a.lists hd) } := by
  induction es generalizing a hp with
  | nil => rfl
  | cons e es ih =>
    simp only [List.map_cons, Ring.run, List.foldl_cons]
    rw [ih]; rfl

theorem foldl_erase_disjoint (es : List Nat) (l : List Addr) (h : ∀ e ∈ es, Addr.exp e ∉ l) :
    es.foldl (fun l e => l.erase (Addr.exp e)) l = l := by
  induction es generalizing l with
  | nil => rfl
  | cons e es ih =>
    simp only [List.foldl_cons]
    rw [List.erase_of_not_mem (h e (by simp))]
    exact ih l (fun e' he' => h e' (by simp [he']))

theorem foldl_erase_all (es : List Nat) (l : List Nat) (hnd : l.Nodup) (hsub : ∀ x ∈ l, x ∈ es) :
    es.foldl (fun l e => l.erase (Addr.exp e)) (l.map Addr.exp) = [] := by
  induction es generalizing l with
  | nil => cases l with
    | nil => rfl
    | cons x l => exact absurd (hsub x (by simp)) (by simp)
  | cons e es ih =>
    simp only [List.foldl_cons]
    rw [← map_exp_filter l e hnd]
    refine ih _ (hnd.filter _) ?_
    intro x hx
    have hx' := List.mem_filter.mp hx
    have hne : x ≠ e := by simpa using hx'.2
    rcases List.mem_cons.mp (hsub x hx'.1) with h | h
    · exact absurd h hne
    · exact h

theorem legalRun_unlinks (a : Abs Addr) (es : List Nat) (h : ∀ e ∈ es, Addr.exp e ∉ a.heads) :
    legalRun a (es.map (fun e => Ring.Op.unlink (Addr.exp e))) := by
  induction es generalizing a with
  | nil => trivial
  | cons e es ih =>
    refine ⟨h e (by simp), ih _ (fun e' he' => ?_)⟩
    show Addr.exp e' ∉ a.heads
    exact h e' (by simp [he'])

/-- **destruction of a mock object, on the heap**: after every element of its lists has been unlinked (the translated
    `decommission` loop, `Tie/Decommission.lean`), the heap represents the lists of the world after the `kill` step — the
    dead object's lists empty, every other list untouched — whatever expectations, in whatever state, the object had. -/
theorem kill_heap (hp : Heap Addr) {w : World} (h : WF w) (R : Rep hp (ringOf w)) (o : Nat) (m : Mock)
    (hm : w.mocks o = some m) :
    Rep (run (ringOf w, hp) (killScript m)).2 (ringOf (w.killMock o m).1) := by
  obtain ⟨hmocks, hnext⟩ := killMock_mocks w o m
  have hnothead : ∀ e, Addr.exp e ∉ (ringOf w).heads := by
    intro e hin
    obtain ⟨o', f', m', _, ha⟩ := mem_headsOf hin
    rcases ha with ha | ha <;> cases ha
  have R' := rep_run R (killScript m) (legalRun_unlinks _ _ (fun e _ => hnothead e))
  have hheads : headsOf (w.killMock o m).1 = headsOf w := by
    refine headsOf_congr hnext (fun o' => ?_)
    rw [hmocks]
    by_cases ho : o' = o
    · subst ho; simp [upd, hm]
    · simp [upd, ho]
  refine rep_congr R' ?_ ?_
  · rw [killScript, run_unlinks_fst]; exact hheads
  · intro hd hhd
    rw [killScript, run_unlinks_fst] at hhd ⊢
    change hd ∈ headsOf w at hhd
    obtain ⟨o', f', m', hm', ha⟩ := mem_headsOf hhd
    have hf' : f' < nFns := by
      -- heads only exist for the declared mock functions
      unfold headsOf at hhd
      obtain ⟨o2, _, hin⟩ := List.mem_flatMap.mp hhd
      cases hm2 : w.mocks o2 with
      | none => rw [hm2] at hin; simp at hin
      | some m2 =>
        rw [hm2] at hin
        obtain ⟨f2, hf2, hor⟩ := mem_headsOfMock hin
        rcases ha with rfl | rfl <;> rcases hor with hor | hor <;> cases hor <;> exact hf2
    have hmem : ∀ x, (x ∈ m.active f' ∨ x ∈ m.saturated f') → x ∈ killed m := by
      intro x hx
      unfold killed allListed
      refine List.mem_flatMap.mpr ⟨f', by simp [List.mem_range.mpr hf'], ?_⟩
      exact List.mem_append.mpr hx
    by_cases ho : o' = o
    · subst ho
      rw [hm] at hm'; cases hm'
      rcases ha with rfl | rfl
      · simp only [ringOf, listsOf, hmocks, upd, if_true, List.map_nil, hm]
        exact (foldl_erase_all _ _ (h.actNodup o' m f' hm) (fun x hx => hmem x (Or.inl hx))).symm
      · simp only [ringOf, listsOf, hmocks, upd, if_true, List.map_nil, hm]
        exact (foldl_erase_all _ _ (h.satNodup o' m f' hm) (fun x hx => hmem x (Or.inr hx))).symm
    · -- another object's lists: none of the killed elements is on them
      have hdisj : ∀ e ∈ killed m, ∀ g, e ∉ m'.active g ∧ e ∉ m'.saturated g := by
        intro e he g
        unfold killed allListed at he
        obtain ⟨f0, _, hin⟩ := List.mem_flatMap.mp he
        have hin' := List.mem_append.mp hin
        have hx : ∃ x, w.exps e = some x ∧ x.obj = o := by
          rcases hin' with hin' | hin'
          · obtain ⟨x, hx, _, hob, _⟩ := h.act o m f0 e hm hin'; exact ⟨x, hx, hob⟩
          · obtain ⟨x, hx, _, hob, _⟩ := h.sat o m f0 e hm hin'; exact ⟨x, hx, hob⟩
        obtain ⟨x, hx, hob⟩ := hx
        constructor
        · intro hc
          have := (h.listed_only_at_home e x hx o' m' g hm' (Or.inl hc)).1
          exact ho (this.trans hob)
        · intro hc
          have := (h.listed_only_at_home e x hx o' m' g hm' (Or.inr hc)).1
          exact ho (this.trans hob)
      rcases ha with rfl | rfl
      · simp only [ringOf, listsOf, hmocks, upd, ho, if_false, hm']
        refine (foldl_erase_disjoint _ _ (fun e he hc => ?_)).symm
        obtain ⟨k, hk, hek⟩ := List.mem_map.mp hc
        cases hek; exact (hdisj e he f').1 hk
      · simp only [ringOf, listsOf, hmocks, upd, ho, if_false, hm']
        refine (foldl_erase_disjoint _ _ (fun e he hc => ?_)).symm
        obtain ⟨k, hk, hek⟩ := List.mem_map.mp hc
        cases hek; exact (hdisj e he f').2 hk

end Tromp.C14Ring

namespace Tromp.C14Ring
open Tromp Tromp.Ring World

/-! ### the sequences' pending lists (`sequence_type::matchers`) as a ring family

A `sequence_matcher` handle is owned by one (owner, sequence) pair, so its address carries both; the list object of
sequence `s` is `SAddr.pending s`.  `WFSeq` (proved for every reachable world, Props/C14.lean) gives duplicate-freeness;
different sequences' lists are disjoint by the addresses alone. -/

inductive SAddr
  | pending (s : Nat)
  | handle (o : Owner) (s : Nat)
  deriving DecidableEq, Repr

/-- the sequences' pending lists as a ring family, over the sequence ids below `n`. -/
def seqRingOf (w : World) (n : Nat) : Abs SAddr :=
  ⟨(List.range n).map SAddr.pending,
   fun a => match a with
     | .pending s => (w.pendingOf s).map (fun o => SAddr.handle o s)
     | .handle _ _ => []⟩

theorem handle_injective (s : Nat) : Function.Injective (fun o => SAddr.handle o s) :=
  fun _ _ h => by cases h; rfl

/-- **the pending lists of every reachable world are a well-formed ring family.** -/
theorem seq_lists_wellformed {w : World} (r : C14.Reachable w) (n : Nat) : AbsWf (seqRingOf w n) := by
  have hs := C14.reachable_WFSeq r
  refine ⟨?_, ?_, ?_⟩
  · exact (List.nodup_range).map (fun _ _ h => by cases h; rfl)
  · intro hd hm
    obtain ⟨s, _, rfl⟩ := List.mem_map.mp hm
    simp only [seqRingOf, List.nodup_cons, List.mem_map, reduceCtorEq, and_false, exists_false, not_false_eq_true, true_and]
    exact (hs.nodup s).map (handle_injective s)
  · intro hd1 h1 hd2 h2 ne y hy hin
    obtain ⟨s1, _, rfl⟩ := List.mem_map.mp h1
    obtain ⟨s2, _, rfl⟩ := List.mem_map.mp h2
    simp only [seqRingOf, List.mem_cons, List.mem_map] at hy hin
    rcases hy with rfl | ⟨o1, _, rfl⟩
    · rcases hin with hin | ⟨o2, _, hin⟩
      · exact ne hin
      · cases hin
    · rcases hin with hin | ⟨o2, _, hin⟩
      · cases hin
      · cases hin; exact ne rfl

end Tromp.C14Ring

namespace Tromp.C14Ring
open Tromp Tromp.Ring World

/-! ### fifth worked instance: moving a mock object (the implicit move constructor: `list(list&&)` member by member) -/

/-- (new list object, old list object) for every list of the object. -/
def movePairs (o o' : Nat) : List (Addr × Addr) :=
  (List.range nFns).flatMap (fun f => [(Addr.act o' f, Addr.act o f), (Addr.sat o' f, Addr.sat o f)])

theorem mem_movePairs {o o' : Nat} {p : Addr × Addr} (h : p ∈ movePairs o o') :
    ∃ f, f < nFns ∧ (p = (Addr.act o' f, Addr.act o f) ∨ p = (Addr.sat o' f, Addr.sat o f)) := by
  unfold movePairs at h
  obtain ⟨f, hf, hp⟩ := List.mem_flatMap.mp h
  exact ⟨f, List.mem_range.mp hf, by simpa using hp⟩

theorem movePairs_fst (o o' : Nat) : (movePairs o o').map (·.1) = headsOfMock o' := by
  simp [movePairs, headsOfMock, List.map_flatMap]

theorem movePairs_snd (o o' : Nat) : (movePairs o o').map (·.2) = headsOfMock o := by
  simp [movePairs, headsOfMock, List.map_flatMap]

theorem movePairs_eq (o o' : Nat) : movePairs o o' =
    [(Addr.act o' 0, Addr.act o 0), (Addr.sat o' 0, Addr.sat o 0), (Addr.act o' 1, Addr.act o 1), (Addr.sat o' 1, Addr.sat o 1),
     (Addr.act o' 2, Addr.act o 2), (Addr.sat o' 2, Addr.sat o 2), (Addr.act o' 3, Addr.act o 3), (Addr.sat o' 3, Addr.sat o 3)] := by
  simp [movePairs, nFns, List.range, List.range.loop]

theorem find_movePairs_act (o o' f : Nat) (hf : f < nFns) :
    (movePairs o o').find? (fun p => decide (p.1 = Addr.act o' f)) = some (Addr.act o' f, Addr.act o f) := by
  have : f = 0 ∨ f = 1 ∨ f = 2 ∨ f = 3 := by unfold nFns at hf; omega
  rw [movePairs_eq]
  rcases this with rfl | rfl | rfl | rfl <;> simp

theorem find_movePairs_sat (o o' f : Nat) (hf : f < nFns) :
    (movePairs o o').find? (fun p => decide (p.1 = Addr.sat o' f)) = some (Addr.sat o' f, Addr.sat o f) := by
  have : f = 0 ∨ f = 1 ∨ f = 2 ∨ f = 3 := by unfold nFns at hf; omega
  rw [movePairs_eq]
  rcases this with rfl | rfl | rfl | rfl <;> simp

theorem find_movePairs_none (o o' : Nat) (x : Addr) (hx : x ∉ headsOfMock o') :
    (movePairs o o').find? (fun p => decide (p.1 = x)) = none := by
  rw [List.find?_eq_none]
  intro p hp
  simp only [decide_eq_true_eq]
  intro e
  exact hx (by rw [← movePairs_fst o o']; exact List.mem_map.mpr ⟨p, hp, e⟩)

theorem moveMock_mocks (w : World) (o o' : Nat) (m : Mock) (hne : o' ≠ o) (k : Nat) :
    (w.moveMock o o' m).mocks k =
      if k = o then some { m with active := fun _ => [], saturated := fun _ => [] }
      else if k = o' then some { m with alive := true } else w.mocks k := by
  unfold World.moveMock setMock upd
  by_cases e1 : k = o
  · simp [e1]
  · by_cases e2 : k = o' <;> simp [e1, e2]

theorem head_fn_lt {w : World} {o f : Nat} {a : Addr} (hmem : a ∈ headsOf w) (ha : a = .act o f ∨ a = .sat o f) : f < nFns := by
  unfold headsOf at hmem
  obtain ⟨o3, _, hin3⟩ := List.mem_flatMap.mp hmem
  cases hm3 : w.mocks o3 with
  | none => rw [hm3] at hin3; simp at hin3
  | some m3 =>
    rw [hm3] at hin3
    obtain ⟨f3, hf3, hor⟩ := mem_headsOfMock hin3
    rcases ha with rfl | rfl <;> rcases hor with hor | hor <;> cases hor <;> exact hf3

theorem mem_headsOfMock_of {o f : Nat} (hf : f < nFns) : Addr.act o f ∈ headsOfMock o ∧ Addr.sat o f ∈ headsOfMock o := by
  unfold headsOfMock
  exact ⟨List.mem_flatMap.mpr ⟨f, List.mem_range.mpr hf, by simp⟩, List.mem_flatMap.mpr ⟨f, List.mem_range.mpr hf, by simp⟩⟩

/-- **moving a mock object, on the heap**: after `list(list&&)` for each of its lists, the heap represents the world after the
    `move` step — the new object's lists hold the expectations in the same order, the old object's lists are empty. -/
theorem move_heap (hp : Heap Addr) {w : World} (h : WF w) (R : Rep hp (ringOf w)) (o o' : Nat) (m : Mock)
    (hm : w.mocks o = some m) (ho' : o' = w.nextO) :
    Rep (run (ringOf w, hp) (moveAll (movePairs o o'))).2 (ringOf (w.moveMock o o' m)) := by
  subst ho'
  have ho : o < w.nextO := by
    apply Decidable.byContradiction; intro hge
    have := h.freshMock o (by omega); rw [hm] at this; cases this
  have hne : w.nextO ≠ o := by omega
  have hfresh : w.mocks w.nextO = none := h.freshMock w.nextO (Nat.le_refl _)
  have hold : ∀ p ∈ movePairs o w.nextO, p.2 ∈ (ringOf w).heads := by
    intro p hp'
    obtain ⟨f, hf, hp⟩ := mem_movePairs hp'
    show p.2 ∈ headsOf w
    unfold headsOf
    refine List.mem_flatMap.mpr ⟨o, List.mem_range.mpr ho, ?_⟩
    rw [hm]
    rcases hp with rfl | rfl
    · exact (mem_headsOfMock_of hf).1
    · exact (mem_headsOfMock_of hf).2
  have hnewUnused : ∀ p ∈ movePairs o w.nextO, ¬ (ringOf w).used p.1 := by
    intro p hp' hu
    obtain ⟨f, hf, hp⟩ := mem_movePairs hp'
    obtain ⟨hd, hhd, hy⟩ := hu
    obtain ⟨o2, f2, m2, hm2, ha⟩ := mem_headsOf hhd
    have ho2 : o2 ≠ w.nextO := by rintro rfl; rw [hfresh] at hm2; cases hm2
    simp only [List.mem_cons] at hy
    rcases hy with hy | hy
    · rcases hp with rfl | rfl <;> rcases ha with rfl | rfl <;> simp at hy <;> exact ho2 hy.1.symm
    · rcases ha with rfl | rfl <;> simp only [ringOf, listsOf, hm2, List.mem_map] at hy <;>
        (obtain ⟨e, _, he⟩ := hy; rcases hp with rfl | rfl <;> cases he)
  have c2 : ((movePairs o w.nextO).map (·.2)).Nodup := by rw [movePairs_snd]; exact headsOfMock_nodup o
  have c4 : ((movePairs o w.nextO).map (·.1)).Nodup := by rw [movePairs_fst]; exact headsOfMock_nodup _
  have c5 : ∀ p ∈ movePairs o w.nextO, ∀ q ∈ movePairs o w.nextO, p.1 ≠ q.2 := by
    intro p hp' q hq'
    obtain ⟨f, _, hp⟩ := mem_movePairs hp'
    obtain ⟨g, _, hq⟩ := mem_movePairs hq'
    rcases hp with rfl | rfl <;> rcases hq with rfl | rfl <;> simp <;> intro e <;> exact absurd e hne
  obtain ⟨_, Rm⟩ := rep_moveAll R (movePairs o w.nextO) hold c2 hnewUnused c4
  have hmk := moveMock_mocks w o w.nextO m hne
  have hnext : (w.moveMock o w.nextO m).nextO = w.nextO + 1 := rfl
  have hheads : ∀ y, y ∈ headsOf (w.moveMock o w.nextO m) ↔ y ∈ headsOf w ∨ y ∈ headsOfMock w.nextO := by
    intro y
    unfold headsOf
    rw [hnext, List.range_succ, List.flatMap_append, List.mem_append]
    simp only [List.flatMap_cons, List.flatMap_nil, List.append_nil]
    have hself : (w.moveMock o w.nextO m).mocks w.nextO = some { m with alive := true } := by
      rw [hmk]; simp [hne]
    rw [hself]
    refine or_congr ?_ Iff.rfl
    simp only [List.mem_flatMap, List.mem_range]
    constructor
    · rintro ⟨k, hk, hy⟩
      refine ⟨k, hk, ?_⟩
      have hk' : k ≠ w.nextO := by omega
      rw [hmk] at hy
      by_cases e : k = o
      · subst e; rw [hm]; simpa using hy
      · simpa [e, hk'] using hy
    · rintro ⟨k, hk, hy⟩
      refine ⟨k, hk, ?_⟩
      have hk' : k ≠ w.nextO := by omega
      rw [hmk]
      by_cases e : k = o
      · subst e; rw [hm] at hy; simpa using hy
      · simpa [e, hk'] using hy
  refine rep_congr_mem Rm ?_ (headsOf_nodup _) ?_
  · intro y
    rw [run_moveAll_fst, movedAbs_heads _ _ hold, movePairs_fst]
    exact hheads y
  · intro hd hhd
    rw [run_moveAll_fst] at hhd ⊢
    rw [movedAbs_lists _ _ c2 c4 c5]
    have hmem := (movedAbs_heads (ringOf w) (movePairs o w.nextO) hold hd).1 hhd
    rw [movePairs_fst] at hmem
    unfold movedLists
    rcases hmem with hmem | hmem
    · -- a list object that existed before: emptied if it belongs to `o`, untouched otherwise
      change hd ∈ headsOf w at hmem
      obtain ⟨o2, f2, m2, hm2, ha⟩ := mem_headsOf hmem
      have hf2 : f2 < nFns := head_fn_lt hmem ha
      have ho2 : o2 ≠ w.nextO := by rintro rfl; rw [hfresh] at hm2; cases hm2
      have hnotnew : hd ∉ headsOfMock w.nextO := by
        intro hin
        obtain ⟨f3, _, h3⟩ := mem_headsOfMock hin
        rcases ha with rfl | rfl <;> rcases h3 with h3 | h3 <;> cases h3 <;> exact ho2 rfl
      rw [find_movePairs_none o w.nextO hd hnotnew]
      simp only [movePairs_snd]
      by_cases e : o2 = o
      · subst e
        have hin : hd ∈ headsOfMock o2 := by
          rcases ha with rfl | rfl
          · exact (mem_headsOfMock_of hf2).1
          · exact (mem_headsOfMock_of hf2).2
        simp only [hin, if_true]
        rcases ha with rfl | rfl <;> simp [ringOf, listsOf, hmk]
      · have hnotold : hd ∉ headsOfMock o := by
          intro hin
          obtain ⟨f3, _, h3⟩ := mem_headsOfMock hin
          rcases ha with rfl | rfl <;> rcases h3 with h3 | h3 <;> cases h3 <;> exact e rfl
        simp only [hnotold, if_false]
        rcases ha with rfl | rfl <;> simp [ringOf, listsOf, hmk, e, ho2]
    · -- a list object of the new mock object: it holds what the old one held
      obtain ⟨f, hf, ha⟩ := mem_headsOfMock hmem
      rcases ha with rfl | rfl
      · rw [find_movePairs_act o w.nextO f hf]
        simp [ringOf, listsOf, hmk, hne, hm]
      · rw [find_movePairs_sat o w.nextO f hf]
        simp [ringOf, listsOf, hmk, hne, hm]

end Tromp.C14Ring
