/-
  Props/C11.lean — range matchers: is / starts / ends / includes / permutation / all / any / none.
  The mirrored loops of Model/Range.lean against their declarative meaning, for ranges of every
  length, with duplicates.  (Mathlib: list permutation / sub-permutation lemmas only.)
-/
import TrompModel.Model.Range
import Mathlib.Data.List.Perm.Subperm
import Mathlib.Data.List.Count
import Mathlib.Data.List.Basic
import Mathlib.Data.List.Forall2

namespace Tromp.C11
open Tromp.Range List

variable {α β : Type}

/-! ### element-wise checkers -/

private theorem foldl_false (acc : β → α → Bool) (ms : List β) (l : List α) :
    (ms.foldl (elemStep acc) (false, l)).1 = false := by
  induction ms with
  | nil => rfl
  | cons m ms ih => simpa [List.foldl, elemStep] using ih

/-- what the `all_true && match(...)` fold computes: it consumes a prefix of the range matched
    pointwise by the elements. -/
theorem elemFold_true_iff (acc : β → α → Bool) (ms : List β) (r : List α) (suf : List α) :
    ((elemFold acc ms r).1 = true ∧ (elemFold acc ms r).2 = suf) ↔
      ∃ pre, r = pre ++ suf ∧ Forall₂ (fun m x => acc m x = true) ms pre := by
  induction ms generalizing r with
  | nil =>
    simp only [elemFold, List.foldl, true_and]
    constructor
    · intro h; exact ⟨[], by simp [h], Forall₂.nil⟩
    · rintro ⟨pre, h, hf⟩; cases hf; simpa using h
  | cons m ms ih =>
    cases r with
    | nil =>
      simp only [elemFold, List.foldl, elemStep, if_true]
      constructor
      · intro h
        have := foldl_false acc ms ([] : List α)
        rw [this] at h; exact absurd h.1 (by simp)
      · rintro ⟨pre, h, hf⟩
        cases hf with
        | cons _ _ => simp at h
    | cons x xs =>
      by_cases hx : acc m x = true
      · have hstep : elemFold acc (m :: ms) (x :: xs) = elemFold acc ms xs := by
          simp [elemFold, List.foldl, elemStep, hx]
        rw [hstep, ih]
        constructor
        · rintro ⟨pre, h, hf⟩; exact ⟨x :: pre, by simp [h], Forall₂.cons hx hf⟩
        · rintro ⟨pre, h, hf⟩
          cases hf with
          | cons h1 h2 =>
            simp at h
            exact ⟨_, h.2, h2⟩
      · have hx' : acc m x = false := by simpa using hx
        constructor
        · intro h
          have : (elemFold acc (m :: ms) (x :: xs)).1 = false := by
            simp only [elemFold, List.foldl, elemStep, if_true, hx']
            exact foldl_false acc ms xs
          rw [this] at h; exact absurd h.1 (by simp)
        · rintro ⟨pre, h, hf⟩
          cases hf with
          | cons h1 h2 =>
            simp at h
            rw [← h.1] at h1
            exact absurd h1 hx

/-- **range_is(e₁ … eₙ)** accepts exactly the equal-length element-wise matches. -/
theorem isElements_iff (acc : β → α → Bool) (ms : List β) (r : List α) :
    isElements acc ms r = true ↔ Forall₂ (fun m x => acc m x = true) ms r := by
  unfold isElements
  rw [Bool.and_eq_true, List.isEmpty_iff]
  rw [elemFold_true_iff acc ms r []]
  constructor
  · rintro ⟨pre, h, hf⟩; simpa [h] using hf
  · intro hf; exact ⟨r, by simp, hf⟩

/-- **range_starts_with(e₁ … eₙ)** accepts exactly when a prefix of the range matches element-wise. -/
theorem startsWithE_iff (acc : β → α → Bool) (ms : List β) (r : List α) :
    startsWithE acc ms r = true ↔ ∃ pre suf, r = pre ++ suf ∧ Forall₂ (fun m x => acc m x = true) ms pre := by
  unfold startsWithE
  constructor
  · intro h
    obtain ⟨pre, h1, h2⟩ := (elemFold_true_iff acc ms r (elemFold acc ms r).2).mp ⟨h, rfl⟩
    exact ⟨pre, _, h1, h2⟩
  · rintro ⟨pre, suf, h1, h2⟩
    exact ((elemFold_true_iff acc ms r suf).mpr ⟨pre, h1, h2⟩).1

/-- **range_is(container)** (`std::equal`, four iterators). -/
theorem equal4_iff (acc : β → α → Bool) (ms : List β) (r : List α) :
    equal4 acc r ms = true ↔ Forall₂ (fun m x => acc m x = true) ms r := by
  induction r generalizing ms with
  | nil => cases ms <;> simp [equal4]
  | cons x xs ih =>
    cases ms with
    | nil => simp [equal4]
    | cons m ms => simp [equal4, ih]

theorem mismatch_snd_nil_iff (acc : β → α → Bool) (ms : List β) (r : List α) :
    (mismatch acc r ms).2 = [] ↔ ∃ pre suf, r = pre ++ suf ∧ Forall₂ (fun m x => acc m x = true) ms pre := by
  induction ms generalizing r with
  | nil =>
    cases r <;> simp [mismatch]
  | cons m ms ih =>
    cases r with
    | nil =>
      simp only [mismatch]
      constructor
      · intro h; cases h
      · rintro ⟨pre, suf, h, hf⟩
        cases hf with
        | cons _ _ => simp at h
    | cons x xs =>
      by_cases hx : acc m x = true
      · simp only [mismatch, hx, if_true, ih]
        constructor
        · rintro ⟨pre, suf, h, hf⟩; exact ⟨x :: pre, suf, by simp [h], Forall₂.cons hx hf⟩
        · rintro ⟨pre, suf, h, hf⟩
          cases hf with
          | cons h1 h2 => simp at h; exact ⟨_, suf, h.2, h2⟩
      · simp only [mismatch, hx]
        constructor
        · intro h; cases h
        · rintro ⟨pre, suf, h, hf⟩
          cases hf with
          | cons h1 h2 => simp at h; rw [← h.1] at h1; exact absurd h1 hx

/-- **range_starts_with(container)** (`std::mismatch`). -/
theorem startsWithR_iff (acc : β → α → Bool) (ms : List β) (r : List α) :
    startsWithR acc ms r = true ↔ ∃ pre suf, r = pre ++ suf ∧ Forall₂ (fun m x => acc m x = true) ms pre := by
  unfold startsWithR
  rw [List.isEmpty_iff]
  exact mismatch_snd_nil_iff acc ms r

private theorem suffix_split (acc : β → α → Bool) (ms : List β) (r : List α) (hlen : ms.length ≤ r.length) :
    (∃ pre suf, r.drop (r.length - ms.length) = pre ++ suf ∧ Forall₂ (fun m x => acc m x = true) ms pre) ↔
    ∃ pre suf, r = pre ++ suf ∧ Forall₂ (fun m x => acc m x = true) ms suf := by
  constructor
  · rintro ⟨pre, suf, h, hf⟩
    have hl : pre.length = ms.length := hf.length_eq.symm
    have hd : (r.drop (r.length - ms.length)).length = ms.length := by simp; omega
    have hsuf : suf = [] := by
      have : (pre ++ suf).length = ms.length := by rw [← h]; exact hd
      simp at this
      exact List.eq_nil_of_length_eq_zero (by omega)
    subst hsuf
    refine ⟨r.take (r.length - ms.length), pre, ?_, hf⟩
    rw [← (by simpa using h : r.drop (r.length - ms.length) = pre)]
    exact (List.take_append_drop _ _).symm
  · rintro ⟨pre, suf, h, hf⟩
    have hl : suf.length = ms.length := hf.length_eq.symm
    refine ⟨suf, [], ?_, hf⟩
    subst h
    simp only [List.length_append, List.append_nil]
    rw [show pre.length + suf.length - ms.length = pre.length by omega]
    simp

/-- **range_ends_with(e₁ … eₙ)** accepts exactly when a suffix of the range matches element-wise. -/
theorem endsWithE_iff (acc : β → α → Bool) (ms : List β) (r : List α) :
    endsWithE acc ms r = true ↔ ∃ pre suf, r = pre ++ suf ∧ Forall₂ (fun m x => acc m x = true) ms suf := by
  unfold endsWithE
  by_cases hlen : r.length < ms.length
  · simp only [hlen, if_true]
    constructor
    · intro h; cases h
    · rintro ⟨pre, suf, h, hf⟩
      have := hf.length_eq
      subst h; simp at hlen; omega
  · simp only [hlen, if_false]
    rw [show (elemFold acc ms (r.drop (r.length - ms.length))).1 = startsWithE acc ms (r.drop (r.length - ms.length)) from rfl,
        startsWithE_iff]
    exact suffix_split acc ms r (by omega)

/-- **range_ends_with(container)**. -/
theorem endsWithR_iff (acc : β → α → Bool) (ms : List β) (r : List α) :
    endsWithR acc ms r = true ↔ ∃ pre suf, r = pre ++ suf ∧ Forall₂ (fun m x => acc m x = true) ms suf := by
  unfold endsWithR
  by_cases hlen : r.length < ms.length
  · simp only [hlen, if_true]
    constructor
    · intro h; cases h
    · rintro ⟨pre, suf, h, hf⟩
      have := hf.length_eq
      subst h; simp at hlen; omega
  · simp only [hlen, if_false, List.isEmpty_iff]
    rw [mismatch_snd_nil_iff]
    exact suffix_split acc ms r (by omega)

/-! ### plain values as elements -/
section values
variable [DecidableEq α]

/-- a plain value used as an element behaves as `==`. -/
def accV (v x : α) : Bool := x == v

theorem forall2_accV (vs r : List α) : Forall₂ (fun m x => accV m x = true) vs r ↔ r = vs := by
  constructor
  · intro h
    induction h with
    | nil => rfl
    | cons h1 _ ih => simp [accV] at h1; simp [h1, ih]
  · intro h; subst h
    induction r with
    | nil => exact Forall₂.nil
    | cons x xs ih => exact Forall₂.cons (by simp [accV]) ih

theorem rangeIs_values (vs r : List α) :
    (isElements accV vs r = true ↔ r = vs) ∧ (equal4 accV r vs = true ↔ r = vs) := by
  rw [isElements_iff, equal4_iff, forall2_accV]; simp

theorem startsWith_values (vs r : List α) :
    (startsWithE accV vs r = true ↔ vs <+: r) ∧ (startsWithR accV vs r = true ↔ vs <+: r) := by
  rw [startsWithE_iff, startsWithR_iff]
  have : (∃ pre suf, r = pre ++ suf ∧ Forall₂ (fun m x => accV m x = true) vs pre) ↔ vs <+: r := by
    constructor
    · rintro ⟨pre, suf, h, hf⟩; rw [forall2_accV] at hf; subst hf; exact ⟨suf, h.symm⟩
    · rintro ⟨suf, h⟩; exact ⟨vs, suf, h.symm, (forall2_accV vs vs).mpr rfl⟩
  exact ⟨this, this⟩

theorem endsWith_values (vs r : List α) :
    (endsWithE accV vs r = true ↔ vs <:+ r) ∧ (endsWithR accV vs r = true ↔ vs <:+ r) := by
  rw [endsWithE_iff, endsWithR_iff]
  have : (∃ pre suf, r = pre ++ suf ∧ Forall₂ (fun m x => accV m x = true) vs suf) ↔ vs <:+ r := by
    constructor
    · rintro ⟨pre, suf, h, hf⟩; rw [forall2_accV] at hf; subst hf; exact ⟨pre, h.symm⟩
    · rintro ⟨pre, h⟩; exact ⟨pre, vs, h.symm, (forall2_accV vs vs).mpr rfl⟩
  exact ⟨this, this⟩

end values

/-! ### includes / permutation: first-fit with swap-remove -/

theorem set_perm_cons_eraseIdx (l : List β) (i : Nat) (a : β) (h : i < l.length) :
    l.set i a ~ a :: l.eraseIdx i := by
  induction l generalizing i with
  | nil => simp at h
  | cons x xs ih =>
    cases i with
    | zero => simp
    | succ j =>
      simp only [set_cons_succ, eraseIdx_cons_succ]
      have := ih j (by simpa using h)
      exact (this.cons x).trans (Perm.swap a x _)

/-- swap-with-last removal of index `i` is a permutation of plain removal of index `i`. -/
theorem swapRemove_perm (ms : List β) (i : Nat) (h : i < ms.length) :
    swapRemove ms i ~ ms.eraseIdx i := by
  rcases List.eq_nil_or_concat ms with rfl | ⟨init, l, hms⟩
  · simp at h
  rw [List.concat_eq_append] at hms
  subst hms
  have hl : (init ++ [l]).getLast? = some l := by simp
  unfold swapRemove
  rw [hl]
  show ((init ++ [l]).set i l).dropLast ~ (init ++ [l]).eraseIdx i
  simp only [length_append, length_singleton] at h
  by_cases hi : i < init.length
  · rw [List.set_append_left _ _ hi, dropLast_concat, List.eraseIdx_append_of_lt_length hi]
    exact (set_perm_cons_eraseIdx init i l hi).trans (perm_append_singleton l _).symm
  · have : i = init.length := by omega
    subst this
    simp [List.set_append_right, List.eraseIdx_append_of_length_le]

theorem swapRemove_length (ms : List β) (i : Nat) (h : i < ms.length) :
    (swapRemove ms i).length + 1 = ms.length := by
  have := (swapRemove_perm ms i h).length_eq
  rw [this, List.length_eraseIdx_of_lt h]; omega

section counts
variable [DecidableEq β]

theorem swapRemove_perm_erase (ms : List β) (i : Nat) (h : i < ms.length) :
    swapRemove ms i ~ ms.erase ms[i] := by
  refine (swapRemove_perm ms i h).trans ?_
  have h1 : ms ~ ms[i] :: ms.eraseIdx i := by
    have := set_perm_cons_eraseIdx ms i ms[i] h
    simpa using this
  have h2 := perm_cons_erase (getElem_mem h)
  exact Perm.cons_inv (h1.symm.trans h2)

/-- element matchers are *pairwise non-overlapping*: two listed matchers that accept a common
    member are the same matcher (duplicates are the equal case). -/
def NonOverlap (acc : β → α → Bool) (ms : List β) : Prop :=
  ∀ b ∈ ms, ∀ b' ∈ ms, ∀ x, acc b x = true → acc b' x = true → b = b'

omit [DecidableEq β] in
theorem NonOverlap.of_perm {acc : β → α → Bool} {ms ms' : List β} (h : NonOverlap acc ms) (hp : ms' ~ ms) :
    NonOverlap acc ms' :=
  fun b hb b' hb' x => h b (hp.subset hb) b' (hp.subset hb') x

theorem NonOverlap.erase {acc : β → α → Bool} {ms : List β} (h : NonOverlap acc ms) (b : β) :
    NonOverlap acc (ms.erase b) :=
  fun c hc c' hc' x => h c (List.mem_of_mem_erase hc) c' (List.mem_of_mem_erase hc') x

/-- **range_includes** with pairwise non-overlapping element matchers accepts exactly when every
    listed matcher has at least as many range members it accepts as its multiplicity in the list —
    i.e. the listed elements can be matched to distinct members of the range. -/
theorem includesG_iff_counts (acc : β → α → Bool) (r : List α) :
    ∀ ms : List β, NonOverlap acc ms →
      (includesG acc ms r = true ↔ ∀ b, count b ms ≤ countP (acc b) r) := by
  induction r with
  | nil =>
    intro ms _
    simp only [includesG, List.isEmpty_iff, countP_nil, Nat.le_zero_eq, count_eq_zero]
    exact eq_nil_iff_forall_not_mem
  | cons x xs ih =>
    intro ms hno
    unfold includesG
    split
    · next i hi =>
      rw [findIdx?_eq_some_iff_getElem] at hi
      obtain ⟨hlt, hacc, _⟩ := hi
      have hperm := swapRemove_perm_erase ms i hlt
      have hno' : NonOverlap acc (swapRemove ms i) := (hno.erase ms[i]).of_perm hperm
      rw [ih _ hno']
      have hc : ∀ b, count b (swapRemove ms i) = count b (ms.erase ms[i]) := fun b => hperm.count_eq b
      have hmem : ms[i] ∈ ms := getElem_mem hlt
      have hpos : 0 < count ms[i] ms := count_pos_iff.mpr hmem
      constructor
      · intro h b
        have hb := h b
        rw [hc, count_erase] at hb
        rw [countP_cons]
        by_cases hbi : b = ms[i]
        · subst hbi; simp [hacc] at hb ⊢; omega
        · have hne : (ms[i] == b) = false := by simpa using Ne.symm hbi
          simp only [hne] at hb
          by_cases hbm : b ∈ ms
          · have hbx : acc b x = false := by
              cases hbx : acc b x with
              | false => rfl
              | true => exact absurd (hno b hbm ms[i] hmem x hbx hacc) hbi
            simp [hbx]; simpa using hb
          · rw [count_eq_zero.mpr hbm]; exact Nat.zero_le _
      · intro h b
        have hb := h b
        rw [countP_cons] at hb
        rw [hc, count_erase]
        by_cases hbi : b = ms[i]
        · subst hbi; simp [hacc] at hb ⊢; omega
        · have hne : (ms[i] == b) = false := by simpa using Ne.symm hbi
          simp only [hne]
          by_cases hbm : b ∈ ms
          · have hbx : acc b x = false := by
              cases hbx : acc b x with
              | false => rfl
              | true => exact absurd (hno b hbm ms[i] hmem x hbx hacc) hbi
            simp [hbx] at hb; simpa using hb
          · rw [count_eq_zero.mpr hbm]; exact Nat.zero_le _
    · next hn =>
      rw [ih _ hno]
      rw [findIdx?_eq_none_iff] at hn
      constructor
      · intro h b
        exact Nat.le_trans (h b) (by rw [countP_cons]; exact Nat.le_add_right _ _)
      · intro h b
        have hb := h b
        rw [countP_cons] at hb
        by_cases hbm : b ∈ ms
        · have : acc b x = false := by simpa using hn b hbm
          simpa [this] using hb
        · rw [count_eq_zero.mpr hbm]; exact Nat.zero_le _

end counts

/-- acceptance by `range_includes` bounds the number of listed elements by the range length. -/
theorem includesG_length_le (acc : β → α → Bool) (r : List α) :
    ∀ ms : List β, includesG acc ms r = true → ms.length ≤ r.length := by
  induction r with
  | nil => intro ms h; simp [includesG, List.isEmpty_iff] at h; simp [h]
  | cons x xs ih =>
    intro ms h
    unfold includesG at h
    split at h
    · next i hi =>
      rw [findIdx?_eq_some_iff_getElem] at hi
      have := ih _ h
      have hl := swapRemove_length ms i hi.1
      simp; omega
    · have := ih _ h; simp; omega

/-- **range_is_permutation** accepts exactly when `range_includes` does and the matching uses up
    the whole range (same number of listed elements and range members). -/
theorem isPermG_iff (acc : β → α → Bool) (r : List α) :
    ∀ ms : List β, isPermG acc ms r = true ↔ (includesG acc ms r = true ∧ ms.length = r.length) := by
  induction r with
  | nil => intro ms; simp [isPermG, includesG, List.isEmpty_iff]
  | cons x xs ih =>
    intro ms
    unfold isPermG includesG
    split
    · next i hi =>
      rw [findIdx?_eq_some_iff_getElem] at hi
      have hl := swapRemove_length ms i hi.1
      rw [ih]
      simp only [List.length_cons]
      constructor
      · rintro ⟨h1, h2⟩; exact ⟨h1, by omega⟩
      · rintro ⟨h1, h2⟩; exact ⟨h1, by omega⟩
    · next hn =>
      constructor
      · intro h; cases h
      · rintro ⟨h1, h2⟩
        have := includesG_length_le acc xs ms h1
        simp at h2; omega

section valuesPerm
variable [DecidableEq α]

theorem nonOverlap_values (vs : List α) : NonOverlap accV vs := by
  intro b _ b' _ x h1 h2
  simp [accV] at h1 h2
  rw [← h1, ← h2]

/-- **range_includes(values)** ⇔ multiset inclusion (the listed values can be matched to distinct
    members of the range), for ranges of any length with duplicates. -/
theorem includes_values (vs r : List α) : includesG accV vs r = true ↔ vs <+~ r := by
  rw [includesG_iff_counts accV r vs (nonOverlap_values vs), subperm_ext_iff]
  have hcp : ∀ b, countP (accV b) r = count b r := by
    intro b; simp only [count]; congr
  constructor
  · intro h a _; rw [← hcp]; exact h a
  · intro h a
    by_cases ha : a ∈ vs
    · rw [hcp]; exact h a ha
    · rw [count_eq_zero.mpr ha]; exact Nat.zero_le _

/-- **range_is_permutation(values)** ⇔ the range is a permutation of the listed values. -/
theorem permutation_values (vs r : List α) : isPermG accV vs r = true ↔ vs ~ r := by
  rw [isPermG_iff, includes_values]
  constructor
  · rintro ⟨h1, h2⟩; exact h1.perm_of_length_le (by omega)
  · intro h; exact ⟨h.subperm, h.length_eq⟩

end valuesPerm

/-! ### all / any / none -/

theorem allOf_iff (p : α → Bool) (r : List α) : allOf p r = true ↔ ∀ x ∈ r, p x = true := by
  simp [allOf]
theorem anyOf_iff (p : α → Bool) (r : List α) : anyOf p r = true ↔ ∃ x ∈ r, p x = true := by
  simp [anyOf]
theorem noneOf_iff (p : α → Bool) (r : List α) : noneOf p r = true ↔ ∀ x ∈ r, p x = false := by
  simp [noneOf]
theorem empty_range (p : α → Bool) : allOf p [] = true ∧ noneOf p [] = true ∧ anyOf p [] = false := by
  simp [allOf, noneOf, anyOf]

/-! ### non-vacuity and the documented first-fit behaviour for overlapping matchers -/
example : includesG (accV (α := Nat)) [1, 2, 2] [2, 1, 3, 2] = true := by decide
example : includesG (accV (α := Nat)) [1, 2, 2] [2, 1, 3] = false := by decide
example : isPermG (accV (α := Nat)) [1, 2, 2] [2, 1, 2] = true := by decide
example : NonOverlap (accV (α := Nat)) [1, 2, 2] := nonOverlap_values _
-- overlapping element matchers: first fit in range order (gt 0 is consumed by the 1, leaving eq 1 unmatched)
example : includesG Elem.acc [.gt 0, .eq 1] [1, 2] = false := by decide
example : includesG Elem.acc [.eq 1, .gt 0] [1, 2] = true := by decide
example : isElements Elem.acc [.val 1, .gt 1] [1, 5] = true := by decide
example : endsWithR Elem.acc [.val 5] [1, 5] = true := by decide

end Tromp.C11
