/-
  Props/C07.lean — FORBID_CALL: each matching call in scope is one fatal report; no other effect.
-/
import TrompModel.Props.C04

namespace Tromp.C07
open Tromp World

/-- **C07.**  When the designated candidate is a forbidding expectation (upper limit 0) the call is
    reported as exactly one fatal "forbidden call" violation carrying that expectation and the
    actual arguments; the only events besides it are the WITH evaluations of the search, the trace
    record of the failed call and the exception delivered to the caller; no action of any
    expectation runs, no OK report is sent, and the only state change is the `reported` flag. -/
theorem forbid_report (w : World) (o f : Nat) (a : Args) (m : Mock) (hm : w.mocks o = some m)
    (hex : ∀ e ∈ m.active f, ∃ x, w.exps e = some x) (e : Nat) (x : Exp)
    (hfind : (find (w.expMatches a) w.expOrder (m.active f)).1 = some e)
    (hx : w.exps e = some x) (hhi : x.hi = 0) :
    w.callFn o f a =
      (w.setExp e { x with reported := true },
       (find (w.expMatches a) w.expOrder (m.active f)).2.flatMap (w.matchLog a) ++
         ([Ev.report .fatal w.reporter (.forbidden e a)] ++ w.traceEv e a (.threw .rep) ++ [.result (.threw .rep)])) := by
  cases callFn_cases w o f a m hm hex with
  | noMatch hfind' _ => rw [hfind] at hfind'; cases hfind'
  | forbidden e' x' hfind' hx' _ heq =>
    rw [hfind] at hfind'; cases hfind'
    rw [hx] at hx'; cases hx'
    exact heq
  | blocked e' x' r hfind' hx' hhi' _ _ =>
    rw [hfind] at hfind'; cases hfind'
    rw [hx] at hx'; cases hx'
    exact absurd hhi hhi'
  | accepted e' x' n hfind' hx' hhi' _ _ =>
    rw [hfind] at hfind'; cases hfind'
    rw [hx] at hx'; cases hx'
    exact absurd hhi hhi'

theorem forbid_no_action_no_ok (w : World) (o f : Nat) (a : Args) (m : Mock) (hm : w.mocks o = some m)
    (hex : ∀ e ∈ m.active f, ∃ x, w.exps e = some x) (e : Nat) (x : Exp)
    (hfind : (find (w.expMatches a) w.expOrder (m.active f)).1 = some e)
    (hx : w.exps e = some x) (hhi : x.hi = 0) :
    (∀ ev ∈ (w.callFn o f a).2, ev.isAction = false ∧ ev.isOk = false) ∧
    ((w.callFn o f a).2.filter Ev.isReport) = [Ev.report .fatal w.reporter (.forbidden e a)] ∧
    (∀ e', ((w.callFn o f a).1.exps e').map (·.count) = (w.exps e').map (·.count)) := by
  rw [forbid_report w o f a m hm hex e x hfind hx hhi]
  refine ⟨?_, ?_, ?_⟩
  · intro ev hev
    simp only [List.mem_append, List.mem_cons, List.mem_singleton, List.not_mem_nil, or_false] at hev
    rcases hev with h | (rfl | h) | rfl
    · obtain ⟨e', i, rfl⟩ := flatMap_matchLog_all_with w a _ ev h; exact ⟨rfl, rfl⟩
    · exact ⟨rfl, rfl⟩
    · obtain ⟨t, rfl⟩ := traceEv_all_trace w e a _ ev h; exact ⟨rfl, rfl⟩
    · exact ⟨rfl, rfl⟩
  · have h1 : ((find (w.expMatches a) w.expOrder (m.active f)).2.flatMap (w.matchLog a)).filter Ev.isReport = [] := by
      rw [List.filter_eq_nil_iff]
      intro ev hev; obtain ⟨e', i, rfl⟩ := flatMap_matchLog_all_with w a _ ev hev; simp [Ev.isReport]
    have h2 : (w.traceEv e a (.threw .rep)).filter Ev.isReport = [] := by
      rw [List.filter_eq_nil_iff]
      intro ev hev; obtain ⟨t, rfl⟩ := traceEv_all_trace w e a _ ev hev; simp [Ev.isReport]
    simp [List.filter_append, h1, h2, Ev.isReport, List.filter]
  · intro e'
    by_cases he : e' = e
    · subst he; simp [hx]
    · simp only []
      rw [setExp_exps_other _ _ he]

/-- a forbidding expectation is always satisfied and saturated (its count stays 0 = its upper
    bound ≥ its lower bound: clause 4 of the world invariant) … -/
theorem forbid_flags (w : World) (e : Nat) (x : Exp) (hx : w.exps e = some x) (ha : x.alive = true)
    (hhi : x.hi = 0) (hc : x.count ≤ x.hi) (hlo : x.lo ≤ x.hi) :
    w.step (.sat e) = (w, [.answer true]) ∧ w.step (.satd e) = (w, [.answer true]) := by
  have hc0 : x.count = 0 := by omega
  have hl0 : x.lo = 0 := by omega
  rw [C03.sat_answer w e x hx ha, C03.satd_answer w e x hx ha]
  simp [hc0, hl0, hhi]

/-- … and never reports at end of life. -/
theorem forbid_silent_at_end (w : World) (e : Nat) (x : Exp) (hx : w.exps e = some x) (ha : x.alive = true)
    (hhi : x.hi = 0) (hlo : x.lo ≤ x.hi) : (w.step (.release e)).2 = [] :=
  C04.satisfied_silent w e x hx ha (by omega)

/-! the `reported` flag is invisible to matching and ordering, so a forbidden call can be repeated
    any number of times with the same outcome -/

private theorem exps_reported (w : World) (e : Nat) (x : Exp) (hx : w.exps e = some x) (e' : Nat) :
    ((w.setExp e { x with reported := true }).exps e').map (fun y => (y.params, y.conds, y.seqs, y.lo, y.count, y.hi)) =
    (w.exps e').map (fun y => (y.params, y.conds, y.seqs, y.lo, y.count, y.hi)) := by
  by_cases he : e' = e
  · subst he; simp [hx]
  · rw [setExp_exps_other _ _ he]

theorem reported_invisible_matches (w : World) (e : Nat) (x : Exp) (hx : w.exps e = some x) (a : Args) (e' : Nat) :
    (w.setExp e { x with reported := true }).expMatches a e' = w.expMatches a e' ∧
    (w.setExp e { x with reported := true }).matchLog a e' = w.matchLog a e' := by
  by_cases he : e' = e
  · subst he; simp [expMatches, matchLog, hx]
  · simp [expMatches, matchLog, setExp_exps_other _ _ he]

theorem reported_invisible_sat (w : World) (e : Nat) (x : Exp) (hx : w.exps e = some x) (o : Owner) :
    (w.setExp e { x with reported := true }).ownerSat o = w.ownerSat o := by
  cases o with
  | mon m => rfl
  | exp e' =>
    by_cases he : e' = e
    · subst he; simp [ownerSat, hx]
    · simp [ownerSat, setExp_exps_other _ _ he]

theorem reported_invisible_order (w : World) (e : Nat) (x : Exp) (hx : w.exps e = some x) (e' : Nat) :
    (w.setExp e { x with reported := true }).expOrder e' = w.expOrder e' := by
  have hsat : (w.setExp e { x with reported := true }).ownerSat = w.ownerSat :=
    funext (reported_invisible_sat w e x hx)
  have hcost : ∀ o s, (w.setExp e { x with reported := true }).handleCost o s = w.handleCost o s := by
    intro o s
    unfold handleCost
    rw [hsat]
    rfl
  have hord : ∀ o ss, (w.setExp e { x with reported := true }).order o ss = w.order o ss := by
    intro o ss
    unfold order
    rw [show (w.setExp e { x with reported := true }).handleCost o = w.handleCost o from funext (hcost o)]
  by_cases he : e' = e
  · subst he; simp [expOrder, hx, hord]
  · simp [expOrder, setExp_exps_other _ _ he, hord]

/-- **C07, every matching call in scope.**  After a forbidden call the same call is designated to
    the same forbidding expectation again: the n-th forbidden call is reported like the first. -/
theorem forbid_repeat (w : World) (o f : Nat) (a : Args) (m : Mock) (e : Nat) (x : Exp)
    (hx : w.exps e = some x) :
    find ((w.setExp e { x with reported := true }).expMatches a) (w.setExp e { x with reported := true }).expOrder (m.active f)
      = find (w.expMatches a) w.expOrder (m.active f) := by
  have h1 : (w.setExp e { x with reported := true }).expMatches a = w.expMatches a :=
    funext fun e' => (reported_invisible_matches w e x hx a e').1
  have h2 : (w.setExp e { x with reported := true }).expOrder = w.expOrder :=
    funext (reported_invisible_order w e x hx)
  rw [h1, h2]

/-! ### non-vacuity -/
private def spec (p : Int → Bool) (lo hi : Nat) (v : Int) : ExpectSpec :=
  { obj := 0, fn := 1, params := [p], conds := [], effects := [fun _ => none], ret := some (fun _ => .val v),
    lo := lo, hi := hi, rt := true, seqs := [] }
private def ex : World :=
  (({} : World).run [.mock 0 true, .expect 0 (spec (fun _ => true) 0 5 100), .expect 1 (spec (· == 3) 0 0 101)]).1

example : (ex.run [.call 0 1 [3], .call 0 1 [3], .call 0 1 [2], .sat 1, .satd 1, .release 1, .call 0 1 [3]]).2 =
    [[.report .fatal 0 (.forbidden 1 [3]), .result (.threw .rep)],
     [.report .fatal 0 (.forbidden 1 [3]), .result (.threw .rep)],
     [.ok 0 0, .evalFx 0 0, .evalRet 0, .result (.val 100)],
     [.answer true], [.answer true], [],
     [.ok 0 0, .evalFx 0 0, .evalRet 0, .result (.val 100)]] := by decide

end Tromp.C07
