/-
  Props/C04_History.lean — C04 over whole histories (see Props/C03_History.lean for why this is a separate file).
-/
import TrompModel.Lemmas.History2

namespace Tromp.C04
open Tromp World

/-- **C04, at most once.**  After *any* script from the empty world, the events of the whole history contain at most
    one shortfall report ("Unfulfilled expectation" / "Pending expectation on destroyed mock object") about any
    expectation — however release, destruction of the mock object, moves, calls and no-match listings are ordered
    and repeated — and an expectation that has been reported that way carries the `reported` flag from then on. -/
theorem shortfall_at_most_once (ops : List Op) (e : Nat) :
    sfCount e (World.run {} ops).2.flatten ≤ 1 ∧
    (sfCount e (World.run {} ops).2.flatten = 1 → (World.run {} ops).1.repd e = true) := by
  suffices h : ∀ (ops : List Op) (w : World) (evs : List Ev), WF w →
      (sfCount e evs ≤ 1 ∧ (sfCount e evs = 1 → w.repd e = true) ∧ (w.exps e = none → sfCount e evs = 0)) →
      (sfCount e (evs ++ (w.run ops).2.flatten) ≤ 1 ∧ (sfCount e (evs ++ (w.run ops).2.flatten) = 1 → (w.run ops).1.repd e = true)) by
    simpa using h ops {} [] WF.init ⟨by simp [sfCount], by intro h; simp [sfCount] at h, fun _ => rfl⟩
  intro ops
  induction ops with
  | nil => intro w evs _ h; simpa [World.run] using ⟨h.1, h.2.1⟩
  | cons op ops ih =>
    intro w evs hw ⟨h1, h2, h3⟩
    simp only [World.run, List.flatten_cons]
    rw [← List.append_assoc]
    refine ih _ _ (hw.step op) ?_
    obtain ⟨c, hex⟩ := World.step_sf w hw op e
    rw [sfCount_append]
    rcases c with ⟨s0, mono⟩ | ⟨s1, wasClear, nowSet⟩
    · refine ⟨by omega, fun h => mono (h2 (by omega)), fun h => ?_⟩
      have := h3 (hex h); omega
    · have hzero : sfCount e evs = 0 := by
        cases hcase : sfCount e evs with
        | zero => rfl
        | succ k =>
          have : sfCount e evs = 1 := by omega
          rw [h2 this] at wasClear; cases wasClear
      refine ⟨by omega, fun _ => nowSet, fun h => ?_⟩
      simp [World.repd, h] at nowSet

/-- corollary: a shortfall reported once is never reported again, whatever follows. -/
theorem no_second_shortfall (ops ops' : List Op) (e : Nat)
    (h : sfCount e (World.run {} ops).2.flatten = 1) :
    sfCount e ((World.run {} (ops ++ ops')).2.flatten) = 1 := by
  have hrun : ∀ (a b : List Op) (w : World), (w.run (a ++ b)).2 = (w.run a).2 ++ ((w.run a).1.run b).2 := by
    intro a
    induction a with
    | nil => intro b w; rfl
    | cons op a ih => intro b w; simp only [List.cons_append, World.run, ih, List.cons_append]
  have hle := (shortfall_at_most_once (ops ++ ops') e).1
  rw [hrun, List.flatten_append, sfCount_append] at hle ⊢
  omega

end Tromp.C04
