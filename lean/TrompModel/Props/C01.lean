/-
  Props/C01.lean — a call is accepted iff a live expectation matches it; otherwise one fatal report.
-/
import TrompModel.Lemmas.Call

namespace Tromp.C01
open Tromp World

/-- "no violation is reported" for the call. -/
def Accepted (evs : List Ev) : Prop := ∀ ev ∈ evs, ev.isReport = false

/-- the candidates of the property: on that object and function, within their lifetime and not
    saturated (= on the active list), accepting every argument through the parameter matchers and
    all WITH conditions, and permitted by their sequence constraints. -/
def Candidate (w : World) (m : Mock) (f : Nat) (a : Args) (e : Nat) : Prop :=
  e ∈ m.active f ∧ w.expMatches a e = true ∧ w.expOrder e ≠ none

/-- the selection rule of C02 over the candidates: strictly fewer passed-over steps than every
    candidate created later (nearer the front of the list), not more than any created earlier. -/
def Selected (w : World) (m : Mock) (f : Nat) (a : Args) (e : Nat) : Prop :=
  ∃ pre post, m.active f = pre ++ e :: post ∧ Candidate w m f a e ∧
    (∀ x ∈ pre, Candidate w m f a x → Cost.lt (w.expOrder e) (w.expOrder x) = true) ∧
    (∀ x ∈ post, Candidate w m f a x → Cost.lt (w.expOrder x) (w.expOrder e) = false)

/-- the loop of `find` designates exactly the selected candidate (when one exists). -/
theorem selected_iff_find (w : World) (m : Mock) (f : Nat) (a : Args) (e : Nat) (hnd : (m.active f).Nodup) :
    Selected w m f a e ↔
      (find (w.expMatches a) w.expOrder (m.active f)).1 = some e ∧ w.expOrder e ≠ none := by
  rw [find_eq_some_iff _ _ _ hnd]
  constructor
  · rintro ⟨pre, post, hl, ⟨hmem, hmatch, hperm⟩, hpre, hpost⟩
    refine ⟨⟨pre, post, hl, hmatch, ?_, ?_⟩, hperm⟩
    · intro x hx hmx
      cases hox : w.expOrder x with
      | none =>
        cases hoe : w.expOrder e with
        | none => exact absurd hoe hperm
        | some k => rfl
      | some k =>
        rw [← hox]
        exact hpre x hx ⟨by rw [hl]; simp [hx], hmx, by rw [hox]; simp⟩
    · intro x hx hmx
      cases hox : w.expOrder x with
      | none => cases w.expOrder e <;> rfl
      | some k =>
        rw [← hox]
        exact hpost x hx ⟨by rw [hl]; simp [hx], hmx, by rw [hox]; simp⟩
  · rintro ⟨⟨pre, post, hl, hmatch, hpre, hpost⟩, hperm⟩
    exact ⟨pre, post, hl, ⟨by rw [hl]; simp, hmatch, hperm⟩,
      fun x hx hc => hpre x hx hc.2.1, fun x hx hc => hpost x hx hc.2.1⟩

theorem selected_unique (w : World) (m : Mock) (f : Nat) (a : Args) (e e' : Nat) (hnd : (m.active f).Nodup)
    (h : Selected w m f a e) (h' : Selected w m f a e') : e = e' := by
  have h1 := ((selected_iff_find w m f a e hnd).mp h).1
  have h2 := ((selected_iff_find w m f a e' hnd).mp h').1
  rw [h1] at h2; exact Option.some.inj h2

private theorem log_no_report (w : World) (a : Args) (l : List Nat) :
    ∀ ev ∈ l.flatMap (w.matchLog a), ev.isReport = false ∧ ev.isAction = false := by
  intro ev hev
  obtain ⟨e, i, rfl⟩ := flatMap_matchLog_all_with w a l ev hev
  exact ⟨rfl, rfl⟩

/-- **C01, acceptance.**  A call is accepted (no violation reported) if and only if the candidate
    designated by the selection rule exists and is not a forbidding expectation.
    (`hex`, `hnd`: every id on the active list denotes an expectation, without repetition —
    clauses 2–3 of the world invariant, proved for every reachable world in Props/C14.) -/
theorem C01_accept_iff (w : World) (o f : Nat) (a : Args) (m : Mock) (hm : w.mocks o = some m)
    (hex : ∀ e ∈ m.active f, ∃ x, w.exps e = some x) (hnd : (m.active f).Nodup) :
    Accepted (w.callFn o f a).2 ↔ ∃ e x, Selected w m f a e ∧ w.exps e = some x ∧ x.hi ≠ 0 := by
  have hsel := fun e => selected_iff_find w m f a e hnd
  cases callFn_cases w o f a m hm hex with
  | noMatch hfind heq =>
    rw [heq]
    constructor
    · intro hacc
      obtain ⟨pre, r, hev, _, _⟩ := reportMismatch_events w m f a
      have := hacc (w.rep .fatal r) (by simp [hev])
      simp [rep, Ev.isReport] at this
    · rintro ⟨e, x, hs, _, _⟩
      have := ((hsel e).mp hs).1
      rw [hfind] at this; cases this
  | forbidden e x hfind hx hhi heq =>
    rw [heq]
    constructor
    · intro hacc
      have := hacc (w.rep .fatal (.forbidden e a)) (by simp)
      simp [rep, Ev.isReport] at this
    · rintro ⟨e', x', hs, hx', hhi'⟩
      have := ((hsel e').mp hs).1
      rw [hfind] at this
      have : e = e' := Option.some.inj this
      subst this
      rw [hx] at hx'
      exact absurd (by rw [← Option.some.inj hx']; exact hhi) hhi'
  | blocked e x r hfind hx hhi hord hrk0 heq =>
    rw [heq]
    constructor
    · intro hacc
      have := hacc (w.rep .fatal r) (by simp)
      simp [rep, Ev.isReport] at this
    · rintro ⟨e', x', hs, _, _⟩
      have h1 := (hsel e').mp hs
      rw [hfind] at h1
      have : e = e' := Option.some.inj h1.1
      subst this
      exact absurd (by rw [expOrder_eq w e x hx]; exact hord) h1.2
  | accepted e x n hfind hx hhi hord heq =>
    rw [heq]
    constructor
    · intro _
      exact ⟨e, x, (hsel e).mpr ⟨hfind, by rw [expOrder_eq w e x hx, hord]; simp⟩, hx, hhi⟩
    · intro _ ev hev
      simp only [List.mem_append, List.mem_cons, List.mem_singleton, List.not_mem_nil, or_false] at hev
      rcases hev with h | ((rfl | h) | h) | rfl
      · exact (log_no_report w a _ ev h).1
      · rfl
      · have := (actionEvents_actor e x a ev h).1
        cases ev <;> simp_all [Ev.isAction, Ev.isReport]
      · obtain ⟨t, rfl⟩ := traceEv_all_trace w e a _ ev h; rfl
      · rfl

/-- **C01, rejection.**  Otherwise exactly one violation is reported for the call and it is fatal;
    no SIDE_EFFECT, RETURN or THROW expression of any expectation is evaluated; and no
    expectation's call count changes. -/
theorem C01_reject (w : World) (o f : Nat) (a : Args) (m : Mock) (hm : w.mocks o = some m)
    (hex : ∀ e ∈ m.active f, ∃ x, w.exps e = some x)
    (hrej : ¬ Accepted (w.callFn o f a).2) :
    ((w.callFn o f a).2.filter Ev.isReport).length = 1 ∧
    (∀ ev ∈ (w.callFn o f a).2, ev.isReport = true → ev.isFatalReport = true) ∧
    (∀ ev ∈ (w.callFn o f a).2, ev.isAction = false) ∧
    (∀ e, ((w.callFn o f a).1.exps e).map (·.count) = (w.exps e).map (·.count)) := by
  have hlogf : ∀ l : List Nat, (l.flatMap (w.matchLog a)).filter Ev.isReport = [] := by
    intro l
    rw [List.filter_eq_nil_iff]
    intro ev hev; simp [(log_no_report w a l ev hev).1]
  have htrf : ∀ e r, (w.traceEv e a r).filter Ev.isReport = [] := by
    intro e r
    rw [List.filter_eq_nil_iff]
    intro ev hev; obtain ⟨t, rfl⟩ := traceEv_all_trace w e a r ev hev; simp [Ev.isReport]
  cases callFn_cases w o f a m hm hex with
  | noMatch hfind heq =>
    rw [heq]
    obtain ⟨pre, r, hev, hpre, _⟩ := reportMismatch_events w m f a
    have hpref : pre.filter Ev.isReport = [] := by
      rw [List.filter_eq_nil_iff]
      intro ev h; obtain ⟨e, i, rfl⟩ := hpre ev h; simp [Ev.isReport]
    refine ⟨?_, ?_, ?_, fun e => reportMismatch_count w m f a e⟩
    · simp [hev, List.filter_append, hlogf, hpref, rep, Ev.isReport, List.filter]
    · intro ev hev' hr
      simp only [hev, List.mem_append, List.mem_cons, List.mem_singleton, List.not_mem_nil, or_false] at hev'
      rcases hev' with h | h | rfl | rfl
      · rw [(log_no_report w a _ ev h).1] at hr; cases hr
      · obtain ⟨e, i, rfl⟩ := hpre ev h; cases hr
      · rfl
      · cases hr
    · intro ev hev'
      simp only [hev, List.mem_append, List.mem_cons, List.mem_singleton, List.not_mem_nil, or_false] at hev'
      rcases hev' with h | h | rfl | rfl
      · exact (log_no_report w a _ ev h).2
      · obtain ⟨e, i, rfl⟩ := hpre ev h; rfl
      · rfl
      · rfl
  | forbidden e x hfind hx hhi heq =>
    rw [heq]
    refine ⟨?_, ?_, ?_, ?_⟩
    · simp [List.filter_append, hlogf, htrf, rep, Ev.isReport, List.filter]
    · intro ev hev' hr
      simp only [List.mem_append, List.mem_cons, List.mem_singleton, List.not_mem_nil, or_false] at hev'
      rcases hev' with h | (rfl | h) | rfl
      · rw [(log_no_report w a _ ev h).1] at hr; cases hr
      · rfl
      · obtain ⟨t, rfl⟩ := traceEv_all_trace w e a _ ev h; cases hr
      · cases hr
    · intro ev hev'
      simp only [List.mem_append, List.mem_cons, List.mem_singleton, List.not_mem_nil, or_false] at hev'
      rcases hev' with h | (rfl | h) | rfl
      · exact (log_no_report w a _ ev h).2
      · rfl
      · obtain ⟨t, rfl⟩ := traceEv_all_trace w e a _ ev h; rfl
      · rfl
    · intro e'
      by_cases he : e' = e
      · subst he; simp [hx]
      · simp only []
        rw [setExp_exps_other _ _ he]
  | blocked e x r hfind hx hhi hord hrk0 heq =>
    rw [heq]
    refine ⟨?_, ?_, ?_, fun _ => rfl⟩
    · simp [List.filter_append, hlogf, htrf, rep, Ev.isReport, List.filter]
    · intro ev hev' hr
      simp only [List.mem_append, List.mem_cons, List.mem_singleton, List.not_mem_nil, or_false] at hev'
      rcases hev' with h | (rfl | h) | rfl
      · rw [(log_no_report w a _ ev h).1] at hr; cases hr
      · rfl
      · obtain ⟨t, rfl⟩ := traceEv_all_trace w e a _ ev h; cases hr
      · cases hr
    · intro ev hev'
      simp only [List.mem_append, List.mem_cons, List.mem_singleton, List.not_mem_nil, or_false] at hev'
      rcases hev' with h | (rfl | h) | rfl
      · exact (log_no_report w a _ ev h).2
      · rfl
      · obtain ⟨t, rfl⟩ := traceEv_all_trace w e a _ ev h; rfl
      · rfl
  | accepted e x n hfind hx hhi hord heq =>
    exfalso
    apply hrej
    rw [heq]
    intro ev hev
    simp only [List.mem_append, List.mem_cons, List.mem_singleton, List.not_mem_nil, or_false] at hev
    rcases hev with h | ((rfl | h) | h) | rfl
    · exact (log_no_report w a _ ev h).1
    · rfl
    · have := (actionEvents_actor e x a ev h).1
      cases ev <;> simp_all [Ev.isAction, Ev.isReport]
    · obtain ⟨t, rfl⟩ := traceEv_all_trace w e a _ ev h; rfl
    · rfl

/-- a call on a function with no live expectation at all is rejected. -/
theorem C01_nothing_alive (w : World) (o f : Nat) (a : Args) (m : Mock) (hm : w.mocks o = some m)
    (hempty : m.active f = []) : ¬ Accepted (w.callFn o f a).2 := by
  rw [C01_accept_iff w o f a m hm (by simp [hempty]) (by simp [hempty])]
  rintro ⟨e, x, ⟨pre, post, hl, _⟩, _⟩
  rw [hempty] at hl
  cases pre <;> simp at hl

/-! ### non-vacuity: an accepted call, a no-match, a forbidden match, a sequence-blocked call -/
private def spec (p : Int → Bool) (lo hi : Nat) (ss : List Nat) : ExpectSpec :=
  { obj := 0, fn := 1, params := [p], conds := [], effects := [], ret := some (fun _ => .val 7),
    lo := lo, hi := hi, rt := true, seqs := ss }
private def ex : World :=
  (({} : World).run [.mock 0 true, .seq 0, .expect 0 (spec (· == 1) 1 1 [0]), .expect 1 (spec (· == 2) 1 1 [0]),
                     .expect 2 (spec (· == 3) 0 0 [])]).1

example : (ex.step (.call 0 1 [1])).2 = [.ok 0 0, .evalRet 0, .result (.val 7)] := by decide
example : (ex.step (.call 0 1 [9])).2 =
    [.report .fatal 0 (.noMatch 1 [9] [] [(2, .params [0]), (1, .params [0]), (0, .params [0])]), .result (.threw .rep)] := by decide
example : (ex.step (.call 0 1 [3])).2 = [.report .fatal 0 (.forbidden 2 [3]), .result (.threw .rep)] := by decide
example : (ex.step (.call 0 1 [2])).2 =
    [.report .fatal 0 (.seqMismatch 0 (.exp 1) [(.exp 0, false)]), .result (.threw .rep)] := by decide

end Tromp.C01
