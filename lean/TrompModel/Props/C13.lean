/-
  Props/C13.lean — deathwatched: a death is reported iff no REQUIRE_DESTRUCTION is alive for it.
-/
import TrompModel.Props.C08

namespace Tromp.C13
open Tromp World

theorem notify_frame (w : World) (mid : Nat) :
    (w.notify mid).1.watched = w.watched ∧ (w.notify mid).1.reporter = w.reporter ∧
    (∀ m', m' ≠ mid → (w.notify mid).1.mons m' = w.mons m') ∧
    (∀ x, w.mons mid = some x → (w.notify mid).1.mons mid = some { x with died := true }) := by
  unfold notify
  cases hm : w.mons mid with
  | none => exact ⟨rfl, rfl, fun _ _ => rfl, fun x hx => by cases hx⟩
  | some x =>
    simp only []
    unfold retireOwn retirePredecessors
    refine ⟨?_, ?_, ?_, ?_⟩
    · rw [foldl_setSeqPending_watched, foldl_setSeqPending_watched]
    · rw [foldl_setSeqPending_reporter, foldl_setSeqPending_reporter]
    · intro m' hm'
      rw [foldl_setSeqPending_mons, foldl_setSeqPending_mons]
      simp [upd, hm']
    · intro x' hx'
      cases hx'
      rw [foldl_setSeqPending_mons, foldl_setSeqPending_mons]
      simp

theorem notify_events_nonfatal_seq (w : World) (mid : Nat) :
    ∀ ev ∈ (w.notify mid).2, ∃ r, ev = Ev.report .nonfatal w.reporter r ∧
      ((∃ s, r = .seqNoMore s (.mon mid)) ∨ (∃ s l, r = .seqMismatch s (.mon mid) l)) := by
  intro ev hev
  unfold notify at hev
  cases hm : w.mons mid with
  | none => simp [hm] at hev
  | some x =>
    simp only [hm, validateAll, List.mem_map, List.mem_filterMap] at hev
    obtain ⟨r, ⟨s, _, hr⟩, rfl⟩ := hev
    refine ⟨r, rfl, ?_⟩
    unfold validateOne at hr
    split at hr
    · cases hr
    · split at hr
      · simp at hr; exact Or.inl ⟨s, hr.symm⟩
      · simp at hr; exact Or.inr ⟨s, _, hr.symm⟩

/-- **C13, unexpected destruction.**  Destroying a watched object while no destruction requirement
    is alive for it reports exactly one non-fatal "unexpected destruction". -/
theorem unexpected_iff_none (w : World) (x : Nat) (y : Watched) (hy : w.watched x = some y) (ha : y.alive = true)
    (hnone : y.monitors = []) :
    (w.step (.killw x)).2 = [Ev.report .nonfatal w.reporter (.unexpectedDestruction x)] := by
  simp [step, legal, watchedAlive, hy, ha, hnone, rep]

/-- the fold of `notify` over the monitor chain. -/
theorem notify_fold (ms : List Nat) (w0 : World) (evs0 : List Ev) :
    let res := ms.foldl (fun (acc : World × List Ev) m => ((acc.1.notify m).1, acc.2 ++ (acc.1.notify m).2)) (w0, evs0)
    res.1.reporter = w0.reporter ∧ res.1.watched = w0.watched ∧
    (∀ ev ∈ res.2, ev ∈ evs0 ∨ ∃ r mid, mid ∈ ms ∧ ev = Ev.report .nonfatal w0.reporter r ∧
        ((∃ s, r = .seqNoMore s (.mon mid)) ∨ (∃ s l, r = .seqMismatch s (.mon mid) l))) ∧
    (∀ mid ∈ ms, ∀ x, w0.mons mid = some x → ∃ x', res.1.mons mid = some x' ∧ x'.died = true ∧ x'.alive = x.alive) ∧
    (∀ mid x, w0.mons mid = some x → x.died = true → ∃ x', res.1.mons mid = some x' ∧ x'.died = true ∧ x'.alive = x.alive) ∧
    (∀ mid, mid ∉ ms → res.1.mons mid = w0.mons mid) := by
  induction ms generalizing w0 evs0 with
  | nil =>
    exact ⟨rfl, rfl, fun ev h => Or.inl h, by simp, fun mid x hx hd => ⟨x, hx, hd, rfl⟩, fun _ _ => rfl⟩
  | cons a ms ih =>
    simp only [List.foldl]
    obtain ⟨hw, hr, hother, hsame⟩ := notify_frame w0 a
    obtain ⟨h1, h2, h3, h4, h5, h6⟩ := ih (w0.notify a).1 (evs0 ++ (w0.notify a).2)
    refine ⟨by rw [h1, hr], by rw [h2, hw], ?_, ?_, ?_, ?_⟩
    · intro ev hev
      rcases h3 ev hev with h | ⟨r, mid, hmid, hev', hshape⟩
      · rcases List.mem_append.mp h with h | h
        · exact Or.inl h
        · obtain ⟨r, rfl, hshape⟩ := notify_events_nonfatal_seq w0 a ev h
          exact Or.inr ⟨r, a, by simp, rfl, hshape⟩
      · exact Or.inr ⟨r, mid, List.mem_cons_of_mem _ hmid, by rw [hev', hr], hshape⟩
    · intro mid hmid x hx
      by_cases hma : mid = a
      · subst hma
        obtain ⟨x', hx', hd', ha'⟩ := h5 mid _ (hsame x hx) rfl
        exact ⟨x', hx', hd', ha'⟩
      · rcases List.mem_cons.mp hmid with h | h
        · exact absurd h hma
        · exact h4 mid h x (by rw [hother mid hma]; exact hx)
    · intro mid x hx hd
      by_cases hma : mid = a
      · subst hma
        obtain ⟨x', hx', hd', ha'⟩ := h5 mid _ (hsame x hx) rfl
        exact ⟨x', hx', hd', ha'⟩
      · exact h5 mid x (by rw [hother mid hma]; exact hx) hd
    · intro mid hmid
      have hma : mid ≠ a := fun h => hmid (by simp [h])
      rw [h6 mid (fun h => hmid (List.mem_cons_of_mem _ h)), hother mid hma]

/-- **C13, expected destruction.**  Destroying the object while one or more requirements are alive
    reports nothing except possible (non-fatal) sequence violations, and makes *each* of them
    satisfied and saturated (`died`) from then on. -/
theorem expected_destruction (w : World) (x : Nat) (y : Watched) (hy : w.watched x = some y) (ha : y.alive = true)
    (hsome : y.monitors ≠ []) :
    (∀ ev ∈ (w.step (.killw x)).2, ∃ r mid, mid ∈ y.monitors ∧ ev = Ev.report .nonfatal w.reporter r ∧
        ((∃ s, r = .seqNoMore s (.mon mid)) ∨ (∃ s l, r = .seqMismatch s (.mon mid) l))) ∧
    (∀ mid ∈ y.monitors, ∀ mx, w.mons mid = some mx →
        ∃ mx', (w.step (.killw x)).1.mons mid = some mx' ∧ mx'.died = true ∧ mx'.alive = mx.alive) := by
  have hl : w.legal (.killw x) = true := by simp [legal, watchedAlive, hy, ha]
  have hne : y.monitors.isEmpty = false := by
    cases h : y.monitors with
    | nil => exact absurd h hsome
    | cons _ _ => rfl
  have hstep : w.step (.killw x) =
      y.monitors.foldl (fun (acc : World × List Ev) m => ((acc.1.notify m).1, acc.2 ++ (acc.1.notify m).2))
        ({ w with watched := upd w.watched x { alive := false, monitors := [] } }, []) := by
    simp only [step, hl, hy, hne]
    simp
  rw [hstep]
  obtain ⟨_, _, h3, h4, _, _⟩ := notify_fold y.monitors { w with watched := upd w.watched x { alive := false, monitors := [] } } []
  refine ⟨?_, ?_⟩
  · intro ev hev
    rcases h3 ev hev with h | h
    · cases h
    · exact h
  · intro mid hmid mx hmx
    exact h4 mid hmid mx hmx

/-- a monitor whose object has died answers satisfied and saturated. -/
theorem died_is_satisfied_and_saturated (w : World) (mid : Nat) (x : Mon) (hx : w.mons mid = some x)
    (ha : x.alive = true) (hd : x.died = true) :
    w.step (.msat mid) = (w, [.answer true]) ∧ w.step (.msatd mid) = (w, [.answer true]) := by
  have := C03.monitor_answers w mid x hx ha
  rw [hd] at this; exact this

/-- **C13, still alive.**  A requirement that ends while its object is alive reports exactly one
    non-fatal "still alive" and is forgotten by the object (and only it); one whose object has died
    ends silently. -/
theorem still_alive (w : World) (mid : Nat) (x : Mon) (hx : w.mons mid = some x) (ha : x.alive = true) :
    (w.step (.releasemon mid)).2 = (if x.died then [] else [Ev.report .nonfatal w.reporter (.stillAlive mid)]) := by
  simp [step, legal, monAlive, hx, ha, rep]

theorem forgotten_by_object (w : World) (mid : Nat) (x : Mon) (hx : w.mons mid = some x) (ha : x.alive = true)
    (hd : x.died = false) (y : Watched) (hy : w.watched x.target = some y) :
    (w.step (.releasemon mid)).1.watched x.target = some { y with monitors := y.monitors.filter (· ≠ mid) } ∧
    (∀ x', x' ≠ x.target → (w.step (.releasemon mid)).1.watched x' = w.watched x') := by
  have hl : w.legal (.releasemon mid) = true := by simp [legal, monAlive, hx, ha]
  simp only [step, hl, hx, hd, hy]
  unfold retireOwn
  simp only [Bool.false_eq_true, if_false]
  rw [foldl_setSeqPending_watched]
  refine ⟨by simp, ?_⟩
  intro x' hx'
  simp [upd, hx']

/-- **C13, copies and moves do not inherit** the requirement, and the original keeps its own. -/
theorem copies_do_not_inherit (w : World) (x y : Nat) (hl : w.legal (.copyw x y) = true) :
    (w.step (.copyw x y)).1.watched y = some { alive := true, monitors := [] } ∧
    (w.step (.movew x y)).1.watched y = some { alive := true, monitors := [] } ∧
    (∀ x', x' ≠ y → (w.step (.copyw x y)).1.watched x' = w.watched x' ∧ (w.step (.movew x y)).1.watched x' = w.watched x') ∧
    (w.step (.copyw x y)).2 = [] ∧ (w.step (.movew x y)).2 = [] := by
  have hl' : w.legal (.movew x y) = true := hl
  simp only [step, hl, hl']
  refine ⟨by simp, by simp, ?_, by simp, by simp⟩
  intro x' hx'
  simp [upd, hx']

/-- **C13, assignment** changes no requirement on either side. -/
theorem assign_keeps (w : World) (d s : Nat) : (w.step (.assignw d s)).1.watched = w.watched ∧
    (w.step (.assignw d s)).1.mons = w.mons ∧ ∀ ev ∈ (w.step (.assignw d s)).2, ev = Ev.badOp := by
  unfold step
  split
  · exact ⟨rfl, rfl, by simp⟩
  · exact ⟨rfl, rfl, by simp⟩

/-- a new requirement is added in front of the object's chain; existing ones stay. -/
theorem monitor_added (w : World) (mid x : Nat) (ss : List Nat) (hl : w.legal (.monitor mid x ss) = true)
    (y : Watched) (hy : w.watched x = some y) :
    (w.step (.monitor mid x ss)).1.watched x = some { y with monitors := mid :: y.monitors } ∧
    (w.step (.monitor mid x ss)).2 = [] := by
  simp only [step, hl, hy, Bool.not_true, Bool.false_eq_true, if_false]
  unfold register
  rw [foldl_setSeqPending_watched]
  simp

/-! ### non-vacuity -/
private def ex : World := (({} : World).run [.watched 0, .watched 1, .monitor 0 0 [], .monitor 1 0 []]).1

example : (ex.run [.assignw 0 1, .killw 0, .msat 0, .msat 1, .releasemon 0, .releasemon 1, .killw 1]).2 =
    [[], [], [.answer true], [.answer true], [], [], [.report .nonfatal 0 (.unexpectedDestruction 1)]] := by decide
example : (ex.run [.releasemon 1, .copyw 0 2, .killw 2, .killw 0]).2 =
    [[.report .nonfatal 0 (.stillAlive 1)], [], [.report .nonfatal 0 (.unexpectedDestruction 2)], []] := by decide

end Tromp.C13
