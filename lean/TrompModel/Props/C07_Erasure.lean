/-
  Props/C07_Erasure.lean — C07's clause "calls it does not match, and all calls after its lifetime has ended, are
  handled exactly as if it had never existed", for expectations that take part in no sequence, over whole series of
  calls.  (`Lemmas/Erase.lean`: erasing `e` from the world commutes with every call `e` does not match.)

  `eraseE e w` is the world in which `e` never existed: there is no record of `e` and it is on no list.  The theorems do
  not need `e` to be a *forbidding* expectation — the clause holds for every unsequenced expectation — and C07 uses it for
  forbids.  "Exactly" is up to what only `e` itself produces: its own WITH evaluations while `find` walks the list, and
  its own entry in the "Tried" listing of a no-match report (C15's subject); `eraseEvs` removes precisely those.
  Partial with respect to the clause: sequenced forbids (possible through `RT_TIMES(0)` only) are excluded — a step in a
  sequence changes the cost of its successors by design.
-/
import TrompModel.Lemmas.Erase
import TrompModel.Lemmas.InvSeq

namespace Tromp.C07
open World

/-- a series of calls `(object, function, arguments)`. -/
def callsRun (w : World) : List (Nat × Nat × Args) → World × List (List Ev)
  | [] => (w, [])
  | (o, f, a) :: cs => ((callsRun (w.callFn o f a).1 cs).1, (w.callFn o f a).2 :: (callsRun (w.callFn o f a).1 cs).2)

/-- none of the calls of the series is matched by `e` while `e` is on a list of the called function. -/
def NotMatchedBy (e : Nat) : World → List (Nat × Nat × Args) → Prop
  | _, [] => True
  | w, (o, f, a) :: cs =>
    (∀ m, w.mocks o = some m → (e ∈ m.active f ∨ e ∈ m.saturated f) → w.expMatches a e = false) ∧
    NotMatchedBy e (w.callFn o f a).1 cs

theorem unsequenced_callFn {e : Nat} {w : World} (hu : Unsequenced e w) (o f : Nat) (a : Args) :
    Unsequenced e (w.callFn o f a).1 :=
  fun s h => hu s (((Shrinks.callFn w o f a).sub s).subset h)

/-- **C07, erasure, one call.** -/
theorem erasure_call (e : Nat) (w : World) (hu : Unsequenced e w) (o f : Nat) (a : Args)
    (hnm : ∀ m, w.mocks o = some m → (e ∈ m.active f ∨ e ∈ m.saturated f) → w.expMatches a e = false) :
    (eraseE e w).callFn o f a = (eraseE e (w.callFn o f a).1, eraseEvs e (w.callFn o f a).2) :=
  eraseE_callFn e w hu o f a hnm

/-- **C07, erasure, any series of calls.**  The world without `e` goes through the series exactly as the world with
    `e` does: after every call the one is the other with `e` erased, and the event streams agree up to `e`'s own WITH
    evaluations and "Tried" entry. -/
theorem erasure_calls (e : Nat) (w : World) (hu : Unsequenced e w) (cs : List (Nat × Nat × Args))
    (hnm : NotMatchedBy e w cs) :
    callsRun (eraseE e w) cs = (eraseE e (callsRun w cs).1, (callsRun w cs).2.map (eraseEvs e)) := by
  induction cs generalizing w with
  | nil => rfl
  | cons c cs ih =>
    obtain ⟨o, f, a⟩ := c
    simp only [callsRun, NotMatchedBy] at hnm ⊢
    rw [erasure_call e w hu o f a hnm.1]
    simp only [ih (w.callFn o f a).1 (unsequenced_callFn hu o f a) hnm.2, List.map_cons]

/-- the designated expectation of a call that `e` does not match is the same with and without `e`. -/
theorem designated_unaffected (e : Nat) (w : World) (hu : Unsequenced e w) (m : Mock) (f : Nat) (a : Args)
    (hnm : e ∈ m.active f → w.expMatches a e = false) :
    (find ((eraseE e w).expMatches a) (eraseE e w).expOrder ((m.active f).filter (· ≠ e))).1 =
      (find (w.expMatches a) w.expOrder (m.active f)).1 := by
  simp only [find]
  exact findGo_erase _ _ _ _ e _
    (fun k _ hk => ⟨eraseE_expMatches e w a hk, eraseE_expOrder e w hu hk⟩) hnm none

/-! ### after the end of its lifetime -/

/-- `e` is on no list of any mock object. -/
def OffLists (e : Nat) (w : World) : Prop := ∀ o m, w.mocks o = some m → ∀ f, e ∉ m.active f ∧ e ∉ m.saturated f

theorem offLists_callFn {e : Nat} {w : World} (h : OffLists e w) (o f : Nat) (a : Args) : OffLists e (w.callFn o f a).1 := by
  unfold World.callFn
  cases hm : w.mocks o with
  | none => exact h
  | some m =>
    simp only
    generalize hfr : find (w.expMatches a) w.expOrder (m.active f) = fr
    obtain ⟨found, visited⟩ := fr
    simp only
    cases found with
    | none =>
      simp only
      unfold World.reportMismatch
      simp only
      split
      · intro o' m' hm'
        have : (w.markReported (m.active f)).mocks = w.mocks := (markReported_frame w _).2.1
        rw [this] at hm'; exact h o' m' hm'
      · exact h
    | some k =>
      have hk : k ∈ m.active f := by
        have : (find (w.expMatches a) w.expOrder (m.active f)).1 = some k := by rw [hfr]
        exact (find_some_mem this).1
      have hke : k ≠ e := by rintro rfl; exact (h o m hm f).1 hk
      simp only
      cases hx : w.exps k with
      | none => exact h
      | some x =>
        simp only
        unfold World.runActions
        split
        · exact h
        · cases w.order (.exp k) x.seqs with
          | none => exact h
          | some n =>
            simp only
            unfold World.bookkeep
            simp only
            split
            · intro o' m' hm' f'
              simp only [setExp_mocks] at hm'
              by_cases ho : o' = o
              · subst ho
                rw [setMock_mocks_same] at hm'; cases hm'
                have := h o' m hm
                by_cases hf : f' = f
                · subst hf
                  simp only [if_true, List.mem_filter, List.mem_append, List.mem_singleton, not_and, not_or]
                  exact ⟨fun hmem => absurd hmem (this f').1, (this f').2, Ne.symm hke⟩
                · simp only [hf, if_false]; exact this f'
              · rw [setMock_mocks_other _ _ ho, retireOwn_mocks, retirePredecessors_mocks] at hm'
                exact h o' m' hm' f'
            · intro o' m' hm'
              simp only [setExp_mocks, retirePredecessors_mocks] at hm'
              exact h o' m' hm'

/-- once `e` is on no list (its lifetime has ended: `release` unlinked it, or its mock object died), every series of
    calls satisfies the hypothesis of `erasure_calls` — whatever the arguments. -/
theorem notMatchedBy_of_offLists (e : Nat) (w : World) (h : OffLists e w) (cs : List (Nat × Nat × Args)) :
    NotMatchedBy e w cs := by
  induction cs generalizing w with
  | nil => trivial
  | cons c cs ih =>
    obtain ⟨o, f, a⟩ := c
    refine ⟨fun m hm hin => ?_, ih _ (offLists_callFn h o f a)⟩
    rcases hin with hin | hin
    · exact absurd hin (h o m hm f).1
    · exact absurd hin (h o m hm f).2

/-- **C07, after the lifetime.**  All calls after `e` has left the lists are handled as if it had never existed. -/
theorem erasure_after_lifetime (e : Nat) (w : World) (hu : Unsequenced e w) (h : OffLists e w)
    (cs : List (Nat × Nat × Args)) :
    callsRun (eraseE e w) cs = (eraseE e (callsRun w cs).1, (callsRun w cs).2.map (eraseEvs e)) :=
  erasure_calls e w hu cs (notMatchedBy_of_offLists e w h cs)

/-- `release` takes an expectation off the lists of its object. -/
theorem release_offLists (e : Nat) (w : World) (x : Exp) (hx : w.exps e = some x)
    (hon : ∀ o m, w.mocks o = some m → ∀ f, (e ∈ m.active f ∨ e ∈ m.saturated f) → o = x.obj ∧ f = x.fn)
    (hl : x.link ≠ .unlinked) :
    OffLists e (w.releaseExp e x).1 := by
  intro o m hm f
  unfold World.releaseExp at hm
  simp only [setExp_mocks, retireOwn_mocks] at hm
  unfold World.unlinkExp at hm
  cases hmo : w.mocks x.obj with
  | none =>
    simp only [hmo] at hm
    constructor <;> intro hin
    · have := (hon o m hm f (Or.inl hin)).1; subst this; rw [hmo] at hm; cases hm
    · have := (hon o m hm f (Or.inr hin)).1; subst this; rw [hmo] at hm; cases hm
  | some mo =>
    have hl' : (x.link == Link.unlinked) = false := by simpa using hl
    simp only [hmo, hl', Bool.false_eq_true, if_false] at hm
    by_cases ho : o = x.obj
    · subst ho
      rw [setMock_mocks_same] at hm; cases hm
      by_cases hf : f = x.fn
      · subst hf; simp
      · simp only [hf, if_false]
        constructor <;> intro hin
        · exact hf (hon _ mo hmo f (Or.inl hin)).2
        · exact hf (hon _ mo hmo f (Or.inr hin)).2
    · rw [setMock_mocks_other _ _ ho] at hm
      constructor <;> intro hin
      · exact ho (hon o m hm f (Or.inl hin)).1
      · exact ho (hon o m hm f (Or.inr hin)).1

/-! ### non-vacuity: an allowing expectation under a forbid; calls the forbid does not match, then its release -/

private def spec (p : Int → Bool) (c : List (Args → Bool)) (lo hi : Nat) (v : Int) : ExpectSpec :=
  { obj := 0, fn := 1, params := [p], conds := c, effects := [fun _ => none], ret := some (fun _ => .val v),
    lo := lo, hi := hi, rt := true, seqs := [] }
private def ex : World :=
  (({} : World).run [.mock 0 true, .expect 0 (spec (fun _ => true) [] 0 5 100),
                     .expect 1 (spec (· > 2) [fun a => a.head? == some 3] 0 0 101)]).1
private def cs : List (Nat × Nat × Args) := [(0, 1, [2]), (0, 1, [4]), (0, 1, [1])]

example : (callsRun ex cs).2 =
    [[.ok 0 0, .evalFx 0 0, .evalRet 0, .result (.val 100)],
     [.evalWith 1 0, .ok 0 0, .evalFx 0 0, .evalRet 0, .result (.val 100)],
     [.ok 0 0, .evalFx 0 0, .evalRet 0, .result (.val 100)]] := by decide
example : (callsRun (eraseE 1 ex) cs).2 =
    [[.ok 0 0, .evalFx 0 0, .evalRet 0, .result (.val 100)],
     [.ok 0 0, .evalFx 0 0, .evalRet 0, .result (.val 100)],
     [.ok 0 0, .evalFx 0 0, .evalRet 0, .result (.val 100)]] := by decide
example : ex.expMatches [4] 1 = false ∧ ex.expMatches [3] 1 = true := by decide

end Tromp.C07
