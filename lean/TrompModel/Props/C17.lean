/-
  Props/C17.lean — tracing: one record per accepted call to the innermost live tracer, with values.
-/
import TrompModel.Props.C16
import TrompModel.Lemmas.Nested

namespace Tromp.C17
open Tromp World

private theorem filter_trace_log (w : World) (a : Args) (l : List Nat) :
    (l.flatMap (w.matchLog a)).filter Ev.isTrace = [] := by
  rw [List.filter_eq_nil_iff]
  intro ev hev; obtain ⟨e, i, rfl⟩ := flatMap_matchLog_all_with w a l ev hev; simp [Ev.isTrace]

private theorem filter_trace_actions (e : Nat) (x : Exp) (a : Args) : (actionEvents e x a).1.filter Ev.isTrace = [] := by
  rw [List.filter_eq_nil_iff]
  intro ev hev
  have := (actionEvents_actor e x a ev hev).1
  cases ev <;> simp_all [Ev.isAction, Ev.isTrace]

/-- **C17.**  While a tracer is alive, an accepted call delivers exactly one trace record, to the
    most recently constructed live tracer (the head of the chain), carrying the handling
    expectation, every actual argument in order, and the returned value or the thrown exception
    (`Exc.std`: `what()`; `Exc.other`: unknown). -/
theorem trace_one_per_accepted (w : World) (o f : Nat) (a : Args) (m : Mock) (hm : w.mocks o = some m)
    (hex : ∀ e ∈ m.active f, ∃ x, w.exps e = some x) (hacc : C01.Accepted (w.callFn o f a).2)
    (t : Nat) (ts : List Nat) (ht : w.tracers = t :: ts) :
    ∃ e x, (find (w.expMatches a) w.expOrder (m.active f)).1 = some e ∧ w.exps e = some x ∧
      (w.callFn o f a).2.filter Ev.isTrace = [Ev.trace t e a (actionEvents e x a).2] ∧
      Ev.result (actionEvents e x a).2 ∈ (w.callFn o f a).2 := by
  obtain ⟨e, x, hfind, hx, heq⟩ := C08.eval_log_shape w o f a m hm hex hacc
  refine ⟨e, x, hfind, hx, ?_, by rw [heq]; simp⟩
  rw [heq]
  simp [List.filter_append, filter_trace_log, filter_trace_actions, traceEv, ht, Ev.isTrace, List.filter]

/-- while no tracer is alive nothing is traced, whatever the operation. -/
theorem no_tracer_no_trace (w : World) (o f : Nat) (a : Args) (ht : w.tracers = []) :
    ∀ ev ∈ (w.callFn o f a).2, ev.isTrace = false := by
  have hlog : ∀ l : List Nat, ∀ ev ∈ l.flatMap (w.matchLog a), ev.isTrace = false := by
    intro l ev hev; obtain ⟨e, i, rfl⟩ := flatMap_matchLog_all_with w a l ev hev; rfl
  have htr : ∀ e r, w.traceEv e a r = [] := by intro e r; simp [traceEv, ht]
  unfold callFn
  cases hm : w.mocks o with
  | none => simp [Ev.isTrace]
  | some m =>
    simp only []
    rw [show find (w.expMatches a) w.expOrder (m.active f) =
      ((find (w.expMatches a) w.expOrder (m.active f)).1, (find (w.expMatches a) w.expOrder (m.active f)).2) from rfl]
    cases hfind : (find (w.expMatches a) w.expOrder (m.active f)).1 with
    | none =>
      simp only []
      obtain ⟨pre, r, hev, hpre, _⟩ := reportMismatch_events w m f a
      intro ev hev'
      rw [hev] at hev'
      simp only [List.mem_append, List.mem_cons, List.mem_singleton, List.not_mem_nil, or_false] at hev'
      rcases hev' with h | h | rfl | rfl
      · exact hlog _ ev h
      · obtain ⟨e, i, rfl⟩ := hpre ev h; rfl
      · rfl
      · rfl
    | some e =>
      simp only []
      cases hx : w.exps e with
      | none => simp [Ev.isTrace]
      | some x =>
        simp only []
        intro ev hev'
        rcases List.mem_append.mp hev' with h | h
        · exact hlog _ ev h
        · unfold runActions at h
          by_cases hhi : x.hi = 0
          · simp only [hhi, if_true, htr] at h
            simp at h; rcases h with rfl | rfl <;> rfl
          · simp only [hhi, if_false] at h
            cases hord : w.order (.exp e) x.seqs with
            | none =>
              simp only [hord, htr] at h
              simp at h; rcases h with rfl | rfl <;> rfl
            | some n =>
              simp only [hord, htr] at h
              simp at h
              rcases h with rfl | h | rfl
              · rfl
              · have := (actionEvents_actor e x a ev h).1
                cases ev <;> simp_all [Ev.isAction, Ev.isTrace]
              · rfl

/-- operations other than calls never trace. -/
theorem only_calls_trace (w : World) (op : Op) (hop : op.isCall = false) :
    ∀ ev ∈ (w.step op).2, ev.isTrace = false := step_no_trace w op hop

/-- **C17, the tracer stack.**  A new tracer becomes the current one; when a tracer is destroyed
    exactly it leaves the chain, so the most recently constructed tracer that is still alive is in
    effect again (or none). -/
theorem tracer_stack (w : World) (t : Nat) :
    (w.legal (.tracer t) = true → (w.step (.tracer t)).1.tracers = t :: w.tracers) ∧
    (w.legal (.killtracer t) = true → (w.step (.killtracer t)).1.tracers = w.tracers.filter (· ≠ t)) := by
  constructor
  · intro hl; simp [step, hl]
  · intro hl; simp [step, hl]

/-- for properly nested lifetimes: destroying the current tracer restores the previous one. -/
theorem nested_restore (w : World) (t : Nat) (ts : List Nat) (ht : w.tracers = t :: ts) (hnd : t ∉ ts) :
    (w.step (.killtracer t)).1.tracers = ts := by
  have hl : w.legal (.killtracer t) = true := by simp [legal, ht]
  rw [(tracer_stack w t).2 hl, ht]
  simp only [List.filter_cons, ne_eq, not_true_eq_false, decide_false, Bool.false_eq_true, if_false]
  rw [List.filter_eq_self]
  intro x hx
  simp only [ne_eq, decide_eq_true_eq]
  exact fun h => hnd (h ▸ hx)

/-! ### non-vacuity -/
private def spec (p : Int → Bool) (r : Args → Outcome) : ExpectSpec :=
  { obj := 0, fn := 1, params := [p], conds := [], effects := [], ret := some r, lo := 0, hi := 9, rt := true, seqs := [] }
private def ex : World :=
  (({} : World).run [.mock 0 true, .expect 0 (spec (· == 1) (fun a => .val (a.getD 0 0 + 6))),
                     .expect 1 (spec (· == 2) (fun _ => .threw .std)), .tracer 0, .tracer 1]).1

example : (ex.run [.call 0 1 [1], .killtracer 0, .call 0 1 [2], .killtracer 1, .call 0 1 [1]]).2 =
    [[.ok 0 0, .evalRet 0, .trace 1 0 [1] (.val 7), .result (.val 7)], [],
     [.ok 0 1, .evalRet 1, .trace 1 1 [2] (.threw .std), .result (.threw .std)], [],
     [.ok 0 0, .evalRet 0, .result (.val 7)]] := by decide

/-! ### re-entrant calls -/

/-- **C17, nesting.**  For an accepted call whose side effects call other mock functions, the trace record of the
    outer call is the last trace record of the operation: every record delivered for a nested call (they are among
    the events of the side effects) precedes it; it carries the outer arguments and the outer result — the value of
    the outer RETURN, or the exception that ended the action list, be it thrown by a side effect or by a nested call. -/
theorem reentrant_outer_record_last (nest : NestMap) (fuel : Nat) (w : World) (o f : Nat) (a : Args) (m : Mock) (e : Nat)
    (x : Exp) (visited : List Nat) (hl : w.legal (.call o f a) = true) (hm : w.mocks o = some m)
    (hfind : find (w.expMatches a) w.expOrder (m.active f) = (some e, visited)) (hx : w.exps e = some x)
    (hc : ¬ (x.hi = 0 ∨ w.order (.exp e) x.seqs = none)) :
    ∃ (retEvs : List Ev) (res : Outcome),
      (∀ ev ∈ retEvs, ev = Ev.evalRet e) ∧
      (callN nest fuel w o f a).2 =
        visited.flatMap (w.matchLog a) ++ [Ev.ok w.okReporter e] ++
          (runEffectsN nest fuel e a x.effects 0 (w.bookkeep o f e x m)).2.1 ++ retEvs ++ w.traceEv e a res ++ [.result res] := by
  rw [callN]
  simp only [hl, Bool.not_true, Bool.false_eq_true, if_false, hm, hfind, hx, hc]
  cases (runEffectsN nest fuel e a x.effects 0 (w.bookkeep o f e x m)).2.2 with
  | some exc => exact ⟨[], .threw exc, by simp, rfl⟩
  | none =>
    cases x.ret with
    | some r => exact ⟨[Ev.evalRet e], r a, by simp, rfl⟩
    | none => exact ⟨[], .void, by simp, rfl⟩

end Tromp.C17
