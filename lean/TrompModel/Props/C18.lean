/-
  Props/C18.lean — value printing is null-safe, structural, and keeps the stream's formatting.
-/
import TrompModel.Model.Print

namespace Tromp.C18
open Tromp.Print

/-! ### no undefined behaviour: a null is never streamed, at any depth -/

mutual
/-- **C18, null safety.**  `print` never reaches the streaming of a null `const char*` (the model's
    `none`), whatever the nesting: the `is_null` guard precedes every leaf insertion. -/
theorem print_defined : ∀ (v : PV) (st : St), (print st v).isSome = true
  | .pair a b, st => by
    have h1 := print_defined a (pad st "{ ").2
    obtain ⟨r1, hr1⟩ := Option.isSome_iff_exists.mp h1
    have h2 := print_defined b (pad r1.2 ", ").2
    obtain ⟨r2, hr2⟩ := Option.isSome_iff_exists.mp h2
    simp [print, hr1, hr2]
  | .tuple l, st => by
    have h1 := printSeq_defined l true (pad st "{ ").2
    obtain ⟨r1, hr1⟩ := Option.isSome_iff_exists.mp h1
    simp [print, hr1]
  | .coll l, st => by
    have h1 := printSeq_defined l true (pad st "{ ").2
    obtain ⟨r1, hr1⟩ := Option.isSome_iff_exists.mp h1
    simp [print, hr1]
  | .blob _, _ => by simp [print]
  | .user _, _ => by simp [print]
  | .both _, _ => by simp [print]
  | .int _, _ => by simp [print, isNull, leafText]
  | .str _, _ => by simp [print, isNull, leafText]
  | .cstr none, _ => by simp [print, isNull]
  | .cstr (some _), _ => by simp [print, isNull, leafText]
  | .ptr true, _ => by simp [print, isNull]
  | .ptr false, _ => by simp [print, isNull, leafText]
  | .nullp, _ => by simp [print, isNull]
theorem printSeq_defined : ∀ (l : List PV) (first : Bool) (st : St), (printSeq st l first).isSome = true
  | [], _, _ => by simp [printSeq]
  | v :: vs, first, st => by
    have h1 := print_defined v (pad st (if first then "" else ", ")).2
    obtain ⟨r1, hr1⟩ := Option.isSome_iff_exists.mp h1
    have h2 := printSeq_defined vs false r1.2
    obtain ⟨r2, hr2⟩ := Option.isSome_iff_exists.mp h2
    simp [printSeq, hr1, hr2]
end

/-- null pointers and null-comparable objects print as `nullptr`, with default formatting, and
    leave the stream as it was. -/
theorem null_prints_nullptr (st : St) (v : PV) (h : isNull v = true) : print st v = some ("nullptr", st) := by
  cases v with
  | cstr s => cases s <;> simp_all [print, isNull]
  | ptr b => cases b <;> simp_all [print, isNull]
  | nullp => simp [print, isNull]
  | _ => simp [isNull] at h

/-- **C18, leaves.**  Each leaf value (directly streamable, null, or hex-dumped) is rendered with
    default formatting whatever base, fill, adjustment or width the stream carried, and afterwards
    those earlier flags, fill and width are in effect again. -/
theorem leaf_default_format_and_restore (st : St) (v : PV) (h : isLeaf v = true) :
    print st v = some (render v, st) := by
  cases v with
  | int i => simp [print, isNull, leafText, render]
  | str s => simp [print, isNull, leafText, render]
  | cstr s => cases s <;> simp [print, isNull, leafText, render]
  | ptr b => cases b <;> simp [print, isNull, leafText, render]
  | nullp => simp [print, isNull, render]
  | blob bs => simp [print, render]
  | pair _ _ | tuple _ | coll _ | user _ | both _ => simp [isLeaf] at h

theorem pad_width_zero (st : St) (s : String) (h : st.width = 0) : pad st s = (s, st) := by
  unfold pad
  have : ({ st with width := 0 } : St) = st := by cases st; simp_all
  simp [h, this]

mutual
/-- **C18, structure.**  With no pending width, pairs, tuples and (nested) collections print
    element-wise as `{ a, b }`, recursively, user printers are used where they exist, and the
    stream state is left unchanged. -/
theorem print_structure : ∀ (v : PV) (st : St), st.width = 0 → print st v = some (render v, st)
  | .pair a b, st, h => by
    simp only [print, pad_width_zero st _ h]
    rw [print_structure a st h]
    simp only [Option.bind_eq_bind, Option.bind_some, pad_width_zero st _ h]
    rw [print_structure b st h]
    simp [render, pad_width_zero st _ h]
  | .tuple l, st, h => by
    simp only [print, pad_width_zero st _ h]
    rw [printSeq_structure l true st h]
    simp [render, pad_width_zero st _ h]
  | .coll l, st, h => by
    simp only [print, pad_width_zero st _ h]
    rw [printSeq_structure l true st h]
    simp [render, pad_width_zero st _ h]
  | .blob _, _, _ => by simp [print, render]
  | .user s, st, h => by simp [print, render, pad_width_zero st _ h]
  | .both s, st, h => by simp [print, render, pad_width_zero st _ h]
  | .int _, _, _ => by simp [print, isNull, leafText, render]
  | .str _, _, _ => by simp [print, isNull, leafText, render]
  | .cstr none, _, _ => by simp [print, isNull, render]
  | .cstr (some _), _, _ => by simp [print, isNull, leafText, render]
  | .ptr true, _, _ => by simp [print, isNull, render]
  | .ptr false, _, _ => by simp [print, isNull, leafText, render]
  | .nullp, _, _ => by simp [print, isNull, render]
theorem printSeq_structure : ∀ (l : List PV) (first : Bool) (st : St), st.width = 0 →
    printSeq st l first = some (renderSeq l first, st)
  | [], _, _, _ => by simp [printSeq, renderSeq]
  | v :: vs, first, st, h => by
    simp only [printSeq, pad_width_zero st _ h]
    rw [print_structure v st h]
    simp only [Option.bind_eq_bind, Option.bind_some]
    rw [printSeq_structure vs false st h]
    simp [renderSeq, String.append_assoc]
end

/-- **C18, dispatch.**  A user-provided `printer<T>` wins over `operator<<`. -/
theorem printer_wins (st : St) (s : String) : print st (.both s) = print st (.user s) := by
  simp [print]

/-! ### hex dump -/

theorem unhex_hexDigit (n : Nat) (h : n < 16) : unhex (hexDigit n) = some n := by
  have : n = 0 ∨ n = 1 ∨ n = 2 ∨ n = 3 ∨ n = 4 ∨ n = 5 ∨ n = 6 ∨ n = 7 ∨ n = 8 ∨ n = 9 ∨ n = 10 ∨ n = 11 ∨
      n = 12 ∨ n = 13 ∨ n = 14 ∨ n = 15 := by omega
  rcases this with h | h | h | h | h | h | h | h | h | h | h | h | h | h | h | h <;> subst h <;> decide

theorem hexByte_toList (b : Nat) : (hexByte b).toList = [' ', '0', 'x', hexDigit (b / 16), hexDigit (b % 16)] := by
  simp [hexByte, String.toList_append]

/-- **C18, byte-exact hex dump.**  Parsing the dumped bytes back yields exactly the bytes of the
    object: every byte, in order, two hex digits each (newline after every 16th byte). -/
theorem hexBytes_roundtrip (bs : List Nat) (hb : ∀ b ∈ bs, b < 256) (k : Nat) :
    parseHexBytes ((hexBytes bs k).toList ++ [' ', '}']) = some bs := by
  induction bs generalizing k with
  | nil => simp [hexBytes, parseHexBytes]
  | cons b bs ih =>
    have hb' : b < 256 := hb b (by simp)
    have ih' := ih (fun x hx => hb x (List.mem_cons_of_mem _ hx)) (k + 1)
    have h1 : unhex (hexDigit (b / 16)) = some (b / 16) := unhex_hexDigit _ (by omega)
    have h2 : unhex (hexDigit (b % 16)) = some (b % 16) := unhex_hexDigit _ (by omega)
    have hval : b / 16 * 16 + b % 16 = b := by omega
    simp only [hexBytes, String.toList_append, hexByte_toList, List.cons_append, List.nil_append]
    by_cases hk : k % 16 = 15
    · simp only [hk, if_true]
      show parseHexBytes (' ' :: '0' :: 'x' :: hexDigit (b / 16) :: hexDigit (b % 16) ::
        ("\n".toList ++ (hexBytes bs (k + 1)).toList ++ [' ', '}'])) = some (b :: bs)
      simp only [parseHexBytes, h1, h2, Option.bind_eq_bind, Option.bind_some]
      have : "\n".toList = ['\n'] := rfl
      rw [this]
      simp only [List.cons_append, List.nil_append, parseHexBytes, ih', Option.bind_some, hval]
    · simp only [hk, if_false]
      show parseHexBytes (' ' :: '0' :: 'x' :: hexDigit (b / 16) :: hexDigit (b % 16) ::
        ("".toList ++ (hexBytes bs (k + 1)).toList ++ [' ', '}'])) = some (b :: bs)
      have : "".toList = [] := rfl
      rw [this]
      simp only [List.nil_append, parseHexBytes, h1, h2, Option.bind_eq_bind, Option.bind_some, ih', hval]

/-- layout of the dump: size, `-byte object={`, a newline iff the object is larger than 8 bytes,
    the bytes, ` }`. -/
theorem hexdump_layout (bs : List Nat) :
    hexdump bs = toString bs.length ++ "-byte object={" ++ (if bs.length > 8 then "\n" else "") ++ hexBytes bs 0 ++ " }" := rfl

/-! ### non-vacuity -/
private def weird : St := { width := 12, base := .hex, adjust := .right, fill := '*', extra := 1 }
example : print weird (.cstr none) = some ("nullptr", weird) := by decide
example : print weird (.int (-17)) = some ("-17", weird) := by decide
example : (print weird (.coll [.cstr (some "ab"), .cstr none])).map (·.1) = some "**********{ ab, nullptr }" := by decide
example : (print { weird with width := 0 } (.coll [.coll [.int 1, .int 2], .coll []])).map (·.1) = some "{ { 1, 2 }, {  } }" := by decide
example : hexdump [1, 2, 255] = "3-byte object={ 0x01 0x02 0xff }" := by decide

end Tromp.C18
