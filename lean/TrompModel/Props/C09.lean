/-
  Props/C09.lean — `_1 … _15` denote the actual arguments in positional order; plain clauses copy
  locals, LR_ clauses do not.  Theorems over the macro tables REGENERATED from /repo
  (Gen/Macros.lean).  What the C++ language then makes of a reference binding or a `[=]`/`[&]` capture is
  not modelled here; it is validated by the generated program family (tools/argsfarm.py).
-/
import TrompModel.Gen.Macros

namespace Tromp.C09
open Tromp.Gen

def clauseMacros : List String :=
  ["TROMPELOEIL_WITH_", "TROMPELOEIL_SIDE_EFFECT_", "TROMPELOEIL_RETURN_", "TROMPELOEIL_THROW_",
   "TROMPELOEIL_CO_RETURN_", "TROMPELOEIL_CO_THROW_", "TROMPELOEIL_CO_YIELD_"]

/-- **C09, positional binding.**  In every clause macro, for k = 1 … 15, `_k` is bound to
    `mkarg<k>(params)`: the table has exactly these 7 × 15 entries. -/
theorem bind_positional :
    bindings = clauseMacros.flatMap (fun m => (List.range' 1 15).map (fun k => (m, k, k))) := by decide

/-- every plain clause macro passes `=` (copy capture), every `LR_` one `&` (reference capture). -/
theorem capture_modes :
    captures = ["WITH", "SIDE_EFFECT", "RETURN", "THROW", "CO_RETURN", "CO_THROW", "CO_YIELD"].flatMap
      (fun b => [("TROMPELOEIL_" ++ b, "="), ("TROMPELOEIL_LR_" ++ b, "&")]) := by decide

/-- `TROMPELOEIL_PARAM_LISTn` declares `param_list_t<sig, 0> p1, …, param_list_t<sig, n−1> pn`. -/
theorem param_lists :
    paramLists = (List.range 16).map (fun n => (n, List.range n, List.range' 1 n)) := by decide

/-- `TROMPELOEIL_PARAMSn` forwards `p1, …, pn` in this order. -/
theorem params_forwarded : params = (List.range 16).map (fun n => (n, List.range' 1 n)) := by decide

/-- what `_k` denotes for a mock function of arity `n`, read off the tables: the macro binds `_k` to
    tuple element `j − 1` (`mkarg<j>`), the tuple is built from the names `TROMPELOEIL_PARAMSn`
    forwards, and each name is the parameter of that index in `TROMPELOEIL_PARAM_LISTn`.
    `none`: `illegal_argument` (beyond the arity). -/
def denotes (mac : String) (n k : Nat) : Option Nat := do
  let (_, _, j) ← bindings.find? (fun b => b.1 == mac && b.2.1 == k)
  let (_, fw) ← params.find? (fun p => p.1 == n)
  let (_, idx, names) ← paramLists.find? (fun p => p.1 == n)
  let pname ← fw[j - 1]?                 -- tuple element j−1 is built from this forwarded name
  let pos ← names.findIdx? (· == pname)  -- which declared parameter carries that name
  idx[pos]?

/-- **C09.**  For every clause macro, every arity 0 … 15 and every k = 1 … 15, `_k` denotes the k-th
    actual argument (index k − 1) of the call, and is an `illegal_argument` beyond the arity. -/
theorem underscore_k_is_kth_argument :
    ∀ mac ∈ clauseMacros, ∀ n ∈ List.range 16, ∀ k ∈ List.range' 1 15,
      denotes mac n k = if k ≤ n then some (k - 1) else none := by decide

/-- **the lambda every clause macro wraps around the user's expression**: the capture list is the macro's capture argument, the
    parameter is the tuple of references to the actual arguments (by const reference for WITH), and NO clause lambda is
    `mutable` — the copies a plain clause holds are immutable, so every call evaluates the expression on the same values
    (the reference manual: "named local objects … refer to immutable copies"). -/
theorem clause_lambdas :
    clauseLambdas =
      [("TROMPELOEIL_WITH_", "capture", "auto const& trompeloeil_x", ""),
       ("TROMPELOEIL_SIDE_EFFECT_", "capture", "auto& trompeloeil_x", ""),
       ("TROMPELOEIL_RETURN_", "capture", "auto& trompeloeil_x", "-> decltype(auto)"),
       ("TROMPELOEIL_THROW_", "capture", "auto& trompeloeil_x", ""),
       ("TROMPELOEIL_CO_RETURN_", "capture", "auto& trompeloeil_x", "-> decltype(auto)"),
       ("TROMPELOEIL_CO_THROW_", "capture", "auto& trompeloeil_x", ""),
       ("TROMPELOEIL_CO_YIELD_", "capture", "auto& trompeloeil_x", "")] := by decide

theorem no_clause_lambda_is_mutable : clauseLambdas.all (fun l => l.2.2.2 == "" || l.2.2.2 == "-> decltype(auto)") = true := by decide

/-- the store model of captures: a plain clause evaluates with the snapshot of the enclosing scope
    taken when the expectation was created, an LR_ clause with the scope as it is at the call. -/
def clauseSees (macroName : String) (atCreation atCall : Int) : Option Int :=
  (captures.find? (fun c => c.1 == macroName)).map (fun c => if c.2 == "=" then atCreation else atCall)

theorem plain_sees_creation_value (v w : Int) :
    clauseSees "TROMPELOEIL_WITH" v w = some v ∧ clauseSees "TROMPELOEIL_SIDE_EFFECT" v w = some v ∧
    clauseSees "TROMPELOEIL_RETURN" v w = some v ∧ clauseSees "TROMPELOEIL_THROW" v w = some v := by
  simp [clauseSees, captures]

theorem lr_sees_call_value (v w : Int) :
    clauseSees "TROMPELOEIL_LR_WITH" v w = some w ∧ clauseSees "TROMPELOEIL_LR_SIDE_EFFECT" v w = some w ∧
    clauseSees "TROMPELOEIL_LR_RETURN" v w = some w ∧ clauseSees "TROMPELOEIL_LR_THROW" v w = some w := by
  simp [clauseSees, captures]

end Tromp.C09
