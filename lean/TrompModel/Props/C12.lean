/-
  Props/C12.lean — thread safety: what follows from the lock discipline, for any number of threads and
  any schedule.  That every execution of the C++ obeys the discipline is NOT proved: it is observed per
  execution (access hooks → Gen/LockTable.lean, re-checked below) and cross-checked by ThreadSanitizer.
-/
import TrompModel.Model.Conc
import TrompModel.Gen.LockTable
import TrompModel.Gen.LockScopes

namespace Tromp.C12
open Tromp.Conc

/-- over a stretch of a well-formed trace: if thread `a` holds the lock at its start and a different
    thread `b` at its end, the stretch contains a release by `a` followed (later) by an acquisition by
    `b`; and if nobody holds it at the start, it contains an acquisition by `b`. -/
theorem handover_both (q : List E) (b : Nat) :
    (∀ a, a ≠ b → runL (some a) q = some (some b) → ∃ q1 q2 q3, q = q1 ++ [E.rel a] ++ q2 ++ [E.acq b] ++ q3) ∧
    (runL none q = some (some b) → ∃ q2 q3, q = q2 ++ [E.acq b] ++ q3) := by
  induction q with
  | nil =>
    constructor
    · intro a hab hr; simp [runL] at hr; exact absurd hr hab
    · intro hr; simp [runL] at hr
  | cons e es ih =>
    obtain ⟨ihP, ihQ⟩ := ih
    constructor
    · intro a hab hr
      simp only [runL] at hr
      cases e with
      | acq t => simp [stepL] at hr
      | acc t loc w =>
        simp only [stepL] at hr
        obtain ⟨q1, q2, q3, hq⟩ := ihP a hab hr
        exact ⟨E.acc t loc w :: q1, q2, q3, by simp [hq]⟩
      | rel t =>
        simp only [stepL] at hr
        by_cases hat : a = t
        · subst hat
          simp only [if_true] at hr
          obtain ⟨q2, q3, hq⟩ := ihQ hr
          exact ⟨[], q2, q3, by simp [hq]⟩
        · simp [hat] at hr
    · intro hr
      simp only [runL] at hr
      cases e with
      | rel t => simp [stepL] at hr
      | acc t loc w =>
        simp only [stepL] at hr
        obtain ⟨q2, q3, hq⟩ := ihQ hr
        exact ⟨E.acc t loc w :: q2, q3, by simp [hq]⟩
      | acq t =>
        simp only [stepL] at hr
        by_cases htb : t = b
        · subst htb; exact ⟨[], es, by simp⟩
        · obtain ⟨r1, r2, r3, hq⟩ := ihP t htb hr
          exact ⟨E.acq t :: (r1 ++ [E.rel t] ++ r2), r3, by simp [hq]⟩

theorem handover (q : List E) (a b : Nat) (hab : a ≠ b) (hr : runL (some a) q = some (some b)) :
    ∃ q1 q2 q3, q = q1 ++ [E.rel a] ++ q2 ++ [E.acq b] ++ q3 := (handover_both q b).1 a hab hr

/-- **C12, no data race under the lock discipline.**  In any well-formed execution, two accesses by
    different threads that are both made while holding the global lock are ordered by
    happens-before: between them the first thread releases the lock and, later, the second acquires
    it (release → acquire edge).  So conflicting accesses are never concurrent, for any number of
    threads and any schedule. -/
theorem lock_discipline_drf (p q r : List E) (t1 t2 x y : Nat) (w1 w2 : Bool) (hne : t1 ≠ t2)
    (hwf : (runL none (p ++ [E.acc t1 x w1] ++ q ++ [E.acc t2 y w2] ++ r)).isSome = true)
    (held1 : runL none p = some (some t1))
    (held2 : runL none (p ++ [E.acc t1 x w1] ++ q) = some (some t2)) :
    ∃ q1 q2 q3, q = q1 ++ [E.rel t1] ++ q2 ++ [E.acq t2] ++ q3 := by
  have happ : ∀ (a b : List E) (h : Holder), runL h (a ++ b) = (runL h a).bind (fun h' => runL h' b) := by
    intro a
    induction a with
    | nil => intro b h; simp [runL]
    | cons e es ih =>
      intro b h
      simp only [List.cons_append, runL]
      cases stepL h e with
      | none => simp
      | some h' => simp [ih]
  rw [List.append_assoc p, happ, held1] at held2
  simp only [Option.bind_some, List.cons_append, List.nil_append, runL, stepL] at held2
  exact handover q t1 t2 hne held2

/-- inside a critical section only the holder moves: the steps up to its `unlock` are its own updates. -/
theorem cs_contiguous {σ : Type} (tr : List (Nat × MS σ)) : ∀ (s s' : σ) (t : Nat),
    execM ⟨s, some t⟩ tr = some ⟨s', none⟩ →
    ∃ (fs : List (σ → σ)) (rest : List (Nat × MS σ)), tr = fs.map (fun f => (t, MS.upd f)) ++ (t, MS.unlock) :: rest ∧
      execM ⟨fs.foldl (fun s f => f s) s, none⟩ rest = some ⟨s', none⟩ := by
  induction tr with
  | nil => intro s s' t h; simp [execM] at h
  | cons e tr ih =>
    intro s s' t h
    obtain ⟨u, m⟩ := e
    simp only [execM] at h
    cases m with
    | lock => simp [stepM] at h
    | unlock =>
      simp only [stepM] at h
      by_cases hu : some t = some u
      · simp only [hu, if_true] at h
        have : t = u := Option.some.inj hu
        subst this
        exact ⟨[], tr, by simp, by simpa using h⟩
      · simp [hu] at h
    | upd f =>
      simp only [stepM] at h
      by_cases hu : some t = some u
      · simp only [hu, if_true] at h
        have : t = u := Option.some.inj hu
        subst this
        obtain ⟨fs, rest, htr, hex⟩ := ih (f s) s' t h
        exact ⟨f :: fs, rest, by simp [htr], by simpa using hex⟩
      · simp [hu] at h

/-- **C12, each operation takes effect atomically.**  Every execution in which shared state is only
    touched under the lock is a concatenation of critical sections, each executed by one thread
    without interleaving, and its final state is that of running those critical sections one at a
    time in lock-acquisition order.  (A thread's own critical sections appear in its program order,
    because the trace does.) -/
theorem legal_execution_is_serial {σ : Type} : ∀ (n : Nat) (tr : List (Nat × MS σ)) (s s' : σ), tr.length ≤ n →
    execM ⟨s, none⟩ tr = some ⟨s', none⟩ →
    ∃ blocks : List (Nat × List (σ → σ)), tr = blocks.flatMap block ∧ s' = blocks.foldl applyBlock s := by
  intro n
  induction n with
  | zero =>
    intro tr s s' hl h
    have : tr = [] := List.eq_nil_of_length_eq_zero (by omega)
    subst this
    simp [execM] at h
    exact ⟨[], by simp, by simp [h]⟩
  | succ n ih =>
    intro tr s s' hl h
    cases tr with
    | nil => simp [execM] at h; exact ⟨[], by simp, by simp [h]⟩
    | cons e tr =>
      obtain ⟨t, m⟩ := e
      simp only [execM] at h
      cases m with
      | unlock => simp [stepM] at h
      | upd f => simp [stepM] at h
      | lock =>
        simp only [stepM] at h
        obtain ⟨fs, rest, htr, hex⟩ := cs_contiguous tr s s' t h
        have hlen : rest.length ≤ n := by
          have : tr.length = fs.length + (rest.length + 1) := by rw [htr]; simp
          simp at hl; omega
        obtain ⟨blocks, hb, hs⟩ := ih rest _ s' hlen hex
        refine ⟨(t, fs) :: blocks, ?_, ?_⟩
        · simp [List.flatMap_cons, block, htr, hb]
        · simp [List.foldl_cons, applyBlock, hs]

/-- **C12, the observed lock discipline** (table regenerated on every run from the hooked build):
    every instrumented access to shared state was made while the accessing thread held the lock. -/
theorem observed_accesses_all_held : (Tromp.Gen.lockTable.filter (fun s => s.2.2 != 0)) = [] := by decide


/-! ### the lexical lock coverage of the current source (Gen/LockScopes.lean, regenerated by tools/lockscope.py)

For every function of mock.hpp / sequence.hpp / lifetime.hpp that takes the global lock, every statement, declaration with
initialiser, loop / branch condition and return expression is listed with whether it stands lexically inside the scope
of the lock variable.  Statically, for every path through these functions: -/

/-- statements outside a lock scope that touch nothing shared: the declaration of the lock itself, and the argument
    check of RT_TIMES (its two operands are the caller's values) with its `throw`. -/
def localStmts : List String :=
  ["auto lock = get_lock()", "if (bounds.high < bounds.low)",
   "throw std::logic_error {\"In RT_TIMES the first value must not exceed the second\"}"]

/-- statements in front of a function's own lock that run under the **caller's** lock: `run_actions` is called from
    `mock_func` only, inside `mock_func`'s lock scope (`run_actions_called_under_lock`); the mutex is recursive. -/
def underCallersLock : List (String × String) :=
  [("run_actions", "if (sequences->is_forbidden())"), ("run_actions", "reported = true"),
   ("run_actions", "report_forbidden_call(name, loc, params_string(params))")]

/-- **C12, lexical lock coverage.**  In every function that takes the lock, everything that is not on the two short
    lists above stands inside the lock's scope — the test that decides whether to report, the walk over a list, the
    unlinking, the hand-over of sequence handles. -/
theorem lexical_lock_coverage :
    Tromp.Gen.lockScopes.all (fun fn => fn.2.2.all (fun st =>
      st.2 || localStmts.contains st.1 || underCallersLock.contains (fn.1, st.1))) = true := by decide

/-- the functions that take the lock — none has lost its lock (it would drop out of the table), none was added unseen. -/
theorem lock_takers :
    Tromp.Gen.lockScopes.map (·.1) =
      ["decommission", "action", "action", "~call_matcher", "is_satisfied", "is_saturated", "run_actions", "make_expectation",
       "mock_func", "sequence_matcher", "sequence_type::is_completed", "sequence_type::~sequence_type",
       "trompeloeil_expect_death", "~lifetime_monitor", "deathwatched<T>::~deathwatched"] := by decide

theorem run_actions_called_under_lock :
    (Tromp.Gen.lockScopes.filter (fun fn => fn.1 == "mock_func")).all
      (fun fn => fn.2.2.contains ("i->run_actions(param_value, e.saturated)", true)) = true ∧
    (Tromp.Gen.lockScopes.filter (fun fn => fn.1 == "mock_func")).length = 1 := by decide

/-- the mutating steps the properties turn on are all inside a lock scope, by name: -/
theorem critical_steps_locked :
    let has := fun (f s : String) => (Tromp.Gen.lockScopes.filter (fun fn => fn.1 == f)).any (fun fn => fn.2.2.contains (s, true))
    has "decommission" "while (iter != e)" = true ∧ has "decommission" "m.unlink()" = true ∧
    has "~call_matcher" "if (is_unfulfilled())" = true ∧ has "~call_matcher" "this->unlink()" = true ∧
    has "~call_matcher" "sequences.reset()" = true ∧
    has "~lifetime_monitor" "if (!died)" = true ∧ has "~lifetime_monitor" "sequences.reset()" = true ∧
    has "deathwatched<T>::~deathwatched" "m->notify()" = true ∧
    has "sequence_type::is_completed" "for (const auto& matcher : matchers)" = true ∧
    has "sequence_type::~sequence_type" "m->detach()" = true ∧
    has "action" "m.matcher->sequences->set_limits(L, H)" = true ∧
    has "action" "m.matcher->sequences->set_limits(bounds.low, bounds.high)" = true ∧
    has "make_expectation" "m.matcher->hook_last(obj.trompeloeil_matcher_list(static_cast<Tag*>(nullptr)))" = true ∧
    has "sequence_matcher" "seq->add_last(this)" = true ∧
    has "mock_func" "auto i = find(e.active, param_value)" = true := by decide

/-- **what is read without the lock is atomic**: the state queries a user may call on a handle while other threads use the
    library and that do not take the lock (Gen/LockScopes.lean: `lockFreeReads`, regenerated from the source — the queries
    marked `override`, minus those that lock or merely forward) read only data members declared `atomic<…>`. -/
theorem lock_free_reads_atomic :
    Tromp.Gen.lockFreeReads.all (fun r => ["atomic<bool>", "atomic<size_t>", "atomic<unsigned>"].contains r.2.2.2) = true := by decide

/-- **the lock is held to the end of its scope**: no function that takes the global lock unlocks, releases, swaps or moves it
    (`earlyUnlocks`, regenerated from the source, is empty) — so "lexically inside the scope" above means "under the lock". -/
theorem no_early_unlock : Tromp.Gen.earlyUnlocks = [] := by decide

/-- **one mutex**: every definition of `get_lock()` (the standard one and the `TROMPELOEIL_CUSTOM_RECURSIVE_MUTEX` one) declares its
    mutex as a function-local `static` and returns a lock taken on that very object (`lockSources`, regenerated from the source) —
    so any two lock scopes of the table exclude one another, which is what `critical_steps_locked` and the linearisation
    argument rest on; and there is such a definition. -/
theorem one_global_mutex :
    Tromp.Gen.lockSources.all (fun r => r.2.1 && r.2.2) = true ∧ Tromp.Gen.lockSources ≠ [] := by decide

/-- … and there are such queries (the destruction requirement's), so the statement is not about an empty table. -/
theorem lock_free_reads_nonempty :
    Tromp.Gen.lockFreeReads.map (fun r => (r.1, r.2.2.1)) =
      [("lifetime_monitor::is_satisfied", "died"), ("lifetime_monitor::is_saturated", "died")] := by decide

/-! ### non-vacuity -/
example : runL none [.acq 1, .acc 1 7 true, .rel 1, .acq 2, .acc 2 7 false, .rel 2] = some none := by decide
example : runL none [.acq 1, .acq 2] = none := by decide
example : (execM (σ := Nat) ⟨0, none⟩ [(1, .lock), (1, .upd (· + 1)), (1, .unlock), (2, .lock), (2, .upd (· * 5)), (2, .unlock)]).map (·.st) = some 5 := by
  decide
example : (execM (σ := Nat) ⟨0, none⟩ [(1, .lock), (2, .upd (· + 1))]).isNone = true := by decide

end Tromp.C12
