/-
  Props/C15.lean — reports: fatal from calls, non-fatal from destructors, naming the right culprit.
-/
import TrompModel.Lemmas.Step

namespace Tromp.C15
open Tromp World

/-- **C15, severity by origin.**  Every violation reported during a mock call is fatal … -/
theorem call_reports_fatal (w : World) (o f : Nat) (a : Args) :
    ∀ ev ∈ (w.step (.call o f a)).2, ∀ s r rp, ev = Ev.report s r rp → s = .fatal ∧ r = w.reporter := by
  intro ev hev s r rp he
  unfold step at hev
  split at hev
  · simp at hev; subst hev; cases he
  · have := (callFn_evsTo w o f a ev hev).1 s r rp he
    exact ⟨this.2, this.1⟩

/-- … and every violation reported by any other operation (everything that destroys, releases,
    moves or queries) is non-fatal, so a conforming reporter is never made to throw out of a
    destructor. -/
theorem destructor_reports_nonfatal (w : World) (op : Op) (hop : op.isCall = false) :
    ∀ ev ∈ (w.step op).2, ∀ s r rp, ev = Ev.report s r rp → s = .nonfatal ∧ r = w.reporter := by
  intro ev hev s r rp he
  have := (step_evsTo_nonfatal w op hop ev hev).1 s r rp he
  exact ⟨this.2, this.1⟩

theorem failingParams_spec (ps : List (Int → Bool)) (as : List Int) (k i : Nat) :
    i ∈ failingParams ps as k ↔ ∃ j p v, i = k + j ∧ ps[j]? = some p ∧ as[j]? = some v ∧ p v = false := by
  induction ps generalizing as k with
  | nil => simp [failingParams]
  | cons p ps ih =>
    cases as with
    | nil => simp [failingParams]
    | cons v vs =>
      unfold failingParams
      by_cases hp : p v = true
      · simp only [hp, if_true, ih]
        constructor
        · rintro ⟨j, p', v', rfl, h1, h2, h3⟩
          exact ⟨j + 1, p', v', by omega, by simpa using h1, by simpa using h2, h3⟩
        · rintro ⟨j, p', v', rfl, h1, h2, h3⟩
          cases j with
          | zero => simp at h1 h2; subst h1; subst h2; rw [hp] at h3; cases h3
          | succ j => exact ⟨j, p', v', by omega, by simpa using h1, by simpa using h2, h3⟩
      · have hp' : p v = false := by simpa using hp
        simp only [hp', Bool.false_eq_true, if_false, List.mem_cons, ih]
        constructor
        · rintro (rfl | ⟨j, p', v', rfl, h1, h2, h3⟩)
          · exact ⟨0, p, v, rfl, rfl, rfl, hp'⟩
          · exact ⟨j + 1, p', v', by omega, by simpa using h1, by simpa using h2, h3⟩
        · rintro ⟨j, p', v', rfl, h1, h2, h3⟩
          cases j with
          | zero => left; rfl
          | succ j => right; exact ⟨j, p', v', by omega, by simpa using h1, by simpa using h2, h3⟩

/-- what a "Tried" entry says about one expectation: the parameters that reject the call, or —
    if all parameters fit — its first failing WITH clause. -/
theorem tried_entry (x : Exp) (a : Args) :
    (paramsOk x.params a = false → ∃ idx, whyOf x a = .params idx ∧
        ∀ i, i ∈ idx ↔ ∃ p v, x.params[i]? = some p ∧ a[i]? = some v ∧ p v = false) ∧
    (paramsOk x.params a = true → whyOf x a = .cond (firstFailing x.conds a)) := by
  constructor
  · intro hp
    refine ⟨failingParams x.params a 0, by simp [whyOf, hp], ?_⟩
    intro i
    rw [failingParams_spec]
    constructor
    · rintro ⟨j, p, v, rfl, h1, h2, h3⟩; exact ⟨p, v, by simpa using h1, by simpa using h2, h3⟩
    · rintro ⟨p, v, h1, h2, h3⟩; exact ⟨i, p, v, by simp, h1, h2, h3⟩
  · intro hp; simp [whyOf, hp]

/-- **C15, the no-match listing.**  The report names the function and carries the actual arguments;
    it lists *either* every saturated expectation of that function that would have matched (in
    list order) *or else* every live expectation on that function, newest first, each with its
    `tried_entry`. -/
theorem nomatch_listing (w : World) (m : Mock) (f : Nat) (a : Args)
    (hex : ∀ e ∈ m.active f, ∃ x, w.exps e = some x) :
    ∃ pre r, (w.reportMismatch m f a).2 = pre ++ [Ev.report .fatal w.reporter r, .result (.threw .rep)] ∧
      ((((m.saturated f).filter (w.expMatches a)) ≠ [] ∧
          r = .noMatch f a ((m.saturated f).filter (w.expMatches a)) []) ∨
       (((m.saturated f).filter (w.expMatches a)) = [] ∧
          ∃ tried, r = .noMatch f a [] tried ∧ tried.map (·.1) = m.active f ∧
            ∀ p ∈ tried, ∃ x, w.exps p.1 = some x ∧ p.2 = whyOf x a)) := by
  by_cases h : ((m.saturated f).filter (w.expMatches a)).isEmpty = true
  · simp only [reportMismatch, h, if_true, rep]
    refine ⟨_, _, by rw [List.append_assoc], Or.inr ⟨by simpa using h, _, rfl, ?_, ?_⟩⟩
    · -- the tried list enumerates the active list
      have : ∀ l : List Nat, (∀ e ∈ l, ∃ x, w.exps e = some x) →
          (l.filterMap (fun e => (w.exps e).map (fun x => (e, whyOf x a)))).map (·.1) = l := by
        intro l
        induction l with
        | nil => intro _; rfl
        | cons e l ih =>
          intro hl
          obtain ⟨x, hx⟩ := hl e (by simp)
          simp only [List.filterMap_cons, hx, Option.map_some, List.map_cons]
          rw [ih (fun e' he' => hl e' (List.mem_cons_of_mem _ he'))]
      exact this _ hex
    · intro p hp
      obtain ⟨e, _, he⟩ := List.mem_filterMap.mp hp
      cases hx : w.exps e with
      | none => simp [hx] at he
      | some x =>
        simp [hx] at he
        subst he
        exact ⟨x, hx, rfl⟩
  · simp only [reportMismatch, h, rep]
    refine ⟨_, _, rfl, Or.inl ⟨?_, rfl⟩⟩
    intro hnil; rw [hnil] at h; exact h rfl

/-! ### non-vacuity -/
private def ex : World :=
  (({} : World).run [.mock 0 true,
    .expect 0 { obj := 0, fn := 2, params := [fun x => x == 1, fun y => y == 2], conds := [], effects := [],
                ret := some (fun _ => .val 1), lo := 1, hi := 1, rt := true, seqs := [] },
    .expect 1 { obj := 0, fn := 2, params := [fun _ => true, fun _ => true], conds := [fun _ => true, fun _ => false],
                effects := [], ret := some (fun _ => .val 1), lo := 1, hi := 1, rt := true, seqs := [] }]).1

example : (ex.step (.call 0 2 [5, 6])).2 =
    [.evalWith 1 0, .evalWith 1 1, .evalWith 1 0, .evalWith 1 1,
     .report .fatal 0 (.noMatch 2 [5, 6] [] [(1, .cond (some 1)), (0, .params [0, 1])]), .result (.threw .rep)] := by decide
example : (ex.step (.kill 0)).2 =
    [.report .nonfatal 0 (.pendingDestroyed 1 1 0), .report .nonfatal 0 (.pendingDestroyed 0 1 0)] := by decide

end Tromp.C15
