/-
  Props/C20.lean — mocked coroutines: matched at the call, then yield in order, then return/throw.
  Hypothesis of everything here (the property's proviso and the known finding F12): the expectation
  is alive while its clauses are evaluated and no clause evaluated after the call returned refers
  to a parameter of the call.
-/
import TrompModel.Model.Coro

namespace Tromp.C20
open Tromp.Coro

/-- what a frame at cursor `pos` still has to produce. -/
def remaining (x : Exp) (c : Co) : List Item :=
  if c.finished then [] else specFrom (x.yields.drop c.pos) x.ret

theorem advance_spec (eid : Nat) (x : Exp) (c : Co) (hf : c.finished = false) :
    ∃ item rest, remaining x c = item :: rest ∧ (advance eid x c).2.1 = item ∧
      remaining x (advance eid x c).1 = rest ∧ (advance eid x c).1.stash = c.stash := by
  unfold advance remaining
  simp only [hf, Bool.false_eq_true, if_false]
  cases hy : x.yields[c.pos]? with
  | none =>
    have hlen : x.yields.length ≤ c.pos := by
      simpa [List.getElem?_eq_none_iff] using hy
    have hdrop : x.yields.drop c.pos = [] := List.drop_eq_nil_of_le hlen
    rw [hdrop]
    cases x.ret <;> simp [specFrom]
  | some y =>
    have hlt : c.pos < x.yields.length := by
      apply Nat.lt_of_not_le
      intro h
      have : x.yields[c.pos]? = none := by simp [List.getElem?_eq_none_iff]; omega
      rw [this] at hy; cases hy
    have hdrop : x.yields.drop c.pos = y :: x.yields.drop (c.pos + 1) := by
      rw [List.drop_eq_getElem_cons hlt]
      congr
      have := List.getElem?_eq_getElem hlt
      rw [this] at hy; exact Option.some.inj hy
    rw [hdrop]
    cases y <;> simp [specFrom]

theorem take_append_replicate (l : List Item) : ∀ (n m : Nat), n ≤ m →
    (l ++ List.replicate m Item.done).take n = (l ++ List.replicate n Item.done).take n := by
  induction l with
  | nil => intro n m h; simp [List.take_replicate, Nat.min_eq_left h]
  | cons a l ih =>
    intro n m h
    cases n with
    | zero => simp
    | succ k =>
      simp only [List.cons_append, List.take_succ_cons]
      congr 1
      rw [ih k m (by omega), ih k (k + 1) (by omega)]

/-- pulling from a frame whose body has not started (no stash) produces exactly what remains, then
    `done` for ever. -/
theorem pulls_spec (eid : Nat) (x : Exp) : ∀ (n : Nat) (c : Co), c.stash = none →
    pulls eid x c n = (remaining x c ++ (List.replicate n Item.done)).take n := by
  intro n
  induction n with
  | zero => intro c _; simp [pulls]
  | succ n ih =>
    intro c hs
    simp only [pulls, next, hs]
    by_cases hf : c.finished = true
    · have hadv : advance eid x c = (c, .done, []) := by simp [advance, hf]
      rw [hadv]
      simp only []
      rw [ih c hs]
      simp [remaining, hf, List.replicate_succ, List.take_replicate]
    · have hf' : c.finished = false := by simpa using hf
      obtain ⟨item, rest, hrem, hitem, hrest, hstash⟩ := advance_spec eid x c hf'
      have ih' := ih (advance eid x c).1 (by rw [hstash]; exact hs)
      rw [hrem, ← hitem]
      simp only [List.cons_append, List.take_succ_cons]
      congr 1
      rw [ih', hrest, take_append_replicate rest n (n + 1) (by omega)]

/-- **C20, values (lazy start).**  Awaiting / iterating the coroutine returned by an accepted call
    produces the CO_YIELD values in declaration order followed by the CO_RETURN value (or plain
    completion, or the exception of CO_THROW / of the first throwing clause) — for any number of
    CO_YIELD clauses. -/
theorem coro_values_lazy (eid : Nat) (x : Exp) (hl : x.eager = false) (n : Nat) :
    pulls eid x (call eid x).2.1 n = (spec x ++ (List.replicate n Item.done)).take n := by
  have hc : (call eid x).2.1 = { e := eid } := by simp [call, hl]
  rw [hc, pulls_spec eid x n _ rfl]
  simp [remaining, spec]

/-- **C20, values (eager start).**  The same sequence is produced when the coroutine type starts
    eagerly (its first item is computed inside the call and handed over at the first pull). -/
theorem coro_values_eager (eid : Nat) (x : Exp) (he : x.eager = true) (n : Nat) :
    pulls eid x (call eid x).2.1 n = (spec x ++ (List.replicate n Item.done)).take n := by
  cases n with
  | zero => simp [pulls]
  | succ n =>
    have hf : ({ e := eid } : Co).finished = false := rfl
    obtain ⟨item, rest, hrem, hitem, hrest, hstash⟩ := advance_spec eid x { e := eid } hf
    have hc : (call eid x).2.1 = { (advance eid x { e := eid }).1 with stash := some (advance eid x { e := eid }).2.1 } := by
      simp [call, he]
    rw [hc]
    simp only [pulls, next]
    have hrem0 : remaining x { e := eid } = spec x := by simp [remaining, spec]
    rw [hrem0] at hrem
    rw [hrem, hitem]
    simp only [List.cons_append, List.take_succ_cons]
    congr 1
    have hs0 : ({ (advance eid x { e := eid }).1 with stash := none } : Co) = (advance eid x { e := eid }).1 := by
      have : (advance eid x { e := eid }).1.stash = none := by rw [hstash]
      cases h : (advance eid x { e := eid }).1
      simp_all
    rw [hs0, pulls_spec eid x n _ (by rw [hstash]), hrest, take_append_replicate rest n (n + 1) (by omega)]

/-- **C20, call time.**  The call itself is counted and runs the SIDE_EFFECT; for a lazily started
    coroutine no CO_ clause is evaluated at the call, for an eagerly started one exactly the first. -/
theorem coro_call_time (eid : Nat) (x : Exp) :
    (call eid x).1.count = x.count + 1 ∧
    (x.eager = false → (call eid x).2.2 = [Ev.fx eid]) ∧
    (x.eager = true → ∃ rest, (call eid x).2.2 = Ev.fx eid :: rest ∧ rest.length ≤ 1 ∧
        ∀ ev ∈ rest, ev = .evalYield eid 0 ∨ ev = .evalReturn eid) := by
  refine ⟨by unfold call; split <;> rfl, ?_, ?_⟩
  · intro hl; simp [call, hl]
  · intro he
    simp only [call, he, if_true]
    unfold advance
    simp only [Bool.false_eq_true, if_false]
    cases hy : x.yields[0]? with
    | none => cases x.ret <;> simp
    | some y => cases y <;> simp

/-- **C20, the exception arrives where the result is awaited.**  The call never produces an
    exception for its caller: whatever a clause throws is an *item* handed out by a pull. -/
theorem coro_throw_at_await (eid : Nat) (x : Exp) :
    ∀ ev ∈ (call eid x).2.2, ev = Ev.fx eid ∨ (∃ i, ev = .evalYield eid i) ∨ ev = .evalReturn eid := by
  intro ev hev
  unfold call at hev
  split at hev
  · simp only [List.mem_cons] at hev
    rcases hev with rfl | hev
    · exact Or.inl rfl
    · unfold advance at hev
      simp only [Bool.false_eq_true, if_false] at hev
      cases hy : x.yields[0]? with
      | none => rw [hy] at hev; cases hr : x.ret <;> simp [hr] at hev <;> simp [hev]
      | some y => rw [hy] at hev; cases y <;> simp at hev <;> exact Or.inr (Or.inl ⟨0, hev⟩)
  · simp at hev; exact Or.inl hev

theorem call_lazy (eid : Nat) (x : Exp) (hl : x.eager = false) :
    call eid x = ({ x with count := x.count + 1 }, { e := eid }, [Ev.fx eid]) := by
  simp [call, hl]

/-- **C20, independence.**  Every call handled by the same expectation gets a frame of its own
    (the CO_YIELD list is shared, the cursor is not): two coroutines obtained from two calls each
    produce the whole sequence, however the pulls on them are interleaved — the items of one frame
    are a function of that frame and of the (immutable) clauses only. -/
theorem coro_independent (eid : Nat) (x : Exp) (hl : x.eager = false) (n m : Nat) :
    let a := (call eid x).2.1
    let x1 := (call eid x).1
    let b := (call eid x1).2.1
    pulls eid x1 a n = (spec x ++ (List.replicate n Item.done)).take n ∧
    pulls eid x1 b m = (spec x ++ (List.replicate m Item.done)).take m := by
  rw [call_lazy eid x hl]
  simp only []
  rw [call_lazy eid _ (by simpa using hl)]
  simp only []
  constructor
  · rw [pulls_spec eid _ n _ rfl]; simp [remaining, spec]
  · rw [pulls_spec eid _ m _ rfl]; simp [remaining, spec]

/-! ### non-vacuity -/
private def ex : Exp := { yields := [.v 1, .v 2], ret := .v 3, eager := false }
example : pulls 0 ex (call 0 ex).2.1 5 = [.yielded 1, .yielded 2, .returned 3, .done, .done] := by decide
example : pulls 0 { ex with eager := true } (call 0 { ex with eager := true }).2.1 4 =
    [.yielded 1, .yielded 2, .returned 3, .done] := by decide
example : pulls 0 { ex with yields := [.v 1, .throws, .v 2] } (call 0 ex).2.1 3 = [.yielded 1, .threw, .done] := by decide
example : (call 0 { ex with eager := true }).2.2 = [.fx 0, .evalYield 0 0] := by decide




/-- **Position of the completion clause is irrelevant**: writing CO_RETURN / CO_THROW before, between or
    after the CO_YIELD clauses gives the same expectation — the yields in declaration order, then the
    completion (`.CO_RETURN(0).CO_YIELD(1).CO_YIELD(2)` yields 1, 2 and then returns 0). -/
theorem ofClauses_position_irrelevant (ys : List Val) (r : Val) (eager : Bool) (k : Nat) :
    Exp.ofClauses ((ys.take k).map Clause.coYield ++ [Clause.complete r] ++ (ys.drop k).map Clause.coYield) eager
      = some { yields := ys, ret := r, eager := eager } := by
  have h1 : ∀ l : List Val, (l.map Clause.coYield).filterMap Clause.completion? = [] := by
    intro l; induction l with
    | nil => rfl
    | cons a t ih => simpa [Clause.completion?] using ih
  have h2 : ∀ l : List Val, (l.map Clause.coYield).filterMap Clause.yield? = l := by
    intro l; induction l with
    | nil => rfl
    | cons a t ih => simpa [Clause.yield?] using ih
  unfold Exp.ofClauses
  rw [List.filterMap_append, List.filterMap_append, List.filterMap_append, List.filterMap_append, h1, h1, h2, h2]
  simp [Clause.completion?, List.filterMap_cons, Clause.yield?.eq_2]

/-- hence every placement produces the specified item sequence (corollary of `coro_values`-style theorems
    above, which are stated for the `Exp` the clauses denote). -/
theorem clause_order_same_exp (ys : List Val) (r : Val) (eager : Bool) (j k : Nat) :
    Exp.ofClauses ((ys.take j).map Clause.coYield ++ [Clause.complete r] ++ (ys.drop j).map Clause.coYield) eager
      = Exp.ofClauses ((ys.take k).map Clause.coYield ++ [Clause.complete r] ++ (ys.drop k).map Clause.coYield) eager := by
  rw [ofClauses_position_irrelevant, ofClauses_position_irrelevant]

example : Exp.ofClauses [.complete (.v 0), .coYield (.v 1), .coYield (.v 2)] false
    = some { yields := [.v 1, .v 2], ret := .v 0, eager := false } := by rfl

end Tromp.C20
