/-
  Props/C14_HeapRefines.lean — for EVERY history of World operations, the pointer heap produced by the library's ring operations
  represents the World's mock-function lists.

  `listScript w op` is the script of ring operations the library performs on the mock-function lists for the operation `op` in the
  world `w` (the scripts of the worked instances of Props/C14_WorldRing.lean; which of them the C++ runs is read off the translations
  in Tie/RingScripts.lean).  `heapRun` runs a whole history: the World steps and, beside it, the heap executes the script of
  every step.  **`heap_refines_world`**: from the empty world and the untouched heap, after any history whatsoever, the heap
  represents (`Rep`) the lists of the world reached — every list object's `next` chain is its list in order, `prev` is the
  reverse, every expectation on no list is self-linked, no two lists share a node.  So everything Props/C14_Ring.lean proves of a
  represented family (iterators, `is_linked`, no dangling pointer after `unlink`, destructors of unlinked elements write nothing)
  holds of the real layout in every state any script reaches.
-/
import TrompModel.Props.C14_WorldRing

namespace Tromp.C14Ring
open Tromp Tromp.Ring World

/-! ### operations that do not touch the mock-function lists -/

/-- the part of a world `ringOf` reads. -/
def SameLists (w' w : World) : Prop := w'.mocks = w.mocks ∧ w'.nextO = w.nextO

theorem SameLists.rfl' (w : World) : SameLists w w := ⟨rfl, rfl⟩
theorem SameLists.trans {a b c : World} (h1 : SameLists a b) (h2 : SameLists b c) : SameLists a c :=
  ⟨h1.1.trans h2.1, h1.2.trans h2.2⟩

theorem ringOf_same {w' w : World} (h : SameLists w' w) : ringOf w' = ringOf w := by
  unfold ringOf headsOf
  have : listsOf w' = listsOf w := by
    funext a; cases a <;> simp [listsOf, h.1]
  rw [h.1, h.2, this]

theorem same_setSeqPending (w : World) (s : Nat) (f : List Owner → List Owner) : SameLists (w.setSeqPending s f) w := by
  unfold setSeqPending
  cases w.seqs s <;> exact ⟨rfl, rfl⟩

theorem same_foldl_setSeqPending (w : World) (ss : List Nat) (f : List Owner → List Owner) :
    SameLists (ss.foldl (fun w s => w.setSeqPending s f) w) w := by
  induction ss generalizing w with
  | nil => exact SameLists.rfl' w
  | cons s ss ih => exact (ih _).trans (same_setSeqPending w s f)

theorem same_retirePredecessors (w : World) (o : Owner) (ss : List Nat) : SameLists (w.retirePredecessors o ss) w :=
  same_foldl_setSeqPending w ss _
theorem same_retireOwn (w : World) (o : Owner) (ss : List Nat) : SameLists (w.retireOwn o ss) w :=
  same_foldl_setSeqPending w ss _
theorem same_register (w : World) (o : Owner) (ss : List Nat) : SameLists (w.register o ss) w :=
  same_foldl_setSeqPending w ss _

theorem same_setExp (w : World) (e : Nat) (x : Exp) : SameLists (w.setExp e x) w := ⟨rfl, rfl⟩

theorem same_markReported (w : World) (es : List Nat) : SameLists (w.markReported es) w := by
  unfold markReported
  induction es generalizing w with
  | nil => exact SameLists.rfl' w
  | cons e es ih =>
    simp only [List.foldl_cons]
    refine (ih _).trans ?_
    cases w.exps e <;> exact ⟨rfl, rfl⟩

theorem same_notify (w : World) (m : Nat) : SameLists (w.notify m).1 w := by
  unfold notify
  cases w.mons m with
  | none => exact SameLists.rfl' w
  | some x => exact ((same_retireOwn _ _ _).trans (same_retirePredecessors _ _ _)).trans ⟨rfl, rfl⟩

theorem same_notify_fold (ms : List Nat) (acc : World × List Ev) :
    SameLists (ms.foldl (fun (acc : World × List Ev) m => ((acc.1.notify m).1, acc.2 ++ (acc.1.notify m).2)) acc).1 acc.1 := by
  induction ms generalizing acc with
  | nil => exact SameLists.rfl' _
  | cons m ms ih => exact (ih _).trans (same_notify acc.1 m)

theorem same_reportMismatch (w : World) (m : Mock) (f : Nat) (a : Args) : SameLists (w.reportMismatch m f a).1 w := by
  unfold reportMismatch
  simp only
  split
  · exact same_markReported w _
  · exact SameLists.rfl' w

/-! ### the script of one operation -/

/-- the ring operations of an accepted call (none unless it saturates its expectation). -/
def callScript (w : World) (o f : Nat) (a : Args) : List (Ring.Op Addr) :=
  match w.mocks o with
  | none => []
  | some m =>
    match (find (w.expMatches a) w.expOrder (m.active f)).1 with
    | none => []
    | some e =>
      match w.exps e with
      | none => []
      | some x =>
        if x.hi = 0 then [] else
        match w.order (.exp e) x.seqs with
        | none => []
        | some _ => if x.count + 1 = x.hi then [Ring.Op.unlink (Addr.exp e), Ring.Op.pushBack (Addr.sat o f) (Addr.exp e)] else []

/-- the ring operations the library performs on the mock-function lists for one World operation. -/
def listScript (w : World) (op : Tromp.Op) : List (Ring.Op Addr) :=
  if !w.legal op then [] else
  match op with
  | .mock o _ => (headsOfMock o).map Ring.Op.newList
  | .expect e x =>
    if x.rt && decide (x.hi < x.lo) then [] else
    match w.mocks x.obj with
    | none => []
    | some _ => [Ring.Op.pushFront (Addr.act x.obj x.fn) (Addr.exp e)]
  | .call o f a => callScript w o f a
  | .release e => match w.exps e with | some _ => [Ring.Op.unlink (Addr.exp e)] | none => []
  | .move o o' => match w.mocks o with | some _ => moveAll (movePairs o o') | none => []
  | .kill o => match w.mocks o with | some m => killScript m | none => []
  | _ => []

/-! ### creation of a mock object: eight fresh, empty list objects -/

theorem newLists_run (a : Abs Addr) (hp : Heap Addr) (hs : List Addr) (hnd : hs.Nodup) (hu : ∀ hd ∈ hs, ¬ a.used hd) :
    legalRun a (hs.map Ring.Op.newList) ∧ (run (a, hp) (hs.map Ring.Op.newList)).2 = hp ∧
      (∀ y, y ∈ (run (a, hp) (hs.map Ring.Op.newList)).1.heads ↔ y ∈ a.heads ∨ y ∈ hs) ∧
      (∀ y, (run (a, hp) (hs.map Ring.Op.newList)).1.lists y = if y ∈ hs then [] else a.lists y) := by
  induction hs generalizing a hp with
  | nil => exact ⟨trivial, rfl, by simp [Ring.run], by simp [Ring.run]⟩
  | cons hd hs ih =>
    have hnd' := List.nodup_cons.mp hnd
    have hu' : ∀ hd' ∈ hs, ¬ (a.step (.newList hd)).used hd' := by
      intro hd' hm hused
      obtain ⟨h2, hh2, hy⟩ := hused
      simp only [Abs.step, List.mem_cons] at hh2 hy
      have hne : hd' ≠ hd := by rintro rfl; exact hnd'.1 hm
      rcases hh2 with rfl | hh2
      · simp at hy; exact hne hy
      · by_cases e : h2 = hd
        · subst e; simp at hy
          exact hu h2 (by simp) ⟨h2, hh2, by simp⟩ |> fun _ => hne hy
        · simp only [e, if_false] at hy
          exact hu hd' (by simp [hm]) ⟨h2, hh2, by simpa using hy⟩
    obtain ⟨lg, hheap, hheads, hlists⟩ := ih (a.step (.newList hd)) hp hnd'.2 hu'
    refine ⟨⟨hu hd (by simp), lg⟩, hheap, ?_, ?_⟩
    · intro y
      show y ∈ (run ((a.step (.newList hd)), hp) (hs.map Ring.Op.newList)).1.heads ↔ _
      rw [hheads]
      simp only [Abs.step, List.mem_cons]
      constructor
      · rintro ((rfl | h) | h)
        · exact Or.inr (Or.inl rfl)
        · exact Or.inl h
        · exact Or.inr (Or.inr h)
      · rintro (h | rfl | h)
        · exact Or.inl (Or.inr h)
        · exact Or.inl (Or.inl rfl)
        · exact Or.inr h
    · intro y
      show (run ((a.step (.newList hd)), hp) (hs.map Ring.Op.newList)).1.lists y = _
      rw [hlists]
      simp only [Abs.step, List.mem_cons]
      by_cases h1 : y ∈ hs
      · simp [h1]
      · by_cases h2 : y = hd <;> simp [h1, h2]

theorem mock_heap (hp : Heap Addr) {w : World} (h : WF w) (R : Rep hp (ringOf w)) (o : Nat) (mv : Bool) (ho : o = w.nextO) :
    Rep (run (ringOf w, hp) ((headsOfMock o).map Ring.Op.newList)).2
        (ringOf ({ w with mocks := upd w.mocks o { movable := mv }, nextO := o + 1 } : World)) := by
  subst ho
  have hfresh : w.mocks w.nextO = none := h.freshMock w.nextO (Nat.le_refl _)
  have hu : ∀ hd ∈ headsOfMock w.nextO, ¬ (ringOf w).used hd := by
    intro hd hm hused
    obtain ⟨f, hf, ha⟩ := mem_headsOfMock hm
    obtain ⟨h2, hh2, hy⟩ := hused
    obtain ⟨o2, f2, m2, hm2, ha2⟩ := mem_headsOf hh2
    have ho2 : o2 ≠ w.nextO := by rintro rfl; rw [hfresh] at hm2; cases hm2
    simp only [List.mem_cons] at hy
    rcases hy with hy | hy
    · rcases ha with rfl | rfl <;> rcases ha2 with rfl | rfl <;> simp at hy <;> exact ho2 hy.1.symm
    · rcases ha2 with rfl | rfl <;> simp only [ringOf, listsOf, hm2, List.mem_map] at hy <;>
        (obtain ⟨e, _, he⟩ := hy; rcases ha with rfl | rfl <;> cases he)
  obtain ⟨lg, hheap, hheads, hlists⟩ := newLists_run (ringOf w) hp (headsOfMock w.nextO) (headsOfMock_nodup _) hu
  have R' := rep_run R _ lg
  set w' : World := { w with mocks := upd w.mocks w.nextO { movable := mv }, nextO := w.nextO + 1 } with hw'
  have hmk : ∀ k, w'.mocks k = if k = w.nextO then some { movable := mv } else w.mocks k := fun k => rfl
  refine rep_congr_mem R' ?_ (headsOf_nodup _) ?_
  · intro y
    rw [hheads]
    show y ∈ headsOf w' ↔ y ∈ headsOf w ∨ y ∈ headsOfMock w.nextO
    unfold headsOf
    have hn : w'.nextO = w.nextO + 1 := rfl
    rw [hn, List.range_succ, List.flatMap_append, List.mem_append]
    simp only [List.flatMap_cons, List.flatMap_nil, List.append_nil, hmk, if_true]
    refine or_congr ?_ Iff.rfl
    simp only [List.mem_flatMap, List.mem_range]
    constructor
    · rintro ⟨k, hk, hy⟩
      have hk' : k ≠ w.nextO := by omega
      exact ⟨k, hk, by simpa [hk'] using hy⟩
    · rintro ⟨k, hk, hy⟩
      have hk' : k ≠ w.nextO := by omega
      exact ⟨k, hk, by simpa [hk'] using hy⟩
  · intro hd hhd
    rw [hlists]
    have hmem := (hheads hd).1 hhd
    rcases hmem with hmem | hmem
    · have hnot : hd ∉ headsOfMock w.nextO := by
        intro hin
        exact hu hd hin ⟨hd, hmem, by simp⟩
      simp only [hnot, if_false]
      obtain ⟨o2, f2, m2, hm2, ha2⟩ := mem_headsOf hmem
      have ho2 : o2 ≠ w.nextO := by rintro rfl; rw [hfresh] at hm2; cases hm2
      rcases ha2 with rfl | rfl <;> simp [ringOf, listsOf, hmk, ho2]
    · simp only [hmem, if_true]
      obtain ⟨f, hf, ha⟩ := mem_headsOfMock hmem
      rcases ha with rfl | rfl <;> simp [ringOf, listsOf, hmk]

/-! ### one step -/

theorem reachable_step {w : World} (r : C14.Reachable w) (op : Tromp.Op) : C14.Reachable (w.step op).1 := by
  obtain ⟨ops, rfl⟩ := r
  exact ⟨ops ++ [op], by simp [World.run_append, World.run]⟩

theorem call_heap (hp : Heap Addr) {w : World} (r : C14.Reachable w) (R : Rep hp (ringOf w)) (o f : Nat) (a : Args)
    (hl : w.legal (.call o f a) = true) :
    Rep (run (ringOf w, hp) (callScript w o f a)).2 (ringOf (w.callFn o f a).1) := by
  have h := C14.reachable_WF r
  have hf : f < nFns := by
    simp only [legal, Bool.and_eq_true, decide_eq_true_eq] at hl
    exact hl.1.2
  unfold callScript callFn
  cases hm : w.mocks o with
  | none => exact R
  | some m =>
    simp only
    cases hfind : (find (w.expMatches a) w.expOrder (m.active f)).1 with
    | none =>
      have : (find (w.expMatches a) w.expOrder (m.active f)) = (none, (find (w.expMatches a) w.expOrder (m.active f)).2) := by
        rw [← hfind]
      rw [this]
      simp only
      show Rep hp _
      rw [ringOf_same (same_reportMismatch w m f a)]; exact R
    | some e =>
      have : (find (w.expMatches a) w.expOrder (m.active f)) = (some e, (find (w.expMatches a) w.expOrder (m.active f)).2) := by
        rw [← hfind]
      rw [this]
      simp only
      have hin : e ∈ m.active f := (find_some_mem hfind).1
      cases hx : w.exps e with
      | none => exact R
      | some x =>
        simp only
        unfold runActions
        by_cases h0 : x.hi = 0
        · simp only [h0, if_true]
          show Rep hp _
          rw [ringOf_same (same_setExp w e _)]; exact R
        · simp only [h0, if_false]
          cases hord : w.order (.exp e) x.seqs with
          | none => exact R
          | some c =>
            simp only
            have hw' : WF (w.bookkeep o f e x m) := by
              have hstep := h.step (.call o f a)
              -- the world after the step is the bookkeeping world
              have e1 : (w.step (.call o f a)).1 = w.bookkeep o f e x m := by
                unfold step
                simp only [hl, Bool.not_true, Bool.false_eq_true, if_false]
                unfold callFn
                simp only [hm]
                rw [this]
                simp only [hx]
                unfold runActions
                simp only [h0, if_false, hord]
              rw [e1] at hstep; exact hstep
            by_cases hsat : x.count + 1 = x.hi
            · simp only [hsat, if_true]
              exact saturating_call_heap hp h R o f e x m hm hx hin hf hsat hw'
            · simp only [hsat, if_false]
              have := accepted_call_ring h o f e x m hm hx hin
              rw [if_neg hsat] at this
              show Rep hp _
              rw [this]; exact R

theorem rep_of_same {hp : Heap Addr} {w w' : World} (R : Rep hp (ringOf w)) (h : SameLists w' w) :
    Rep (run (ringOf w, hp) []).2 (ringOf w') := by
  show Rep hp _
  rw [ringOf_same h]; exact R

/-- **one World operation, on the heap**: in every reachable world, the ring script of the operation takes a heap representing
    the lists before to a heap representing the lists after — whatever the operation is, legal or not. -/
theorem step_heap (hp : Heap Addr) {w : World} (r : C14.Reachable w) (R : Rep hp (ringOf w)) (op : Tromp.Op) :
    Rep (run (ringOf w, hp) (listScript w op)).2 (ringOf (w.step op).1) := by
  have h := C14.reachable_WF r
  by_cases hl : w.legal op = true
  swap
  · have hs : (w.step op).1 = w := by unfold step; simp [hl]
    have hsc : listScript w op = [] := by unfold listScript; simp [hl]
    rw [hs, hsc]; exact R
  have hnl : (!w.legal op) = false := by simp [hl]
  cases op with
  | mock o mv =>
    have ho : o = w.nextO := by simpa [legal] using hl
    have hs : (w.step (.mock o mv)).1 = { w with mocks := upd w.mocks o { movable := mv }, nextO := o + 1 } := by
      unfold step; simp only [hnl]; rfl
    have hsc : listScript w (.mock o mv) = (headsOfMock o).map Ring.Op.newList := by
      unfold listScript; simp only [hnl]; rfl
    rw [hs, hsc]; exact mock_heap hp h R o mv ho
  | seq s =>
    have hs : SameLists (w.step (.seq s)).1 w := by unfold step; simp only [hnl]; exact ⟨rfl, rfl⟩
    have hsc : listScript w (.seq s) = [] := by unfold listScript; simp only [hnl]; rfl
    rw [hsc]; exact rep_of_same R hs
  | expect e x =>
    by_cases hthrow : (x.rt && decide (x.hi < x.lo)) = true
    · have hs : SameLists (w.step (.expect e x)).1 w := by
        unfold step; simp only [hnl, hthrow]; exact ⟨rfl, rfl⟩
      have hsc : listScript w (.expect e x) = [] := by unfold listScript; simp only [hnl, hthrow]; rfl
      rw [hsc]; exact rep_of_same R hs
    · have hthrow' : (x.rt && decide (x.hi < x.lo)) = false := by simpa using hthrow
      cases hm : w.mocks x.obj with
      | none =>
        exfalso
        have hl' := hl
        simp only [legal, Bool.and_eq_true, beq_iff_eq, decide_eq_true_eq, List.all_eq_true] at hl'
        obtain ⟨⟨⟨⟨⟨⟨_, hmock⟩, _⟩, _⟩, _⟩, _⟩, _⟩ := hl'
        unfold mockAlive at hmock
        rw [hm] at hmock; cases hmock
      | some m =>
        have hsc : listScript w (.expect e x) = [Ring.Op.pushFront (Addr.act x.obj x.fn) (Addr.exp e)] := by
          unfold listScript; simp only [hnl, hthrow', hm]; rfl
        rw [hsc]
        have hok : ¬ (x.rt = true ∧ x.hi < x.lo) := by
          intro hh; simp [hh.1, hh.2] at hthrow'
        exact expect_heap hp r R e x m hl hm hok
  | call o f a =>
    have hs : (w.step (.call o f a)).1 = (w.callFn o f a).1 := by unfold step; simp only [hnl]; rfl
    have hsc : listScript w (.call o f a) = callScript w o f a := by unfold listScript; simp only [hnl]; rfl
    rw [hs, hsc]; exact call_heap hp r R o f a hl
  | sat e =>
    have hs : SameLists (w.step (.sat e)).1 w := by unfold step; simp only [hnl]; exact ⟨rfl, rfl⟩
    have hsc : listScript w (.sat e) = [] := by unfold listScript; simp only [hnl]; rfl
    rw [hsc]; exact rep_of_same R hs
  | satd e =>
    have hs : SameLists (w.step (.satd e)).1 w := by unfold step; simp only [hnl]; exact ⟨rfl, rfl⟩
    have hsc : listScript w (.satd e) = [] := by unfold listScript; simp only [hnl]; rfl
    rw [hsc]; exact rep_of_same R hs
  | release e =>
    cases hx : w.exps e with
    | none =>
      have hs : SameLists (w.step (.release e)).1 w := by unfold step; simp only [hnl, hx]; exact ⟨rfl, rfl⟩
      have hsc : listScript w (.release e) = [] := by unfold listScript; simp only [hnl, hx]; rfl
      rw [hsc]; exact rep_of_same R hs
    | some x =>
      have hs : (w.step (.release e)).1 = (w.releaseExp e x).1 := by unfold step; simp only [hnl, hx]; rfl
      have hsc : listScript w (.release e) = [Ring.Op.unlink (Addr.exp e)] := by unfold listScript; simp only [hnl, hx]; rfl
      rw [hs, hsc]; exact release_heap hp r R e x hx
  | move o o' =>
    cases hm : w.mocks o with
    | none =>
      have hs : SameLists (w.step (.move o o')).1 w := by unfold step; simp only [hnl, hm]; exact ⟨rfl, rfl⟩
      have hsc : listScript w (.move o o') = [] := by unfold listScript; simp only [hnl, hm]; rfl
      rw [hsc]; exact rep_of_same R hs
    | some m =>
      have ho' : o' = w.nextO := by
        simp only [legal, Bool.and_eq_true, beq_iff_eq] at hl; exact hl.1
      have hs : (w.step (.move o o')).1 = w.moveMock o o' m := by unfold step; simp only [hnl, hm]; rfl
      have hsc : listScript w (.move o o') = moveAll (movePairs o o') := by unfold listScript; simp only [hnl, hm]; rfl
      rw [hs, hsc]; exact move_heap hp h R o o' m hm ho'
  | kill o =>
    cases hm : w.mocks o with
    | none =>
      have hs : SameLists (w.step (.kill o)).1 w := by unfold step; simp only [hnl, hm]; exact ⟨rfl, rfl⟩
      have hsc : listScript w (.kill o) = [] := by unfold listScript; simp only [hnl, hm]; rfl
      rw [hsc]; exact rep_of_same R hs
    | some m =>
      have hs : (w.step (.kill o)).1 = (w.killMock o m).1 := by unfold step; simp only [hnl, hm]; rfl
      have hsc : listScript w (.kill o) = killScript m := by unfold listScript; simp only [hnl, hm]; rfl
      rw [hs, hsc]; exact kill_heap hp h R o m hm
  | killseq s =>
    have hs : SameLists (w.step (.killseq s)).1 w := by
      unfold step; simp only [hnl]
      cases w.seqs s <;> exact ⟨rfl, rfl⟩
    have hsc : listScript w (.killseq s) = [] := by unfold listScript; simp only [hnl]; rfl
    rw [hsc]; exact rep_of_same R hs
  | completed s =>
    have hs : SameLists (w.step (.completed s)).1 w := by unfold step; simp only [hnl]; exact ⟨rfl, rfl⟩
    have hsc : listScript w (.completed s) = [] := by unfold listScript; simp only [hnl]; rfl
    rw [hsc]; exact rep_of_same R hs
  | watched x =>
    have hs : SameLists (w.step (.watched x)).1 w := by unfold step; simp only [hnl]; exact ⟨rfl, rfl⟩
    have hsc : listScript w (.watched x) = [] := by unfold listScript; simp only [hnl]; rfl
    rw [hsc]; exact rep_of_same R hs
  | copyw x y =>
    have hs : SameLists (w.step (.copyw x y)).1 w := by unfold step; simp only [hnl]; exact ⟨rfl, rfl⟩
    have hsc : listScript w (.copyw x y) = [] := by unfold listScript; simp only [hnl]; rfl
    rw [hsc]; exact rep_of_same R hs
  | movew x y =>
    have hs : SameLists (w.step (.movew x y)).1 w := by unfold step; simp only [hnl]; exact ⟨rfl, rfl⟩
    have hsc : listScript w (.movew x y) = [] := by unfold listScript; simp only [hnl]; rfl
    rw [hsc]; exact rep_of_same R hs
  | assignw d s =>
    have hs : SameLists (w.step (.assignw d s)).1 w := by unfold step; simp only [hnl]; exact ⟨rfl, rfl⟩
    have hsc : listScript w (.assignw d s) = [] := by unfold listScript; simp only [hnl]; rfl
    rw [hsc]; exact rep_of_same R hs
  | killw x =>
    have hs : SameLists (w.step (.killw x)).1 w := by
      unfold step; simp only [hnl]
      cases w.watched x with
      | none => exact ⟨rfl, rfl⟩
      | some y =>
        simp only
        by_cases hmon : y.monitors.isEmpty = true
        · simp only [hmon, if_true]; exact ⟨rfl, rfl⟩
        · simp only [hmon, Bool.false_eq_true, if_false]
          exact (same_notify_fold y.monitors _).trans ⟨rfl, rfl⟩
    have hsc : listScript w (.killw x) = [] := by unfold listScript; simp only [hnl]; rfl
    rw [hsc]; exact rep_of_same R hs
  | monitor m x ss =>
    have hs : SameLists (w.step (.monitor m x ss)).1 w := by
      unfold step; simp only [hnl]
      cases w.watched x with
      | none => exact ⟨rfl, rfl⟩
      | some y => exact (same_register _ _ _).trans ⟨rfl, rfl⟩
    have hsc : listScript w (.monitor m x ss) = [] := by unfold listScript; simp only [hnl]; rfl
    rw [hsc]; exact rep_of_same R hs
  | msat m =>
    have hs : SameLists (w.step (.msat m)).1 w := by unfold step; simp only [hnl]; exact ⟨rfl, rfl⟩
    have hsc : listScript w (.msat m) = [] := by unfold listScript; simp only [hnl]; rfl
    rw [hsc]; exact rep_of_same R hs
  | msatd m =>
    have hs : SameLists (w.step (.msatd m)).1 w := by unfold step; simp only [hnl]; exact ⟨rfl, rfl⟩
    have hsc : listScript w (.msatd m) = [] := by unfold listScript; simp only [hnl]; rfl
    rw [hsc]; exact rep_of_same R hs
  | releasemon m =>
    have hs : SameLists (w.step (.releasemon m)).1 w := by
      unfold step; simp only [hnl]
      cases w.mons m with
      | none => exact ⟨rfl, rfl⟩
      | some x =>
        simp only
        refine SameLists.trans (b := (if x.died = true then w else
          match w.watched x.target with
          | some y => { w with watched := upd w.watched x.target { y with monitors := y.monitors.filter (· ≠ m) } }
          | none => w).retireOwn (.mon m) x.seqs) ⟨rfl, rfl⟩ ?_
        refine (same_retireOwn _ _ _).trans ?_
        split
        · exact ⟨rfl, rfl⟩
        · cases w.watched x.target <;> exact ⟨rfl, rfl⟩
    have hsc : listScript w (.releasemon m) = [] := by unfold listScript; simp only [hnl]; rfl
    rw [hsc]; exact rep_of_same R hs
  | tracer t =>
    have hs : SameLists (w.step (.tracer t)).1 w := by unfold step; simp only [hnl]; exact ⟨rfl, rfl⟩
    have hsc : listScript w (.tracer t) = [] := by unfold listScript; simp only [hnl]; rfl
    rw [hsc]; exact rep_of_same R hs
  | killtracer t =>
    have hs : SameLists (w.step (.killtracer t)).1 w := by unfold step; simp only [hnl]; exact ⟨rfl, rfl⟩
    have hsc : listScript w (.killtracer t) = [] := by unfold listScript; simp only [hnl]; rfl
    rw [hsc]; exact rep_of_same R hs
  | setreporter rr ok =>
    have hs : SameLists (w.step (.setreporter rr ok)).1 w := by unfold step; simp only [hnl]; exact ⟨rfl, rfl⟩
    have hsc : listScript w (.setreporter rr ok) = [] := by unfold listScript; simp only [hnl]; rfl
    rw [hsc]; exact rep_of_same R hs

/-! ### whole histories -/

/-- the World run of a history and, beside it, the heap executing the ring script of every step. -/
def heapRun : World × Heap Addr → List Tromp.Op → World × Heap Addr
  | s, [] => s
  | (w, hp), op :: ops => heapRun ((w.step op).1, (run (ringOf w, hp) (listScript w op)).2) ops

theorem heapRun_world (w : World) (hp : Heap Addr) (ops : List Tromp.Op) : (heapRun (w, hp) ops).1 = (w.run ops).1 := by
  induction ops generalizing w hp with
  | nil => rfl
  | cons op ops ih => simp only [heapRun, World.run]; exact ih _ _

theorem heapRun_rep {w : World} {hp : Heap Addr} (r : C14.Reachable w) (R : Rep hp (ringOf w)) (ops : List Tromp.Op) :
    Rep (heapRun (w, hp) ops).2 (ringOf (heapRun (w, hp) ops).1) := by
  induction ops generalizing w hp with
  | nil => exact R
  | cons op ops ih => exact ih (reachable_step r op) (step_heap hp r R op)

theorem ringOf_init : ringOf ({} : World) = (Abs.init : Abs Addr) := by
  unfold ringOf headsOf Abs.init
  congr 1
  funext a
  cases a <;> rfl

/-- **the heap refines the World, for every history**: starting from no objects and an untouched heap (every `list_elem`
    freshly constructed), after any sequence of World operations — creation, expectation, call, release, move and destruction
    in any order, legal or rejected — the pointers represent exactly the lists of the world reached. -/
theorem heap_refines_world (ops : List Tromp.Op) :
    Rep (heapRun ({}, Heap.init) ops).2 (ringOf (World.run {} ops).1) := by
  have R0 : Rep (Heap.init : Heap Addr) (ringOf ({} : World)) := by rw [ringOf_init]; exact rep_init
  have := heapRun_rep (w := {}) ⟨[], rfl⟩ R0 ops
  rwa [heapRun_world] at this

/-- what the refinement gives at every point of every history: walking `next` from a list object yields the World's list
    in order, walking `prev` yields it reversed, and an expectation is linked exactly if it is on one of the lists. -/
theorem lists_are_walkable (ops : List Tromp.Op) (o f : Nat) (m : Mock)
    (hm : (World.run {} ops).1.mocks o = some m) (ho : Addr.act o f ∈ headsOf (World.run {} ops).1) :
    toList (heapRun ({}, Heap.init) ops).2 (Addr.act o f) ((m.active f).length + 1) = (m.active f).map Addr.exp := by
  have R := heap_refines_world ops
  have hr := R.rings (Addr.act o f) ho
  have hl : (ringOf (World.run {} ops).1).lists (Addr.act o f) = (m.active f).map Addr.exp := by
    simp [ringOf, listsOf, hm]
  rw [hl] at hr
  have := toList_ring hr 0
  simpa using this

/-! ### what the refinement gives at every point of every history -/

/-- in a represented family nothing points to an address that is on no list (and is no list object). -/
theorem rep_unused_unreferenced {P : Type} [DecidableEq P] {h : Heap P} {a : Abs P} (R : Rep h a) (x : P) (nx : ¬ a.used x)
    (y : P) (hy : y ≠ x) : h.next y ≠ x ∧ h.prev y ≠ x := by
  by_cases u : a.used y
  · obtain ⟨hd, hm, m⟩ := u
    have ring := R.rings hd hm
    have hxr : x ∉ hd :: a.lists hd := fun mm => nx ⟨hd, hm, mm⟩
    exact ⟨fun e => hxr (by have := ring_next_mem ring y m; rwa [e] at this),
      fun e => hxr (by have := ring_prev_mem ring y m; rwa [e] at this)⟩
  · have s := R.free y u
    exact ⟨by rw [s.1]; exact hy, by rw [s.2]; exact hy⟩

/-- an expectation is on none of the World's lists. -/
def OffAllLists (w : World) (e : Nat) : Prop :=
  ∀ o m, w.mocks o = some m → ∀ f, f < nFns → e ∉ m.active f ∧ e ∉ m.saturated f

theorem not_used_of_offAllLists {w : World} {e : Nat} (h : OffAllLists w e) : ¬ (ringOf w).used (Addr.exp e) := by
  rintro ⟨hd, hhd, hy⟩
  obtain ⟨o, f, m, hm, ha⟩ := mem_headsOf hhd
  have hf : f < nFns := head_fn_lt hhd ha
  simp only [List.mem_cons] at hy
  rcases hy with hy | hy
  · rcases ha with rfl | rfl <;> cases hy
  · rcases ha with rfl | rfl
    · simp only [ringOf, listsOf, hm, List.mem_map] at hy
      obtain ⟨e', he', hee⟩ := hy
      cases hee; exact (h o m hm f hf).1 he'
    · simp only [ringOf, listsOf, hm, List.mem_map] at hy
      obtain ⟨e', he', hee⟩ := hy
      cases hee; exact (h o m hm f hf).2 he'

/-- **no dangling pointer, at any point of any history**: if an expectation is on none of the lists of the world a history
    reaches (it was released, its mock object was destroyed, it was never created, …), then in the heap that history produces
    no `next` or `prev` member of any other address holds its address, its own members point to itself, and `~list_elem()` on it
    writes nothing — so destroying it (in whatever order relative to everything else) can leave no pointer to freed memory in
    any list. -/
theorem no_dangling_after_history (ops : List Tromp.Op) (e : Nat) (hoff : OffAllLists (World.run {} ops).1 e) :
    let hp := (heapRun ({}, Heap.init) ops).2
    (∀ y, y ≠ Addr.exp e → hp.next y ≠ Addr.exp e ∧ hp.prev y ≠ Addr.exp e) ∧
    hp.next (Addr.exp e) = Addr.exp e ∧ hp.prev (Addr.exp e) = Addr.exp e ∧ unlink (Addr.exp e) hp = hp := by
  have R := heap_refines_world ops
  have nu := not_used_of_offAllLists hoff
  have s := R.free _ nu
  exact ⟨fun y hy => rep_unused_unreferenced R _ nu y hy, s.1, s.2, unlink_of_selfLinked s⟩

/-- **`is_linked()` is list membership, at any point of any history.** -/
theorem linked_iff_listed_after_history (ops : List Tromp.Op) (e : Nat) :
    isLinked (Addr.exp e) (heapRun ({}, Heap.init) ops).2 = true ↔ ¬ OffAllLists (World.run {} ops).1 e := by
  have R := heap_refines_world ops
  constructor
  · intro hl hoff
    have s := R.free _ (not_used_of_offAllLists hoff)
    simp [isLinked, s.1] at hl
  · intro hn
    apply Decidable.byContradiction
    intro hnl
    apply hn
    intro o m hm f hf
    have key : ∀ hd ∈ headsOf (World.run {} ops).1, Addr.exp e ∉ (ringOf (World.run {} ops).1).lists hd := by
      intro hd hhd hin
      have ring := R.rings hd hhd
      obtain ⟨l1, l2, eq⟩ := List.append_of_mem hin
      have p := ring.1; rw [eq] at p
      have p2 := ((path_append _ hd (Addr.exp e) hd l1 l2).1 p).2
      have nd := ring.2; rw [eq] at nd
      have self : (heapRun ({}, Heap.init) ops).2.next (Addr.exp e) = Addr.exp e := by
        simpa [isLinked] using hnl
      cases l2 with
      | nil => simp only [Path] at p2; rw [self] at p2; simp [p2.1] at nd
      | cons y l2 =>
        simp only [Path] at p2; rw [self] at p2; rw [← p2.1] at nd
        simp [List.nodup_append] at nd
    have hwf := C14.reachable_WF (w := (World.run {} ops).1) ⟨ops, rfl⟩
    have ho : o < (World.run {} ops).1.nextO := by
      apply Decidable.byContradiction; intro hge
      have := hwf.freshMock o (by omega); rw [hm] at this; cases this
    constructor
    · intro hin
      refine key (Addr.act o f) ?_ ?_
      · unfold headsOf
        exact List.mem_flatMap.mpr ⟨o, List.mem_range.mpr ho, by rw [hm]; exact (mem_headsOfMock_of hf).1⟩
      · simp only [ringOf, listsOf, hm]; exact List.mem_map.mpr ⟨e, hin, rfl⟩
    · intro hin
      refine key (Addr.sat o f) ?_ ?_
      · unfold headsOf
        exact List.mem_flatMap.mpr ⟨o, List.mem_range.mpr ho, by rw [hm]; exact (mem_headsOfMock_of hf).2⟩
      · simp only [ringOf, listsOf, hm]; exact List.mem_map.mpr ⟨e, hin, rfl⟩

/-! ### a concrete history (the theorems above are not about an empty set of states) -/

private def spec (fn hi : Nat) : ExpectSpec :=
  { obj := 0, fn := fn, params := [fun _ => true], conds := [], effects := [], ret := some (fun _ => .val 7),
    lo := 0, hi := hi, rt := false, seqs := [] }

/-- object 0; two expectations on function 1 (the second saturates after one call); one call; the object is moved to object 1. -/
private def hist : List Tromp.Op :=
  [.mock 0 true, .expect 0 (spec 1 2), .expect 1 (spec 1 1), .call 0 1 [5], .move 0 1]

private def hh : Heap Addr := (heapRun ({}, Heap.init) hist).2

-- after the history: the moved-to object's active list holds expectation 0, its saturated list expectation 1 …
example : hh.next (Addr.act 1 1) = Addr.exp 0 ∧ hh.next (Addr.exp 0) = Addr.act 1 1 ∧ hh.prev (Addr.act 1 1) = Addr.exp 0 := by decide
example : hh.next (Addr.sat 1 1) = Addr.exp 1 ∧ hh.next (Addr.exp 1) = Addr.sat 1 1 := by decide
-- … and the moved-from object's list objects are self-linked again
example : hh.next (Addr.act 0 1) = Addr.act 0 1 ∧ hh.prev (Addr.sat 0 1) = Addr.sat 0 1 := by decide
-- the scripts of the steps
example : listScript (World.run {} (hist.take 3)).1 (.call 0 1 [5]) =
    [Ring.Op.unlink (Addr.exp 1), Ring.Op.pushBack (Addr.sat 0 1) (Addr.exp 1)] := by decide

end Tromp.C14Ring
