/-
  Props/C19.lean — misuse fails to compile with the documented message; legal forms compile.
  Theorems over the tables REGENERATED from /repo (Gen/StaticAsserts.lean, Gen/Macros.lean): if a
  static_assert is removed, weakened or reworded in the source, the generated definitions change and
  these proofs no longer check.
-/
import TrompModel.Model.Clauses
import TrompModel.Gen.Macros

namespace Tromp.C19
open Tromp.Clauses Tromp.Gen

/-! ### macro namespace -/

def hasPrefix (s : String) : Bool := (s.toList.take 12) == "TROMPELOEIL_".toList

/-- **C19, TROMPELOEIL_LONG_MACROS.**  With `TROMPELOEIL_LONG_MACROS` defined the headers define no
    macro outside the `TROMPELOEIL_` prefix (table: `g++ -E -dD` of `#include <trompeloeil.hpp>` at
    C++14, C++17 and C++20, every `#define` attributed to a file under /repo/include). -/
theorem long_macros_clean : (longMacros_all.filter (fun s => !hasPrefix s)) = [] := by decide

/-- **Self-contained prefixed macros**: no `TROMPELOEIL_…` macro of the headers mentions a short alias
    (`TIMES`, `RETURN`, …) in its replacement list, so every documented statement still compiles when
    `TROMPELOEIL_LONG_MACROS` removes the aliases (table regenerated from the `#define`s of /repo). -/
theorem long_macro_bodies_self_contained : shortUses = [] := by decide


/-- **Every spelling of ALLOW_CALL injects `INFINITY_TIMES()`, every spelling of FORBID_CALL `TIMES(0)`** — the C++14
    form (`…_`) and both branches of the variadic form (`…_F`: no modifier argument, `…_T`: with modifiers), named
    and unnamed (table regenerated from the `#define`s of /repo).  All twelve macros are present. -/
theorem stmt_macros_inject_bounds :
    stmtTimes = [("TROMPELOEIL_ALLOW_CALL_", "inf"), ("TROMPELOEIL_ALLOW_CALL_F", "inf"), ("TROMPELOEIL_ALLOW_CALL_T", "inf"),
                 ("TROMPELOEIL_FORBID_CALL_", "0"), ("TROMPELOEIL_FORBID_CALL_F", "0"), ("TROMPELOEIL_FORBID_CALL_T", "0"),
                 ("TROMPELOEIL_NAMED_ALLOW_CALL_", "inf"), ("TROMPELOEIL_NAMED_ALLOW_CALL_F", "inf"), ("TROMPELOEIL_NAMED_ALLOW_CALL_T", "inf"),
                 ("TROMPELOEIL_NAMED_FORBID_CALL_", "0"), ("TROMPELOEIL_NAMED_FORBID_CALL_F", "0"), ("TROMPELOEIL_NAMED_FORBID_CALL_T", "0")] := by
  decide

/-! ### clause legality -/

/-- the order on type-states: every flag that is set stays set (the call limit aside). -/
def TS.le (a b : TS) : Prop :=
  (a.hasReturn = true → b.hasReturn = true) ∧ (a.hasCoReturn = true → b.hasCoReturn = true) ∧
  (a.throws = true → b.throws = true) ∧ (a.sideEffects = true → b.sideEffects = true) ∧
  (a.limitSet = true → b.limitSet = true) ∧ (a.seqSet = true → b.seqSet = true) ∧
  (a.limitSet = true → b.forbidden = a.forbidden)

theorem TS.le_refl (a : TS) : TS.le a a := ⟨id, id, id, id, id, id, fun _ => rfl⟩

theorem TS.le_trans {a b c : TS} (h1 : TS.le a b) (h2 : TS.le b c) : TS.le a c := by
  obtain ⟨a1, a2, a3, a4, a5, a6, a7⟩ := h1
  obtain ⟨b1, b2, b3, b4, b5, b6, b7⟩ := h2
  refine ⟨b1 ∘ a1, b2 ∘ a2, b3 ∘ a3, b4 ∘ a4, b5 ∘ a5, b6 ∘ a6, fun h => ?_⟩
  rw [b7 (a5 h), a7 h]

theorem step_ok (sig : Sig) (st st' : TS) (c : Clause) (h : step sig st c = .ok st') :
    firstFailing (guardsOf c) (env sig st c) = none ∧ st' = applyInj sig c st (injOf c) := by
  unfold step at h
  cases hf : firstFailing (guardsOf c) (env sig st c) with
  | some m => simp [hf] at h
  | none => simp [hf] at h; exact ⟨rfl, h.symm⟩

theorem firstFailing_none {gs : List Guard} {e : Env} (h : firstFailing gs e = none) :
    ∀ g ∈ gs, g.cond e = true := by
  intro g hg
  unfold firstFailing at h
  simp only [Option.map_eq_none_iff] at h
  have := List.find?_eq_none.mp h g hg
  simpa using this

/-- the guard with a given message holds whenever all guards of its table pass. -/
theorem guard_by_msg {gs : List Guard} {e : Env} (h : firstFailing gs e = none) (m : String) (g : Guard)
    (hg : gs.find? (fun g => g.msg == m) = some g) : g.cond e = true :=
  firstFailing_none h g (List.mem_of_find?_eq_some hg)

/-- a clause that is accepted only ever adds to the type-state; once a call limit is set the
    forbidden-ness is fixed (a second TIMES is rejected). -/
theorem step_mono (sig : Sig) (st st' : TS) (c : Clause) (h : step sig st c = .ok st') : TS.le st st' := by
  obtain ⟨hg, rfl⟩ := step_ok sig st st' c h
  cases c <;>
    simp only [injOf, inj_with, inj_sideeffect, inj_handle_return, inj_handle_throw, inj_times, inj_runtime_times,
      inj_in_sequence, inj_handle_co_return, inj_handle_co_throw, inj_handle_co_yield, applyInj, TS.le] <;>
    (try simp_all) <;>
    -- the two limit clauses: their guard `!limitSet` makes the last component vacuous
    (simp [firstFailing, guardsOf, guards_times, guards_runtime_times, env, List.find?] at hg
     intro hl
     simp_all)

theorem run_mono (sig : Sig) (cs : List Clause) : ∀ (st st' : TS), run sig st cs = .ok st' → TS.le st st' := by
  induction cs with
  | nil => intro st st' h; simp [run] at h; subst h; exact TS.le_refl _
  | cons c cs ih =>
    intro st st' h
    unfold run at h
    cases hs : step sig st c with
    | error m => simp [hs] at h
    | ok s1 =>
      simp only [hs] at h
      exact TS.le_trans (step_mono sig st s1 c hs) (ih s1 st' h)

/-- splitting an accepted clause list at any clause. -/
theorem run_split (sig : Sig) (pre : List Clause) (c : Clause) (post : List Clause) :
    ∀ (st st' : TS), run sig st (pre ++ c :: post) = .ok st' →
      ∃ s1 s2, run sig st pre = .ok s1 ∧ step sig s1 c = .ok s2 ∧ run sig s2 post = .ok st' := by
  induction pre with
  | nil =>
    intro st st' h
    simp only [List.nil_append, run] at h
    cases hs : step sig st c with
    | error m => simp [hs] at h
    | ok s2 => simp only [hs] at h; exact ⟨st, s2, rfl, hs, h⟩
  | cons p pre ih =>
    intro st st' h
    simp only [List.cons_append, run] at h
    cases hs : step sig st p with
    | error m => simp [hs] at h
    | ok s0 =>
      simp only [hs] at h
      obtain ⟨s1, s2, h1, h2, h3⟩ := ih s0 st' h
      exact ⟨s1, s2, by simp [run, hs, h1], h2, h3⟩

theorem accepts_ok (sig : Sig) (cs : List Clause) (h : isOk (accepts sig cs) = true) :
    ∃ st, run sig {} cs = .ok st ∧ firstFailing guards_final (env sig st .with_) = none := by
  unfold accepts at h
  cases hr : run sig {} cs with
  | error m => simp [hr, isOk] at h
  | ok st =>
    simp only [hr] at h
    cases hf : firstFailing guards_final (env sig st .with_) with
    | some m => simp [hf, isOk] at h
    | none => exact ⟨st, rfl, hf⟩

/-- two clauses of an accepted list, the second somewhere after the first: the second was checked in
    a type-state that includes everything the first injected. -/
theorem two_clauses (sig : Sig) (a : List Clause) (c1 : Clause) (b : List Clause) (c2 : Clause) (d : List Clause)
    (h : isOk (accepts sig (a ++ c1 :: (b ++ c2 :: d))) = true) :
    ∃ s1 s1' s2 s2', step sig s1 c1 = .ok s1' ∧ TS.le s1' s2 ∧ step sig s2 c2 = .ok s2' := by
  obtain ⟨st, hr, _⟩ := accepts_ok sig _ h
  obtain ⟨s1, s1', _, hs1, hrest⟩ := run_split sig a c1 (b ++ c2 :: d) {} st hr
  obtain ⟨s2, s2', hb, hs2, _⟩ := run_split sig b c2 d s1' st hrest
  exact ⟨s1, s1', s2, s2', hs1, run_mono sig b s1' s2 hb, hs2⟩

/-- **more than one TIMES / RT_TIMES** is rejected, whatever else the statement contains and wherever
    the two clauses stand. -/
theorem multiple_times_rejected (sig : Sig) (a b d : List Clause) (c1 c2 : Clause)
    (h1 : c1.isLimit = true) (h2 : c2.isLimit = true) :
    isOk (accepts sig (a ++ c1 :: (b ++ c2 :: d))) = false := by
  cases hok : isOk (accepts sig (a ++ c1 :: (b ++ c2 :: d))) with
  | false => rfl
  | true =>
    exfalso
    obtain ⟨s1, s1', s2, s2', hs1, hle, hs2⟩ := two_clauses sig a c1 b c2 d hok
    have hset : s1'.limitSet = true := by
      obtain ⟨_, rfl⟩ := step_ok sig s1 s1' c1 hs1
      cases c1 <;> simp_all [Clause.isLimit, injOf, inj_times, inj_runtime_times, applyInj]
    have h2set : s2.limitSet = true := hle.2.2.2.2.1 hset
    obtain ⟨hg, _⟩ := step_ok sig s2 s2' c2 hs2
    cases c2 <;> simp_all [Clause.isLimit, firstFailing, guardsOf, guards_times, guards_runtime_times, env, List.find?]

/-- **more than one IN_SEQUENCE** is rejected. -/
theorem multiple_in_sequence_rejected (sig : Sig) (a b d : List Clause) :
    isOk (accepts sig (a ++ .inSeq :: (b ++ .inSeq :: d))) = false := by
  cases hok : isOk (accepts sig (a ++ .inSeq :: (b ++ .inSeq :: d))) with
  | false => rfl
  | true =>
    exfalso
    obtain ⟨s1, s1', s2, s2', hs1, hle, hs2⟩ := two_clauses sig a _ b _ d hok
    have hset : s1'.seqSet = true := by
      obtain ⟨_, rfl⟩ := step_ok sig s1 s1' _ hs1
      simp [injOf, inj_in_sequence, applyInj]
    have h2set : s2.seqSet = true := hle.2.2.2.2.2.1 hset
    obtain ⟨hg, _⟩ := step_ok sig s2 s2' _ hs2
    simp_all [firstFailing, guardsOf, guards_in_sequence, env, List.find?]

/-- **RETURN repeated** on a non-void ordinary function is rejected. -/
theorem multiple_return_rejected (a b d : List Clause) (r1 r2 : RetAttr) :
    isOk (accepts .value (a ++ .ret r1 :: (b ++ .ret r2 :: d))) = false := by
  cases hok : isOk (accepts .value (a ++ .ret r1 :: (b ++ .ret r2 :: d))) with
  | false => rfl
  | true =>
    exfalso
    obtain ⟨s1, s1', s2, s2', hs1, hle, hs2⟩ := two_clauses .value a _ b _ d hok
    have hset : s1'.hasReturn = true := by
      obtain ⟨_, rfl⟩ := step_ok .value s1 s1' _ hs1
      simp [injOf, inj_handle_return, applyInj, Sig.isVoid]
    have h2set : s2.hasReturn = true := hle.1 hset
    obtain ⟨hg, _⟩ := step_ok .value s2 s2' _ hs2
    have := guard_by_msg hg "Multiple RETURN does not make sense" _ rfl
    simp [env, Sig.isCoro, h2set] at this

/-- **RETURN and THROW combined** (either order) on a non-void ordinary function is rejected. -/
theorem return_and_throw_rejected (a b d : List Clause) (r : RetAttr) :
    isOk (accepts .value (a ++ .ret r :: (b ++ .throw_ :: d))) = false ∧
    isOk (accepts .value (a ++ .throw_ :: (b ++ .ret r :: d))) = false := by
  constructor
  · cases hok : isOk (accepts .value (a ++ .ret r :: (b ++ .throw_ :: d))) with
    | false => rfl
    | true =>
      exfalso
      obtain ⟨s1, s1', s2, s2', hs1, hle, hs2⟩ := two_clauses .value a _ b _ d hok
      have hset : s1'.hasReturn = true := by
        obtain ⟨_, rfl⟩ := step_ok .value s1 s1' _ hs1
        simp [injOf, inj_handle_return, applyInj, Sig.isVoid]
      have h2set : s2.hasReturn = true := hle.1 hset
      obtain ⟨hg, _⟩ := step_ok .value s2 s2' _ hs2
      have := guard_by_msg hg "THROW and RETURN does not make sense" _ rfl
      simp [env, h2set] at this
  · cases hok : isOk (accepts .value (a ++ .throw_ :: (b ++ .ret r :: d))) with
    | false => rfl
    | true =>
      exfalso
      obtain ⟨s1, s1', s2, s2', hs1, hle, hs2⟩ := two_clauses .value a _ b _ d hok
      obtain ⟨hg1, hs1'⟩ := step_ok .value s1 s1' _ hs1
      have hset : s1'.throws = true := by
        subst hs1'; simp [injOf, inj_handle_throw, applyInj]
      have h2set : s2.throws = true := hle.2.2.1 hset
      obtain ⟨hg, _⟩ := step_ok .value s2 s2' _ hs2
      have g1 := guard_by_msg hg "THROW and RETURN does not make sense" _ rfl
      have g2 := guard_by_msg hg "RETURN for forbidden call does not make sense" _ rfl
      simp [env, Sig.isCoro, h2set] at g1 g2
      rw [g1] at g2; cases g2

/-- **RETURN on a void function** (whose expression can never be converted to `void`) is rejected. -/
theorem return_on_void_rejected (a d : List Clause) (r : RetAttr) (hfit : r.fits = false) :
    isOk (accepts .void_ (a ++ .ret r :: d)) = false := by
  cases hok : isOk (accepts .void_ (a ++ .ret r :: d)) with
  | false => rfl
  | true =>
    exfalso
    obtain ⟨st, hr, _⟩ := accepts_ok .void_ _ hok
    obtain ⟨s1, s2, _, hs, _⟩ := run_split .void_ a _ d {} st hr
    obtain ⟨hg, _⟩ := step_ok .void_ s1 s2 _ hs
    have := guard_by_msg hg "RETURN does not make sense for void-function" _ rfl
    simp [env, Sig.isCoro, Sig.isVoid, hfit] at this

/-- **inverted TIMES bounds** are rejected. -/
theorem inverted_times_rejected (sig : Sig) (a d : List Clause) (l h : Nat) (hinv : h < l) :
    isOk (accepts sig (a ++ .times l h :: d)) = false := by
  cases hok : isOk (accepts sig (a ++ .times l h :: d)) with
  | false => rfl
  | true =>
    exfalso
    obtain ⟨st, hr, _⟩ := accepts_ok sig _ hok
    obtain ⟨s1, s2, _, hs, _⟩ := run_split sig a _ d {} st hr
    obtain ⟨hg, _⟩ := step_ok sig s1 s2 _ hs
    have := guard_by_msg hg "In TIMES the first value must not exceed the second" _ rfl
    simp [env] at this
    omega

/-- **SIDE_EFFECT, THROW or IN_SEQUENCE on a forbidden call** (`TIMES(0)`) are rejected, in either order. -/
theorem forbidden_with_action_rejected (sig : Sig) (hs : sig.isCoro = false) (a b d : List Clause) (c : Clause)
    (l : Nat) (hc : c = .sideEffect ∨ c = .throw_ ∨ c = .inSeq) :
    isOk (accepts sig (a ++ .times l 0 :: (b ++ c :: d))) = false ∧
    isOk (accepts sig (a ++ c :: (b ++ .times l 0 :: d))) = false := by
  constructor
  · cases hok : isOk (accepts sig (a ++ .times l 0 :: (b ++ c :: d))) with
    | false => rfl
    | true =>
      exfalso
      obtain ⟨s1, s1', s2, s2', hs1, hle, hs2⟩ := two_clauses sig a _ b _ d hok
      obtain ⟨_, hs1'⟩ := step_ok sig s1 s1' _ hs1
      have hlim : s1'.limitSet = true ∧ s1'.forbidden = true := by
        subst hs1'; simp [injOf, inj_times, applyInj]
      have hf : s2.forbidden = true := by rw [hle.2.2.2.2.2.2 hlim.1]; exact hlim.2
      obtain ⟨hg, _⟩ := step_ok sig s2 s2' _ hs2
      rcases hc with rfl | rfl | rfl
      · have := guard_by_msg hg "SIDE_EFFECT for forbidden call does not make sense" _ rfl
        simp [env, hf] at this
      · have := guard_by_msg hg "THROW for forbidden call does not make sense" _ rfl
        simp [env, hf, hs] at this
      · have := guard_by_msg hg "IN_SEQUENCE for forbidden call does not make sense" _ rfl
        simp [env, hf] at this
  · cases hok : isOk (accepts sig (a ++ c :: (b ++ .times l 0 :: d))) with
    | false => rfl
    | true =>
      exfalso
      obtain ⟨s1, s1', s2, s2', hs1, hle, hs2⟩ := two_clauses sig a _ b _ d hok
      obtain ⟨hg1, hs1'⟩ := step_ok sig s1 s1' _ hs1
      obtain ⟨hg, _⟩ := step_ok sig s2 s2' _ hs2
      rcases hc with rfl | rfl | rfl
      · have h2 : s2.sideEffects = true := hle.2.2.2.1 (by subst hs1'; simp [injOf, inj_sideeffect, applyInj])
        have := guard_by_msg hg "SIDE_EFFECT and TIMES(0) does not make sense" _ rfl
        simp [env, h2] at this
      · have h2 : s2.throws = true := hle.2.2.1 (by subst hs1'; simp [injOf, inj_handle_throw, applyInj])
        have := guard_by_msg hg "THROW and TIMES(0) does not make sense" _ rfl
        simp [env, h2] at this
      · have h2 : s2.seqSet = true := hle.2.2.2.2.2.1 (by subst hs1'; simp [injOf, inj_in_sequence, applyInj])
        have := guard_by_msg hg "IN_SEQUENCE and TIMES(0) does not make sense" _ rfl
        simp [env, h2] at this

/-- **RETURN on a forbidden call** is rejected, in either order. -/
theorem forbidden_with_return_rejected (a b d : List Clause) (r : RetAttr) (l : Nat) :
    isOk (accepts .value (a ++ .times l 0 :: (b ++ .ret r :: d))) = false ∧
    isOk (accepts .value (a ++ .ret r :: (b ++ .times l 0 :: d))) = false := by
  constructor
  · cases hok : isOk (accepts .value (a ++ .times l 0 :: (b ++ .ret r :: d))) with
    | false => rfl
    | true =>
      exfalso
      obtain ⟨s1, s1', s2, s2', hs1, hle, hs2⟩ := two_clauses .value a _ b _ d hok
      obtain ⟨_, hs1'⟩ := step_ok .value s1 s1' _ hs1
      have hlim : s1'.limitSet = true ∧ s1'.forbidden = true := by
        subst hs1'; simp [injOf, inj_times, applyInj]
      have hf : s2.forbidden = true := by rw [hle.2.2.2.2.2.2 hlim.1]; exact hlim.2
      obtain ⟨hg, _⟩ := step_ok .value s2 s2' _ hs2
      have := guard_by_msg hg "RETURN for forbidden call does not make sense" _ rfl
      simp [env, Sig.isCoro, hf] at this
  · cases hok : isOk (accepts .value (a ++ .ret r :: (b ++ .times l 0 :: d))) with
    | false => rfl
    | true =>
      exfalso
      obtain ⟨s1, s1', s2, s2', hs1, hle, hs2⟩ := two_clauses .value a _ b _ d hok
      obtain ⟨_, hs1'⟩ := step_ok .value s1 s1' _ hs1
      obtain ⟨hg, _⟩ := step_ok .value s2 s2' _ hs2
      have h2 : s2.hasReturn = true := hle.1 (by subst hs1'; simp [injOf, inj_handle_return, applyInj, Sig.isVoid])
      have := guard_by_msg hg "RETURN and TIMES(0) does not make sense" _ rfl
      simp [env, h2] at this

/-- **coroutine clauses on an ordinary function** are rejected wherever they stand. -/
theorem co_clause_on_ordinary_rejected (sig : Sig) (hs : sig.isCoro = false) (a d : List Clause) (c : Clause)
    (hc : (∃ v f, c = .coReturn v f) ∨ c = .coThrow ∨ (∃ v f, c = .coYield v f)) :
    isOk (accepts sig (a ++ c :: d)) = false := by
  cases hok : isOk (accepts sig (a ++ c :: d)) with
  | false => rfl
  | true =>
    exfalso
    obtain ⟨st, hr, _⟩ := accepts_ok sig _ hok
    obtain ⟨s1, s2, hpre, hstep, _⟩ := run_split sig a _ d {} st hr
    obtain ⟨hg, _⟩ := step_ok sig s1 s2 _ hstep
    rcases hc with ⟨v, f, rfl⟩ | rfl | ⟨v, f, rfl⟩
    · -- CO_RETURN: either RETURN came first (then "cannot be combined") or "not a coroutine"
      have g1 := guard_by_msg hg "CO_RETURN and RETURN cannot be combined" _ rfl
      have g2 := guard_by_msg hg "CO_RETURN when return type is not a coroutine" _ rfl
      simp [env, hs] at g1 g2
      rw [g1] at g2; cases g2
    · have := guard_by_msg hg "Do not use CO_THROW from a normal function, use THROW" _ rfl
      simp [env, hs] at this
    · have := guard_by_msg hg "CO_YIELD when return type is not a coroutine" _ rfl
      simp [env, hs] at this

/-- **RETURN / THROW on a coroutine function** are rejected wherever they stand. -/
theorem ordinary_clause_on_coroutine_rejected (sig : Sig) (hs : sig.isCoro = true) (a d : List Clause) (c : Clause)
    (hc : (∃ r, c = .ret r) ∨ c = .throw_) : isOk (accepts sig (a ++ c :: d)) = false := by
  cases hok : isOk (accepts sig (a ++ c :: d)) with
  | false => rfl
  | true =>
    exfalso
    obtain ⟨st, hr, _⟩ := accepts_ok sig _ hok
    obtain ⟨s1, s2, _, hstep, _⟩ := run_split sig a _ d {} st hr
    obtain ⟨hg, _⟩ := step_ok sig s1 s2 _ hstep
    rcases hc with ⟨r, rfl⟩ | rfl
    · have := guard_by_msg hg "Do not use RETURN from a coroutine, use CO_RETURN" _ rfl
      simp [env, hs] at this
    · have := guard_by_msg hg "Do not use THROW from a coroutine, use CO_THROW" _ rfl
      simp [env, hs] at this

/-- clauses that neither return, throw nor forbid. -/
def Clause.neutral : Clause → Bool
  | .with_ | .sideEffect | .inSeq | .rtTimes => true
  | .times _ h => decide (0 < h)
  | _ => false

theorem neutral_keeps (sig : Sig) (cs : List Clause) (hn : ∀ c ∈ cs, Clause.neutral c = true) :
    ∀ (st st' : TS), run sig st cs = .ok st' →
      st.hasReturn = false → st.hasCoReturn = false → st.throws = false → st.forbidden = false →
      st'.hasReturn = false ∧ st'.hasCoReturn = false ∧ st'.throws = false ∧ st'.forbidden = false := by
  induction cs with
  | nil => intro st st' h a b c d; simp [run] at h; subst h; exact ⟨a, b, c, d⟩
  | cons c cs ih =>
    intro st st' h h1 h2 h3 h4
    unfold run at h
    cases hs : step sig st c with
    | error m => simp [hs] at h
    | ok s1 =>
      simp only [hs] at h
      obtain ⟨_, rfl⟩ := step_ok sig st s1 c hs
      have hc := hn c (by simp)
      apply ih (fun x hx => hn x (List.mem_cons_of_mem _ hx)) _ st' h <;>
        (cases c <;> simp [Clause.neutral] at hc <;>
          simp [injOf, inj_with, inj_sideeffect, inj_times, inj_runtime_times, inj_in_sequence, applyInj, h1, h2, h3, h4] <;>
          omega)

/-- **RETURN missing on a non-void function**: a statement without RETURN, THROW or TIMES(0) is
    rejected, whatever other clauses it has and in whatever order. -/
theorem missing_return_rejected (cs : List Clause) (hn : ∀ c ∈ cs, Clause.neutral c = true) :
    isOk (accepts .value cs) = false := by
  cases hok : isOk (accepts .value cs) with
  | false => rfl
  | true =>
    exfalso
    obtain ⟨st, hr, hf⟩ := accepts_ok .value cs hok
    obtain ⟨h1, h2, h3, h4⟩ := neutral_keeps .value cs hn {} st hr rfl rfl rfl rfl
    have := guard_by_msg hf "RETURN missing for non-void function" _ rfl
    simp [env, Sig.isCoro, Sig.isVoid, h1, h2, h3, h4] at this

/-! ### the documented legal forms compile (non-vacuity of the model: it does accept) -/
example : isOk (accepts .value [.ret {}]) = true := by decide
example : isOk (accepts .value [.with_, .sideEffect, .times 1 2, .inSeq, .ret {}]) = true := by decide
example : isOk (accepts .value [.ret {}, .inSeq, .sideEffect, .with_, .rtTimes]) = true := by decide
example : isOk (accepts .value [.throw_, .times 2 2]) = true := by decide
example : isOk (accepts .value [.times 0 0]) = true := by decide
example : isOk (accepts .void_ []) = true := by decide
example : isOk (accepts .void_ [.sideEffect, .throw_]) = true := by decide
example : isOk (accepts .coroValue [.coYield false true, .coYield false true, .coReturn false true]) = true := by decide
example : isOk (accepts .coroVoid [.sideEffect, .coReturn true true]) = true := by decide
example : accepts .value [.ret {}, .ret {}] = .error "Multiple RETURN does not make sense" := by rfl
example : accepts .value [] = .error "RETURN missing for non-void function" := by rfl
example : accepts .coroValue [] = .error "CO_RETURN missing for coroutine" := by rfl

end Tromp.C19
