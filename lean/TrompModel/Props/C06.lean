/-
  Props/C06.lean — is_completed() and sequence teardown reflect exactly the pending expectations.
-/
import TrompModel.Props.C05

namespace Tromp.C06
open Tromp World

/-- **C06, is_completed.**  The answer is `true` exactly when every handle still pending in the
    sequence has reached its lower bound (so also for an empty or fully retired sequence). -/
theorem completed_iff (w : World) (s : Nat) (h : w.seqAlive s = true) :
    ∃ b, w.step (.completed s) = (w, [.answer b]) ∧ (b = true ↔ ∀ o ∈ w.pendingOf s, w.ownerSat o = true) := by
  refine ⟨(w.pendingOf s).all w.ownerSat, ?_, by simp⟩
  simp [step, legal, h]

theorem completed_of_empty (w : World) (s : Nat) (h : w.seqAlive s = true) (he : w.pendingOf s = []) :
    w.step (.completed s) = (w, [.answer true]) := by
  simp [step, legal, h, he]

/-- **C06, teardown.**  Destroying a sequence object reports, once and non-fatally, exactly the
    handles still pending, in registration order — and nothing if none remain.  Afterwards the
    sequence is gone and nothing is pending in it. -/
theorem teardown_report (w : World) (s : Nat) (h : w.seqAlive s = true) :
    (w.step (.killseq s)).2 =
      (if w.pendingOf s = [] then [] else [Ev.report .nonfatal w.reporter (.seqTeardown s (w.pendingOf s))]) ∧
    (w.step (.killseq s)).1.seqAlive s = false ∧ (w.step (.killseq s)).1.pendingOf s = [] := by
  unfold seqAlive at h
  cases hs : w.seqs s with
  | none => simp [hs] at h
  | some x =>
    have hl : w.legal (.killseq s) = true := by simp [legal, seqAlive, hs]; simpa [hs] using h
    simp only [step, hl, hs, pendingOf, seqAlive, rep]
    cases hp : x.pending with
    | nil => simp
    | cons a l => simp

/-- handles of other sequences are untouched by a teardown. -/
theorem teardown_frame (w : World) (s s' : Nat) (h : w.seqAlive s = true) (hne : s' ≠ s) :
    (w.step (.killseq s)).1.pendingOf s' = w.pendingOf s' := by
  unfold seqAlive at h
  cases hs : w.seqs s with
  | none => simp [hs] at h
  | some x =>
    have hl : w.legal (.killseq s) = true := by simp [legal, seqAlive, hs]; simpa [hs] using h
    simp [step, hl, hs, pendingOf, upd, hne]

/-- **C06, an expectation whose lifetime ends leaves its sequences.**  (`hreg`: it is registered
    only in the sequences it names — clause 6 of the world invariant.) -/
theorem leaves_on_release (w : World) (e : Nat) (x : Exp) (hx : w.exps e = some x) (ha : x.alive = true)
    (hnd : x.seqs.Nodup) (hreg : ∀ s, Owner.exp e ∈ w.pendingOf s → s ∈ x.seqs) (s : Nat) :
    Owner.exp e ∉ (w.step (.release e)).1.pendingOf s := by
  have hl : w.legal (.release e) = true := by simp [legal, expAlive, hx, ha]
  simp only [step, hl, hx, releaseExp]
  have hpo : ∀ (w1 : World) (y : Exp), (w1.setExp e y).pendingOf s = w1.pendingOf s := by
    intro w1 y; simp [pendingOf]
  simp only [Bool.not_true, Bool.false_eq_true, if_false]
  rw [hpo]
  have hunl : (w.unlinkExp e x).pendingOf s = w.pendingOf s := by
    unfold unlinkExp; split
    · split <;> simp [pendingOf]
    · rfl
  by_cases hs : s ∈ x.seqs
  · unfold retireOwn
    rw [foldl_setSeqPending_pendingOf_mem _ x.seqs _ (by simp) hnd hs]
    simp
  · unfold retireOwn
    rw [foldl_setSeqPending_pendingOf_not_mem _ x.seqs _ hs, hunl]
    exact fun hin => hs (hreg s hin)

/-- **C06, an expectation that saturates leaves its sequences** and so neither blocks nor is
    listed for its successors. -/
theorem leaves_on_saturation (w : World) (o f e : Nat) (x : Exp) (m : Mock) (s : Nat)
    (hnd : x.seqs.Nodup) (hs : s ∈ x.seqs) (hsat : x.count + 1 = x.hi) :
    Owner.exp e ∉ (w.bookkeep o f e x m).pendingOf s := by
  rw [C05.forward_only w o f e x m s hnd hs]
  simp [hsat]

/-- a fulfilled destruction requirement leaves its sequences as well (after the F13 repair). -/
theorem leaves_on_death (w : World) (mid : Nat) (x : Mon) (hm : w.mons mid = some x)
    (hnd : x.seqs.Nodup) (s : Nat) (hs : s ∈ x.seqs) :
    Owner.mon mid ∉ (w.notify mid).1.pendingOf s := by
  simp only [notify, hm]
  unfold retireOwn
  rw [foldl_setSeqPending_pendingOf_mem _ x.seqs _ (by simp) hnd hs]
  simp

/-! ### non-vacuity -/
private def ex : World :=
  let spec (lo hi : Nat) (ss : List Nat) : ExpectSpec :=
    { obj := 0, fn := 1, params := [fun _ => true], conds := [], effects := [], ret := some (fun _ => .val 7),
      lo := lo, hi := hi, rt := true, seqs := ss }
  (({} : World).run [.mock 0 true, .seq 0, .expect 0 (spec 0 1 [0]), .expect 1 (spec 1 1 [0])]).1

example : (ex.step (.completed 0)).2 = [.answer false] := by decide
example : ((ex.run [.call 0 1 [1], .call 0 1 [1]]).1.step (.completed 0)).2 = [.answer true] := by decide
example : (ex.step (.killseq 0)).2 = [.report .nonfatal 0 (.seqTeardown 0 [.exp 0, .exp 1])] := by decide

end Tromp.C06
