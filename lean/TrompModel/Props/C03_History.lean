/-
  Props/C03_History.lean — C03 over whole histories (kept apart from Props/C03.lean only because of the import order:
  the induction over scripts needs the world invariant, which is proved after the single-step theorems).
-/
import TrompModel.Lemmas.History

namespace Tromp.C03
open Tromp World

/-- **C03, handled count.**  After *any* script from the empty world — any interleaving of creations, calls, queries,
    releases, kills, moves, sequence and lifetime operations — the counter of every expectation equals the number of
    OK reports that named it, i.e. the number of accepted calls it handled (C16: one OK report per accepted call,
    carrying the handler), and it never exceeds the upper bound: an expectation handles `min n H` of the `n` calls
    for which it is designated. -/
theorem count_eq_handled (ops : List Op) (e : Nat) (x : Exp) (hx : (World.run {} ops).1.exps e = some x) :
    x.count = okCount e (World.run {} ops).2.flatten ∧ x.count ≤ x.hi := by
  have h := World.cnt_eq_okCount ops {} [] WF.init (fun _ => rfl) e
  have hw : WF (World.run {} ops).1 := by
    have : ∀ (ops : List Op) {w : World}, WF w → WF (w.run ops).1 := by
      intro ops
      induction ops with
      | nil => intro w h; exact h
      | cons op ops ih => intro w h; simp only [World.run]; exact ih (h.step op)
    exact this ops WF.init
  refine ⟨?_, (hw.counters e x hx).1⟩
  simpa [World.cnt, hx] using h

example : okCount 0 [Ev.ok 0 0, .evalRet 0, .result (.val 7), .ok 0 1, .ok 2 0] = 2 := by decide

end Tromp.C03
