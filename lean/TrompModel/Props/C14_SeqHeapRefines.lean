/-
  Props/C14_SeqHeapRefines.lean — for EVERY history of World operations, the pointer heap produced by the library's ring operations
  represents the sequences' pending lists.

  The counterpart of Props/C14_HeapRefines.lean for the other family of intrusive lists: `seqScript w op` is the script of ring
  operations on the sequences' pending lists (`push_back` of a fresh handle per `IN_SEQUENCE` argument at `expect` / a monitor's
  creation; `retire_predecessors()` and, on saturation, `retire()` at an accepted call; `unlink` of every own handle at a release;
  for each monitor of a dying watched object `retire_predecessors()` then `retire()`, each in the world the previous one left;
  every pending handle detached when a sequence object dies), and **`seq_heap_refines_world`**: from the empty world and the
  untouched heap, after any history whose `IN_SEQUENCE` arguments name sequence ids below `n`, the heap represents
  `seqRingOf w n`.
-/
import TrompModel.Props.C14_SeqRing
import TrompModel.Props.C14_HeapRefines

namespace Tromp.C14Ring
open Tromp Tromp.Ring World

/-! ### operations that do not touch the pending lists -/

def SamePend (w' w : World) : Prop := ∀ s, w'.pendingOf s = w.pendingOf s

theorem SamePend.rfl' (w : World) : SamePend w w := fun _ => rfl
theorem SamePend.trans {a b c : World} (h1 : SamePend a b) (h2 : SamePend b c) : SamePend a c := fun s => (h1 s).trans (h2 s)
theorem samePend_of_seqs {w' w : World} (h : w'.seqs = w.seqs) : SamePend w' w := fun s => by unfold pendingOf; rw [h]

theorem seqRingOf_samePend {w' w : World} (h : SamePend w' w) (n : Nat) : seqRingOf w' n = seqRingOf w n := by
  refine abs_ext rfl (fun a => ?_)
  cases a with
  | pending s => show (w'.pendingOf s).map _ = (w.pendingOf s).map _; rw [h s]
  | handle _ _ => rfl

theorem markReported_seqs (w : World) (es : List Nat) : (w.markReported es).seqs = w.seqs := by
  unfold markReported
  induction es generalizing w with
  | nil => rfl
  | cons e es ih =>
    simp only [List.foldl_cons]
    rw [ih]
    cases w.exps e <;> rfl

theorem reportMismatch_seqs (w : World) (m : Mock) (f : Nat) (a : Args) : (w.reportMismatch m f a).1.seqs = w.seqs := by
  unfold reportMismatch
  simp only
  split
  · exact markReported_seqs w _
  · rfl

theorem decomStep_seqs (acc : World × List Ev) (e : Nat) : (decomStep acc e).1.seqs = acc.1.seqs := by
  unfold decomStep
  cases acc.1.exps e with
  | none => rfl
  | some x => simp only; split <;> rfl

theorem decommission_seqs (w : World) (es : List Nat) : (w.decommission es).1.seqs = w.seqs := by
  unfold decommission
  have : ∀ (acc : World × List Ev), (es.foldl decomStep acc).1.seqs = acc.1.seqs := by
    induction es with
    | nil => intro acc; rfl
    | cons e es ih => intro acc; simp only [List.foldl_cons]; rw [ih, decomStep_seqs]
  exact this _

theorem killMock_seqs (w : World) (o : Nat) (m : Mock) : (w.killMock o m).1.seqs = w.seqs := by
  unfold killMock
  have : ∀ (fns : List Nat) (acc : World × List Ev), (fns.foldl (fun (acc : World × List Ev) f =>
      let (w, evs) := acc
      let (w1, e1) := w.decommission (m.active f)
      let (w2, e2) := w1.decommission (m.saturated f)
      (w2, evs ++ e1 ++ e2)) acc).1.seqs = acc.1.seqs := by
    intro fns
    induction fns with
    | nil => intro acc; rfl
    | cons f fns ih =>
      intro acc
      simp only [List.foldl_cons]
      rw [ih]
      show ((acc.1.decommission (m.active f)).1.decommission (m.saturated f)).1.seqs = _
      rw [decommission_seqs, decommission_seqs]
  simp only [setMock]
  exact this _ _

/-! ### more about the three list operations -/

theorem setSeqPending_mons (w : World) (s : Nat) (f : List Owner → List Owner) : (w.setSeqPending s f).mons = w.mons := by
  unfold setSeqPending; cases w.seqs s <;> rfl

theorem foldl_setSeqPending_mons (w : World) (ss : List Nat) (f : List Owner → List Owner) :
    (ss.foldl (fun w s => w.setSeqPending s f) w).mons = w.mons := by
  induction ss generalizing w with
  | nil => rfl
  | cons s ss ih => simp only [List.foldl_cons]; rw [ih, setSeqPending_mons]

theorem retireOwn_nodup (w : World) (o : Owner) (ss : List Nat) (hnd : ∀ s, (w.pendingOf s).Nodup) :
    ∀ s, ((w.retireOwn o ss).pendingOf s).Nodup := by
  unfold retireOwn
  induction ss generalizing w with
  | nil => exact hnd
  | cons s ss ih => exact ih _ (setSeqPending_filter_nodup w s o hnd)

/-- skip the predecessors, then leave: the two scripts one after the other (what `run_actions` does on saturation and what
    `lifetime_monitor::notify` always does). -/
theorem skip_retire_heap {w : World} {n : Nat} {hp : Heap SAddr} (R : Rep hp (seqRingOf w n)) (o : Owner) (ss : List Nat)
    (hss : ss.Nodup) (hnd : ∀ s, (w.pendingOf s).Nodup) :
    Rep (run (seqRingOf w n, hp) (skipScript w o ss ++ retireScript o ss)).2
        (seqRingOf ((w.retirePredecessors o ss).retireOwn o ss) n) := by
  rw [C14Ring.run_append]
  obtain ⟨_, e1⟩ := skip_run w n hp o ss hss hnd
  have R1 := skip_heap R o ss hss hnd
  have hst : run (seqRingOf w n, hp) (skipScript w o ss) =
      (seqRingOf (w.retirePredecessors o ss) n, (run (seqRingOf w n, hp) (skipScript w o ss)).2) := by
    rw [← e1]
  rw [hst]
  exact retire_heap R1 o ss (retirePredecessors_nodup w _ _ hnd)

/-! ### the death of a watched object: one `notify` per monitor, each in the world the previous one left -/

/-- what the fold over the monitors needs of a world (weaker than `WFSeq`, and kept by `notify`). -/
def NotifyInv (w : World) : Prop := (∀ s, (w.pendingOf s).Nodup) ∧ (∀ m x, w.mons m = some x → x.seqs.Nodup)

theorem notifyInv_of_WFSeq {w : World} (h : WFSeq w) : NotifyInv w :=
  ⟨h.nodup, fun m x hx => by have := h.ownNodup (.mon m); simpa [ownerSeqs, hx] using this⟩

def notifyScript (w : World) (m : Nat) : List (Ring.Op SAddr) :=
  match w.mons m with
  | none => []
  | some x => skipScript w (.mon m) x.seqs ++ retireScript (.mon m) x.seqs

theorem notify_heap {w : World} {n : Nat} {hp : Heap SAddr} (R : Rep hp (seqRingOf w n)) (I : NotifyInv w) (m : Nat) :
    Rep (run (seqRingOf w n, hp) (notifyScript w m)).2 (seqRingOf (w.notify m).1 n) ∧ NotifyInv (w.notify m).1 := by
  unfold notifyScript notify
  cases hx : w.mons m with
  | none => exact ⟨R, I⟩
  | some x =>
    simp only
    set w1 : World := { w with mons := upd w.mons m { x with died := true } } with hw1
    have hp1 : SamePend w1 w := samePend_of_seqs rfl
    have hss : x.seqs.Nodup := I.2 m x hx
    have hnd1 : ∀ s, (w1.pendingOf s).Nodup := fun s => by rw [hp1 s]; exact I.1 s
    have R1 : Rep hp (seqRingOf w1 n) := by rw [seqRingOf_samePend hp1]; exact R
    have hsc : skipScript w (.mon m) x.seqs = skipScript w1 (.mon m) x.seqs :=
      (skipScript_congr w w1 _ _ (fun s _ => hp1 s)).symm
    rw [hsc, ← seqRingOf_samePend hp1 n]
    refine ⟨skip_retire_heap R1 (.mon m) x.seqs hss hnd1, ?_, ?_⟩
    · exact retireOwn_nodup _ _ _ (retirePredecessors_nodup _ _ _ hnd1)
    · intro m' x' hx'
      have hm : ((w1.retirePredecessors (.mon m) x.seqs).retireOwn (.mon m) x.seqs).mons = w1.mons := by
        unfold retireOwn retirePredecessors
        rw [foldl_setSeqPending_mons, foldl_setSeqPending_mons]
      rw [hm] at hx'
      by_cases e : m' = m
      · subst e
        have : w1.mons m' = some { x with died := true } := by simp [hw1, upd]
        rw [this] at hx'; cases hx'; exact hss
      · have : w1.mons m' = w.mons m' := by simp [hw1, upd, e]
        rw [this] at hx'; exact I.2 m' x' hx'

def killwScript : World → List Nat → List (Ring.Op SAddr)
  | _, [] => []
  | w, m :: ms => notifyScript w m ++ killwScript (w.notify m).1 ms

theorem killw_heap {w : World} {n : Nat} {hp : Heap SAddr} (R : Rep hp (seqRingOf w n)) (I : NotifyInv w) (ms : List Nat) (evs : List Ev) :
    Rep (run (seqRingOf w n, hp) (killwScript w ms)).2
        (seqRingOf (ms.foldl (fun (acc : World × List Ev) m => ((acc.1.notify m).1, acc.2 ++ (acc.1.notify m).2)) (w, evs)).1 n) := by
  induction ms generalizing w hp evs with
  | nil => exact R
  | cons m ms ih =>
    obtain ⟨R1, I1⟩ := notify_heap R I m
    simp only [killwScript, List.foldl_cons]
    rw [C14Ring.run_append]
    obtain ⟨lg, e1⟩ : legalRun (seqRingOf w n) (notifyScript w m) ∧
        (run (seqRingOf w n, hp) (notifyScript w m)).1 = seqRingOf (w.notify m).1 n := by
      unfold notifyScript notify
      cases hx : w.mons m with
      | none => exact ⟨trivial, rfl⟩
      | some x =>
        simp only
        set w1 : World := { w with mons := upd w.mons m { x with died := true } } with hw1
        have hp1 : SamePend w1 w := samePend_of_seqs rfl
        have hss : x.seqs.Nodup := I.2 m x hx
        have hnd1 : ∀ s, (w1.pendingOf s).Nodup := fun s => by rw [hp1 s]; exact I.1 s
        have hsc : skipScript w (.mon m) x.seqs = skipScript w1 (.mon m) x.seqs :=
          (skipScript_congr w w1 _ _ (fun s _ => hp1 s)).symm
        rw [hsc, ← seqRingOf_samePend hp1 n]
        obtain ⟨l1, e1⟩ := skip_run w1 n hp (.mon m) x.seqs hss hnd1
        obtain ⟨l2, e2⟩ := retire_run (w1.retirePredecessors (.mon m) x.seqs) n
          (run (seqRingOf w1 n, hp) (skipScript w1 (.mon m) x.seqs)).2 (.mon m) x.seqs (retirePredecessors_nodup _ _ _ hnd1)
        refine ⟨(legalRun_append _ hp _ _).2 ⟨l1, by rw [e1]; exact l2⟩, ?_⟩
        rw [C14Ring.run_append]
        have hst : run (seqRingOf w1 n, hp) (skipScript w1 (.mon m) x.seqs) =
            (seqRingOf (w1.retirePredecessors (.mon m) x.seqs) n, (run (seqRingOf w1 n, hp) (skipScript w1 (.mon m) x.seqs)).2) := by
          rw [← e1]
        rw [hst, e2]
    have hst : run (seqRingOf w n, hp) (notifyScript w m) =
        (seqRingOf (w.notify m).1 n, (run (seqRingOf w n, hp) (notifyScript w m)).2) := by rw [← e1]
    rw [hst]
    exact ih R1 I1 _

/-! ### a sequence object dies: every pending handle is detached -/

theorem foldl_filter_self (os acc : List Owner) (h : ∀ a ∈ acc, a ∈ os) :
    os.foldl (fun l o' => l.filter (· ≠ o')) acc = [] := by
  induction os generalizing acc with
  | nil => cases acc with
    | nil => rfl
    | cons a _ => exact absurd (h a (by simp)) (by simp)
  | cons o' os ih =>
    simp only [List.foldl_cons]
    apply ih
    intro a ha
    have ha' := List.mem_filter.mp ha
    have hne : a ≠ o' := by simpa using ha'.2
    rcases List.mem_cons.mp (h a ha'.1) with e | e
    · exact absurd e hne
    · exact e

/-- all handles pending in `s` unlinked: the heap represents the world in which that list is empty. -/
theorem clear_heap {w : World} {n : Nat} {hp : Heap SAddr} (R : Rep hp (seqRingOf w n)) (hnd : ∀ s, (w.pendingOf s).Nodup) (s : Nat)
    (w' : World) (hw' : ∀ s', w'.pendingOf s' = if s' = s then [] else w.pendingOf s') :
    Rep (run (seqRingOf w n, hp) (unlinkHandles s (w.pendingOf s))).2 (seqRingOf w' n) := by
  obtain ⟨lg, e⟩ := unlinkHandles_run w n hp s (w.pendingOf s) hnd
  have R' := rep_run R _ lg
  rw [e] at R'
  have : seqRingOf (w.setSeqPending s (fun l => (w.pendingOf s).foldl (fun l o' => l.filter (· ≠ o')) l)) n = seqRingOf w' n := by
    rw [seqRingOf_setSeqPending_congr w s (fun l => (w.pendingOf s).foldl (fun l o' => l.filter (· ≠ o')) l) (fun _ => []) n
      (foldl_filter_self _ _ (fun a ha => ha))]
    apply seqRingOf_samePend
    intro s'
    rw [hw']
    cases hx : w.seqs s with
    | none =>
      have : w.setSeqPending s (fun _ => []) = w := by unfold setSeqPending; rw [hx]
      rw [this]
      by_cases e : s' = s
      · subst e; simp [pendingOf, hx]
      · simp [e]
    | some x => rw [pendingOf_setSeqPending w s _ x hx]
  rw [← this]; exact R'

/-! ### the script of one operation -/

def callSeqScriptOf (w : World) (o f : Nat) (a : Args) : List (Ring.Op SAddr) :=
  match w.mocks o with
  | none => []
  | some m =>
    match (find (w.expMatches a) w.expOrder (m.active f)).1 with
    | none => []
    | some e =>
      match w.exps e with
      | none => []
      | some x =>
        if x.hi = 0 then [] else
        match w.order (.exp e) x.seqs with
        | none => []
        | some _ => callSeqScript w e x

def seqScript (w : World) (op : Tromp.Op) : List (Ring.Op SAddr) :=
  if !w.legal op then [] else
  match op with
  | .seq s => unlinkHandles s (w.pendingOf s)       -- a fresh id has nothing pending: empty in every reachable world
  | .expect e x =>
    if x.rt && decide (x.hi < x.lo) then [] else registerScript (.exp e) x.seqs
  | .call o f a => callSeqScriptOf w o f a
  | .release e => match w.exps e with | some x => retireScript (.exp e) x.seqs | none => []
  | .killseq s => unlinkHandles s (w.pendingOf s)
  | .killw x =>
    match w.watched x with
    | none => []
    | some y => killwScript { w with watched := upd w.watched x { alive := false, monitors := [] } } y.monitors
  | .monitor m x ss => match w.watched x with | some _ => registerScript (.mon m) ss | none => []
  | .releasemon m => match w.mons m with | some x => retireScript (.mon m) x.seqs | none => []
  | _ => []

/-- the sequence ids an operation registers handles in. -/
def registers : Tromp.Op → List Nat
  | .expect _ x => x.seqs
  | .monitor _ _ ss => ss
  | _ => []

theorem call_seq_heap {w : World} (r : C14.Reachable w) {n : Nat} {hp : Heap SAddr} (R : Rep hp (seqRingOf w n))
    (o f : Nat) (a : Args) :
    Rep (run (seqRingOf w n, hp) (callSeqScriptOf w o f a)).2 (seqRingOf (w.callFn o f a).1 n) := by
  have hs := C14.reachable_WFSeq r
  unfold callSeqScriptOf callFn
  cases hm : w.mocks o with
  | none => exact R
  | some m =>
    simp only
    cases hfind : (find (w.expMatches a) w.expOrder (m.active f)).1 with
    | none =>
      have : (find (w.expMatches a) w.expOrder (m.active f)) = (none, (find (w.expMatches a) w.expOrder (m.active f)).2) := by
        rw [← hfind]
      rw [this]
      simp only
      show Rep hp _
      rw [seqRingOf_samePend (samePend_of_seqs (reportMismatch_seqs w m f a))]; exact R
    | some e =>
      have : (find (w.expMatches a) w.expOrder (m.active f)) = (some e, (find (w.expMatches a) w.expOrder (m.active f)).2) := by
        rw [← hfind]
      rw [this]
      simp only
      cases hx : w.exps e with
      | none => exact R
      | some x =>
        simp only
        unfold runActions
        by_cases h0 : x.hi = 0
        · simp only [h0, if_true]
          exact R
        · simp only [h0, if_false]
          cases hord : w.order (.exp e) x.seqs with
          | none => exact R
          | some c =>
            simp only
            exact accepted_call_seq_heap hs R o f e x m hx

/-- **one World operation, on the heap of the sequence lists.** -/
theorem step_seq_heap {w : World} (r : C14.Reachable w) {n : Nat} {hp : Heap SAddr} (R : Rep hp (seqRingOf w n)) (op : Tromp.Op)
    (hb : ∀ s ∈ registers op, s < n) :
    Rep (run (seqRingOf w n, hp) (seqScript w op)).2 (seqRingOf (w.step op).1 n) := by
  have hs := C14.reachable_WFSeq r
  by_cases hl : w.legal op = true
  swap
  · have h1 : (w.step op).1 = w := by unfold step; simp [hl]
    have h2 : seqScript w op = [] := by unfold seqScript; simp [hl]
    rw [h1, h2]; exact R
  have hnl : (!w.legal op) = false := by simp [hl]
  have same : ∀ {w' : World}, SamePend w' w → Rep (run (seqRingOf w n, hp) []).2 (seqRingOf w' n) := by
    intro w' h; show Rep hp _; rw [seqRingOf_samePend h]; exact R
  cases op with
  | mock o mv =>
    have h1 : SamePend (w.step (.mock o mv)).1 w := by unfold step; simp only [hnl]; exact samePend_of_seqs rfl
    have h2 : seqScript w (.mock o mv) = [] := by unfold seqScript; simp only [hnl]; rfl
    rw [h2]; exact same h1
  | seq s =>
    have h1 : (w.step (.seq s)).1 = { w with seqs := upd w.seqs s {}, nextS := s + 1 } := by unfold step; simp only [hnl]; rfl
    have h2 : seqScript w (.seq s) = unlinkHandles s (w.pendingOf s) := by unfold seqScript; simp only [hnl]; rfl
    rw [h1, h2]
    refine clear_heap R hs.nodup s _ (fun s' => ?_)
    by_cases e : s' = s
    · subst e; simp [pendingOf, upd]
    · simp [pendingOf, upd, e]
  | expect e x =>
    by_cases hthrow : (x.rt && decide (x.hi < x.lo)) = true
    · have h1 : SamePend (w.step (.expect e x)).1 w := by
        unfold step; simp only [hnl, hthrow]; exact samePend_of_seqs rfl
      have h2 : seqScript w (.expect e x) = [] := by unfold seqScript; simp only [hnl, hthrow]; rfl
      rw [h2]; exact same h1
    · have hthrow' : (x.rt && decide (x.hi < x.lo)) = false := by simpa using hthrow
      have h2 : seqScript w (.expect e x) = registerScript (.exp e) x.seqs := by
        unfold seqScript; simp only [hnl, hthrow']; rfl
      rw [h2]
      exact expect_seq_heap hs R e x hl hthrow' hb
  | call o f a =>
    have h1 : (w.step (.call o f a)).1 = (w.callFn o f a).1 := by unfold step; simp only [hnl]; rfl
    have h2 : seqScript w (.call o f a) = callSeqScriptOf w o f a := by unfold seqScript; simp only [hnl]; rfl
    rw [h1, h2]; exact call_seq_heap r R o f a
  | sat e =>
    have h1 : SamePend (w.step (.sat e)).1 w := by unfold step; simp only [hnl]; exact SamePend.rfl' w
    have h2 : seqScript w (.sat e) = [] := by unfold seqScript; simp only [hnl]; rfl
    rw [h2]; exact same h1
  | satd e =>
    have h1 : SamePend (w.step (.satd e)).1 w := by unfold step; simp only [hnl]; exact SamePend.rfl' w
    have h2 : seqScript w (.satd e) = [] := by unfold seqScript; simp only [hnl]; rfl
    rw [h2]; exact same h1
  | release e =>
    cases hx : w.exps e with
    | none =>
      have h1 : SamePend (w.step (.release e)).1 w := by unfold step; simp only [hnl, hx]; exact SamePend.rfl' w
      have h2 : seqScript w (.release e) = [] := by unfold seqScript; simp only [hnl, hx]; rfl
      rw [h2]; exact same h1
    | some x =>
      have h1 : (w.step (.release e)).1 = (w.releaseExp e x).1 := by unfold step; simp only [hnl, hx]; rfl
      have h2 : seqScript w (.release e) = retireScript (.exp e) x.seqs := by unfold seqScript; simp only [hnl, hx]; rfl
      rw [h1, h2]; exact release_seq_heap hs R e x
  | move o o' =>
    have h1 : SamePend (w.step (.move o o')).1 w := by
      unfold step; simp only [hnl]
      cases w.mocks o with
      | none => exact SamePend.rfl' w
      | some m => exact samePend_of_seqs rfl
    have h2 : seqScript w (.move o o') = [] := by unfold seqScript; simp only [hnl]; rfl
    rw [h2]; exact same h1
  | kill o =>
    have h1 : SamePend (w.step (.kill o)).1 w := by
      unfold step; simp only [hnl]
      cases hm : w.mocks o with
      | none => exact SamePend.rfl' w
      | some m => exact samePend_of_seqs (killMock_seqs w o m)
    have h2 : seqScript w (.kill o) = [] := by unfold seqScript; simp only [hnl]; rfl
    rw [h2]; exact same h1
  | killseq s =>
    have h2 : seqScript w (.killseq s) = unlinkHandles s (w.pendingOf s) := by unfold seqScript; simp only [hnl]; rfl
    rw [h2]
    cases hx : w.seqs s with
    | none =>
      exfalso
      simp only [legal, seqAlive, hx] at hl; cases hl
    | some x =>
      have h1 : (w.step (.killseq s)).1 = { w with seqs := upd w.seqs s { alive := false, pending := [] } } := by
        unfold step; simp only [hnl, hx]; rfl
      rw [h1]
      refine clear_heap R hs.nodup s _ (fun s' => ?_)
      by_cases e : s' = s
      · subst e; simp [pendingOf, upd]
      · simp [pendingOf, upd, e]
  | completed s =>
    have h1 : SamePend (w.step (.completed s)).1 w := by unfold step; simp only [hnl]; exact SamePend.rfl' w
    have h2 : seqScript w (.completed s) = [] := by unfold seqScript; simp only [hnl]; rfl
    rw [h2]; exact same h1
  | watched x =>
    have h1 : SamePend (w.step (.watched x)).1 w := by unfold step; simp only [hnl]; exact samePend_of_seqs rfl
    have h2 : seqScript w (.watched x) = [] := by unfold seqScript; simp only [hnl]; rfl
    rw [h2]; exact same h1
  | copyw x y =>
    have h1 : SamePend (w.step (.copyw x y)).1 w := by unfold step; simp only [hnl]; exact samePend_of_seqs rfl
    have h2 : seqScript w (.copyw x y) = [] := by unfold seqScript; simp only [hnl]; rfl
    rw [h2]; exact same h1
  | movew x y =>
    have h1 : SamePend (w.step (.movew x y)).1 w := by unfold step; simp only [hnl]; exact samePend_of_seqs rfl
    have h2 : seqScript w (.movew x y) = [] := by unfold seqScript; simp only [hnl]; rfl
    rw [h2]; exact same h1
  | assignw d s =>
    have h1 : SamePend (w.step (.assignw d s)).1 w := by unfold step; simp only [hnl]; exact SamePend.rfl' w
    have h2 : seqScript w (.assignw d s) = [] := by unfold seqScript; simp only [hnl]; rfl
    rw [h2]; exact same h1
  | killw x =>
    cases hy : w.watched x with
    | none =>
      have h1 : SamePend (w.step (.killw x)).1 w := by unfold step; simp only [hnl, hy]; exact SamePend.rfl' w
      have h2 : seqScript w (.killw x) = [] := by unfold seqScript; simp only [hnl, hy]; rfl
      rw [h2]; exact same h1
    | some y =>
      set w0 : World := { w with watched := upd w.watched x { alive := false, monitors := [] } } with hw0
      have h2 : seqScript w (.killw x) = killwScript w0 y.monitors := by unfold seqScript; simp only [hnl, hy]; rfl
      rw [h2]
      have hp0 : SamePend w0 w := samePend_of_seqs rfl
      have R0 : Rep hp (seqRingOf w0 n) := by rw [seqRingOf_samePend hp0]; exact R
      have I0 : NotifyInv w0 := by
        obtain ⟨a, b⟩ := notifyInv_of_WFSeq hs
        exact ⟨fun s => by rw [hp0 s]; exact a s, fun m xx hxx => b m xx hxx⟩
      rw [← seqRingOf_samePend hp0 n]
      by_cases hmon : y.monitors.isEmpty = true
      · have h1 : (w.step (.killw x)).1 = w0 := by unfold step; simp only [hnl, hy, hmon, if_true]; rfl
        have hnil : y.monitors = [] := by simpa using hmon
        rw [h1, hnil]
        exact R0
      · have h1 : (w.step (.killw x)).1 =
            (y.monitors.foldl (fun (acc : World × List Ev) m => ((acc.1.notify m).1, acc.2 ++ (acc.1.notify m).2)) (w0, [])).1 := by
          unfold step; simp only [hnl, hy, hmon, Bool.false_eq_true, if_false]; rfl
        rw [h1]
        exact killw_heap R0 I0 y.monitors []
  | monitor m x ss =>
    cases hy : w.watched x with
    | none =>
      have h1 : SamePend (w.step (.monitor m x ss)).1 w := by unfold step; simp only [hnl, hy]; exact SamePend.rfl' w
      have h2 : seqScript w (.monitor m x ss) = [] := by unfold seqScript; simp only [hnl, hy]; rfl
      rw [h2]; exact same h1
    | some y =>
      have h2 : seqScript w (.monitor m x ss) = registerScript (.mon m) ss := by unfold seqScript; simp only [hnl, hy]; rfl
      set w1 : World := { w with nextM := m + 1, mons := upd w.mons m { target := x, seqs := ss },
                                 watched := upd w.watched x { y with monitors := m :: y.monitors } } with hw1
      have h1 : (w.step (.monitor m x ss)).1 = w1.register (.mon m) ss := by unfold step; simp only [hnl, hy]; rfl
      rw [h1, h2]
      have hp1 : SamePend w1 w := samePend_of_seqs rfl
      have R1 : Rep hp (seqRingOf w1 n) := by rw [seqRingOf_samePend hp1]; exact R
      simp only [legal, Bool.and_eq_true, beq_iff_eq, List.all_eq_true] at hl
      obtain ⟨⟨⟨hm, _⟩, hall⟩, hnd⟩ := hl
      have hnd' : ss.Nodup := by simpa using hnd
      have hfreshM : w.mons m = none := hs.freshM m (by omega)
      rw [← seqRingOf_samePend hp1 n]
      refine register_heap R1 (.mon m) ss hnd' (fun s hsm => ⟨hb s hsm, ?_, ?_⟩)
      · have := hall s hsm
        unfold seqAlive at this
        show (w.seqs s).isSome
        cases hx : w.seqs s with
        | none => rw [hx] at this; cases this
        | some _ => rfl
      · rw [hp1 s]
        intro hin
        have := (hs.pend s _ hin).1
        simp [ownerAlive, monAlive, hfreshM] at this
  | msat m =>
    have h1 : SamePend (w.step (.msat m)).1 w := by unfold step; simp only [hnl]; exact SamePend.rfl' w
    have h2 : seqScript w (.msat m) = [] := by unfold seqScript; simp only [hnl]; rfl
    rw [h2]; exact same h1
  | msatd m =>
    have h1 : SamePend (w.step (.msatd m)).1 w := by unfold step; simp only [hnl]; exact SamePend.rfl' w
    have h2 : seqScript w (.msatd m) = [] := by unfold seqScript; simp only [hnl]; rfl
    rw [h2]; exact same h1
  | releasemon m =>
    cases hx : w.mons m with
    | none =>
      have h1 : SamePend (w.step (.releasemon m)).1 w := by unfold step; simp only [hnl, hx]; exact SamePend.rfl' w
      have h2 : seqScript w (.releasemon m) = [] := by unfold seqScript; simp only [hnl, hx]; rfl
      rw [h2]; exact same h1
    | some x =>
      have h2 : seqScript w (.releasemon m) = retireScript (.mon m) x.seqs := by unfold seqScript; simp only [hnl, hx]; rfl
      rw [h2]
      set w1 : World := (if x.died = true then w else
          match w.watched x.target with
          | some y => { w with watched := upd w.watched x.target { y with monitors := y.monitors.filter (· ≠ m) } }
          | none => w) with hw1
      have hp1 : SamePend w1 w := by
        rw [hw1]; split
        · exact SamePend.rfl' w
        · cases w.watched x.target <;> first | exact SamePend.rfl' w | exact samePend_of_seqs rfl
      have h1 : SamePend (w.step (.releasemon m)).1 (w1.retireOwn (.mon m) x.seqs) := by
        unfold step; simp only [hnl, hx]; exact samePend_of_seqs rfl
      rw [seqRingOf_samePend h1]
      have R1 : Rep hp (seqRingOf w1 n) := by rw [seqRingOf_samePend hp1]; exact R
      rw [← seqRingOf_samePend hp1 n]
      exact retire_heap R1 (.mon m) x.seqs (fun s => by rw [hp1 s]; exact hs.nodup s)
  | tracer t =>
    have h1 : SamePend (w.step (.tracer t)).1 w := by unfold step; simp only [hnl]; exact samePend_of_seqs rfl
    have h2 : seqScript w (.tracer t) = [] := by unfold seqScript; simp only [hnl]; rfl
    rw [h2]; exact same h1
  | killtracer t =>
    have h1 : SamePend (w.step (.killtracer t)).1 w := by unfold step; simp only [hnl]; exact samePend_of_seqs rfl
    have h2 : seqScript w (.killtracer t) = [] := by unfold seqScript; simp only [hnl]; rfl
    rw [h2]; exact same h1
  | setreporter rr ok =>
    have h1 : SamePend (w.step (.setreporter rr ok)).1 w := by unfold step; simp only [hnl]; exact samePend_of_seqs rfl
    have h2 : seqScript w (.setreporter rr ok) = [] := by unfold seqScript; simp only [hnl]; rfl
    rw [h2]; exact same h1

/-! ### whole histories -/

def seqHeapRun (n : Nat) : World × Heap SAddr → List Tromp.Op → World × Heap SAddr
  | s, [] => s
  | (w, hp), op :: ops => seqHeapRun n ((w.step op).1, (run (seqRingOf w n, hp) (seqScript w op)).2) ops

theorem seqHeapRun_world (n : Nat) (w : World) (hp : Heap SAddr) (ops : List Tromp.Op) :
    (seqHeapRun n (w, hp) ops).1 = (w.run ops).1 := by
  induction ops generalizing w hp with
  | nil => rfl
  | cons op ops ih => simp only [seqHeapRun, World.run]; exact ih _ _

theorem seqHeapRun_rep {n : Nat} {w : World} {hp : Heap SAddr} (r : C14.Reachable w) (R : Rep hp (seqRingOf w n)) (ops : List Tromp.Op)
    (hb : ∀ op ∈ ops, ∀ s ∈ registers op, s < n) :
    Rep (seqHeapRun n (w, hp) ops).2 (seqRingOf (seqHeapRun n (w, hp) ops).1 n) := by
  induction ops generalizing w hp with
  | nil => exact R
  | cons op ops ih =>
    exact ih (reachable_step r op) (step_seq_heap r R op (hb op (by simp))) (fun op' h => hb op' (by simp [h]))

/-- **the heap refines the World's sequence lists, for every history** whose `IN_SEQUENCE` arguments stay below `n`. -/
theorem seq_heap_refines_world (n : Nat) (ops : List Tromp.Op) (hb : ∀ op ∈ ops, ∀ s ∈ registers op, s < n) :
    Rep (seqHeapRun n ({}, Heap.init) ops).2 (seqRingOf (World.run {} ops).1 n) := by
  have := seqHeapRun_rep (n := n) (w := {}) ⟨[], rfl⟩ (seq_heap_init n) ops hb
  rwa [seqHeapRun_world] at this

/-- what `for (auto& e : matchers)` sees — in `sequence_type::is_completed`, `cost`, `retire_until`, `validate_match`, the
    destructor — at any point of any history: walking `next` from the list object of sequence `s` yields the handles of the World's
    pending list of `s`, in registration order; walking `prev` yields them reversed. -/
theorem pending_walkable (n : Nat) (ops : List Tromp.Op) (hb : ∀ op ∈ ops, ∀ s ∈ registers op, s < n) (s : Nat) (hs : s < n) :
    let hp := (seqHeapRun n ({}, Heap.init) ops).2
    let l := ((World.run {} ops).1.pendingOf s).map (fun o => SAddr.handle o s)
    toList hp (SAddr.pending s) (l.length + 1) = l ∧ toListBack hp (SAddr.pending s) (l.length + 1) = l.reverse := by
  have R := seq_heap_refines_world n ops hb
  have hr := R.rings (SAddr.pending s) (pending_mem_heads _ hs)
  have h1 := toList_ring hr 0
  have h2 := toListBack_ring hr 0
  exact ⟨by simpa [seqRingOf] using h1, by simpa [seqRingOf] using h2⟩

end Tromp.C14Ring
