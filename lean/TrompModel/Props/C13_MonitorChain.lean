/-
  Props/C13_MonitorChain.lean — the chains of destruction requirements (`trompeloeil_lifetime_monitor` → `older_monitor` → …),
  one per watched object, as pointers, for every history.

  `Lemmas/Chain.lean` (`FamRep`) has the family version of the singly linked chain: every object's chain represented, no node on
  two chains; `push`, the unlink-this loop and `leak()` each keep it.  Here the World is tied to it: `monScript w op` is the
  script of a World operation — `push` for a new requirement, the unlink-this loop when a requirement ends while its object is
  alive, `clear` when the object dies, nothing otherwise (`step_monitors`: no other operation changes any object's chain) — and
  **`monitor_chains_refine_world`**: after any history, for every watched object the `older_monitor` pointers from its head spell
  exactly the World's list of live requirements on it, newest first; so the walk in `~deathwatched` tells exactly those
  (`death_walk_visits_requirements`).
-/
import TrompModel.Lemmas.Chain
import TrompModel.Lemmas.InvChain
import TrompModel.Props.C14

namespace Tromp.C13Chain
open Tromp World

def monitorsOf (w : World) (x : Nat) : List Nat := match w.watched x with | some y => y.monitors | none => []

inductive FOp
  | push (x m : Nat)
  | unlinkThis (x m : Nat)
  | clear (x : Nat)

def famAbs (lists : Nat → List Nat) : FOp → (Nat → List Nat)
  | .push x m => fun y => if y = x then m :: lists x else lists y
  | .unlinkThis x m => fun y => if y = x then (lists x).erase m else lists y
  | .clear x => fun y => if y = x then [] else lists y

def famExec (lists : Nat → List Nat) (F : Chain.Fam) : FOp → Chain.Fam
  | .push x m => F.put x (Chain.push m (F.proj x))
  | .unlinkThis x m => F.put x (Chain.unlinkThis m ((lists x).length + 1) (F.proj x))
  | .clear x => F.put x ⟨none, F.next⟩

def famLegal (lists : Nat → List Nat) : FOp → Prop
  | .push _ m => ∀ y, m ∉ lists y
  | _ => True

theorem famRep_step {F : Chain.Fam} {lists : Nat → List Nat} (R : Chain.FamRep F lists) (op : FOp) (lg : famLegal lists op) :
    Chain.FamRep (famExec lists F op) (famAbs lists op) := by
  cases op with
  | push x m => exact Chain.famRep_push R x m lg
  | unlinkThis x m => exact Chain.famRep_unlinkThis R x m
  | clear x => exact Chain.famRep_clear R x

/-- at most one family operation per World operation. -/
def monScript (w : World) (op : Tromp.Op) : Option FOp :=
  if !w.legal op then none else
  match op with
  | .monitor m x _ => match w.watched x with | some _ => some (.push x m) | none => none
  | .releasemon m =>
    match w.mons m with
    | none => none
    | some mon => if mon.died then none else (match w.watched mon.target with | some _ => some (.unlinkThis mon.target m) | none => none)
  | .killw x => match w.watched x with | some _ => some (.clear x) | none => none
  | _ => none

def applyAbs (lists : Nat → List Nat) : Option FOp → (Nat → List Nat)
  | none => lists
  | some op => famAbs lists op

theorem monitorsOf_congr {w w' : World} (h : w'.watched = w.watched) : monitorsOf w' = monitorsOf w := by
  funext x; unfold monitorsOf; rw [h]

/-- what a World step does to the requirement chains: exactly the abstract effect of its script, which is legal. -/
theorem step_monitors {w : World} (h : WFChain w) (op : Tromp.Op) :
    monitorsOf (w.step op).1 = applyAbs (monitorsOf w) (monScript w op) ∧
      (∀ fop, monScript w op = some fop → famLegal (monitorsOf w) fop) := by
  unfold World.step monScript
  cases hl : w.legal op with
  | false => simp only [Bool.not_false, if_true]; exact ⟨rfl, fun _ h => by cases h⟩
  | true =>
  simp only [Bool.not_true, Bool.false_eq_true, if_false]
  have same : ∀ {w' : World}, MW w w' → monitorsOf w' = applyAbs (monitorsOf w) none ∧
      (∀ fop, (none : Option FOp) = some fop → famLegal (monitorsOf w) fop) :=
    fun r => ⟨monitorsOf_congr r.2.1, fun _ h => by cases h⟩
  have fresh : ∀ x, w.nextW ≤ x → ∀ (y0 : Watched), y0.monitors = [] →
      monitorsOf ({ w with watched := upd w.watched x y0, nextW := x + 1 } : World) = monitorsOf w := by
    intro x hx y0 hy0
    funext z
    unfold monitorsOf
    by_cases e : z = x
    · subst e; simp [upd, h.freshW z hx, hy0]
    · simp [upd, e]
  cases op with
  | mock o mv => simp only []; exact same ⟨rfl, rfl, rfl, rfl, rfl, rfl⟩
  | seq s => simp only []; exact same ⟨rfl, rfl, rfl, rfl, rfl, rfl⟩
  | expect e x =>
    simp only []
    split
    · exact same ⟨rfl, rfl, rfl, rfl, rfl, rfl⟩
    · cases w.mocks x.obj with
      | none => exact same (MW.refl w)
      | some m =>
        simp only []
        refine same (MW.trans (MW.trans (MW.trans ?_ (MW.register _ _ _)) (MW.setExp _ _ _)) (MW.setMock _ _ _))
        exact ⟨rfl, rfl, rfl, rfl, rfl, rfl⟩
  | call o f a => simp only []; exact same (MW.callFn w o f a)
  | sat e => exact same (MW.refl w)
  | satd e => exact same (MW.refl w)
  | release e =>
    simp only []
    cases w.exps e with
    | none => exact same (MW.refl w)
    | some x => exact same (MW.releaseExp w e x)
  | move o o' =>
    simp only []
    cases w.mocks o with
    | none => exact same (MW.refl w)
    | some m => exact same (MW.moveMock w o o' m)
  | kill o =>
    simp only []
    cases w.mocks o with
    | none => exact same (MW.refl w)
    | some m => exact same (MW.killMock w o m)
  | killseq s =>
    simp only []
    cases w.seqs s with
    | none => exact same (MW.refl w)
    | some x => exact same ⟨rfl, rfl, rfl, rfl, rfl, rfl⟩
  | completed s => exact same (MW.refl w)
  | watched x =>
    simp only [World.legal, beq_iff_eq] at hl
    simp only []
    exact ⟨fresh x (by omega) {} rfl, fun _ h => by cases h⟩
  | copyw x y =>
    simp only [World.legal, Bool.and_eq_true, beq_iff_eq] at hl
    simp only []
    exact ⟨fresh y (by omega) {} rfl, fun _ h => by cases h⟩
  | movew x y =>
    simp only [World.legal, Bool.and_eq_true, beq_iff_eq] at hl
    simp only []
    exact ⟨fresh y (by omega) {} rfl, fun _ h => by cases h⟩
  | assignw d s => exact same (MW.refl w)
  | killw x =>
    simp only []
    cases hy : w.watched x with
    | none => exact same (MW.refl w)
    | some y =>
      simp only []
      refine ⟨?_, fun fop hf => by cases hf; trivial⟩
      have hcl : monitorsOf ({ w with watched := upd w.watched x { alive := false, monitors := [] } } : World) =
          famAbs (monitorsOf w) (.clear x) := by
        funext z
        unfold monitorsOf famAbs
        by_cases e : z = x
        · subst e; simp [upd]
        · simp [upd, e]
      split
      · exact hcl
      · have N := Notified.notifyFold y.monitors { w with watched := upd w.watched x { alive := false, monitors := [] } } []
        rw [monitorsOf_congr N.watched]; exact hcl
  | monitor m x ss =>
    simp only [World.legal, Bool.and_eq_true, beq_iff_eq] at hl
    simp only []
    cases hy : w.watched x with
    | none => exact same (MW.refl w)
    | some y =>
      simp only []
      refine ⟨?_, fun fop hf => ?_⟩
      · rw [monitorsOf_congr (MW.register _ _ _).2.1]
        funext z
        unfold monitorsOf
        show (match upd w.watched x { y with monitors := m :: y.monitors } z with | some y => y.monitors | none => []) = _
        by_cases e : z = x
        · subst e; simp [upd, famAbs, applyAbs, monitorsOf, hy]
        · simp [upd, e, famAbs, applyAbs, monitorsOf]
      · cases hf
        intro z hin
        unfold monitorsOf at hin
        cases hz : w.watched z with
        | none => rw [hz] at hin; cases hin
        | some yz =>
          rw [hz] at hin
          obtain ⟨mon, hmon, _⟩ := h.chain z yz m hz hin
          rw [h.freshM m (by omega)] at hmon; cases hmon
  | msat m => exact same (MW.refl w)
  | msatd m => exact same (MW.refl w)
  | releasemon m =>
    simp only []
    cases hx : w.mons m with
    | none => exact same (MW.refl w)
    | some x =>
      simp only []
      generalize hw1 : (if x.died = true then w else
        match w.watched x.target with
        | some y => { w with watched := upd w.watched x.target { y with monitors := y.monitors.filter (· ≠ m) } }
        | none => w) = w1
      have hwat : ({ (w1.retireOwn (.mon m) x.seqs) with mons := upd (w1.retireOwn (.mon m) x.seqs).mons m { x with alive := false } } : World).watched
          = w1.watched := (MW.retireOwn _ _ _).2.1
      refine ⟨?_, fun fop hf => ?_⟩
      · rw [monitorsOf_congr hwat]
        by_cases hd : x.died = true
        · simp only [hd, if_true] at hw1 ⊢
          rw [← hw1]; rfl
        · have hd' : x.died = false := by simpa using hd
          simp only [hd', Bool.false_eq_true, if_false] at hw1 ⊢
          cases hy : w.watched x.target with
          | none => rw [hy] at hw1; rw [← hw1]; rfl
          | some y =>
            rw [hy] at hw1
            simp only at hw1 ⊢
            rw [← hw1]
            funext z
            unfold monitorsOf applyAbs famAbs
            by_cases e : z = x.target
            · subst e
              simp only [upd, if_true, hy]
              rw [(h.nodup _ y hy).erase_eq_filter]
              apply List.filter_congr
              intro a _
              by_cases e' : a = m <;> simp [e']
            · simp [upd, e]
      · by_cases hd : x.died = true
        · simp [hd] at hf
        · have hd' : x.died = false := by simpa using hd
          simp only [hd', Bool.false_eq_true, if_false] at hf
          cases hy : w.watched x.target with
          | none => rw [hy] at hf; cases hf
          | some y => rw [hy] at hf; cases hf; trivial
  | tracer t => simp only []; exact ⟨rfl, fun _ h => by cases h⟩
  | killtracer t => simp only []; exact ⟨rfl, fun _ h => by cases h⟩
  | setreporter r ok => simp only []; exact same ⟨rfl, rfl, rfl, rfl, rfl, rfl⟩

def applyExec (lists : Nat → List Nat) (F : Chain.Fam) : Option FOp → Chain.Fam
  | none => F
  | some op => famExec lists F op

/-- the World run of a history and, beside it, the requirement chains executing the script of every step. -/
def famRun : World × Chain.Fam → List Tromp.Op → World × Chain.Fam
  | s, [] => s
  | (w, F), op :: ops => famRun ((w.step op).1, applyExec (monitorsOf w) F (monScript w op)) ops

theorem famRun_world (w : World) (F : Chain.Fam) (ops : List Tromp.Op) : (famRun (w, F) ops).1 = (w.run ops).1 := by
  induction ops generalizing w F with
  | nil => rfl
  | cons op ops ih => simp only [famRun, World.run]; exact ih _ _

theorem famRun_rep {w : World} {F : Chain.Fam} (h : WFChain w) (R : Chain.FamRep F (monitorsOf w)) (ops : List Tromp.Op) :
    Chain.FamRep (famRun (w, F) ops).2 (monitorsOf (famRun (w, F) ops).1) := by
  induction ops generalizing w F with
  | nil => exact R
  | cons op ops ih =>
    obtain ⟨e, lg⟩ := step_monitors h op
    refine ih (h.step op) ?_
    rw [e]
    cases hs : monScript w op with
    | none => exact R
    | some fop => exact famRep_step R fop (lg fop hs)

/-- **the requirement chains refine the World, for every history.** -/
theorem monitor_chains_refine_world (ops : List Tromp.Op) :
    Chain.FamRep (famRun ({}, Chain.famInit) ops).2 (monitorsOf (World.run {} ops).1) := by
  have R0 : Chain.FamRep Chain.famInit (monitorsOf {}) := Chain.famRep_init
  have := famRun_rep (w := {}) WFChain.init R0 ops
  rwa [famRun_world] at this

/-- **the walk in `~deathwatched` tells exactly the live requirements on the object, newest first** — at any point of any history. -/
theorem death_walk_visits_requirements (ops : List Tromp.Op) (x : Nat) :
    Chain.toList ((famRun ({}, Chain.famInit) ops).2.proj x) ((monitorsOf (World.run {} ops).1 x).length + 1) =
      monitorsOf (World.run {} ops).1 x := by
  have R := (monitor_chains_refine_world ops).each x
  simpa using Chain.toList_rep R 0

end Tromp.C13Chain
