/-
  Props/C14_HandleMachine.lean — the sequences' PENDING and RETIRED rings and the handles' `seq` pointers, for every script of
  handle operations.

  A `sequence_type` owns two intrusive lists of `sequence_matcher` handles: `matchers` (pending) and `retired_matchers`.  A handle
  holds a raw pointer `seq` to its sequence.  The World model keeps the pending lists only; this file models the rest as a
  machine of its own, over the operations the C++ performs on a handle (their bodies are regenerated and tied in
  Tie/HandleRetire.lean, Tie/HandleDetach.lean, Tie/SeqDtor.lean, Tie/Slots.lean `add_last`):

    reg     `sequence_matcher(…)`:      `seq = &s; s.add_last(this)`                    — push_back on the pending ring
    retire  `sequence_matcher::retire`: `unlink(); if (seq) seq->add_retired(this)`     — onto the retired ring if still attached
    detach  `sequence_matcher::detach`: `unlink(); seq = nullptr`
    drop    `~sequence_matcher`:        `~list_elem()` = `unlink()`
    killSeq `~sequence_type`:           every handle on either ring is detached
    newSeq  `sequence_type()`

  State: the abstract ring family (2n list objects: `pending s`, and `pending (n + s)` standing for the retired ring of `s`), the
  pointer heap, one `seq`-attached flag per handle, one alive flag per sequence.  **`hrun_inv`**: for EVERY script of these
  operations (a handle is registered only while it is not attached, in a live sequence with id `< n`) the heap represents the
  family (`Rep`: so every ring operation the script performed was legal — in particular the `push_back` in `retire` always finds
  the handle unlinked), and **a handle's `seq` pointer is non-null exactly if the handle is on one of the two rings of that
  sequence** — hence `attached_seq_alive`: a non-null `seq` never points to a destroyed sequence.  That is the invariant seeded
  change C14-m6 breaks (a predecessor that is only unlinked, not retired, stays attached while on no ring, so `~sequence_type`
  cannot find it).
-/
import TrompModel.Props.C14_SeqRing

namespace Tromp.C14Ring
open Tromp Tromp.Ring

/-! ### generic: a batch of unlinks -/

section generic
variable {P : Type} [DecidableEq P]

theorem run_unlinks_gen (a : Abs P) (hp : Heap P) (xs : List P) :
    (run (a, hp) (xs.map Ring.Op.unlink)).1 = { a with lists := fun hd => xs.foldl (fun l x => l.erase x) (a.lists hd) } := by
  induction xs generalizing a hp with
  | nil => rfl
  | cons x xs ih =>
    simp only [List.map_cons, Ring.run, List.foldl_cons]
    rw [ih]; rfl

theorem legalRun_unlinks_gen (a : Abs P) (xs : List P) (h : ∀ x ∈ xs, x ∉ a.heads) : legalRun a (xs.map Ring.Op.unlink) := by
  induction xs generalizing a with
  | nil => trivial
  | cons x xs ih =>
    refine ⟨h x (by simp), ih _ (fun x' hx' => ?_)⟩
    show x' ∉ a.heads
    exact h x' (by simp [hx'])

theorem foldl_erase_disjoint_gen (xs l : List P) (h : ∀ x ∈ xs, x ∉ l) : xs.foldl (fun l x => l.erase x) l = l := by
  induction xs generalizing l with
  | nil => rfl
  | cons x xs ih =>
    simp only [List.foldl_cons]
    rw [List.erase_of_not_mem (h x (by simp))]
    exact ih l (fun x' hx' => h x' (by simp [hx']))

theorem foldl_erase_all_gen (xs l : List P) (hnd : l.Nodup) (hsub : ∀ y ∈ l, y ∈ xs) : xs.foldl (fun l x => l.erase x) l = [] := by
  induction xs generalizing l with
  | nil => cases l with
    | nil => rfl
    | cons y _ => exact absurd (hsub y (by simp)) (by simp)
  | cons x xs ih =>
    simp only [List.foldl_cons]
    refine ih _ (hnd.erase x) ?_
    intro y hy
    have hy' := (List.Nodup.mem_erase_iff hnd).1 hy
    rcases List.mem_cons.mp (hsub y hy'.2) with e | e
    · exact absurd e hy'.1
    · exact e

end generic

/-! ### the machine -/

/-- the list object standing for the retired ring of sequence `s` (of `n`). -/
def retiredObj (n s : Nat) : SAddr := SAddr.pending (n + s)

inductive HOp
  | newSeq (s : Nat)
  | reg (o : Owner) (s : Nat)
  | retire (o : Owner) (s : Nat)
  | detach (o : Owner) (s : Nat)
  | drop (o : Owner) (s : Nat)
  | killSeq (s : Nat)

structure HState where
  a : Abs SAddr
  hp : Heap SAddr
  ptr : Owner → Nat → Bool        -- `seq != nullptr` of the handle of owner `o` in sequence `s`
  alive : Nat → Bool              -- the sequence object exists

def hInit (n : Nat) : HState :=
  ⟨⟨(List.range (2 * n)).map SAddr.pending, fun _ => []⟩, Heap.init, fun _ _ => false, fun _ => false⟩

/-- the handles on the two rings of sequence `s`. -/
def onRings (n : Nat) (a : Abs SAddr) (s : Nat) : List SAddr := a.lists (SAddr.pending s) ++ a.lists (retiredObj n s)

/-- the ring operations of one handle operation. -/
def hScript (n : Nat) (st : HState) : HOp → List (Ring.Op SAddr)
  | .newSeq _ => []
  | .reg o s => [Ring.Op.pushBack (SAddr.pending s) (SAddr.handle o s)]
  | .retire o s =>
    Ring.Op.unlink (SAddr.handle o s) :: (if st.ptr o s then [Ring.Op.pushBack (retiredObj n s) (SAddr.handle o s)] else [])
  | .detach o s => [Ring.Op.unlink (SAddr.handle o s)]
  | .drop o s => [Ring.Op.unlink (SAddr.handle o s)]
  | .killSeq s => (onRings n st.a s).map Ring.Op.unlink

def setPtr (p : Owner → Nat → Bool) (o : Owner) (s : Nat) (b : Bool) : Owner → Nat → Bool :=
  fun o' s' => if o' = o ∧ s' = s then b else p o' s'

def hStep (n : Nat) (st : HState) (op : HOp) : HState :=
  let r := run (st.a, st.hp) (hScript n st op)
  { a := r.1, hp := r.2,
    ptr := match op with
      | .reg o s => setPtr st.ptr o s true
      | .detach o s => setPtr st.ptr o s false
      | .drop o s => setPtr st.ptr o s false
      | .killSeq s => fun o' s' => if s' = s then false else st.ptr o' s'
      | _ => st.ptr,
    alive := match op with
      | .newSeq s => fun s' => if s' = s then true else st.alive s'
      | .killSeq s => fun s' => if s' = s then false else st.alive s'
      | _ => st.alive }

/-- what the callers guarantee. -/
def hLegal (n : Nat) (st : HState) : HOp → Prop
  | .newSeq s => st.alive s = false
  | .reg o s => s < n ∧ st.alive s = true ∧ st.ptr o s = false
  | .detach o s => st.ptr o s = false             -- an attached handle is detached by `~sequence_type` only (`killSeq`)
  | .killSeq s => s < n
  | _ => True

def hRun (n : Nat) : HState → List HOp → HState
  | st, [] => st
  | st, op :: ops => hRun n (hStep n st op) ops

def hLegalRun (n : Nat) : HState → List HOp → Prop
  | _, [] => True
  | st, op :: ops => hLegal n st op ∧ hLegalRun n (hStep n st op) ops

/-! ### the invariant -/

structure HInv (n : Nat) (st : HState) : Prop where
  heads : st.a.heads = (List.range (2 * n)).map SAddr.pending
  pend : ∀ k, k < n → ∀ y ∈ st.a.lists (SAddr.pending k), ∃ o, y = SAddr.handle o k
  ret : ∀ s, s < n → ∀ y ∈ st.a.lists (retiredObj n s), ∃ o, y = SAddr.handle o s
  attached : ∀ o s, st.ptr o s = true ↔ s < n ∧ SAddr.handle o s ∈ onRings n st.a s
  live : ∀ o s, st.ptr o s = true → st.alive s = true
  dead : ∀ s, s < n → st.alive s = false → onRings n st.a s = []
  rep : Rep st.hp st.a

theorem hInit_inv (n : Nat) : HInv n (hInit n) where
  heads := rfl
  pend := by intro k _ y hy; cases hy
  ret := by intro s _ y hy; cases hy
  attached := by intro o s; simp [hInit, onRings]
  live := by intro o s h; cases h
  dead := by intro s _ _; rfl
  rep := by
    refine ⟨?_, ?_, ?_, fun y _ => ⟨rfl, rfl⟩⟩
    · intro hd _; exact ring_nil_iff.2 ⟨rfl, rfl⟩
    · exact (List.nodup_range).map (fun _ _ h => by cases h; rfl)
    · intro hd1 h1 hd2 h2 ne y hy hin
      simp only [hInit, List.mem_cons, List.not_mem_nil, or_false] at hy hin
      exact ne (hy ▸ hin)

theorem pending_head {n : Nat} {st : HState} (I : HInv n st) {k : Nat} (hk : k < 2 * n) : SAddr.pending k ∈ st.a.heads := by
  rw [I.heads]; exact List.mem_map.mpr ⟨k, List.mem_range.mpr hk, rfl⟩

theorem handle_not_head' {n : Nat} {st : HState} (I : HInv n st) (o : Owner) (s : Nat) : SAddr.handle o s ∉ st.a.heads := by
  rw [I.heads]; intro h; obtain ⟨_, _, e⟩ := List.mem_map.mp h; cases e

/-- where a handle can be: only on the two rings of its own sequence. -/
theorem handle_mem_lists {n : Nat} {st : HState} (I : HInv n st) {o : Owner} {s : Nat} {hd : SAddr} (hhd : hd ∈ st.a.heads)
    (hin : SAddr.handle o s ∈ st.a.lists hd) : s < n ∧ (hd = SAddr.pending s ∨ hd = retiredObj n s) := by
  rw [I.heads] at hhd
  obtain ⟨k, hk, rfl⟩ := List.mem_map.mp hhd
  have hk' := List.mem_range.mp hk
  by_cases c : k < n
  · obtain ⟨o', e⟩ := I.pend k c _ hin
    cases e; exact ⟨c, Or.inl rfl⟩
  · have : k = n + (k - n) := by omega
    have hs : k - n < n := by omega
    rw [this] at hin
    obtain ⟨o', e⟩ := I.ret (k - n) hs _ hin
    cases e
    exact ⟨hs, Or.inr (by unfold retiredObj; rw [← this])⟩

theorem used_handle_iff {n : Nat} {st : HState} (I : HInv n st) (o : Owner) (s : Nat) :
    st.a.used (SAddr.handle o s) ↔ s < n ∧ SAddr.handle o s ∈ onRings n st.a s := by
  constructor
  · rintro ⟨hd, hhd, hy⟩
    simp only [List.mem_cons] at hy
    rcases hy with e | hy
    · exact absurd (e ▸ hhd) (handle_not_head' I o s)
    · obtain ⟨hs, h | h⟩ := handle_mem_lists I hhd hy
      · subst h; exact ⟨hs, List.mem_append.mpr (Or.inl hy)⟩
      · subst h; exact ⟨hs, List.mem_append.mpr (Or.inr hy)⟩
  · rintro ⟨hs, hin⟩
    rcases List.mem_append.mp hin with h | h
    · exact ⟨SAddr.pending s, pending_head I (by omega), by simp [h]⟩
    · exact ⟨retiredObj n s, pending_head I (by omega), by simp [h]⟩

theorem lists_nodup {n : Nat} {st : HState} (I : HInv n st) {hd : SAddr} (hhd : hd ∈ st.a.heads) : (st.a.lists hd).Nodup := by
  have := (I.rep.rings hd hhd).2
  simp only [List.nodup_cons] at this
  exact this.2

theorem retired_ne_pending {n s : Nat} (hs : s < n) : retiredObj n s ≠ SAddr.pending s := by
  unfold retiredObj; intro e
  have : n + s = s := by injection e
  omega

/-! ### how the abstract family changes -/

theorem lists_after_unlink (a : Abs SAddr) (x hd : SAddr) : (a.step (.unlink x)).lists hd = (a.lists hd).erase x := rfl
theorem heads_after_unlink (a : Abs SAddr) (x : SAddr) : (a.step (.unlink x)).heads = a.heads := rfl
theorem heads_after_pushBack (a : Abs SAddr) (hd t : SAddr) : (a.step (.pushBack hd t)).heads = a.heads := rfl
theorem lists_after_pushBack (a : Abs SAddr) (hd t hd' : SAddr) :
    (a.step (.pushBack hd t)).lists hd' = if hd' = hd then a.lists hd ++ [t] else a.lists hd' := rfl

theorem erase_other_handle {l : List SAddr} {o o' : Owner} {s s' : Nat} (h : ∀ y ∈ l, ∃ o'', y = SAddr.handle o'' s')
    (ne : s ≠ s') : l.erase (SAddr.handle o s) = l := by
  apply List.erase_of_not_mem
  intro hin
  obtain ⟨o'', e⟩ := h _ hin
  cases e; exact ne rfl

theorem unused_after_unlink {P : Type} [DecidableEq P] {h : Heap P} {a : Abs P} (R : Rep h a) {x : P} (hx : x ∉ a.heads) :
    ¬ (a.step (.unlink x)).used x := by
  rintro ⟨hd, hm, m⟩
  change hd ∈ a.heads at hm
  simp only [Abs.step, List.mem_cons] at m
  rcases m with rfl | m
  · exact hx hm
  · have nd : (a.lists hd).Nodup := by have := (R.rings hd hm).2; simp at this; exact this.2
    exact (List.Nodup.mem_erase_iff nd).1 m |>.1 rfl

theorem mem_onRings_erase {n : Nat} {st : HState} (I : HInv n st) (o o' : Owner) (s s' : Nat) (hs' : s' < n)
    (ne : ¬ (o' = o ∧ s' = s)) :
    SAddr.handle o' s' ∈ (st.a.lists (SAddr.pending s')).erase (SAddr.handle o s) ++ (st.a.lists (retiredObj n s')).erase (SAddr.handle o s) ↔
      SAddr.handle o' s' ∈ onRings n st.a s' := by
  have hne : SAddr.handle o' s' ≠ SAddr.handle o s := by
    intro e; cases e; exact ne ⟨rfl, rfl⟩
  unfold onRings
  simp only [List.mem_append, List.mem_erase_of_ne hne]

/-- the family after `unlink` of a handle, with that handle's `seq` flag cleared: covers `~sequence_matcher`, and `retire` /
    `detach` of a handle that is not attached. -/
theorem inv_after_unlink {n : Nat} {st : HState} (I : HInv n st) (o : Owner) (s : Nat) :
    HInv n { a := st.a.step (.unlink (SAddr.handle o s)), hp := unlink (SAddr.handle o s) st.hp,
             ptr := setPtr st.ptr o s false, alive := st.alive } := by
  have hnd : ∀ hd ∈ st.a.heads, (st.a.lists hd).Nodup := fun hd h => lists_nodup I h
  refine ⟨I.heads, ?_, ?_, ?_, ?_, ?_, rep_unlink I.rep (handle_not_head' I o s)⟩
  · intro k hk y hy
    exact I.pend k hk y (List.mem_of_mem_erase hy)
  · intro s' hs' y hy
    exact I.ret s' hs' y (List.mem_of_mem_erase hy)
  · intro o' s'
    show setPtr st.ptr o s false o' s' = true ↔ s' < n ∧ SAddr.handle o' s' ∈
      (st.a.lists (SAddr.pending s')).erase (SAddr.handle o s) ++ (st.a.lists (retiredObj n s')).erase (SAddr.handle o s)
    by_cases c : o' = o ∧ s' = s
    · obtain ⟨rfl, rfl⟩ := c
      simp only [setPtr, and_self, if_true, Bool.false_eq_true, false_iff, not_and]
      intro hs hin
      rcases List.mem_append.mp hin with h | h
      · exact ((List.Nodup.mem_erase_iff (hnd _ (pending_head I (by omega)))).1 h).1 rfl
      · exact ((List.Nodup.mem_erase_iff (hnd _ (pending_head I (by omega)))).1 h).1 rfl
    · simp only [setPtr, c, if_false]
      rw [I.attached o' s']
      constructor
      · rintro ⟨h1, h2⟩; exact ⟨h1, (mem_onRings_erase I o o' s s' h1 c).2 h2⟩
      · rintro ⟨h1, h2⟩; exact ⟨h1, (mem_onRings_erase I o o' s s' h1 c).1 h2⟩
  · intro o' s' h
    show st.alive s' = true
    by_cases c : o' = o ∧ s' = s
    · simp [setPtr, c] at h
    · simp only [setPtr, c, if_false] at h; exact I.live o' s' h
  · intro s' hs' hd
    have := I.dead s' hs' hd
    unfold onRings at this ⊢
    have h1 := List.append_eq_nil_iff.mp this
    show (st.a.lists (SAddr.pending s')).erase _ ++ (st.a.lists (retiredObj n s')).erase _ = []
    rw [h1.1, h1.2]; rfl

theorem setPtr_false_of_false (p : Owner → Nat → Bool) (o : Owner) (s : Nat) (h : p o s = false) : setPtr p o s false = p := by
  funext o' s'
  by_cases c : o' = o ∧ s' = s
  · obtain ⟨rfl, rfl⟩ := c; simp [setPtr, h]
  · simp [setPtr, c]

/-- **one handle operation keeps the invariant.** -/
theorem hStep_inv {n : Nat} {st : HState} (I : HInv n st) (op : HOp) (lg : hLegal n st op) : HInv n (hStep n st op) := by
  cases op with
  | newSeq s =>
    refine ⟨I.heads, I.pend, I.ret, I.attached, ?_, ?_, I.rep⟩
    · intro o s' h
      show (if s' = s then true else st.alive s') = true
      by_cases c : s' = s
      · simp [c]
      · simp only [c, if_false]; exact I.live o s' h
    · intro s' hs' hd
      have hd' : (if s' = s then true else st.alive s') = false := hd
      by_cases c : s' = s
      · simp [c] at hd'
      · simp only [c, if_false] at hd'; exact I.dead s' hs' hd'
  | reg o s =>
    obtain ⟨hs, hal, hp⟩ := lg
    have hunused : ¬ st.a.used (SAddr.handle o s) := by
      rw [used_handle_iff I]
      intro h
      have := (I.attached o s).2 h
      rw [hp] at this; cases this
    have hnotin : SAddr.handle o s ∉ onRings n st.a s := fun h => hunused ((used_handle_iff I o s).2 ⟨hs, h⟩)
    have R' := rep_pushBack I.rep (pending_head I (k := s) (by omega)) hunused
    have hl : ∀ hd, (hStep n st (.reg o s)).a.lists hd =
        if hd = SAddr.pending s then st.a.lists (SAddr.pending s) ++ [SAddr.handle o s] else st.a.lists hd := fun hd => rfl
    have hret : ∀ s', (hStep n st (.reg o s)).a.lists (retiredObj n s') = st.a.lists (retiredObj n s') := by
      intro s'
      rw [hl]
      have : retiredObj n s' ≠ SAddr.pending s := by
        unfold retiredObj; intro e
        have : n + s' = s := by injection e
        omega
      simp [this]
    refine ⟨I.heads, ?_, ?_, ?_, ?_, ?_, R'⟩
    · intro k hk y hy
      rw [hl] at hy
      by_cases c : k = s
      · subst c
        simp only [if_true, List.mem_append, List.mem_singleton] at hy
        rcases hy with hy | rfl
        · exact I.pend k hk y hy
        · exact ⟨o, rfl⟩
      · have : SAddr.pending k ≠ SAddr.pending s := by intro e; cases e; exact c rfl
        simp only [this, if_false] at hy
        exact I.pend k hk y hy
    · intro s' hs' y hy
      rw [hret] at hy
      exact I.ret s' hs' y hy
    · intro o' s'
      show setPtr st.ptr o s true o' s' = true ↔ s' < n ∧ SAddr.handle o' s' ∈
        (hStep n st (.reg o s)).a.lists (SAddr.pending s') ++ (hStep n st (.reg o s)).a.lists (retiredObj n s')
      rw [hret, hl]
      by_cases c : o' = o ∧ s' = s
      · obtain ⟨rfl, rfl⟩ := c
        simp [setPtr, hs]
      · simp only [setPtr, c, if_false]
        rw [I.attached o' s']
        unfold onRings
        by_cases e : s' = s
        · subst e
          have ho : o' ≠ o := fun e => c ⟨e, rfl⟩
          have hne : SAddr.handle o' s' ≠ SAddr.handle o s' := by intro e; cases e; exact ho rfl
          simp [hne]
        · have : SAddr.pending s' ≠ SAddr.pending s := by intro e'; cases e'; exact e rfl
          simp [this]
    · intro o' s' h
      show st.alive s' = true
      have h' : setPtr st.ptr o s true o' s' = true := h
      by_cases c : o' = o ∧ s' = s
      · obtain ⟨rfl, rfl⟩ := c; exact hal
      · simp only [setPtr, c, if_false] at h'; exact I.live o' s' h'
    · intro s' hs' hd
      have hd' : st.alive s' = false := hd
      have hne : s' ≠ s := by rintro rfl; rw [hal] at hd'; cases hd'
      show (hStep n st (.reg o s)).a.lists (SAddr.pending s') ++ (hStep n st (.reg o s)).a.lists (retiredObj n s') = []
      rw [hret, hl]
      have : SAddr.pending s' ≠ SAddr.pending s := by intro e'; cases e'; exact hne rfl
      simp only [this, if_false]
      exact I.dead s' hs' hd'
  | retire o s =>
    by_cases hp : st.ptr o s = true
    · -- attached: unlink, then push_back on the retired ring
      obtain ⟨hs, hin⟩ := (I.attached o s).1 hp
      have R1 := rep_unlink I.rep (handle_not_head' I o s)
      have hun := unused_after_unlink I.rep (handle_not_head' I o s)
      have hhead : retiredObj n s ∈ (st.a.step (.unlink (SAddr.handle o s))).heads := pending_head I (k := n + s) (by omega)
      have R2 := rep_pushBack R1 hhead hun
      have hst : hStep n st (.retire o s) =
          { a := (st.a.step (.unlink (SAddr.handle o s))).step (.pushBack (retiredObj n s) (SAddr.handle o s)),
            hp := pushBack (retiredObj n s) (SAddr.handle o s) (unlink (SAddr.handle o s) st.hp), ptr := st.ptr, alive := st.alive } := by
        simp only [hStep, hScript, hp, if_true]; rfl
      rw [hst]
      have hl : ∀ hd, ((st.a.step (.unlink (SAddr.handle o s))).step (.pushBack (retiredObj n s) (SAddr.handle o s))).lists hd =
          if hd = retiredObj n s then (st.a.lists (retiredObj n s)).erase (SAddr.handle o s) ++ [SAddr.handle o s]
          else (st.a.lists hd).erase (SAddr.handle o s) := fun hd => rfl
      have hpne : ∀ k, k < n → SAddr.pending k ≠ retiredObj n s := by
        intro k hk e; unfold retiredObj at e
        have : k = n + s := by injection e
        omega
      refine ⟨I.heads, ?_, ?_, ?_, I.live, ?_, R2⟩
      · intro k hk y hy
        rw [hl] at hy
        simp only [hpne k hk, if_false] at hy
        exact I.pend k hk y (List.mem_of_mem_erase hy)
      · intro s' hs' y hy
        rw [hl] at hy
        by_cases c : s' = s
        · subst c
          simp only [if_true, List.mem_append, List.mem_singleton] at hy
          rcases hy with hy | rfl
          · exact I.ret s' hs' y (List.mem_of_mem_erase hy)
          · exact ⟨o, rfl⟩
        · have : retiredObj n s' ≠ retiredObj n s := by
            unfold retiredObj; intro e
            have : n + s' = n + s := by injection e
            omega
          simp only [this, if_false] at hy
          exact I.ret s' hs' y (List.mem_of_mem_erase hy)
      · intro o' s'
        show st.ptr o' s' = true ↔ s' < n ∧ SAddr.handle o' s' ∈ _ ++ _
        rw [hl, hl]
        by_cases c : o' = o ∧ s' = s
        · obtain ⟨rfl, rfl⟩ := c
          simp [hp, hs, hpne s' hs]
        · rw [I.attached o' s']
          have hne : SAddr.handle o' s' ≠ SAddr.handle o s := by intro e; cases e; exact c ⟨rfl, rfl⟩
          constructor
          · rintro ⟨h1, h2⟩
            refine ⟨h1, ?_⟩
            simp only [hpne s' h1, if_false]
            unfold onRings at h2
            rcases List.mem_append.mp h2 with h | h
            · exact List.mem_append.mpr (Or.inl ((List.mem_erase_of_ne hne).2 h))
            · refine List.mem_append.mpr (Or.inr ?_)
              split
              · exact List.mem_append.mpr (Or.inl ((List.mem_erase_of_ne hne).2 (by rename_i e; rw [← e]; exact h)))
              · exact (List.mem_erase_of_ne hne).2 h
          · rintro ⟨h1, h2⟩
            refine ⟨h1, ?_⟩
            simp only [hpne s' h1, if_false] at h2
            unfold onRings
            rcases List.mem_append.mp h2 with h | h
            · exact List.mem_append.mpr (Or.inl ((List.mem_erase_of_ne hne).1 h))
            · refine List.mem_append.mpr (Or.inr ?_)
              split at h
              · rename_i e
                rcases List.mem_append.mp h with h | h
                · rw [e]; exact (List.mem_erase_of_ne hne).1 h
                · simp at h; exact absurd h c
              · exact (List.mem_erase_of_ne hne).1 h
      · intro s' hs' hd
        have hne : s' ≠ s := by rintro rfl; rw [I.live o s' hp] at hd; cases hd
        have := I.dead s' hs' hd
        unfold onRings at this
        have h1 := List.append_eq_nil_iff.mp this
        show _ ++ _ = []
        rw [hl, hl]
        have : retiredObj n s' ≠ retiredObj n s := by
          unfold retiredObj; intro e
          have : n + s' = n + s := by injection e
          omega
        simp only [hpne s' hs', this, if_false, h1.1, h1.2]
        rfl
    · -- not attached: `unlink` of an unlinked element
      have hp' : st.ptr o s = false := by simpa using hp
      have hst : hStep n st (.retire o s) =
          { a := st.a.step (.unlink (SAddr.handle o s)), hp := unlink (SAddr.handle o s) st.hp,
            ptr := setPtr st.ptr o s false, alive := st.alive } := by
        rw [setPtr_false_of_false _ _ _ hp']
        simp only [hStep, hScript, hp']; rfl
      rw [hst]; exact inv_after_unlink I o s
  | detach o s =>
    have hp' : st.ptr o s = false := lg
    have hst : hStep n st (.detach o s) =
        { a := st.a.step (.unlink (SAddr.handle o s)), hp := unlink (SAddr.handle o s) st.hp,
          ptr := setPtr st.ptr o s false, alive := st.alive } := rfl
    rw [hst]; exact inv_after_unlink I o s
  | drop o s =>
    have hst : hStep n st (.drop o s) =
        { a := st.a.step (.unlink (SAddr.handle o s)), hp := unlink (SAddr.handle o s) st.hp,
          ptr := setPtr st.ptr o s false, alive := st.alive } := rfl
    rw [hst]; exact inv_after_unlink I o s
  | killSeq s =>
    have hs : s < n := lg
    have hL : ∀ x ∈ onRings n st.a s, ∃ o, x = SAddr.handle o s := by
      intro x hx
      rcases List.mem_append.mp hx with h | h
      · exact I.pend s hs x h
      · exact I.ret s hs x h
    have hnh : ∀ x ∈ onRings n st.a s, x ∉ st.a.heads := by
      intro x hx; obtain ⟨o, rfl⟩ := hL x hx; exact handle_not_head' I o s
    have R' := rep_run I.rep _ (legalRun_unlinks_gen st.a _ hnh)
    have ha : (hStep n st (.killSeq s)).a =
        { st.a with lists := fun hd => (onRings n st.a s).foldl (fun l x => l.erase x) (st.a.lists hd) } :=
      run_unlinks_gen st.a st.hp _
    have hl : ∀ hd, (hStep n st (.killSeq s)).a.lists hd = (onRings n st.a s).foldl (fun l x => l.erase x) (st.a.lists hd) := by
      intro hd; rw [ha]
    have hpS : (hStep n st (.killSeq s)).a.lists (SAddr.pending s) = [] := by
      rw [hl]
      exact foldl_erase_all_gen _ _ (lists_nodup I (pending_head I (by omega))) (fun y hy => List.mem_append.mpr (Or.inl hy))
    have hrS : (hStep n st (.killSeq s)).a.lists (retiredObj n s) = [] := by
      rw [hl]
      exact foldl_erase_all_gen _ _ (lists_nodup I (pending_head I (k := n + s) (by omega))) (fun y hy => List.mem_append.mpr (Or.inr hy))
    have hpO : ∀ k, k < n → k ≠ s → (hStep n st (.killSeq s)).a.lists (SAddr.pending k) = st.a.lists (SAddr.pending k) := by
      intro k hk hne
      rw [hl]
      refine foldl_erase_disjoint_gen _ _ (fun x hx hin => ?_)
      obtain ⟨o, rfl⟩ := hL x hx
      obtain ⟨o', e⟩ := I.pend k hk _ hin
      cases e; exact hne rfl
    have hrO : ∀ k, k < n → k ≠ s → (hStep n st (.killSeq s)).a.lists (retiredObj n k) = st.a.lists (retiredObj n k) := by
      intro k hk hne
      rw [hl]
      refine foldl_erase_disjoint_gen _ _ (fun x hx hin => ?_)
      obtain ⟨o, rfl⟩ := hL x hx
      obtain ⟨o', e⟩ := I.ret k hk _ hin
      cases e; exact hne rfl
    have hheads : (hStep n st (.killSeq s)).a.heads = st.a.heads := by rw [ha]
    refine ⟨hheads.trans I.heads, ?_, ?_, ?_, ?_, ?_, R'⟩
    · intro k hk y hy
      by_cases c : k = s
      · subst c; rw [hpS] at hy; cases hy
      · rw [hpO k hk c] at hy; exact I.pend k hk y hy
    · intro k hk y hy
      by_cases c : k = s
      · subst c; rw [hrS] at hy; cases hy
      · rw [hrO k hk c] at hy; exact I.ret k hk y hy
    · intro o' s'
      show (if s' = s then false else st.ptr o' s') = true ↔ s' < n ∧ SAddr.handle o' s' ∈
        (hStep n st (.killSeq s)).a.lists (SAddr.pending s') ++ (hStep n st (.killSeq s)).a.lists (retiredObj n s')
      by_cases c : s' = s
      · subst c; simp [hpS, hrS]
      · simp only [c, if_false]
        rw [I.attached o' s']
        constructor
        · rintro ⟨h1, h2⟩; exact ⟨h1, by rw [hpO s' h1 c, hrO s' h1 c]; exact h2⟩
        · rintro ⟨h1, h2⟩; exact ⟨h1, by rw [hpO s' h1 c, hrO s' h1 c] at h2; exact h2⟩
    · intro o' s' h
      have h' : (if s' = s then false else st.ptr o' s') = true := h
      show (if s' = s then false else st.alive s') = true
      by_cases c : s' = s
      · simp [c] at h'
      · simp only [c, if_false] at h' ⊢; exact I.live o' s' h'
    · intro s' hs' hd
      have hd' : (if s' = s then false else st.alive s') = false := hd
      show (hStep n st (.killSeq s)).a.lists (SAddr.pending s') ++ (hStep n st (.killSeq s)).a.lists (retiredObj n s') = []
      by_cases c : s' = s
      · subst c; rw [hpS, hrS]; rfl
      · simp only [c, if_false] at hd'
        rw [hpO s' hs' c, hrO s' hs' c]; exact I.dead s' hs' hd'

/-- **every script of handle operations**: from the empty state, whatever is registered, retired, dropped and torn down in
    whatever order, the heap represents the two rings of every sequence and the `seq` flags agree with ring membership. -/
theorem hrun_inv {n : Nat} {st : HState} (I : HInv n st) (ops : List HOp) (lg : hLegalRun n st ops) : HInv n (hRun n st ops) := by
  induction ops generalizing st with
  | nil => exact I
  | cons op ops ih => exact ih (hStep_inv I op lg.1) lg.2

theorem hrun_from_init (n : Nat) (ops : List HOp) (lg : hLegalRun n (hInit n) ops) : HInv n (hRun n (hInit n) ops) :=
  hrun_inv (hInit_inv n) ops lg

/-- **a non-null `seq` pointer never points to a destroyed sequence**, and the handle that holds it is on one of that sequence's
    two rings — so `~sequence_type` (which detaches everything on its rings) reaches every handle that could still follow the
    pointer. -/
theorem attached_seq_alive (n : Nat) (ops : List HOp) (lg : hLegalRun n (hInit n) ops) (o : Owner) (s : Nat)
    (h : (hRun n (hInit n) ops).ptr o s = true) :
    (hRun n (hInit n) ops).alive s = true ∧ s < n ∧ SAddr.handle o s ∈ onRings n (hRun n (hInit n) ops).a s := by
  have I := hrun_from_init n ops lg
  exact ⟨I.live o s h, (I.attached o s).1 h⟩

/-- after `~sequence_type` no handle is attached to that sequence any more. -/
theorem killSeq_detaches_all {n : Nat} {st : HState} (s : Nat) (o : Owner) : (hStep n st (.killSeq s)).ptr o s = false := by
  show (if s = s then false else st.ptr o s) = false
  simp

end Tromp.C14Ring
