/-
  Props/C14_Ring.lean — the intrusive ring `list_elem<T>` / `list<T, Disposer>` (mock.hpp) implements lists.

  Every list the library keeps (a mock function's active and saturated expectations, a sequence's pending and
  retired handles) is a ring of `next`/`prev` pointers through objects the library does not own.  The World model
  (`Model/World.lean`) works with abstract `List`s; these theorems are the layer below it: **for every script** of
  ring operations that respects the callers' obligations (`Abs.legal`: an element is pushed only while it is on no
  list, a list object is not itself an element), the heap the C++ operations leave behind represents exactly the
  abstract lists (`Rep`), any number of rings side by side in one heap, any sizes, any order of insertion, removal,
  move and destruction.  Consequences: iterators visit exactly the list, forwards and backwards; an element that is
  on no list is self-linked (so `~list_elem()` → `unlink()` on it is a no-op and touches no other object — the
  memory-safety half of C14 at this level: after an element has been unlinked no live pointer in any ring refers to
  it); `is_linked()` is list membership.

  The C++ member functions are tied to the definitions used here by `Tie/Ring.lean` (regenerated translation of
  `unlink`, `push_front`, `push_back`, `operator=(list_elem&&)`, `~list`) and by the `h_ring` correspondence check.
-/
import TrompModel.Lemmas.Ring

namespace Tromp.C14Ring
open Tromp.Ring

variable {P : Type} [DecidableEq P]

/-- the states some legal script leads to from the empty heap (every element freshly constructed). -/
def Reachable (a : Abs P) (h : Heap P) : Prop :=
  ∃ ops : List (Op P), legalRun Abs.init ops ∧ run (Abs.init, Heap.init) ops = (a, h)

/-- **C14 (ring), refinement.**  After any legal script the heap represents the abstract lists. -/
theorem ring_refines_lists {a : Abs P} {h : Heap P} (r : Reachable a h) : Rep h a := by
  obtain ⟨ops, lg, e⟩ := r
  have := rep_run rep_init ops lg
  rw [e] at this; exact this

/-- **C14 (ring), observation.**  `for (auto& e : list)` — `begin()`, `++`, `end()` — visits exactly the abstract
    list, in order; following `prev` visits it in reverse; `empty()` is emptiness. -/
theorem iteration_is_list {a : Abs P} {h : Heap P} (r : Reachable a h) (hd : P) (hm : hd ∈ a.heads) (k : Nat) :
    toList h hd ((a.lists hd).length + 1 + k) = a.lists hd ∧
    toListBack h hd ((a.lists hd).length + 1 + k) = (a.lists hd).reverse ∧
    isEmpty hd h = (a.lists hd).isEmpty :=
  have R := (ring_refines_lists r).rings hd hm
  ⟨toList_ring R k, toListBack_ring R k, isEmpty_ring R⟩

/-- **C14 (ring), `is_linked()`** of an element is membership of some list. -/
theorem isLinked_iff_member {a : Abs P} {h : Heap P} (r : Reachable a h) (x : P) (hx : x ∉ a.heads) :
    isLinked x h = true ↔ ∃ hd ∈ a.heads, x ∈ a.lists hd := by
  have R := ring_refines_lists r
  constructor
  · intro l
    apply Decidable.byContradiction
    intro n
    have : ¬ a.used x := by
      rintro ⟨hd, hm, m⟩
      simp only [List.mem_cons] at m
      rcases m with rfl | m
      · exact hx hm
      · exact n ⟨hd, hm, m⟩
    have s := R.free x this
    simp [isLinked, s.1] at l
  · rintro ⟨hd, hm, m⟩
    have ring := R.rings hd hm
    obtain ⟨l1, l2, e⟩ := List.append_of_mem m
    have p := ring.1; rw [e] at p
    have p2 := ((path_append h hd x hd l1 l2).1 p).2
    have nd := ring.2; rw [e] at nd
    simp only [isLinked, bne_iff_ne, ne_eq]
    intro self
    cases l2 with
    | nil => simp only [Path] at p2; rw [self] at p2; simp [p2.1] at nd
    | cons y l2 =>
      simp only [Path] at p2; rw [self] at p2; rw [← p2.1] at nd
      simp [List.nodup_append] at nd

/-- **C14 (ring), no reference to a removed element survives.**  After `unlink` (the whole of `~list_elem()`), no
    `next` or `prev` member of any *other* address holds the removed element's address — destroying it afterwards
    leaves no dangling pointer in any ring. -/
theorem unlinked_unreferenced {a : Abs P} {h : Heap P} (r : Reachable a h) (x : P) (hx : x ∉ a.heads) (y : P) (hy : y ≠ x) :
    (unlink x h).next y ≠ x ∧ (unlink x h).prev y ≠ x := by
  have R' : Rep (unlink x h) (a.step (.unlink x)) := rep_unlink (ring_refines_lists r) hx
  have nx : ¬ (a.step (.unlink x)).used x := by
    rintro ⟨hd, hm, m⟩
    change hd ∈ a.heads at hm
    simp only [Abs.step, List.mem_cons] at m
    rcases m with rfl | m
    · exact hx hm
    · have nd : (a.lists hd).Nodup := by have := ((ring_refines_lists r).rings hd hm).2; simp at this; exact this.2
      exact (List.Nodup.mem_erase_iff nd).1 m |>.1 rfl
  by_cases u : (a.step (.unlink x)).used y
  · obtain ⟨hd, hm, m⟩ := u
    have ring := R'.rings hd hm
    have hxr : x ∉ hd :: (a.step (.unlink x)).lists hd := fun mm => nx ⟨hd, hm, mm⟩
    exact ⟨fun e => hxr (by have := ring_next_mem ring y m; rwa [e] at this),
      fun e => hxr (by have := ring_prev_mem ring y m; rwa [e] at this)⟩
  · have s := R'.free y u
    exact ⟨by rw [s.1]; exact hy, by rw [s.2]; exact hy⟩

/-- **C14 (ring), destruction of an unlinked element is local**: `~list_elem()` on an element that is on no list
    changes no pointer at all. -/
theorem dtor_of_unlinked_is_noop {a : Abs P} {h : Heap P} (r : Reachable a h) (x : P) (hx : ¬ a.used x) :
    unlink x h = h :=
  unlink_of_selfLinked ((ring_refines_lists r).free x hx)

/-- **C14 (ring), move.**  `list(list&&)`: the new list object holds the old one's elements in the same order, the
    old one is empty and unlinked, every other list is untouched. -/
theorem move_transfers_ring {a : Abs P} {h : Heap P} (r : Reachable a h) (new old : P) (lg : a.legal (.moveList new old)) :
    let h' := moveAssign new old h
    toList h' new ((a.lists old).length + 1) = a.lists old ∧ SelfLinked h' old ∧
    ∀ hd ∈ a.heads, hd ≠ old → toList h' hd ((a.lists hd).length + 1) = a.lists hd := by
  have R := ring_refines_lists r
  have R' := rep_moveList R lg.1 lg.2
  have hnew : new ∉ a.heads := fun m => lg.2 (used_of_mem m (by simp))
  refine ⟨?_, ?_, ?_⟩
  · have := R'.rings new (by simp [Abs.step])
    have e : (a.step (.moveList new old)).lists new = a.lists old := by simp [Abs.step]
    rw [e] at this; exact toList_ring this 0
  · exact (moveAssign_ring (R.rings old lg.1) (fun m => lg.2 (used_of_mem lg.1 m))).2
  · intro hd hm ne
    have hn : hd ≠ new := by rintro rfl; exact hnew hm
    have := R'.rings hd (by simp [Abs.step]; right; exact (List.mem_erase_of_ne ne).2 hm)
    have e : (a.step (.moveList new old)).lists hd = a.lists hd := by simp [Abs.step, hn, ne]
    rw [e] at this; exact toList_ring this 0

/-- the translator's "walk a snapshot, pop the front each round" idiom is sound on a represented ring. -/
theorem pop_front_idiom {h : Heap P} {hd x : P} {l : List P} (r : IsRing h hd (x :: l)) :
    h.next hd = x ∧ IsRing (unlink x h) hd l := ring_pop_front r


/-! ### what the callers owe the ring is what the World invariant provides

`Abs.legal` asks that an element is pushed only while it is on no list.  The World model's linkage invariant (`WF`,
Props/C14.lean: every list duplicate-free, an expectation on at most one list — `entry_unique`, `reachable_nodup`) says
that the lists are duplicate-free and pairwise disjoint **after** every operation.  That is enough: if the abstract lists
are well formed after a push, the pushed element cannot have been on a list before it. -/

/-- the list family is well formed: distinct list objects, each list duplicate-free and not containing its own list
    object, different lists (list objects included) share no address.  (`Rep` without the heap.) -/
structure AbsWf (a : Abs P) : Prop where
  heads_nodup : a.heads.Nodup
  nodup : ∀ hd ∈ a.heads, (hd :: a.lists hd).Nodup
  disj : ∀ hd1 ∈ a.heads, ∀ hd2 ∈ a.heads, hd1 ≠ hd2 → ∀ y ∈ hd1 :: a.lists hd1, y ∉ hd2 :: a.lists hd2

theorem absWf_of_rep {h : Heap P} {a : Abs P} (R : Rep h a) : AbsWf a :=
  ⟨R.heads_nodup, fun hd hm => (R.rings hd hm).2, R.disj⟩

/-- **a push is legal whenever its result is well formed.** -/
theorem push_legal_of_wf_post (a : Abs P) (hd t : P) (front : Bool) (hm : hd ∈ a.heads)
    (post : AbsWf (a.step (if front then .pushFront hd t else .pushBack hd t))) :
    a.legal (if front then .pushFront hd t else .pushBack hd t) := by
  have key : ¬ a.used t := by
    rintro ⟨hd2, h2, m⟩
    have hl : ∀ x, x ≠ hd → (a.step (if front then .pushFront hd t else .pushBack hd t)).lists x = a.lists x := by
      intro x hx; cases front <;> simp [Abs.step, Abs.set, hx]
    have ht : t ∈ (a.step (if front then .pushFront hd t else .pushBack hd t)).lists hd := by
      cases front <;> simp [Abs.step, Abs.set]
    have hsub : ∀ y ∈ a.lists hd, y ∈ (a.step (if front then .pushFront hd t else .pushBack hd t)).lists hd := by
      intro y hy; cases front <;> simp [Abs.step, Abs.set, hy]
    have hheads : (a.step (if front then .pushFront hd t else .pushBack hd t)).heads = a.heads := by
      cases front <;> rfl
    have hnd := post.nodup hd (by rw [hheads]; exact hm)
    by_cases e : hd2 = hd
    · subst e
      simp only [List.mem_cons] at m
      rcases m with rfl | m
      · simp only [List.nodup_cons] at hnd; exact hnd.1 ht
      · -- `t` was already in the list: it is there twice afterwards
        cases front
        · simp only [Abs.step, Abs.set, if_true, Bool.false_eq_true, if_false] at hnd
          simp only [List.nodup_cons, List.nodup_append] at hnd
          exact hnd.2.2.2 t m t (by simp) rfl
        · simp only [Abs.step, Abs.set, if_true] at hnd
          simp only [List.nodup_cons] at hnd
          exact hnd.2.1 m
    · have := post.disj hd (by rw [hheads]; exact hm) hd2 (by rw [hheads]; exact h2) (Ne.symm e) t (by simp [ht])
      rw [hl hd2 e] at this
      exact this m
  cases front
  · exact ⟨hm, key⟩
  · exact ⟨hm, key⟩

/-- **a move is legal whenever its result is well formed** (and the target is not the source). -/
theorem move_legal_of_wf_post (a : Abs P) (new old : P) (hm : old ∈ a.heads) (hne : new ≠ old)
    (post : AbsWf (a.step (.moveList new old))) : a.legal (.moveList new old) := by
  refine ⟨hm, ?_⟩
  rintro ⟨hd2, h2, m⟩
  have hnewhead : new ∈ (a.step (.moveList new old)).heads := by simp [Abs.step]
  have hl0 : (a.step (.moveList new old)).lists new = a.lists old := by simp [Abs.step]
  by_cases e : hd2 = old
  · subst e
    simp only [List.mem_cons] at m
    rcases m with m | m
    · exact hne m
    · have := post.nodup new hnewhead
      rw [hl0] at this
      simp only [List.nodup_cons] at this
      exact this.1 m
  · by_cases e2 : hd2 = new
    · rw [e2] at h2
      -- `new` was itself a list object: afterwards it heads the moved list and its own old list at once
      have hdup : ¬ (a.step (.moveList new old)).heads.Nodup := by
        simp only [Abs.step, List.nodup_cons, not_and]
        intro hc; exact absurd ((List.mem_erase_of_ne hne).2 h2) hc
      exact hdup post.heads_nodup
    · have h2' : hd2 ∈ (a.step (.moveList new old)).heads := by
        simp only [Abs.step, List.mem_cons]; right; exact (List.mem_erase_of_ne e).2 h2
      have hl : (a.step (.moveList new old)).lists hd2 = a.lists hd2 := by simp [Abs.step, e, e2]
      have := post.disj new hnewhead hd2 h2' (Ne.symm e2) new (by simp)
      rw [hl] at this
      exact this m


/-- a new list object is legal whenever the result is well formed. -/
theorem newList_legal_of_wf_post (a : Abs P) (hd : P) (post : AbsWf (a.step (.newList hd))) : a.legal (.newList hd) := by
  rintro ⟨hd2, h2, m⟩
  by_cases e : hd2 = hd
  · subst e
    have := post.heads_nodup
    simp only [Abs.step, List.nodup_cons] at this
    exact this.1 h2
  · have hl : (a.step (.newList hd)).lists hd2 = a.lists hd2 := by simp [Abs.step, e]
    have := post.disj hd (by simp [Abs.step]) hd2 (by simp [Abs.step, h2]) (Ne.symm e) hd (by simp)
    rw [hl] at this
    exact this m

/-- the part of legality that is not about well-formedness: list objects are used as list objects and elements as
    elements (in the library: by their C++ types), and `~list()` of an `ignore_disposer` list runs only on an empty one. -/
def _root_.Tromp.Ring.Abs.typed (a : Abs P) : Op P → Prop
  | .newList _ => True
  | .pushFront hd _ => hd ∈ a.heads
  | .pushBack hd _ => hd ∈ a.heads
  | .unlink x => x ∉ a.heads
  | .moveList new old => old ∈ a.heads ∧ new ≠ old
  | .dropList hd => hd ∈ a.heads ∧ a.lists hd = []
  | .disposeList hd => hd ∈ a.heads

/-- **every operation whose result is a well-formed list family is legal** — so a script all of whose intermediate
    list families are well formed (what the World invariant `WF` asserts of the World's lists) is a legal ring script, and
    `ring_refines_lists` applies to it. -/
theorem legal_of_wf_post (a : Abs P) (op : Op P) (ht : a.typed op) (post : AbsWf (a.step op)) : a.legal op := by
  cases op with
  | newList hd => exact newList_legal_of_wf_post a hd post
  | pushFront hd t => exact push_legal_of_wf_post a hd t true ht post
  | pushBack hd t => exact push_legal_of_wf_post a hd t false ht post
  | unlink x => exact ht
  | moveList new old => exact move_legal_of_wf_post a new old ht.1 ht.2 post
  | dropList hd => exact ht
  | disposeList hd => exact ht

/-- every operation of the script is well typed and leaves a well-formed list family. -/
def WfRun : Abs P → List (Op P) → Prop
  | _, [] => True
  | a, op :: ops => a.typed op ∧ AbsWf (a.step op) ∧ WfRun (a.step op) ops

theorem legalRun_of_wfRun (a : Abs P) (ops : List (Op P)) (h : WfRun a ops) : legalRun a ops := by
  induction ops generalizing a with
  | nil => trivial
  | cons op ops ih => exact ⟨legal_of_wf_post a op h.1 h.2.1, ih _ h.2.2⟩

/-- **C14 (ring), from the lists' well-formedness to the heap.**  A script whose list families are well formed throughout
    is realised by the C++ ring operations: the heap represents the lists after it. -/
theorem heap_realises_wf_script (ops : List (Op P)) (h : WfRun Abs.init ops) :
    Rep (run (Abs.init, Heap.init) ops).2 (run (Abs.init, Heap.init) ops).1 :=
  rep_run rep_init ops (legalRun_of_wfRun _ ops h)

/-! ### non-vacuity: a concrete script with two lists, pushes at both ends, removal from the middle, a move, a disposal -/

instance decLegalRun : (a : Abs P) → (ops : List (Op P)) → Decidable (legalRun a ops)
  | _, [] => isTrue trivial
  | a, op :: ops => by
    unfold legalRun
    exact @instDecidableAnd _ _ _ (decLegalRun (a.step op) ops)

def demoOps : List (Op Nat) :=
  [.newList 0, .newList 1, .pushBack 0 10, .pushFront 0 11, .pushBack 1 20, .pushBack 0 12, .unlink 10,
   .moveList 2 0, .pushFront 2 10, .unlink 20, .dropList 1, .disposeList 2]

example : legalRun (Abs.init : Abs Nat) demoOps := by decide
example : (run ((Abs.init : Abs Nat), (Heap.init : Heap Nat)) (demoOps.take 9)).1.heads = [2, 1] := by decide
example : (run ((Abs.init : Abs Nat), (Heap.init : Heap Nat)) (demoOps.take 9)).1.lists 2 = [10, 11, 12] := by decide
example : toList (run ((Abs.init : Abs Nat), (Heap.init : Heap Nat)) (demoOps.take 9)).2 2 4 = [10, 11, 12] := by decide
example : toListBack (run ((Abs.init : Abs Nat), (Heap.init : Heap Nat)) (demoOps.take 9)).2 2 4 = [12, 11, 10] := by decide
example : Reachable (run ((Abs.init : Abs Nat), (Heap.init : Heap Nat)) demoOps).1 (run ((Abs.init : Abs Nat), (Heap.init : Heap Nat)) demoOps).2 :=
  ⟨demoOps, by decide, rfl⟩

end Tromp.C14Ring
