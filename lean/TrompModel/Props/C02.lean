/-
  Props/C02.lean — the newest eligible matching expectation handles the call; no other is touched.
-/
import TrompModel.Props.C01

namespace Tromp.C02
open Tromp World

/-- **C02, selection.**  What `find` returns matches the call, no matching expectation has a
    strictly lower cost, and every matching expectation created later (nearer the front of the
    newest-first list) has a strictly higher cost — i.e. least cost, most recently created on ties. -/
theorem find_min_newest {α : Type} (m : α → Bool) (c : α → Cost) (l : List α) (e : α)
    (h : (find m c l).1 = some e) :
    m e = true ∧
    (∀ x ∈ l, m x = true → Cost.lt (c x) (c e) = false) ∧
    (∃ pre post, l = pre ++ e :: post ∧ ∀ x ∈ pre, m x = true → Cost.lt (c e) (c x) = true) := by
  have hs := find_spec m c l
  rw [h] at hs
  obtain ⟨pre, post, hl, hm, hpre, hpost⟩ := hs
  refine ⟨hm, ?_, pre, post, hl, hpre⟩
  intro x hx hmx
  rw [hl] at hx
  rcases List.mem_append.mp hx with hin | hin
  · have := hpre x hin hmx
    cases hce : c e <;> cases hcx : c x <;> simp_all [Cost.lt] <;> omega
  · rcases List.mem_cons.mp hin with rfl | hin
    · exact Cost.lt_irrefl _
    · exact hpost x hin hmx

/-- **C02, without sequences this is simply the newest match.**  If every matching expectation
    passes over no step (cost 0, e.g. all are unsequenced) the handler is the first match of the
    newest-first list. -/
theorem no_sequences_newest {α : Type} (m : α → Bool) (c : α → Cost) (l : List α)
    (h0 : ∀ x ∈ l, m x = true → c x = some 0) : (find m c l).1 = l.find? m := by
  unfold find
  simp only
  induction l with
  | nil => rfl
  | cons x xs ih =>
    unfold findGo
    by_cases hm : m x = true
    · simp [hm, h0 x (by simp) hm, List.find?]
    · have hm' : m x = false := by simpa using hm
      simp only [hm', Bool.false_eq_true, if_false, List.find?]
      exact ih (fun y hy => h0 y (List.mem_cons_of_mem _ hy))

/-- an unsequenced expectation passes over no step. -/
theorem unsequenced_cost_zero (w : World) (e : Nat) (x : Exp) (hx : w.exps e = some x) (hs : x.seqs = []) :
    w.expOrder e = some 0 := by
  rw [expOrder_eq w e x hx, hs]; rfl

/-- **C02, frame.**  For an accepted call handled by `e`: only `e`'s record changes, and only its
    call count (+1) and list membership; every SIDE_EFFECT / RETURN evaluation belongs to `e`;
    expectations placed on another object are untouched, and on the called object only the two
    lists of the called function can change (so another mock function or overload — a different
    `f` — is never counted, run or reported because of the call). -/
theorem C02_frame (w : World) (o f : Nat) (a : Args) (m : Mock) (hm : w.mocks o = some m)
    (hex : ∀ e ∈ m.active f, ∃ x, w.exps e = some x)
    (hacc : C01.Accepted (w.callFn o f a).2) :
    ∃ e x, (find (w.expMatches a) w.expOrder (m.active f)).1 = some e ∧ w.exps e = some x ∧
      (∀ e', e' ≠ e → (w.callFn o f a).1.exps e' = w.exps e') ∧
      ((w.callFn o f a).1.exps e).map (·.count) = some (x.count + 1) ∧
      (∀ ev ∈ (w.callFn o f a).2, ev.isAction = true → ev.actor = some e) ∧
      (∀ o', o' ≠ o → (w.callFn o f a).1.mocks o' = w.mocks o') ∧
      (∃ m', (w.callFn o f a).1.mocks o = some m' ∧
        ∀ g, g ≠ f → m'.active g = m.active g ∧ m'.saturated g = m.saturated g) := by
  cases callFn_cases w o f a m hm hex with
  | noMatch hfind heq =>
    exfalso
    obtain ⟨pre, r, hev, _, _⟩ := reportMismatch_events w m f a
    have := hacc (w.rep .fatal r) (by rw [heq]; simp [hev])
    simp [rep, Ev.isReport] at this
  | forbidden e x hfind hx hhi heq =>
    exfalso
    have := hacc (w.rep .fatal (.forbidden e a)) (by rw [heq]; simp)
    simp [rep, Ev.isReport] at this
  | blocked e x r hfind hx hhi hord hrk0 heq =>
    exfalso
    have := hacc (w.rep .fatal r) (by rw [heq]; simp)
    simp [rep, Ev.isReport] at this
  | accepted e x n hfind hx hhi hord heq =>
    refine ⟨e, x, hfind, hx, ?_, ?_, ?_, ?_, ?_⟩
    · intro e' he'; rw [heq]; exact bookkeep_exps_other w o f e x m he'
    · rw [heq]; simp [bookkeep_exps_same]
    · intro ev hev hact
      rw [heq] at hev
      simp only [List.mem_append, List.mem_cons, List.mem_singleton, List.not_mem_nil, or_false] at hev
      rcases hev with h | ((rfl | h) | h) | rfl
      · obtain ⟨e', i, rfl⟩ := flatMap_matchLog_all_with w a _ ev h; cases hact
      · cases hact
      · exact (actionEvents_actor e x a ev h).2
      · obtain ⟨t, rfl⟩ := traceEv_all_trace w e a _ ev h; cases hact
      · cases hact
    · intro o' ho'; rw [heq]; exact bookkeep_mocks_other w o f e x m ho'
    · rw [heq]
      obtain ⟨m', h1, _, h3, _, _⟩ := bookkeep_mock_same w o f e x m hm
      exact ⟨m', h1, h3⟩

/-! ### non-vacuity: a blocked newer expectation yields to an older eligible one; ties go to the newest -/
private def spec (lo hi : Nat) (ss : List Nat) (v : Int) : ExpectSpec :=
  { obj := 0, fn := 1, params := [fun _ => true], conds := [], effects := [], ret := some (fun _ => .val v),
    lo := lo, hi := hi, rt := true, seqs := ss }
private def ex : World :=
  (({} : World).run [.mock 0 true, .seq 0, .expect 0 (spec 1 1 [0] 100), .expect 1 (spec 1 1 [0] 101),
                     .expect 2 (spec 0 5 [] 102)]).1

-- newest (e2, unsequenced, cost 0) wins over e0 (cost 0, older) and e1 (blocked)
example : (ex.step (.call 0 1 [1])).2 = [.ok 0 2, .evalRet 2, .result (.val 102)] := by decide
-- once e2 is gone, the blocked newer e1 yields to the older eligible e0
example : ((ex.run [.release 2]).1.step (.call 0 1 [1])).2 = [.ok 0 0, .evalRet 0, .result (.val 100)] := by decide

end Tromp.C02
