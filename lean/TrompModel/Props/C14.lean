/-
  Props/C14.lean — any destruction / move order of mocks, expectations, sequences, monitors,
  watched objects and tracers leaves the library's linkage consistent; a moved mock object's
  expectations behave on the new object as they would have on the old one.

  The model keeps every reference the C++ keeps as an id in a field (list membership, `Exp.obj`,
  `Exp.link`, `Exp.seqs`, `Seq.pending`, `Watched.monitors`, `Mon.target`, `tracers`).  `WF` is
  the linkage invariant; it is proved for every world reachable by *any* script of the 23
  operations, legal or not — in particular every order of `release`, `kill`, `move`, `killseq`,
  `killw`, `releasemon`, `killtracer` interleaved with calls and queries.
-/
import TrompModel.Lemmas.InvChain
import TrompModel.Lemmas.Nested

namespace Tromp.C14
open Tromp World

/-- the worlds some script leads to from the empty world. -/
def Reachable (w : World) : Prop := ∃ ops : List Op, w = (World.run {} ops).1

theorem run_WF (ops : List Op) : ∀ {w : World}, WF w → WF (w.run ops).1 := by
  induction ops with
  | nil => intro w h; exact h
  | cons op ops ih =>
    intro w h
    simp only [World.run]
    exact ih (h.step op)

/-- **C14, linkage.**  The linkage invariant holds in every reachable world, whatever the order
    of creations, calls, queries, moves and destructions. -/
theorem reachable_WF {w : World} (h : Reachable w) : WF w := by
  obtain ⟨ops, rfl⟩ := h
  exact run_WF ops WF.init

/-- **C14, no dangling list entry.**  Whatever a mock function's lists name exists, is alive, is
    attached to exactly this object and function, and is marked as being on this list — so the
    traversals of `find`, `report_mismatch` and `decommission` never meet a destroyed or foreign
    expectation. -/
theorem no_dangling_entry {w : World} (h : Reachable w) (o f e : Nat) (m : Mock) (hm : w.mocks o = some m) :
    (e ∈ m.active f → ∃ x, w.exps e = some x ∧ x.alive = true ∧ x.obj = o ∧ x.fn = f ∧ x.link = .active) ∧
    (e ∈ m.saturated f → ∃ x, w.exps e = some x ∧ x.alive = true ∧ x.obj = o ∧ x.fn = f ∧ x.link = .saturated) :=
  ⟨(reachable_WF h).act o m f e hm, (reachable_WF h).sat o m f e hm⟩

/-- **C14, a destroyed expectation is on no list.**  Once `release` has run — in any order
    relative to the death or move of its object and its sequences — no list mentions it. -/
theorem destroyed_is_unlisted {w : World} (h : Reachable w) (e : Nat) (x : Exp) (hx : w.exps e = some x)
    (hd : x.alive = false) (o f : Nat) (m : Mock) (hm : w.mocks o = some m) :
    e ∉ m.active f ∧ e ∉ m.saturated f := by
  have hw := reachable_WF h
  constructor
  · intro hin
    obtain ⟨x', hx', ha, _⟩ := hw.act o m f e hm hin
    rw [hx] at hx'; cases hx'; rw [hd] at ha; cases ha
  · intro hin
    obtain ⟨x', hx', ha, _⟩ := hw.sat o m f e hm hin
    rw [hx] at hx'; cases hx'; rw [hd] at ha; cases ha

/-- **C14, a destroyed mock object has empty lists** (its expectations were detached, not freed:
    they stay alive and are merely unlinked). -/
theorem dead_mock_empty (w : World) (o : Nat) (m : Mock) (hm : w.mocks o = some m) :
    ∀ m', (w.killMock o m).1.mocks o = some m' → m'.alive = false ∧ (∀ f, m'.active f = []) ∧ (∀ f, m'.saturated f = []) := by
  intro m' h'
  unfold World.killMock at h'
  simp only [setMock_mocks_same, Option.some.injEq] at h'
  subst h'
  exact ⟨rfl, fun _ => rfl, fun _ => rfl⟩

/-- **C14, no entry is on two lists**, and none is listed twice: the intrusive lists are
    disjoint and duplicate-free, as `list_elem`'s one pair of links demands. -/
theorem entry_unique {w : World} (h : Reachable w) (e : Nat) (o o' f f' : Nat) (m m' : Mock)
    (hm : w.mocks o = some m) (hm' : w.mocks o' = some m')
    (hin : e ∈ m.active f ∨ e ∈ m.saturated f) (hin' : e ∈ m'.active f' ∨ e ∈ m'.saturated f') :
    o = o' ∧ f = f' ∧ (m.active f).Nodup ∧ (m.saturated f).Nodup ∧ ¬ (e ∈ m.active f ∧ e ∈ m.saturated f) := by
  have hw := reachable_WF h
  have hx : ∃ x, w.exps e = some x := by
    rcases hin with hin | hin
    · obtain ⟨x, hx, _⟩ := hw.act o m f e hm hin; exact ⟨x, hx⟩
    · obtain ⟨x, hx, _⟩ := hw.sat o m f e hm hin; exact ⟨x, hx⟩
  obtain ⟨x, hx⟩ := hx
  obtain ⟨h1, h2, _⟩ := hw.listed_only_at_home e x hx o m f hm hin
  obtain ⟨h1', h2', _⟩ := hw.listed_only_at_home e x hx o' m' f' hm' hin'
  refine ⟨h1.trans h1'.symm, h2.trans h2'.symm, hw.actNodup o m f hm, hw.satNodup o m f hm, ?_⟩
  intro ⟨ha, hs⟩
  obtain ⟨x1, hx1, _, _, _, l1⟩ := hw.act o m f e hm ha
  obtain ⟨x2, hx2, _, _, _, l2⟩ := hw.sat o m f e hm hs
  rw [hx] at hx1 hx2; cases hx1; cases hx2
  rw [l1] at l2; cases l2

/-- **C14, the counters agree with the list an expectation is on.** -/
theorem counters_consistent {w : World} (h : Reachable w) (e : Nat) (x : Exp) (hx : w.exps e = some x) :
    x.count ≤ x.hi ∧ x.lo ≤ x.hi ∧ (x.link = .active → x.count < x.hi ∨ x.hi = 0) ∧ (x.link = .saturated → x.count = x.hi) :=
  (reachable_WF h).counters e x hx

/-! ### what the other properties' theorems assume of a world holds in every reachable one -/

theorem reachable_hex {w : World} (h : Reachable w) (o f : Nat) (m : Mock) (hm : w.mocks o = some m) :
    ∀ e ∈ m.active f, ∃ x, w.exps e = some x := fun e he => by
  obtain ⟨x, hx, _⟩ := (reachable_WF h).act o m f e hm he; exact ⟨x, hx⟩

theorem reachable_nodup {w : World} (h : Reachable w) (o f : Nat) (m : Mock) (hm : w.mocks o = some m) :
    (m.active f).Nodup := (reachable_WF h).actNodup o m f hm

theorem reachable_seqsNodup {w : World} (h : Reachable w) (e : Nat) (x : Exp) (hx : w.exps e = some x) :
    x.seqs.Nodup := (reachable_WF h).seqsNodup e x hx

/-- C01's uniqueness of the selected expectation, for every reachable world, hypothesis-free. -/
theorem selected_unique_reachable {w : World} (h : Reachable w) (o f : Nat) (m : Mock) (hm : w.mocks o = some m)
    (a : Args) (e e' : Nat)
    (h1 : IsDesignated (w.expMatches a) w.expOrder (m.active f) e)
    (h2 : IsDesignated (w.expMatches a) w.expOrder (m.active f) e') : e = e' :=
  IsDesignated.unique (reachable_nodup h o f m hm) h1 h2

/-! ### handles and sequences -/

theorem run_WFSeq (ops : List Op) : ∀ {w : World}, WFSeq w → WFSeq (w.run ops).1 := by
  induction ops with
  | nil => intro w h; exact h
  | cons op ops ih =>
    intro w h
    simp only [World.run]
    exact ih (h.step op)

/-- the handle ↔ sequence invariant holds in every reachable world. -/
theorem reachable_WFSeq {w : World} (h : Reachable w) : WFSeq w := by
  obtain ⟨ops, rfl⟩ := h
  exact run_WFSeq ops WFSeq.init

/-- **C14, no dangling handle.**  Whatever a sequence object's handle list names is a live
    expectation or destruction requirement that registered in exactly this sequence; the list has
    no duplicates.  So `cost`, `retire_until`, `validate_match` and `is_completed` never follow a
    handle of a destroyed owner, whatever the order of destructions was. -/
theorem no_dangling_handle {w : World} (h : Reachable w) (s : Nat) (ow : Owner) (hin : ow ∈ w.pendingOf s) :
    w.ownerAlive ow = true ∧ s ∈ w.ownerSeqs ow ∧ (w.pendingOf s).Nodup :=
  ⟨((reachable_WFSeq h).pend s ow hin).1, ((reachable_WFSeq h).pend s ow hin).2, (reachable_WFSeq h).nodup s⟩

/-- **C14, a destroyed owner is in no sequence**: after `release` (or `releasemon`) no sequence
    mentions the expectation (requirement) any more. -/
theorem destroyed_owner_in_no_sequence {w : World} (h : Reachable w) (ow : Owner) (hd : w.ownerAlive ow = false) (s : Nat) :
    ow ∉ w.pendingOf s := fun hin => by
  have := ((reachable_WFSeq h).pend s ow hin).1
  rw [hd] at this; cases this

/-- **C14, a destroyed sequence object holds no handle** — the handles that outlive it were
    detached (sequence.hpp:286-309), so none of them refers to it any more; `handleCost` of such
    a handle is 0: it imposes no order. -/
theorem destroyed_sequence_detached {w : World} (h : Reachable w) (s : Nat) (hd : w.seqAlive s = false) :
    w.pendingOf s = [] ∧ ∀ ow, w.handleCost ow s = some 0 := by
  refine ⟨(reachable_WFSeq h).dead s hd, fun ow => ?_⟩
  simp [World.handleCost, hd]

/-- the registration hypothesis of C06's theorems (`hreg`) holds in every reachable world. -/
theorem reachable_hreg {w : World} (h : Reachable w) (e : Nat) (x : Exp) (hx : w.exps e = some x) :
    ∀ s, Owner.exp e ∈ w.pendingOf s → s ∈ x.seqs := by
  intro s hin
  have := ((reachable_WFSeq h).pend s _ hin).2
  simpa [World.ownerSeqs, hx] using this


/-! ### watched objects, destruction requirements, tracers -/

theorem run_WFChain (ops : List Op) : ∀ {w : World}, WFChain w → WFChain (w.run ops).1 := by
  induction ops with
  | nil => intro w h; exact h
  | cons op ops ih => intro w h; simp only [World.run]; exact ih (h.step op)

theorem run_WFTr (ops : List Op) : ∀ {w : World}, WFTr w → WFTr (w.run ops).1 := by
  induction ops with
  | nil => intro w h; exact h
  | cons op ops ih => intro w h; simp only [World.run]; exact ih (h.step op)

theorem reachable_WFChain {w : World} (h : Reachable w) : WFChain w := by
  obtain ⟨ops, rfl⟩ := h
  exact run_WFChain ops WFChain.init

theorem reachable_WFTr {w : World} (h : Reachable w) : WFTr w := by
  obtain ⟨ops, rfl⟩ := h
  exact run_WFTr ops WFTr.init

/-- **C14, the object's chain names only live requirements of this very object** — so
    `~deathwatched` (lifetime.hpp:142-157) notifies no destroyed monitor, in any history. -/
theorem no_dangling_requirement {w : World} (h : Reachable w) (x m : Nat) (y : Watched) (hy : w.watched x = some y)
    (hin : m ∈ y.monitors) : ∃ mon, w.mons m = some mon ∧ mon.alive = true ∧ mon.died = false ∧ mon.target = x :=
  (reachable_WFChain h).chain x y m hy hin

/-- **C14, a live, un-notified requirement's object is alive** and has the requirement on its
    chain — so `~lifetime_monitor` (lifetime.hpp:92-102), which unchains itself from the object
    exactly when it was not notified, never writes into a destroyed object; and if the object died
    first the requirement was notified (`died`) and leaves the object alone. -/
theorem requirement_target_alive {w : World} (h : Reachable w) (m : Nat) (mon : Mon) (hm : w.mons m = some mon)
    (ha : mon.alive = true) (hd : mon.died = false) :
    ∃ y, w.watched mon.target = some y ∧ y.alive = true ∧ m ∈ y.monitors :=
  (reachable_WFChain h).home m mon hm ha hd

/-- contrapositive: once the object is dead every requirement that was on it has been notified. -/
theorem dead_object_notified_all {w : World} (h : Reachable w) (m : Nat) (mon : Mon) (hm : w.mons m = some mon)
    (ha : mon.alive = true) (y : Watched) (hy : w.watched mon.target = some y) (hdead : y.alive = false) :
    mon.died = true := by
  cases hd : mon.died with
  | true => rfl
  | false =>
    obtain ⟨y', hy', hal, _⟩ := requirement_target_alive h m mon hm ha hd
    rw [hy] at hy'; cases hy'; rw [hdead] at hal; cases hal

/-- **C14, a destroyed object has an empty chain.** -/
theorem dead_object_empty_chain {w : World} (h : Reachable w) (x : Nat) (y : Watched) (hy : w.watched x = some y)
    (hd : y.alive = false) : y.monitors = [] :=
  (reachable_WFChain h).deadW x y hy hd

/-- **C14, the tracer stack** holds each live tracer once; destroying tracers in any order never
    leaves a destroyed tracer on it (`killtracer` removes exactly that tracer, wherever it is). -/
theorem tracer_stack_sound {w : World} (h : Reachable w) : w.tracers.Nodup ∧ ∀ t ∈ w.tracers, t < w.nextT :=
  ⟨(reachable_WFTr h).nodup, (reachable_WFTr h).bound⟩

theorem killed_tracer_gone (w : World) (t : Nat) (hl : w.legal (.killtracer t) = true) :
    t ∉ (w.step (.killtracer t)).1.tracers := by
  simp [World.step, hl]


/-! ### moving a mock object -/

/-- **C14, move: the lists change owner.**  After `move o o'` the new object holds exactly the
    lists the old one had (active and saturated, every function, order kept), the old object is
    alive with empty lists, every moved expectation names the new object and nothing else about
    any expectation changed. -/
theorem move_transfers (w : World) (o o' : Nat) (m : Mock) (hm : w.mocks o = some m) (hne : o' ≠ o) :
    (∃ m', (w.moveMock o o' m).mocks o' = some m' ∧ m'.alive = true ∧ m'.active = m.active ∧ m'.saturated = m.saturated) ∧
    (∃ m0, (w.moveMock o o' m).mocks o = some m0 ∧ m0.alive = m.alive ∧ (∀ f, m0.active f = []) ∧ (∀ f, m0.saturated f = [])) ∧
    (∀ e, ExpRel (w.exps e) ((w.moveMock o o' m).exps e)) := by
  refine ⟨⟨{ m with alive := true }, ?_, rfl, rfl, rfl⟩,
    ⟨{ m with active := fun _ => [], saturated := fun _ => [] }, ?_, rfl, fun _ => rfl, fun _ => rfl⟩,
    (moveMock_rel w o o' m hm hne).exps⟩
  · unfold World.moveMock; simp only; rw [setMock_mocks_other _ _ hne, setMock_mocks_same]
  · unfold World.moveMock; simp only; exact setMock_mocks_same _ _ _

/-- in a reachable world the legal move's target id is fresh, hence different from the source. -/
theorem legal_move_ne {w : World} (h : Reachable w) (o o' : Nat) (hl : w.legal (.move o o') = true) : o' ≠ o := by
  simp only [World.legal, Bool.and_eq_true, beq_iff_eq] at hl
  intro heq
  have := (reachable_WF h).freshMock o (by omega)
  rw [this] at hl
  simp at hl

/-- **C14, move: behaviour follows the expectations.**  For every series of calls, of any length,
    making it on the new object after the move produces — call by call — the events that making it
    on the old object without the move would have produced: same matches, same WITH/SIDE_EFFECT/
    RETURN evaluations, same reports (with the same listings of active and saturated
    expectations), same trace records, same results. -/
theorem move_preserves_behaviour {w : World} (h : Reachable w) (o o' : Nat) (hl : w.legal (.move o o') = true)
    (cs : List (Nat × Args)) :
    (callsOn (w.step (.move o o')).1 o' cs).2 = (callsOn w o cs).2 := by
  have hne := legal_move_ne h o o' hl
  simp only [World.legal, Bool.and_eq_true, beq_iff_eq] at hl
  cases hm : w.mocks o with
  | none => rw [hm] at hl; simp at hl
  | some m =>
    have hstep : (w.step (.move o o')).1 = w.moveMock o o' m := by
      unfold World.step
      have hl' : w.legal (.move o o') = true := by
        simp only [World.legal, Bool.and_eq_true, beq_iff_eq]; exact hl
      simp only [hl', Bool.not_true, Bool.false_eq_true, if_false, hm]
    rw [hstep]
    exact MovedRel.callsOn cs (moveMock_rel w o o' m hm hne)

/-- the same statement for any world in which the moved relation holds — moves can be chained. -/
theorem moved_calls_agree {w w' : World} {o o' : Nat} (r : MovedRel w w' o o') (cs : List (Nat × Args)) :
    (callsOn w' o' cs).2 = (callsOn w o cs).2 := MovedRel.callsOn cs r

/-! ### the statements are not vacuous -/

/-- a world with a movable mock holding one active and one saturated expectation. -/
def demoOps : List Op :=
  [ .mock 0 true,
    .expect 0 { obj := 0, fn := 0, params := [fun _ => true], conds := [], effects := [], ret := none,
                lo := 1, hi := 1, rt := false, seqs := [] },
    .expect 1 { obj := 0, fn := 0, params := [fun v => v == 7], conds := [], effects := [], ret := none,
                lo := 0, hi := 2, rt := false, seqs := [] },
    .call 0 0 [7] ]

example : Reachable (World.run {} demoOps).1 := ⟨demoOps, rfl⟩
example : ((World.run {} demoOps).1.legal (.move 0 1)) = true := by decide
example : ((World.run {} demoOps).1.mocks 0).map (fun m => (m.active 0, m.saturated 0)) = some ([1, 0], []) := by decide
example : (((World.run {} demoOps).1.step (.call 0 0 [3])).1.mocks 0).map (fun m => (m.active 0, m.saturated 0)) = some ([1], [0]) := by decide

/-- **C14, re-entrancy.**  A side effect that calls a mock function while its own call is still being handled leads
    to a world some plain script leads to (the same calls, outer first) — so every statement above about reachable
    worlds holds during and after re-entrant calls, at any nesting depth. -/
theorem reentrant_reachable {w : World} (h : Reachable w) (nest : NestMap) (fuel o f : Nat) (a : Args) :
    Reachable (callN nest fuel w o f a).1 := by
  obtain ⟨ops, rfl⟩ := h
  obtain ⟨cs, hcs⟩ := (callN_world_is_run nest fuel).1 (World.run {} ops).1 o f a
  exact ⟨ops ++ callOps cs, by rw [hcs, run_append]⟩

theorem reentrant_WF {w : World} (h : Reachable w) (nest : NestMap) (fuel o f : Nat) (a : Args) :
    WF (callN nest fuel w o f a).1 := reachable_WF (reentrant_reachable h nest fuel o f a)

end Tromp.C14
