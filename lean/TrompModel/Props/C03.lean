/-
  Props/C03.lean — call-count bounds: at most max accepted; satisfied/saturated track min/max.
  (`count ≤ hi` and "on the active list ⇒ count < hi ∨ hi = 0" for every reachable world are
  clauses of the invariant proved in Props/C14.)
-/
import TrompModel.Props.C02

namespace Tromp.C03
open Tromp World

/-- **C03.** `is_satisfied()` is true exactly when the handled count is at least the lower bound. -/
theorem sat_answer (w : World) (e : Nat) (x : Exp) (hx : w.exps e = some x) (ha : x.alive = true) :
    w.step (.sat e) = (w, [.answer (decide (x.lo ≤ x.count))]) := by
  simp [step, legal, expAlive, hx, ha, ownerSat]

/-- **C03.** `is_saturated()` is true exactly when the handled count equals the upper bound. -/
theorem satd_answer (w : World) (e : Nat) (x : Exp) (hx : w.exps e = some x) (ha : x.alive = true) :
    w.step (.satd e) = (w, [.answer (x.count == x.hi)]) := by
  simp [step, legal, expAlive, hx, ha]

/-- a monitor is satisfied and saturated exactly when its object has died. -/
theorem monitor_answers (w : World) (mid : Nat) (x : Mon) (hx : w.mons mid = some x) (ha : x.alive = true) :
    w.step (.msat mid) = (w, [.answer x.died]) ∧ w.step (.msatd mid) = (w, [.answer x.died]) := by
  constructor <;> simp [step, legal, monAlive, hx, ha, ownerSat]

/-- **C03, counting.**  Each accepted call advances the handler's count by exactly one, and the
    handler leaves the active list (for the saturated list) exactly when the new count equals the
    upper bound — from then on it cannot be designated again (`find` only looks at the active list). -/
theorem saturation_step (w : World) (o f e : Nat) (x : Exp) (m : Mock) (hm : w.mocks o = some m) :
    (w.bookkeep o f e x m).exps e =
      some { x with count := x.count + 1, link := if x.count + 1 = x.hi then Link.saturated else x.link } ∧
    ∃ m', (w.bookkeep o f e x m).mocks o = some m' ∧
      m'.active f = (if x.count + 1 = x.hi then (m.active f).filter (· ≠ e) else m.active f) ∧
      m'.saturated f = (if x.count + 1 = x.hi then m.saturated f ++ [e] else m.saturated f) := by
  refine ⟨bookkeep_exps_same w o f e x m, ?_⟩
  obtain ⟨m', h1, _, _, h4, h5⟩ := bookkeep_mock_same w o f e x m hm
  exact ⟨m', h1, h4, h5⟩

/-- an expectation that is not on the active list is never the handler. -/
theorem not_active_not_handler (w : World) (m : Mock) (f : Nat) (a : Args) (e : Nat) (h : e ∉ m.active f) :
    (find (w.expMatches a) w.expOrder (m.active f)).1 ≠ some e :=
  fun hf => h (find_some_mem hf).1

/-- **C03, a matching call beyond the upper bound** with no other active match is one fatal
    violation that names exactly the saturated expectations that would have matched. -/
theorem beyond_hi (w : World) (o f : Nat) (a : Args) (m : Mock) (hm : w.mocks o = some m)
    (hnone : ∀ e ∈ m.active f, w.expMatches a e = false)
    (hsat : (m.saturated f).filter (w.expMatches a) ≠ []) :
    ∃ pre, (w.callFn o f a) =
      (w, pre ++ [Ev.report .fatal w.reporter (.noMatch f a ((m.saturated f).filter (w.expMatches a)) []),
                  .result (.threw .rep)]) ∧
      ∀ ev ∈ pre, ∃ e i, ev = Ev.evalWith e i := by
  have hfind : (find (w.expMatches a) w.expOrder (m.active f)).1 = none := (find_none_iff _ _ _).mpr hnone
  unfold callFn
  simp only [hm]
  rw [show find (w.expMatches a) w.expOrder (m.active f) =
    ((find (w.expMatches a) w.expOrder (m.active f)).1, (find (w.expMatches a) w.expOrder (m.active f)).2) from rfl]
  simp only [hfind]
  have hne : ((m.saturated f).filter (w.expMatches a)).isEmpty = false := by
    cases h : (m.saturated f).filter (w.expMatches a) with
    | nil => exact absurd h hsat
    | cons _ _ => rfl
  simp only [reportMismatch, hne, Bool.false_eq_true, if_false, rep]
  refine ⟨_, by rw [← List.append_assoc], ?_⟩
  intro ev hev
  rcases List.mem_append.mp hev with h | h
  · exact flatMap_matchLog_all_with w a _ ev h
  · exact flatMap_matchLog_all_with w a _ ev h

/-- **C03, RT_TIMES with low > high** throws `std::logic_error` and leaves no expectation and no
    sequence registration behind. -/
theorem rt_times_inverted (w : World) (e : Nat) (x : ExpectSpec) (hl : w.legal (.expect e x) = true)
    (hrt : x.rt = true) (hinv : x.hi < x.lo) :
    w.step (.expect e x) = ({ w with nextE := e + 1 }, [.threwLogic]) := by
  simp [step, hl, hrt, hinv]

theorem rt_times_inverted_leaves_nothing (w : World) (e : Nat) (x : ExpectSpec) (hl : w.legal (.expect e x) = true)
    (hrt : x.rt = true) (hinv : x.hi < x.lo) :
    (w.step (.expect e x)).1.exps = w.exps ∧ (w.step (.expect e x)).1.seqs = w.seqs ∧
    (w.step (.expect e x)).1.mocks = w.mocks := by
  rw [rt_times_inverted w e x hl hrt hinv]; exact ⟨rfl, rfl, rfl⟩

/-! ### non-vacuity -/
private def spec (lo hi : Nat) (rt : Bool) : ExpectSpec :=
  { obj := 0, fn := 1, params := [fun _ => true], conds := [], effects := [], ret := some (fun _ => .val 7),
    lo := lo, hi := hi, rt := rt, seqs := [] }
private def ex : World := (({} : World).run [.mock 0 true, .expect 0 (spec 1 2 true)]).1

example : (ex.step (.sat 0)).2 = [.answer false] := by decide
example : ((ex.run [.call 0 1 [1]]).1.run [.sat 0, .satd 0]).2 = [[.answer true], [.answer false]] := by decide
example : ((ex.run [.call 0 1 [1], .call 0 1 [1]]).1.run [.sat 0, .satd 0, .call 0 1 [1]]).2 =
    [[.answer true], [.answer true], [.report .fatal 0 (.noMatch 1 [1] [0] []), .result (.threw .rep)]] := by decide
example : (ex.step (.expect 1 (spec 3 1 true))).2 = [.threwLogic] := by decide

end Tromp.C03
