/-
  Props/C14_SeqRing.lean — the operations on the sequences' pending lists, down to the pointers.

  `seqRingOf w n` (Props/C14_WorldRing.lean) reads the pending lists of the sequences `< n` of a World as a ring family:
  the list object of sequence `s` is `SAddr.pending s`, the `sequence_matcher` handle of owner `o` in sequence `s` is
  `SAddr.handle o s`.  This file carries the three things the library does to those lists through the ring layer
  (Lemmas/Ring.lean):

  * registration (`sequence_type::add_last` for each `IN_SEQUENCE` argument: `push_back` of the handle),
  * leaving (`sequence_matchers<N>::retire` / the handle destructors: `unlink` of every own handle),
  * skipping (`retire_predecessors`: the handles in front of the own one are unlinked one after the other),

  each as a script of ring operations that is legal in every world satisfying the sequence invariant `WFSeq` and that takes a
  heap representing the lists before to a heap representing the lists after.  The `expect` and `release` steps of the World
  are then instances.
-/
import TrompModel.Props.C14_WorldRing

namespace Tromp.C14Ring
open Tromp Tromp.Ring World

/-! ### how `seqRingOf` reads a change of one pending list -/

theorem seqRingOf_congr {w w' : World} (h : w'.seqs = w.seqs) (n : Nat) : seqRingOf w' n = seqRingOf w n := by
  unfold seqRingOf pendingOf; rw [h]

theorem pendingOf_setSeqPending (w : World) (s : Nat) (f : List Owner → List Owner) (x : Seq) (hx : w.seqs s = some x) (s' : Nat) :
    (w.setSeqPending s f).pendingOf s' = if s' = s then f x.pending else w.pendingOf s' := by
  unfold setSeqPending pendingOf
  rw [hx]
  by_cases e : s' = s
  · subst e; simp [upd]
  · simp [upd, e]

theorem setSeqPending_seqs_ne (w : World) (s : Nat) (f : List Owner → List Owner) (s' : Nat) (hne : s' ≠ s) :
    (w.setSeqPending s f).seqs s' = w.seqs s' := by
  unfold setSeqPending
  cases hx : w.seqs s with
  | none => rfl
  | some x => simp [upd, hne]

theorem setSeqPending_seqs_isSome (w : World) (s : Nat) (f : List Owner → List Owner) (s' : Nat) :
    ((w.setSeqPending s f).seqs s').isSome = (w.seqs s').isSome := by
  by_cases e : s' = s
  · subst e
    unfold setSeqPending
    cases hx : w.seqs s' with
    | none => simp [hx]
    | some x => simp [upd]
  · rw [setSeqPending_seqs_ne w s f s' e]

theorem seqRingOf_setSeqPending (w : World) (s : Nat) (f : List Owner → List Owner) (x : Seq) (hx : w.seqs s = some x) (n : Nat) :
    seqRingOf (w.setSeqPending s f) n = (seqRingOf w n).set (SAddr.pending s) ((f x.pending).map (fun o => SAddr.handle o s)) := by
  unfold seqRingOf Abs.set
  congr 1
  funext a
  cases a with
  | pending s' =>
    simp only [pendingOf_setSeqPending w s f x hx, SAddr.pending.injEq]
    by_cases e : s' = s
    · subst e; simp
    · simp [e]
  | handle o s' => simp

theorem pendingOf_eq_of_some {w : World} {s : Nat} {x : Seq} (hx : w.seqs s = some x) : w.pendingOf s = x.pending := by
  unfold pendingOf; rw [hx]

theorem handle_used_iff (w : World) (n : Nat) (o : Owner) (s : Nat) :
    (seqRingOf w n).used (SAddr.handle o s) ↔ s < n ∧ o ∈ w.pendingOf s := by
  unfold Abs.used
  constructor
  · rintro ⟨hd, hm, hy⟩
    obtain ⟨s', hs', rfl⟩ := List.mem_map.mp hm
    simp only [seqRingOf, List.mem_cons, reduceCtorEq, List.mem_map, false_or] at hy
    obtain ⟨o', ho', he⟩ := hy
    cases he
    exact ⟨List.mem_range.mp hs', ho'⟩
  · rintro ⟨hs, ho⟩
    refine ⟨SAddr.pending s, List.mem_map.mpr ⟨s, List.mem_range.mpr hs, rfl⟩, ?_⟩
    simp only [seqRingOf, List.mem_cons, reduceCtorEq, List.mem_map, false_or]
    exact ⟨o, ho, rfl⟩

theorem pending_mem_heads (w : World) {n s : Nat} (hs : s < n) : SAddr.pending s ∈ (seqRingOf w n).heads :=
  List.mem_map.mpr ⟨s, List.mem_range.mpr hs, rfl⟩

theorem handle_not_head (w : World) (n : Nat) (o : Owner) (s : Nat) : SAddr.handle o s ∉ (seqRingOf w n).heads := by
  intro h; obtain ⟨_, _, he⟩ := List.mem_map.mp h; cases he

/-! ### registration: `add_last` = `push_back` of the handle on each named sequence -/

def registerScript (o : Owner) (ss : List Nat) : List (Ring.Op SAddr) :=
  ss.map (fun s => Ring.Op.pushBack (SAddr.pending s) (SAddr.handle o s))

/-- the script is legal and its abstract result is the ring family of the world after `register`. -/
theorem register_run (w : World) (n : Nat) (hp : Heap SAddr) (o : Owner) (ss : List Nat) (hnd : ss.Nodup)
    (hs : ∀ s ∈ ss, s < n ∧ (w.seqs s).isSome ∧ o ∉ w.pendingOf s) :
    legalRun (seqRingOf w n) (registerScript o ss) ∧
      (run (seqRingOf w n, hp) (registerScript o ss)).1 = seqRingOf (w.register o ss) n := by
  induction ss generalizing w hp with
  | nil => exact ⟨trivial, rfl⟩
  | cons s ss ih =>
    obtain ⟨hsn, hsome, hfresh⟩ := hs s (by simp)
    obtain ⟨x, hx⟩ := Option.isSome_iff_exists.mp hsome
    have hnd' := List.nodup_cons.mp hnd
    have hstep : (seqRingOf w n).step (.pushBack (SAddr.pending s) (SAddr.handle o s)) =
        seqRingOf (w.setSeqPending s (fun l => l ++ [o])) n := by
      rw [seqRingOf_setSeqPending w s _ x hx]
      show (seqRingOf w n).set _ _ = _
      congr 1
      simp [seqRingOf, pendingOf_eq_of_some hx]
    have hs' : ∀ s' ∈ ss, s' < n ∧ ((w.setSeqPending s (fun l => l ++ [o])).seqs s').isSome ∧
        o ∉ (w.setSeqPending s (fun l => l ++ [o])).pendingOf s' := by
      intro s' hs'
      obtain ⟨a, b, c⟩ := hs s' (by simp [hs'])
      have hne : s' ≠ s := by rintro rfl; exact hnd'.1 hs'
      refine ⟨a, by rw [setSeqPending_seqs_isSome]; exact b, ?_⟩
      rw [pendingOf_setSeqPending w s _ x hx]; simpa [hne] using c
    obtain ⟨lg, e⟩ := ih (w.setSeqPending s (fun l => l ++ [o])) (exec (seqRingOf w n) hp (.pushBack (SAddr.pending s) (SAddr.handle o s))) hnd'.2 hs'
    refine ⟨⟨⟨pending_mem_heads w hsn, ?_⟩, ?_⟩, ?_⟩
    · rw [handle_used_iff]; exact fun h => hfresh h.2
    · rw [hstep]; exact lg
    · show (run ((seqRingOf w n).step _, _) (registerScript o ss)).1 = _
      rw [hstep]; exact e

/-- **registration on the heap**: after `push_back` of the owner's handle on each named sequence the heap represents the
    pending lists of the world after `register`. -/
theorem register_heap {w : World} {n : Nat} {hp : Heap SAddr} (R : Rep hp (seqRingOf w n)) (o : Owner) (ss : List Nat) (hnd : ss.Nodup)
    (hs : ∀ s ∈ ss, s < n ∧ (w.seqs s).isSome ∧ o ∉ w.pendingOf s) :
    Rep (run (seqRingOf w n, hp) (registerScript o ss)).2 (seqRingOf (w.register o ss) n) := by
  obtain ⟨lg, e⟩ := register_run w n hp o ss hnd hs
  have := rep_run R _ lg
  rwa [e] at this

/-! ### leaving: `retire()` / `~sequence_matcher` = `unlink` of every own handle -/

def retireScript (o : Owner) (ss : List Nat) : List (Ring.Op SAddr) :=
  ss.map (fun s => Ring.Op.unlink (SAddr.handle o s))

theorem map_handle_filter (l : List Owner) (o : Owner) (s : Nat) (hnd : l.Nodup) :
    (l.filter (· ≠ o)).map (fun o => SAddr.handle o s) = (l.map (fun o => SAddr.handle o s)).erase (SAddr.handle o s) := by
  rw [(hnd.map (handle_injective s)).erase_eq_filter]
  rw [List.filter_map]
  congr 1
  apply List.filter_congr
  intro k _
  by_cases hk : k = o <;> simp [Function.comp, hk]

theorem abs_ext {a b : Abs SAddr} (h1 : a.heads = b.heads) (h2 : ∀ x, a.lists x = b.lists x) : a = b := by
  cases a; cases b; simp only [Abs.mk.injEq] at *; exact ⟨h1, funext h2⟩

/-- one `unlink` of a handle is the World's "leave sequence `s`". -/
theorem unlink_handle_step (w : World) (n : Nat) (o : Owner) (s : Nat) (hnd : ∀ s, (w.pendingOf s).Nodup) :
    (seqRingOf w n).step (.unlink (SAddr.handle o s)) = seqRingOf (w.setSeqPending s (fun l => l.filter (· ≠ o))) n := by
  have hno : ∀ s', s' ≠ s → ((w.pendingOf s').map (fun o => SAddr.handle o s')).erase (SAddr.handle o s) =
      (w.pendingOf s').map (fun o => SAddr.handle o s') := by
    intro s' hne
    apply List.erase_of_not_mem
    intro hin
    obtain ⟨o', _, he⟩ := List.mem_map.mp hin
    cases he; exact hne rfl
  cases hx : w.seqs s with
  | none =>
    have hid : w.setSeqPending s (fun l => l.filter (· ≠ o)) = w := by unfold setSeqPending; rw [hx]
    rw [hid]
    refine abs_ext rfl (fun a => ?_)
    cases a with
    | pending s' =>
      show ((w.pendingOf s').map (fun o => SAddr.handle o s')).erase (SAddr.handle o s) = (w.pendingOf s').map (fun o => SAddr.handle o s')
      by_cases e : s' = s
      · subst e; simp [pendingOf, hx]
      · exact hno s' e
    | handle _ _ => rfl
  | some x =>
    rw [seqRingOf_setSeqPending w s _ x hx]
    refine abs_ext rfl (fun a => ?_)
    cases a with
    | pending s' =>
      show ((w.pendingOf s').map (fun o => SAddr.handle o s')).erase (SAddr.handle o s) =
        if SAddr.pending s' = SAddr.pending s then (x.pending.filter (· ≠ o)).map (fun o => SAddr.handle o s)
        else (w.pendingOf s').map (fun o => SAddr.handle o s')
      by_cases e : s' = s
      · subst e
        have hn := hnd s'
        rw [pendingOf_eq_of_some hx] at hn
        simp only [if_true, pendingOf_eq_of_some hx]
        exact (map_handle_filter x.pending o s' hn).symm
      · simp only [SAddr.pending.injEq, e, if_false]; exact hno s' e
    | handle _ _ => rfl

theorem setSeqPending_filter_nodup (w : World) (s : Nat) (o : Owner) (hnd : ∀ s, (w.pendingOf s).Nodup) :
    ∀ s', ((w.setSeqPending s (fun l => l.filter (· ≠ o))).pendingOf s').Nodup := by
  intro s'
  cases hx : w.seqs s with
  | none => unfold setSeqPending; rw [hx]; exact hnd s'
  | some x =>
    rw [pendingOf_setSeqPending w s _ x hx]
    by_cases e : s' = s
    · subst e; simp only [if_true]
      have := hnd s'; rw [pendingOf_eq_of_some hx] at this; exact this.filter _
    · simp only [e, if_false]; exact hnd s'

theorem retire_run (w : World) (n : Nat) (hp : Heap SAddr) (o : Owner) (ss : List Nat) (hnd : ∀ s, (w.pendingOf s).Nodup) :
    legalRun (seqRingOf w n) (retireScript o ss) ∧
      (run (seqRingOf w n, hp) (retireScript o ss)).1 = seqRingOf (w.retireOwn o ss) n := by
  induction ss generalizing w hp with
  | nil => exact ⟨trivial, rfl⟩
  | cons s ss ih =>
    have hstep := unlink_handle_step w n o s hnd
    obtain ⟨lg, e⟩ := ih (w.setSeqPending s (fun l => l.filter (· ≠ o))) (exec (seqRingOf w n) hp (.unlink (SAddr.handle o s)))
      (setSeqPending_filter_nodup w s o hnd)
    refine ⟨⟨handle_not_head w n o s, ?_⟩, ?_⟩
    · rw [hstep]; exact lg
    · show (run ((seqRingOf w n).step _, _) (retireScript o ss)).1 = _
      rw [hstep]; exact e

/-- **leaving on the heap**: after `unlink` of each of the owner's handles — whichever of them are still linked — the heap
    represents the pending lists of the world after `retireOwn`; no hypothesis on which sequences are still alive. -/
theorem retire_heap {w : World} {n : Nat} {hp : Heap SAddr} (R : Rep hp (seqRingOf w n)) (o : Owner) (ss : List Nat)
    (hnd : ∀ s, (w.pendingOf s).Nodup) :
    Rep (run (seqRingOf w n, hp) (retireScript o ss)).2 (seqRingOf (w.retireOwn o ss) n) := by
  obtain ⟨lg, e⟩ := retire_run w n hp o ss hnd
  have := rep_run R _ lg
  rwa [e] at this

/-! ### skipping: `retire_predecessors` = the handles in front of the own one are unlinked, first to last -/

/-- the handles `sequence_type::retire_until(m)` retires: none if `m` is no longer pending, otherwise those in front of it. -/
def skipped (o : Owner) (l : List Owner) : List Owner := if o ∈ l then l.takeWhile (· ≠ o) else []

def unlinkHandles (s : Nat) (os : List Owner) : List (Ring.Op SAddr) := os.map (fun o' => Ring.Op.unlink (SAddr.handle o' s))

def skipScript (w : World) (o : Owner) (ss : List Nat) : List (Ring.Op SAddr) :=
  ss.flatMap (fun s => unlinkHandles s (skipped o (w.pendingOf s)))

theorem setSeqPending_comp (w : World) (s : Nat) (f g : List Owner → List Owner) :
    (w.setSeqPending s f).setSeqPending s g = w.setSeqPending s (fun l => g (f l)) := by
  unfold setSeqPending
  cases hx : w.seqs s with
  | none => simp [hx]
  | some x =>
    simp only [upd, if_true]
    congr 1
    funext i
    by_cases e : i = s <;> simp [upd, e]

theorem seqRingOf_setSeqPending_congr (w : World) (s : Nat) (f g : List Owner → List Owner) (n : Nat)
    (h : f (w.pendingOf s) = g (w.pendingOf s)) : seqRingOf (w.setSeqPending s f) n = seqRingOf (w.setSeqPending s g) n := by
  cases hx : w.seqs s with
  | none => unfold setSeqPending; simp [hx]
  | some x =>
    rw [seqRingOf_setSeqPending w s f x hx, seqRingOf_setSeqPending w s g x hx]
    rw [pendingOf_eq_of_some hx] at h
    rw [h]

theorem seqRingOf_setSeqPending_id (w : World) (s : Nat) (f : List Owner → List Owner) (n : Nat)
    (h : f (w.pendingOf s) = w.pendingOf s) : seqRingOf (w.setSeqPending s f) n = seqRingOf w n := by
  cases hx : w.seqs s with
  | none => unfold setSeqPending; simp [hx]
  | some x =>
    rw [seqRingOf_setSeqPending w s f x hx]
    rw [pendingOf_eq_of_some hx] at h
    rw [h]
    refine abs_ext rfl (fun a => ?_)
    cases a with
    | pending s' =>
      show (if SAddr.pending s' = SAddr.pending s then x.pending.map (fun o => SAddr.handle o s) else (w.pendingOf s').map (fun o => SAddr.handle o s')) = _
      by_cases e : s' = s
      · subst e; simp [seqRingOf, pendingOf_eq_of_some hx]
      · simp [seqRingOf, e]
    | handle _ _ => rfl

/-- unlinking a list of handles of one sequence: legal, and it is the World's repeated "remove from the pending list". -/
theorem unlinkHandles_run (w : World) (n : Nat) (hp : Heap SAddr) (s : Nat) (os : List Owner) (hnd : ∀ s, (w.pendingOf s).Nodup) :
    legalRun (seqRingOf w n) (unlinkHandles s os) ∧
      (run (seqRingOf w n, hp) (unlinkHandles s os)).1 =
        seqRingOf (w.setSeqPending s (fun l => os.foldl (fun l o' => l.filter (· ≠ o')) l)) n := by
  induction os generalizing w hp with
  | nil => exact ⟨trivial, (seqRingOf_setSeqPending_id w s _ n rfl).symm⟩
  | cons o' os ih =>
    have hstep := unlink_handle_step w n o' s hnd
    obtain ⟨lg, e⟩ := ih (w.setSeqPending s (fun l => l.filter (· ≠ o'))) (exec (seqRingOf w n) hp (.unlink (SAddr.handle o' s)))
      (setSeqPending_filter_nodup w s o' hnd)
    refine ⟨⟨handle_not_head w n o' s, ?_⟩, ?_⟩
    · show legalRun ((seqRingOf w n).step _) (unlinkHandles s os)
      rw [hstep]; exact lg
    · show (run ((seqRingOf w n).step _, _) (unlinkHandles s os)).1 = _
      rw [hstep, e, setSeqPending_comp]
      rfl

theorem foldl_filter_takeWhile (o : Owner) (l : List Owner) (hnd : l.Nodup) (ho : o ∈ l) :
    (l.takeWhile (· ≠ o)).foldl (fun l o' => l.filter (· ≠ o')) l = l.dropWhile (· ≠ o) := by
  induction l with
  | nil => cases ho
  | cons a t ih =>
    by_cases e : a = o
    · subst e; simp [List.takeWhile, List.dropWhile]
    · have hnd' := List.nodup_cons.mp hnd
      have hot : o ∈ t := by
        rcases List.mem_cons.mp ho with h | h
        · exact absurd h.symm e
        · exact h
      have hft : (a :: t).filter (· ≠ a) = t := by
        rw [List.filter_cons]
        simp only [ne_eq, not_true_eq_false, decide_false, Bool.false_eq_true, if_false]
        rw [List.filter_eq_self]
        intro b hb
        have : b ≠ a := by rintro rfl; exact hnd'.1 hb
        simpa using this
      have htw : (a :: t).takeWhile (· ≠ o) = a :: t.takeWhile (· ≠ o) := by simp [List.takeWhile, e]
      have hdw : (a :: t).dropWhile (· ≠ o) = t.dropWhile (· ≠ o) := by simp [List.dropWhile, e]
      rw [htw, hdw, List.foldl_cons, hft]
      exact ih hnd'.2 hot

theorem foldl_skipped (o : Owner) (l : List Owner) (hnd : l.Nodup) :
    (skipped o l).foldl (fun l o' => l.filter (· ≠ o')) l = retireUntil o l := by
  unfold skipped retireUntil
  by_cases h : o ∈ l
  · simp only [h, if_true]; exact foldl_filter_takeWhile o l hnd h
  · simp [h]

/-- `retire_until` for one sequence. -/
theorem skip1_run (w : World) (n : Nat) (hp : Heap SAddr) (o : Owner) (s : Nat) (hnd : ∀ s, (w.pendingOf s).Nodup) :
    legalRun (seqRingOf w n) (unlinkHandles s (skipped o (w.pendingOf s))) ∧
      (run (seqRingOf w n, hp) (unlinkHandles s (skipped o (w.pendingOf s)))).1 = seqRingOf (w.setSeqPending s (retireUntil o)) n := by
  obtain ⟨lg, e⟩ := unlinkHandles_run w n hp s (skipped o (w.pendingOf s)) hnd
  refine ⟨lg, e.trans ?_⟩
  exact seqRingOf_setSeqPending_congr w s _ _ n (foldl_skipped o _ (hnd s))

theorem legalRun_append {P : Type} [DecidableEq P] (a : Abs P) (h : Heap P) (xs ys : List (Ring.Op P)) :
    legalRun a (xs ++ ys) ↔ legalRun a xs ∧ legalRun (run (a, h) xs).1 ys := by
  induction xs generalizing a h with
  | nil => simp [legalRun, Ring.run]
  | cons x xs ih =>
    simp only [List.cons_append, legalRun, Ring.run]
    rw [ih (a.step x) (exec a h x)]
    exact and_assoc.symm

theorem run_append {P : Type} [DecidableEq P] (st : Abs P × Heap P) (xs ys : List (Ring.Op P)) :
    run st (xs ++ ys) = run (run st xs) ys := by
  induction xs generalizing st with
  | nil => rfl
  | cons x xs ih => obtain ⟨a, h⟩ := st; simp only [List.cons_append, Ring.run]; exact ih _

theorem retireUntil_nodup (o : Owner) (l : List Owner) (hnd : l.Nodup) : (retireUntil o l).Nodup := by
  unfold retireUntil
  split
  · exact hnd.sublist (List.dropWhile_sublist _)
  · exact hnd

theorem setSeqPending_nodup (w : World) (s : Nat) (f : List Owner → List Owner) (hf : ∀ l, l.Nodup → (f l).Nodup)
    (hnd : ∀ s, (w.pendingOf s).Nodup) : ∀ s', ((w.setSeqPending s f).pendingOf s').Nodup := by
  intro s'
  cases hx : w.seqs s with
  | none => unfold setSeqPending; rw [hx]; exact hnd s'
  | some x =>
    rw [pendingOf_setSeqPending w s _ x hx]
    by_cases e : s' = s
    · subst e; simp only [if_true]
      have := hnd s'; rw [pendingOf_eq_of_some hx] at this; exact hf _ this
    · simp only [e, if_false]; exact hnd s'

theorem pendingOf_setSeqPending_ne (w : World) (s : Nat) (f : List Owner → List Owner) (s' : Nat) (hne : s' ≠ s) :
    (w.setSeqPending s f).pendingOf s' = w.pendingOf s' := by
  unfold pendingOf; rw [setSeqPending_seqs_ne w s f s' hne]

theorem skipScript_congr (w w' : World) (o : Owner) (ss : List Nat) (h : ∀ s ∈ ss, w'.pendingOf s = w.pendingOf s) :
    skipScript w' o ss = skipScript w o ss := by
  unfold skipScript
  induction ss with
  | nil => rfl
  | cons s ss ih =>
    simp only [List.flatMap_cons]
    rw [h s (by simp), ih (fun s' hs' => h s' (by simp [hs']))]

theorem skip_run (w : World) (n : Nat) (hp : Heap SAddr) (o : Owner) (ss : List Nat) (hss : ss.Nodup) (hnd : ∀ s, (w.pendingOf s).Nodup) :
    legalRun (seqRingOf w n) (skipScript w o ss) ∧
      (run (seqRingOf w n, hp) (skipScript w o ss)).1 = seqRingOf (w.retirePredecessors o ss) n := by
  induction ss generalizing w hp with
  | nil => exact ⟨trivial, rfl⟩
  | cons s ss ih =>
    have hss' := List.nodup_cons.mp hss
    obtain ⟨lg1, e1⟩ := skip1_run w n hp o s hnd
    let w' := w.setSeqPending s (retireUntil o)
    have hnd' : ∀ s', (w'.pendingOf s').Nodup := setSeqPending_nodup w s _ (retireUntil_nodup o) hnd
    have hcongr : skipScript w o ss = skipScript w' o ss :=
      (skipScript_congr w w' o ss (fun s' hs' => pendingOf_setSeqPending_ne w s _ s' (by rintro rfl; exact hss'.1 hs'))).symm
    have hsplit : skipScript w o (s :: ss) = unlinkHandles s (skipped o (w.pendingOf s)) ++ skipScript w' o ss := by
      rw [← hcongr]; simp [skipScript]
    obtain ⟨lg2, e2⟩ := ih w' (run (seqRingOf w n, hp) (unlinkHandles s (skipped o (w.pendingOf s)))).2 hss'.2 hnd'
    rw [hsplit]
    refine ⟨(legalRun_append _ hp _ _).2 ⟨lg1, by rw [e1]; exact lg2⟩, ?_⟩
    rw [run_append]
    have : run (seqRingOf w n, hp) (unlinkHandles s (skipped o (w.pendingOf s))) =
        (seqRingOf w' n, (run (seqRingOf w n, hp) (unlinkHandles s (skipped o (w.pendingOf s)))).2) := by
      rw [← e1]
    rw [this, e2]
    rfl

/-- **skipping on the heap**: after `retire_predecessors` — for each of the owner's sequences in which its handle is still
    pending, every handle in front of it is unlinked, first to last — the heap represents the pending lists of the world after
    `retirePredecessors`. -/
theorem skip_heap {w : World} {n : Nat} {hp : Heap SAddr} (R : Rep hp (seqRingOf w n)) (o : Owner) (ss : List Nat) (hss : ss.Nodup)
    (hnd : ∀ s, (w.pendingOf s).Nodup) :
    Rep (run (seqRingOf w n, hp) (skipScript w o ss)).2 (seqRingOf (w.retirePredecessors o ss) n) := by
  obtain ⟨lg, e⟩ := skip_run w n hp o ss hss hnd
  have := rep_run R _ lg
  rwa [e] at this

/-! ### the World steps as instances -/

/-- **`expect` on the sequence lists**: in every world satisfying the sequence invariant, the `expect` step registers the new
    expectation with `push_back` of one fresh handle per named sequence; the heap afterwards represents the pending lists of the
    world after the step. -/
theorem expect_seq_heap {w : World} (h : WFSeq w) {n : Nat} {hp : Heap SAddr} (R : Rep hp (seqRingOf w n)) (e : Nat) (x : ExpectSpec)
    (lg : w.legal (.expect e x) = true) (hno : (x.rt && decide (x.hi < x.lo)) = false) (hn : ∀ s ∈ x.seqs, s < n) :
    Rep (run (seqRingOf w n, hp) (registerScript (.exp e) x.seqs)).2 (seqRingOf (w.step (.expect e x)).1 n) := by
  simp only [legal, Bool.and_eq_true, beq_iff_eq, decide_eq_true_eq, List.all_eq_true] at lg
  obtain ⟨⟨⟨⟨⟨⟨he, hmock⟩, _⟩, hall⟩, hnd⟩, _⟩, _⟩ := lg
  have hfreshE : w.exps e = none := h.freshE e (by omega)
  have hs : ∀ s ∈ x.seqs, s < n ∧ (w.seqs s).isSome ∧ Owner.exp e ∉ w.pendingOf s := by
    intro s hs
    refine ⟨hn s hs, ?_, ?_⟩
    · have := hall s hs
      unfold seqAlive at this
      cases hx : w.seqs s with
      | none => rw [hx] at this; cases this
      | some _ => rfl
    · intro hin
      have := (h.pend s _ hin).1
      simp [ownerAlive, expAlive, hfreshE] at this
  have Rr := register_heap R (.exp e) x.seqs hnd hs
  obtain ⟨m, hm⟩ : ∃ m, w.mocks x.obj = some m := by
    unfold mockAlive at hmock
    cases hx : w.mocks x.obj with
    | none => rw [hx] at hmock; cases hmock
    | some m => exact ⟨m, rfl⟩
  have hseqs : (w.step (.expect e x)).1.seqs = (w.register (.exp e) x.seqs).seqs := by
    have hl : w.legal (.expect e x) = true := by
      simp only [legal, Bool.and_eq_true, beq_iff_eq, decide_eq_true_eq, List.all_eq_true]
      exact ⟨⟨⟨⟨⟨⟨he, hmock⟩, by assumption⟩, hall⟩, hnd⟩, by assumption⟩, by assumption⟩
    unfold step
    simp only [hl, Bool.not_true, Bool.false_eq_true, if_false, hno, hm]
    have : ∀ (w0 : World), (w0.register (.exp e) x.seqs).seqs = (({ w0 with nextE := e + 1 } : World).register (.exp e) x.seqs).seqs := by
      intro w0
      unfold register
      induction x.seqs generalizing w0 with
      | nil => rfl
      | cons s ss ih =>
        simp only [List.foldl_cons]
        have : ({ w0 with nextE := e + 1 } : World).setSeqPending s (fun l => l ++ [Owner.exp e]) =
            { w0.setSeqPending s (fun l => l ++ [Owner.exp e]) with nextE := e + 1 } := by
          unfold setSeqPending; cases w0.seqs s <;> rfl
        rw [this]; exact ih _
    simp only [setMock, setExp]
    exact (this w).symm
  rw [seqRingOf_congr hseqs]
  exact Rr

/-- **`release` on the sequence lists**: the end of an expectation's lifetime unlinks each of its handles; the heap afterwards
    represents the pending lists of the world after the step. -/
theorem release_seq_heap {w : World} (h : WFSeq w) {n : Nat} {hp : Heap SAddr} (R : Rep hp (seqRingOf w n)) (e : Nat) (x : Exp) :
    Rep (run (seqRingOf w n, hp) (retireScript (.exp e) x.seqs)).2 (seqRingOf (w.releaseExp e x).1 n) := by
  have Rr := retire_heap R (.exp e) x.seqs (w := w) ?_
  · have hseqs : (w.releaseExp e x).1.seqs = (w.retireOwn (.exp e) x.seqs).seqs := by
      unfold releaseExp
      simp only [setExp]
      have : ∀ (w0 w1 : World), w1.seqs = w0.seqs → (w1.retireOwn (.exp e) x.seqs).seqs = (w0.retireOwn (.exp e) x.seqs).seqs := by
        intro w0 w1 hh
        unfold retireOwn
        induction x.seqs generalizing w0 w1 with
        | nil => exact hh
        | cons s ss ih =>
          simp only [List.foldl_cons]
          apply ih
          unfold setSeqPending; rw [hh]; cases w0.seqs s <;> simp [hh]
      apply this
      unfold unlinkExp
      cases w.mocks x.obj with
      | none => rfl
      | some m => by_cases c : (x.link == Link.unlinked) = true <;> simp [c, setMock]
    rw [seqRingOf_congr hseqs]
    exact Rr
  · exact h.nodup

theorem retirePredecessors_nodup (w : World) (o : Owner) (ss : List Nat) (hnd : ∀ s, (w.pendingOf s).Nodup) :
    ∀ s, ((w.retirePredecessors o ss).pendingOf s).Nodup := by
  unfold retirePredecessors
  induction ss generalizing w with
  | nil => exact hnd
  | cons s ss ih => exact ih _ (setSeqPending_nodup w s _ (retireUntil_nodup o) hnd)

/-- the script an accepted call runs on the sequence lists (`run_actions`): `retire_predecessors()`, and `retire()` if this
    call saturates the expectation. -/
def callSeqScript (w : World) (e : Nat) (x : Exp) : List (Ring.Op SAddr) :=
  skipScript w (.exp e) x.seqs ++ (if x.count + 1 = x.hi then retireScript (.exp e) x.seqs else [])

/-- **an accepted call on the sequence lists**: the bookkeeping of `run_actions` — skip the predecessors in every sequence of
    the expectation, leave the sequences if the call saturates it — performed as ring operations takes a heap representing the
    pending lists before the call to one representing them after it. -/
theorem accepted_call_seq_heap {w : World} (h : WFSeq w) {n : Nat} {hp : Heap SAddr} (R : Rep hp (seqRingOf w n))
    (o f e : Nat) (x : Exp) (m : Mock) (hx : w.exps e = some x) :
    Rep (run (seqRingOf w n, hp) (callSeqScript w e x)).2 (seqRingOf (w.bookkeep o f e x m) n) := by
  have hss : x.seqs.Nodup := by
    have := h.ownNodup (.exp e)
    simpa [ownerSeqs, hx] using this
  have R1 := skip_heap R (.exp e) x.seqs hss h.nodup
  unfold callSeqScript
  rw [run_append]
  obtain ⟨_, e1⟩ := skip_run w n hp (.exp e) x.seqs hss h.nodup
  have hst : run (seqRingOf w n, hp) (skipScript w (.exp e) x.seqs) =
      (seqRingOf (w.retirePredecessors (.exp e) x.seqs) n, (run (seqRingOf w n, hp) (skipScript w (.exp e) x.seqs)).2) := by
    rw [← e1]
  rw [hst]
  by_cases hc : x.count + 1 = x.hi
  · simp only [hc, if_true]
    have R2 := retire_heap R1 (.exp e) x.seqs (retirePredecessors_nodup w _ _ h.nodup)
    have hseqs : (w.bookkeep o f e x m).seqs = ((w.retirePredecessors (.exp e) x.seqs).retireOwn (.exp e) x.seqs).seqs := by
      unfold bookkeep; simp [hc, setMock, setExp]
    rw [seqRingOf_congr hseqs]
    exact R2
  · simp only [hc, if_false]
    have hseqs : (w.bookkeep o f e x m).seqs = (w.retirePredecessors (.exp e) x.seqs).seqs := by
      unfold bookkeep; simp [hc, setExp]
    rw [seqRingOf_congr hseqs]
    exact R1

/-! ### the hypotheses are met, and the scripts are not empty -/

/-- before any registration the untouched heap represents `n` empty pending lists. -/
theorem seq_heap_init (n : Nat) : Rep (Heap.init : Heap SAddr) (seqRingOf {} n) := by
  refine ⟨?_, ?_, ?_, fun y _ => ⟨rfl, rfl⟩⟩
  · intro hd hm
    obtain ⟨s, _, rfl⟩ := List.mem_map.mp hm
    exact ring_nil_iff.2 ⟨rfl, rfl⟩
  · exact (List.nodup_range).map (fun _ _ h => by cases h; rfl)
  · intro hd1 h1 hd2 h2 ne y hy hin
    obtain ⟨s1, _, rfl⟩ := List.mem_map.mp h1
    obtain ⟨s2, _, rfl⟩ := List.mem_map.mp h2
    simp only [seqRingOf, pendingOf, List.map_nil, List.mem_cons, List.not_mem_nil, or_false] at hy hin
    exact ne (hy ▸ hin)

example : skipped (Owner.exp 1) [Owner.exp 0, Owner.mon 0, Owner.exp 1, Owner.exp 2] = [Owner.exp 0, Owner.mon 0] := by decide
example : retireUntil (Owner.exp 1) [Owner.exp 0, Owner.mon 0, Owner.exp 1, Owner.exp 2] = [Owner.exp 1, Owner.exp 2] := by decide
example : skipped (Owner.exp 7) [Owner.exp 0, Owner.exp 1] = [] := by decide
example : registerScript (Owner.exp 3) [0, 2] =
    [Ring.Op.pushBack (SAddr.pending 0) (SAddr.handle (Owner.exp 3) 0), Ring.Op.pushBack (SAddr.pending 2) (SAddr.handle (Owner.exp 3) 2)] := rfl

/-- two sequences, one expectation registered in both, from the initial heap: the premises of `register_heap` hold. -/
example : Rep (run (seqRingOf ({ seqs := upd (upd (fun _ => none) 0 {}) 1 {} } : World) 2, Heap.init)
                   (registerScript (Owner.exp 0) [0, 1])).2
              (seqRingOf (({ seqs := upd (upd (fun _ => none) 0 {}) 1 {} } : World).register (Owner.exp 0) [0, 1]) 2) := by
  refine register_heap ?_ _ _ (by decide) ?_
  · have := seq_heap_init 2
    refine rep_congr this rfl ?_
    intro hd hm
    obtain ⟨s, hs, rfl⟩ := List.mem_map.mp hm
    have : s = 0 ∨ s = 1 := by have := List.mem_range.mp hs; omega
    rcases this with rfl | rfl <;> simp [seqRingOf, pendingOf, upd]
  · intro s hs
    have : s = 0 ∨ s = 1 := by simpa using hs
    rcases this with rfl | rfl <;> simp [pendingOf, upd]

end Tromp.C14Ring
