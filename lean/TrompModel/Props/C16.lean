/-
  Props/C16.lean — OK reports: exactly one per accepted call, naming the expectation that took it.
-/
import TrompModel.Props.C15

namespace Tromp.C16
open Tromp World

private theorem filter_ok_log (w : World) (a : Args) (l : List Nat) :
    (l.flatMap (w.matchLog a)).filter Ev.isOk = [] := by
  rw [List.filter_eq_nil_iff]
  intro ev hev; obtain ⟨e, i, rfl⟩ := flatMap_matchLog_all_with w a l ev hev; simp [Ev.isOk]

private theorem filter_ok_trace (w : World) (e : Nat) (a : Args) (r : Outcome) :
    (w.traceEv e a r).filter Ev.isOk = [] := by
  rw [List.filter_eq_nil_iff]
  intro ev hev; obtain ⟨t, rfl⟩ := traceEv_all_trace w e a r ev hev; simp [Ev.isOk]

private theorem filter_ok_actions (e : Nat) (x : Exp) (a : Args) : (actionEvents e x a).1.filter Ev.isOk = [] := by
  rw [List.filter_eq_nil_iff]
  intro ev hev
  have := (actionEvents_actor e x a ev hev).1
  cases ev <;> simp_all [Ev.isAction, Ev.isOk]

/-- **C16.**  An accepted call produces exactly one OK report, sent to the installed OK reporter,
    and it names the expectation that handled the call; a call reported as a violation (no match,
    forbidden, saturated, out of sequence) produces none. -/
theorem ok_exactly_one (w : World) (o f : Nat) (a : Args) (m : Mock) (hm : w.mocks o = some m)
    (hex : ∀ e ∈ m.active f, ∃ x, w.exps e = some x) :
    (C01.Accepted (w.callFn o f a).2 →
      ∃ e, (find (w.expMatches a) w.expOrder (m.active f)).1 = some e ∧
        (w.callFn o f a).2.filter Ev.isOk = [Ev.ok w.okReporter e]) ∧
    (¬ C01.Accepted (w.callFn o f a).2 → (w.callFn o f a).2.filter Ev.isOk = []) := by
  cases callFn_cases w o f a m hm hex with
  | noMatch hfind heq =>
    have hrej : ¬ C01.Accepted (w.callFn o f a).2 := by
      intro hacc
      obtain ⟨pre, r, hev, _, _⟩ := reportMismatch_events w m f a
      have := hacc (w.rep .fatal r) (by rw [heq]; simp [hev])
      simp [rep, Ev.isReport] at this
    refine ⟨fun h => absurd h hrej, fun _ => ?_⟩
    rw [heq]
    obtain ⟨pre, r, hev, hpre, _⟩ := reportMismatch_events w m f a
    have hpref : pre.filter Ev.isOk = [] := by
      rw [List.filter_eq_nil_iff]
      intro ev h; obtain ⟨e, i, rfl⟩ := hpre ev h; simp [Ev.isOk]
    simp [hev, List.filter_append, filter_ok_log, hpref, rep, Ev.isOk, List.filter]
  | forbidden e x hfind hx hhi heq =>
    have hrej : ¬ C01.Accepted (w.callFn o f a).2 := by
      intro hacc
      have := hacc (w.rep .fatal (.forbidden e a)) (by rw [heq]; simp)
      simp [rep, Ev.isReport] at this
    refine ⟨fun h => absurd h hrej, fun _ => ?_⟩
    rw [heq]
    simp [List.filter_append, filter_ok_log, filter_ok_trace, rep, Ev.isOk, List.filter]
  | blocked e x r hfind hx hhi hord hrk0 heq =>
    have hrej : ¬ C01.Accepted (w.callFn o f a).2 := by
      intro hacc
      have := hacc (w.rep .fatal r) (by rw [heq]; simp)
      simp [rep, Ev.isReport] at this
    refine ⟨fun h => absurd h hrej, fun _ => ?_⟩
    rw [heq]
    simp [List.filter_append, filter_ok_log, filter_ok_trace, rep, Ev.isOk, List.filter]
  | accepted e x n hfind hx hhi hord heq =>
    refine ⟨fun _ => ⟨e, hfind, ?_⟩, fun hrej => ?_⟩
    · rw [heq]
      simp [List.filter_append, filter_ok_log, filter_ok_trace, filter_ok_actions, Ev.isOk, List.filter]
    · exfalso
      apply hrej
      rw [heq]
      intro ev hev
      simp only [List.mem_append, List.mem_cons, List.mem_singleton, List.not_mem_nil, or_false] at hev
      rcases hev with h | ((rfl | h) | h) | rfl
      · obtain ⟨e', i, rfl⟩ := flatMap_matchLog_all_with w a _ ev h; rfl
      · rfl
      · have := (actionEvents_actor e x a ev h).1
        cases ev <;> simp_all [Ev.isAction, Ev.isReport]
      · obtain ⟨t, rfl⟩ := traceEv_all_trace w e a _ ev h; rfl
      · rfl

/-- operations other than a call never produce an OK report. -/
theorem only_calls_report_ok (w : World) (op : Op) (hop : op.isCall = false) (r e : Nat) :
    Ev.ok r e ∉ (w.step op).2 := by
  intro hin
  have := step_no_ok w op hop _ hin
  cases this

/-- **C16, set_reporter** returns the previously installed reporter(s); from then on violation and
    OK reports go to the newly installed ones only. -/
theorem reporter_exchange (w : World) (r k : Nat) :
    w.step (.setreporter r (some k)) =
      ({ w with reporter := r, okReporter := k }, [.reporterWas w.reporter, .okReporterWas w.okReporter]) := by
  simp [step, legal]

/-- the one-argument `set_reporter(f)` exchanges the violation reporter only: the installed OK reporter
    keeps receiving the OK reports. -/
theorem reporter_exchange_one (w : World) (r : Nat) :
    w.step (.setreporter r none) = ({ w with reporter := r, okReporter := w.okReporter }, [.reporterWas w.reporter]) := by
  simp [step, legal]

theorem ok_reporter_kept (w : World) (r : Nat) : (w.step (.setreporter r none)).1.okReporter = w.okReporter := by
  simp [step, legal]

theorem reports_go_to_installed (w : World) (op : Op) :
    ∀ ev ∈ (w.step op).2, (∀ s r' rp, ev = Ev.report s r' rp → r' = w.reporter) ∧
                          (∀ r' e, ev = Ev.ok r' e → r' = w.okReporter) := by
  intro ev hev
  cases hop : op.isCall with
  | false =>
    have := step_evsTo_nonfatal w op hop ev hev
    exact ⟨fun s r' rp h => (this.1 s r' rp h).1, this.2⟩
  | true =>
    cases op with
    | call o f a =>
      unfold step at hev
      split at hev
      · simp at hev; subst hev
        exact ⟨fun s r' rp h => (by cases h), fun r' e h => (by cases h)⟩
      · have := callFn_evsTo w o f a ev hev
        exact ⟨fun s r' rp h => (this.1 s r' rp h).1, this.2⟩
    | _ => cases hop

/-! ### non-vacuity -/
private def spec (p : Int → Bool) (hi : Nat) (v : Int) : ExpectSpec :=
  { obj := 0, fn := 1, params := [p], conds := [], effects := [], ret := some (fun _ => .val v),
    lo := 0, hi := hi, rt := true, seqs := [] }
private def ex : World :=
  (({} : World).run [.mock 0 true, .expect 0 (spec (fun _ => true) 9 100), .expect 1 (spec (· == 5) 9 101),
                     .expect 2 (spec (· == 3) 0 102)]).1

-- the older expectation e0 handles the call although e2, e1 are newer; a forbidden call gets no OK
example : (ex.run [.call 0 1 [1], .call 0 1 [3], .setreporter 2 (some 2), .call 0 1 [5], .setreporter 3 none, .call 0 1 [5], .call 0 1 [3]]).2 =
    [[.ok 0 0, .evalRet 0, .result (.val 100)], [.report .fatal 0 (.forbidden 2 [3]), .result (.threw .rep)],
     [.reporterWas 0, .okReporterWas 0], [.ok 2 1, .evalRet 1, .result (.val 101)],
     [.reporterWas 2], [.ok 2 1, .evalRet 1, .result (.val 101)], [.report .fatal 3 (.forbidden 2 [3]), .result (.threw .rep)]] := by decide

end Tromp.C16
