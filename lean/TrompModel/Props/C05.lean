/-
  Props/C05.lean — IN_SEQUENCE: order is enforced and a sequence only ever moves forward.
  Property theorems only; helper lemmas live in Lemmas/.
-/
import TrompModel.Lemmas.World

namespace Tromp.C05
open Tromp World

/-- the property's wording: in sequence `s` the owner `o` is still pending and every handle
    registered before it that is still pending has reached its lower bound (a sequence object
    that no longer exists imposes nothing). -/
def EligibleIn (w : World) (o : Owner) (s : Nat) : Prop :=
  w.seqAlive s = false ∨
  ∃ pre post, w.pendingOf s = pre ++ o :: post ∧ o ∉ pre ∧ ∀ p ∈ pre, w.ownerSat p = true

/-- `sequence_type::cost` computes exactly the declarative cost: `n` pending, satisfied
    predecessors. -/
theorem handleCost_eq_some_iff (w : World) (o : Owner) (s n : Nat) (hs : w.seqAlive s = true) :
    w.handleCost o s = some n ↔
      ∃ pre post, w.pendingOf s = pre ++ o :: post ∧ o ∉ pre ∧ (∀ p ∈ pre, w.ownerSat p = true) ∧ n = pre.length := by
  simp only [handleCost, hs, if_true]
  exact seqCost_spec _ _ _ _

theorem handleCost_ne_none_iff (w : World) (o : Owner) (s : Nat) :
    w.handleCost o s ≠ none ↔ EligibleIn w o s := by
  unfold EligibleIn
  cases hs : w.seqAlive s with
  | false => simp [handleCost, hs]
  | true =>
    simp only [Bool.true_eq_false, false_or]
    constructor
    · intro h
      cases hc : w.handleCost o s with
      | none => exact absurd hc h
      | some n =>
        obtain ⟨pre, post, h1, h2, h3, _⟩ := (handleCost_eq_some_iff w o s n hs).mp hc
        exact ⟨pre, post, h1, h2, h3⟩
    · rintro ⟨pre, post, h1, h2, h3⟩
      rw [(handleCost_eq_some_iff w o s pre.length hs).mpr ⟨pre, post, h1, h2, h3, rfl⟩]
      simp

/-- **C05, eligibility.**  An owner is permitted by its sequence constraints (`order() != ~0U`)
    exactly when it is eligible in each sequence it names. -/
theorem eligible_iff (w : World) (o : Owner) (ss : List Nat) :
    w.order o ss ≠ none ↔ ∀ s ∈ ss, EligibleIn w o s := by
  unfold order
  rw [Ne, orderOf_eq_none]
  simp only [List.mem_map, not_exists, not_and]
  constructor
  · intro h s hs
    exact (handleCost_ne_none_iff w o s).mp (fun hc => h s hs hc)
  · intro h s hs hc
    exact (handleCost_ne_none_iff w o s).mpr (h s hs) hc

/-- the cost used by `find` is the largest number of pending (satisfied/optional) predecessors over
    the owner's sequences; an unsequenced owner passes over none. -/
theorem order_is_max (w : World) (o : Owner) (ss : List Nat) (n : Nat) (h : w.order o ss = some n) :
    (∀ s ∈ ss, ∃ k, w.handleCost o s = some k ∧ k ≤ n) ∧ (n = 0 ∨ ∃ s ∈ ss, w.handleCost o s = some n) := by
  obtain ⟨h1, h2⟩ := orderOf_eq_some _ n h
  refine ⟨fun s hs => h1 _ (List.mem_map.mpr ⟨s, hs, rfl⟩), ?_⟩
  rcases h2 with h2 | h2
  · exact Or.inl h2
  · obtain ⟨s, hs, he⟩ := List.mem_map.mp h2
    exact Or.inr ⟨s, hs, he⟩

theorem order_nil (w : World) (o : Owner) : w.order o [] = some 0 := rfl

/-- a handle that has been passed (its sequence is alive but it is no longer pending) makes its
    owner ineligible for ever: nothing registered before a matched step can match again. -/
theorem passed_never_eligible (w : World) (o : Owner) (ss : List Nat) (s : Nat) (hs : s ∈ ss)
    (halive : w.seqAlive s = true) (hgone : o ∉ w.pendingOf s) : w.order o ss = none := by
  cases h : w.order o ss with
  | none => rfl
  | some n =>
    have := (eligible_iff w o ss).mp (by rw [h]; simp) s hs
    rcases this with h1 | ⟨pre, post, h1, _, _⟩
    · rw [halive] at h1; cases h1
    · exact absurd (by rw [h1]; simp) hgone

/-- expectations that share no sequence stay unordered: eligibility in `s` depends only on the
    pending list of `s` and on the satisfaction of the owners in it. -/
theorem eligible_congr (w w' : World) (o : Owner) (s : Nat)
    (halive : w'.seqAlive s = w.seqAlive s) (hpend : w'.pendingOf s = w.pendingOf s)
    (hsat : ∀ p ∈ w.pendingOf s, w'.ownerSat p = w.ownerSat p) :
    EligibleIn w' o s ↔ EligibleIn w o s := by
  unfold EligibleIn
  rw [halive, hpend]
  constructor
  · rintro (h | ⟨pre, post, h1, h2, h3⟩)
    · exact Or.inl h
    · refine Or.inr ⟨pre, post, h1, h2, fun p hp => ?_⟩
      rw [← hsat p (by rw [h1]; simp [hp])]; exact h3 p hp
  · rintro (h | ⟨pre, post, h1, h2, h3⟩)
    · exact Or.inl h
    · refine Or.inr ⟨pre, post, h1, h2, fun p hp => ?_⟩
      rw [hsat p (by rw [h1]; simp [hp])]; exact h3 p hp

/-! ### what an accepted call does to the sequences -/

theorem bookkeep_pendingOf (w : World) (o f e : Nat) (x : Exp) (m : Mock) (s : Nat) :
    (w.bookkeep o f e x m).pendingOf s =
      if x.count + 1 = x.hi then ((w.retirePredecessors (.exp e) x.seqs).retireOwn (.exp e) x.seqs).pendingOf s
      else (w.retirePredecessors (.exp e) x.seqs).pendingOf s := by
  unfold bookkeep
  by_cases h : x.count + 1 = x.hi <;> simp [h, pendingOf]

/-- **C05, forward only.**  After a call has been accepted by `e`, in every sequence `e` names
    everything registered before `e` has left the pending list (and `e` itself too if it
    saturated): the new pending list is the old one from `e` on. -/
theorem forward_only (w : World) (o f e : Nat) (x : Exp) (m : Mock) (s : Nat)
    (hnd : x.seqs.Nodup) (hs : s ∈ x.seqs) :
    (w.bookkeep o f e x m).pendingOf s =
      if x.count + 1 = x.hi then (retireUntil (.exp e) (w.pendingOf s)).filter (· ≠ .exp e)
      else retireUntil (.exp e) (w.pendingOf s) := by
  rw [bookkeep_pendingOf]
  have h1 : (w.retirePredecessors (.exp e) x.seqs).pendingOf s = retireUntil (.exp e) (w.pendingOf s) :=
    foldl_setSeqPending_pendingOf_mem w x.seqs _ (by simp [retireUntil]) hnd hs
  split
  · unfold retireOwn
    rw [foldl_setSeqPending_pendingOf_mem _ x.seqs _ (by simp) hnd hs, h1]
  · exact h1

/-- sequences the handler does not name are untouched by an accepted call. -/
theorem other_sequences_untouched (w : World) (o f e : Nat) (x : Exp) (m : Mock) (s : Nat)
    (hs : s ∉ x.seqs) : (w.bookkeep o f e x m).pendingOf s = w.pendingOf s := by
  rw [bookkeep_pendingOf]
  have h1 : (w.retirePredecessors (.exp e) x.seqs).pendingOf s = w.pendingOf s :=
    foldl_setSeqPending_pendingOf_not_mem w x.seqs _ hs
  split
  · unfold retireOwn
    rw [foldl_setSeqPending_pendingOf_not_mem _ x.seqs _ hs, h1]
  · exact h1

/-- corollary in the property's words: a handle registered before `e` in a sequence of `e` is no
    longer pending after `e` matched (so, by `passed_never_eligible`, its owner can never match
    again while that sequence object exists). -/
theorem predecessors_retired (w : World) (o f e : Nat) (x : Exp) (m : Mock) (s : Nat)
    (hnd : x.seqs.Nodup) (hs : s ∈ x.seqs) (pre post : List Owner)
    (hsplit : w.pendingOf s = pre ++ Owner.exp e :: post)
    (hndp : (w.pendingOf s).Nodup) (p : Owner) (hp : p ∈ pre) :
    p ∉ (w.bookkeep o f e x m).pendingOf s := by
  have hmem : Owner.exp e ∈ w.pendingOf s := by rw [hsplit]; simp
  obtain ⟨pre', post', hl, hnot, hr⟩ := retireUntil_of_mem hmem
  have hpost : p ∉ Owner.exp e :: post := by
    rw [hsplit] at hndp
    have := (List.nodup_append.mp hndp).2.2
    intro hin
    exact this p hp p hin rfl
  have hsame : pre' = pre ∧ post' = post := by
    have : pre' ++ Owner.exp e :: post' = pre ++ Owner.exp e :: post := by rw [← hl, hsplit]
    exact IsDesignated.unique.nodup_split_unique (by rw [← hl]; exact hndp) this
  rw [forward_only w o f e x m s hnd hs, hr, hsame.2]
  split
  · intro hin; exact hpost (List.mem_filter.mp hin).1
  · exact hpost

/-! ### a blocked call -/

/-- **C05, blocked call.**  When the candidate `find` designates is not permitted by its sequences
    (and is not a forbid), the call produces exactly one report, it is fatal and about a sequence,
    and the world is unchanged. -/
theorem blocked_call (w : World) (o f e : Nat) (x : Exp) (m : Mock) (a : Args)
    (hhi : x.hi ≠ 0) (hord : w.order (.exp e) x.seqs = none) :
    ∃ r, w.runActions o f e x m a =
        (w, [w.rep .fatal r] ++ w.traceEv e a (.threw .rep) ++ [.result (.threw .rep)]) ∧
      ((∃ s, r = .seqNoMore s (.exp e)) ∨ (∃ s l, r = .seqMismatch s (.exp e) l)) := by
  unfold runActions
  simp only [hhi, if_false, hord]
  -- some handle is not callable, so validateAll is non-empty and its head is a sequence report
  have hnone : none ∈ x.seqs.map (w.handleCost (.exp e)) := (orderOf_eq_none _).mp hord
  obtain ⟨s, hs, hc⟩ := List.mem_map.mp hnone
  have hval : ∀ s', ∀ r ∈ (w.validateOne (.exp e) s'), (∃ s, r = .seqNoMore s (.exp e)) ∨ (∃ s l, r = .seqMismatch s (.exp e) l) := by
    intro s' r hr
    unfold validateOne at hr
    split at hr
    · cases hr
    · split at hr
      · simp at hr; exact Or.inl ⟨s', hr.symm⟩
      · simp at hr; exact Or.inr ⟨s', _, hr.symm⟩
  have hne : w.validateAll (.exp e) x.seqs ≠ [] := by
    intro hempty
    have : w.validateOne (.exp e) s = none := by
      have := List.filterMap_eq_nil_iff.mp hempty s hs
      exact this
    unfold validateOne at this
    rw [hc] at this
    cases hp : w.pendingOf s with
    | nil => simp [hp] at this
    | cons a l => simp [hp] at this
  cases hv : w.validateAll (.exp e) x.seqs with
  | nil => exact absurd hv hne
  | cons r rs =>
    refine ⟨r, by simp, ?_⟩
    have hr : r ∈ w.validateAll (.exp e) x.seqs := by rw [hv]; simp
    obtain ⟨s', _, hr'⟩ := List.mem_filterMap.mp hr
    exact hval s' r (by simpa using hr')

/-! ### monitored destruction -/

/-- **C05, monitored destruction.**  A destruction that is out of sequence is reported
    non-fatally, one report per sequence in which it is not eligible (and none for the others),
    and still counts as having happened. -/
theorem monitored_destruction (w : World) (mid : Nat) (x : Mon) (hm : w.mons mid = some x) :
    (w.notify mid).2 = (x.seqs.filterMap (w.validateOne (.mon mid))).map (w.rep .nonfatal) ∧
    (∀ s, w.validateOne (.mon mid) s = none ↔ EligibleIn w (.mon mid) s) ∧
    ((w.notify mid).1.mons mid).map (·.died) = some true := by
  refine ⟨by simp [notify, hm, validateAll], ?_, ?_⟩
  · intro s
    rw [← handleCost_ne_none_iff]
    unfold validateOne
    cases hc : w.handleCost (.mon mid) s with
    | some n => simp
    | none =>
      simp only [ne_eq, not_true_eq_false, iff_false]
      split <;> simp
  · simp only [notify, hm]
    unfold retireOwn retirePredecessors
    rw [foldl_setSeqPending_mons, foldl_setSeqPending_mons]
    simp

/-! ### non-vacuity: a concrete world in which every premise above is met -/

private def ex : World :=
  let w0 : World := {}
  let spec (fn lo hi : Nat) (ss : List Nat) : ExpectSpec :=
    { obj := 0, fn := fn, params := [fun _ => true], conds := [], effects := [], ret := some (fun _ => .val 7),
      lo := lo, hi := hi, rt := true, seqs := ss }
  (w0.run [.mock 0 true, .seq 0, .expect 0 (spec 1 0 1 [0]), .expect 1 (spec 1 2 2 [0])]).1

example : ex.order (.exp 1) [0] = some 1 := by decide
example : ex.order (.exp 0) [0] = some 0 := by decide
example : (ex.step (.call 0 1 [5])).2 = [.ok 0 0, .evalRet 0, .result (.val 7)] := by decide
-- after e1 matched once, e0 (registered before it) is no longer eligible: the sequence moved forward
example : let w1 := (ex.run [.release 0]).1; w1.order (.exp 1) [0] = some 0 := by decide

end Tromp.C05
