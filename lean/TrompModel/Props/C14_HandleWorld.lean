/-
  Props/C14_HandleWorld.lean — every World history drives the handle machine legally.

  `machineScript n w st op` is the script of handle operations (Props/C14_HandleMachine.lean) the library performs for the World
  operation `op`: a `reg` per `IN_SEQUENCE` argument at `expect` / a monitor's creation, `retire` of every skipped predecessor and
  (on saturation) of the own handles at an accepted call, the same for each monitor of a dying watched object, `drop` of the own
  handles at a release, `killSeq` at the death of a sequence object, `newSeq` at its creation.  **`machine_follows_world`**: along
  EVERY World history (whose `IN_SEQUENCE` arguments name ids `< n`) every one of these scripts is legal for the machine — a
  handle is registered only in a live sequence and only while it is not attached — so `hrun_inv` applies at every point of every
  history: the pointer heap represents the pending AND retired rings of every sequence, and a handle's `seq` pointer is non-null
  only while its sequence object exists (`world_attached_seq_alive`).
-/
import TrompModel.Props.C14_HandleMachine
import TrompModel.Props.C14_SeqHeapRefines

namespace Tromp.C14Ring
open Tromp Tromp.Ring World

/-! ### scripts of quiet operations (retire / drop): always legal, never attach anything -/

def Quiet : HOp → Prop
  | .retire _ _ => True
  | .drop _ _ => True
  | _ => False

theorem quiet_run (n : Nat) (st : HState) (ops : List HOp) (hq : ∀ op ∈ ops, Quiet op) :
    hLegalRun n st ops ∧ (hRun n st ops).alive = st.alive ∧ ∀ o s, (hRun n st ops).ptr o s = true → st.ptr o s = true := by
  induction ops generalizing st with
  | nil => exact ⟨trivial, rfl, fun _ _ h => h⟩
  | cons op ops ih =>
    obtain ⟨l, a, p⟩ := ih (hStep n st op) (fun op' h => hq op' (by simp [h]))
    have hqo := hq op (by simp)
    cases op with
    | retire o s => exact ⟨⟨trivial, l⟩, a, p⟩
    | drop o s =>
      refine ⟨⟨trivial, l⟩, a, fun o' s' h => ?_⟩
      have h2 : setPtr st.ptr o s false o' s' = true := p o' s' h
      by_cases c : o' = o ∧ s' = s
      · simp [setPtr, c] at h2
      · simpa [setPtr, c] using h2
    | newSeq s => exact absurd hqo (by simp [Quiet])
    | reg o s => exact absurd hqo (by simp [Quiet])
    | detach o s => exact absurd hqo (by simp [Quiet])
    | killSeq s => exact absurd hqo (by simp [Quiet])

def regAll (o : Owner) (ss : List Nat) : List HOp := ss.map (HOp.reg o)
def retireAll (o : Owner) (ss : List Nat) : List HOp := ss.map (HOp.retire o)
def dropAll (o : Owner) (ss : List Nat) : List HOp := ss.map (HOp.drop o)

theorem reg_run (n : Nat) (st : HState) (o : Owner) (ss : List Nat) (hnd : ss.Nodup)
    (h : ∀ s ∈ ss, s < n ∧ st.alive s = true ∧ st.ptr o s = false) :
    hLegalRun n st (regAll o ss) ∧ (hRun n st (regAll o ss)).alive = st.alive ∧
      ∀ o' s', (hRun n st (regAll o ss)).ptr o' s' = true → st.ptr o' s' = true ∨ o' = o := by
  induction ss generalizing st with
  | nil => exact ⟨trivial, rfl, fun _ _ h => Or.inl h⟩
  | cons s ss ih =>
    have hnd' := List.nodup_cons.mp hnd
    obtain ⟨h1, h2, h3⟩ := h s (by simp)
    have hnext : ∀ s' ∈ ss, s' < n ∧ (hStep n st (.reg o s)).alive s' = true ∧ (hStep n st (.reg o s)).ptr o s' = false := by
      intro s' hs'
      obtain ⟨a, b, c⟩ := h s' (by simp [hs'])
      refine ⟨a, b, ?_⟩
      show setPtr st.ptr o s true o s' = false
      have : s' ≠ s := by rintro rfl; exact hnd'.1 hs'
      simp [setPtr, this, c]
    obtain ⟨l, a, p⟩ := ih (hStep n st (.reg o s)) hnd'.2 hnext
    refine ⟨⟨⟨h1, h2, h3⟩, l⟩, a, fun o' s' hh => ?_⟩
    rcases p o' s' hh with hp | hp
    · have hp' : setPtr st.ptr o s true o' s' = true := hp
      by_cases c : o' = o ∧ s' = s
      · exact Or.inr c.1
      · left; simpa [setPtr, c] using hp'
    · exact Or.inr hp

theorem hLegalRun_append (n : Nat) (st : HState) (xs ys : List HOp) :
    hLegalRun n st (xs ++ ys) ↔ hLegalRun n st xs ∧ hLegalRun n (hRun n st xs) ys := by
  induction xs generalizing st with
  | nil => simp [hLegalRun, hRun]
  | cons x xs ih => simp only [List.cons_append, hLegalRun, hRun]; rw [ih]; exact and_assoc.symm

theorem hRun_append (n : Nat) (st : HState) (xs ys : List HOp) : hRun n st (xs ++ ys) = hRun n (hRun n st xs) ys := by
  induction xs generalizing st with
  | nil => rfl
  | cons x xs ih => simp only [List.cons_append, hRun]; exact ih _

/-! ### the script of one World operation -/

def skipH (w : World) (o : Owner) (ss : List Nat) : List HOp :=
  ss.flatMap (fun s => (skipped o (w.pendingOf s)).map (fun o' => HOp.retire o' s))

def notifyH (w : World) (m : Nat) : List HOp :=
  match w.mons m with
  | none => []
  | some x => skipH w (.mon m) x.seqs ++ retireAll (.mon m) x.seqs

def killwH : World → List Nat → List HOp
  | _, [] => []
  | w, m :: ms => notifyH w m ++ killwH (w.notify m).1 ms

def callH (w : World) (o f : Nat) (a : Args) : List HOp :=
  match w.mocks o with
  | none => []
  | some m =>
    match (find (w.expMatches a) w.expOrder (m.active f)).1 with
    | none => []
    | some e =>
      match w.exps e with
      | none => []
      | some x =>
        if x.hi = 0 then [] else
        match w.order (.exp e) x.seqs with
        | none => []
        | some _ => skipH w (.exp e) x.seqs ++ (if x.count + 1 = x.hi then retireAll (.exp e) x.seqs else [])

def machineScript (n : Nat) (w : World) (st : HState) (op : Tromp.Op) : List HOp :=
  if !w.legal op then [] else
  match op with
  | .seq s =>
    -- a fresh id has no object yet; were the id in use (no reachable world), the old object is torn down first, which is what the
    -- model's overwriting of the record amounts to
    if s < n then (if st.alive s = true then [HOp.killSeq s, HOp.newSeq s] else [HOp.newSeq s]) else []
  | .expect e x =>
    if x.rt && decide (x.hi < x.lo) then [] else
    match w.mocks x.obj with
    | none => []
    | some _ => regAll (.exp e) x.seqs
  | .call o f a => callH w o f a
  | .release e => match w.exps e with | some x => dropAll (.exp e) x.seqs | none => []
  | .killseq s => if s < n then [HOp.killSeq s] else []
  | .killw x =>
    match w.watched x with
    | none => []
    | some y => killwH { w with watched := upd w.watched x { alive := false, monitors := [] } } y.monitors
  | .monitor m x ss => match w.watched x with | some _ => regAll (.mon m) ss | none => []
  | .releasemon m => match w.mons m with | some x => dropAll (.mon m) x.seqs | none => []
  | _ => []

theorem quiet_skipH (w : World) (o : Owner) (ss : List Nat) : ∀ op ∈ skipH w o ss, Quiet op := by
  intro op h
  unfold skipH at h
  obtain ⟨s, _, h2⟩ := List.mem_flatMap.mp h
  obtain ⟨o', _, rfl⟩ := List.mem_map.mp h2
  trivial

theorem quiet_retireAll (o : Owner) (ss : List Nat) : ∀ op ∈ retireAll o ss, Quiet op := by
  intro op h; obtain ⟨s, _, rfl⟩ := List.mem_map.mp h; trivial

theorem quiet_dropAll (o : Owner) (ss : List Nat) : ∀ op ∈ dropAll o ss, Quiet op := by
  intro op h; obtain ⟨s, _, rfl⟩ := List.mem_map.mp h; trivial

theorem quiet_notifyH (w : World) (m : Nat) : ∀ op ∈ notifyH w m, Quiet op := by
  intro op h
  unfold notifyH at h
  cases hx : w.mons m with
  | none => rw [hx] at h; cases h
  | some x =>
    rw [hx] at h
    rcases List.mem_append.mp h with h | h
    · exact quiet_skipH _ _ _ op h
    · exact quiet_retireAll _ _ op h

theorem quiet_killwH (w : World) (ms : List Nat) : ∀ op ∈ killwH w ms, Quiet op := by
  induction ms generalizing w with
  | nil => intro op h; cases h
  | cons m ms ih =>
    intro op h
    simp only [killwH] at h
    rcases List.mem_append.mp h with h | h
    · exact quiet_notifyH w m op h
    · exact ih _ op h

theorem quiet_callH (w : World) (o f : Nat) (a : Args) : ∀ op ∈ callH w o f a, Quiet op := by
  intro op h
  unfold callH at h
  split at h
  · cases h
  · split at h
    · cases h
    · split at h
      · cases h
      · split at h
        · cases h
        · split at h
          · cases h
          · rcases List.mem_append.mp h with h | h
            · exact quiet_skipH _ _ _ op h
            · split at h
              · exact quiet_retireAll _ _ op h
              · cases h

/-! ### the link between a world and the machine state -/

def known (w : World) : Owner → Prop
  | .exp e => e < w.nextE
  | .mon m => m < w.nextM

structure MLink (n : Nat) (w : World) (st : HState) : Prop where
  alive : ∀ s, s < n → st.alive s = w.seqAlive s
  known : ∀ o s, st.ptr o s = true → known w o

theorem mlink_init (n : Nat) : MLink n {} (hInit n) :=
  ⟨fun s _ => rfl, fun o s h => by cases h⟩

/-- a quiet script beside a World step that keeps the sequences' liveness and the id counters. -/
theorem mlink_quiet {n : Nat} {w w' : World} {st : HState} (L : MLink n w st) (ops : List HOp) (hq : ∀ op ∈ ops, Quiet op)
    (hsa : ∀ s, w'.seqAlive s = w.seqAlive s) (hne : w'.nextE = w.nextE) (hnm : w'.nextM = w.nextM) :
    hLegalRun n st ops ∧ MLink n w' (hRun n st ops) := by
  obtain ⟨l, a, p⟩ := quiet_run n st ops hq
  refine ⟨l, ⟨fun s hs => by rw [a, hsa]; exact L.alive s hs, fun o s h => ?_⟩⟩
  have := L.known o s (p o s h)
  cases o <;> simp only [known, hne, hnm] at this ⊢ <;> exact this

theorem mlink_shrinks {n : Nat} {w w' : World} {st : HState} (L : MLink n w st) (ops : List HOp) (hq : ∀ op ∈ ops, Quiet op)
    (sh : Shrinks w w') : hLegalRun n st ops ∧ MLink n w' (hRun n st ops) :=
  mlink_quiet L ops hq sh.seqAlive sh.nextE sh.nextM

theorem mlink_reg {n : Nat} {w w' : World} {st : HState} (L : MLink n w st) (o : Owner) (ss : List Nat) (hnd : ss.Nodup)
    (hb : ∀ s ∈ ss, s < n) (hal : ∀ s ∈ ss, w.seqAlive s = true) (hfresh : ¬ known w o)
    (hsa : ∀ s, w'.seqAlive s = w.seqAlive s) (hk : ∀ o', known w o' ∨ o' = o → known w' o') :
    hLegalRun n st (regAll o ss) ∧ MLink n w' (hRun n st (regAll o ss)) := by
  have hpre : ∀ s ∈ ss, s < n ∧ st.alive s = true ∧ st.ptr o s = false := by
    intro s hs
    refine ⟨hb s hs, by rw [L.alive s (hb s hs)]; exact hal s hs, ?_⟩
    cases hp : st.ptr o s with
    | false => rfl
    | true => exact absurd (L.known o s hp) hfresh
  obtain ⟨l, a, p⟩ := reg_run n st o ss hnd hpre
  refine ⟨l, ⟨fun s hs => by rw [a, hsa]; exact L.alive s hs, fun o' s' h => ?_⟩⟩
  rcases p o' s' h with hp | hp
  · exact hk o' (Or.inl (L.known o' s' hp))
  · exact hk o' (Or.inr hp)

/-! ### one World step -/

theorem releaseExp_frame (w : World) (e : Nat) (x : Exp) :
    (∀ s, (w.releaseExp e x).1.seqAlive s = w.seqAlive s) ∧ (w.releaseExp e x).1.nextE = w.nextE ∧ (w.releaseExp e x).1.nextM = w.nextM := by
  have hu : (w.unlinkExp e x).seqs = w.seqs ∧ (w.unlinkExp e x).nextE = w.nextE ∧ (w.unlinkExp e x).nextM = w.nextM := by
    unfold unlinkExp
    split
    · split <;> exact ⟨rfl, rfl, rfl⟩
    · exact ⟨rfl, rfl, rfl⟩
  unfold releaseExp
  simp only [setExp]
  refine ⟨fun s => ?_, ?_, ?_⟩
  · show (World.retireOwn _ _ _).seqAlive s = _
    unfold retireOwn; rw [foldl_setSeqPending_seqAlive]; simp only [seqAlive, hu.1]
  · show (World.retireOwn _ _ _).nextE = _
    unfold retireOwn; rw [foldl_setSeqPending_nextE, hu.2.1]
  · show (World.retireOwn _ _ _).nextM = _
    unfold retireOwn; rw [foldl_setSeqPending_nextM, hu.2.2]

/-- **one World operation drives the machine legally and keeps the link.** -/
theorem machine_step {n : Nat} {w : World} {st : HState} (L : MLink n w st) (op : Tromp.Op) (hb : ∀ s ∈ registers op, s < n) :
    hLegalRun n st (machineScript n w st op) ∧ MLink n (w.step op).1 (hRun n st (machineScript n w st op)) := by
  by_cases hl : w.legal op = true
  swap
  · have h1 : (w.step op).1 = w := by unfold step; simp [hl]
    have h2 : machineScript n w st op = [] := by unfold machineScript; simp [hl]
    rw [h1, h2]; exact ⟨trivial, L⟩
  have hnl : (!w.legal op) = false := by simp [hl]
  have nothing : ∀ {w' : World}, Shrinks w w' → hLegalRun n st [] ∧ MLink n w' (hRun n st []) :=
    fun sh => mlink_shrinks L [] (fun _ h => by cases h) sh
  cases op with
  | mock o mv =>
    have h1 : Shrinks w (w.step (.mock o mv)).1 := by unfold step; simp only [hnl]; exact Shrinks.of_eq rfl rfl rfl rfl rfl
    have h2 : machineScript n w st (.mock o mv) = [] := by unfold machineScript; simp only [hnl]; rfl
    rw [h2]; exact nothing h1
  | seq s =>
    have h1 : (w.step (.seq s)).1 = { w with seqs := upd w.seqs s {}, nextS := s + 1 } := by unfold step; simp only [hnl]; rfl
    have ha : ∀ s', (w.step (.seq s)).1.seqAlive s' = if s' = s then true else w.seqAlive s' := by
      intro s'; rw [h1]; by_cases hs : s' = s <;> simp [seqAlive, upd, hs]
    have hk : ∀ o s', st.ptr o s' = true → known (w.step (.seq s)).1 o := by
      intro o s' h; have := L.known o s' h; rw [h1]; cases o <;> exact this
    by_cases c : s < n
    · by_cases al : st.alive s = true
      · have h2 : machineScript n w st (.seq s) = [HOp.killSeq s, HOp.newSeq s] := by
          unfold machineScript; simp only [hnl, c, al]; simp
        rw [h2]
        refine ⟨⟨c, ?_, trivial⟩, ⟨fun s' hs' => ?_, fun o s' h => ?_⟩⟩
        · show (if s = s then false else st.alive s) = false
          simp
        · show (if s' = s then true else (if s' = s then false else st.alive s')) = _
          rw [ha]
          by_cases e : s' = s
          · simp [e]
          · simp only [e, if_false]; exact L.alive s' hs'
        · have h' : (if s' = s then false else st.ptr o s') = true := h
          by_cases e : s' = s
          · simp [e] at h'
          · simp only [e, if_false] at h'; exact hk o s' h'
      · have al' : st.alive s = false := by simpa using al
        have h2 : machineScript n w st (.seq s) = [HOp.newSeq s] := by
          unfold machineScript; simp only [hnl, c, al']; simp
        rw [h2]
        refine ⟨⟨al', trivial⟩, ⟨fun s' hs' => ?_, hk⟩⟩
        show (if s' = s then true else st.alive s') = _
        rw [ha]
        by_cases e : s' = s
        · simp [e]
        · simp only [e, if_false]; exact L.alive s' hs'
    · have h2 : machineScript n w st (.seq s) = [] := by unfold machineScript; simp only [hnl, c]; simp
      rw [h2]
      refine ⟨trivial, ⟨fun s' hs' => ?_, hk⟩⟩
      show st.alive s' = _
      rw [ha]
      have : s' ≠ s := by omega
      simp only [this, if_false]; exact L.alive s' hs'
  | expect e x =>
    have hl' := hl
    simp only [legal, Bool.and_eq_true, beq_iff_eq, decide_eq_true_eq, List.all_eq_true] at hl'
    obtain ⟨⟨⟨⟨⟨⟨he, hmock⟩, _⟩, hall⟩, hnd⟩, _⟩, _⟩ := hl'
    have hnd' : x.seqs.Nodup := by simpa using hnd
    by_cases hthrow : (x.rt && decide (x.hi < x.lo)) = true
    · have h1 : (w.step (.expect e x)).1 = { w with nextE := e + 1 } := by unfold step; simp only [hnl, hthrow]; rfl
      have h2 : machineScript n w st (.expect e x) = [] := by unfold machineScript; simp only [hnl, hthrow]; rfl
      rw [h1, h2]
      refine ⟨trivial, ⟨fun s hs => L.alive s hs, fun o s h => ?_⟩⟩
      have := L.known o s h
      cases o with
      | exp e' => show e' < e + 1; have : e' < w.nextE := this; omega
      | mon m => exact this
    · have hthrow' : (x.rt && decide (x.hi < x.lo)) = false := by simpa using hthrow
      obtain ⟨m, hm⟩ : ∃ m, w.mocks x.obj = some m := by
        unfold mockAlive at hmock
        cases hx : w.mocks x.obj with
        | none => rw [hx] at hmock; cases hmock
        | some m => exact ⟨m, rfl⟩
      have h2 : machineScript n w st (.expect e x) = regAll (.exp e) x.seqs := by
        unfold machineScript; simp only [hnl, hthrow', hm]; rfl
      rw [h2]
      have hm0 : ({ w with nextE := e + 1 } : World).mocks x.obj = some m := hm
      have hw' : (w.step (.expect e x)).1 =
          ((({ w with nextE := e + 1 } : World).register (.exp e) x.seqs).setExp e
            { obj := x.obj, fn := x.fn, params := x.params, conds := x.conds, effects := x.effects, ret := x.ret,
              lo := x.lo, hi := x.hi, seqs := x.seqs }).setMock x.obj
            { m with active := fun g => if g = x.fn then e :: m.active g else m.active g } := by
        unfold step; simp only [hnl, hthrow', Bool.false_eq_true, if_false, hm]
      refine mlink_reg L (.exp e) x.seqs hnd' hb hall (by simp only [known]; omega) ?_ ?_
      · intro s
        rw [hw']
        show (World.register _ _ _).seqAlive s = _
        unfold register; rw [foldl_setSeqPending_seqAlive]; rfl
      · intro o' ho'
        rw [hw']
        have hne : (World.register { w with nextE := e + 1 } (.exp e) x.seqs).nextE = e + 1 := by
          unfold register; rw [foldl_setSeqPending_nextE]
        have hnm : (World.register { w with nextE := e + 1 } (.exp e) x.seqs).nextM = w.nextM := by
          unfold register; rw [foldl_setSeqPending_nextM]
        cases o' with
        | exp e' =>
          show e' < (World.register _ _ _).nextE
          rw [hne]
          rcases ho' with h | h
          · have : e' < w.nextE := h; omega
          · cases h; omega
        | mon m' =>
          show m' < (World.register _ _ _).nextM
          rw [hnm]
          rcases ho' with h | h
          · exact h
          · cases h
  | call o f a =>
    have h1 : (w.step (.call o f a)).1 = (w.callFn o f a).1 := by unfold step; simp only [hnl]; rfl
    have h2 : machineScript n w st (.call o f a) = callH w o f a := by unfold machineScript; simp only [hnl]; rfl
    rw [h1, h2]; exact mlink_shrinks L _ (quiet_callH w o f a) (Shrinks.callFn w o f a)
  | sat e =>
    have h1 : (w.step (.sat e)).1 = w := by unfold step; simp only [hnl]; rfl
    have h2 : machineScript n w st (.sat e) = [] := by unfold machineScript; simp only [hnl]; rfl
    rw [h1, h2]; exact ⟨trivial, L⟩
  | satd e =>
    have h1 : (w.step (.satd e)).1 = w := by unfold step; simp only [hnl]; rfl
    have h2 : machineScript n w st (.satd e) = [] := by unfold machineScript; simp only [hnl]; rfl
    rw [h1, h2]; exact ⟨trivial, L⟩
  | release e =>
    cases hx : w.exps e with
    | none =>
      have h1 : (w.step (.release e)).1 = w := by unfold step; simp only [hnl, hx]; rfl
      have h2 : machineScript n w st (.release e) = [] := by unfold machineScript; simp only [hnl, hx]; rfl
      rw [h1, h2]; exact ⟨trivial, L⟩
    | some x =>
      have h1 : (w.step (.release e)).1 = (w.releaseExp e x).1 := by unfold step; simp only [hnl, hx]; rfl
      have h2 : machineScript n w st (.release e) = dropAll (.exp e) x.seqs := by unfold machineScript; simp only [hnl, hx]; rfl
      rw [h1, h2]
      obtain ⟨a, b, c⟩ := releaseExp_frame w e x
      exact mlink_quiet L _ (quiet_dropAll _ _) a b c
  | move o o' =>
    have h2 : machineScript n w st (.move o o') = [] := by unfold machineScript; simp only [hnl]; rfl
    rw [h2]
    cases hm : w.mocks o with
    | none =>
      have h1 : (w.step (.move o o')).1 = w := by unfold step; simp only [hnl, hm]; rfl
      rw [h1]; exact ⟨trivial, L⟩
    | some m =>
      have h1 : (w.step (.move o o')).1 = w.moveMock o o' m := by unfold step; simp only [hnl, hm]; rfl
      rw [h1]; exact nothing (Shrinks.moveMock w o o' m)
  | kill o =>
    have h2 : machineScript n w st (.kill o) = [] := by unfold machineScript; simp only [hnl]; rfl
    rw [h2]
    cases hm : w.mocks o with
    | none =>
      have h1 : (w.step (.kill o)).1 = w := by unfold step; simp only [hnl, hm]; rfl
      rw [h1]; exact ⟨trivial, L⟩
    | some m =>
      have h1 : (w.step (.kill o)).1 = (w.killMock o m).1 := by unfold step; simp only [hnl, hm]; rfl
      rw [h1]; exact nothing (Shrinks.killMock w o m)
  | killseq s =>
    cases hq : w.seqs s with
    | none =>
      exfalso
      simp only [legal, seqAlive, hq] at hl; cases hl
    | some q =>
      have h1 : (w.step (.killseq s)).1 = { w with seqs := upd w.seqs s { alive := false, pending := [] } } := by
        unfold step; simp only [hnl, hq]; rfl
      have ha : ∀ s', (w.step (.killseq s)).1.seqAlive s' = if s' = s then false else w.seqAlive s' := by
        intro s'; rw [h1]; by_cases hs : s' = s <;> simp [seqAlive, upd, hs]
      have hk : ∀ o s', st.ptr o s' = true → known (w.step (.killseq s)).1 o := by
        intro o s' h; have := L.known o s' h; rw [h1]; cases o <;> exact this
      by_cases c : s < n
      · have h2 : machineScript n w st (.killseq s) = [HOp.killSeq s] := by unfold machineScript; simp only [hnl, c]; simp
        rw [h2]
        refine ⟨⟨c, trivial⟩, ⟨fun s' hs' => ?_, fun o s' h => ?_⟩⟩
        · show (if s' = s then false else st.alive s') = _
          rw [ha]
          by_cases e : s' = s
          · simp [e]
          · simp only [e, if_false]; exact L.alive s' hs'
        · have h' : (if s' = s then false else st.ptr o s') = true := h
          by_cases e : s' = s
          · simp [e] at h'
          · simp only [e, if_false] at h'; exact hk o s' h'
      · have h2 : machineScript n w st (.killseq s) = [] := by unfold machineScript; simp only [hnl, c]; simp
        rw [h2]
        refine ⟨trivial, ⟨fun s' hs' => ?_, hk⟩⟩
        show st.alive s' = _
        rw [ha]
        have : s' ≠ s := by omega
        simp only [this, if_false]; exact L.alive s' hs'
  | completed s =>
    have h1 : (w.step (.completed s)).1 = w := by unfold step; simp only [hnl]; rfl
    have h2 : machineScript n w st (.completed s) = [] := by unfold machineScript; simp only [hnl]; rfl
    rw [h1, h2]; exact ⟨trivial, L⟩
  | watched x =>
    have h1 : Shrinks w (w.step (.watched x)).1 := by unfold step; simp only [hnl]; exact Shrinks.of_eq rfl rfl rfl rfl rfl
    have h2 : machineScript n w st (.watched x) = [] := by unfold machineScript; simp only [hnl]; rfl
    rw [h2]; exact nothing h1
  | copyw x y =>
    have h1 : Shrinks w (w.step (.copyw x y)).1 := by unfold step; simp only [hnl]; exact Shrinks.of_eq rfl rfl rfl rfl rfl
    have h2 : machineScript n w st (.copyw x y) = [] := by unfold machineScript; simp only [hnl]; rfl
    rw [h2]; exact nothing h1
  | movew x y =>
    have h1 : Shrinks w (w.step (.movew x y)).1 := by unfold step; simp only [hnl]; exact Shrinks.of_eq rfl rfl rfl rfl rfl
    have h2 : machineScript n w st (.movew x y) = [] := by unfold machineScript; simp only [hnl]; rfl
    rw [h2]; exact nothing h1
  | assignw d s =>
    have h1 : (w.step (.assignw d s)).1 = w := by unfold step; simp only [hnl]; rfl
    have h2 : machineScript n w st (.assignw d s) = [] := by unfold machineScript; simp only [hnl]; rfl
    rw [h1, h2]; exact ⟨trivial, L⟩
  | killw x =>
    cases hy : w.watched x with
    | none =>
      have h1 : (w.step (.killw x)).1 = w := by unfold step; simp only [hnl, hy]; rfl
      have h2 : machineScript n w st (.killw x) = [] := by unfold machineScript; simp only [hnl, hy]; rfl
      rw [h1, h2]; exact ⟨trivial, L⟩
    | some y =>
      have h2 : machineScript n w st (.killw x) =
          killwH { w with watched := upd w.watched x { alive := false, monitors := [] } } y.monitors := by
        unfold machineScript; simp only [hnl, hy]; rfl
      rw [h2]
      refine mlink_shrinks L _ (quiet_killwH _ _) ?_
      unfold step; simp only [hnl, hy, Bool.false_eq_true, if_false]
      by_cases hmon : y.monitors.isEmpty = true
      · simp only [hmon, if_true]; exact Shrinks.of_eq rfl rfl rfl rfl rfl
      · simp only [hmon, Bool.false_eq_true, if_false]
        exact Shrinks.trans (Shrinks.of_eq rfl rfl rfl rfl rfl :
          Shrinks w { w with watched := upd w.watched x { alive := false, monitors := [] } }) (Shrinks.notifyFold _ _ _)
  | monitor m x ss =>
    have hl' := hl
    simp only [legal, Bool.and_eq_true, beq_iff_eq, List.all_eq_true] at hl'
    obtain ⟨⟨⟨hm, _⟩, hall⟩, hnd⟩ := hl'
    have hnd' : ss.Nodup := by simpa using hnd
    cases hy : w.watched x with
    | none =>
      have h1 : (w.step (.monitor m x ss)).1 = w := by unfold step; simp only [hnl, hy]; rfl
      have h2 : machineScript n w st (.monitor m x ss) = [] := by unfold machineScript; simp only [hnl, hy]; rfl
      rw [h1, h2]; exact ⟨trivial, L⟩
    | some y =>
      have h2 : machineScript n w st (.monitor m x ss) = regAll (.mon m) ss := by unfold machineScript; simp only [hnl, hy]; rfl
      rw [h2]
      have hw' : (w.step (.monitor m x ss)).1 =
          ({ w with nextM := m + 1, mons := upd w.mons m { target := x, seqs := ss },
                    watched := upd w.watched x { y with monitors := m :: y.monitors } } : World).register (.mon m) ss := by
        unfold step; simp only [hnl, hy]; rfl
      refine mlink_reg L (.mon m) ss hnd' hb hall (by simp only [known]; omega) ?_ ?_
      · intro s
        rw [hw']
        unfold register; rw [foldl_setSeqPending_seqAlive]; rfl
      · intro o' ho'
        rw [hw']
        cases o' with
        | exp e' =>
          show e' < (World.register _ _ _).nextE
          unfold register; rw [foldl_setSeqPending_nextE]
          rcases ho' with h | h
          · exact h
          · cases h
        | mon m' =>
          show m' < (World.register _ _ _).nextM
          unfold register; rw [foldl_setSeqPending_nextM]
          show m' < m + 1
          rcases ho' with h | h
          · have : m' < w.nextM := h; omega
          · cases h; omega
  | msat m =>
    have h1 : (w.step (.msat m)).1 = w := by unfold step; simp only [hnl]; rfl
    have h2 : machineScript n w st (.msat m) = [] := by unfold machineScript; simp only [hnl]; rfl
    rw [h1, h2]; exact ⟨trivial, L⟩
  | msatd m =>
    have h1 : (w.step (.msatd m)).1 = w := by unfold step; simp only [hnl]; rfl
    have h2 : machineScript n w st (.msatd m) = [] := by unfold machineScript; simp only [hnl]; rfl
    rw [h1, h2]; exact ⟨trivial, L⟩
  | releasemon m =>
    cases hx : w.mons m with
    | none =>
      have h1 : (w.step (.releasemon m)).1 = w := by unfold step; simp only [hnl, hx]; rfl
      have h2 : machineScript n w st (.releasemon m) = [] := by unfold machineScript; simp only [hnl, hx]; rfl
      rw [h1, h2]; exact ⟨trivial, L⟩
    | some x =>
      have h2 : machineScript n w st (.releasemon m) = dropAll (.mon m) x.seqs := by unfold machineScript; simp only [hnl, hx]; rfl
      rw [h2]
      refine mlink_quiet L _ (quiet_dropAll _ _) ?_ ?_ ?_
      · intro s
        unfold step; simp only [hnl, hx]
        show (World.retireOwn _ _ _).seqAlive s = _
        unfold retireOwn; rw [foldl_setSeqPending_seqAlive]
        split
        · rfl
        · cases w.watched x.target <;> rfl
      · unfold step; simp only [hnl, hx]
        show (World.retireOwn _ _ _).nextE = _
        unfold retireOwn; rw [foldl_setSeqPending_nextE]
        split
        · rfl
        · cases w.watched x.target <;> rfl
      · unfold step; simp only [hnl, hx]
        show (World.retireOwn _ _ _).nextM = _
        unfold retireOwn; rw [foldl_setSeqPending_nextM]
        split
        · rfl
        · cases w.watched x.target <;> rfl
  | tracer t =>
    have h1 : Shrinks w (w.step (.tracer t)).1 := by unfold step; simp only [hnl]; exact Shrinks.of_eq rfl rfl rfl rfl rfl
    have h2 : machineScript n w st (.tracer t) = [] := by unfold machineScript; simp only [hnl]; rfl
    rw [h2]; exact nothing h1
  | killtracer t =>
    have h1 : Shrinks w (w.step (.killtracer t)).1 := by unfold step; simp only [hnl]; exact Shrinks.of_eq rfl rfl rfl rfl rfl
    have h2 : machineScript n w st (.killtracer t) = [] := by unfold machineScript; simp only [hnl]; rfl
    rw [h2]; exact nothing h1
  | setreporter rr ok =>
    have h1 : Shrinks w (w.step (.setreporter rr ok)).1 := by unfold step; simp only [hnl]; exact Shrinks.of_eq rfl rfl rfl rfl rfl
    have h2 : machineScript n w st (.setreporter rr ok) = [] := by unfold machineScript; simp only [hnl]; rfl
    rw [h2]; exact nothing h1

/-! ### whole histories -/

/-- the World run of a history and, beside it, the handle machine executing the script of every step. -/
def machineRun (n : Nat) : World × HState → List Tromp.Op → World × HState
  | s, [] => s
  | (w, st), op :: ops => machineRun n ((w.step op).1, hRun n st (machineScript n w st op)) ops

theorem machineRun_world (n : Nat) (w : World) (st : HState) (ops : List Tromp.Op) : (machineRun n (w, st) ops).1 = (w.run ops).1 := by
  induction ops generalizing w st with
  | nil => rfl
  | cons op ops ih => simp only [machineRun, World.run]; exact ih _ _

theorem machineRun_inv {n : Nat} {w : World} {st : HState} (I : HInv n st) (L : MLink n w st) (ops : List Tromp.Op)
    (hb : ∀ op ∈ ops, ∀ s ∈ registers op, s < n) :
    HInv n (machineRun n (w, st) ops).2 ∧ MLink n (machineRun n (w, st) ops).1 (machineRun n (w, st) ops).2 := by
  induction ops generalizing w st with
  | nil => exact ⟨I, L⟩
  | cons op ops ih =>
    obtain ⟨lg, L'⟩ := machine_step L op (hb op (by simp))
    exact ih (hrun_inv I _ lg) L' (fun op' h => hb op' (by simp [h]))

/-- **every World history drives the handle machine legally**: at every point of every history (whose `IN_SEQUENCE` arguments
    name ids below `n`) the machine invariant holds — the heap represents the pending and the retired ring of every sequence,
    and the handles' `seq` pointers agree with ring membership. -/
theorem machine_follows_world (n : Nat) (ops : List Tromp.Op) (hb : ∀ op ∈ ops, ∀ s ∈ registers op, s < n) :
    HInv n (machineRun n ({}, hInit n) ops).2 ∧ MLink n (World.run {} ops).1 (machineRun n ({}, hInit n) ops).2 := by
  have := machineRun_inv (hInit_inv n) (mlink_init n) ops hb
  rwa [machineRun_world] at this

/-- **no dangling `seq` pointer, at any point of any history**: a handle whose `seq` pointer is non-null belongs to a sequence
    object the World still has alive, and it is on one of that sequence's two rings (where `~sequence_type` will find it). -/
theorem world_attached_seq_alive (n : Nat) (ops : List Tromp.Op) (hb : ∀ op ∈ ops, ∀ s ∈ registers op, s < n) (o : Owner) (s : Nat)
    (h : (machineRun n ({}, hInit n) ops).2.ptr o s = true) :
    (World.run {} ops).1.seqAlive s = true ∧ SAddr.handle o s ∈ onRings n (machineRun n ({}, hInit n) ops).2.a s := by
  obtain ⟨I, L⟩ := machine_follows_world n ops hb
  obtain ⟨hs, hin⟩ := (I.attached o s).1 h
  exact ⟨by rw [← L.alive s hs]; exact I.live o s h, hin⟩

/-! ### a concrete history: a satisfied predecessor is skipped (retired), then the sequence object dies first -/

private def hspec (v : Int) (lo hi : Nat) : ExpectSpec :=
  { obj := 0, fn := 1, params := [fun a => a == v], conds := [], effects := [], ret := some (fun _ => .val 7),
    lo := lo, hi := hi, rt := false, seqs := [0] }

/-- sequence 0; A = f(1) TIMES(1,2) and B = f(2), both IN_SEQUENCE(0); A is called once (satisfied, not saturated), then B:
    A is passed over. -/
private def hhist : List Tromp.Op :=
  [.seq 0, .mock 0 false, .expect 0 (hspec 1 1 2), .expect 1 (hspec 2 1 1), .call 0 1 [1], .call 0 1 [2]]

private def hst : HState := (machineRun 1 ({}, hInit 1) hhist).2
private def hst' : HState := (machineRun 1 ({}, hInit 1) (hhist ++ [.killseq 0])).2

-- A's handle has left the pending ring for the retired ring and is still attached; B saturated and retired itself
example : hst.a.lists (SAddr.pending 0) = [] := by decide
example : hst.a.lists (retiredObj 1 0) = [SAddr.handle (.exp 0) 0, SAddr.handle (.exp 1) 0] := by decide
example : hst.ptr (.exp 0) 0 = true ∧ hst.alive 0 = true := by decide
example : hst.hp.next (retiredObj 1 0) = SAddr.handle (.exp 0) 0 ∧ hst.hp.next (SAddr.handle (.exp 0) 0) = SAddr.handle (.exp 1) 0 := by decide
-- the sequence object dies before its expectations: both handles are detached, nothing points into the dead object
example : hst'.ptr (.exp 0) 0 = false ∧ hst'.ptr (.exp 1) 0 = false ∧ hst'.alive 0 = false := by decide
example : hst'.a.lists (retiredObj 1 0) = [] ∧ hst'.hp.next (SAddr.handle (.exp 0) 0) = SAddr.handle (.exp 0) 0 := by decide

end Tromp.C14Ring
