/-
  Props/C04.lean — end of lifetime: one non-fatal report iff the lower bound was missed, not twice.
  "named in an earlier violation report" is the `reported` flag (DESIGN.md §4 C04).
-/
import TrompModel.Props.C03

namespace Tromp.C04
open Tromp World

theorem isUnfulfilled_iff (x : Exp) :
    isUnfulfilled x = true ↔ x.reported = false ∧ x.link ≠ .unlinked ∧ x.count < x.lo := by
  simp [isUnfulfilled, and_assoc]

/-- **C04, release.**  Ending the lifetime of an expectation object reports exactly one non-fatal
    "unfulfilled" violation (with required and actual counts) iff its count is below its lower
    bound, it has not been named in an earlier report and it is still attached; otherwise nothing. -/
theorem release_report (w : World) (e : Nat) (x : Exp) (hx : w.exps e = some x) (ha : x.alive = true) :
    (w.step (.release e)).2 =
      if isUnfulfilled x then [Ev.report .nonfatal w.reporter (.unfulfilled e x.lo x.count)] else [] := by
  simp [step, legal, expAlive, hx, ha, releaseExp, rep]

/-- satisfied expectations (in particular ALLOW and FORBID, whose lower bound is 0) never report. -/
theorem satisfied_silent (w : World) (e : Nat) (x : Exp) (hx : w.exps e = some x) (ha : x.alive = true)
    (hsat : x.lo ≤ x.count) : (w.step (.release e)).2 = [] := by
  rw [release_report w e x hx ha]
  have : isUnfulfilled x = false := by simp [isUnfulfilled]; omega
  simp [this]

/-- an expectation already named in a violation report does not report its shortfall again. -/
theorem reported_silent (w : World) (e : Nat) (x : Exp) (hx : w.exps e = some x) (ha : x.alive = true)
    (hr : x.reported = true) : (w.step (.release e)).2 = [] := by
  rw [release_report w e x hx ha]
  simp [isUnfulfilled, hr]

/-- after its lifetime ended the expectation is dead: it cannot be released (or report) again. -/
theorem release_once (w : World) (e : Nat) (x : Exp) (hx : w.exps e = some x) (ha : x.alive = true) :
    (w.step (.release e)).1.legal (.release e) = false := by
  simp [step, legal, expAlive, hx, ha, releaseExp]

/-- `decommission` of a list, with an arbitrary accumulator. -/
theorem decommission_fold (es : List Nat) (w0 : World) (evs0 : List Ev) (r : Nat) (hr : w0.reporter = r) :
    (∀ ev ∈ (es.foldl decomStep (w0, evs0)).2,
        ev ∈ evs0 ∨ ∃ e lo n, e ∈ es ∧ ev = Ev.report .nonfatal r (.pendingDestroyed e lo n)) ∧
    (∀ e ∈ es, ∀ x, w0.exps e = some x →
        ∃ x', (es.foldl decomStep (w0, evs0)).1.exps e = some x' ∧ x'.link = .unlinked) ∧
    (∀ e, e ∉ es → (es.foldl decomStep (w0, evs0)).1.exps e = w0.exps e) ∧
    (∀ e x, w0.exps e = some x → x.link = .unlinked →
        ∃ x', (es.foldl decomStep (w0, evs0)).1.exps e = some x' ∧ x'.link = .unlinked) ∧
    (es.foldl decomStep (w0, evs0)).1.reporter = r := by
  induction es generalizing w0 evs0 with
  | nil =>
    exact ⟨fun ev hev => Or.inl hev, by simp, fun _ _ => rfl, fun e x hx hl => ⟨x, hx, hl⟩, hr⟩
  | cons a es ih =>
    simp only [List.foldl]
    -- the state after processing `a`
    have key : ∃ w1 evs1, decomStep (w0, evs0) a = (w1, evs1) ∧ w1.reporter = r ∧
        (∀ ev ∈ evs1, ev ∈ evs0 ∨ ∃ lo n, ev = Ev.report .nonfatal r (.pendingDestroyed a lo n)) ∧
        (∀ e, e ≠ a → w1.exps e = w0.exps e) ∧
        (∀ x, w0.exps a = some x → ∃ x', w1.exps a = some x' ∧ x'.link = .unlinked) := by
      cases ha : w0.exps a with
      | none =>
        refine ⟨w0, evs0, by simp [decomStep, ha], hr, fun ev h => Or.inl h, fun _ _ => rfl, ?_⟩
        intro x hx; cases hx
      | some xa =>
        by_cases hu : isUnfulfilled xa = true
        · refine ⟨w0.setExp a { xa with reported := true, link := .unlinked },
            evs0 ++ [w0.rep .nonfatal (.pendingDestroyed a xa.lo xa.count)],
            by simp [decomStep, ha, hu], hr, ?_, ?_, ?_⟩
          · intro ev hev
            rcases List.mem_append.mp hev with h | h
            · exact Or.inl h
            · simp at h; subst h; exact Or.inr ⟨xa.lo, xa.count, by simp [rep, hr]⟩
          · intro e he; exact setExp_exps_other _ _ he
          · intro x _; exact ⟨_, setExp_exps_same _ _ _, rfl⟩
        · refine ⟨w0.setExp a { xa with link := .unlinked }, evs0, by simp [decomStep, ha, hu], hr,
            fun ev h => Or.inl h, ?_, ?_⟩
          · intro e he; exact setExp_exps_other _ _ he
          · intro x _; exact ⟨_, setExp_exps_same _ _ _, rfl⟩
    obtain ⟨w1, evs1, hstep, hr1, hev1, hother, hsame⟩ := key
    rw [hstep]
    obtain ⟨h1, h2, h3, h4, h5⟩ := ih w1 evs1 hr1
    refine ⟨?_, ?_, ?_, ?_, h5⟩
    · intro ev hev
      rcases h1 ev hev with h | ⟨e, lo, n, he, rfl⟩
      · rcases hev1 ev h with h | ⟨lo, n, rfl⟩
        · exact Or.inl h
        · exact Or.inr ⟨a, lo, n, by simp, rfl⟩
      · exact Or.inr ⟨e, lo, n, List.mem_cons_of_mem _ he, rfl⟩
    · intro e he x hx
      by_cases hea : e = a
      · subst hea
        obtain ⟨x', hx', hl'⟩ := hsame x hx
        exact h4 e x' hx' hl'
      · rcases List.mem_cons.mp he with h | h
        · exact absurd h hea
        · exact h2 e h x (by rw [hother e hea]; exact hx)
    · intro e he
      have hea : e ≠ a := fun h => he (by simp [h])
      rw [h3 e (fun h => he (List.mem_cons_of_mem _ h)), hother e hea]
    · intro e x hx hl
      by_cases hea : e = a
      · subst hea
        obtain ⟨x', hx', hl'⟩ := hsame x hx
        exact h4 e x' hx' hl'
      · exact h4 e x (by rw [hother e hea]; exact hx) hl

/-- `decommission` of a list: every event is a non-fatal "pending on destroyed mock" report of a
    listed expectation, and every listed expectation is detached afterwards. -/
theorem decommission_spec (w : World) (es : List Nat) :
    (∀ ev ∈ (w.decommission es).2, ∃ e lo n, e ∈ es ∧ ev = Ev.report .nonfatal w.reporter (.pendingDestroyed e lo n)) ∧
    (∀ e ∈ es, ∀ x, w.exps e = some x → ∃ x', (w.decommission es).1.exps e = some x' ∧ x'.link = .unlinked) ∧
    (∀ e, e ∉ es → (w.decommission es).1.exps e = w.exps e) ∧
    (w.decommission es).1.reporter = w.reporter := by
  obtain ⟨h1, h2, h3, _, h5⟩ := decommission_fold es w [] w.reporter rfl
  refine ⟨fun ev hev => ?_, h2, h3, h5⟩
  rcases h1 ev hev with h | h
  · cases h
  · exact h

/-- **C04, no shortfall is reported twice.**  An expectation that was on a list of a mock object
    when that object died is detached, so releasing the expectation object later reports nothing. -/
theorem detached_silent (w : World) (e : Nat) (x : Exp) (hx : w.exps e = some x) (ha : x.alive = true)
    (hl : x.link = .unlinked) : (w.step (.release e)).2 = [] := by
  rw [release_report w e x hx ha]
  simp [isUnfulfilled, hl]

/-- moving a mock object reports nothing. -/
theorem move_silent (w : World) (o o' : Nat) : ∀ ev ∈ (w.step (.move o o')).2, ev = Ev.badOp := by
  intro ev hev
  unfold step at hev
  split at hev
  · simpa using hev
  · simp only [] at hev
    split at hev
    · simpa using hev
    · simp at hev

/-! ### non-vacuity -/
private def spec (lo hi : Nat) : ExpectSpec :=
  { obj := 0, fn := 1, params := [fun x => x == 1], conds := [], effects := [], ret := some (fun _ => .val 7),
    lo := lo, hi := hi, rt := true, seqs := [] }
private def ex : World := (({} : World).run [.mock 0 true, .expect 0 (spec 2 3)]).1

example : (ex.step (.release 0)).2 = [.report .nonfatal 0 (.unfulfilled 0 2 0)] := by decide
example : (ex.run [.call 0 1 [1], .kill 0, .release 0]).2 =
    [[.ok 0 0, .evalRet 0, .result (.val 7)], [.report .nonfatal 0 (.pendingDestroyed 0 2 1)], []] := by decide
-- named in a no-match listing first: no shortfall report later
example : ((ex.run [.call 0 1 [5]]).1.step (.release 0)).2 = [] := by decide

end Tromp.C04
