/-
  Props/C14_HandlePending.lean — the handle machine's PENDING rings are the World's pending lists.

  Props/C14_HandleWorld.lean shows that every World history drives the handle machine legally.  This file pins the machine to
  the World: along every history the pending ring of sequence `s` in the machine state holds exactly the handles of the World's
  `pendingOf s`, in order (`PendAgree`).  So which handles `retire_predecessors` retires, and when — the part of the machine's
  scripts that is computed from the World (`skipped`) — is computed from the machine's own rings as well, and the retired rings
  hold exactly the handles that left the pending lists by retirement and have not been destroyed since.
-/
import TrompModel.Props.C14_HandleWorld

namespace Tromp.C14Ring
open Tromp Tromp.Ring World

def PendAgree (n : Nat) (w : World) (st : HState) : Prop :=
  ∀ s, s < n → st.a.lists (SAddr.pending s) = (w.pendingOf s).map (fun o => SAddr.handle o s)

theorem pendAgree_init (n : Nat) : PendAgree n {} (hInit n) := fun _ _ => rfl

/-! ### the machine side: what a script does to the pending rings -/

/-- the handle a quiet operation unlinks. -/
def tgt : HOp → Option (Owner × Nat)
  | .retire o s => some (o, s)
  | .drop o s => some (o, s)
  | _ => none

def targets (ops : List HOp) : List (Owner × Nat) := ops.filterMap tgt

theorem pending_ne_retired {n k s : Nat} (hk : k < n) : SAddr.pending k ≠ retiredObj n s := by
  unfold retiredObj; intro e
  have : k = n + s := by injection e
  omega

theorem quiet_lists (n : Nat) (st : HState) (ops : List HOp) (hq : ∀ op ∈ ops, Quiet op) (k : Nat) (hk : k < n) :
    (hRun n st ops).a.lists (SAddr.pending k) =
      (targets ops).foldl (fun l p => l.erase (SAddr.handle p.1 p.2)) (st.a.lists (SAddr.pending k)) := by
  induction ops generalizing st with
  | nil => rfl
  | cons op ops ih =>
    have hqo := hq op (by simp)
    rw [show hRun n st (op :: ops) = hRun n (hStep n st op) ops from rfl, ih _ (fun op' h => hq op' (by simp [h]))]
    cases op with
    | retire o s =>
      have : (hStep n st (.retire o s)).a.lists (SAddr.pending k) = (st.a.lists (SAddr.pending k)).erase (SAddr.handle o s) := by
        by_cases hp : st.ptr o s = true
        · have : (hStep n st (.retire o s)).a =
              (st.a.step (.unlink (SAddr.handle o s))).step (.pushBack (retiredObj n s) (SAddr.handle o s)) := by
            simp only [hStep, hScript, hp, if_true]; rfl
          rw [this, lists_after_pushBack]
          simp only [pending_ne_retired hk, if_false]; rfl
        · have hp' : st.ptr o s = false := by simpa using hp
          have : (hStep n st (.retire o s)).a = st.a.step (.unlink (SAddr.handle o s)) := by
            simp only [hStep, hScript, hp']; rfl
          rw [this]; rfl
      simp only [targets, List.filterMap_cons, tgt, List.foldl_cons]
      rw [this]
    | drop o s =>
      simp only [targets, List.filterMap_cons, tgt, List.foldl_cons]
      rfl
    | newSeq s => exact absurd hqo (by simp [Quiet])
    | reg o s => exact absurd hqo (by simp [Quiet])
    | detach o s => exact absurd hqo (by simp [Quiet])
    | killSeq s => exact absurd hqo (by simp [Quiet])

theorem reg_lists (n : Nat) (st : HState) (o : Owner) (ss : List Nat) (hnd : ss.Nodup) (k : Nat) :
    (hRun n st (regAll o ss)).a.lists (SAddr.pending k) =
      st.a.lists (SAddr.pending k) ++ (if k ∈ ss then [SAddr.handle o k] else []) := by
  induction ss generalizing st with
  | nil => simp [regAll, hRun]
  | cons s ss ih =>
    have hnd' := List.nodup_cons.mp hnd
    show (hRun n (hStep n st (.reg o s)) (regAll o ss)).a.lists _ = _
    rw [ih _ hnd'.2]
    have h1 : (hStep n st (.reg o s)).a.lists (SAddr.pending k) =
        if SAddr.pending k = SAddr.pending s then st.a.lists (SAddr.pending s) ++ [SAddr.handle o s] else st.a.lists (SAddr.pending k) := rfl
    rw [h1]
    by_cases e : k = s
    · subst e
      have : k ∉ ss := hnd'.1
      simp [this]
    · have : SAddr.pending k ≠ SAddr.pending s := by intro e'; cases e'; exact e rfl
      simp only [this, if_false, List.mem_cons, e, false_or]

/-! ### bridges between erasing handles and filtering owners -/

theorem erase_handle_map (l : List Owner) (o : Owner) (s k : Nat) (hnd : l.Nodup) :
    (l.map (fun o' => SAddr.handle o' k)).erase (SAddr.handle o s) =
      (if s = k then l.filter (· ≠ o) else l).map (fun o' => SAddr.handle o' k) := by
  by_cases e : s = k
  · subst e; simp only [if_true]; exact (map_handle_filter l o s hnd).symm
  · simp only [e, if_false]
    apply List.erase_of_not_mem
    intro h
    obtain ⟨o', _, he⟩ := List.mem_map.mp h
    cases he; exact e rfl

/-- erasing the handles of a list of (owner, sequence) targets from the ring of `k` is filtering out the owners whose
    target names `k`. -/
theorem foldl_erase_targets (T : List (Owner × Nat)) (l : List Owner) (k : Nat) (hnd : l.Nodup) :
    T.foldl (fun (l : List SAddr) (p : Owner × Nat) => l.erase (SAddr.handle p.1 p.2)) (l.map (fun o' => SAddr.handle o' k)) =
      (((T.filter (fun p => p.2 == k)).map (·.1)).foldl (fun (l : List Owner) o' => l.filter (· ≠ o')) l).map
        (fun o' => SAddr.handle o' k) := by
  induction T generalizing l with
  | nil => rfl
  | cons p T ih =>
    obtain ⟨o, s⟩ := p
    simp only [List.foldl_cons]
    rw [erase_handle_map l o s k hnd]
    by_cases e : s = k
    · subst e
      simp only [if_true, List.filter_cons, beq_self_eq_true, List.map_cons, List.foldl_cons]
      exact ih _ (hnd.filter _)
    · have : (s == k) = false := by simpa using e
      simp only [e, if_false, List.filter_cons, this, Bool.false_eq_true]
      exact ih _ hnd

/-- a quiet script beside a World step: the pending rings follow if the World's pending lists are filtered the same way. -/
theorem pendAgree_quiet {n : Nat} {w w' : World} {st : HState} (P : PendAgree n w st) (ops : List HOp) (hq : ∀ op ∈ ops, Quiet op)
    (hnd : ∀ s, (w.pendingOf s).Nodup)
    (hw : ∀ k, k < n → w'.pendingOf k =
      (((targets ops).filter (fun p => p.2 == k)).map (·.1)).foldl (fun l o' => l.filter (· ≠ o')) (w.pendingOf k)) :
    PendAgree n w' (hRun n st ops) := by
  intro k hk
  rw [quiet_lists n st ops hq k hk, P k hk, foldl_erase_targets _ _ k (hnd k), hw k hk]

/-! ### the targets of the scripts, restricted to one sequence -/

theorem targets_append (a b : List HOp) : targets (a ++ b) = targets a ++ targets b := by
  simp [targets, List.filterMap_append]

theorem targets_retireAll (o : Owner) (ss : List Nat) : targets (retireAll o ss) = ss.map (fun s => (o, s)) := by
  induction ss with
  | nil => rfl
  | cons s ss ih => simp only [retireAll, List.map_cons, targets, List.filterMap_cons, tgt] at ih ⊢; rw [ih]

theorem targets_dropAll (o : Owner) (ss : List Nat) : targets (dropAll o ss) = ss.map (fun s => (o, s)) := by
  induction ss with
  | nil => rfl
  | cons s ss ih => simp only [dropAll, List.map_cons, targets, List.filterMap_cons, tgt] at ih ⊢; rw [ih]

theorem targets_skipH (w : World) (o : Owner) (ss : List Nat) :
    targets (skipH w o ss) = ss.flatMap (fun s => (skipped o (w.pendingOf s)).map (fun o' => (o', s))) := by
  induction ss with
  | nil => rfl
  | cons s ss ih =>
    simp only [skipH, List.flatMap_cons] at ih ⊢
    rw [targets_append, ih]
    congr 1
    generalize skipped o (w.pendingOf s) = os
    induction os with
    | nil => rfl
    | cons o' os ih2 => simp only [List.map_cons, targets, List.filterMap_cons, tgt] at ih2 ⊢; rw [ih2]

theorem filter_own (o : Owner) (ss : List Nat) (hnd : ss.Nodup) (k : Nat) :
    ((ss.map (fun s => (o, s))).filter (fun p => p.2 == k)).map (·.1) = if k ∈ ss then [o] else [] := by
  induction ss with
  | nil => rfl
  | cons s ss ih =>
    have hnd' := List.nodup_cons.mp hnd
    simp only [List.map_cons, List.filter_cons]
    by_cases e : s = k
    · subst e
      have : s ∉ ss := hnd'.1
      simp only [beq_self_eq_true, if_true, List.map_cons, ih hnd'.2, this, if_false, List.mem_cons, true_or]
    · have h1 : (s == k) = false := by simpa using e
      have h2 : (k = s) = False := by simp; exact fun h => e h.symm
      simp only [h1, Bool.false_eq_true, if_false, ih hnd'.2, List.mem_cons, h2, false_or]

theorem filter_skip (w : World) (o : Owner) (ss : List Nat) (hnd : ss.Nodup) (k : Nat) :
    ((ss.flatMap (fun s => (skipped o (w.pendingOf s)).map (fun o' => (o', s)))).filter (fun p => p.2 == k)).map (·.1) =
      if k ∈ ss then skipped o (w.pendingOf k) else [] := by
  induction ss with
  | nil => rfl
  | cons s ss ih =>
    have hnd' := List.nodup_cons.mp hnd
    simp only [List.flatMap_cons, List.filter_append, List.map_append, ih hnd'.2]
    have hhead : (((skipped o (w.pendingOf s)).map (fun o' => (o', s))).filter (fun p => p.2 == k)).map (·.1) =
        if s = k then skipped o (w.pendingOf s) else [] := by
      by_cases e : s = k
      · subst e
        simp only [if_true]
        generalize skipped o (w.pendingOf s) = os
        induction os with
        | nil => rfl
        | cons o' os ih2 => simp only [List.map_cons, List.filter_cons, beq_self_eq_true, if_true] at ih2 ⊢; rw [ih2]
      · simp only [e, if_false]
        have h1 : (s == k) = false := by simpa using e
        generalize skipped o (w.pendingOf s) = os
        induction os with
        | nil => rfl
        | cons o' os ih2 => simp only [List.map_cons, List.filter_cons, h1, Bool.false_eq_true, if_false] at ih2 ⊢; exact ih2
    rw [hhead]
    by_cases e : s = k
    · subst e
      have : s ∉ ss := hnd'.1
      simp [this]
    · have h2 : ¬ k = s := fun h => e h.symm
      simp [e, h2]

/-! ### the World side -/

theorem pendingOf_retirePredecessors (w : World) (o : Owner) (ss : List Nat) (hnd : ss.Nodup) (k : Nat) :
    (w.retirePredecessors o ss).pendingOf k = if k ∈ ss then retireUntil o (w.pendingOf k) else w.pendingOf k := by
  unfold retirePredecessors
  by_cases h : k ∈ ss
  · simp only [h, if_true]
    exact foldl_setSeqPending_pendingOf_mem w ss _ (by simp [retireUntil]) hnd h
  · simp only [h, if_false]
    exact foldl_setSeqPending_pendingOf_not_mem w ss _ h

theorem pendingOf_retireOwn (w : World) (o : Owner) (ss : List Nat) (hnd : ss.Nodup) (k : Nat) :
    (w.retireOwn o ss).pendingOf k = if k ∈ ss then (w.pendingOf k).filter (· ≠ o) else w.pendingOf k := by
  unfold retireOwn
  by_cases h : k ∈ ss
  · simp only [h, if_true]
    exact foldl_setSeqPending_pendingOf_mem w ss _ (by simp) hnd h
  · simp only [h, if_false]
    exact foldl_setSeqPending_pendingOf_not_mem w ss _ h

/-- skip, then possibly leave: the World's pending lists are filtered by exactly the targets of the script. -/
theorem pending_skip_retire (w : World) (o : Owner) (ss : List Nat) (hnd : ss.Nodup) (hpn : ∀ s, (w.pendingOf s).Nodup)
    (also : Bool) (k : Nat) :
    (if also then (w.retirePredecessors o ss).retireOwn o ss else w.retirePredecessors o ss).pendingOf k =
      (((targets (skipH w o ss ++ (if also then retireAll o ss else []))).filter (fun p => p.2 == k)).map (·.1)).foldl
        (fun l o' => l.filter (· ≠ o')) (w.pendingOf k) := by
  rw [targets_append, targets_skipH, List.filter_append, List.map_append, List.foldl_append, filter_skip w o ss hnd k]
  by_cases h : k ∈ ss
  · simp only [h, if_true]
    rw [foldl_skipped o _ (hpn k)]
    cases also with
    | false =>
      simp only [Bool.false_eq_true, if_false]
      rw [pendingOf_retirePredecessors w o ss hnd k]; simp [h, targets]
    | true =>
      simp only [if_true]
      rw [targets_retireAll, filter_own o ss hnd k, pendingOf_retireOwn _ o ss hnd k, pendingOf_retirePredecessors w o ss hnd k]
      simp [h]
  · simp only [h, if_false, List.foldl_nil]
    cases also with
    | false =>
      simp only [Bool.false_eq_true, if_false]
      rw [pendingOf_retirePredecessors w o ss hnd k]; simp [h, targets]
    | true =>
      simp only [if_true]
      rw [targets_retireAll, filter_own o ss hnd k, pendingOf_retireOwn _ o ss hnd k, pendingOf_retirePredecessors w o ss hnd k]
      simp [h]

/-! ### `~sequence_type` on the pending rings -/

theorem killSeq_lists {n : Nat} {st : HState} (I : HInv n st) (s : Nat) (hs : s < n) (k : Nat) (hk : k < n) :
    (hStep n st (.killSeq s)).a.lists (SAddr.pending k) = if k = s then [] else st.a.lists (SAddr.pending k) := by
  have hL : ∀ x ∈ onRings n st.a s, ∃ o, x = SAddr.handle o s := by
    intro x hx
    rcases List.mem_append.mp hx with h | h
    · exact I.pend s hs x h
    · exact I.ret s hs x h
  have ha : (hStep n st (.killSeq s)).a =
      { st.a with lists := fun hd => (onRings n st.a s).foldl (fun l x => l.erase x) (st.a.lists hd) } :=
    run_unlinks_gen st.a st.hp _
  rw [ha]
  show (onRings n st.a s).foldl (fun l x => l.erase x) (st.a.lists (SAddr.pending k)) = _
  by_cases e : k = s
  · subst e
    simp only [if_true]
    exact foldl_erase_all_gen _ _ (lists_nodup I (pending_head I (by omega))) (fun y hy => List.mem_append.mpr (Or.inl hy))
  · simp only [e, if_false]
    refine foldl_erase_disjoint_gen _ _ (fun x hx hin => ?_)
    obtain ⟨o, rfl⟩ := hL x hx
    obtain ⟨o', he⟩ := I.pend k hk _ hin
    cases he; exact e rfl

/-! ### one World step -/

theorem pendAgree_same {n : Nat} {w w' : World} {st : HState} (P : PendAgree n w st) (h : SamePend w' w) : PendAgree n w' st :=
  fun s hs => by rw [h s]; exact P s hs

theorem pendingOf_register (w : World) (o : Owner) (ss : List Nat) (hnd : ss.Nodup) (hal : ∀ s ∈ ss, w.seqAlive s = true) (k : Nat) :
    (w.register o ss).pendingOf k = w.pendingOf k ++ (if k ∈ ss then [o] else []) := by
  unfold register
  by_cases h : k ∈ ss
  · simp only [h, if_true]
    exact foldl_setSeqPending_pendingOf_mem' w ss _ hnd h (hal k h)
  · simp only [h, if_false, List.append_nil]
    exact foldl_setSeqPending_pendingOf_not_mem w ss _ h

theorem pendAgree_reg {n : Nat} {w w' : World} {st : HState} (P : PendAgree n w st) (o : Owner) (ss : List Nat) (hnd : ss.Nodup)
    (hw : ∀ k, w'.pendingOf k = w.pendingOf k ++ (if k ∈ ss then [o] else [])) : PendAgree n w' (hRun n st (regAll o ss)) := by
  intro k hk
  rw [reg_lists n st o ss hnd k, P k hk, hw k]
  by_cases h : k ∈ ss <;> simp [h]

/-- the death of a watched object: one `notify` per monitor, pending rings and pending lists in step. -/
theorem pendAgree_killw {n : Nat} {w : World} {st : HState} (P : PendAgree n w st) (I : NotifyInv w) (ms : List Nat) (evs : List Ev) :
    PendAgree n (ms.foldl (fun (acc : World × List Ev) m => ((acc.1.notify m).1, acc.2 ++ (acc.1.notify m).2)) (w, evs)).1
      (hRun n st (killwH w ms)) := by
  induction ms generalizing w st evs with
  | nil => exact P
  | cons m ms ih =>
    simp only [killwH, List.foldl_cons]
    rw [hRun_append]
    have hI' : NotifyInv (w.notify m).1 := by
      have R0 := seq_heap_init 0
      -- `notify_heap` carries the invariant; its heap argument is irrelevant here
      cases hx : w.mons m with
      | none => unfold notify; rw [hx]; exact I
      | some x =>
        unfold notify; rw [hx]
        simp only
        set w1 : World := { w with mons := upd w.mons m { x with died := true } } with hw1
        have hp1 : SamePend w1 w := samePend_of_seqs rfl
        have hnd1 : ∀ s, (w1.pendingOf s).Nodup := fun s => by rw [hp1 s]; exact I.1 s
        refine ⟨retireOwn_nodup _ _ _ (retirePredecessors_nodup _ _ _ hnd1), ?_⟩
        intro m' x' hx'
        have hm : ((w1.retirePredecessors (.mon m) x.seqs).retireOwn (.mon m) x.seqs).mons = w1.mons := by
          unfold retireOwn retirePredecessors
          rw [foldl_setSeqPending_mons, foldl_setSeqPending_mons]
        rw [hm] at hx'
        by_cases e : m' = m
        · subst e
          have : w1.mons m' = some { x with died := true } := by simp [hw1, upd]
          rw [this] at hx'; cases hx'; exact I.2 m' x hx
        · have : w1.mons m' = w.mons m' := by simp [hw1, upd, e]
          rw [this] at hx'; exact I.2 m' x' hx'
    refine ih ?_ hI' _
    -- one notify
    unfold notifyH notify
    cases hx : w.mons m with
    | none => exact P
    | some x =>
      simp only
      set w1 : World := { w with mons := upd w.mons m { x with died := true } } with hw1
      have hp1 : SamePend w1 w := samePend_of_seqs rfl
      have hss : x.seqs.Nodup := I.2 m x hx
      have hnd1 : ∀ s, (w1.pendingOf s).Nodup := fun s => by rw [hp1 s]; exact I.1 s
      have P1 : PendAgree n w1 st := pendAgree_same P hp1
      have hsk : skipH w (.mon m) x.seqs = skipH w1 (.mon m) x.seqs := by
        unfold skipH
        congr 1
      rw [hsk]
      refine pendAgree_quiet P1 _ ?_ hnd1 (fun k hk => ?_)
      · intro op h
        rcases List.mem_append.mp h with h | h
        · exact quiet_skipH _ _ _ op h
        · exact quiet_retireAll _ _ op h
      · have := pending_skip_retire w1 (.mon m) x.seqs hss hnd1 true k
        simpa using this

theorem bookkeep_pendingOf (w : World) (o f e : Nat) (x : Exp) (m : Mock) (k : Nat) :
    (w.bookkeep o f e x m).pendingOf k =
      (if decide (x.count + 1 = x.hi) then (w.retirePredecessors (.exp e) x.seqs).retireOwn (.exp e) x.seqs
       else w.retirePredecessors (.exp e) x.seqs).pendingOf k := by
  unfold bookkeep pendingOf
  by_cases hc : x.count + 1 = x.hi <;> simp [hc, setMock, setExp]

/-- **one World operation keeps the machine's pending rings equal to the World's pending lists.** -/
theorem machine_step_pending {n : Nat} {w : World} {st : HState} (r : C14.Reachable w) (I : HInv n st) (P : PendAgree n w st)
    (op : Tromp.Op) :
    PendAgree n (w.step op).1 (hRun n st (machineScript n w st op)) := by
  have hs := C14.reachable_WFSeq r
  by_cases hl : w.legal op = true
  swap
  · have h1 : (w.step op).1 = w := by unfold step; simp [hl]
    have h2 : machineScript n w st op = [] := by unfold machineScript; simp [hl]
    rw [h1, h2]; exact P
  have hnl : (!w.legal op) = false := by simp [hl]
  cases op with
  | mock o mv =>
    have h1 : SamePend (w.step (.mock o mv)).1 w := by unfold step; simp only [hnl]; exact samePend_of_seqs rfl
    have h2 : machineScript n w st (.mock o mv) = [] := by unfold machineScript; simp only [hnl]; rfl
    rw [h2]; exact pendAgree_same P h1
  | seq s =>
    have h1 : (w.step (.seq s)).1 = { w with seqs := upd w.seqs s {}, nextS := s + 1 } := by unfold step; simp only [hnl]; rfl
    have hp : ∀ k, (w.step (.seq s)).1.pendingOf k = if k = s then [] else w.pendingOf k := by
      intro k; rw [h1]; by_cases e : k = s <;> simp [pendingOf, upd, e]
    by_cases c : s < n
    · by_cases al : st.alive s = true
      · have h2 : machineScript n w st (.seq s) = [HOp.killSeq s, HOp.newSeq s] := by
          unfold machineScript; simp only [hnl, c, al]; simp
        rw [h2]
        intro k hk
        show (hStep n (hStep n st (.killSeq s)) (.newSeq s)).a.lists (SAddr.pending k) = _
        have : (hStep n (hStep n st (.killSeq s)) (.newSeq s)).a = (hStep n st (.killSeq s)).a := rfl
        rw [this, killSeq_lists I s c k hk, hp k]
        by_cases e : k = s
        · simp [e]
        · simp only [e, if_false]; exact P k hk
      · have al' : st.alive s = false := by simpa using al
        have h2 : machineScript n w st (.seq s) = [HOp.newSeq s] := by
          unfold machineScript; simp only [hnl, c, al']; simp
        rw [h2]
        intro k hk
        show st.a.lists (SAddr.pending k) = _
        rw [hp k]
        by_cases e : k = s
        · subst e
          have := I.dead k hk al'
          unfold onRings at this
          simp [(List.append_eq_nil_iff.mp this).1]
        · simp only [e, if_false]; exact P k hk
    · have h2 : machineScript n w st (.seq s) = [] := by unfold machineScript; simp only [hnl, c]; simp
      rw [h2]
      intro k hk
      show st.a.lists (SAddr.pending k) = _
      rw [hp k]
      have : k ≠ s := by omega
      simp only [this, if_false]; exact P k hk
  | expect e x =>
    have hl' := hl
    simp only [legal, Bool.and_eq_true, beq_iff_eq, decide_eq_true_eq, List.all_eq_true] at hl'
    obtain ⟨⟨⟨⟨⟨⟨he, hmock⟩, _⟩, hall⟩, hnd⟩, _⟩, _⟩ := hl'
    have hnd' : x.seqs.Nodup := by simpa using hnd
    by_cases hthrow : (x.rt && decide (x.hi < x.lo)) = true
    · have h1 : SamePend (w.step (.expect e x)).1 w := by
        unfold step; simp only [hnl, hthrow]; exact samePend_of_seqs rfl
      have h2 : machineScript n w st (.expect e x) = [] := by unfold machineScript; simp only [hnl, hthrow]; rfl
      rw [h2]; exact pendAgree_same P h1
    · have hthrow' : (x.rt && decide (x.hi < x.lo)) = false := by simpa using hthrow
      obtain ⟨m, hm⟩ : ∃ m, w.mocks x.obj = some m := by
        unfold mockAlive at hmock
        cases hx : w.mocks x.obj with
        | none => rw [hx] at hmock; cases hmock
        | some m => exact ⟨m, rfl⟩
      have h2 : machineScript n w st (.expect e x) = regAll (.exp e) x.seqs := by
        unfold machineScript; simp only [hnl, hthrow', hm]; rfl
      rw [h2]
      refine pendAgree_reg P (.exp e) x.seqs hnd' (fun k => ?_)
      have hw' : (w.step (.expect e x)).1.seqs = (({ w with nextE := e + 1 } : World).register (.exp e) x.seqs).seqs := by
        unfold step; simp only [hnl, hthrow', Bool.false_eq_true, if_false, hm]; rfl
      have : (w.step (.expect e x)).1.pendingOf k = (({ w with nextE := e + 1 } : World).register (.exp e) x.seqs).pendingOf k := by
        unfold pendingOf; rw [hw']
      rw [this, pendingOf_register ({ w with nextE := e + 1 } : World) _ _ hnd'
        (fun s h => (hall s h : ({ w with nextE := e + 1 } : World).seqAlive s = true)) k]
      rfl
  | call o f a =>
    have h1 : (w.step (.call o f a)).1 = (w.callFn o f a).1 := by unfold step; simp only [hnl]; rfl
    have h2 : machineScript n w st (.call o f a) = callH w o f a := by unfold machineScript; simp only [hnl]; rfl
    rw [h1, h2]
    unfold callH callFn
    cases hm : w.mocks o with
    | none => exact P
    | some m =>
      simp only
      cases hfind : (find (w.expMatches a) w.expOrder (m.active f)).1 with
      | none =>
        have : (find (w.expMatches a) w.expOrder (m.active f)) = (none, (find (w.expMatches a) w.expOrder (m.active f)).2) := by
          rw [← hfind]
        rw [this]
        simp only
        exact pendAgree_same P (samePend_of_seqs (reportMismatch_seqs w m f a))
      | some e =>
        have : (find (w.expMatches a) w.expOrder (m.active f)) = (some e, (find (w.expMatches a) w.expOrder (m.active f)).2) := by
          rw [← hfind]
        rw [this]
        simp only
        cases hx : w.exps e with
        | none => exact P
        | some x =>
          simp only
          unfold runActions
          by_cases h0 : x.hi = 0
          · simp only [h0, if_true]
            exact pendAgree_same P (samePend_of_seqs rfl)
          · simp only [h0, if_false]
            cases hord : w.order (.exp e) x.seqs with
            | none => exact P
            | some c =>
              simp only
              have hss : x.seqs.Nodup := by
                have := hs.ownNodup (.exp e)
                simpa [ownerSeqs, hx] using this
              refine pendAgree_quiet P _ ?_ hs.nodup (fun k hk => ?_)
              · intro op h
                rcases List.mem_append.mp h with h | h
                · exact quiet_skipH _ _ _ op h
                · split at h
                  · exact quiet_retireAll _ _ op h
                  · cases h
              · rw [bookkeep_pendingOf]
                have := pending_skip_retire w (.exp e) x.seqs hss hs.nodup (decide (x.count + 1 = x.hi)) k
                by_cases hc : x.count + 1 = x.hi <;> simpa [hc] using this
  | sat e =>
    have h1 : (w.step (.sat e)).1 = w := by unfold step; simp only [hnl]; rfl
    have h2 : machineScript n w st (.sat e) = [] := by unfold machineScript; simp only [hnl]; rfl
    rw [h1, h2]; exact P
  | satd e =>
    have h1 : (w.step (.satd e)).1 = w := by unfold step; simp only [hnl]; rfl
    have h2 : machineScript n w st (.satd e) = [] := by unfold machineScript; simp only [hnl]; rfl
    rw [h1, h2]; exact P
  | release e =>
    cases hx : w.exps e with
    | none =>
      have h1 : (w.step (.release e)).1 = w := by unfold step; simp only [hnl, hx]; rfl
      have h2 : machineScript n w st (.release e) = [] := by unfold machineScript; simp only [hnl, hx]; rfl
      rw [h1, h2]; exact P
    | some x =>
      have h1 : (w.step (.release e)).1 = (w.releaseExp e x).1 := by unfold step; simp only [hnl, hx]; rfl
      have h2 : machineScript n w st (.release e) = dropAll (.exp e) x.seqs := by unfold machineScript; simp only [hnl, hx]; rfl
      rw [h1, h2]
      have hss : x.seqs.Nodup := by
        have := hs.ownNodup (.exp e)
        simpa [ownerSeqs, hx] using this
      refine pendAgree_quiet P _ (quiet_dropAll _ _) hs.nodup (fun k hk => ?_)
      rw [targets_dropAll, filter_own _ _ hss k]
      have hseqs : (w.releaseExp e x).1.seqs = ((w.unlinkExp e x).retireOwn (.exp e) x.seqs).seqs := by
        unfold releaseExp; simp only [setExp]
      have hu : (w.unlinkExp e x).seqs = w.seqs := by
        unfold unlinkExp
        split
        · split <;> rfl
        · rfl
      have : (w.releaseExp e x).1.pendingOf k = ((w.unlinkExp e x).retireOwn (.exp e) x.seqs).pendingOf k := by
        unfold pendingOf; rw [hseqs]
      rw [this, pendingOf_retireOwn _ _ _ hss k]
      have hpk : (w.unlinkExp e x).pendingOf k = w.pendingOf k := by unfold pendingOf; rw [hu]
      rw [hpk]
      by_cases h : k ∈ x.seqs <;> simp [h]
  | move o o' =>
    have h1 : SamePend (w.step (.move o o')).1 w := by
      unfold step; simp only [hnl]
      cases w.mocks o with
      | none => exact SamePend.rfl' w
      | some m => exact samePend_of_seqs rfl
    have h2 : machineScript n w st (.move o o') = [] := by unfold machineScript; simp only [hnl]; rfl
    rw [h2]; exact pendAgree_same P h1
  | kill o =>
    have h1 : SamePend (w.step (.kill o)).1 w := by
      unfold step; simp only [hnl]
      cases hm : w.mocks o with
      | none => exact SamePend.rfl' w
      | some m => exact samePend_of_seqs (killMock_seqs w o m)
    have h2 : machineScript n w st (.kill o) = [] := by unfold machineScript; simp only [hnl]; rfl
    rw [h2]; exact pendAgree_same P h1
  | killseq s =>
    cases hq : w.seqs s with
    | none =>
      exfalso
      simp only [legal, seqAlive, hq] at hl; cases hl
    | some q =>
      have h1 : (w.step (.killseq s)).1 = { w with seqs := upd w.seqs s { alive := false, pending := [] } } := by
        unfold step; simp only [hnl, hq]; rfl
      have hp : ∀ k, (w.step (.killseq s)).1.pendingOf k = if k = s then [] else w.pendingOf k := by
        intro k; rw [h1]; by_cases e : k = s <;> simp [pendingOf, upd, e]
      by_cases c : s < n
      · have h2 : machineScript n w st (.killseq s) = [HOp.killSeq s] := by unfold machineScript; simp only [hnl, c]; simp
        rw [h2]
        intro k hk
        show (hStep n st (.killSeq s)).a.lists (SAddr.pending k) = _
        rw [killSeq_lists I s c k hk, hp k]
        by_cases e : k = s
        · simp [e]
        · simp only [e, if_false]; exact P k hk
      · have h2 : machineScript n w st (.killseq s) = [] := by unfold machineScript; simp only [hnl, c]; simp
        rw [h2]
        intro k hk
        show st.a.lists (SAddr.pending k) = _
        rw [hp k]
        have : k ≠ s := by omega
        simp only [this, if_false]; exact P k hk
  | completed s =>
    have h1 : (w.step (.completed s)).1 = w := by unfold step; simp only [hnl]; rfl
    have h2 : machineScript n w st (.completed s) = [] := by unfold machineScript; simp only [hnl]; rfl
    rw [h1, h2]; exact P
  | watched x =>
    have h1 : SamePend (w.step (.watched x)).1 w := by unfold step; simp only [hnl]; exact samePend_of_seqs rfl
    have h2 : machineScript n w st (.watched x) = [] := by unfold machineScript; simp only [hnl]; rfl
    rw [h2]; exact pendAgree_same P h1
  | copyw x y =>
    have h1 : SamePend (w.step (.copyw x y)).1 w := by unfold step; simp only [hnl]; exact samePend_of_seqs rfl
    have h2 : machineScript n w st (.copyw x y) = [] := by unfold machineScript; simp only [hnl]; rfl
    rw [h2]; exact pendAgree_same P h1
  | movew x y =>
    have h1 : SamePend (w.step (.movew x y)).1 w := by unfold step; simp only [hnl]; exact samePend_of_seqs rfl
    have h2 : machineScript n w st (.movew x y) = [] := by unfold machineScript; simp only [hnl]; rfl
    rw [h2]; exact pendAgree_same P h1
  | assignw d s =>
    have h1 : (w.step (.assignw d s)).1 = w := by unfold step; simp only [hnl]; rfl
    have h2 : machineScript n w st (.assignw d s) = [] := by unfold machineScript; simp only [hnl]; rfl
    rw [h1, h2]; exact P
  | killw x =>
    cases hy : w.watched x with
    | none =>
      have h1 : (w.step (.killw x)).1 = w := by unfold step; simp only [hnl, hy]; rfl
      have h2 : machineScript n w st (.killw x) = [] := by unfold machineScript; simp only [hnl, hy]; rfl
      rw [h1, h2]; exact P
    | some y =>
      set w0 : World := { w with watched := upd w.watched x { alive := false, monitors := [] } } with hw0
      have h2 : machineScript n w st (.killw x) = killwH w0 y.monitors := by unfold machineScript; simp only [hnl, hy]; rfl
      rw [h2]
      have hp0 : SamePend w0 w := samePend_of_seqs rfl
      have P0 : PendAgree n w0 st := pendAgree_same P hp0
      have I0 : NotifyInv w0 := by
        obtain ⟨a, b⟩ := notifyInv_of_WFSeq hs
        exact ⟨fun s => by rw [hp0 s]; exact a s, fun m xx hxx => b m xx hxx⟩
      by_cases hmon : y.monitors.isEmpty = true
      · have h1 : (w.step (.killw x)).1 = w0 := by unfold step; simp only [hnl, hy, hmon, if_true]; rfl
        have hnil : y.monitors = [] := by simpa using hmon
        rw [h1, hnil]; exact P0
      · have h1 : (w.step (.killw x)).1 =
            (y.monitors.foldl (fun (acc : World × List Ev) m => ((acc.1.notify m).1, acc.2 ++ (acc.1.notify m).2)) (w0, [])).1 := by
          unfold step; simp only [hnl, hy, hmon, Bool.false_eq_true, if_false]; rfl
        rw [h1]
        exact pendAgree_killw P0 I0 y.monitors []
  | monitor m x ss =>
    have hl' := hl
    simp only [legal, Bool.and_eq_true, beq_iff_eq, List.all_eq_true] at hl'
    obtain ⟨⟨⟨hm, _⟩, hall⟩, hnd⟩ := hl'
    have hnd' : ss.Nodup := by simpa using hnd
    cases hy : w.watched x with
    | none =>
      have h1 : (w.step (.monitor m x ss)).1 = w := by unfold step; simp only [hnl, hy]; rfl
      have h2 : machineScript n w st (.monitor m x ss) = [] := by unfold machineScript; simp only [hnl, hy]; rfl
      rw [h1, h2]; exact P
    | some y =>
      have h2 : machineScript n w st (.monitor m x ss) = regAll (.mon m) ss := by unfold machineScript; simp only [hnl, hy]; rfl
      rw [h2]
      set wm : World := { w with nextM := m + 1, mons := upd w.mons m { target := x, seqs := ss },
                                 watched := upd w.watched x { y with monitors := m :: y.monitors } } with hwm
      have hw' : (w.step (.monitor m x ss)).1 = wm.register (.mon m) ss := by unfold step; simp only [hnl, hy]; rfl
      refine pendAgree_reg P (.mon m) ss hnd' (fun k => ?_)
      rw [hw', pendingOf_register wm _ _ hnd' (fun s h => (hall s h : wm.seqAlive s = true)) k]
      rfl
  | msat m =>
    have h1 : (w.step (.msat m)).1 = w := by unfold step; simp only [hnl]; rfl
    have h2 : machineScript n w st (.msat m) = [] := by unfold machineScript; simp only [hnl]; rfl
    rw [h1, h2]; exact P
  | msatd m =>
    have h1 : (w.step (.msatd m)).1 = w := by unfold step; simp only [hnl]; rfl
    have h2 : machineScript n w st (.msatd m) = [] := by unfold machineScript; simp only [hnl]; rfl
    rw [h1, h2]; exact P
  | releasemon m =>
    cases hx : w.mons m with
    | none =>
      have h1 : (w.step (.releasemon m)).1 = w := by unfold step; simp only [hnl, hx]; rfl
      have h2 : machineScript n w st (.releasemon m) = [] := by unfold machineScript; simp only [hnl, hx]; rfl
      rw [h1, h2]; exact P
    | some x =>
      have h2 : machineScript n w st (.releasemon m) = dropAll (.mon m) x.seqs := by unfold machineScript; simp only [hnl, hx]; rfl
      rw [h2]
      have hss : x.seqs.Nodup := by
        have := hs.ownNodup (.mon m)
        simpa [ownerSeqs, hx] using this
      refine pendAgree_quiet P _ (quiet_dropAll _ _) hs.nodup (fun k hk => ?_)
      rw [targets_dropAll, filter_own _ _ hss k]
      set w1 : World := (if x.died = true then w else
          match w.watched x.target with
          | some y => { w with watched := upd w.watched x.target { y with monitors := y.monitors.filter (· ≠ m) } }
          | none => w) with hw1
      have hp1 : ∀ s, w1.pendingOf s = w.pendingOf s := by
        intro s
        rw [hw1]; split
        · rfl
        · cases w.watched x.target <;> rfl
      have hseqs : (w.step (.releasemon m)).1.seqs = (w1.retireOwn (.mon m) x.seqs).seqs := by
        unfold step; simp only [hnl, hx]; rfl
      have : (w.step (.releasemon m)).1.pendingOf k = (w1.retireOwn (.mon m) x.seqs).pendingOf k := by
        unfold pendingOf; rw [hseqs]
      rw [this, pendingOf_retireOwn _ _ _ hss k, hp1 k]
      by_cases h : k ∈ x.seqs <;> simp [h]
  | tracer t =>
    have h1 : SamePend (w.step (.tracer t)).1 w := by unfold step; simp only [hnl]; exact samePend_of_seqs rfl
    have h2 : machineScript n w st (.tracer t) = [] := by unfold machineScript; simp only [hnl]; rfl
    rw [h2]; exact pendAgree_same P h1
  | killtracer t =>
    have h1 : SamePend (w.step (.killtracer t)).1 w := by unfold step; simp only [hnl]; exact samePend_of_seqs rfl
    have h2 : machineScript n w st (.killtracer t) = [] := by unfold machineScript; simp only [hnl]; rfl
    rw [h2]; exact pendAgree_same P h1
  | setreporter rr ok =>
    have h1 : SamePend (w.step (.setreporter rr ok)).1 w := by unfold step; simp only [hnl]; exact samePend_of_seqs rfl
    have h2 : machineScript n w st (.setreporter rr ok) = [] := by unfold machineScript; simp only [hnl]; rfl
    rw [h2]; exact pendAgree_same P h1

/-! ### whole histories -/

theorem machineRun_pending {n : Nat} {w : World} {st : HState} (r : C14.Reachable w) (I : HInv n st) (L : MLink n w st)
    (P : PendAgree n w st) (ops : List Tromp.Op) (hb : ∀ op ∈ ops, ∀ s ∈ registers op, s < n) :
    PendAgree n (machineRun n (w, st) ops).1 (machineRun n (w, st) ops).2 := by
  induction ops generalizing w st with
  | nil => exact P
  | cons op ops ih =>
    obtain ⟨lg, L'⟩ := machine_step L op (hb op (by simp))
    exact ih (reachable_step r op) (hrun_inv I _ lg) L' (machine_step_pending r I P op) (fun op' h => hb op' (by simp [h]))

/-- **the machine's pending rings are the World's pending lists, at every point of every history.** -/
theorem machine_pending_is_world (n : Nat) (ops : List Tromp.Op) (hb : ∀ op ∈ ops, ∀ s ∈ registers op, s < n) (s : Nat) (hs : s < n) :
    (machineRun n ({}, hInit n) ops).2.a.lists (SAddr.pending s) =
      ((World.run {} ops).1.pendingOf s).map (fun o => SAddr.handle o s) := by
  have := machineRun_pending (n := n) (w := {}) ⟨[], rfl⟩ (hInit_inv n) (mlink_init n) (pendAgree_init n) ops hb
  rw [machineRun_world] at this
  exact this s hs

end Tromp.C14Ring
