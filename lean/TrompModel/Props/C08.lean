/-
  Props/C08.lean — actions: side effects once, in order, then RETURN/THROW once; the handler's only.
-/
import TrompModel.Props.C07
import TrompModel.Lemmas.Nested

namespace Tromp.C08
open Tromp World

/-- **C08, WITH clauses** of one expectation are evaluated in declaration order and stop at the
    first that fails: the log of `matches()` is `with 0 … with (k−1)`, where `k` is the number of
    clauses if all hold and (index of the first failing clause) + 1 otherwise; nothing is evaluated
    when a parameter matcher already rejects the call. -/
theorem with_short_circuit (w : World) (a : Args) (e : Nat) (x : Exp) (hx : w.exps e = some x) :
    (paramsOk x.params a = false → w.matchLog a e = []) ∧
    (paramsOk x.params a = true → condsOk x.conds a = true →
        w.matchLog a e = (List.range x.conds.length).map (Ev.evalWith e)) ∧
    (paramsOk x.params a = true → condsOk x.conds a = false →
        ∃ i, firstFailing x.conds a = some i ∧ i < x.conds.length ∧
          w.matchLog a e = (List.range (i + 1)).map (Ev.evalWith e)) := by
  refine ⟨?_, ?_, ?_⟩
  · intro hp; simp [matchLog, hx, hp]
  · intro hp hc; simp [matchLog, hx, hp, condsEvaluated_of_ok _ _ hc]
  · intro hp hc
    obtain ⟨i, h1, h2, h3, _, _⟩ := condsEvaluated_of_not_ok _ _ hc
    exact ⟨i, h1, h3, by simp [matchLog, hx, hp, h2]⟩

/-- the value of `matches()` is the conjunction of the parameter matchers and all WITH clauses. -/
theorem matches_iff (w : World) (a : Args) (e : Nat) (x : Exp) (hx : w.exps e = some x) :
    w.expMatches a e = true ↔ paramsOk x.params a = true ∧ ∀ c ∈ x.conds, c a = true := by
  simp [expMatches, hx, condsOk]

/-- **C08, actions of the handler.**  Shape of SIDE_EFFECT / RETURN evaluation: either no side effect
    throws, every one runs exactly once in declaration order and then the RETURN/THROW expression
    is evaluated exactly once (if there is one) and its value is the caller's result; or side effect
    `k` is the first to throw, exactly `fx 0 … fx k` ran, no RETURN expression is evaluated, and the
    caller receives that exception. -/
theorem actions_shape (e : Nat) (x : Exp) (a : Args) :
    ((∀ j < x.effects.length, (x.effects[j]?).bind (· a) = none) ∧
      ((∃ r, x.ret = some r ∧
          actionEvents e x a = ((List.range x.effects.length).map (Ev.evalFx e) ++ [Ev.evalRet e], r a)) ∨
       (x.ret = none ∧ actionEvents e x a = ((List.range x.effects.length).map (Ev.evalFx e), .void)))) ∨
    (∃ k exc, k < x.effects.length ∧ (x.effects[k]?).bind (· a) = some exc ∧
      (∀ j < k, (x.effects[j]?).bind (· a) = none) ∧
      actionEvents e x a = ((List.range (k + 1)).map (Ev.evalFx e), .threw exc)) := by
  rcases runEffects_spec e a x.effects 0 with ⟨k, exc, hk, h2, h3, h4, h5⟩ | ⟨h2, h3, h5⟩
  · right
    refine ⟨k, exc, hk, h3, h4, ?_⟩
    unfold actionEvents
    cases h : runEffects e a x.effects 0 with
    | mk evs thr =>
      rw [h] at h2 h5
      simp only at h2 h5
      subst h2
      simp [h5]
  · left
    refine ⟨h3, ?_⟩
    unfold actionEvents
    cases h : runEffects e a x.effects 0 with
    | mk evs thr =>
      rw [h] at h2 h5
      simp only at h2 h5
      subst h2
      cases hr : x.ret with
      | some r => left; exact ⟨r, rfl, by simp [h5]⟩
      | none => right; exact ⟨rfl, by simp [h5]⟩

/-- **C08, the whole evaluation log of an accepted call**: the WITH evaluations of the
    expectations examined by `find` (each in the shape of `with_short_circuit`), the OK report, the
    handler's actions (`actions_shape`), the trace record, the result. -/
theorem eval_log_shape (w : World) (o f : Nat) (a : Args) (m : Mock) (hm : w.mocks o = some m)
    (hex : ∀ e ∈ m.active f, ∃ x, w.exps e = some x) (hacc : C01.Accepted (w.callFn o f a).2) :
    ∃ e x, (find (w.expMatches a) w.expOrder (m.active f)).1 = some e ∧ w.exps e = some x ∧
      (w.callFn o f a).2 =
        (examined (w.expMatches a) w.expOrder (m.active f)).flatMap (w.matchLog a) ++
          ([Ev.ok w.okReporter e] ++ (actionEvents e x a).1 ++ w.traceEv e a (actionEvents e x a).2 ++
            [.result (actionEvents e x a).2]) := by
  cases callFn_cases w o f a m hm hex with
  | noMatch hfind heq =>
    exfalso
    obtain ⟨pre, r, hev, _, _⟩ := reportMismatch_events w m f a
    have := hacc (w.rep .fatal r) (by rw [heq]; simp [hev])
    simp [rep, Ev.isReport] at this
  | forbidden e x hfind hx hhi heq =>
    exfalso
    have := hacc (w.rep .fatal (.forbidden e a)) (by rw [heq]; simp)
    simp [rep, Ev.isReport] at this
  | blocked e x r hfind hx hhi hord hrk0 heq =>
    exfalso
    have := hacc (w.rep .fatal r) (by rw [heq]; simp)
    simp [rep, Ev.isReport] at this
  | accepted e x n hfind hx hhi hord heq =>
    exact ⟨e, x, hfind, hx, by rw [heq]; rfl⟩

/-- the expectations whose WITH clauses are evaluated lie at or before the handler in the
    newest-first list (`find` stops at a match of cost 0, otherwise it examines them all). -/
theorem examined_is_prefix (w : World) (a : Args) (l : List Nat) :
    examined (w.expMatches a) w.expOrder l <+: l := examined_prefix _ _ _

/-- **C08, a call that throws still counts as handled**: whatever the outcome of the handler's
    actions, an accepted call advances the handler's count (the count is taken before the actions). -/
theorem throwing_call_counts (w : World) (o f : Nat) (a : Args) (m : Mock) (hm : w.mocks o = some m)
    (hex : ∀ e ∈ m.active f, ∃ x, w.exps e = some x) (hacc : C01.Accepted (w.callFn o f a).2) :
    ∃ e x, (find (w.expMatches a) w.expOrder (m.active f)).1 = some e ∧ w.exps e = some x ∧
      ((w.callFn o f a).1.exps e).map (·.count) = some (x.count + 1) := by
  obtain ⟨e, x, h1, h2, _, h4, _⟩ := C02.C02_frame w o f a m hm hex hacc
  exact ⟨e, x, h1, h2, h4⟩

/-! ### non-vacuity: two WITHs (second fails), three effects (second throws), stacked expectations -/
private def ex : World :=
  (({} : World).run [.mock 0 true,
    .expect 0 { obj := 0, fn := 1, params := [fun _ => true], conds := [], effects := [], ret := some (fun _ => .val 100),
                lo := 0, hi := 9, rt := true, seqs := [] },
    .expect 1 { obj := 0, fn := 1, params := [fun x => decide (x < 3)], conds := [fun _ => true, fun a => a.getD 0 0 == 1],
                effects := [fun _ => none, fun a => if a.getD 0 0 == 1 then some .std else none, fun _ => none],
                ret := some (fun a => .val (a.getD 0 0)), lo := 0, hi := 9, rt := true, seqs := [] }]).1

example : (ex.run [.call 0 1 [2], .call 0 1 [1], .call 0 1 [5], .sat 1]).2 =
    [[.evalWith 1 0, .evalWith 1 1, .ok 0 0, .evalRet 0, .result (.val 100)],
     [.evalWith 1 0, .evalWith 1 1, .ok 0 1, .evalFx 1 0, .evalFx 1 1, .result (.threw .std)],
     [.ok 0 0, .evalRet 0, .result (.val 100)],
     [.answer true]] := by decide

/-! ### re-entrant side effects (a SIDE_EFFECT that calls a mock function) -/

/-- without re-entrant side effects the re-entrant semantics is the plain one: everything above applies. -/
theorem no_reentrancy_is_plain_call (fuel : Nat) (w : World) (o f : Nat) (a : Args) :
    callN noNest fuel w o f a = w.step (.call o f a) := callN_noNest fuel w o f a

/-- **C08, nesting.**  Side effect `i` of the handling expectation that calls `o'.f'(a')`: its own evaluation event
    comes first, the events of the nested call (its clause evaluations, reports, OK report, trace record) follow
    immediately, and only then — unless the nested call or the side effect itself threw, which ends the action list —
    the remaining side effects run, on the world the nested call left. -/
theorem reentrant_effect_events (nest : NestMap) (fuel e : Nat) (a : Args) (fx : Args → Option Exc)
    (rest : List (Args → Option Exc)) (i : Nat) (w : World) (o' f' : Nat) (a' : Args) (hn : nest e i = some (o', f', a')) :
    runEffectsN nest (fuel + 1) e a (fx :: rest) i w =
      (let r := callN nest fuel w o' f' a'
       match resultOf r.2 with
       | some (.threw x) => (r.1, Ev.evalFx e i :: dropResult r.2, some x)
       | _ =>
         match fx a with
         | some x => (r.1, Ev.evalFx e i :: dropResult r.2, some x)
         | none =>
           let s := runEffectsN nest (fuel + 1) e a rest (i + 1) r.1
           (s.1, Ev.evalFx e i :: dropResult r.2 ++ s.2.1, s.2.2)) := by
  rw [runEffectsN]
  simp only [hn]
  cases hres : resultOf (callN nest fuel w o' f' a').2 with
  | none => rfl
  | some r => cases r <;> rfl

end Tromp.C08
