/-
  Props/C17_TracerChain.lean — the chain of live tracers, as pointers, for every history.

  `tracer_obj()` points to the innermost tracer, each tracer's `previous` to the next older one.  A tracer's constructor hooks it
  in front (`previous = set_tracer(this)`), its destructor runs the unlink-this loop.  Model/Chain.lean has the pointer model,
  Lemmas/Chain.lean the refinement of every script of those two operations to a list.  Here: `tracerScript w op` is the script
  of a World operation — `push t` for `tracer t`, the unlink-this loop for `killtracer t`, nothing for any other operation
  (`step_tracers`: no other operation changes the World's tracer stack) — and **`tracer_chain_refines_world`**: after any history
  the `previous` pointers from `tracer_obj()` spell exactly the World's tracer stack, newest first; so the tracer a call finds at
  `tracer_obj()` is the most recently constructed live one (`innermost_is_head`), in any order of construction and destruction.
-/
import TrompModel.Lemmas.Chain
import TrompModel.Lemmas.InvChain
import TrompModel.Props.C14

namespace Tromp.C17Chain
open Tromp World

def tracerScript (w : World) (op : Tromp.Op) : List Chain.Op :=
  if !w.legal op then [] else
  match op with
  | .tracer t => [Chain.Op.push t]
  | .killtracer t => [Chain.Op.unlinkThis t]
  | _ => []

/-- what a World step does to the tracer stack: exactly the abstract effect of its script. -/
theorem step_tracers {w : World} (h : WFTr w) (op : Tromp.Op) :
    (w.step op).1.tracers = (tracerScript w op).foldl Chain.absStep w.tracers ∧ Chain.legalRun w.tracers (tracerScript w op) := by
  unfold World.step tracerScript
  cases hl : w.legal op with
  | false => simp only [Bool.not_false, if_true]; exact ⟨rfl, trivial⟩
  | true =>
  simp only [Bool.not_true, Bool.false_eq_true, if_false]
  have same : ∀ {w' : World}, MW w w' → w'.tracers = ([] : List Chain.Op).foldl Chain.absStep w.tracers ∧ Chain.legalRun w.tracers [] :=
    fun r => ⟨r.2.2.2.2.1, trivial⟩
  cases op with
  | mock o mv => simp only []; exact same ⟨rfl, rfl, rfl, rfl, rfl, rfl⟩
  | seq s => simp only []; exact same ⟨rfl, rfl, rfl, rfl, rfl, rfl⟩
  | expect e x =>
    simp only []
    split
    · exact same ⟨rfl, rfl, rfl, rfl, rfl, rfl⟩
    · cases w.mocks x.obj with
      | none => exact same (MW.refl w)
      | some m =>
        simp only []
        refine same (MW.trans (MW.trans (MW.trans ?_ (MW.register _ _ _)) (MW.setExp _ _ _)) (MW.setMock _ _ _))
        exact ⟨rfl, rfl, rfl, rfl, rfl, rfl⟩
  | call o f a => simp only []; exact same (MW.callFn w o f a)
  | sat e => exact same (MW.refl w)
  | satd e => exact same (MW.refl w)
  | release e =>
    simp only []
    cases w.exps e with
    | none => exact same (MW.refl w)
    | some x => exact same (MW.releaseExp w e x)
  | move o o' =>
    simp only []
    cases w.mocks o with
    | none => exact same (MW.refl w)
    | some m => exact same (MW.moveMock w o o' m)
  | kill o =>
    simp only []
    cases w.mocks o with
    | none => exact same (MW.refl w)
    | some m => exact same (MW.killMock w o m)
  | killseq s =>
    simp only []
    cases w.seqs s with
    | none => exact same (MW.refl w)
    | some x => exact same ⟨rfl, rfl, rfl, rfl, rfl, rfl⟩
  | completed s => exact same (MW.refl w)
  | watched x => simp only []; exact ⟨rfl, trivial⟩
  | copyw x y => simp only []; exact ⟨rfl, trivial⟩
  | movew x y => simp only []; exact ⟨rfl, trivial⟩
  | assignw d s => exact same (MW.refl w)
  | killw x =>
    simp only []
    cases w.watched x with
    | none => exact same (MW.refl w)
    | some y =>
      simp only []
      split
      · exact ⟨rfl, trivial⟩
      · have N := Notified.notifyFold y.monitors { w with watched := upd w.watched x { alive := false, monitors := [] } } []
        exact ⟨N.tracers, trivial⟩
  | monitor m x ss =>
    simp only []
    cases w.watched x with
    | none => exact same (MW.refl w)
    | some y =>
      simp only []
      exact ⟨(MW.register _ _ _).2.2.2.2.1, trivial⟩
  | msat m => exact same (MW.refl w)
  | msatd m => exact same (MW.refl w)
  | releasemon m =>
    simp only []
    cases w.mons m with
    | none => exact same (MW.refl w)
    | some x =>
      simp only []
      refine ⟨?_, trivial⟩
      show (World.retireOwn _ _ _).tracers = _
      rw [(MW.retireOwn _ _ _).2.2.2.2.1]
      split
      · rfl
      · split <;> rfl
  | tracer t =>
    simp only [World.legal, beq_iff_eq] at hl
    simp only []
    refine ⟨rfl, ⟨fun hin => ?_, trivial⟩⟩
    have := h.bound t hin; omega
  | killtracer t =>
    simp only []
    refine ⟨?_, ⟨trivial, trivial⟩⟩
    show w.tracers.filter (· ≠ t) = w.tracers.erase t
    rw [h.nodup.erase_eq_filter]
    apply List.filter_congr
    intro a _
    by_cases e : a = t <;> simp [e]
  | setreporter r ok => simp only []; exact same ⟨rfl, rfl, rfl, rfl, rfl, rfl⟩

/-- the World run of a history and, beside it, the pointer chain executing the script of every step. -/
def chainRun : World × Chain.Heap → List Tromp.Op → World × Chain.Heap
  | s, [] => s
  | (w, hp), op :: ops => chainRun ((w.step op).1, (Chain.run (w.tracers, hp) (tracerScript w op)).2) ops

theorem chainRun_world (w : World) (hp : Chain.Heap) (ops : List Tromp.Op) : (chainRun (w, hp) ops).1 = (w.run ops).1 := by
  induction ops generalizing w hp with
  | nil => rfl
  | cons op ops ih => simp only [chainRun, World.run]; exact ih _ _

theorem run_fst (l : List Nat) (hp : Chain.Heap) (ops : List Chain.Op) : (Chain.run (l, hp) ops).1 = ops.foldl Chain.absStep l := by
  induction ops generalizing l hp with
  | nil => rfl
  | cons op ops ih => simp only [Chain.run, List.foldl_cons]; exact ih _ _

theorem chainRun_rep {w : World} {hp : Chain.Heap} (h : WFTr w) (R : Chain.Rep hp w.tracers) (ops : List Tromp.Op) :
    Chain.Rep (chainRun (w, hp) ops).2 (chainRun (w, hp) ops).1.tracers := by
  induction ops generalizing w hp with
  | nil => exact R
  | cons op ops ih =>
    obtain ⟨e, lg⟩ := step_tracers h op
    have R' := Chain.rep_run R (tracerScript w op) lg
    rw [run_fst, ← e] at R'
    exact ih (h.step op) R'

/-- **the chain of live tracers refines the World's tracer stack, for every history.** -/
theorem tracer_chain_refines_world (ops : List Tromp.Op) :
    Chain.Rep (chainRun ({}, Chain.init) ops).2 (World.run {} ops).1.tracers := by
  have := chainRun_rep (w := {}) WFTr.init Chain.rep_init ops
  rwa [chainRun_world] at this

/-- **the tracer a call finds at `tracer_obj()` is the most recently constructed live one** (or none), and walking `previous`
    from it visits the live tracers from newest to oldest — at any point of any history. -/
theorem innermost_is_head (ops : List Tromp.Op) :
    (chainRun ({}, Chain.init) ops).2.head = (World.run {} ops).1.tracers.head? ∧
    Chain.toList (chainRun ({}, Chain.init) ops).2 ((World.run {} ops).1.tracers.length + 1) = (World.run {} ops).1.tracers := by
  have R := tracer_chain_refines_world ops
  refine ⟨?_, by simpa using Chain.toList_rep R 0⟩
  cases hl : (World.run {} ops).1.tracers with
  | nil => rw [hl] at R; exact R.1
  | cons t ts => rw [hl] at R; exact R.1.1

-- three tracers, the middle one destroyed first, then the newest: the chain is what is left
example : ((chainRun ({}, Chain.init) [.tracer 0, .tracer 1, .tracer 2, .killtracer 1, .killtracer 2]).2.head) = some 0 := by decide
example : Chain.toList (chainRun ({}, Chain.init) [.tracer 0, .tracer 1, .tracer 2, .killtracer 1]).2 4 = [2, 0] := by decide

end Tromp.C17Chain
