/-
  Gen/Cxx/StartsWithElements.lean — REGENERATED from /repo by tools/cxx2lean.py on every check.  Do not edit.
  The definition is the syntax-directed translation of the C++ function named in its doc comment (statement
  for statement; loops, tests, early exits and their order are those of the source).
  `TrompModel/Tie/*.lean` proves it equal to the hand-written model definition.
-/
import TrompModel.Model.CxxBase
namespace Tromp.Cxx

/-- `impl::starts_with_elements_checker::operator()` — translated from include/trompeloeil/matcher/range.hpp:602 -/
def starts_with_elements {α μ : Type} (accepts : μ → α → Bool) (range : List α) (elements : List μ) : Bool := Id.run do
  let mut it : List α := range
  let mut all_true : Bool := true
  for compare in elements do
    if all_true then
      match it with
      | [] => all_true := false
      | v :: rest =>
        all_true := accepts compare v
        it := rest
  return all_true

end Tromp.Cxx
