/-
  Gen/Cxx/Sm0Order.lean — REGENERATED from /repo by tools/cxx2lean.py on every check.  Do not edit.
  The definition is the syntax-directed translation of the C++ function named in its doc comment (statement
  for statement; loops, tests, early exits and their order are those of the source).
  `TrompModel/Tie/*.lean` proves it equal to the hand-written model definition.
-/
import TrompModel.Model.CxxBase
namespace Tromp.Cxx

/-- `sequence_matchers<0>::order` — translated from include/trompeloeil/mock.hpp:1636 -/
def sm0_order : Nat := Id.run do
  return 0

end Tromp.Cxx
