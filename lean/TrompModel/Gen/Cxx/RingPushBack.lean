/-
  Gen/Cxx/RingPushBack.lean — REGENERATED from /repo by tools/cxx2lean.py on every check.  Do not edit.
  The definition is the syntax-directed translation of the C++ function named in its doc comment (statement
  for statement; loops, tests, early exits and their order are those of the source).
  `TrompModel/Tie/*.lean` proves it equal to the hand-written model definition.
-/
import TrompModel.Model.CxxBase
import TrompModel.Model.Ring
namespace Tromp.Cxx

/-- `list<T, Disposer>::push_back` — translated from include/trompeloeil/mock.hpp:1610 -/
def ring_push_back (this t : Ring.Ptr) (h0 : Ring.Heap Ring.Ptr) : Ring.Heap Ring.Ptr := Id.run do
  let mut h := h0
  h := h.setPrev t (h.prev this)
  h := h.setNext t this
  h := h.setNext (h.prev this) t
  h := h.setPrev this t
  return h

end Tromp.Cxx
