/-
  Gen/Cxx/ShRetire.lean — REGENERATED from /repo by tools/cxx2lean.py on every check.  Do not edit.
  The definition is the syntax-directed translation of the C++ function named in its doc comment (statement
  for statement; loops, tests, early exits and their order are those of the source).
  `TrompModel/Tie/*.lean` proves it equal to the hand-written model definition.
-/
import TrompModel.Model.CxxBase
namespace Tromp.Cxx

/-- `sequence_handler<N>::retire` — translated from include/trompeloeil/mock.hpp:1909 -/
def sh_retire : List String := Id.run do
  let mut acts : List String := []
  acts := acts ++ ["matchers.retire"]
  return acts

end Tromp.Cxx
