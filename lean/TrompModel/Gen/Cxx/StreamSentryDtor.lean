/-
  Gen/Cxx/StreamSentryDtor.lean — REGENERATED from /repo by tools/cxx2lean.py on every check.  Do not edit.
  The definition is the syntax-directed translation of the C++ function named in its doc comment (statement
  for statement; loops, tests, early exits and their order are those of the source).
  `TrompModel/Tie/*.lean` proves it equal to the hand-written model definition.
-/
import TrompModel.Model.CxxBase
namespace Tromp.Cxx

/-- `stream_sentry::~stream_sentry` — translated from include/trompeloeil/mock.hpp:969 -/
def stream_sentry_dtor : List Act := Id.run do
  let mut acts : List Act := []
  acts := acts ++ [Act.stmt "os.flags(flags)"]
  acts := acts ++ [Act.stmt "os.fill(fill)"]
  acts := acts ++ [Act.stmt "os.width(width)"]
  return acts

end Tromp.Cxx
