/-
  Gen/Cxx/IsPermutationElements.lean — REGENERATED from /repo by tools/cxx2lean.py on every check.  Do not edit.
  The definition is the syntax-directed translation of the C++ function named in its doc comment (statement
  for statement; loops, tests, early exits and their order are those of the source).
  `TrompModel/Tie/*.lean` proves it equal to the hand-written model definition.
-/
import TrompModel.Model.CxxBase
namespace Tromp.Cxx

/-- `impl::is_permutation_elements_checker::operator()` — translated from include/trompeloeil/matcher/range.hpp:200 -/
def is_permutation_elements {α μ : Type} (accepts : μ → α → Bool) (range : List α) (elements : List μ) : Bool := Id.run do
  let mut matchers : List μ := elements
  let mut it_at_end : Bool := true
  for it_elem in range do
    let found : Option Nat := matchers.findIdx? (fun matcher => accepts matcher it_elem)
    if found.isNone then
      it_at_end := false
      break
    matchers := assignFromBack matchers found
    matchers := matchers.dropLast
  return (it_at_end && matchers.isEmpty)

end Tromp.Cxx
