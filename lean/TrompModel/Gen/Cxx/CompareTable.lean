/-
  Gen/Cxx/CompareTable.lean — REGENERATED from /repo by tools/cxx2lean.py on every check.  Do not edit.
  The definition is the syntax-directed translation of the C++ function named in its doc comment (statement
  for statement; loops, tests, early exits and their order are those of the source).
  `TrompModel/Tie/*.lean` proves it equal to the hand-written model definition.
-/
import TrompModel.Model.CxxBase
namespace Tromp.Cxx

/-- the call operator every comparison functor gets from `TROMPELOEIL_MK_PRED_BINOP(name, op)` — from include/trompeloeil/matcher/compare.hpp:30:
    `x op y`, the argument `x` on the left, the stored value `y` on the right. -/
def pred_binop {α β : Type} (op : α → β → Bool) (x : α) (y : β) : Bool := Id.run do
  return op x y

/-- (matcher function, functor, operator of the functor, printer, text of the printer) — include/trompeloeil/matcher/compare.hpp -/
def compare_table : List (String × String × String × String × String) := [
  ("eq", "equal", "==", "equal_printer", " == "),
  ("ne", "not_equal", "!=", "not_equal_printer", " != "),
  ("ge", "greater_equal", ">=", "greater_equal_printer", " >= "),
  ("gt", "greater", ">", "greater_printer", " > "),
  ("lt", "less", "<", "less_printer", " < "),
  ("le", "less_equal", "<=", "less_equal_printer", " <= ")
]

end Tromp.Cxx
