/-
  Gen/Cxx/MockFunc.lean — REGENERATED from /repo by tools/cxx2lean.py on every check.  Do not edit.
  The definition is the syntax-directed translation of the C++ function named in its doc comment (statement
  for statement; loops, tests, early exits and their order are those of the source).
  `TrompModel/Tie/*.lean` proves it equal to the hand-written model definition.
-/
import TrompModel.Model.CxxBase
namespace Tromp.Cxx

/-- `trompeloeil::mock_func` — translated from include/trompeloeil/mock.hpp:3395 -/
def mock_func (found : Bool) : List Act := Id.run do
  let mut acts : List Act := []
  acts := acts ++ [Act.stmt "find(e.active, param_value)"]
  if (!found) then
    acts := acts ++ [Act.stmt "report_mismatch(e.active, e.saturated, func_name + std::string(\" with signature \") + sig_name, param_value)"]
    return acts
  acts := acts ++ [Act.stmt "trace_agent ta{i->loc, i->name, tracer_obj()}"]
  acts := acts ++ [Act.stmt "try, on any exception: ta.trace_exception(); throw;"]
  acts := acts ++ [Act.stmt "ta.trace_params(param_value)"]
  acts := acts ++ [Act.stmt "i->run_actions(param_value, e.saturated)"]
  return acts ++ [Act.stmt "return i->return_value(ta, param_value)"]

end Tromp.Cxx
