/-
  Gen/Cxx/RingIterIncr.lean — REGENERATED from /repo by tools/cxx2lean.py on every check.  Do not edit.
  The definition is the syntax-directed translation of the C++ function named in its doc comment (statement
  for statement; loops, tests, early exits and their order are those of the source).
  `TrompModel/Tie/*.lean` proves it equal to the hand-written model definition.
-/
import TrompModel.Model.CxxBase
import TrompModel.Model.Ring
namespace Tromp.Cxx

/-- `list<T, Disposer>::iterator::operator++` — translated from include/trompeloeil/mock.hpp:1508 -/
def ring_iter_incr (p0 : Ring.Ptr) (h : Ring.Heap Ring.Ptr) : Ring.Ptr := Id.run do
  let mut p := p0
  p := (h.next p)
  return p

end Tromp.Cxx
