/-
  Gen/Cxx/HandlerIncrementCall.lean — REGENERATED from /repo by tools/cxx2lean.py on every check.  Do not edit.
  The definition is the syntax-directed translation of the C++ function named in its doc comment (statement
  for statement; loops, tests, early exits and their order are those of the source).
  `TrompModel/Tie/*.lean` proves it equal to the hand-written model definition.
-/
import TrompModel.Model.CxxBase
namespace Tromp.Cxx

/-- `sequence_handler_base::increment_call` — translated from include/trompeloeil/mock.hpp:1773 -/
def increment_call (call_count0 : Nat) : Nat := Id.run do
  let mut call_count := call_count0
  call_count := call_count + 1
  return call_count

end Tromp.Cxx
