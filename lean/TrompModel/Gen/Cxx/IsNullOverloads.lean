/-
  Gen/Cxx/IsNullOverloads.lean — REGENERATED from /repo by tools/cxx2lean.py on every check.  Do not edit.
  The definition is the syntax-directed translation of the C++ function named in its doc comment (statement
  for statement; loops, tests, early exits and their order are those of the source).
  `TrompModel/Tie/*.lean` proves it equal to the hand-written model definition.
-/
import TrompModel.Model.CxxBase
namespace Tromp.Cxx

/-- the overload set of `is_null` — from include/trompeloeil/mock.hpp:1035 — (enable_if condition, return type, parameters, body) -/
def is_null_overloads : List (String × String × String × String) := [
  ("", "auto", "T const &t, std::true_type", "return is_null_redirect(t)"),
  ("", "bool", "T const &, V", "return false"),
  ("", "bool", "T const &t", "using tag = std::integral_constant<bool, is_null_comparable<T>::value && !is_matcher<T>::value && !std::is_array<T>::value>; return ::trompeloeil::is_null(t, tag{})"),
  ("", "bool", "std::reference_wrapper<T> t", "return is_null(t.get())"),
  ("", "bool", "const std::expected<T, E>& e", "if constexpr (requires { e.value() == nullptr; }) { return e == nullptr; } else { return false; }")
]

end Tromp.Cxx
