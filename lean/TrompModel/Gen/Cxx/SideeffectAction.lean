/-
  Gen/Cxx/SideeffectAction.lean — REGENERATED from /repo by tools/cxx2lean.py on every check.  Do not edit.
  The definition is the syntax-directed translation of the C++ function named in its doc comment (statement
  for statement; loops, tests, early exits and their order are those of the source).
  `TrompModel/Tie/*.lean` proves it equal to the hand-written model definition.
-/
import TrompModel.Model.CxxBase
namespace Tromp.Cxx

/-- `sideeffect::action` — translated from include/trompeloeil/mock.hpp:2726 -/
def sideeffect_action : List Act := Id.run do
  let mut acts : List Act := []
  acts := acts ++ [Act.stmt "m.matcher->add_side_effect(a)"]
  return acts

end Tromp.Cxx
