/-
  Gen/Cxx/StartsWithRange.lean — REGENERATED from /repo by tools/cxx2lean.py on every check.  Do not edit.
  The definition is the syntax-directed translation of the C++ function named in its doc comment (statement
  for statement; loops, tests, early exits and their order are those of the source).
  `TrompModel/Tie/*.lean` proves it equal to the hand-written model definition.
-/
import TrompModel.Model.CxxBase
import TrompModel.Model.Range
namespace Tromp.Cxx

/-- `impl::starts_with_range_checker::operator()` — translated from include/trompeloeil/matcher/range.hpp:665 -/
def starts_with_range {α μ : Type} (accepts : μ → α → Bool) (range : List α) (elements : List μ) : Bool := Id.run do
  let result := Range.mismatch (fun (c : μ) (t : α) => accepts c t) range elements
  return result.2.isEmpty

end Tromp.Cxx
