/-
  Gen/Cxx/AddRetired.lean — REGENERATED from /repo by tools/cxx2lean.py on every check.  Do not edit.
  The definition is the syntax-directed translation of the C++ function named in its doc comment (statement
  for statement; loops, tests, early exits and their order are those of the source).
  `TrompModel/Tie/*.lean` proves it equal to the hand-written model definition.
-/
import TrompModel.Model.CxxBase
namespace Tromp.Cxx

/-- `sequence_type::add_retired` — translated from include/trompeloeil/sequence.hpp:353 -/
def add_retired {α : Type} (m : α) (retired0 : List α) : List α := Id.run do
  let mut retired_matchers := retired0
  retired_matchers := retired_matchers ++ [m]
  return retired_matchers

end Tromp.Cxx
