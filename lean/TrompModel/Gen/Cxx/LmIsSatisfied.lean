/-
  Gen/Cxx/LmIsSatisfied.lean — REGENERATED from /repo by tools/cxx2lean.py on every check.  Do not edit.
  The definition is the syntax-directed translation of the C++ function named in its doc comment (statement
  for statement; loops, tests, early exits and their order are those of the source).
  `TrompModel/Tie/*.lean` proves it equal to the hand-written model definition.
-/
import TrompModel.Model.CxxBase
namespace Tromp.Cxx

/-- `lifetime_monitor::is_satisfied` — translated from include/trompeloeil/lifetime.hpp:86 -/
def lm_is_satisfied (died : Bool) : Bool := Id.run do
  return died

end Tromp.Cxx
