/-
  Gen/Cxx/StreamerPair.lean — REGENERATED from /repo by tools/cxx2lean.py on every check.  Do not edit.
  The definition is the syntax-directed translation of the C++ function named in its doc comment (statement
  for statement; loops, tests, early exits and their order are those of the source).
  `TrompModel/Tie/*.lean` proves it equal to the hand-written model definition.
-/
import TrompModel.Model.CxxBase
namespace Tromp.Cxx

/-- `streamer<std::pair<T, U>, false, false>::print` — translated from include/trompeloeil/mock.hpp:1154 -/
def streamer_pair : List PrTok := Id.run do
  let mut acts : List PrTok := []
  acts := acts ++ [PrTok.lit "{ "]
  acts := acts ++ [PrTok.printSub 0]
  acts := acts ++ [PrTok.lit ", "]
  acts := acts ++ [PrTok.printSub 1]
  acts := acts ++ [PrTok.lit " }"]
  return acts

end Tromp.Cxx
