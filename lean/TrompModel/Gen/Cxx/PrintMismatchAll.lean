/-
  Gen/Cxx/PrintMismatchAll.lean — REGENERATED from /repo by tools/cxx2lean.py on every check.  Do not edit.
  The definition is the syntax-directed translation of the C++ function named in its doc comment (statement
  for statement; loops, tests, early exits and their order are those of the source).
  `TrompModel/Tie/*.lean` proves it equal to the hand-written model definition.
-/
import TrompModel.Model.CxxBase
import TrompModel.Gen.Cxx.PrintMismatchOne
namespace Tromp.Cxx

/-- `trompeloeil::print_mismatch(os, index_sequence<I...>, v, p)` — translated from include/trompeloeil/mock.hpp:2180 -/
def print_mismatch_all (pairs : List (Nat × Bool)) : List PTok := Id.run do
  let mut os : List PTok := []
  for pr in pairs do
    os := print_mismatch_one pr.2 pr.1 os
  return os

end Tromp.Cxx
