/-
  Gen/Cxx/TraceReturnValue.lean — REGENERATED from /repo by tools/cxx2lean.py on every check.  Do not edit.
  The definition is the syntax-directed translation of the C++ function named in its doc comment (statement
  for statement; loops, tests, early exits and their order are those of the source).
  `TrompModel/Tie/*.lean` proves it equal to the hand-written model definition.
-/
import TrompModel.Model.CxxBase
namespace Tromp.Cxx

/-- `trompeloeil::trace_return<Ret>(agent, func, params)` — translated from include/trompeloeil/mock.hpp:2428 -/
def trace_return_value : List Act := Id.run do
  let mut acts : List Act := []
  acts := acts ++ [Act.stmt "try, on any exception: throw;"]
  return acts ++ [Act.stmt "return agent.trace_return(func(params))"]

end Tromp.Cxx
