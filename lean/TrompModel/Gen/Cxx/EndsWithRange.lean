/-
  Gen/Cxx/EndsWithRange.lean — REGENERATED from /repo by tools/cxx2lean.py on every check.  Do not edit.
  The definition is the syntax-directed translation of the C++ function named in its doc comment (statement
  for statement; loops, tests, early exits and their order are those of the source).
  `TrompModel/Tie/*.lean` proves it equal to the hand-written model definition.
-/
import TrompModel.Model.CxxBase
import TrompModel.Model.Range
namespace Tromp.Cxx

/-- `impl::ends_with_range_checker::operator()` — translated from include/trompeloeil/matcher/range.hpp:782 -/
def ends_with_range {α μ : Type} (accepts : μ → α → Bool) (range : List α) (elements : List μ) : Bool := Id.run do
  let mut it : List α := range
  let num_values := elements.length
  let size := it.length
  if (size < num_values) then
    return false
  it := it.drop (size - num_values)
  let result := Range.mismatch (fun (c : μ) (v : α) => accepts c v) it elements
  return result.2.isEmpty

end Tromp.Cxx
