/-
  Gen/Cxx/IncludesElements.lean — REGENERATED from /repo by tools/cxx2lean.py on every check.  Do not edit.
  The definition is the syntax-directed translation of the C++ function named in its doc comment (statement
  for statement; loops, tests, early exits and their order are those of the source).
  `TrompModel/Tie/*.lean` proves it equal to the hand-written model definition.
-/
import TrompModel.Model.CxxBase
namespace Tromp.Cxx

/-- `impl::includes_elements_checker::operator()` — translated from include/trompeloeil/matcher/range.hpp:333 -/
def includes_elements {α μ : Type} (accepts : μ → α → Bool) (range : List α) (elements : List μ) : Bool := Id.run do
  let mut matchers : List μ := elements
  let mut it_at_end : Bool := true
  for it_elem in range do
    let found : Option Nat := matchers.findIdx? (fun matcher => accepts matcher it_elem)
    if found.isSome then
      matchers := assignFromBack matchers found
      matchers := matchers.dropLast
  return matchers.isEmpty

end Tromp.Cxx
