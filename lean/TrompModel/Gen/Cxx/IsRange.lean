/-
  Gen/Cxx/IsRange.lean — REGENERATED from /repo by tools/cxx2lean.py on every check.  Do not edit.
  The definition is the syntax-directed translation of the C++ function named in its doc comment (statement
  for statement; loops, tests, early exits and their order are those of the source).
  `TrompModel/Tie/*.lean` proves it equal to the hand-written model definition.
-/
import TrompModel.Model.CxxBase
import TrompModel.Model.Range
namespace Tromp.Cxx

/-- `impl::is_range_checker::operator()` — translated from include/trompeloeil/matcher/range.hpp:154 -/
def is_range {α μ : Type} (accepts : μ → α → Bool) (r : List α) (cs : List μ) : Bool := Id.run do
  return Range.equal4 (fun (cv : μ) (rv : α) => accepts cv rv) r cs

end Tromp.Cxx
