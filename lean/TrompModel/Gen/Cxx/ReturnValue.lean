/-
  Gen/Cxx/ReturnValue.lean — REGENERATED from /repo by tools/cxx2lean.py on every check.  Do not edit.
  The definition is the syntax-directed translation of the C++ function named in its doc comment (statement
  for statement; loops, tests, early exits and their order are those of the source).
  `TrompModel/Tie/*.lean` proves it equal to the hand-written model definition.
-/
import TrompModel.Model.CxxBase
namespace Tromp.Cxx

/-- `call_matcher::return_value` — translated from include/trompeloeil/mock.hpp:3077 -/
def return_value {ρ : Type} (has_handler : Bool) (default_return handler_call : ρ) : ρ := Id.run do
  if (!has_handler) then
    return default_return
  return handler_call

end Tromp.Cxx
