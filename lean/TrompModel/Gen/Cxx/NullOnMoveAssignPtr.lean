/-
  Gen/Cxx/NullOnMoveAssignPtr.lean — REGENERATED from /repo by tools/cxx2lean.py on every check.  Do not edit.
  The definition is the syntax-directed translation of the C++ function named in its doc comment (statement
  for statement; loops, tests, early exits and their order are those of the source).
  `TrompModel/Tie/*.lean` proves it equal to the hand-written model definition.
-/
import TrompModel.Model.CxxBase
namespace Tromp.Cxx

/-- `null_on_move<T>::operator=(T*)` — translated from include/trompeloeil/mock.hpp:1718 -/
def null_on_move_assign_ptr {μ : Type} (t : Option μ) (p0 : Option μ) : Option μ := Id.run do
  let mut p := p0
  p := t
  return p

end Tromp.Cxx
