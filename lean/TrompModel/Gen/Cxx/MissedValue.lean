/-
  Gen/Cxx/MissedValue.lean — REGENERATED from /repo by tools/cxx2lean.py on every check.  Do not edit.
  The definition is the syntax-directed translation of the C++ function named in its doc comment (statement
  for statement; loops, tests, early exits and their order are those of the source).
  `TrompModel/Tie/*.lean` proves it equal to the hand-written model definition.
-/
import TrompModel.Model.CxxBase
namespace Tromp.Cxx

/-- `trompeloeil::missed_value` — translated from include/trompeloeil/mock.hpp:2200 -/
def missed_value (i : Nat) (os0 : List PTok) : List PTok := Id.run do
  let mut os := os0
  os := os ++ [PTok.param i]
  pure ()
  pure ()
  return os

end Tromp.Cxx
