/-
  Gen/Cxx/ParamMatchesMatcher.lean — REGENERATED from /repo by tools/cxx2lean.py on every check.  Do not edit.
  The definition is the syntax-directed translation of the C++ function named in its doc comment (statement
  for statement; loops, tests, early exits and their order are those of the source).
  `TrompModel/Tie/*.lean` proves it equal to the hand-written model definition.
-/
import TrompModel.Model.CxxBase
namespace Tromp.Cxx

/-- `trompeloeil::param_matches_impl(t, u, matcher const*)` — translated from include/trompeloeil/mock.hpp:2086 -/
def param_matches_matcher {τ υ : Type} (matches_ : τ → υ → Bool) (t : τ) (u : υ) : Bool := Id.run do
  return matches_ t u

end Tromp.Cxx
