/-
  Gen/Cxx/CmIsSaturated.lean — REGENERATED from /repo by tools/cxx2lean.py on every check.  Do not edit.
  The definition is the syntax-directed translation of the C++ function named in its doc comment (statement
  for statement; loops, tests, early exits and their order are those of the source).
  `TrompModel/Tie/*.lean` proves it equal to the hand-written model definition.
-/
import TrompModel.Model.CxxBase
namespace Tromp.Cxx

/-- `call_matcher::is_saturated` — translated from include/trompeloeil/mock.hpp:3009 -/
def cm_is_saturated (handler_is_saturated : Bool) : Bool := Id.run do
  return handler_is_saturated

end Tromp.Cxx
