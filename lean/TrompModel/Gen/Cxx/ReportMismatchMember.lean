/-
  Gen/Cxx/ReportMismatchMember.lean — REGENERATED from /repo by tools/cxx2lean.py on every check.  Do not edit.
  The definition is the syntax-directed translation of the C++ function named in its doc comment (statement
  for statement; loops, tests, early exits and their order are those of the source).
  `TrompModel/Tie/*.lean` proves it equal to the hand-written model definition.
-/
import TrompModel.Model.CxxBase
namespace Tromp.Cxx

/-- `call_matcher::report_mismatch` — translated from include/trompeloeil/mock.hpp:3125 -/
def report_mismatch_member {κ : Type} (paramsOk : Bool) (check : κ → Bool) (conditions : List κ) : Bool × List (MTok κ) × List κ := Id.run do
  let mut reported := false
  let mut os : List (MTok κ) := []
  let mut evals : List κ := []
  reported := true
  os := os ++ [MTok.signature]
  if paramsOk then
    for cond in conditions do
      evals := evals ++ [cond]
      if (!check cond) then
        os := os ++ [MTok.text, MTok.failedWith cond, MTok.text]
        break
  else
    os := os ++ [MTok.text]
    os := os ++ [MTok.paramMismatch]
  return (reported, os, evals)

end Tromp.Cxx
