/-
  Gen/Cxx/SetReturn.lean — REGENERATED from /repo by tools/cxx2lean.py on every check.  Do not edit.
  The definition is the syntax-directed translation of the C++ function named in its doc comment (statement
  for statement; loops, tests, early exits and their order are those of the source).
  `TrompModel/Tie/*.lean` proves it equal to the hand-written model definition.
-/
import TrompModel.Model.CxxBase
namespace Tromp.Cxx

/-- `call_matcher::set_return(std::true_type, h)` — translated from include/trompeloeil/mock.hpp:3201 -/
def set_return : List Act := Id.run do
  let mut acts : List Act := []
  acts := acts ++ [Act.stmt "return_handler_obj.reset(NEW_HANDLER(h))"]
  return acts

end Tromp.Cxx
