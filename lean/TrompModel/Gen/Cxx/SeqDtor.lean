/-
  Gen/Cxx/SeqDtor.lean — REGENERATED from /repo by tools/cxx2lean.py on every check.  Do not edit.
  The definition is the syntax-directed translation of the C++ function named in its doc comment (statement
  for statement; loops, tests, early exits and their order are those of the source).
  `TrompModel/Tie/*.lean` proves it equal to the hand-written model definition.
-/
import TrompModel.Model.CxxBase
namespace Tromp.Cxx

/-- `sequence_type::~sequence_type` — translated from include/trompeloeil/sequence.hpp:313 -/
def seq_dtor {α : Type} (matchers0 retired0 : List α) : Option (Sev × List (Tok α)) × List α × List α := Id.run do
  let mut matchers := matchers0
  let mut retired_matchers := retired0
  let mut report : Option (Sev × List (Tok α)) := none
  let mut touched : Bool := false
  let mut os : List (Tok α) := []
  for m in matchers do
    if (!touched) then
      os := os ++ [Tok.key "teardown", Tok.seqName, Tok.text]
      touched := true
    os := os ++ [Tok.key "missing"]
    os := os ++ [Tok.expectation m]
    matchers := matchers.tail
  retired_matchers := []
  if touched then
    os := os ++ [Tok.text]
    report := some (Sev.nonfatal, os)
  return (report, matchers, retired_matchers)

end Tromp.Cxx
