/-
  Gen/Cxx/Cost.lean — REGENERATED from /repo by tools/cxx2lean.py on every check.  Do not edit.
  The definition is the syntax-directed translation of the C++ function named in its doc comment (statement
  for statement; loops, tests, early exits and their order are those of the source).
  `TrompModel/Tie/*.lean` proves it equal to the hand-written model definition.
-/
import TrompModel.Model.CxxBase
namespace Tromp.Cxx

/-- `sequence_type::cost` — translated from include/trompeloeil/sequence.hpp:217 -/
def cost {α : Type} [DecidableEq α] (is_satisfied : α → Bool) (m : α) (matchers : List α) : Nat := Id.run do
  let mut sequence_cost : Nat := 0
  for e in matchers do
    if (e == m) then
      return sequence_cost
    if (!is_satisfied e) then
      return topU
    sequence_cost := sequence_cost + 1
  return topU

end Tromp.Cxx
