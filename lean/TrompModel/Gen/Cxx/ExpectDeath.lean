/-
  Gen/Cxx/ExpectDeath.lean — REGENERATED from /repo by tools/cxx2lean.py on every check.  Do not edit.
  The definition is the syntax-directed translation of the C++ function named in its doc comment (statement
  for statement; loops, tests, early exits and their order are those of the source).
  `TrompModel/Tie/*.lean` proves it equal to the hand-written model definition.
-/
import TrompModel.Model.CxxBase
import TrompModel.Gen.Cxx.ChainLifetimeMonitor
namespace Tromp.Cxx

/-- `deathwatched<T>::trompeloeil_expect_death` — translated from include/trompeloeil/lifetime.hpp:53 -/
def expect_death {μ : Type} [DecidableEq μ] (monitor : μ) (head0 : Option μ) (older_of0 : μ → Option μ) : Option μ × (μ → Option μ) := Id.run do
  let mut head := head0
  let mut older_of := older_of0
  older_of := chain_lifetime_monitor monitor head older_of
  head := some monitor
  return (head, older_of)

end Tromp.Cxx
