/-
  Gen/Cxx/ReportMismatchFree.lean — REGENERATED from /repo by tools/cxx2lean.py on every check.  Do not edit.
  The definition is the syntax-directed translation of the C++ function named in its doc comment (statement
  for statement; loops, tests, early exits and their order are those of the source).
  `TrompModel/Tie/*.lean` proves it equal to the hand-written model definition.
-/
import TrompModel.Model.CxxBase
namespace Tromp.Cxx

/-- `trompeloeil::report_mismatch` — translated from include/trompeloeil/mock.hpp:2356 -/
def report_mismatch_free {α : Type} (matches_ : α → Bool) (matcher_list saturated_list : List α) : List (Tok α) := Id.run do
  let mut os : List (Tok α) := []
  os := os ++ [Tok.key "noMatchCall", Tok.matchName, Tok.text]
  os := os ++ [Tok.text]
  let mut saturated_match : Bool := false
  for m in saturated_list do
    if matches_ m then
      if (!saturated_match) then
        os := os ++ [Tok.key "matchesSaturated"]
        saturated_match := true
      os := os ++ [Tok.text]
      os := os ++ [Tok.expectation m, Tok.text]
  if (!saturated_match) then
    for m in matcher_list do
      os := os ++ [Tok.key "tried"]
      os := os ++ [Tok.tried m]
  return os

end Tromp.Cxx
