/-
  Gen/Cxx/RingMoveAssign.lean — REGENERATED from /repo by tools/cxx2lean.py on every check.  Do not edit.
  The definition is the syntax-directed translation of the C++ function named in its doc comment (statement
  for statement; loops, tests, early exits and their order are those of the source).
  `TrompModel/Tie/*.lean` proves it equal to the hand-written model definition.
-/
import TrompModel.Model.CxxBase
import TrompModel.Model.Ring
import TrompModel.Gen.Cxx.RingUnlink
namespace Tromp.Cxx

/-- `list_elem<T>::operator=(list_elem&&)` — translated from include/trompeloeil/mock.hpp:1335 -/
def ring_move_assign (this r : Ring.Ptr) (h0 : Ring.Heap Ring.Ptr) : Ring.Heap Ring.Ptr := Id.run do
  let mut h := h0
  if (this != r) then
    h := h.setNext this (h.next r)
    h := h.setPrev this r
    h := h.setPrev (h.next this) this
    h := h.setNext r this
    h := ring_unlink r h
  return h

end Tromp.Cxx
