/-
  Gen/Cxx/ValidateMatch.lean — REGENERATED from /repo by tools/cxx2lean.py on every check.  Do not edit.
  The definition is the syntax-directed translation of the C++ function named in its doc comment (statement
  for statement; loops, tests, early exits and their order are those of the source).
  `TrompModel/Tie/*.lean` proves it equal to the hand-written model definition.
-/
import TrompModel.Model.CxxBase
import TrompModel.Gen.Cxx.Cost
namespace Tromp.Cxx

/-- `sequence_type::validate_match` — translated from include/trompeloeil/sequence.hpp:259 -/
def validate_match {α : Type} [DecidableEq α] (is_satisfied is_optional : α → Bool) (matcher : α) (matchers : List α) : Option (List (Tok α)) := Id.run do
  let mut report : Option (List (Tok α)) := none
  if (cost is_satisfied matcher matchers != topU) then
    return report
  if matchers.isEmpty then
    let mut os : List (Tok α) := []
    os := os ++ [Tok.key "seqMismatch", Tok.seqName, Tok.text, Tok.matchName, Tok.text, Tok.loc, Tok.text, Tok.seqName, Tok.key "noMore"]
    report := some os
    return report
  let mut first : Bool := true
  let mut os : List (Tok α) := []
  os := os ++ [Tok.key "seqMismatch", Tok.seqName, Tok.text, Tok.matchName, Tok.text, Tok.loc, Tok.text]
  for m in matchers do
    if (first || (!is_optional m)) then
      if first then
        os := os ++ [Tok.text, Tok.seqName, Tok.key "has"]
      else
        os := os ++ [Tok.key "andHas"]
      os := os ++ [Tok.expectation m]
      if is_optional m then
        os := os ++ [Tok.key "firstInLine"]
      else
        os := os ++ [Tok.key "firstRequired"]
        break
    first := false
  report := some os
  return report

end Tromp.Cxx
