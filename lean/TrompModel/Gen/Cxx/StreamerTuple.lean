/-
  Gen/Cxx/StreamerTuple.lean — REGENERATED from /repo by tools/cxx2lean.py on every check.  Do not edit.
  The definition is the syntax-directed translation of the C++ function named in its doc comment (statement
  for statement; loops, tests, early exits and their order are those of the source).
  `TrompModel/Tie/*.lean` proves it equal to the hand-written model definition.
-/
import TrompModel.Model.CxxBase
namespace Tromp.Cxx

/-- `streamer<std::tuple<T...>, false, false>::print_tuple` — translated from include/trompeloeil/mock.hpp:1138 -/
def streamer_tuple (elements : List Nat) : List PrTok := Id.run do
  let mut acts : List PrTok := []
  acts := acts ++ [PrTok.lit "{ "]
  let mut sep : String := ""
  for element in elements do
    acts := acts ++ [PrTok.lit sep]
    acts := acts ++ [PrTok.printSub element]
    sep := ", "
  acts := acts ++ [PrTok.lit " }"]
  return acts

end Tromp.Cxx
