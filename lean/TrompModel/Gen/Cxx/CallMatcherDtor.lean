/-
  Gen/Cxx/CallMatcherDtor.lean — REGENERATED from /repo by tools/cxx2lean.py on every check.  Do not edit.
  The definition is the syntax-directed translation of the C++ function named in its doc comment (statement
  for statement; loops, tests, early exits and their order are those of the source).
  `TrompModel/Tie/*.lean` proves it equal to the hand-written model definition.
-/
import TrompModel.Model.CxxBase
namespace Tromp.Cxx

/-- `call_matcher::~call_matcher` — translated from include/trompeloeil/mock.hpp:2987 -/
def call_matcher_dtor (is_unfulfilled : Bool) : List Act := Id.run do
  let mut acts : List Act := []
  if is_unfulfilled then
    acts := acts ++ [Act.stmt "report_missed(\"Unfulfilled expectation\")"]
  acts := acts ++ [Act.stmt "this->unlink()"]
  acts := acts ++ [Act.stmt "sequences.reset()"]
  return acts

end Tromp.Cxx
