/-
  Gen/Cxx/IsNullRedirect.lean — REGENERATED from /repo by tools/cxx2lean.py on every check.  Do not edit.
  The definition is the syntax-directed translation of the C++ function named in its doc comment (statement
  for statement; loops, tests, early exits and their order are those of the source).
  `TrompModel/Tie/*.lean` proves it equal to the hand-written model definition.
-/
import TrompModel.Model.CxxBase
namespace Tromp.Cxx

/-- the overload set of `is_null_redirect` — from include/trompeloeil/mock.hpp:1024 — (enable_if condition, return type, parameters, body) -/
def is_null_redirect_overloads : List (String × String × String × String) := [
  ("", "auto", "T const &t", "return t == nullptr")
]

end Tromp.Cxx
