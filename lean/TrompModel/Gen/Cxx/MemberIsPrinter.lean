/-
  Gen/Cxx/MemberIsPrinter.lean — REGENERATED from /repo by tools/cxx2lean.py on every check.  Do not edit.
  The definition is the syntax-directed translation of the C++ function named in its doc comment (statement
  for statement; loops, tests, early exits and their order are those of the source).
  `TrompModel/Tie/*.lean` proves it equal to the hand-written model definition.
-/
import TrompModel.Model.CxxBase
namespace Tromp.Cxx

/-- the printers of include/trompeloeil/matcher/member_is.hpp — from line 39 on — (name, [(how, what)]) -/
def member_is_printer : List (String × List (String × String)) := [
  ("match_member_is", [("raw", "name"), ("print", "compare")])
]

end Tromp.Cxx
