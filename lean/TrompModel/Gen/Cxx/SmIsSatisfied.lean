/-
  Gen/Cxx/SmIsSatisfied.lean — REGENERATED from /repo by tools/cxx2lean.py on every check.  Do not edit.
  The definition is the syntax-directed translation of the C++ function named in its doc comment (statement
  for statement; loops, tests, early exits and their order are those of the source).
  `TrompModel/Tie/*.lean` proves it equal to the hand-written model definition.
-/
import TrompModel.Model.CxxBase
namespace Tromp.Cxx

/-- `sequence_matcher::is_satisfied` — translated from include/trompeloeil/sequence.hpp:362 -/
def sm_is_satisfied (handler_is_satisfied : Bool) : Bool := Id.run do
  return handler_is_satisfied

end Tromp.Cxx
