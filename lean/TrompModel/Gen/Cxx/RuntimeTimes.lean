/-
  Gen/Cxx/RuntimeTimes.lean — REGENERATED from /repo by tools/cxx2lean.py on every check.  Do not edit.
  The definition is the syntax-directed translation of the C++ function named in its doc comment (statement
  for statement; loops, tests, early exits and their order are those of the source).
  `TrompModel/Tie/*.lean` proves it equal to the hand-written model definition.
-/
import TrompModel.Model.CxxBase
import TrompModel.Gen.Cxx.SetLimits
namespace Tromp.Cxx

/-- `runtime_times::action` — translated from include/trompeloeil/mock.hpp:2887 -/
def runtime_times (low high : Nat) (lim0 : Nat × Nat) : Option (Nat × Nat) := Id.run do
  let mut lim := lim0
  if (high < low) then
    return none
  lim := set_limits low high lim
  return some lim

end Tromp.Cxx
