/-
  Gen/Cxx/CoThrowHandlerCall.lean — REGENERATED from /repo by tools/cxx2lean.py on every check.  Do not edit.
  The definition is the syntax-directed translation of the C++ function named in its doc comment (statement
  for statement; loops, tests, early exits and their order are those of the source).
  `TrompModel/Tie/*.lean` proves it equal to the hand-written model definition.
-/
import TrompModel.Model.CxxBase
namespace Tromp.Cxx

/-- `co_throw_handler_t<H, signature>::operator()` — translated from include/trompeloeil/coro.hpp:167 -/
def co_throw_handler_call : List String := Id.run do
  let mut acts : List String := []
  acts := acts ++ ["h(p)"]
  return acts ++ ["return default_return<promise_value_type>()"]

end Tromp.Cxx
