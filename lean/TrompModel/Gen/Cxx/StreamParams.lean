/-
  Gen/Cxx/StreamParams.lean — REGENERATED from /repo by tools/cxx2lean.py on every check.  Do not edit.
  The definition is the syntax-directed translation of the C++ function named in its doc comment (statement
  for statement; loops, tests, early exits and their order are those of the source).
  `TrompModel/Tie/*.lean` proves it equal to the hand-written model definition.
-/
import TrompModel.Model.CxxBase
import TrompModel.Gen.Cxx.MissedValue
namespace Tromp.Cxx

/-- `trompeloeil::stream_params(os, index_sequence<I...>, t)` — translated from include/trompeloeil/mock.hpp:2213 -/
def stream_params (pairs : List Nat) : List PTok := Id.run do
  let mut os : List PTok := []
  for pr in pairs do
    os := missed_value pr os
  return os

end Tromp.Cxx
