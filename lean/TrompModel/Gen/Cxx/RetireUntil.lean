/-
  Gen/Cxx/RetireUntil.lean — REGENERATED from /repo by tools/cxx2lean.py on every check.  Do not edit.
  The definition is the syntax-directed translation of the C++ function named in its doc comment (statement
  for statement; loops, tests, early exits and their order are those of the source).
  `TrompModel/Tie/*.lean` proves it equal to the hand-written model definition.
-/
import TrompModel.Model.CxxBase
namespace Tromp.Cxx

/-- `sequence_type::retire_until` — translated from include/trompeloeil/sequence.hpp:238 -/
def retire_until {α : Type} [DecidableEq α] (m : α) (matchers0 : List α) : List α := Id.run do
  let mut matchers := matchers0
  let mut pending : Bool := false
  for e in matchers do
    if (e == m) then
      pending := true
      break
  if (!pending) then
    return matchers
  for first in matchers do
    if (first == m) then
      return matchers
    matchers := matchers.tail
  return matchers

end Tromp.Cxx
