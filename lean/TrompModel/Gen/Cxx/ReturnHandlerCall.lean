/-
  Gen/Cxx/ReturnHandlerCall.lean — REGENERATED from /repo by tools/cxx2lean.py on every check.  Do not edit.
  The definition is the syntax-directed translation of the C++ function named in its doc comment (statement
  for statement; loops, tests, early exits and their order are those of the source).
  `TrompModel/Tie/*.lean` proves it equal to the hand-written model definition.
-/
import TrompModel.Model.CxxBase
namespace Tromp.Cxx

/-- `return_handler_t<Sig, T>::call` — translated from include/trompeloeil/mock.hpp:2449 -/
def return_handler_call : List Act := Id.run do
  let mut acts : List Act := []
  return acts ++ [Act.stmt "return trace_return<Ret>(agent, func, params)"]

end Tromp.Cxx
