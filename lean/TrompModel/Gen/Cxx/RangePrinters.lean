/-
  Gen/Cxx/RangePrinters.lean — REGENERATED from /repo by tools/cxx2lean.py on every check.  Do not edit.
  The definition is the syntax-directed translation of the C++ function named in its doc comment (statement
  for statement; loops, tests, early exits and their order are those of the source).
  `TrompModel/Tie/*.lean` proves it equal to the hand-written model definition.
-/
import TrompModel.Model.CxxBase
namespace Tromp.Cxx

/-- the printers of include/trompeloeil/matcher/range.hpp — from line 116 on — (name, [(how, what)]) -/
def range_printers : List (String × List (String × String)) := [
  ("is_elements_printer", [("print", "v")]),
  ("is_range_printer", [("print", "c")]),
  ("is_permutation_elements_printer", [("print", "v")]),
  ("is_permutation_range_printer", [("print", "v")]),
  ("includes_elements_printer", [("print", "v")]),
  ("includes_range_printer", [("print", "v")]),
  ("range_all_of_printer", [("print_expectation", "comp")]),
  ("range_none_of_printer", [("print_expectation", "comp")]),
  ("range_any_of_printer", [("print_expectation", "comp")]),
  ("starts_with_elements_printer", [("print", "v")]),
  ("starts_with_range_printer", [("print", "v")]),
  ("ends_with_printer", [("print", "v")]),
  ("ends_with_range_printer", [("print", "e")])
]

end Tromp.Cxx
