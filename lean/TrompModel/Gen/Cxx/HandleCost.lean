/-
  Gen/Cxx/HandleCost.lean — REGENERATED from /repo by tools/cxx2lean.py on every check.  Do not edit.
  The definition is the syntax-directed translation of the C++ function named in its doc comment (statement
  for statement; loops, tests, early exits and their order are those of the source).
  `TrompModel/Tie/*.lean` proves it equal to the hand-written model definition.
-/
import TrompModel.Model.CxxBase
namespace Tromp.Cxx

/-- `sequence_matcher::cost` — translated from include/trompeloeil/sequence.hpp:124 -/
def handle_cost (seq_attached : Bool) (cost_in_sequence : Nat) : Nat := Id.run do
  return (if seq_attached then cost_in_sequence else 0)

end Tromp.Cxx
