/-
  Gen/Cxx/HandleValidate.lean — REGENERATED from /repo by tools/cxx2lean.py on every check.  Do not edit.
  The definition is the syntax-directed translation of the C++ function named in its doc comment (statement
  for statement; loops, tests, early exits and their order are those of the source).
  `TrompModel/Tie/*.lean` proves it equal to the hand-written model definition.
-/
import TrompModel.Model.CxxBase
namespace Tromp.Cxx

/-- `sequence_matcher::validate_match` — translated from include/trompeloeil/sequence.hpp:114 -/
def handle_validate (seq_attached : Bool) : List Act := Id.run do
  let mut acts : List Act := []
  if seq_attached then
    acts := acts ++ [Act.stmt "seq->validate_match(s, this, seq_name, match_name, loc)"]
  return acts

end Tromp.Cxx
