/-
  Gen/Cxx/YieldExprExpr.lean — REGENERATED from /repo by tools/cxx2lean.py on every check.  Do not edit.
  The definition is the syntax-directed translation of the C++ function named in its doc comment (statement
  for statement; loops, tests, early exits and their order are those of the source).
  `TrompModel/Tie/*.lean` proves it equal to the hand-written model definition.
-/
import TrompModel.Model.CxxBase
namespace Tromp.Cxx

/-- `yield_expr<Sig, Expr>::expr` — translated from include/trompeloeil/coro.hpp:109 -/
def yield_expr_expr (e_of_t : Nat) : Nat := Id.run do
  return e_of_t

end Tromp.Cxx
