/-
  Gen/Cxx/SetReporter1.lean — REGENERATED from /repo by tools/cxx2lean.py on every check.  Do not edit.
  The definition is the syntax-directed translation of the C++ function named in its doc comment (statement
  for statement; loops, tests, early exits and their order are those of the source).
  `TrompModel/Tie/*.lean` proves it equal to the hand-written model definition.
-/
import TrompModel.Model.CxxBase
namespace Tromp.Cxx

/-- `trompeloeil::set_reporter(reporter_func)` — translated from include/trompeloeil/mock.hpp:720 -/
def set_reporter1 {ρ : Type} (f : ρ) (rep0 : ρ) : ρ × ρ := Id.run do
  return (rep0, f)

end Tromp.Cxx
