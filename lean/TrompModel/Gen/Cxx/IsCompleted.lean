/-
  Gen/Cxx/IsCompleted.lean — REGENERATED from /repo by tools/cxx2lean.py on every check.  Do not edit.
  The definition is the syntax-directed translation of the C++ function named in its doc comment (statement
  for statement; loops, tests, early exits and their order are those of the source).
  `TrompModel/Tie/*.lean` proves it equal to the hand-written model definition.
-/
import TrompModel.Model.CxxBase
namespace Tromp.Cxx

/-- `sequence_type::is_completed` — translated from include/trompeloeil/sequence.hpp:189 -/
def is_completed {α : Type} (is_satisfied : α → Bool) (matchers : List α) : Bool := Id.run do
  for matcher in matchers do
    if (!is_satisfied matcher) then
      return false
  return true

end Tromp.Cxx
