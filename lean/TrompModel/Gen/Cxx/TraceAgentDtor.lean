/-
  Gen/Cxx/TraceAgentDtor.lean — REGENERATED from /repo by tools/cxx2lean.py on every check.  Do not edit.
  The definition is the syntax-directed translation of the C++ function named in its doc comment (statement
  for statement; loops, tests, early exits and their order are those of the source).
  `TrompModel/Tie/*.lean` proves it equal to the hand-written model definition.
-/
import TrompModel.Model.CxxBase
namespace Tromp.Cxx

/-- `trace_agent::~trace_agent` — translated from include/trompeloeil/mock.hpp:2261 -/
def trace_agent_dtor (t : Bool) : Bool := Id.run do
  let mut sent := false
  if t then
    sent := true
  return sent

end Tromp.Cxx
