/-
  Gen/Cxx/RingElemDtor.lean — REGENERATED from /repo by tools/cxx2lean.py on every check.  Do not edit.
  The definition is the syntax-directed translation of the C++ function named in its doc comment (statement
  for statement; loops, tests, early exits and their order are those of the source).
  `TrompModel/Tie/*.lean` proves it equal to the hand-written model definition.
-/
import TrompModel.Model.CxxBase
import TrompModel.Model.Ring
import TrompModel.Gen.Cxx.RingUnlink
namespace Tromp.Cxx

/-- `list_elem<T>::~list_elem` — translated from include/trompeloeil/mock.hpp:1365 -/
def ring_elem_dtor (this : Ring.Ptr) (h0 : Ring.Heap Ring.Ptr) : Ring.Heap Ring.Ptr := Id.run do
  let mut h := h0
  h := ring_unlink this h
  return h

end Tromp.Cxx
