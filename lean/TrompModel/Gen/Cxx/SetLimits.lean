/-
  Gen/Cxx/SetLimits.lean — REGENERATED from /repo by tools/cxx2lean.py on every check.  Do not edit.
  The definition is the syntax-directed translation of the C++ function named in its doc comment (statement
  for statement; loops, tests, early exits and their order are those of the source).
  `TrompModel/Tie/*.lean` proves it equal to the hand-written model definition.
-/
import TrompModel.Model.CxxBase
namespace Tromp.Cxx

/-- `sequence_handler_base::set_limits` — translated from include/trompeloeil/mock.hpp:1803 -/
def set_limits (L H : Nat) (lim0 : Nat × Nat) : Nat × Nat := Id.run do
  let mut min_calls := lim0.1
  let mut max_calls := lim0.2
  min_calls := L
  max_calls := H
  return (min_calls, max_calls)

end Tromp.Cxx
