/-
  Gen/Cxx/ReportMissed.lean — REGENERATED from /repo by tools/cxx2lean.py on every check.  Do not edit.
  The definition is the syntax-directed translation of the C++ function named in its doc comment (statement
  for statement; loops, tests, early exits and their order are those of the source).
  `TrompModel/Tie/*.lean` proves it equal to the hand-written model definition.
-/
import TrompModel.Model.CxxBase
namespace Tromp.Cxx

/-- `call_matcher::report_missed` — translated from include/trompeloeil/mock.hpp:3153 -/
def report_missed : List Act := Id.run do
  let mut acts : List Act := []
  acts := acts ++ [Act.stmt "reported = true"]
  acts := acts ++ [Act.stmt "report_unfulfilled(reason, name, params_string(val), sequences->get_min_calls(), sequences->get_calls(), loc)"]
  return acts

end Tromp.Cxx
