/-
  Gen/Cxx/StringHelperBool.lean — REGENERATED from /repo by tools/cxx2lean.py on every check.  Do not edit.
  The definition is the syntax-directed translation of the C++ function named in its doc comment (statement
  for statement; loops, tests, early exits and their order are those of the source).
  `TrompModel/Tie/*.lean` proves it equal to the hand-written model definition.
-/
import TrompModel.Model.CxxBase
namespace Tromp.Cxx

/-- `regex_check::string_helper::operator bool` — translated from include/trompeloeil/matcher/re.hpp:57 -/
def string_helper_bool (begin_not_null : Bool) : Bool := Id.run do
  return begin_not_null

end Tromp.Cxx
