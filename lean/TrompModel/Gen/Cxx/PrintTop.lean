/-
  Gen/Cxx/PrintTop.lean — REGENERATED from /repo by tools/cxx2lean.py on every check.  Do not edit.
  The definition is the syntax-directed translation of the C++ function named in its doc comment (statement
  for statement; loops, tests, early exits and their order are those of the source).
  `TrompModel/Tie/*.lean` proves it equal to the hand-written model definition.
-/
import TrompModel.Model.CxxBase
namespace Tromp.Cxx

/-- `trompeloeil::print(os, t)` — translated from include/trompeloeil/mock.hpp:1264 -/
def print_top (is_null : Bool) : List PrTok := Id.run do
  let mut acts : List PrTok := []
  if is_null then
    acts := acts ++ [PrTok.sentry]
    acts := acts ++ [PrTok.lit "nullptr"]
  else
    acts := acts ++ [PrTok.toPrinter]
  return acts

end Tromp.Cxx
