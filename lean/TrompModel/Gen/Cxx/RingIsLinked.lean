/-
  Gen/Cxx/RingIsLinked.lean — REGENERATED from /repo by tools/cxx2lean.py on every check.  Do not edit.
  The definition is the syntax-directed translation of the C++ function named in its doc comment (statement
  for statement; loops, tests, early exits and their order are those of the source).
  `TrompModel/Tie/*.lean` proves it equal to the hand-written model definition.
-/
import TrompModel.Model.CxxBase
import TrompModel.Model.Ring
namespace Tromp.Cxx

/-- `list_elem<T>::is_linked` — translated from include/trompeloeil/mock.hpp:1411 -/
def ring_is_linked (this : Ring.Ptr) (h : Ring.Heap Ring.Ptr) : Bool := Id.run do
  return ((h.next this) != this)

end Tromp.Cxx
