/-
  Gen/Cxx/SeqIsCompleted.lean — REGENERATED from /repo by tools/cxx2lean.py on every check.  Do not edit.
  The definition is the syntax-directed translation of the C++ function named in its doc comment (statement
  for statement; loops, tests, early exits and their order are those of the source).
  `TrompModel/Tie/*.lean` proves it equal to the hand-written model definition.
-/
import TrompModel.Model.CxxBase
namespace Tromp.Cxx

/-- `sequence::is_completed` — translated from include/trompeloeil/sequence.hpp:84 -/
def seq_is_completed (obj_is_completed : Bool) : Bool := Id.run do
  return obj_is_completed

end Tromp.Cxx
