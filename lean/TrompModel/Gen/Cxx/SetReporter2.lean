/-
  Gen/Cxx/SetReporter2.lean — REGENERATED from /repo by tools/cxx2lean.py on every check.  Do not edit.
  The definition is the syntax-directed translation of the C++ function named in its doc comment (statement
  for statement; loops, tests, early exits and their order are those of the source).
  `TrompModel/Tie/*.lean` proves it equal to the hand-written model definition.
-/
import TrompModel.Model.CxxBase
import TrompModel.Gen.Cxx.SetReporter1
namespace Tromp.Cxx

/-- `trompeloeil::set_reporter(reporter_func, ok_reporter_func)` — translated from include/trompeloeil/mock.hpp:728 -/
def set_reporter2 {ρ κ : Type} (rf : ρ) (orf : κ) (rep0 : ρ) (ok0 : κ) : (ρ × κ) × (ρ × κ) := Id.run do
  return (((set_reporter1 rf rep0).1, ok0), ((set_reporter1 rf rep0).2, orf))

end Tromp.Cxx
