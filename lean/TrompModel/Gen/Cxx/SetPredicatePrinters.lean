/-
  Gen/Cxx/SetPredicatePrinters.lean — REGENERATED from /repo by tools/cxx2lean.py on every check.  Do not edit.
  The definition is the syntax-directed translation of the C++ function named in its doc comment (statement
  for statement; loops, tests, early exits and their order are those of the source).
  `TrompModel/Tie/*.lean` proves it equal to the hand-written model definition.
-/
import TrompModel.Model.CxxBase
namespace Tromp.Cxx

/-- the printers of include/trompeloeil/matcher/set_predicate.hpp — from line 35 on — (name, [(how, what)]) -/
def set_predicate_printers : List (String × List (String × String)) := [
  ("any_of_printer", [("print", "compare")]),
  ("none_of_printer", [("print", "compare")]),
  ("all_of_printer", [("print", "compare")])
]

end Tromp.Cxx
