/-
  Gen/Cxx/Hexdump.lean — REGENERATED from /repo by tools/cxx2lean.py on every check.  Do not edit.
  The definition is the syntax-directed translation of the C++ function named in its doc comment (statement
  for statement; loops, tests, early exits and their order are those of the source).
  `TrompModel/Tie/*.lean` proves it equal to the hand-written model definition.
-/
import TrompModel.Model.CxxBase
namespace Tromp.Cxx

/-- `trompeloeil::hexdump` — translated from include/trompeloeil/mock.hpp:1192 -/
def hexdump (bytes : List Nat) (size : Nat) : List HTok := Id.run do
  let mut os_ : List HTok := []
  os_ := os_ ++ [HTok.sentry]
  os_ := os_ ++ [HTok.num size, HTok.lit "-byte object={"]
  if (size > 8) then
    os_ := os_ ++ [HTok.lit "
"]
  os_ := os_ ++ [HTok.setfill0, HTok.hex]
  let mut byte_number : Nat := 0
  for byte in bytes do
    os_ := os_ ++ [HTok.lit " 0x", HTok.setw2, HTok.right, HTok.byte byte]
    if (((byte_number &&& 15)) == 15) then
      os_ := os_ ++ [HTok.lit "
"]
    byte_number := byte_number + 1
  os_ := os_ ++ [HTok.lit " }"]
  return os_

end Tromp.Cxx
