/-
  Gen/Cxx/PredicateMatches.lean — REGENERATED from /repo by tools/cxx2lean.py on every check.  Do not edit.
  The definition is the syntax-directed translation of the C++ function named in its doc comment (statement
  for statement; loops, tests, early exits and their order are those of the source).
  `TrompModel/Tie/*.lean` proves it equal to the hand-written model definition.
-/
import TrompModel.Model.CxxBase
namespace Tromp.Cxx

/-- `predicate_matcher<Predicate, Printer, MatcherType, T...>::matches_` — translated from include/trompeloeil/matcher.hpp:186 -/
def predicate_matches {α β : Type} (pred : α → β → Bool) (v : α) (value : β) : Bool := Id.run do
  return pred v value

end Tromp.Cxx
