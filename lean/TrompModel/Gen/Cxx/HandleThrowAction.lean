/-
  Gen/Cxx/HandleThrowAction.lean — REGENERATED from /repo by tools/cxx2lean.py on every check.  Do not edit.
  The definition is the syntax-directed translation of the C++ function named in its doc comment (statement
  for statement; loops, tests, early exits and their order are those of the source).
  `TrompModel/Tie/*.lean` proves it equal to the hand-written model definition.
-/
import TrompModel.Model.CxxBase
namespace Tromp.Cxx

/-- `handle_throw::action (run-time part)` — translated from include/trompeloeil/mock.hpp:2812 -/
def handle_throw_action : List Act := Id.run do
  let mut acts : List Act := []
  acts := acts ++ [Act.stmt "MAKE_THROW_HANDLER(h)"]
  acts := acts ++ [Act.stmt "m.matcher->set_return(tag, std::move(handler))"]
  return acts

end Tromp.Cxx
