/-
  Gen/Cxx/MatchParameters.lean — REGENERATED from /repo by tools/cxx2lean.py on every check.  Do not edit.
  The definition is the syntax-directed translation of the C++ function named in its doc comment (statement
  for statement; loops, tests, early exits and their order are those of the source).
  `TrompModel/Tie/*.lean` proves it equal to the hand-written model definition.
-/
import TrompModel.Model.CxxBase
namespace Tromp.Cxx

/-- `trompeloeil::match_parameters(index_sequence<I...>, t, u)` — translated from include/trompeloeil/mock.hpp:2141 -/
def match_parameters {π : Type} (param_matches : π → Bool) (pairs : List π) : Bool := Id.run do
  let mut all_true : Bool := true
  for pr in pairs do
    all_true := (all_true && param_matches pr)
  return all_true

end Tromp.Cxx
