/-
  Gen/Cxx/RangeNoneOf.lean — REGENERATED from /repo by tools/cxx2lean.py on every check.  Do not edit.
  The definition is the syntax-directed translation of the C++ function named in its doc comment (statement
  for statement; loops, tests, early exits and their order are those of the source).
  `TrompModel/Tie/*.lean` proves it equal to the hand-written model definition.
-/
import TrompModel.Model.CxxBase
namespace Tromp.Cxx

/-- `impl::range_none_of_checker::operator()` — translated from include/trompeloeil/matcher/range.hpp:512 -/
def range_none_of {α μ : Type} (accepts : μ → α → Bool) (range : List α) (comp : μ) : Bool := Id.run do
  let it : List α := range
  return (!it.any (fun (t : α) => accepts comp t))

end Tromp.Cxx
