/-
  Gen/Cxx/RingPushFront.lean — REGENERATED from /repo by tools/cxx2lean.py on every check.  Do not edit.
  The definition is the syntax-directed translation of the C++ function named in its doc comment (statement
  for statement; loops, tests, early exits and their order are those of the source).
  `TrompModel/Tie/*.lean` proves it equal to the hand-written model definition.
-/
import TrompModel.Model.CxxBase
import TrompModel.Model.Ring
namespace Tromp.Cxx

/-- `list<T, Disposer>::push_front` — translated from include/trompeloeil/mock.hpp:1593 -/
def ring_push_front (this t : Ring.Ptr) (h0 : Ring.Heap Ring.Ptr) : Ring.Heap Ring.Ptr := Id.run do
  let mut h := h0
  h := h.setNext t (h.next this)
  h := h.setPrev t this
  h := h.setPrev (h.next this) t
  h := h.setNext this t
  return h

end Tromp.Cxx
