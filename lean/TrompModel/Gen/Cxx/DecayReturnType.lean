/-
  Gen/Cxx/DecayReturnType.lean — REGENERATED from /repo by tools/cxx2lean.py on every check.  Do not edit.
  The definition is the syntax-directed translation of the C++ function named in its doc comment (statement
  for statement; loops, tests, early exits and their order are those of the source).
  `TrompModel/Tie/*.lean` proves it equal to the hand-written model definition.
-/
import TrompModel.Model.CxxBase
namespace Tromp.Cxx

/-- the overload set of `decay_return_type` — from include/trompeloeil/mock.hpp:3327 — (enable_if condition, return type, parameters, body) -/
def decay_return_type_overloads : List (String × String × String × String) := [
  ("std::is_lvalue_reference<T&&>::value", "T&&", "T&& t", "return std::forward<T>(t)"),
  ("std::is_rvalue_reference<T&&>::value", "T", "T&& t", "return std::forward<T>(t)"),
  ("", "T*", "T (&t)[N]", "return t"),
  ("", "void", "", "")
]

end Tromp.Cxx
