/-
  Gen/Cxx/AllOfCheck.lean — REGENERATED from /repo by tools/cxx2lean.py on every check.  Do not edit.
  The definition is the syntax-directed translation of the C++ function named in its doc comment (statement
  for statement; loops, tests, early exits and their order are those of the source).
  `TrompModel/Tie/*.lean` proves it equal to the hand-written model definition.
-/
import TrompModel.Model.CxxBase
namespace Tromp.Cxx

/-- `impl::all_of_checker::operator()` — translated from include/trompeloeil/matcher/set_predicate.hpp:115 -/
def all_of_check {μ : Type} (matches_ : μ → Bool) (compares : List μ) : Bool := Id.run do
  let mut all_true : Bool := true
  for compare in compares do
    all_true := (all_true && matches_ compare)
  return all_true

end Tromp.Cxx
