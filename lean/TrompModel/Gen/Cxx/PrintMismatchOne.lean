/-
  Gen/Cxx/PrintMismatchOne.lean — REGENERATED from /repo by tools/cxx2lean.py on every check.  Do not edit.
  The definition is the syntax-directed translation of the C++ function named in its doc comment (statement
  for statement; loops, tests, early exits and their order are those of the source).
  `TrompModel/Tie/*.lean` proves it equal to the hand-written model definition.
-/
import TrompModel.Model.CxxBase
namespace Tromp.Cxx

/-- `trompeloeil::print_mismatch(os, num, v, p)` — translated from include/trompeloeil/mock.hpp:2165 -/
def print_mismatch_one (matches_ : Bool) (num : Nat) (os0 : List PTok) : List PTok := Id.run do
  let mut os := os0
  if (!matches_) then
    os := os ++ [PTok.expected num]
    pure ()
  return os

end Tromp.Cxx
