/-
  Gen/Cxx/ConditionCheck.lean — REGENERATED from /repo by tools/cxx2lean.py on every check.  Do not edit.
  The definition is the syntax-directed translation of the C++ function named in its doc comment (statement
  for statement; loops, tests, early exits and their order are those of the source).
  `TrompModel/Tie/*.lean` proves it equal to the hand-written model definition.
-/
import TrompModel.Model.CxxBase
namespace Tromp.Cxx

/-- `condition<Sig, Cond>::check` — translated from include/trompeloeil/mock.hpp:2515 -/
def condition_check (c_of_t : Bool) : Bool := Id.run do
  return c_of_t

end Tromp.Cxx
