/-
  Gen/Cxx/RunActions.lean — REGENERATED from /repo by tools/cxx2lean.py on every check.  Do not edit.
  The definition is the syntax-directed translation of the C++ function named in its doc comment (statement
  for statement; loops, tests, early exits and their order are those of the source).
  `TrompModel/Tie/*.lean` proves it equal to the hand-written model definition.
-/
import TrompModel.Model.CxxBase
namespace Tromp.Cxx

/-- `call_matcher::run_actions` — translated from include/trompeloeil/mock.hpp:3088 -/
def run_actions (is_forbidden can_be_called is_saturated : Bool) (actions : List Nat) : List Act := Id.run do
  let mut acts : List Act := []
  if is_forbidden then
    acts := acts ++ [Act.stmt "reported = true"]
    acts := acts ++ [Act.stmt "report_forbidden_call(name, loc, params_string(params))"]
    return acts
  if (!can_be_called) then
    acts := acts ++ [Act.stmt "sequences->validate(severity::fatal, name, loc)"]
    return acts
  acts := acts ++ [Act.stmt "send_ok_report(name)"]
  acts := acts ++ [Act.stmt "sequences->increment_call()"]
  acts := acts ++ [Act.stmt "sequences->retire_predecessors()"]
  if is_saturated then
    acts := acts ++ [Act.stmt "sequences->retire()"]
    acts := acts ++ [Act.stmt "this->unlink()"]
    acts := acts ++ [Act.stmt "saturated_list.push_back(this)"]
  for a in actions do
    acts := acts ++ [Act.on "action" a]
  return acts

end Tromp.Cxx
