/-
  Gen/Cxx/SetTracer.lean — REGENERATED from /repo by tools/cxx2lean.py on every check.  Do not edit.
  The definition is the syntax-directed translation of the C++ function named in its doc comment (statement
  for statement; loops, tests, early exits and their order are those of the source).
  `TrompModel/Tie/*.lean` proves it equal to the hand-written model definition.
-/
import TrompModel.Model.CxxBase
namespace Tromp.Cxx

/-- `trompeloeil::set_tracer` — translated from include/trompeloeil/mock.hpp:751 -/
def set_tracer {τ : Type} (obj : Option τ) (cur0 : Option τ) : Option τ × Option τ := Id.run do
  let mut ptr := cur0
  let rv := ptr
  ptr := obj
  return (rv, ptr)

end Tromp.Cxx
