/-
  Gen/Cxx/HandleCoThrow.lean — REGENERATED from /repo by tools/cxx2lean.py on every check.  Do not edit.
  The definition is the syntax-directed translation of the C++ function named in its doc comment (statement
  for statement; loops, tests, early exits and their order are those of the source).
  `TrompModel/Tie/*.lean` proves it equal to the hand-written model definition.
-/
import TrompModel.Model.CxxBase
namespace Tromp.Cxx

/-- `handle_co_throw::action` — translated from include/trompeloeil/coro.hpp:277 -/
def handle_co_throw {ε η : Type} (valid : Bool) (h : η) (st0 : CoSt ε η) : CoSt ε η := Id.run do
  let mut st := st0
  if valid then
    if st.ylist.isNone then
      st := st.fresh
    let handler := h
    st := st.setHandler handler
  return st

end Tromp.Cxx
