/-
  Gen/Cxx/AddLast.lean — REGENERATED from /repo by tools/cxx2lean.py on every check.  Do not edit.
  The definition is the syntax-directed translation of the C++ function named in its doc comment (statement
  for statement; loops, tests, early exits and their order are those of the source).
  `TrompModel/Tie/*.lean` proves it equal to the hand-written model definition.
-/
import TrompModel.Model.CxxBase
namespace Tromp.Cxx

/-- `sequence_type::add_last` — translated from include/trompeloeil/sequence.hpp:344 -/
def add_last {α : Type} (m : α) (matchers0 : List α) : List α := Id.run do
  let mut matchers := matchers0
  matchers := matchers ++ [m]
  return matchers

end Tromp.Cxx
