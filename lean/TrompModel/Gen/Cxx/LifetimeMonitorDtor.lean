/-
  Gen/Cxx/LifetimeMonitorDtor.lean — REGENERATED from /repo by tools/cxx2lean.py on every check.  Do not edit.
  The definition is the syntax-directed translation of the C++ function named in its doc comment (statement
  for statement; loops, tests, early exits and their order are those of the source).
  `TrompModel/Tie/*.lean` proves it equal to the hand-written model definition.
-/
import TrompModel.Model.CxxBase
namespace Tromp.Cxx

/-- `lifetime_monitor::~lifetime_monitor` — translated from include/trompeloeil/lifetime.hpp:98 -/
def lifetime_monitor_dtor (died : Bool) (this_ : Nat) (chain0 : List Nat) : List Act × List Nat := Id.run do
  let mut acts : List Act := []
  let mut chain := chain0
  if (!died) then
    acts := acts ++ [Act.stmt "send_report(severity::nonfatal, loc, os.str())"]
    chain := chain.erase this_
  acts := acts ++ [Act.stmt "sequences.reset()"]
  return (acts, chain)

end Tromp.Cxx
