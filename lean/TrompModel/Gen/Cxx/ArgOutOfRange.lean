/-
  Gen/Cxx/ArgOutOfRange.lean — REGENERATED from /repo by tools/cxx2lean.py on every check.  Do not edit.
  The definition is the syntax-directed translation of the C++ function named in its doc comment (statement
  for statement; loops, tests, early exits and their order are those of the source).
  `TrompModel/Tie/*.lean` proves it equal to the hand-written model definition.
-/
import TrompModel.Model.CxxBase
namespace Tromp.Cxx

/-- `trompeloeil::arg<N>(void const*, std::false_type)` — translated from include/trompeloeil/mock.hpp:3249 -/
def arg_out_of_range : Option Nat := Id.run do
  return none

end Tromp.Cxx
