/-
  Gen/Cxx/Mkarg.lean — REGENERATED from /repo by tools/cxx2lean.py on every check.  Do not edit.
  The definition is the syntax-directed translation of the C++ function named in its doc comment (statement
  for statement; loops, tests, early exits and their order are those of the source).
  `TrompModel/Tie/*.lean` proves it equal to the hand-written model definition.
-/
import TrompModel.Model.CxxBase
import TrompModel.Gen.Cxx.ArgInRange
import TrompModel.Gen.Cxx.ArgOutOfRange
namespace Tromp.Cxx

/-- `trompeloeil::mkarg<N>` — translated from include/trompeloeil/mock.hpp:3264 -/
def mkarg (N size : Nat) : Option Nat := Id.run do
  return if N ≤ size then some (arg_in_range N) else arg_out_of_range

end Tromp.Cxx
