/-
  Gen/Cxx/MatchConditions.lean — REGENERATED from /repo by tools/cxx2lean.py on every check.  Do not edit.
  The definition is the syntax-directed translation of the C++ function named in its doc comment (statement
  for statement; loops, tests, early exits and their order are those of the source).
  `TrompModel/Tie/*.lean` proves it equal to the hand-written model definition.
-/
import TrompModel.Model.CxxBase
namespace Tromp.Cxx

/-- `call_matcher::match_conditions` — translated from include/trompeloeil/mock.hpp:3053 -/
def match_conditions {κ : Type} (check : κ → Bool) (conditions : List κ) : Bool × List κ := Id.run do
  let mut evals : List κ := []
  for c in conditions do
    evals := evals ++ [c]
    if (!check c) then
      return (false, evals)
  return (true, evals)

end Tromp.Cxx
