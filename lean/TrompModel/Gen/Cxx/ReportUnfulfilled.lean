/-
  Gen/Cxx/ReportUnfulfilled.lean — REGENERATED from /repo by tools/cxx2lean.py on every check.  Do not edit.
  The definition is the syntax-directed translation of the C++ function named in its doc comment (statement
  for statement; loops, tests, early exits and their order are those of the source).
  `TrompModel/Tie/*.lean` proves it equal to the hand-written model definition.
-/
import TrompModel.Model.CxxBase
namespace Tromp.Cxx

/-- `trompeloeil::report_unfulfilled` — translated from include/trompeloeil/mock.hpp:2906 -/
def report_unfulfilled (min_calls call_count : Nat) : Sev × List RTok := Id.run do
  let mut os : List RTok := []
  os := os ++ [RTok.reason, RTok.text, RTok.name, RTok.text]
  if (min_calls == 1) then
    os := os ++ [RTok.minOnce]
  else
    os := os ++ [RTok.minTimes min_calls, RTok.text]
  os := os ++ [RTok.text]
  if (call_count == 0) then
    os := os ++ [RTok.never]
  else
    if (call_count == 1) then
      os := os ++ [RTok.once]
    else
      os := os ++ [RTok.text, RTok.times call_count, RTok.text]
  os := os ++ [RTok.values]
  return (Sev.nonfatal, os)

end Tromp.Cxx
