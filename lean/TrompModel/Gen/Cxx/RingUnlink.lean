/-
  Gen/Cxx/RingUnlink.lean — REGENERATED from /repo by tools/cxx2lean.py on every check.  Do not edit.
  The definition is the syntax-directed translation of the C++ function named in its doc comment (statement
  for statement; loops, tests, early exits and their order are those of the source).
  `TrompModel/Tie/*.lean` proves it equal to the hand-written model definition.
-/
import TrompModel.Model.CxxBase
import TrompModel.Model.Ring
namespace Tromp.Cxx

/-- `list_elem<T>::unlink` — translated from include/trompeloeil/mock.hpp:1369 -/
def ring_unlink (this : Ring.Ptr) (h0 : Ring.Heap Ring.Ptr) : Ring.Heap Ring.Ptr := Id.run do
  let mut h := h0
  let n := (h.next this)
  let p := (h.prev this)
  h := h.setPrev n p
  h := h.setNext p n
  h := h.setNext this this
  h := h.setPrev this this
  return h

end Tromp.Cxx
