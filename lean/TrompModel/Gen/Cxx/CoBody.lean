/-
  Gen/Cxx/CoBody.lean — REGENERATED from /repo by tools/cxx2lean.py on every check.  Do not edit.
  The definition is the syntax-directed translation of the C++ function named in its doc comment (statement
  for statement; loops, tests, early exits and their order are those of the source).
  `TrompModel/Tie/*.lean` proves it equal to the hand-written model definition.
-/
import TrompModel.Model.CxxBase
namespace Tromp.Cxx

/-- `co_return_handler_t::call` — translated from include/trompeloeil/coro.hpp:133 -/
def co_body {ε : Type} (canYield : Bool) (yields : List ε) : List (CoAct ε) := Id.run do
  let mut acts : List (CoAct ε) := []
  if canYield then
    for e in yields do
      acts := acts ++ [CoAct.yield e]
  acts := acts ++ [CoAct.ret]
  return acts

end Tromp.Cxx
