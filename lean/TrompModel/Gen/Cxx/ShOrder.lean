/-
  Gen/Cxx/ShOrder.lean — REGENERATED from /repo by tools/cxx2lean.py on every check.  Do not edit.
  The definition is the syntax-directed translation of the C++ function named in its doc comment (statement
  for statement; loops, tests, early exits and their order are those of the source).
  `TrompModel/Tie/*.lean` proves it equal to the hand-written model definition.
-/
import TrompModel.Model.CxxBase
namespace Tromp.Cxx

/-- `sequence_handler<N>::order` — translated from include/trompeloeil/mock.hpp:1892 -/
def sh_order (matchers_order : Nat) : Nat := Id.run do
  return matchers_order

end Tromp.Cxx
