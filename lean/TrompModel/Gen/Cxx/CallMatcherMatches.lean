/-
  Gen/Cxx/CallMatcherMatches.lean — REGENERATED from /repo by tools/cxx2lean.py on every check.  Do not edit.
  The definition is the syntax-directed translation of the C++ function named in its doc comment (statement
  for statement; loops, tests, early exits and their order are those of the source).
  `TrompModel/Tie/*.lean` proves it equal to the hand-written model definition.
-/
import TrompModel.Model.CxxBase
import TrompModel.Gen.Cxx.MatchConditions
namespace Tromp.Cxx

/-- `call_matcher::matches` — translated from include/trompeloeil/mock.hpp:3044 -/
def call_matcher_matches {κ : Type} (paramsOk : Bool) (check : κ → Bool) (conditions : List κ) : Bool × List κ := Id.run do
  return if paramsOk then match_conditions check conditions else (false, [])

end Tromp.Cxx
