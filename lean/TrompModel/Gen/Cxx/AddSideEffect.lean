/-
  Gen/Cxx/AddSideEffect.lean — REGENERATED from /repo by tools/cxx2lean.py on every check.  Do not edit.
  The definition is the syntax-directed translation of the C++ function named in its doc comment (statement
  for statement; loops, tests, early exits and their order are those of the source).
  `TrompModel/Tie/*.lean` proves it equal to the hand-written model definition.
-/
import TrompModel.Model.CxxBase
namespace Tromp.Cxx

/-- `call_matcher::add_side_effect` — translated from include/trompeloeil/mock.hpp:3178 -/
def add_side_effect {κ : Type} (s : κ) (actions0 : List κ) : List κ := Id.run do
  let mut actions := actions0
  let effect := s
  actions := actions ++ [effect]
  return actions

end Tromp.Cxx
