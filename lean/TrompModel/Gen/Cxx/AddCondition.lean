/-
  Gen/Cxx/AddCondition.lean — REGENERATED from /repo by tools/cxx2lean.py on every check.  Do not edit.
  The definition is the syntax-directed translation of the C++ function named in its doc comment (statement
  for statement; loops, tests, early exits and their order are those of the source).
  `TrompModel/Tie/*.lean` proves it equal to the hand-written model definition.
-/
import TrompModel.Model.CxxBase
namespace Tromp.Cxx

/-- `call_matcher::add_condition` — translated from include/trompeloeil/mock.hpp:3168 -/
def add_condition {κ : Type} (c : κ) (conditions0 : List κ) : List κ := Id.run do
  let mut conditions := conditions0
  let cond := c
  conditions := conditions ++ [cond]
  return conditions

end Tromp.Cxx
