/-
  Gen/Cxx/Find.lean — REGENERATED from /repo by tools/cxx2lean.py on every check.  Do not edit.
  The definition is the syntax-directed translation of the C++ function named in its doc comment (statement
  for statement; loops, tests, early exits and their order are those of the source).
  `TrompModel/Tie/*.lean` proves it equal to the hand-written model definition.
-/
import TrompModel.Model.CxxBase
namespace Tromp.Cxx

/-- `trompeloeil::find` — translated from include/trompeloeil/mock.hpp:2326 -/
def find {α : Type} (matches_ : α → Bool) (sequence_cost : α → Nat) (list : List α) : Option α := Id.run do
  let mut first_match : Option α := none
  let mut lowest_cost : Nat := topU
  for i in list do
    if matches_ i then
      let cost : Nat := sequence_cost i
      if (cost == 0) then
        return some i
      if (first_match.isNone || (cost < lowest_cost)) then
        first_match := some i
        lowest_cost := cost
  return first_match

end Tromp.Cxx
