/-
  Gen/Cxx/DeathwatchedDtor.lean — REGENERATED from /repo by tools/cxx2lean.py on every check.  Do not edit.
  The definition is the syntax-directed translation of the C++ function named in its doc comment (statement
  for statement; loops, tests, early exits and their order are those of the source).
  `TrompModel/Tie/*.lean` proves it equal to the hand-written model definition.
-/
import TrompModel.Model.CxxBase
namespace Tromp.Cxx

/-- `deathwatched<T>::~deathwatched` — translated from include/trompeloeil/lifetime.hpp:160 -/
def deathwatched_dtor (chain : List Nat) : List Act := Id.run do
  let mut acts : List Act := []
  if (!chain.isEmpty) then
    for m in chain do
      acts := acts ++ [Act.on "notify" m]
    return acts
  acts := acts ++ [Act.stmt "send_report(severity::nonfatal, location(), os.str())"]
  return acts

end Tromp.Cxx
