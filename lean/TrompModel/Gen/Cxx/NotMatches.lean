/-
  Gen/Cxx/NotMatches.lean — REGENERATED from /repo by tools/cxx2lean.py on every check.  Do not edit.
  The definition is the syntax-directed translation of the C++ function named in its doc comment (statement
  for statement; loops, tests, early exits and their order are those of the source).
  `TrompModel/Tie/*.lean` proves it equal to the hand-written model definition.
-/
import TrompModel.Model.CxxBase
namespace Tromp.Cxx

/-- `not_matcher<M>::matches` — translated from include/trompeloeil/matcher/not.hpp:42 -/
def not_matches (m_matches_u : Bool) : Bool := Id.run do
  return (!m_matches_u)

end Tromp.Cxx
