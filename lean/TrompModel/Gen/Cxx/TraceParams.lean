/-
  Gen/Cxx/TraceParams.lean — REGENERATED from /repo by tools/cxx2lean.py on every check.  Do not edit.
  The definition is the syntax-directed translation of the C++ function named in its doc comment (statement
  for statement; loops, tests, early exits and their order are those of the source).
  `TrompModel/Tie/*.lean` proves it equal to the hand-written model definition.
-/
import TrompModel.Model.CxxBase
namespace Tromp.Cxx

/-- `trace_agent::trace_params` — translated from include/trompeloeil/mock.hpp:2276 -/
def trace_params (t : Bool) (os0 : List TTok) : List TTok := Id.run do
  let mut os := os0
  if t then
    os := os ++ [TTok.params]
  return os

end Tromp.Cxx
