/-
  Gen/Cxx/Decommission.lean — REGENERATED from /repo by tools/cxx2lean.py on every check.  Do not edit.
  The definition is the syntax-directed translation of the C++ function named in its doc comment (statement
  for statement; loops, tests, early exits and their order are those of the source).
  `TrompModel/Tie/*.lean` proves it equal to the hand-written model definition.
-/
import TrompModel.Model.CxxBase
namespace Tromp.Cxx

/-- `call_matcher_list::decommission` — translated from include/trompeloeil/mock.hpp:2007 -/
def decommission (list : List Nat) : List Act := Id.run do
  let mut acts : List Act := []
  for m in list do
    acts := acts ++ [Act.on "mock_destroyed" m]
    acts := acts ++ [Act.on "unlink" m]
  return acts

end Tromp.Cxx
