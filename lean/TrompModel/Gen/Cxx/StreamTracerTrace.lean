/-
  Gen/Cxx/StreamTracerTrace.lean — REGENERATED from /repo by tools/cxx2lean.py on every check.  Do not edit.
  The definition is the syntax-directed translation of the C++ function named in its doc comment (statement
  for statement; loops, tests, early exits and their order are those of the source).
  `TrompModel/Tie/*.lean` proves it equal to the hand-written model definition.
-/
import TrompModel.Model.CxxBase
namespace Tromp.Cxx

/-- `stream_tracer::trace` — translated from include/trompeloeil/stream_tracer.hpp:31 -/
def stream_tracer_trace : List String := Id.run do
  let mut out : List String := []
  out := out ++ ["location{file, line}", "newline", "call", "newline"]
  return out

end Tromp.Cxx
