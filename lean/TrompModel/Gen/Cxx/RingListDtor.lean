/-
  Gen/Cxx/RingListDtor.lean — REGENERATED from /repo by tools/cxx2lean.py on every check.  Do not edit.
  The definition is the syntax-directed translation of the C++ function named in its doc comment (statement
  for statement; loops, tests, early exits and their order are those of the source).
  `TrompModel/Tie/*.lean` proves it equal to the hand-written model definition.
-/
import TrompModel.Model.CxxBase
import TrompModel.Model.Ring
import TrompModel.Gen.Cxx.RingUnlink
import TrompModel.Gen.Cxx.RingBegin
import TrompModel.Gen.Cxx.RingEnd
import TrompModel.Gen.Cxx.RingIterIncr
namespace Tromp.Cxx

/-- `list<T, Disposer>::~list` — translated from include/trompeloeil/mock.hpp:1560 -/
def ring_list_dtor (this : Ring.Ptr) (fuel : Nat) (h0 : Ring.Heap Ring.Ptr) : Ring.Heap Ring.Ptr := Id.run do
  let mut h := h0
  let mut i := ring_begin this h
  for _ in List.replicate fuel () do
    if !((i != ring_end this h)) then
      break
    let elem := i
    i := ring_iter_incr i h
    h := ring_unlink elem h
  return h

end Tromp.Cxx
