/-
  Gen/Cxx/ChainLifetimeMonitor.lean — REGENERATED from /repo by tools/cxx2lean.py on every check.  Do not edit.
  The definition is the syntax-directed translation of the C++ function named in its doc comment (statement
  for statement; loops, tests, early exits and their order are those of the source).
  `TrompModel/Tie/*.lean` proves it equal to the hand-written model definition.
-/
import TrompModel.Model.CxxBase
namespace Tromp.Cxx

/-- `trompeloeil::chain_lifetime_monitor` — translated from include/trompeloeil/lifetime.hpp:154 -/
def chain_lifetime_monitor {μ : Type} [DecidableEq μ] (monitor : μ) (older : Option μ) (older_of0 : μ → Option μ) : μ → Option μ := Id.run do
  let mut older_of := older_of0
  older_of := fun x => if x = monitor then older else older_of x
  return older_of

end Tromp.Cxx
