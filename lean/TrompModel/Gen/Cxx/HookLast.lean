/-
  Gen/Cxx/HookLast.lean — REGENERATED from /repo by tools/cxx2lean.py on every check.  Do not edit.
  The definition is the syntax-directed translation of the C++ function named in its doc comment (statement
  for statement; loops, tests, early exits and their order are those of the source).
  `TrompModel/Tie/*.lean` proves it equal to the hand-written model definition.
-/
import TrompModel.Model.CxxBase
namespace Tromp.Cxx

/-- `call_matcher::hook_last` — translated from include/trompeloeil/mock.hpp:3035 -/
def hook_last {α : Type} (this : α) (list0 : List α) : List α := Id.run do
  let mut list := list0
  list := this :: list
  return list

end Tromp.Cxx
