/-
  Gen/Cxx/DerefMatches.lean — REGENERATED from /repo by tools/cxx2lean.py on every check.  Do not edit.
  The definition is the syntax-directed translation of the C++ function named in its doc comment (statement
  for statement; loops, tests, early exits and their order are those of the source).
  `TrompModel/Tie/*.lean` proves it equal to the hand-written model definition.
-/
import TrompModel.Model.CxxBase
namespace Tromp.Cxx

/-- `ptr_deref<M>::matches` — translated from include/trompeloeil/matcher/deref.hpp:42 -/
def deref_matches (u_not_null : Bool) (m_matches_pointee : Bool) : Bool := Id.run do
  return (u_not_null && m_matches_pointee)

end Tromp.Cxx
