/-
  Gen/Cxx/StreamSentryCtor.lean — REGENERATED from /repo by tools/cxx2lean.py on every check.  Do not edit.
  The definition is the syntax-directed translation of the C++ function named in its doc comment (statement
  for statement; loops, tests, early exits and their order are those of the source).
  `TrompModel/Tie/*.lean` proves it equal to the hand-written model definition.
-/
import TrompModel.Model.CxxBase
namespace Tromp.Cxx

/-- member-initialiser list of `stream_sentry::stream_sentry` — from include/trompeloeil/mock.hpp:958 -/
def stream_sentry_ctor : List (String × String) := [
  ("os", "os_"),
  ("width", "os.width(0)"),
  ("flags", "os.flags(std::ios_base::dec | std::ios_base::left)"),
  ("fill", "os.fill(' ')")
]

end Tromp.Cxx
