/-
  Gen/Cxx/Order.lean — REGENERATED from /repo by tools/cxx2lean.py on every check.  Do not edit.
  The definition is the syntax-directed translation of the C++ function named in its doc comment (statement
  for statement; loops, tests, early exits and their order are those of the source).
  `TrompModel/Tie/*.lean` proves it equal to the hand-written model definition.
-/
import TrompModel.Model.CxxBase
namespace Tromp.Cxx

/-- `sequence_matchers<N>::order` — translated from include/trompeloeil/sequence.hpp:393 -/
def order {α : Type} (cost_of : α → Nat) (matchers : List α) : Nat := Id.run do
  let mut highest_order : Nat := 0
  for m in matchers do
    let cost : Nat := cost_of m
    if (cost > highest_order) then
      highest_order := cost
  return highest_order

end Tromp.Cxx
