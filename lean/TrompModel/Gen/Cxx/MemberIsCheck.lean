/-
  Gen/Cxx/MemberIsCheck.lean — REGENERATED from /repo by tools/cxx2lean.py on every check.  Do not edit.
  The definition is the syntax-directed translation of the C++ function named in its doc comment (statement
  for statement; loops, tests, early exits and their order are those of the source).
  `TrompModel/Tie/*.lean` proves it equal to the hand-written model definition.
-/
import TrompModel.Model.CxxBase
namespace Tromp.Cxx

/-- `impl::member_is_matcher<M>::operator()` — translated from include/trompeloeil/matcher/member_is.hpp:30 -/
def member_is_check {γ μ : Type} (param_matches : γ → μ → Bool) (c : γ) (member_of_v : μ) : Bool := Id.run do
  return param_matches c member_of_v

end Tromp.Cxx
