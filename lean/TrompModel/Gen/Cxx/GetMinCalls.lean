/-
  Gen/Cxx/GetMinCalls.lean — REGENERATED from /repo by tools/cxx2lean.py on every check.  Do not edit.
  The definition is the syntax-directed translation of the C++ function named in its doc comment (statement
  for statement; loops, tests, early exits and their order are those of the source).
  `TrompModel/Tie/*.lean` proves it equal to the hand-written model definition.
-/
import TrompModel.Model.CxxBase
namespace Tromp.Cxx

/-- `sequence_handler_base::get_min_calls` — translated from include/trompeloeil/mock.hpp:1813 -/
def get_min_calls (min_calls max_calls call_count : Nat) : Nat := Id.run do
  return min_calls

end Tromp.Cxx
