/-
  Gen/Cxx/ThrowHandlerCall.lean — REGENERATED from /repo by tools/cxx2lean.py on every check.  Do not edit.
  The definition is the syntax-directed translation of the C++ function named in its doc comment (statement
  for statement; loops, tests, early exits and their order are those of the source).
  `TrompModel/Tie/*.lean` proves it equal to the hand-written model definition.
-/
import TrompModel.Model.CxxBase
namespace Tromp.Cxx

/-- `throw_handler_t<H, signature>::operator()` — translated from include/trompeloeil/mock.hpp:2629 -/
def throw_handler_call : List Act := Id.run do
  let mut acts : List Act := []
  acts := acts ++ [Act.stmt "try, on any exception: throw;"]
  acts := acts ++ [Act.stmt "h(p)"]
  acts := acts ++ [Act.stmt "abort()"]
  return acts
  return acts ++ [Act.stmt "return default_return<R>()"]

end Tromp.Cxx
