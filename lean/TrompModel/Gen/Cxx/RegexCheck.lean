/-
  Gen/Cxx/RegexCheck.lean — REGENERATED from /repo by tools/cxx2lean.py on every check.  Do not edit.
  The definition is the syntax-directed translation of the C++ function named in its doc comment (statement
  for statement; loops, tests, early exits and their order are those of the source).
  `TrompModel/Tie/*.lean` proves it equal to the hand-written model definition.
-/
import TrompModel.Model.CxxBase
namespace Tromp.Cxx

/-- `lambdas::regex_check::operator()` — translated from include/trompeloeil/matcher/re.hpp:89 -/
def regex_check (str_not_null : Bool) (regex_search : Bool) : Bool := Id.run do
  return (str_not_null && regex_search)

end Tromp.Cxx
