/-
  Gen/Cxx/HandleRetire.lean — REGENERATED from /repo by tools/cxx2lean.py on every check.  Do not edit.
  The definition is the syntax-directed translation of the C++ function named in its doc comment (statement
  for statement; loops, tests, early exits and their order are those of the source).
  `TrompModel/Tie/*.lean` proves it equal to the hand-written model definition.
-/
import TrompModel.Model.CxxBase
namespace Tromp.Cxx

/-- `sequence_matcher::retire` — translated from include/trompeloeil/sequence.hpp:142 -/
def handle_retire (seq_attached : Bool) : List Act := Id.run do
  let mut acts : List Act := []
  acts := acts ++ [Act.stmt "this->unlink()"]
  if seq_attached then
    acts := acts ++ [Act.stmt "seq->add_retired(this)"]
  return acts

end Tromp.Cxx
