/-
  Gen/Cxx/ReportForbiddenCall.lean — REGENERATED from /repo by tools/cxx2lean.py on every check.  Do not edit.
  The definition is the syntax-directed translation of the C++ function named in its doc comment (statement
  for statement; loops, tests, early exits and their order are those of the source).
  `TrompModel/Tie/*.lean` proves it equal to the hand-written model definition.
-/
import TrompModel.Model.CxxBase
namespace Tromp.Cxx

/-- `trompeloeil::report_forbidden_call` — translated from include/trompeloeil/mock.hpp:2937 -/
def report_forbidden_call : Sev × List RTok := Id.run do
  let mut os : List RTok := []
  os := os ++ [RTok.text, RTok.name, RTok.text, RTok.loc, RTok.text, RTok.values]
  return (Sev.fatal, os)

end Tromp.Cxx
