/-
  Gen/Cxx/ArgInRange.lean — REGENERATED from /repo by tools/cxx2lean.py on every check.  Do not edit.
  The definition is the syntax-directed translation of the C++ function named in its doc comment (statement
  for statement; loops, tests, early exits and their order are those of the source).
  `TrompModel/Tie/*.lean` proves it equal to the hand-written model definition.
-/
import TrompModel.Model.CxxBase
namespace Tromp.Cxx

/-- `trompeloeil::arg<N>(T*, std::true_type)` — translated from include/trompeloeil/mock.hpp:3238 -/
def arg_in_range (N : Nat) : Nat := Id.run do
  return N - 1

end Tromp.Cxx
