/-
  Gen/Cxx/EndsWithElements.lean — REGENERATED from /repo by tools/cxx2lean.py on every check.  Do not edit.
  The definition is the syntax-directed translation of the C++ function named in its doc comment (statement
  for statement; loops, tests, early exits and their order are those of the source).
  `TrompModel/Tie/*.lean` proves it equal to the hand-written model definition.
-/
import TrompModel.Model.CxxBase
namespace Tromp.Cxx

/-- `impl::ends_with_checker::operator()` — translated from include/trompeloeil/matcher/range.hpp:715 -/
def ends_with_elements {α μ : Type} (accepts : μ → α → Bool) (range : List α) (elements : List μ) : Bool := Id.run do
  let mut it : List α := range
  let num_values := elements.length
  let size := it.length
  if (size < num_values) then
    return false
  it := it.drop (size - num_values)
  let mut all_true : Bool := true
  for compare in elements do
    if all_true then
      match it with
      | [] => all_true := false
      | v :: rest =>
        all_true := accepts compare v
        it := rest
  return all_true

end Tromp.Cxx
