/-
  Gen/Cxx/AllRetirePredecessors.lean — REGENERATED from /repo by tools/cxx2lean.py on every check.  Do not edit.
  The definition is the syntax-directed translation of the C++ function named in its doc comment (statement
  for statement; loops, tests, early exits and their order are those of the source).
  `TrompModel/Tie/*.lean` proves it equal to the hand-written model definition.
-/
import TrompModel.Model.CxxBase
namespace Tromp.Cxx

/-- `sequence_matchers<N>::retire_predecessors` — translated from include/trompeloeil/sequence.hpp:416 -/
def all_retire_predecessors (matchers : List Nat) : List Act := Id.run do
  let mut acts : List Act := []
  for e in matchers do
    acts := acts ++ [Act.on "retire_predecessors" e]
  return acts

end Tromp.Cxx
