/-
  Gen/Cxx/HandleIsOptional.lean — REGENERATED from /repo by tools/cxx2lean.py on every check.  Do not edit.
  The definition is the syntax-directed translation of the C++ function named in its doc comment (statement
  for statement; loops, tests, early exits and their order are those of the source).
  `TrompModel/Tie/*.lean` proves it equal to the hand-written model definition.
-/
import TrompModel.Model.CxxBase
namespace Tromp.Cxx

/-- `sequence_matcher::is_optional` — translated from include/trompeloeil/sequence.hpp:371 -/
def is_optional (min_calls : Nat) : Bool := Id.run do
  return (min_calls == 0)

end Tromp.Cxx
