/-
  Gen/Cxx/NullOnMoveMoveCtor.lean — REGENERATED from /repo by tools/cxx2lean.py on every check.  Do not edit.
  The definition is the syntax-directed translation of the C++ function named in its doc comment (statement
  for statement; loops, tests, early exits and their order are those of the source).
  `TrompModel/Tie/*.lean` proves it equal to the hand-written model definition.
-/
import TrompModel.Model.CxxBase
namespace Tromp.Cxx

/-- `null_on_move<T>::null_on_move(null_on_move&&)` — translated from include/trompeloeil/mock.hpp:1688 -/
def null_on_move_move_ctor {μ : Type} (other : Option μ) : Option μ := Id.run do
  let p : Option μ := none
  pure ()
  return p

end Tromp.Cxx
