/-
  Gen/Cxx/Notify.lean — REGENERATED from /repo by tools/cxx2lean.py on every check.  Do not edit.
  The definition is the syntax-directed translation of the C++ function named in its doc comment (statement
  for statement; loops, tests, early exits and their order are those of the source).
  `TrompModel/Tie/*.lean` proves it equal to the hand-written model definition.
-/
import TrompModel.Model.CxxBase
namespace Tromp.Cxx

/-- `lifetime_monitor::notify` — translated from include/trompeloeil/lifetime.hpp:117 -/
def notify : List Act := Id.run do
  let mut acts : List Act := []
  acts := acts ++ [Act.stmt "died = true"]
  acts := acts ++ [Act.stmt "sequences->validate(severity::nonfatal, call_name, loc)"]
  acts := acts ++ [Act.stmt "sequences->increment_call()"]
  acts := acts ++ [Act.stmt "sequences->retire_predecessors()"]
  acts := acts ++ [Act.stmt "sequences->retire()"]
  return acts

end Tromp.Cxx
